(* ScanP.v — the scan model is threshold-consistent, count-consistent, stateless, and context-closed:
   whatever the local detector reports on a payload node it reports wherever the payload occurs. *)
From Coq Require Import List String Ascii NArith Bool Arith Lia.
From GV Require Import Model.Walk Model.QAst Model.QRef Model.Scan Model.ScanRef Proofs.QAstP Proofs.ExtractP.
Import ListNotations.
Local Open Scope string_scope.
Local Open Scope list_scope.

(* ---- threshold: raising the minimum severity removes exactly the findings below it ---- *)
Definition keeps (m : minsev) (f : finding) : bool := should_include m (f_sev f).

Lemma emit_filter m f : emit m f = filter (keeps m) (emit (Some Low) f).
Proof. unfold emit, keeps. cbn. destruct (should_include m (f_sev f)) eqn:E; cbn; rewrite ?E; reflexivity. Qed.

Lemma filter_flat_map {A B} (p : B -> bool) (f : A -> list B) l :
  filter p (flat_map f l) = flat_map (fun x => filter p (f x)) l.
Proof. induction l as [|x r IH]; cbn; [reflexivity|]. rewrite filter_app, IH. reflexivity. Qed.

Ltac ifs := repeat match goal with |- context [if ?b then _ else _] => destruct b end.

Lemma or_check_filter m t : or_check m t = filter (keeps m) (or_check (Some Low) t).
Proof.
  unfold or_check. rewrite filter_app.
  destruct (the_kid SRight t), (the_kid SLeft t); ifs; rewrite <- ?emit_filter; reflexivity.
Qed.

Lemma local_findings_filter m t : local_findings m t = filter (keeps m) (local_findings (Some Low) t).
Proof.
  unfold local_findings. destruct (q_kind t); try reflexivity.
  - (* KSetOp *) destruct (str_eqb _ "UNION"); [|reflexivity]. unfold union_check.
    destruct (the_kid SRight t); [|reflexivity]. destruct (is_kind KSelect q); [|reflexivity].
    rewrite filter_app. ifs; rewrite <- ?emit_filter; reflexivity.
  - (* KBinary *) unfold binary_check. rewrite filter_app.
    destruct (is_tautology t), (str_eqb _ "OR"); rewrite <- ?emit_filter, <- ?or_check_filter; reflexivity.
  - (* KFunc *) unfold func_check. rewrite filter_app. ifs; rewrite <- ?emit_filter; reflexivity.
Qed.

Theorem threshold_filter em root m stmts :
  scan_findings em root m stmts = filter (keeps m) (scan_findings em root (Some Low) stmts).
Proof.
  unfold scan_findings. rewrite filter_flat_map. apply flat_map_ext_in. intros s _.
  rewrite filter_flat_map. apply flat_map_ext_in. intros t _. apply local_findings_filter.
Qed.

(* with the lowest threshold nothing is dropped, and every reported finding meets the threshold *)
Theorem threshold_sound em root m stmts f : In f (scan_findings em root m stmts) -> keeps m f = true.
Proof. rewrite threshold_filter. intros H. apply filter_In in H. tauto. Qed.

(* ---- counts ---- *)
Lemma sev_cases (s : sev) : s = Critical \/ s = High \/ s = Medium \/ s = Low.
Proof. destruct s; tauto. Qed.

Lemma counts_partition (l : list finding) :
  count_sev Critical l + count_sev High l + count_sev Medium l + count_sev Low l = List.length l.
Proof.
  unfold count_sev. induction l as [|f r IH]; [reflexivity|].
  cbn [filter List.length]. destruct (f_sev f); cbn; lia.
Qed.

Theorem counts_consistent em root m stmts :
  let (fs, c) := scan em root m stmts in
  c_total c = List.length fs /\
  c_critical c = count_sev Critical fs /\ c_high c = count_sev High fs /\
  c_medium c = count_sev Medium fs /\ c_low c = count_sev Low fs /\
  c_critical c + c_high c + c_medium c + c_low c = c_total c.
Proof. unfold scan, update_counts. cbn. repeat split. apply counts_partition. Qed.

(* ---- no state: scanning a list of statements is scanning each of them ---- *)
Theorem scan_pure em root m a b :
  scan_findings em root m (a ++ b) = scan_findings em root m a ++ scan_findings em root m b.
Proof. unfold scan_findings, scan_roots. rewrite filter_app. apply flat_map_app. Qed.

(* ---- context closure ---- *)
Section Closed.
  Variable em : kind -> slot -> bool.
  Hypothesis em_ok : em_covers em = true.

  Ltac em_s := match goal with |- em ?k ?s = true => exact (em_all em em_ok k s eq_refl) end.

  Definition R (c : qn) (x : msub) := qreach em c (ast_sub x).
  Definition RL (l : list qn) (x : msub) := exists c, In c l /\ qreach em c (ast_sub x).

  Lemma reach_via k a kids s l x : In (s, l) kids -> em k s = true -> RL l x -> R (QN k a kids) x.
  Proof. intros Hin Hem [c [Hc Hr]]. unfold R. eapply qreach_kid; eauto. Qed.

  Lemma RL_app_l a b x : RL a x -> RL (a ++ b) x.
  Proof. intros [c [H1 H2]]. exists c. split; [apply in_or_app; left; exact H1|exact H2]. Qed.
  Lemma RL_app_r a b x : RL b x -> RL (a ++ b) x.
  Proof. intros [c [H1 H2]]. exists c. split; [apply in_or_app; right; exact H1|exact H2]. Qed.
  Lemma RL_cons_hd c l x : R c x -> RL (c :: l) x.
  Proof. intros H. exists c. split; [left; reflexivity|exact H]. Qed.
  Lemma RL_cons_tl c l x : RL l x -> RL (c :: l) x.
  Proof. intros [d [H1 H2]]. exists d. split; [right; exact H1|exact H2]. Qed.
  Lemma RL_one c x : R c x -> RL [c] x.
  Proof. apply RL_cons_hd. Qed.

  Lemma R_wrap_alias e al x : R e x -> R (wrap_alias e al) x.
  Proof.
    unfold wrap_alias. destruct (nonempty al); [|tauto]. intros H.
    eapply reach_via; [left; reflexivity|em_s|apply RL_one; exact H].
  Qed.
  Lemma RL_ob_wrap l x : RL l x -> RL (map ob_wrap l) x.
  Proof.
    intros [c [Hc H]]. exists (ob_wrap c). split; [apply in_map; exact Hc|].
    unfold ob_wrap. eapply reach_via; [left; reflexivity|em_s|apply RL_one; exact H].
  Qed.
  Lemma RL_wrap_with l x : RL l x -> RL (wrap_with l) x.
  Proof.
    intros H. destruct l as [|c r]; [destruct H as [c [[] _]]|].
    unfold wrap_with. apply RL_one. eapply reach_via; [left; reflexivity|em_s|exact H].
  Qed.

  (* pick the slot of a node that holds the list the hypothesis speaks about *)
  Ltac via H :=
    eapply reach_via; [ | | exact H]; [cbn; tauto | em_s].

  Definition Q_expr (e : mexpr) := forall x, In x (subs_expr e) -> R (ast_expr e) x.
  Definition Q_exprs (l : mexprs) := forall x, In x (subs_exprs l) -> RL (ast_exprs l) x.
  Definition Q_whens (l : mwhens) := forall x, In x (subs_whens l) -> RL (ast_whens l) x.
  Definition Q_opt (o : mopt) := forall x, In x (subs_opt o) -> RL (ast_opt o) x.
  Definition Q_items (l : mitems) := forall x, In x (subs_items l) -> RL (ast_items l) x.
  Definition Q_tref (t : mtref) := forall x, In x (subs_tref t) -> R (ast_tref t) x.
  Definition Q_trefs (l : mtrefs) := forall x, In x (subs_trefs l) -> RL (ast_trefs l) x.
  Definition Q_joins (l : mjoins) := forall first i x, In x (subs_joins l) -> RL (ast_joins first i l) x.
  Definition Q_ctes (l : mctes) := forall x, In x (subs_ctes l) -> RL (ast_ctes l) x.
  Definition Q_assigns (l : massigns) := forall x, In x (subs_assigns l) -> RL (ast_assigns l) x.
  Definition Q_sets (l : msets) := forall x, In x (subs_sets l) -> RL (ast_sets l) x.
  Definition Q_mwhens (l : mmwhens) := forall x, In x (subs_mwhens l) -> RL (ast_mwhens l) x.
  Definition Q_colcons (l : mcolcons) := forall x, In x (subs_colcons l) -> RL (ast_colcons l) x.
  Definition Q_coldefs (l : mcoldefs) := forall x, In x (subs_coldefs l) -> RL (ast_coldefs l) x.
  Definition Q_tabcons (l : mtabcons) := forall x, In x (subs_tabcons l) -> RL (ast_tabcons l) x.
  Definition Q_stmt (s : mstmt) := forall x, In x (subs s) -> R (ast_stmt s) x.

  Ltac self := match goal with H : _ = ?x |- R _ ?x => subst x; unfold R; cbn [ast_sub]; apply qreach_self end.
  Ltac split_in H := repeat (rewrite in_app_iff in H); cbn [In] in H.

  Theorem reach_all :
    (forall e, Q_expr e) /\ (forall l, Q_exprs l) /\ (forall l, Q_whens l) /\ (forall o, Q_opt o) /\
    (forall l, Q_items l) /\ (forall t, Q_tref t) /\ (forall l, Q_trefs l) /\ (forall l, Q_joins l) /\
    (forall l, Q_ctes l) /\ (forall l, Q_assigns l) /\ (forall l, Q_sets l) /\ (forall l, Q_mwhens l) /\
    (forall l, Q_colcons l) /\ (forall l, Q_coldefs l) /\ (forall l, Q_tabcons l) /\
    (forall s, Q_stmt s).
  Proof.
    apply mgrammar_ind;
      unfold Q_expr, Q_exprs, Q_whens, Q_opt, Q_items, Q_tref, Q_trefs, Q_joins, Q_ctes, Q_assigns, Q_sets,
             Q_mwhens, Q_colcons, Q_coldefs, Q_tabcons, Q_stmt; intros.
    (* mexpr: 13 *)
    - cbn in H. destruct H as [H|[]]. self.
    - cbn in H. destruct H as [H|[]]. self.
    - cbn in H. destruct H as [H|[]]. self.
    - cbn [subs_expr In] in H1. destruct H1 as [E|H1]; [self|]. split_in H1. cbn [ast_expr].
      destruct H1 as [H1|H1]; [apply H in H1; apply RL_one in H1; via H1|apply H0 in H1; apply RL_one in H1; via H1].
    - cbn [subs_expr In] in H0. destruct H0 as [E|H0]; [self|]. cbn [ast_expr]. apply H in H0. apply RL_one in H0. via H0.
    - cbn [subs_expr In] in H0. destruct H0 as [E|H0]; [self|]. cbn [ast_expr]. apply H in H0. via H0.
    - cbn [subs_expr In] in H2. destruct H2 as [E|H2]; [self|]. split_in H2. cbn [ast_expr].
      destruct H2 as [H2|[H2|H2]]; [apply H in H2; via H2|apply H0 in H2; via H2|apply H1 in H2; via H2].
    - cbn [subs_expr In] in H1. destruct H1 as [E|H1]; [self|]. split_in H1. cbn [ast_expr].
      destruct H1 as [H1|H1]; [apply H in H1; apply RL_one in H1; via H1|apply H0 in H1; via H1].
    - cbn [subs_expr In] in H1. destruct H1 as [E|H1]; [self|]. split_in H1. cbn [ast_expr].
      destruct H1 as [H1|H1]; [apply H in H1; apply RL_one in H1; via H1|apply H0 in H1; apply RL_one in H1; via H1].
    - cbn [subs_expr In] in H2. destruct H2 as [E|H2]; [self|]. split_in H2. cbn [ast_expr].
      destruct H2 as [H2|[H2|H2]]; [apply H in H2|apply H0 in H2|apply H1 in H2]; apply RL_one in H2; via H2.
    - cbn [subs_expr In] in H0. destruct H0 as [E|H0]; [self|]. cbn [ast_expr]. apply H in H0. apply RL_one in H0. via H0.
    - cbn [subs_expr In] in H0. destruct H0 as [E|H0]; [self|]. cbn [ast_expr]. apply H in H0. apply RL_one in H0. via H0.
    - cbn [subs_expr In] in H0. destruct H0 as [E|H0]; [self|]. cbn [ast_expr]. apply H in H0. apply RL_one in H0. via H0.
    - cbn in H. destruct H as [H|[]]. self.
    (* mexprs *)
    - destruct H.
    - cbn [subs_exprs] in H1. split_in H1. cbn [ast_exprs].
      destruct H1 as [H1|H1]; [apply RL_cons_hd; apply H; exact H1|apply RL_cons_tl; apply H0; exact H1].
    (* mwhens *)
    - destruct H.
    - cbn [subs_whens] in H2. split_in H2. cbn [ast_whens].
      destruct H2 as [H2|[H2|H2]]; [apply RL_cons_hd; apply H in H2; apply RL_one in H2; via H2
                                   |apply RL_cons_hd; apply H0 in H2; apply RL_one in H2; via H2
                                   |apply RL_cons_tl; apply H1; exact H2].
    (* mopt *)
    - destruct H.
    - cbn [subs_opt] in H0. cbn [ast_opt]. apply RL_one. apply H. exact H0.
    (* mitems *)
    - destruct H.
    - cbn [subs_items] in H1. split_in H1. cbn [ast_items].
      destruct H1 as [H1|H1]; [apply RL_cons_hd; apply R_wrap_alias; apply H; exact H1|apply RL_cons_tl; apply H0; exact H1].
    (* mtref *)
    - destruct H.
    - cbn [subs_tref] in H0. cbn [ast_tref]. apply H in H0. apply RL_one in H0. via H0.
    (* mtrefs *)
    - destruct H.
    - cbn [subs_trefs] in H1. split_in H1. cbn [ast_trefs].
      destruct H1 as [H1|H1]; [apply RL_cons_hd; apply H; exact H1|apply RL_cons_tl; apply H0; exact H1].
    (* mjoins *)
    - destruct H.
    - cbn [subs_joins] in H2. split_in H2. cbn [ast_joins].
      destruct H2 as [H2|[H2|H2]]; [apply RL_cons_hd; apply H in H2; apply RL_one in H2; via H2
                                   |apply RL_cons_hd; apply H0 in H2; via H2
                                   |apply RL_cons_tl; apply H1; exact H2].
    (* mctes *)
    - destruct H.
    - cbn [subs_ctes] in H1. split_in H1. cbn [ast_ctes].
      destruct H1 as [H1|H1]; [apply RL_cons_hd; apply H in H1; apply RL_one in H1; via H1|apply RL_cons_tl; apply H0; exact H1].
    (* massigns *)
    - destruct H.
    - cbn [subs_assigns] in H2. split_in H2. cbn [ast_assigns].
      destruct H2 as [H2|[H2|H2]]; [apply RL_cons_hd; apply H in H2; apply RL_one in H2; via H2
                                   |apply RL_cons_hd; apply H0 in H2; apply RL_one in H2; via H2
                                   |apply RL_cons_tl; apply H1; exact H2].
    (* msets *)
    - destruct H.
    - cbn [subs_sets] in H1. split_in H1. cbn [ast_sets].
      destruct H1 as [H1|H1]; [apply RL_cons_hd; apply H in H1; apply RL_one in H1; via H1|apply RL_cons_tl; apply H0; exact H1].
    (* mmwhens *)
    - destruct H.
    - cbn [subs_mwhens] in H2. split_in H2. cbn [ast_mwhens].
      destruct H2 as [H2|[H2|H2]]; [apply RL_cons_hd; apply H in H2; via H2| |apply RL_cons_tl; apply H1; exact H2].
      apply RL_cons_hd. apply H0 in H2.
      assert (A : R (QN KMergeAction (opA "UPDATE") [(SSets, ast_sets sets)]) x) by (via H2).
      apply RL_one in A. via A.
    - cbn [subs_mwhens] in H2. split_in H2. cbn [ast_mwhens].
      destruct H2 as [H2|[H2|H2]]; [apply RL_cons_hd; apply H in H2; via H2| |apply RL_cons_tl; apply H1; exact H2].
      apply RL_cons_hd. apply H0 in H2.
      assert (A : R (QN KMergeAction (mkA "" "" "INSERT" "" "" "" (map nstr cols)) [(SValues, ast_exprs vals)]) x) by (via H2).
      apply RL_one in A. via A.
    - cbn [subs_mwhens] in H1. split_in H1. cbn [ast_mwhens].
      destruct H1 as [H1|H1]; [apply RL_cons_hd; apply H in H1; via H1|apply RL_cons_tl; apply H0; exact H1].
    (* mcolcons *)
    - destruct H.
    - cbn [subs_colcons] in H0. cbn [ast_colcons]. apply RL_cons_tl. apply H. exact H0.
    - cbn [subs_colcons] in H1. split_in H1. cbn [ast_colcons].
      destruct H1 as [H1|H1]; [apply RL_cons_hd; apply H in H1; apply RL_one in H1; via H1|apply RL_cons_tl; apply H0; exact H1].
    - cbn [subs_colcons] in H1. split_in H1. cbn [ast_colcons].
      destruct H1 as [H1|H1]; [apply RL_cons_hd; apply H in H1; apply RL_one in H1; via H1|apply RL_cons_tl; apply H0; exact H1].
    (* mcoldefs *)
    - destruct H.
    - cbn [subs_coldefs] in H1. split_in H1. cbn [ast_coldefs].
      destruct H1 as [H1|H1]; [apply RL_cons_hd; apply H in H1; via H1|apply RL_cons_tl; apply H0; exact H1].
    (* mtabcons *)
    - destruct H.
    - cbn [subs_tabcons] in H0. cbn [ast_tabcons]. apply RL_cons_tl. apply H. exact H0.
    - cbn [subs_tabcons] in H1. split_in H1. cbn [ast_tabcons].
      destruct H1 as [H1|H1]; [apply RL_cons_hd; apply H in H1; apply RL_one in H1; via H1|apply RL_cons_tl; apply H0; exact H1].
    (* mstmt *)
    - rename H6 into Hob. rename H7 into H6. cbn [subs In] in H6. destruct H6 as [E|H6]; [self|]. split_in H6. cbn [ast_stmt].
      destruct H6 as [H6|[H6|[H6|[H6|[H6|[H6|[H6|H6]]]]]]].
      + apply H in H6. apply RL_wrap_with in H6. via H6.
      + apply H0 in H6. via H6.
      + apply H1 in H6. via H6.
      + apply (H2 (join_left (ast_trefs from)) 0%nat x) in H6. via H6.
      + apply H3 in H6. via H6.
      + apply H4 in H6. via H6.
      + apply H5 in H6. via H6.
      + apply Hob in H6. apply RL_ob_wrap in H6. via H6.
    - cbn [subs In] in H1. destruct H1 as [E|H1]; [self|]. split_in H1. cbn [ast_stmt].
      destruct H1 as [H1|H1]; [apply H in H1|apply H0 in H1]; apply RL_one in H1; via H1.
    - cbn [subs In] in H2. destruct H2 as [E|H2]; [self|]. split_in H2. cbn [ast_stmt].
      destruct H2 as [H2|[H2|H2]]; [apply H in H2; apply RL_wrap_with in H2; via H2|apply H0 in H2; via H2|apply H1 in H2; via H2].
    - cbn [subs In] in H2. destruct H2 as [E|H2]; [self|]. split_in H2. cbn [ast_stmt].
      destruct H2 as [H2|[H2|H2]]; [apply H in H2; apply RL_wrap_with in H2; via H2|apply H0 in H2; via H2|apply H1 in H2; apply RL_one in H2; via H2].
    - cbn [subs In] in H3. destruct H3 as [E|H3]; [self|]. split_in H3. cbn [ast_stmt].
      destruct H3 as [H3|[H3|[H3|H3]]]; [apply H in H3; apply RL_wrap_with in H3; via H3|apply H0 in H3; via H3|apply H1 in H3; via H3|apply H2 in H3; via H3].
    - cbn [subs In] in H2. destruct H2 as [E|H2]; [self|]. split_in H2. cbn [ast_stmt].
      destruct H2 as [H2|[H2|H2]]; [apply H in H2; apply RL_wrap_with in H2; via H2|apply H0 in H2; via H2|apply H1 in H2; via H2].
    - cbn [subs In] in H3. destruct H3 as [E|H3]; [self|]. split_in H3. cbn [ast_stmt].
      destruct H3 as [H3|[H3|[H3|H3]]]; [apply H in H3; apply RL_one in H3; via H3|apply H0 in H3; apply RL_one in H3; via H3
                                        |apply H1 in H3; apply RL_one in H3; via H3|apply H2 in H3; via H3].
    - (* MCreateView *) cbn [subs In] in H0. destruct H0 as [E|H0]; [self|]. cbn [ast_stmt].
      apply H in H0. apply RL_one in H0. via H0.
    - (* MCreateMView *) cbn [subs In] in H0. destruct H0 as [E|H0]; [self|]. cbn [ast_stmt].
      apply H in H0. apply RL_one in H0. via H0.
    - (* MCreateIndex *) cbn [subs In] in H0. destruct H0 as [E|H0]; [self|]. cbn [ast_stmt].
      apply H in H0. via H0.
    - (* MCreateTable *) cbn [subs In] in H1. destruct H1 as [E|H1]; [self|]. split_in H1. cbn [ast_stmt].
      destruct H1 as [H1|H1]; [apply H in H1; via H1|apply H0 in H1; via H1].
    - (* MExplain *) cbn [subs In] in H0. destruct H0 as [E|H0]; [self|]. cbn [ast_stmt].
      apply H in H0. apply RL_one in H0. via H0.
  Qed.

  (* every position of the grammar is reached by the traversal of the prescribed tree: C14 completeness *)
  Theorem position_visited : forall s x, In x (subs s) -> In (ast_sub x) (qwalk em (ast_stmt s)).
  Proof. intros s x H. apply qwalk_complete. apply reach_all. exact H. Qed.

  (* C16 context closure: what the local detectors report on the payload node they report wherever the payload
     occurs, in that or any nested statement, for every threshold *)
  (* ... provided the scan STARTS from the statement: every statement kind of the grammar is a root of Scan *)
  Variable root : kind -> bool.
  Hypothesis roots_ok : roots_cover root = true.

  Lemma stmt_kind_root : forall s, root (q_kind (ast_stmt s)) = true.
  Proof.
    intros s. unfold roots_cover in roots_ok. rewrite forallb_forall in roots_ok. apply roots_ok.
    destruct s; cbn; tauto.
  Qed.

  Theorem statement_is_root : forall s, scan_roots root [ast_stmt s] = [ast_stmt s].
  Proof. intros s. unfold scan_roots. cbn [filter]. rewrite stmt_kind_root. reflexivity. Qed.

  Theorem context_closed : forall m s x f,
    In x (subs s) -> In f (local_findings m (ast_sub x)) -> In f (scan_findings em root m [ast_stmt s]).
  Proof.
    intros m s x f Hx Hf. unfold scan_findings. rewrite statement_is_root. cbn [flat_map]. rewrite app_nil_r.
    apply in_flat_map. exists (ast_sub x). split; [apply position_visited; exact Hx|exact Hf].
  Qed.

  (* and nothing is reported that no node of the tree produces *)
  Theorem findings_sound : forall m t f,
    In f (scan_findings em root m [t]) -> exists n, qreach em t n /\ In f (local_findings m n).
  Proof.
    intros m t f H. unfold scan_findings, scan_roots in H. cbn [filter] in H.
    destruct (root (q_kind t)); [|destruct H]. cbn [flat_map] in H. rewrite app_nil_r in H.
    apply in_flat_map in H. destruct H as [n [Hn Hf]]. exists n. split; [apply qwalk_sound; exact Hn|exact Hf].
  Qed.
End Closed.

(* ---- EXPLAIN q before /repo kept the query in the tree: the payload position exists in the statement, the tree the
   parser built had no node for it, whatever Children() returns and whatever the roots are ---- *)
Definition ex_explained_payload : mexpr := MBin "=" (MLit "1" "int") (MLit "1" "int").
Definition ex_explained_query : mstmt :=
  MSelect CNil (ICons (MCol "" (mkName "a" eq_refl)) "" INil) (TCons (TName (mkT "users" eq_refl) "") TNil) JNil
          (OSome ex_explained_payload) ENil ONone ENil.
Theorem explain_query_dropped em root :
  exists q x f, In x (subs (MExplain q)) /\ In f (local_findings (Some Low) (ast_sub x)) /\
                ~ In f (scan_findings em root (Some Low) [explain_pinned]).
Proof.
  exists ex_explained_query, (SubE ex_explained_payload), taut. split; [|split].
  - cbn. tauto.
  - cbn. tauto.
  - unfold scan_findings, scan_roots, explain_pinned. cbn. destruct (root KDescribe); cbn; tauto.
Qed.

(* ---- the documented payloads, on the payload node itself (letter case of keywords / function names free) ---- *)
Lemma upper_idem_eq : upper "=" = "=". Proof. reflexivity. Qed.

Theorem literal_tautology_detected : forall m op v t1 t2,
  upper op = "=" -> should_include m Critical = true ->
  In taut (local_findings m (ast_expr (MBin op (MLit v t1) (MLit v t2)))).
Proof.
  intros m op v t1 t2 Hop Hm. cbn [ast_expr local_findings q_kind]. unfold binary_check.
  apply in_or_app. left.
  assert (T : is_tautology (QN KBinary (opA op) [(SLeft, [QN KLit (litA v t1) []]); (SRight, [QN KLit (litA v t2) []])]) = true).
  { unfold is_tautology. cbn [q_attrs a_op opA]. rewrite Hop. cbn. rewrite String.eqb_refl. reflexivity. }
  rewrite T. unfold emit. cbn [f_sev taut]. rewrite Hm. left. reflexivity.
Qed.

Theorem column_tautology_detected : forall m op q n,
  upper op = "=" -> should_include m Critical = true ->
  In taut (local_findings m (ast_expr (MBin op (MCol q n) (MCol q n)))).
Proof.
  intros m op q n Hop Hm. cbn [ast_expr local_findings q_kind]. unfold binary_check.
  apply in_or_app. left.
  assert (T : is_tautology (QN KBinary (opA op) [(SLeft, [QN KIdent (identA q (nstr n)) []]); (SRight, [QN KIdent (identA q (nstr n)) []])]) = true).
  { unfold is_tautology. cbn [q_attrs a_op opA]. rewrite Hop. cbn. rewrite !String.eqb_refl. reflexivity. }
  rewrite T. unfold emit. cbn [f_sev taut]. rewrite Hm. left. reflexivity.
Qed.

Theorem or_tautology_detected : forall m orop op e v t1 t2,
  upper orop = "OR" -> upper op = "=" -> should_include m Critical = true ->
  In taut (local_findings m (ast_expr (MBin orop e (MBin op (MLit v t1) (MLit v t2))))).
Proof.
  intros m orop op e v t1 t2 Hor Hop Hm. cbn [ast_expr local_findings q_kind]. unfold binary_check.
  apply in_or_app. right. cbn [q_attrs a_op opA]. rewrite Hor. cbn [str_eqb String.eqb Ascii.eqb Bool.eqb].
  unfold or_check. apply in_or_app. left. cbn [the_kid kids_of q_kids slot_kids slot_eqb app].
  assert (T : is_tautology (QN KBinary (opA op) [(SLeft, [QN KLit (litA v t1) []]); (SRight, [QN KLit (litA v t2) []])]) = true).
  { unfold is_tautology. cbn [q_attrs a_op opA]. rewrite Hop. cbn. rewrite String.eqb_refl. reflexivity. }
  cbn [is_kind q_kind kind_eqb andb]. rewrite T. unfold emit. cbn [f_sev taut]. rewrite Hm. left. reflexivity.
Qed.

Theorem time_function_detected : forall m f args,
  smem (upper (nstr f)) time_funcs = true -> should_include m High = true ->
  In (mkF PTimeBased High) (local_findings m (ast_expr (MFunc f args))).
Proof.
  intros m f args Hf Hm. cbn [ast_expr local_findings q_kind]. unfold func_check.
  apply in_or_app. left. cbn [q_name q_attrs a_name nameA]. rewrite Hf. unfold emit. cbn [f_sev]. rewrite Hm. left. reflexivity.
Qed.

Theorem dangerous_function_detected : forall m f args,
  smem (upper (nstr f)) dangerous_funcs = true -> should_include m Critical = true ->
  In (mkF POutOfBand Critical) (local_findings m (ast_expr (MFunc f args))).
Proof.
  intros m f args Hf Hm. cbn [ast_expr local_findings q_kind]. unfold func_check.
  apply in_or_app. right. cbn [q_name q_attrs a_name nameA]. rewrite Hf. unfold emit. cbn [f_sev]. rewrite Hm. left. reflexivity.
Qed.

(* UNION SELECT NULL, NULL, ... FROM ... : two or more NULL columns on the right-hand SELECT *)
Theorem union_nulls_detected : forall m op l w v1 t1 v2 t2 rest from joins wh gb hv ob,
  upper op = "UNION" -> upper t1 = "NULL" -> upper t2 = "NULL" -> should_include m High = true ->
  In (mkF PUnionBased High)
     (local_findings m (ast_stmt (MSetOp op l (MSelect w (ICons (MLit v1 t1) "" (ICons (MLit v2 t2) "" rest)) from joins wh gb hv ob)))).
Proof.
  intros m op l w v1 t1 v2 t2 rest from joins wh gb hv ob Hop H1 H2 Hm.
  cbn [ast_stmt local_findings q_kind q_attrs a_op opA]. rewrite Hop. cbn [str_eqb String.eqb Ascii.eqb Bool.eqb].
  unfold union_check. cbn [the_kid kids_of q_kids slot_kids slot_eqb app is_kind q_kind kind_eqb].
  apply in_or_app. left.
  cbn [ast_items]. unfold wrap_alias. rewrite nonempty_empty. cbn [ast_expr app].
  assert (N1 : is_null_col (QN KLit (litA v1 t1) []) = true).
  { unfold is_null_col. cbn [is_kind q_kind kind_eqb andb orb q_attrs a_typ litA]. rewrite H1. reflexivity. }
  assert (N2 : is_null_col (QN KLit (litA v2 t2) []) = true).
  { unfold is_null_col. cbn [is_kind q_kind kind_eqb andb orb q_attrs a_typ litA]. rewrite H2. reflexivity. }
  cbn [filter]. rewrite N1, N2. cbn [List.length Nat.leb].
  unfold emit. cbn [f_sev]. rewrite Hm. left. reflexivity.
Qed.

(* UNION SELECT ... FROM <system table> *)
Theorem union_system_table_detected : forall m op l w cols n al from joins wh gb hv ob,
  upper op = "UNION" -> is_system_table (tstr n) = true -> should_include m Critical = true ->
  In (mkF PUnionBased Critical)
     (local_findings m (ast_stmt (MSetOp op l (MSelect w cols (TCons (TName n al) from) joins wh gb hv ob)))).
Proof.
  intros m op l w cols n al from joins wh gb hv ob Hop Hs Hm.
  cbn [ast_stmt local_findings q_kind q_attrs a_op opA]. rewrite Hop. cbn [str_eqb String.eqb Ascii.eqb Bool.eqb].
  unfold union_check. cbn [the_kid kids_of q_kids slot_kids slot_eqb app is_kind q_kind kind_eqb].
  apply in_or_app. right.
  cbn [ast_trefs ast_tref q_name q_attrs a_name nameA aliasA]. rewrite (tok n), Hs.
  cbn. unfold emit. cbn [f_sev]. rewrite Hm. left. reflexivity.
Qed.
