From Coq Require Import List Arith Bool Lia.
From GV Require Import Model.Cursor.
Import ListNotations.
Local Open Scope nat_scope.

Section P.
  Variable eof : nat.
  Notation advance := (Cursor.advance eof).
  Notation advance_n := (Cursor.advance_n eof).
  Notation keyed_loop := (Cursor.keyed_loop eof).

  Lemma advance_toks c : c_toks (advance c) = c_toks c.
  Proof. unfold Cursor.advance. destruct (nth_error _ _); [reflexivity|]. destruct (_ <? _); reflexivity. Qed.

  Lemma advance_pos c : c_pos (advance c) = S (c_pos c).
  Proof. unfold Cursor.advance. destruct (nth_error _ _); [reflexivity|]. destruct (_ <? _); reflexivity. Qed.

  (* past the position just after the last token the cursor reads end of input *)
  Lemma advance_past_end c : length (c_toks c) <= c_pos c -> c_cur (advance c) = eof.
  Proof.
    intros H. unfold Cursor.advance.
    destruct (nth_error (c_toks c) (S (c_pos c))) eqn:E.
    - assert (S (c_pos c) < length (c_toks c)) by (apply nth_error_Some; congruence). lia.
    - destruct (Nat.ltb_spec (length (c_toks c)) (S (c_pos c))); [reflexivity | lia].
  Qed.

  Lemma advance_n_toks n : forall c, c_toks (advance_n n c) = c_toks c.
  Proof. induction n as [|n IH]; intros c; cbn [Cursor.advance_n]; [reflexivity|]. now rewrite IH, advance_toks. Qed.

  Lemma advance_n_pos n : forall c, c_pos (advance_n n c) = n + c_pos c.
  Proof. induction n as [|n IH]; intros c; cbn [Cursor.advance_n]; [reflexivity|]. rewrite IH, advance_pos. lia. Qed.

  Lemma advance_n_S n c : advance_n (S n) c = advance (advance_n n c).
  Proof. revert c. induction n as [|n IH]; intros c; [reflexivity|]. cbn [Cursor.advance_n] in *. now rewrite IH. Qed.

  (* every token sequence, from every cursor position: after (|tokens| - pos) + 1 advances, and from then on, the
     current token is end of input — whether or not the sequence contains an EOF token *)
  Theorem cursor_reaches_eof : forall c n,
    length (c_toks c) - c_pos c < n -> c_cur (advance_n n c) = eof.
  Proof.
    intros c n Hn. destruct n as [|n]; [lia|]. rewrite advance_n_S. apply advance_past_end.
    rewrite advance_n_toks, advance_n_pos. lia.
  Qed.

  (* a loop keyed on the current token whose continuation test rejects end of input terminates within
     (|tokens| - pos) + 2 iterations for every token sequence *)
  Theorem keyed_loop_terminates : forall continue, continue eof = false ->
    forall fuel c, length (c_toks c) - c_pos c + 1 < fuel -> keyed_loop continue fuel c <> None.
  Proof.
    intros continue Hc. induction fuel as [|f IH]; intros c Hf; [lia|].
    cbn [Cursor.keyed_loop]. destruct (continue (c_cur c)) eqn:E; [|discriminate].
    destruct (Nat.le_gt_cases (length (c_toks c)) (c_pos c)) as [Hpast|Hin].
    - (* already at or past the end: the next token read is EOF, the loop stops after this iteration *)
      destruct f as [|f]; [lia|]. cbn [Cursor.keyed_loop]. rewrite (advance_past_end c Hpast), Hc. discriminate.
    - specialize (IH (advance c)). rewrite advance_toks, advance_pos in IH.
      destruct (keyed_loop continue f (advance c)) eqn:K; [discriminate|]. exfalso. apply IH; [lia | reflexivity].
  Qed.
End P.

(* the pinned cursor is refuted: on the one-token slice [t] (no EOF) a loop keyed on t never stops, whatever the fuel *)
Lemma stale_loop_spins : forall t fuel c, c_toks c = [t] -> c_cur c = t ->
  stale_loop (Nat.eqb t) fuel c = None.
Proof.
  intros t. induction fuel as [|f IH]; intros c Ht Hc; [reflexivity|].
  cbn [stale_loop]. rewrite Hc, Nat.eqb_refl.
  rewrite IH; [reflexivity | |].
  - unfold stale_advance. destruct (nth_error (c_toks c) (S (c_pos c))); reflexivity || exact Ht.
  - unfold stale_advance. rewrite Ht. cbn [nth_error]. destruct (c_pos c); cbn [nth_error c_cur]; exact Hc.
Qed.
