(* CliP.v — lemmas about Model/Cli.v *)
From Coq Require Import List NArith Bool Arith Lia.
From GV Require Import Model.FileRepl Proofs.FileReplP Model.Cli.
Import ListNotations.

Lemma bytes_eqb_refl : forall a, bytes_eqb a a = true.
Proof.
  induction a as [|x a IH]; [reflexivity|].
  unfold bytes_eqb in *. cbn [length combine forallb fst snd].
  apply andb_true_iff in IH. destruct IH as [Hl Hc].
  rewrite Nat.eqb_refl, N.eqb_refl, Hc. reflexivity.
Qed.

Lemma bytes_eqb_iff : forall a b, bytes_eqb a b = true <-> a = b.
Proof. intros a b. split; [apply bytes_eqb_eq|intros ->; apply bytes_eqb_refl]. Qed.

Lemma bytes_eqb_false : forall a b, bytes_eqb a b = false <-> a <> b.
Proof.
  intros a b. split.
  - intros H E. subst. rewrite bytes_eqb_refl in H. discriminate.
  - intros H. destruct (bytes_eqb a b) eqn:E; [|reflexivity]. apply bytes_eqb_eq in E. contradiction.
Qed.

(* ---- validate --------------------------------------------------------------------------------------- *)

Lemma existsb_bad_false : forall l, existsb v_bad l = false <-> Forall (fun v => v = VValid) l.
Proof.
  induction l as [|v r IH]; cbn [existsb]; [split; [constructor|reflexivity]|].
  split.
  - intros H. apply orb_false_elim in H. destruct H as [Hv Hr]. constructor.
    + destruct v; [reflexivity|discriminate Hv].
    + apply IH. exact Hr.
  - intros H. inversion H as [|? ? Hv Hr]; subst. cbn [v_bad]. apply IH. exact Hr.
Qed.

Lemma validate_files_zero : forall fl cf l,
  validate_files fl cf l = 0%N <->
  (cf && N.eqb (v_fmt fl) 3 = false) /\ l <> [] /\
  (negb (v_outfile_ok fl) && (N.eqb (v_fmt fl) 1 || N.eqb (v_fmt fl) 2) = false) /\
  Forall (fun v => v = VValid) l.
Proof.
  intros fl cf l. unfold validate_files.
  destruct (cf && N.eqb (v_fmt fl) 3); [split; [discriminate|intros [H _]; discriminate H]|].
  destruct l as [|v r]; [split; [discriminate|intros [_ [H _]]; congruence]|].
  destruct (negb (v_outfile_ok fl) && (N.eqb (v_fmt fl) 1 || N.eqb (v_fmt fl) 2));
    [split; [discriminate|intros [_ [_ [H _]]]; discriminate H]|].
  destruct (existsb v_bad (v :: r)) eqn:E.
  - split; [discriminate|]. intros [_ [_ [_ H]]]. apply existsb_bad_false in H. congruence.
  - split; [|reflexivity]. intros _. repeat split; try discriminate. apply existsb_bad_false. exact E.
Qed.

(* exit status 0 never hides an invalid input, whatever the flags *)
Theorem exit_validate_zero_accepts : forall fl inp,
  exit_validate fl inp = 0%N -> inputs_of inp <> [] /\ Forall (fun v => v = VValid) (inputs_of inp).
Proof.
  intros fl inp H. destruct inp as [|[v|]|v|l]; cbn [exit_validate inputs_of] in *; try discriminate H;
    apply validate_files_zero in H; destruct H as [_ [Hn [_ Hf]]]; split; assumption.
Qed.

(* for a well-formed invocation (known format name, writable report file): exit 0 iff every input is accepted *)
Theorem exit_validate_zero_iff : forall fl inp,
  v_fmt fl <> 3%N -> v_outfile_ok fl = true ->
  (exit_validate fl inp = 0%N <-> inputs_of inp <> [] /\ Forall (fun v => v = VValid) (inputs_of inp)).
Proof.
  intros fl inp Hf Ho. split; [apply exit_validate_zero_accepts|].
  intros [Hn Hall].
  assert (E3 : N.eqb (v_fmt fl) 3 = false) by (apply N.eqb_neq; exact Hf).
  destruct inp as [|[v|]|v|l]; cbn [exit_validate inputs_of] in *; try congruence;
    apply validate_files_zero; rewrite ?E3, ?Ho, ?andb_false_r; cbn [negb andb]; repeat split; assumption.
Qed.

Lemma failing_from_spec : forall l i j,
  In j (failing_from i l) <-> i <= j /\ nth_error l (j - i) = Some VInvalid.
Proof.
  induction l as [|v r IH]; intros i j.
  - cbn [failing_from In]. split; [contradiction|]. intros [_ H]. destruct (j - i); discriminate H.
  - destruct v; cbn [failing_from In]; rewrite ?IH.
    + split.
      * intros [Hle H]. split; [lia|]. replace (j - i) with (S (j - S i)) by lia. exact H.
      * intros [Hle H]. destruct (j - i) as [|n] eqn:E; [discriminate H|].
        split; [lia|]. replace (j - S i) with n by lia. exact H.
    + split.
      * intros [->|[Hle H]].
        -- split; [lia|]. rewrite Nat.sub_diag. reflexivity.
        -- split; [lia|]. replace (j - i) with (S (j - S i)) by lia. exact H.
      * intros [Hle H]. destruct (j - i) as [|n] eqn:E.
        -- left. lia.
        -- right. split; [lia|]. replace (j - S i) with n by lia. exact H.
Qed.

Theorem report_names_exactly_failing : forall fl inp r,
  validate_report fl inp = Some r ->
  forall i, In i r <-> nth_error (inputs_of inp) i = Some VInvalid.
Proof.
  intros fl inp r H i. unfold validate_report in H.
  destruct ((N.eqb (v_fmt fl) 1 || N.eqb (v_fmt fl) 2) && v_outfile_ok fl); [|discriminate H].
  destruct (inputs_of inp) as [|v l] eqn:E; [discriminate H|].
  injection H as Hr. rewrite <- Hr.
  change (In i (failing_from 0 (v :: l)) <-> nth_error (v :: l) i = Some VInvalid).
  rewrite failing_from_spec. rewrite Nat.sub_0_r.
  split; [intros [_ X]; exact X|intros X; split; [lia|exact X]].
Qed.

(* a report exists exactly when a machine-readable format is selected, it can be written, and there is an input *)
Theorem report_exists_iff : forall fl inp,
  (exists r, validate_report fl inp = Some r) <->
  (v_fmt fl = 1%N \/ v_fmt fl = 2%N) /\ v_outfile_ok fl = true /\ inputs_of inp <> [].
Proof.
  intros fl inp. unfold validate_report.
  assert (Hf : (N.eqb (v_fmt fl) 1 || N.eqb (v_fmt fl) 2) = true <-> (v_fmt fl = 1%N \/ v_fmt fl = 2%N)).
  { rewrite orb_true_iff, !N.eqb_eq. tauto. }
  destruct (N.eqb (v_fmt fl) 1 || N.eqb (v_fmt fl) 2); destruct (v_outfile_ok fl);
    destruct (inputs_of inp) as [|v l]; cbn [andb];
    (split; [intros [r H]; try discriminate H | intros [H1 [H2 H3]]; try discriminate H2; try congruence;
             try (apply Hf in H1; discriminate H1)]).
  - split; [apply Hf; reflexivity|]. split; [reflexivity|discriminate].
  - eexists; reflexivity.
Qed.

(* the summary flag of the report agrees with the exit status *)
Theorem report_valid_iff_exit : forall fl inp r,
  validate_report fl inp = Some r ->
  (validate_report_valid inp = true <-> exit_validate fl inp = 0%N).
Proof.
  intros fl inp r H.
  assert (Hex : exists r, validate_report fl inp = Some r) by (eexists; exact H).
  apply report_exists_iff in Hex. destruct Hex as [Hfmt [Ho Hn]].
  assert (H3 : v_fmt fl <> 3%N) by (destruct Hfmt as [E|E]; rewrite E; discriminate).
  rewrite (exit_validate_zero_iff fl inp H3 Ho). unfold validate_report_valid.
  rewrite negb_true_iff, existsb_bad_false. tauto.
Qed.

(* ---- format ------------------------------------------------------------------------------------------- *)

Lemma fmt_loop_good : forall fl l i,
  (t_failed (fmt_loop fl i l) = 0 /\ (f_check fl = true -> t_needs (fmt_loop fl i l) = 0)) <->
  forallb (f_goodb fl) l = true.
Proof.
  intros fl l. induction l as [|x r IH]; intros i.
  - cbn. tauto.
  - cbn [fmt_loop forallb]. specialize (IH (S i)). rewrite andb_true_iff, <- IH. clear IH.
    set (t := fmt_loop fl (S i) r).
    destruct x as [|o f wok]; cbn [f_goodb t_failed t_needs].
    + split; [intros [H _]; discriminate H|intros [H _]; discriminate H].
    + unfold f_writes.
      destruct (f_check fl) eqn:Ec; destruct (f_inplace fl); destruct (f_output fl);
        destruct (bytes_eqb o f); destruct wok;
        cbn [t_failed t_needs negb orb andb]; intuition (try discriminate; try congruence).
Qed.

(* files: exit 0 iff there is an input, every input was formatted, in --check mode none needs formatting, and
   every attempted write succeeded *)
Theorem exit_format_zero_iff : forall fl l,
  exit_format fl (IFiles l) = 0%N <-> l <> [] /\ forallb (f_goodb fl) l = true.
Proof.
  intros fl l. destruct l as [|x r]; [cbn; split; [discriminate|intros [H _]; congruence]|].
  unfold exit_format, format_run. cbn [snd].
  rewrite <- (fmt_loop_good fl (x :: r) 0).
  set (t := fmt_loop fl 0 (x :: r)).
  destruct (f_check fl) eqn:Ec; cbn [andb]; destruct (t_needs t) as [|n]; destruct (t_failed t) as [|m];
    cbn [Nat.eqb negb andb]; intuition (try discriminate; try congruence).
Qed.

Theorem exit_format_zero_iff_one : forall fl stdin x,
  snd (format_one fl stdin x) = 0%N <->
  (stdin && f_inplace fl = false) /\
  exists o f wok, x = FOk o f wok /\
    (if f_check fl then o = f else (f_output fl = true -> wok = true)).
Proof.
  intros fl stdin x. unfold format_one.
  destruct (stdin && f_inplace fl); [split; [discriminate|intros [H _]; discriminate H]|].
  destruct x as [|o f wok]; [split; [discriminate|intros [_ [? [? [? [H _]]]]]; discriminate H]|].
  destruct (f_check fl).
  - destruct (bytes_eqb o f) eqn:E; cbn [snd].
    + apply bytes_eqb_eq in E. split; [|reflexivity]. intros _. split; [reflexivity|]. exists o, f, wok. split; [reflexivity|exact E].
    + split; [discriminate|]. intros [_ [o' [f' [w' [H1 H2]]]]]. inversion H1; subst. rewrite bytes_eqb_refl in E. discriminate E.
  - destruct (f_output fl); [destruct wok|]; cbn [snd]; split; try discriminate; try reflexivity.
    + intros _. split; [reflexivity|]. exists o, f, true. split; [reflexivity|]. intros _. reflexivity.
    + intros [_ [o' [f' [w' [H1 H2]]]]]. inversion H1; subst. specialize (H2 eq_refl). discriminate H2.
    + intros _. split; [reflexivity|]. exists o, f, wok. split; [reflexivity|]. intros H. discriminate H.
Qed.

Lemma fmt_loop_check_nil : forall fl l i, f_check fl = true -> t_acts (fmt_loop fl i l) = [].
Proof.
  intros fl l. induction l as [|x r IH]; intros i Hc; [reflexivity|].
  cbn [fmt_loop]. destruct x; cbn [t_acts]; [apply IH; exact Hc|]. rewrite Hc. cbn [t_acts]. apply IH. exact Hc.
Qed.

(* --check never writes (and prints no formatted text): for files, stdin and inline SQL *)
Theorem check_never_writes : forall fl inp, f_check fl = true -> format_actions fl inp = [].
Proof.
  intros fl inp Hc. unfold format_actions, format_run.
  destruct inp as [|[x|]|x|l]; try reflexivity.
  - unfold format_one. destruct (true && f_inplace fl); [reflexivity|]. destruct x; [reflexivity|]. rewrite Hc. reflexivity.
  - unfold format_one. cbn [andb]. destruct x; [reflexivity|]. rewrite Hc. reflexivity.
  - destruct l as [|x r]; [reflexivity|]. cbn [fst]. apply fmt_loop_check_nil. exact Hc.
Qed.

Lemma fmt_loop_writes : forall fl l i j b,
  In (WriteSelf j b) (t_acts (fmt_loop fl i l)) ->
  i <= j /\ f_check fl = false /\ f_inplace fl = true /\
  exists o, nth_error l (j - i) = Some (FOk o b true) /\ o <> b.
Proof.
  intros fl l. induction l as [|x r IH]; intros i j b H; [contradiction H|].
  cbn [fmt_loop] in H.
  assert (Hrec : In (WriteSelf j b) (t_acts (fmt_loop fl (S i) r)) ->
                 i <= j /\ f_check fl = false /\ f_inplace fl = true /\
                 exists o, nth_error (x :: r) (j - i) = Some (FOk o b true) /\ o <> b).
  { intros H'. destruct (IH _ _ _ H') as [Hle [Hc [Hi [o [Hn Hne]]]]].
    repeat split; try assumption; try lia. exists o. split; [|exact Hne].
    replace (j - i) with (S (j - S i)) by lia. exact Hn. }
  destruct x as [|o f wok]; cbn [t_acts] in H; [exact (Hrec H)|].
  destruct (f_check fl) eqn:Ec; cbn [t_acts] in H; [exact (Hrec H)|].
  destruct (f_inplace fl) eqn:Ei.
  - destruct (bytes_eqb o f) eqn:Eb; cbn [negb] in H; [exact (Hrec H)|].
    destruct wok; cbn [t_acts] in H; [|exact (Hrec H)].
    destruct H as [H|H]; [|exact (Hrec H)].
    inversion H; subst. repeat split; try reflexivity; try lia.
    exists o. rewrite Nat.sub_diag. split; [reflexivity|]. apply bytes_eqb_false. exact Eb.
  - destruct (f_output fl); [destruct wok|]; cbn [t_acts] in H;
      try (destruct H as [H|H]; [discriminate H|]); exact (Hrec H).
Qed.

(* in-place rewriting replaces a file only when processing of that file succeeded, with exactly the formatted
   text, only when it differs from the original, and never in --check mode *)
Theorem format_only_on_success : forall fl inp i b,
  In (WriteSelf i b) (format_actions fl inp) ->
  f_check fl = false /\ f_inplace fl = true /\
  exists l o, inp = IFiles l /\ nth_error l i = Some (FOk o b true) /\ o <> b.
Proof.
  intros fl inp i b H. unfold format_actions, format_run in H.
  destruct inp as [|[x|]|x|l]; cbn [fst] in H; try contradiction H.
  - unfold format_one in H. destruct (true && f_inplace fl); [contradiction H|].
    destruct x; [contradiction H|]. destruct (f_check fl); [contradiction H|].
    destruct (f_output fl); [destruct wok|]; cbn [fst In] in H; try contradiction H; destruct H as [H|H]; try discriminate H; contradiction H.
  - unfold format_one in H. cbn [andb] in H.
    destruct x; [contradiction H|]. destruct (f_check fl); [contradiction H|].
    destruct (f_output fl); [destruct wok|]; cbn [fst In] in H; try contradiction H; destruct H as [H|H]; try discriminate H; contradiction H.
  - destruct l as [|x r]; [contradiction H|]. cbn [fst] in H.
    destruct (fmt_loop_writes _ _ _ _ _ H) as [_ [Hc [Hi [o [Hn Hne]]]]].
    repeat split; try assumption. exists (x :: r), o. rewrite Nat.sub_0_r in Hn. repeat split; assumption.
Qed.

(* one file, one set of formatting options: what is printed, what -i writes and what --check says agree *)
Theorem format_triangle : forall o f,
  let x := [FOk o f true] in
  format_actions (mkF false false false) (IFiles x) = [Print (ensure_nl f)] /\
  format_actions (mkF true false false) (IFiles x) = (if bytes_eqb o f then [] else [WriteSelf 0 f]) /\
  (exit_format (mkF false true false) (IFiles x) = 1%N <-> f <> o) /\
  (exit_format (mkF false true false) (IFiles x) = 0%N <-> f = o) /\
  (exit_format (mkF false true false) (IFiles x) = 1%N <-> format_actions (mkF true false false) (IFiles x) <> []) /\
  format_actions (mkF false true false) (IFiles x) = [].
Proof.
  intros o f x. subst x. unfold format_actions, exit_format, format_run.
  cbn [fmt_loop f_check f_inplace f_output fst snd t_acts t_failed t_needs andb negb Nat.eqb].
  destruct (bytes_eqb o f) eqn:E; cbn [negb t_acts t_failed t_needs Nat.eqb fst snd andb].
  - apply bytes_eqb_eq in E. subst. repeat split; try discriminate; try congruence; try reflexivity.
  - apply bytes_eqb_false in E. repeat split; try discriminate; try congruence; try reflexivity.
Qed.

(* the same for stdin / inline input: printed text is the formatted text, --check fails iff it differs *)
Theorem format_triangle_one : forall stdin o f,
  format_one (mkF false false false) stdin (FOk o f true) = ([Print (ensure_nl f)], 0%N) /\
  (snd (format_one (mkF false true false) stdin (FOk o f true)) = 1%N <-> f <> o) /\
  fst (format_one (mkF false true false) stdin (FOk o f true)) = [].
Proof.
  intros stdin o f. unfold format_one. cbn [f_inplace f_check f_output]. rewrite andb_false_r.
  destruct (bytes_eqb o f) eqn:E; cbn [fst snd].
  - apply bytes_eqb_eq in E. subst. repeat split; try reflexivity; try discriminate; congruence.
  - apply bytes_eqb_false in E. repeat split; try reflexivity; congruence.
Qed.

(* ---- lint --------------------------------------------------------------------------------------------- *)

Theorem exit_lint_zero_iff : forall fl l,
  exit_lint fl (IFiles l) = 0%N <->
  existsb l_readerr l = false /\
  existsb is_err (flat_map l_viols l) = false /\
  (l_failwarn fl = true -> existsb is_warn (flat_map l_viols l) = false).
Proof.
  intros fl l. unfold exit_lint, lint_run, lint_status. cbn [snd].
  destruct (existsb l_readerr l); destruct (existsb is_err (flat_map l_viols l)); destruct (l_failwarn fl);
    destruct (existsb is_warn (flat_map l_viols l)); cbn [orb andb]; intuition (try discriminate; try congruence).
Qed.

Theorem lint_no_fix_never_writes : forall fl inp, l_fix fl = false -> lint_actions fl inp = [].
Proof.
  intros fl inp H. unfold lint_actions, lint_run. destruct inp as [|[x|]|x|l]; try reflexivity.
  cbn [fst]. rewrite H. reflexivity.
Qed.

Lemma lint_writes_spec : forall l i a,
  In a (lint_writes i l) ->
  exists j b o v, a = WriteSelf j b /\ i <= j /\ nth_error l (j - i) = Some (LOk o v b true) /\ v <> [] /\ o <> b.
Proof.
  induction l as [|x r IH]; intros i a H; [contradiction H|].
  assert (Hrec : In a (lint_writes (S i) r) ->
     exists j b o v, a = WriteSelf j b /\ i <= j /\ nth_error (x :: r) (j - i) = Some (LOk o v b true) /\ v <> [] /\ o <> b).
  { intros H'. destruct (IH _ _ H') as [j [b [o [v [Ha [Hle [Hn [Hv Hne]]]]]]]].
    exists j, b, o, v. repeat split; try assumption; try lia.
    replace (j - i) with (S (j - S i)) by lia. exact Hn. }
  cbn [lint_writes] in H. destruct x as [|o v f wok]; [exact (Hrec H)|].
  destruct v as [|s v]; [exact (Hrec H)|]. destruct wok; [|exact (Hrec H)].
  destruct (bytes_eqb o f) eqn:E; [exact (Hrec H)|].
  destruct H as [H|H]; [|exact (Hrec H)].
  exists i, f, o, (s :: v). rewrite Nat.sub_diag. repeat split; try reflexivity; try lia; try discriminate; try (symmetry; exact H).
  apply bytes_eqb_false. exact E.
Qed.

(* lint rewrites a file only with --auto-fix, only a file that was read and has findings, with the fixed text,
   only when that differs from the original; nothing else is ever written *)
Theorem lint_only_on_success : forall fl inp a,
  In a (lint_actions fl inp) ->
  l_fix fl = true /\
  exists l i b o v, inp = IFiles l /\ a = WriteSelf i b /\ nth_error l i = Some (LOk o v b true) /\ v <> [] /\ o <> b.
Proof.
  intros fl inp a H. unfold lint_actions, lint_run in H.
  destruct inp as [|[x|]|x|l]; cbn [fst] in H; try contradiction H.
  destruct (l_fix fl) eqn:Ef; [|contradiction H]. split; [reflexivity|].
  destruct (lint_writes_spec _ _ _ H) as [j [b [o [v [Ha [_ [Hn [Hv Hne]]]]]]]].
  rewrite Nat.sub_0_r in Hn. exists l, j, b, o, v. repeat split; assumption.
Qed.

(* ---- parse -------------------------------------------------------------------------------------------- *)

Theorem exit_parse_zero_iff : forall inp, exit_parse inp = 0%N <-> inputs_of inp = [PAccept].
Proof.
  intros inp. unfold exit_parse. destruct (inputs_of inp) as [|[|] [|y r]]; split; try discriminate; reflexivity.
Qed.
