(* LspServeP.v — lemmas about the message loop model (Model/LspServe.v). *)
From Coq Require Import List NArith ZArith Bool Arith Lia ZifyNat ZifyN ZifyBool.
From GV Require Import Model.LspDoc Model.LspFrame Model.LspServe.
Import ListNotations.

Lemma uri_eqb_refl : forall u, uri_eqb u u = true.
Proof.
  induction u as [|x u IH]; cbn [uri_eqb]; [reflexivity|].
  rewrite N.eqb_refl, IH. reflexivity.
Qed.

Lemma dm_get_set : forall ds u d, dm_get (dm_set ds u d) u = Some d.
Proof.
  intros ds u d. unfold dm_set. cbn [dm_get]. rewrite uri_eqb_refl. reflexivity.
Qed.

Lemma apply_one_version : forall d c d', apply_one d c = Val d' -> d_version d' = d_version d.
Proof.
  intros d c d' H. destruct c as [t|r t]; cbn [apply_one] in H.
  - inversion H; reflexivity.
  - destruct (apply_change (d_content d) (d_lines d) r t); inversion H; reflexivity.
Qed.

Lemma apply_all_version : forall cs d d', apply_all d cs = Val d' -> d_version d' = d_version d.
Proof.
  induction cs as [|c cs IH]; intros d d' H; cbn [apply_all] in H.
  - inversion H; reflexivity.
  - destruct (apply_one d c) as [d1|] eqn:E; [|discriminate].
    rewrite (IH _ _ H). eapply apply_one_version; eauto.
Qed.

Section ServeP.
  Variable recover_fix : bool.
  Variables window limit maxdoc : Z.
  Variable validate : list N -> vres.

  Notation hn := (handle_notif maxdoc validate).
  Notation hd := (handle recover_fix window limit maxdoc validate).
  Notation sv := (serve recover_fix window limit maxdoc validate).

  Lemma resp_ids_app : forall a b, resp_ids (a ++ b) = resp_ids a ++ resp_ids b.
  Proof. intros; unfold resp_ids; apply flat_map_app. Qed.

  Lemma validate_doc_no_resp : forall u c v evs, validate_doc validate u c v = Val evs -> resp_ids evs = [].
  Proof.
    intros u c v evs H. unfold validate_doc in H. destruct (validate c); inversion H; reflexivity.
  Qed.

  (* notifications never produce a response frame *)
  Lemma handle_notif_no_resp : forall ds n ds' evs sd, hn ds n = (ds', Val evs, sd) -> resp_ids evs = [].
  Proof.
    intros ds n ds' evs sd H. destruct n as [ | | |u v t|u v cs|u|u t]; cbn [handle_notif] in H.
    - inversion H; reflexivity.
    - inversion H; reflexivity.
    - inversion H; reflexivity.
    - destruct (Z.of_nat (length t) >? maxdoc)%Z.
      + inversion H; reflexivity.
      + destruct (validate_doc validate u t v) as [e|] eqn:E; inversion H; subst.
        rewrite resp_ids_app, (validate_doc_no_resp _ _ _ _ E). reflexivity.
    - destruct (dm_update ds u v cs) as [ds1|]; [|inversion H].
      destruct (dm_content ds1 u) as [c|].
      + destruct (Z.of_nat (length c) >? maxdoc)%Z.
        * inversion H; reflexivity.
        * destruct (validate_doc validate u c v) as [e|] eqn:E; inversion H; subst.
          rewrite resp_ids_app, (validate_doc_no_resp _ _ _ _ E). reflexivity.
      + inversion H; reflexivity.
    - inversion H; reflexivity.
    - destruct (match t with [] => match dm_content ds u with Some c => c | None => [] end | _ => t end) as [|b l] eqn:E.
      + inversion H; reflexivity.
      + destruct (validate_doc validate u (b :: l) 0) as [e|] eqn:E2; inversion H; subst.
        eapply validate_doc_no_resp; eauto.
  Qed.

  (* one message: the response frames written are exactly the ids the message must be answered with *)
  Lemma handle_resp_ids : forall st now m st' evs,
      hd st now m = Val (st', evs) ->
      resp_ids evs = if fst (check_rate window limit now st) then may_answer m else must_answer m.
  Proof.
    intros st now m st' evs H. unfold handle in H.
    destruct (check_rate window limit now st) as [allowed st1] eqn:EC. cbn [fst].
    destruct allowed; cbn [negb] in H.
    - destruct m as [ | |id|oid|id h|n]; cbn [may_answer must_answer].
      + inversion H; reflexivity.
      + inversion H; reflexivity.
      + inversion H; reflexivity.
      + destruct oid; inversion H; reflexivity.
      + destruct h; [inversion H; reflexivity|inversion H; reflexivity|].
        destruct recover_fix; inversion H; reflexivity.
      + destruct (hn (s_docs st1) n) as [[ds' o] sd] eqn:EN. destruct o as [e|].
        * inversion H; subst. eapply handle_notif_no_resp; eauto.
        * destruct recover_fix; inversion H; reflexivity.
    - destruct m as [ | |id|oid|id h|n]; cbn [must_answer]; try (inversion H; reflexivity).
      destruct oid; inversion H; reflexivity.
  Qed.

  (* limiter-only replay of a history: which ids must come back, in order *)
  Definition is_exit (m : amsg) : bool := match m with MNotif NExit => true | _ => false end.

  Fixpoint expected_ids (clock : nat -> Z) (k : nat) (cnt rst : Z) (ms : list amsg) : list N :=
    match ms with
    | [] => []
    | m :: r =>
        let st := State [] cnt rst false in
        let allowed := fst (check_rate window limit (clock k) st) in
        let st1 := snd (check_rate window limit (clock k) st) in
        (if allowed then may_answer m else must_answer m)
          ++ (if allowed && is_exit m then [] else expected_ids clock (S k) (s_count st1) (s_reset st1) r)
    end.

  Lemma check_rate_docs_irrel : forall now st,
      fst (check_rate window limit now st) = fst (check_rate window limit now (State [] (s_count st) (s_reset st) false))
      /\ s_count (snd (check_rate window limit now st)) = s_count (snd (check_rate window limit now (State [] (s_count st) (s_reset st) false)))
      /\ s_reset (snd (check_rate window limit now st)) = s_reset (snd (check_rate window limit now (State [] (s_count st) (s_reset st) false)))
      /\ s_docs (snd (check_rate window limit now st)) = s_docs st
      /\ s_shutdown (snd (check_rate window limit now st)) = s_shutdown st.
  Proof.
    intros now st. unfold check_rate. cbn [s_count s_reset s_docs s_shutdown].
    destruct (now - s_reset st >=? window)%Z; cbn [fst snd s_count s_reset s_docs s_shutdown]; repeat split.
  Qed.

  Lemma handle_notif_sd : forall ds n ds' o sd, hn ds n = (ds', o, sd) -> sd = is_exit (MNotif n).
  Proof.
    intros ds n ds' o sd H. destruct n as [ | | |u v t|u v cs|u|u t]; cbn [handle_notif is_exit] in *.
    - inversion H; reflexivity.
    - inversion H; reflexivity.
    - inversion H; reflexivity.
    - destruct (Z.of_nat (length t) >? maxdoc)%Z; inversion H; reflexivity.
    - destruct (dm_update ds u v cs) as [ds1|]; [|inversion H; reflexivity].
      destruct (dm_content ds1 u) as [c|]; [|inversion H; reflexivity].
      destruct (Z.of_nat (length c) >? maxdoc)%Z; inversion H; reflexivity.
    - inversion H; reflexivity.
    - destruct (match t with [] => match dm_content ds u with Some c => c | None => [] end | _ => t end);
        inversion H; reflexivity.
  Qed.

  Lemma handle_notif_panic_sd : forall ds n ds' sd, hn ds n = (ds', Panic, sd) -> is_exit (MNotif n) = false.
  Proof.
    intros ds n ds' sd H. destruct n; cbn [handle_notif is_exit] in *; try reflexivity. inversion H.
  Qed.

  (* the state after one message: limiter fields follow check_rate; shutdown only by an allowed exit *)
  Lemma handle_state : forall st now m st' evs,
      hd st now m = Val (st', evs) ->
      s_count st' = s_count (snd (check_rate window limit now st)) /\
      s_reset st' = s_reset (snd (check_rate window limit now st)) /\
      s_shutdown st' = s_shutdown st || (fst (check_rate window limit now st) && is_exit m).
  Proof.
    intros st now m st' evs H. unfold handle in H.
    pose proof (check_rate_docs_irrel now st) as (_ & _ & _ & _ & Hsd).
    destruct (check_rate window limit now st) as [allowed st1] eqn:EC. cbn [fst snd] in *.
    destruct allowed; cbn [negb andb] in *.
    - destruct m as [ | |id|oid|id h|n].
      + inversion H; subst; cbn [is_exit]; rewrite Hsd, orb_false_r; auto.
      + inversion H; subst; cbn [is_exit]; rewrite Hsd, orb_false_r; auto.
      + inversion H; subst; cbn [is_exit]; rewrite Hsd, orb_false_r; auto.
      + destruct oid; inversion H; subst; cbn [is_exit]; rewrite Hsd, orb_false_r; auto.
      + destruct h.
        * inversion H; subst; cbn [is_exit]; rewrite Hsd, orb_false_r; auto.
        * inversion H; subst; cbn [is_exit]; rewrite Hsd, orb_false_r; auto.
        * destruct recover_fix; inversion H; subst; cbn [is_exit]; rewrite Hsd, orb_false_r; auto.
      + destruct (hn (s_docs st1) n) as [[ds' o] sd] eqn:EN. destruct o as [e|].
        * inversion H; subst. cbn [s_count s_reset s_shutdown]. rewrite Hsd.
          rewrite (handle_notif_sd _ _ _ _ _ EN). auto.
        * destruct recover_fix; inversion H; subst. cbn [s_count s_reset s_shutdown]. rewrite Hsd.
          rewrite (handle_notif_panic_sd _ _ _ _ EN), orb_false_r. auto.
    - rewrite orb_false_r.
      destruct m as [ | |id|oid|id h|n]; try (inversion H; subst; auto; fail).
      destruct oid; inversion H; subst; auto.
  Qed.

  (* every history, any clock, any length (also beyond the limiter window): the response frames are
     exactly the expected ids, in order; notifications are never answered *)
  Theorem serve_resp_ids : forall ms clock k st st' evs,
      s_shutdown st = false ->
      sv clock k st ms = Val (st', evs) ->
      resp_ids evs = expected_ids clock k (s_count st) (s_reset st) ms.
  Proof.
    induction ms as [|m r IH]; intros clock k st st' evs Hsd H; cbn [serve] in H.
    - inversion H; reflexivity.
    - destruct (hd st (clock k) m) as [[st1 e1]|] eqn:EH; [|discriminate].
      pose proof (handle_resp_ids _ _ _ _ _ EH) as HR.
      pose proof (handle_state _ _ _ _ _ EH) as (HC & HS & HD).
      pose proof (check_rate_docs_irrel (clock k) st) as (F1 & F2 & F3 & _ & _).
      cbn [expected_ids]. rewrite <- F1, <- F2, <- F3, <- HC, <- HS.
      rewrite Hsd in HD. cbn [orb] in HD.
      destruct (s_shutdown st1) eqn:ES.
      + inversion H; subst. rewrite <- HD. rewrite HR, app_nil_r. reflexivity.
      + destruct (sv clock (S k) st1 r) as [[st2 e2]|] eqn:ER; [|discriminate].
        inversion H; subst. rewrite <- HD. rewrite resp_ids_app, HR.
        f_equal. eapply IH; eauto.
  Qed.

  (* within the limiter window nothing is dropped *)
  Lemma check_rate_allowed : forall now st n,
      (0 <= s_count st)%Z -> (s_count st + Z.of_nat (S n) <= limit)%Z ->
      fst (check_rate window limit now st) = true /\
      (0 <= s_count (snd (check_rate window limit now st)))%Z /\
      (s_count (snd (check_rate window limit now st)) + Z.of_nat n <= limit)%Z.
  Proof.
    intros now st n H0 H1. unfold check_rate.
    destruct (now - s_reset st >=? window)%Z; cbn [fst snd s_count].
    - repeat split; lia.
    - repeat split; lia.
  Qed.

  Theorem expected_within_window : forall ms clock k cnt rst,
      (0 <= cnt)%Z -> (cnt + Z.of_nat (length ms) <= limit)%Z ->
      expected_ids clock k cnt rst ms = flat_map may_answer (until_exit ms).
  Proof.
    induction ms as [|m r IH]; intros clock k cnt rst H0 H1; [reflexivity|].
    cbn [expected_ids length] in *.
    destruct (check_rate_allowed (clock k) (State [] cnt rst false) (length r) H0 H1) as (HA & HB & HC).
    rewrite HA. cbn [andb].
    assert (Hrec : expected_ids clock (S k)
                     (s_count (snd (check_rate window limit (clock k) (State [] cnt rst false))))
                     (s_reset (snd (check_rate window limit (clock k) (State [] cnt rst false)))) r
                   = flat_map may_answer (until_exit r)) by (apply IH; assumption).
    destruct m as [ | |id|oid|id h|n]; cbn [is_exit until_exit flat_map]; try (rewrite Hrec; reflexivity).
    destruct n; cbn [is_exit until_exit flat_map]; try (rewrite Hrec; reflexivity).
    cbn [may_answer must_answer app]. reflexivity.
  Qed.

  (* a history without "exit" and without mistyped bodies: every request is answered exactly once with
     its id, whatever the clock and however long the history (dropped notifications are not answered,
     dropped requests are answered with RequestCancelled) *)
  Theorem expected_well_formed : forall ms clock k cnt rst,
      forallb well_formed ms = true -> forallb (fun m => negb (is_exit m)) ms = true ->
      expected_ids clock k cnt rst ms = flat_map must_answer ms.
  Proof.
    induction ms as [|m r IH]; intros clock k cnt rst HW HE; [reflexivity|].
    cbn [forallb] in HW, HE. apply andb_true_iff in HW as [HW1 HW2]. apply andb_true_iff in HE as [HE1 HE2].
    cbn [expected_ids flat_map].
    apply negb_true_iff in HE1. rewrite HE1, andb_false_r.
    rewrite (IH _ _ _ _ HW2 HE2).
    f_equal. destruct m; cbn [well_formed] in HW1; try discriminate;
      destruct (fst (check_rate window limit (clock k) (State [] cnt rst false))); reflexivity.
  Qed.
End ServeP.

(* ---------------------------------------------------------------------------------------------
   the server as repaired (handlers under recover) *)
Section Repaired.
  Variables window limit maxdoc : Z.
  Variable validate : list N -> vres.
  Hypothesis update_total : forall ds u v cs, dm_update ds u v cs <> Panic.

  Notation hd := (handle true window limit maxdoc validate).
  Notation sv := (serve true window limit maxdoc validate).

  Theorem handle_total : forall st now m, hd st now m <> Panic.
  Proof.
    intros st now m. unfold handle.
    destruct (check_rate window limit now st) as [allowed st1]. destruct allowed; cbn [negb].
    - destruct m as [ | |id|oid|id h|n]; try discriminate.
      + destruct oid; discriminate.
      + destruct h; discriminate.
      + destruct (handle_notif maxdoc validate (s_docs st1) n) as [[ds' o] sd]. destruct o; discriminate.
    - destruct m as [ | |id|oid|id h|n]; try discriminate. destruct oid; discriminate.
  Qed.

  Theorem serve_total : forall ms clock k st, sv clock k st ms <> Panic.
  Proof.
    induction ms as [|m r IH]; intros clock k st; cbn [serve]; [discriminate|].
    destruct (hd st (clock k) m) as [[st1 e1]|] eqn:EH; [|exfalso; eapply handle_total; eauto].
    destruct (s_shutdown st1); [discriminate|].
    destruct (sv clock (S k) st1 r) as [[st2 e2]|] eqn:ER; [discriminate|].
    exfalso; eapply IH; eauto.
  Qed.

  (* the mirror after a history handled within the limiter window is the DocumentManager history of its
     open/change/close notifications *)
  Lemma handle_docs_allowed : forall st now m st' evs,
      fst (check_rate window limit now st) = true ->
      hd st now m = Val (st', evs) ->
      dm_run (s_docs st) (notif_op m) = Val (s_docs st').
  Proof.
    intros st now m st' evs HA H. unfold handle in H.
    pose proof (check_rate_docs_irrel window limit now st) as (_ & _ & _ & HD & _).
    destruct (check_rate window limit now st) as [allowed st1]. cbn [fst snd] in *. subst allowed.
    cbn [negb] in H.
    destruct m as [ | |id|oid|id h|n]; cbn [notif_op dm_run];
      try (inversion H; subst; rewrite HD; reflexivity).
    - destruct oid; inversion H; subst; rewrite HD; reflexivity.
    - destruct h; inversion H; subst; rewrite HD; reflexivity.
    - rewrite <- HD.
      destruct n as [ | | |u v t|u v cs|u|u t]; cbn [handle_notif notif_op dm_run dm_step] in *.
      + inversion H; reflexivity.
      + inversion H; reflexivity.
      + inversion H; reflexivity.
      + destruct (Z.of_nat (length t) >? maxdoc)%Z.
        * inversion H; reflexivity.
        * destruct (validate_doc validate u t v); inversion H; reflexivity.
      + destruct (dm_update (s_docs st1) u v cs) as [ds1|] eqn:EU; [|exfalso; eapply update_total; eauto].
        destruct (dm_content ds1 u) as [c|].
        * destruct (Z.of_nat (length c) >? maxdoc)%Z; [inversion H; reflexivity|].
          destruct (validate_doc validate u c v); inversion H; reflexivity.
        * inversion H; reflexivity.
      + inversion H; reflexivity.
      + destruct (match t with [] => match dm_content (s_docs st1) u with Some c => c | None => [] end | _ => t end).
        * inversion H; reflexivity.
        * destruct (validate_doc validate u (n :: l) 0); inversion H; reflexivity.
  Qed.

  Lemma dm_run_app : forall a b ds, dm_run ds (a ++ b) = match dm_run ds a with Val ds' => dm_run ds' b | Panic => Panic end.
  Proof.
    induction a as [|o a IH]; intros b ds; cbn [app dm_run]; [reflexivity|].
    destruct (dm_step ds o); [apply IH|reflexivity].
  Qed.

  Theorem serve_mirror : forall ms clock k st st' evs,
      s_shutdown st = false ->
      (0 <= s_count st)%Z -> (s_count st + Z.of_nat (length ms) <= limit)%Z ->
      sv clock k st ms = Val (st', evs) ->
      dm_run (s_docs st) (flat_map notif_op (until_exit ms)) = Val (s_docs st').
  Proof.
    induction ms as [|m r IH]; intros clock k st st' evs Hsd H0 H1 H; cbn [serve] in H.
    - inversion H; reflexivity.
    - cbn [length] in H1.
      destruct (check_rate_allowed window limit (clock k) st (length r) H0 H1) as (HA & HB & HC).
      destruct (hd st (clock k) m) as [[st1 e1]|] eqn:EH; [|discriminate].
      pose proof (handle_docs_allowed _ _ _ _ _ HA EH) as HDm.
      pose proof (handle_state _ _ _ _ _ _ _ _ _ _ EH) as (HCn & HRs & HSd).
      rewrite Hsd, HA in HSd. cbn [orb andb] in HSd.
      assert (HU : flat_map notif_op (until_exit (m :: r)) =
                   notif_op m ++ (if is_exit m then [] else flat_map notif_op (until_exit r))).
      { destruct m as [ | |id|oid|id h|n]; try reflexivity. destruct n; reflexivity. }
      rewrite HU, dm_run_app, HDm.
      destruct (s_shutdown st1) eqn:ES.
      + inversion H; subst. rewrite <- HSd. reflexivity.
      + rewrite <- HSd.
        destruct (sv clock (S k) st1 r) as [[st2 e2]|] eqn:ER; [|discriminate].
        inversion H; subst. eapply IH; eauto; rewrite ?HCn; assumption.
  Qed.

  (* diagnostics published on open/change are computed from the mirror's text and carry its version *)
  Theorem publish_current : forall ds n ds' evs sd u v c,
      handle_notif maxdoc validate ds n = (ds', Val evs, sd) ->
      (match n with NDidOpen _ _ _ | NDidChange _ _ _ => True | _ => False end) ->
      In (EPub u v c) evs -> observe ds' u = Some (v, c).
  Proof.
    intros ds n ds' evs sd u v c H Hn Hin.
    destruct n as [ | | |u0 v0 t|u0 v0 cs|u0|u0 t]; try contradiction; cbn [handle_notif] in H.
    - destruct (Z.of_nat (length t) >? maxdoc)%Z.
      + inversion H; subst. cbn [In] in Hin. destruct Hin as [E|[E|[]]]; discriminate.
      + unfold validate_doc in H. destruct (validate t); inversion H; subst.
        cbn [app In] in Hin. destruct Hin as [E|[E|[]]]; [|discriminate].
        inversion E; subst. unfold observe, dm_open. rewrite dm_get_set. reflexivity.
    - destruct (dm_update ds u0 v0 cs) as [ds1|] eqn:EU; [|inversion H].
      destruct (dm_content ds1 u0) as [c0|] eqn:EC.
      + destruct (Z.of_nat (length c0) >? maxdoc)%Z.
        * inversion H; subst. cbn [In] in Hin. destruct Hin as [E|[E|[]]]; discriminate.
        * unfold validate_doc in H. destruct (validate c0); inversion H; subst.
          cbn [app In] in Hin. destruct Hin as [E|[E|[]]]; [|discriminate].
          inversion E; subst.
          unfold dm_update in EU. destruct (dm_get ds u) as [d|] eqn:EG.
          -- destruct (apply_all (Doc v (d_content d) (d_lines d)) cs) as [d'|] eqn:EA; [|discriminate].
             inversion EU; subst. unfold dm_content in EC. unfold observe. rewrite dm_get_set in *.
             inversion EC; subst. rewrite (apply_all_version _ _ _ EA). reflexivity.
          -- inversion EU; subst. unfold dm_content in EC. rewrite EG in EC. discriminate.
      + inversion H; subst. cbn [In] in Hin. destruct Hin as [E|[]]; discriminate.
  Qed.
End Repaired.

(* corollaries from the initial state *)
Theorem one_response_per_request : forall rf window limit maxdoc validate ms clock st' evs,
    (Z.of_nat (length ms) <= limit)%Z ->
    serve rf window limit maxdoc validate clock 0 init_state ms = Val (st', evs) ->
    resp_ids evs = flat_map may_answer (until_exit ms).
Proof.
  intros rf window limit maxdoc validate ms clock st' evs Hlen H.
  rewrite (serve_resp_ids rf window limit maxdoc validate ms clock 0%nat init_state st' evs eq_refl H).
  apply expected_within_window; cbn [s_count init_state]; [apply Z.le_refl | exact Hlen].
Qed.

Theorem one_response_any_length : forall rf window limit maxdoc validate ms clock st' evs,
    forallb well_formed ms = true -> forallb (fun m => negb (is_exit m)) ms = true ->
    serve rf window limit maxdoc validate clock 0 init_state ms = Val (st', evs) ->
    resp_ids evs = flat_map must_answer ms.
Proof.
  intros rf window limit maxdoc validate ms clock st' evs HW HE H.
  rewrite (serve_resp_ids rf window limit maxdoc validate ms clock 0%nat init_state st' evs eq_refl H).
  apply expected_well_formed; assumption.
Qed.

Theorem serve_mirror_init : forall window limit maxdoc validate,
    (forall ds u v cs, dm_update ds u v cs <> Panic) ->
    forall ms clock st' evs,
    (Z.of_nat (length ms) <= limit)%Z ->
    serve true window limit maxdoc validate clock 0 init_state ms = Val (st', evs) ->
    dm_run [] (flat_map notif_op (until_exit ms)) = Val (s_docs st').
Proof.
  intros window limit maxdoc validate HU ms clock st' evs Hlen H.
  exact (serve_mirror window limit maxdoc validate HU ms clock 0%nat init_state st' evs
           eq_refl (Z.le_refl 0) Hlen H).
Qed.

(* the pinned code (no recover): a handler panic kills the loop *)
Theorem serve_unrecovered_refuted :
  exists ms, serve false 1000 100 5242880 (fun _ => VOk) (fun _ => 0%Z) 0 init_state ms = Panic.
Proof. exists [MRequest 1 RPanic]. vm_compute. reflexivity. Qed.
