(* Proofs about the generic traversal model (C14, used by C01/C15/C16). *)
From Coq Require Import List NArith Bool Lia.
From GV Require Import Model.Walk.
Import ListNotations.
Local Open Scope N_scope.

(* induction principle through the nested lists *)
Section Ind.
  Variable P : gtree -> Prop.
  Hypothesis H : forall id ty kids,
      Forall (fun fk : N * list gtree => Forall P (snd fk)) kids -> P (GNode id ty kids).
  Fixpoint gtree_ind' (t : gtree) : P t :=
    match t with
    | GNode id ty kids =>
        H id ty kids
          ((fix go (l : list (N * list gtree)) : Forall (fun fk => Forall P (snd fk)) l :=
              match l with
              | [] => Forall_nil _
              | fk :: r =>
                  Forall_cons fk
                    ((fix go2 (ks : list gtree) : Forall P ks :=
                        match ks with
                        | [] => Forall_nil _
                        | k :: r2 => Forall_cons k (gtree_ind' k) (go2 r2)
                        end) (snd fk))
                    (go r)
              end) kids)
    end.
End Ind.

Lemma pair_eqb_eq a b : pair_eqb a b = true <-> a = b.
Proof.
  destruct a as [a1 a2], b as [b1 b2]; unfold pair_eqb; cbn.
  rewrite andb_true_iff, !N.eqb_eq. split; [intros [-> ->]; reflexivity | intros E; inversion E; auto].
Qed.

Lemma pmem_In a l : pmem a l = true <-> In a l.
Proof.
  unfold pmem. rewrite existsb_exists. split.
  - intros [x [Hin Heq]]. apply pair_eqb_eq in Heq. now subst.
  - intros Hin. exists a. split; [assumption | now apply pair_eqb_eq].
Qed.

(* [reach X t n]: n is part of the tree t, through a chain of fields none of which is a (type, field)
   pair listed in X.  [subtree] is the full "part of the tree" relation of the property. *)
Inductive reach (X : list (N * N)) : gtree -> gtree -> Prop :=
| reach_refl t : reach X t t
| reach_step t f ks c n :
    In (f, ks) (g_kids t) -> In c ks -> pmem (g_ty t, f) X = false ->
    reach X c n -> reach X t n.
Definition subtree (n t : gtree) : Prop := reach [] t n.

Definition wf (fields : list (N * N)) (t : gtree) : Prop :=
  forall e, In e (edges t) -> pmem e fields = true.

Lemma edges_kid t f ks c : In (f, ks) (g_kids t) -> In c ks ->
  In (g_ty t, f) (edges t) /\ (forall e, In e (edges c) -> In e (edges t)).
Proof.
  destruct t as [id ty kids]; cbn [g_kids g_ty edges]. intros Hk Hc. split.
  - apply in_flat_map. exists (f, ks). split; [assumption | now left].
  - intros e He. apply in_flat_map. exists (f, ks). split; [assumption|].
    right. apply in_flat_map. exists c. now split.
Qed.

Lemma wf_kid fields t f ks c : wf fields t -> In (f, ks) (g_kids t) -> In c ks -> wf fields c.
Proof.
  intros Hwf Hk Hc e He. apply Hwf. now apply (proj2 (edges_kid t f ks c Hk Hc)).
Qed.

Lemma walk_step emitted t f ks c n :
  In (f, ks) (g_kids t) -> In c ks -> pmem (g_ty t, f) emitted = true ->
  In n (walk emitted c) -> In n (walk emitted t).
Proof.
  destruct t as [id ty kids]; cbn [g_kids g_ty]. intros Hk Hc He Hn.
  cbn [walk]. right. apply in_flat_map. exists (f, ks). split; [assumption|].
  cbn [fst snd]. rewrite He. apply in_flat_map. exists c. now split.
Qed.

Lemma walk_self emitted t : In t (walk emitted t).
Proof. destruct t; cbn [walk]; now left. Qed.

(* C14, completeness: every node that is part of the tree, through fields outside the exception list, is
   visited.  With X = [] this is the property at full strength. *)
Theorem walk_complete_except fields emitted X :
  cover_except fields emitted X = true ->
  forall t n, wf fields t -> reach X t n -> In n (walk emitted t).
Proof.
  intros Hcov t n Hwf Hr. induction Hr as [t | t f ks c n Hk Hc HX Hr IH].
  - apply walk_self.
  - eapply walk_step; eauto.
    + unfold cover_except in Hcov. rewrite forallb_forall in Hcov.
      destruct (edges_kid t f ks c Hk Hc) as [He _].
      apply Hwf in He. apply pmem_In in He. specialize (Hcov _ He).
      rewrite HX, orb_false_r in Hcov. exact Hcov.
    + apply IH. eapply wf_kid; eauto.
Qed.

Corollary walk_complete fields emitted :
  cover_except fields emitted [] = true ->
  forall t n, wf fields t -> subtree n t -> In n (walk emitted t).
Proof. intros H t n. now apply walk_complete_except. Qed.

(* C14, soundness: nothing that is not part of the tree is visited (given that no Children() method
   hands out foreign nodes — the [extras] column of the probe table, checked in Inst). *)
Theorem walk_sound emitted : forall t n, In n (walk emitted t) -> subtree n t.
Proof.
  intros t. induction t as [id ty kids IH] using gtree_ind'. intros n Hn.
  cbn [walk] in Hn. destruct Hn as [<- | Hn]; [constructor|].
  apply in_flat_map in Hn. destruct Hn as [[f ks] [Hk Hn]]. cbn [fst snd] in Hn.
  destruct (pmem (ty, f) emitted); [|contradiction].
  apply in_flat_map in Hn. destruct Hn as [c [Hc Hn]].
  rewrite Forall_forall in IH. specialize (IH _ Hk). cbn [snd] in IH.
  rewrite Forall_forall in IH. specialize (IH _ Hc _ Hn).
  eapply reach_step with (f := f) (ks := ks) (c := c); eauto.
Qed.

(* visit-once: the pre-order list has exactly one entry per path; its length is the tree size when the
   table covers every field (used by the cost statements: a traversal is linear in the tree). *)
Fixpoint size (t : gtree) : nat :=
  match t with
  | GNode _ _ kids =>
      S (fold_right (fun (fk : N * list gtree) acc => fold_right (fun c a => (size c + a)%nat) 0%nat (snd fk) + acc)%nat 0%nat kids)
  end.

Lemma length_flat_map {A B} (f : A -> list B) l :
  length (flat_map f l) = fold_right (fun x a => (length (f x) + a)%nat) 0%nat l.
Proof. induction l as [|x l IH]; cbn; [reflexivity|]. now rewrite app_length, IH. Qed.

Theorem walk_length_le emitted : forall t, (length (walk emitted t) <= size t)%nat.
Proof.
  intros t. induction t as [id ty kids IH] using gtree_ind'.
  cbn [walk size length]. apply le_n_S. rewrite length_flat_map.
  induction kids as [|[f ks] r IHr]; cbn [fold_right]; [lia|].
  inversion IH as [|? ? Hks Hr]; subst. specialize (IHr Hr). cbn [fst snd] in *.
  assert (length (if pmem (ty, f) emitted then flat_map (walk emitted) ks else [])
          <= fold_right (fun c a => size c + a) 0 ks)%nat as Hle.
  { destruct (pmem (ty, f) emitted); [|cbn; lia].
    rewrite length_flat_map. clear -Hks. induction ks as [|k ks IHk]; cbn; [lia|].
    inversion Hks; subst. specialize (IHk H2). lia. }
  lia.
Qed.

(* pruning: Inspect visits exactly the nodes reachable through kept ancestors and emitted fields *)
Inductive reach_kept (emitted : list (N * N)) (keep : gtree -> bool) : gtree -> gtree -> Prop :=
| rk_refl t : reach_kept emitted keep t t
| rk_step t f ks c n :
    keep t = true -> In (f, ks) (g_kids t) -> In c ks -> pmem (g_ty t, f) emitted = true ->
    reach_kept emitted keep c n -> reach_kept emitted keep t n.

Theorem inspect_prune emitted keep : forall t n,
  In n (inspect emitted keep t) <-> reach_kept emitted keep t n.
Proof.
  intros t n. split.
  - revert n. induction t as [id ty kids IH] using gtree_ind'. intros n Hn.
    cbn [inspect] in Hn. destruct (keep (GNode id ty kids)) eqn:Hk.
    + destruct Hn as [<- | Hn]; [constructor|].
      apply in_flat_map in Hn. destruct Hn as [[f ks] [Hin Hn]]. cbn [fst snd] in Hn.
      destruct (pmem (ty, f) emitted) eqn:He; [|contradiction].
      apply in_flat_map in Hn. destruct Hn as [c [Hc Hn]].
      rewrite Forall_forall in IH. specialize (IH _ Hin). cbn [snd] in IH.
      rewrite Forall_forall in IH. specialize (IH _ Hc _ Hn).
      eapply rk_step with (f := f) (ks := ks) (c := c); eauto.
    + destruct Hn as [<- | []]. constructor.
  - intros Hr. induction Hr as [t | t f ks c n Hk Hin Hc He Hr IH].
    + destruct t as [id ty kids]. cbn [inspect]. destruct (keep _); now left.
    + destruct t as [id ty kids]. cbn [inspect g_kids g_ty] in *. rewrite Hk. right.
      apply in_flat_map. exists (f, ks). split; [assumption|]. cbn [fst snd]. rewrite He.
      apply in_flat_map. exists c. now split.
Qed.

Lemma wfb_wf fields t : wfb fields t = true -> wf fields t.
Proof. unfold wfb, wf. rewrite forallb_forall. auto. Qed.
