(* ExprParseExtP.v — the remaining productions of the reference expression grammar (Spec/RefGrammar.v [mexpr]):
   type names with arguments (e::NUMERIC(10,2), CAST(e AS VARCHAR(20))), function calls (plain and DISTINCT, any
   number of arguments), CASE (searched and simple form, any number of WHEN clauses, optional ELSE), tuples / row
   constructors.  Together with the per-production lemmas of Proofs/ExprParseP.v this gives the statement of
   [parse_render_expr_partial] for EVERY reference expression ([ref_expr e = true]), no sub-surface predicate left. *)
From Coq Require Import List String Ascii Bool Arith NArith Lia.
From GV Require Import Spec.RefGrammar Model.Expr Model.ExprParse Proofs.ExprParseP.
Import ListNotations.
Local Open Scope string_scope.
Local Open Scope list_scope.
Local Open Scope nat_scope.
Local Notation length := List.length.
Arguments isT !t k /.
Arguments litfold !t kw /.

(* ------------------------------------------------------------------------------------------------ *)
(* strings *)
Lemma sapp_assoc : forall a b c : string, ((a ++ b) ++ c)%string = (a ++ (b ++ c))%string.
Proof. induction a as [|ch a IH]; intros; cbn [append]; [reflexivity|rewrite IH; reflexivity]. Qed.
Lemma sapp_nil_r : forall a : string, (a ++ "")%string = a.
Proof. induction a as [|ch a IH]; cbn [append]; [reflexivity|rewrite IH; reflexivity]. Qed.

(* ------------------------------------------------------------------------------------------------ *)
(* type arguments *)
Fixpoint args_toks (l : list string) : list token :=
  match l with [] => [] | a :: r => tComma :: Tk TyNumber a :: args_toks r end.
Fixpoint args_str (l : list string) : string :=
  match l with [] => "" | a :: r => ("," ++ (a ++ args_str r))%string end.

Lemma sep_args : forall a l, sep_by [tComma] (map (fun s => [Tk TyNumber s]) (a :: l)) = Tk TyNumber a :: args_toks l.
Proof.
  intros a l. revert a. induction l as [|b l IH]; intros a; [reflexivity|].
  change (sep_by [tComma] (map (fun s => [Tk TyNumber s]) (a :: b :: l)))
    with ([Tk TyNumber a] ++ [tComma] ++ sep_by [tComma] (map (fun s => [Tk TyNumber s]) (b :: l))).
  rewrite IH. reflexivity.
Qed.

Lemma join_args : forall a l, join_comma (a :: l) = (a ++ args_str l)%string.
Proof.
  intros a l. revert a. induction l as [|b l IH]; intros a.
  - cbn [join_comma args_str]. rewrite sapp_nil_r. reflexivity.
  - change (join_comma (a :: b :: l)) with (a ++ ("," ++ join_comma (b :: l)))%string. rewrite IH. reflexivity.
Qed.

Lemma length_args_toks : forall l, length (args_toks l) = 2 * length l.
Proof. induction l as [|a l IH]; cbn [args_toks length]; lia. Qed.

Lemma tp_tail : forall pok, (forall s, pok (Tk TyNumber s) = true) -> forall l n count acc rest,
    length (args_toks l) < n ->
    type_params pok n (S count) acc (args_toks l ++ tRP :: rest) = Val ((acc ++ args_str l)%string, tRP :: rest).
Proof.
  intros pok Hpok. induction l as [|a l IH]; intros n count acc rest Hn.
  - destruct n as [|n]; [cbn in Hn; lia|]. cbn [args_toks app args_str type_params cur]. cbn. rewrite sapp_nil_r. reflexivity.
  - destruct n as [|n]; [cbn in Hn; lia|]. cbn [args_toks app args_str type_params cur]. cbn [isT ty tty_eqb tty_code N.eqb Pos.eqb tRP tComma].
    cbn [Nat.eqb bind cur advance lit]. rewrite Hpok.
    rewrite IH by (cbn [args_toks length] in Hn; lia).
    rewrite !sapp_assoc. reflexivity.
Qed.

(* parseDataType reads every type name of the reference grammar back *)
Lemma pdt_any : forall t rest, cont8 (cur rest) = false -> parse_data_type (type_toks t ++ rest) = Val (type_str t, rest).
Proof.
  intros [n a] rest Hc. destruct a as [|a l]; [apply pdt_simple; [reflexivity|exact Hc]|].
  unfold cont8 in Hc. repeat (apply orb_false_elim in Hc; destruct Hc as [Hc ?]).
  unfold parse_data_type, type_toks, type_str. cbn [targs tname]. rewrite sep_args, join_args.
  cbn [app cur advance]. cbn [is_identifier isT ty tty_eqb tty_code N.eqb Pos.eqb orb negb andb lit tLP].
  cbn [type_params cur]. cbn [isT ty tty_eqb tty_code N.eqb Pos.eqb tRP Nat.eqb bind orb lit advance].
  rewrite <- app_assoc. cbn [app].
  rewrite tp_tail; [|intros; reflexivity|cbn [length]; rewrite ?app_length; cbn [length]; lia].
  cbn [isT ty tty_eqb tty_code N.eqb Pos.eqb orb bind advance cur lit].
  match goal with Hb : isT (cur rest) TyLBracket = false |- _ => rewrite Hb end.
  rewrite !sapp_assoc. reflexivity.
Qed.

Ltac side :=
  cbn [body bdepth length bin_ctx fst snd] in *;
  repeat progress (rewrite ?app_length in *; cbn [length] in * ); try lia.

Ltac stops_from H :=
  first [ exact H | reflexivity | (eapply stops_mono; [|exact H]; cbn; lia) ].

Section Ext.
  Variable md : nat.
  Notation df := no_defects.
  Notation All := (All md).
  Notation PE := (PE md).
  Notation PC := (PC md).
  Notation r0 := (r0 md).
  Notation r7 := (r7 md).

  Ltac start_case :=
    apply All_intro; intros rr f d rest Href Hlen Hdep Hst; cbn [glevel level_of gl pre ref_expr] in *.

  (* -------------------------------------------------------------------------------------------- *)
  (* e :: type and CAST(e AS type), any type name *)
  Lemma All_castop : forall e t, All e -> All (MCastOp e t).
  Proof. intros e t IHe. apply All_castop_gen; [exact IHe|]. intros rest Hc. apply pdt_any. exact Hc. Qed.

  Lemma prim_cast_any : forall f d ts x t rest,
      S d <= md ->
      r0 f (S d) (ts ++ Tk TyAs "AS" :: type_toks t ++ tRP :: rest) = Val (x, Tk TyAs "AS" :: type_toks t ++ tRP :: rest) ->
      r7 (S f) d (Tk TyCast "CAST" :: tLP :: ts ++ Tk TyAs "AS" :: type_toks t ++ tRP :: rest) = Val (GCast x (type_str t), rest).
  Proof.
    intros f d ts x [n a] rest Hd Hr. destruct a as [|a l]; [apply prim_cast; [exact Hd|reflexivity|exact Hr]|].
    remember (type_str (MkType n (a :: l))) as tstr eqn:Etstr.
    assert (Ett : type_toks (MkType n (a :: l)) = Tk TyIdent n :: tLP :: Tk TyNumber a :: args_toks l ++ [tRP]).
    { unfold type_toks. cbn [targs tname]. rewrite sep_args. reflexivity. }
    rewrite Ett in *. clear Ett.
    unfold ExprParseP.r7, primary. cbn. unfold parse_cast. cbn.
    rewrite PE_S. unfold expr_body. destruct (Nat.ltb_spec md (S d)); [lia|].
    unfold ExprParseP.r0 in Hr. cbn [app] in Hr |- *. rewrite <- app_assoc in Hr |- *. cbn [app] in Hr |- *.
    rewrite Hr. cbn [bind cur advance]. cbn [isT ty tty_eqb tty_code N.eqb Pos.eqb negb lit tLP].
    cbn [type_params cur]. cbn [isT ty tty_eqb tty_code N.eqb Pos.eqb tRP Nat.eqb bind orb lit advance is_numeric_literal].
    rewrite tp_tail; [|intros; reflexivity|cbn [length]; rewrite ?app_length; cbn [length]; lia].
    cbn [isT ty tty_eqb tty_code N.eqb Pos.eqb orb negb bind advance cur lit tRP is_numeric_literal].
    subst tstr. unfold type_str. cbn [targs tname]. rewrite join_args.
    rewrite !sapp_assoc. reflexivity.
  Qed.

  Lemma All_cast : forall e t, All e -> All (MCast e t).
  Proof.
    intros e t IHe. start_case.
    apply andb_prop in Href; destruct Href as [Hr1 Hr2].
    intros R HK. cbn [Kg] in HK. inversion HK; subst R. clear HK. cbn [rg body ast_of].
    cbn [app]. repeat (rewrite <- app_assoc; cbn [app]).
    destruct f as [|f]; [side|].
    apply prim_cast_any; [side|].
    apply (use_child_direct md e IHe 0); [assumption|side|side|reflexivity|reflexivity].
  Qed.

  (* -------------------------------------------------------------------------------------------- *)
  (* heads of renderings *)
  Lemma head_isT_not : forall e lv (r : rho) rest k,
      forallb (fun a => negb (N.eqb (tty_code a) (tty_code k)))
        [TyIdent; TyDQuoted; TyNumber; TySQuoted; TyPlaceholder; TyNull; TyTrue; TyFalse; TyLParen; TyNot; TyCase; TyCast] = true ->
      isT (cur (render lv r e ++ rest)) k = false.
  Proof.
    intros e lv r rest k Hk. destruct (render_head_app e lv r rest) as (tk & tl & E & S1). rewrite E. cbn [cur].
    apply starts_not; assumption.
  Qed.

  Lemma seplist_head_not : forall x tl (r : rho) i rest k,
      forallb (fun a => negb (N.eqb (tty_code a) (tty_code k)))
        [TyIdent; TyDQuoted; TyNumber; TySQuoted; TyPlaceholder; TyNull; TyTrue; TyFalse; TyLParen; TyNot; TyCase; TyCast] = true ->
      isT (cur (sep_by [tComma] (render_list render 0 r i (x :: tl)) ++ rest)) k = false.
  Proof.
    intros x tl r i rest k Hk. cbn [render_list].
    destruct tl as [|y tl']; cbn [render_list sep_by]; [|rewrite <- app_assoc]; apply head_isT_not; exact Hk.
  Qed.

  Lemma sep_cons2 : forall e e2 tl (r : rho) i,
      sep_by [tComma] (render_list render 0 r i (e :: e2 :: tl))
      = render 0 (sub r i) e ++ tComma :: sep_by [tComma] (render_list render 0 r (S i) (e2 :: tl)).
  Proof. reflexivity. Qed.

  (* -------------------------------------------------------------------------------------------- *)
  (* function calls *)
  Lemma call_args_ok : forall args, Forall All args -> forallb ref_expr args = true -> args <> [] ->
      forall (r : rho) i f d acc rest n,
        length (sep_by [tComma] (render_list render 0 r i args) ++ tRP :: rest) < f ->
        S d + pdepth_list pdepth 0 r i args <= md ->
        length (sep_by [tComma] (render_list render 0 r i args) ++ tRP :: rest) <= n ->
        call_args (PE f) n d acc (sep_by [tComma] (render_list render 0 r i args) ++ tRP :: rest)
        = Val (acc ++ map ast_of args, tRP :: rest).
  Proof.
    induction args as [|e tl IH]; intros HA Href Hne r i f d acc rest n Hlen Hdep Hn; [contradiction|].
    inversion HA as [|? ? HAe HAtl]; subst. cbn [forallb] in Href. apply andb_prop in Href. destruct Href as [Hre Hrtl].
    assert (Hord : isT (cur (sep_by [tComma] (render_list render 0 r i (e :: tl)) ++ tRP :: rest)) TyOrder = false)
      by (apply seplist_head_not; reflexivity).
    destruct n as [|n]; [rewrite app_length in Hn; cbn [length] in Hn; lia|].
    cbn [call_args]. rewrite Hord. clear Hord.
    cbn [pdepth_list] in Hdep.
    destruct tl as [|e2 tl'].
    - cbn [render_list sep_by] in *.
      rewrite (PE_item md e HAe); [|assumption|assumption|lia|reflexivity].
      cbn [bind cur]. cbn. reflexivity.
    - rewrite sep_cons2 in *. rewrite <- app_assoc in *. cbn [app] in *.
      rewrite app_length in Hlen, Hn. cbn [length] in Hlen, Hn.
      rewrite (PE_item md e HAe); [|assumption| | |reflexivity].
      + cbn [bind cur]. cbn [isT ty tty_eqb tty_code N.eqb Pos.eqb tComma]. cbn [advance].
        rewrite IH; [|assumption|assumption|discriminate|lia|lia|lia].
        rewrite <- app_assoc. reflexivity.
      + rewrite app_length. cbn [length]. lia.
      + lia.
  Qed.

  Lemma pfc_ok : forall n (dst : bool) args, Forall All args -> forallb ref_expr args = true ->
      forall (r : rho) f d rest,
        length (sep_by [tComma] (render_list render 0 r 0 args) ++ tRP :: rest) < f ->
        S d + pdepth_list pdepth 0 r 0 args <= md ->
        cont8 (cur rest) = false ->
        parse_function_call (PE f) d n
          (tLP :: (if dst then [Tk TyDistinct "DISTINCT"] else []) ++ sep_by [tComma] (render_list render 0 r 0 args) ++ tRP :: rest)
        = Val (GFunc n (map ast_of args) dst None [] [] None, rest).
  Proof.
    intros n dst args HA Href r f d rest Hlen Hdep Hc.
    unfold cont8 in Hc. repeat (apply orb_false_elim in Hc; destruct Hc as [Hc ?]).
    destruct args as [|x tl].
    - unfold parse_function_call.
      cbn [cur advance isT ty tty_eqb tty_code N.eqb Pos.eqb negb tLP render_list sep_by app].
      destruct dst; cbn [app cur advance isT ty tty_eqb tty_code N.eqb Pos.eqb negb tRP bind].
      all: change (litfold tRP "SEPARATOR") with false; cbn [bind cur advance isT ty tty_eqb tty_code N.eqb Pos.eqb negb tRP map].
      all: repeat match goal with Hb : isT (cur ?xr) _ = false |- _ => rewrite Hb; clear Hb end; reflexivity.
    - assert (Hd : isT (cur (sep_by [tComma] (render_list render 0 r 0 (x :: tl)) ++ tRP :: rest)) TyDistinct = false)
        by (apply seplist_head_not; reflexivity).
      assert (Hp : isT (cur (sep_by [tComma] (render_list render 0 r 0 (x :: tl)) ++ tRP :: rest)) TyRParen = false)
        by (apply seplist_head_not; reflexivity).
      unfold parse_function_call.
      cbn [cur advance isT ty tty_eqb tty_code N.eqb Pos.eqb negb tLP].
      destruct dst; cbn [app cur advance isT ty tty_eqb tty_code N.eqb Pos.eqb negb].
      all: rewrite ?Hd; rewrite Hp; cbn [negb].
      all: rewrite call_args_ok; [|assumption|assumption|discriminate|assumption|assumption|lia].
      all: cbn [bind cur app].
      all: change (isT tRP TyOrder) with false; change (litfold tRP "SEPARATOR") with false; cbn [bind].
      all: change (isT tRP TyRParen) with true; cbn [negb advance].
      all: repeat match goal with Hb : isT (cur ?xr) _ = false |- _ => rewrite Hb; clear Hb end; reflexivity.
  Qed.

  Lemma plain_not_match : forall n, plain_name n = true -> eqfold n "MATCH" = false.
  Proof.
    intros n H. unfold plain_name in H. apply andb_prop in H. destruct H as [_ H].
    rewrite forallb_forall in H. specialize (H "MATCH"). apply negb_true_iff. apply H.
    unfold special_words. cbn [In]. tauto.
  Qed.

  Lemma All_func : forall n dst args, Forall All args -> All (MFunc n dst args).
  Proof.
    intros n dst args HA. start_case.
    apply andb_prop in Href; destruct Href as [Hr1 Hr2].
    assert (Hc8 : cont8 (cur rest) = false) by (split_stops Hst; assumption).
    intros R HK. cbn [Kg] in HK. inversion HK; subst R. clear HK. cbn [rg body ast_of].
    cbn [app]. rewrite <- !app_assoc. cbn [app].
    unfold ExprParseP.r7, primary.
    cbn [cur advance peek isT ty tty_eqb tty_code N.eqb Pos.eqb andb orb negb lit tLP].
    rewrite pfc_ok; [|assumption|assumption|side; destruct dst; side|side|exact Hc8].
    cbn [bind]. rewrite (plain_not_match n Hr1). reflexivity.
  Qed.

  (* -------------------------------------------------------------------------------------------- *)
  (* tuples *)
  Lemma tuple_tail_ok : forall l, Forall All l -> forallb ref_expr l = true -> l <> [] ->
      forall (r : rho) i f d acc rest n,
        length (tComma :: sep_by [tComma] (render_list render 0 r i l) ++ tRP :: rest) < f ->
        S d + pdepth_list pdepth 0 r i l <= md ->
        length (tComma :: sep_by [tComma] (render_list render 0 r i l) ++ tRP :: rest) < n ->
        tuple_tail (PE f) n d acc (tComma :: sep_by [tComma] (render_list render 0 r i l) ++ tRP :: rest)
        = Val (acc ++ map ast_of l, tRP :: rest).
  Proof.
    induction l as [|e tl IH]; intros HA Href Hne r i f d acc rest n Hlen Hdep Hn; [contradiction|].
    inversion HA as [|? ? HAe HAtl]; subst. cbn [forallb] in Href. apply andb_prop in Href. destruct Href as [Hre Hrtl].
    destruct n as [|n]; [lia|].
    cbn [tuple_tail cur]. cbn [isT ty tty_eqb tty_code N.eqb Pos.eqb tComma]. cbn [advance].
    cbn [pdepth_list] in Hdep. cbn [length] in Hlen, Hn.
    destruct tl as [|e2 tl'].
    - cbn [render_list sep_by] in *.
      rewrite (PE_item md e HAe); [|assumption|lia|lia|reflexivity].
      cbn [bind]. destruct n as [|n]; [rewrite app_length in Hn; cbn [length] in Hn; lia|].
      cbn [tuple_tail cur]. cbn. reflexivity.
    - rewrite sep_cons2 in *. rewrite <- app_assoc in *. cbn [app] in *.
      rewrite app_length in Hlen, Hn. cbn [length] in Hlen, Hn.
      rewrite (PE_item md e HAe); [|assumption| | |reflexivity].
      + cbn [bind].
        rewrite IH; [|assumption|assumption|discriminate|cbn [length]; lia|lia|cbn [length]; lia].
        rewrite <- app_assoc. reflexivity.
      + rewrite app_length. cbn [length]. lia.
      + lia.
  Qed.

  Lemma All_tuple : forall es, Forall All es -> All (MTuple es).
  Proof.
    intros es HA. start_case.
    apply andb_prop in Href; destruct Href as [Hr1 Hr2].
    destruct es as [|e1 [|e2 tl]]; [discriminate|discriminate|]. clear Hr1.
    inversion HA as [|? ? HA1 HAtl]; subst. cbn [forallb] in Hr2. apply andb_prop in Hr2. destruct Hr2 as [Hre1 Hrtl].
    intros R HK. cbn [Kg] in HK. inversion HK; subst R. clear HK. cbn [rg body ast_of bdepth pdepth_list] in *.
    rewrite sep_cons2 in *. cbn [app] in *. rewrite <- !app_assoc in *. cbn [app] in *.
    unfold ExprParseP.r7, primary.
    cbn [cur advance isT ty tty_eqb tty_code N.eqb Pos.eqb andb orb negb lit tLP].
    rewrite (head_isT_not e1 0 (sub rr 0) _ TySelect eq_refl), (head_isT_not e1 0 (sub rr 0) _ TyWith eq_refl). cbn [orb].
    rewrite (PE_item md e1 HA1); [|assumption|side|side|reflexivity].
    cbn [bind cur]. cbn [isT ty tty_eqb tty_code N.eqb Pos.eqb tComma].
    rewrite tuple_tail_ok; [|assumption|assumption|discriminate|side|cbn [pdepth_list]; lia|side].
    cbn [bind cur]. cbn [isT ty tty_eqb tty_code N.eqb Pos.eqb tRP negb advance app map]. reflexivity.
  Qed.

  (* -------------------------------------------------------------------------------------------- *)
  (* CASE *)
  Definition when_ast (cv : mexpr * mexpr) : gexpr * gexpr := (ast_of (fst cv), ast_of (snd cv)).

  Lemma whens_head : forall whens (r : rho) i tail,
      stops 0 (cur tail) = true -> stops 0 (cur (render_whens render r i whens ++ tail)) = true.
  Proof. intros whens r i tail H. destruct whens as [|[c v] tl]; [exact H|reflexivity]. Qed.

  Lemma case_whens_ok : forall whens,
      Forall (fun cv => All (fst cv) /\ All (snd cv)) whens -> ref_whens ref_expr whens = true ->
      forall (r : rho) i f d acc tail n,
        length (render_whens render r i whens ++ tail) < f ->
        S d + pdepth_whens pdepth r i whens <= md ->
        length (render_whens render r i whens ++ tail) < n ->
        isT (cur tail) TyWhen = false -> stops 0 (cur tail) = true ->
        case_whens (PE f) n d acc (render_whens render r i whens ++ tail)
        = Val (acc ++ map when_ast whens, tail).
  Proof.
    induction whens as [|[c v] tl IH]; intros HA Href r i f d acc tail n Hlen Hdep Hn Hw Hst.
    - destruct n as [|n]; [lia|]. cbn [render_whens app case_whens map]. rewrite Hw. rewrite app_nil_r. reflexivity.
    - inversion HA as [|? ? [HAc HAv] HAtl]; subst. cbn [fst snd] in *.
      cbn [ref_whens] in Href. apply andb_prop in Href. destruct Href as [Href Hrtl]. apply andb_prop in Href. destruct Href as [Hrc Hrv].
      cbn [render_whens pdepth_whens] in *. cbn [app] in *. repeat (rewrite <- app_assoc in *; cbn [app] in * ).
      cbn [length] in Hlen, Hn. rewrite !app_length in Hlen, Hn. cbn [length] in Hlen, Hn. rewrite !app_length in Hlen, Hn.
      destruct n as [|n]; [lia|].
      cbn [case_whens cur]. cbn [isT ty tty_eqb tty_code N.eqb Pos.eqb advance].
      rewrite (PE_item md c HAc); [|assumption| | |reflexivity].
      + cbn [rewrap bind cur]. cbn [isT ty tty_eqb tty_code N.eqb Pos.eqb negb advance].
        rewrite (PE_item md v HAv); [|assumption| | |apply whens_head; exact Hst].
        * cbn [rewrap bind].
          rewrite IH; [|assumption|assumption|rewrite app_length; lia|lia|rewrite app_length; lia|exact Hw|exact Hst].
          rewrite <- app_assoc. reflexivity.
        * rewrite !app_length. lia.
        * lia.
      + rewrite !app_length. cbn [length]. rewrite !app_length. lia.
      + lia.
  Qed.

  (* the part of parseCaseExpression after the WHEN clauses *)
  Lemma case_end_ok : forall els, (forall a, els = Some a -> All a) ->
      match els with Some a => ref_expr a | None => true end = true ->
      forall (r : rho) f d rest,
        length (match els with Some a => Tk TyElse "ELSE" :: render 0 (sub r 1) a | None => [] end ++ Tk TyEnd "END" :: rest) < f ->
        S d + match els with Some a => pdepth 0 (sub r 1) a | None => 0 end <= md ->
        let tail := match els with Some a => Tk TyElse "ELSE" :: render 0 (sub r 1) a | None => [] end ++ Tk TyEnd "END" :: rest in
        isT (cur tail) TyWhen = false /\ stops 0 (cur tail) = true /\
        (if isT (cur tail) TyElse then
           do (v, ts1) <- rewrap EInvalid (PE f d (advance tail)); Val (Some v, ts1)
         else Val (None, tail))
        = Val (option_map ast_of els, Tk TyEnd "END" :: rest).
  Proof.
    intros els HA Href r f d rest Hlen Hdep tail. subst tail.
    destruct els as [a|]; cbn [app cur option_map].
    - split; [reflexivity|]. split; [reflexivity|].
      cbn [isT ty tty_eqb tty_code N.eqb Pos.eqb advance].
      cbn [app length] in Hlen.
      rewrite (PE_item md a (HA a eq_refl)); [|assumption|lia|lia|reflexivity].
      cbn [rewrap bind cur]. reflexivity.
    - split; [reflexivity|]. split; [reflexivity|]. reflexivity.
  Qed.

  Lemma All_case : forall s whens els,
      (forall a, s = Some a -> All a) -> Forall (fun cv => All (fst cv) /\ All (snd cv)) whens ->
      (forall a, els = Some a -> All a) -> All (MCase s whens els).
  Proof.
    intros s whens els HAs HAw HAe. start_case.
    apply andb_prop in Href; destruct Href as [Href Hre]. apply andb_prop in Href; destruct Href as [Href Hrw].
    apply andb_prop in Href; destruct Href as [Hrs Hne].
    intros R HK. cbn [Kg] in HK. inversion HK; subst R. clear HK. cbn [rg body ast_of bdepth] in *.
    cbn [app] in *. rewrite <- !app_assoc in *. cbn [app] in *.
    set (tail := match els with Some a => Tk TyElse "ELSE" :: render 0 (sub rr 1) a | None => [] end ++ Tk TyEnd "END" :: rest) in *.
    assert (Hlt : length tail <= length (render_whens render rr 2 whens ++ tail)) by (rewrite app_length; lia).
    destruct (case_end_ok els HAe Hre rr f d rest) as (Hw & Hs0 & Hend).
    { fold tail. cbn [length] in Hlen. rewrite !app_length in Hlen. lia. }
    { lia. }
    fold tail in Hw, Hs0, Hend.
    assert (Hwne : exists w0 wtl, map when_ast whens = w0 :: wtl).
    { destruct whens as [|w0 wtl]; [discriminate|]. eexists _, _. reflexivity. }
    destruct Hwne as (w0 & wtl & Ew).
    unfold ExprParseP.r7, primary.
    cbn [cur isT ty tty_eqb tty_code N.eqb Pos.eqb].
    unfold parse_case. cbn [advance].
    cbn [length] in Hlen. rewrite ?app_length in Hlen.
    destruct s as [a|].
    - rewrite (head_isT_not a 0 (sub rr 0) _ TyWhen eq_refl). cbn [negb].
      rewrite (PE_item md a (HAs a eq_refl)); [|assumption|rewrite ?app_length; lia|lia|apply whens_head; exact Hs0].
      cbn [rewrap bind].
      rewrite case_whens_ok; [|assumption|assumption|rewrite ?app_length; lia|lia|rewrite ?app_length; lia|exact Hw|exact Hs0].
      cbn [bind app]. rewrite Ew. rewrite Hend. cbn [bind cur advance]. cbn [isT ty tty_eqb tty_code N.eqb Pos.eqb negb].
      rewrite <- Ew. reflexivity.
    - cbn [app] in *.
      assert (Hww : isT (cur (render_whens render rr 2 whens ++ tail)) TyWhen = true).
      { destruct whens as [|[c v] wt]; [discriminate|reflexivity]. }
      rewrite Hww. cbn [negb bind].
      rewrite case_whens_ok; [|assumption|assumption|rewrite ?app_length; lia|lia|rewrite ?app_length; lia|exact Hw|exact Hs0].
      cbn [bind app]. rewrite Ew. rewrite Hend. cbn [bind cur advance]. cbn [isT ty tty_eqb tty_code N.eqb Pos.eqb negb].
      rewrite <- Ew. reflexivity.
  Qed.

  (* -------------------------------------------------------------------------------------------- *)
  (* every reference expression *)
  Theorem all_exprs_ext : forall e, All e.
  Proof.
    induction e using mexpr_ind2.
    - apply All_ident.
    - apply All_qident.
    - apply All_num.
    - apply All_str.
    - apply All_ph.
    - apply All_null.
    - apply All_bool.
    - apply All_bin; assumption.
    - apply All_not; assumption.
    - apply All_isnull; assumption.
    - apply All_in; assumption.
    - apply All_between; assumption.
    - apply All_like; assumption.
    - apply All_castop; assumption.
    - apply All_func; assumption.
    - apply All_case; assumption.
    - apply All_cast; assumption.
    - apply All_tuple; assumption.
  Qed.
End Ext.

(* the property theorem for the whole reference expression grammar *)
Theorem parse_render_expr_ext :
  forall md e (r : rho) stop d fuel,
    ref_expr e = true -> follow_ok stop ->
    d + 1 + pdepth 0 r e <= md ->
    length (render 0 r e ++ stop) < fuel ->
    parse_expression md no_defects fuel d (render 0 r e ++ stop) = Val (ast_of e, stop).
Proof.
  intros md e r stop d fuel Href Hfo Hdep Hlen.
  apply follow_ok_cur in Hfo.
  change (parse_expression md no_defects fuel d) with (PE md fuel d).
  apply (PE_item md e (all_exprs_ext md e)); [assumption|assumption|lia|exact Hfo].
Qed.

(* non-vacuity: an expression with every production outside [proved] *)
Definition ex_ext : mexpr :=
  MCase (Some (MFunc "f" true [MIdent false "a"; MCastOp (MNum "1") (MkType "NUMERIC" ["10"; "2"])]))
        [(MTuple [MIdent false "x"; MStr "y"], MCast (MFunc "now" false []) (MkType "VARCHAR" ["20"]));
         (MBin (BCmp CEq) (MIdent false "b") (MNum "2"), MCase None [(MBool true, MNull)] None)]
        (Some (MBin BAdd (MIdent false "c") (MFunc "g" false [MIdent false "d"]))).
Example ex_ext_ref : ref_expr ex_ext = true. Proof. reflexivity. Qed.
Example ex_ext_not_proved : proved ex_ext = false. Proof. reflexivity. Qed.
Example ex_ext_parse :
  parse_expr_top no_defects 0 (render 0 no_parens ex_ext ++ [Tk TyEOF ""]) = Val (ast_of ex_ext, [Tk TyEOF ""]).
Proof. vm_compute. reflexivity. Qed.
