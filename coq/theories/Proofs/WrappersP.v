From Coq Require Import List Arith Bool NArith Lia.
From GV Require Import Model.Loops Proofs.LoopsP Model.Wrappers.
Import ListNotations.
Local Open Scope nat_scope.

Section P.
  Variable tree : Type.
  Variable ntok : nat.
  Variable is_eof is_semi starts_stmt : nat -> bool.
  Variable ps : nat -> sres tree.

  Notation parse := (Loops.parse tree ntok is_eof is_semi ps).
  Notation recover := (Loops.recover tree ntok is_eof is_semi starts_stmt ps).
  Notation in_range := (Loops.in_range ntok is_eof).

  (* from [pos] the loops reach a token that is not a semicolon before the end of input *)
  Definition reaches (pos : nat) : Prop :=
    exists q, pos <= q /\ is_semi q = false /\ forall k, pos <= k -> k <= q -> in_range k = true.

  (* when strict parsing fails after reaching a statement, the first error recovery reports carries its code *)
  Lemma fail_first_err_reach : forall fuel pos acc c errs u ts es,
    parse false fuel pos acc = PErr c -> acc <> [] \/ reaches pos ->
    recover fuel pos acc errs u = ROk ts es -> exists p more, es = errs ++ (p, c) :: more.
  Proof.
    induction fuel as [|f IH]; intros pos acc c errs u ts es Hp Hc Hr; [discriminate|].
    cbn [Loops.parse Loops.recover] in Hp, Hr.
    destruct (in_range pos) eqn:Hin.
    - destruct (is_semi pos) eqn:Hs.
      + eapply IH; eauto. destruct Hc as [Hc|(q & Hle & Hq & Hall)]; [left; exact Hc|].
        right. exists q. assert (pos <> q) by (intros ->; congruence).
        repeat split; [lia | exact Hq | intros k Hk1 Hk2; apply Hall; lia].
      + destruct (ps pos) as [t p'|c' p'].
        * eapply IH; eauto. left. destruct acc; discriminate.
        * inversion Hp; subst c'. apply (recover_errs_grow tree ntok is_eof is_semi starts_stmt ps) in Hr.
          destruct Hr as [more ->]. exists pos, more. now rewrite <- app_assoc.
    - destruct Hc as [Hc|(q & Hle & Hq & Hall)].
      + destruct acc; [congruence | discriminate].
      + rewrite (Hall pos (Nat.le_refl _) Hle) in Hin. discriminate.
  Qed.
End P.

(* ------------------------------------------------------------------ all entry points agree *)
Section A.
  Variable tree : Type.

  Definition ps_ok (t : tokens tree) : Prop :=
    (forall p x p', t_ps tree t p = SOk x p' -> p < p') /\ (forall p c p', t_ps tree t p = SErr c p' -> p <= p').

  Theorem entry_points_agree : forall (f : fres tree) (e1 e2 : entry),
    match f with FErr _ => True | FOk t => has_statement_token tree t /\ ps_ok t end ->
    agree tree (run_entry tree e1 f) (run_entry tree e2 f).
  Proof.
    intros [c|t] e1 e2 H.
    - destruct e1, e2; cbn; reflexivity.
    - destruct H as [(q & Hq & Hsemi & Hall) [Hprog Hmono]].
      unfold run_entry, loop_fuel.
      set (n := t_ntok tree t). set (fuel := S n).
      pose proof (parse_fuel tree n (t_eof tree t) (t_semi tree t) (fun _ => false) (t_ps tree t) Hprog false fuel 0 []
                             ltac:(subst fuel; lia)) as Hpf.
      pose proof (recover_fuel tree n (t_eof tree t) (t_semi tree t) (t_start tree t) (t_ps tree t) Hprog Hmono fuel 0 [] [] None
                               ltac:(subst fuel; lia)) as Hrf.
      rewrite (parse_ctx_agrees tree n (t_eof tree t) (t_semi tree t) (t_ps tree t) false fuel 0 []).
      destruct (parse tree n (t_eof tree t) (t_semi tree t) (t_ps tree t) false fuel 0 []) as [ts|c|] eqn:Hp; [| |congruence].
      + (* accepted by the strict loop: recovery returns the same trees and no error *)
        rewrite (ok_then_same tree n (t_eof tree t) (t_semi tree t) (t_start tree t) (t_ps tree t) fuel 0 [] ts [] None Hp).
        destruct e1, e2; cbn; reflexivity || exact I.
      + (* rejected: recovery's first error carries the same code *)
        destruct (recover tree n (t_eof tree t) (t_semi tree t) (t_start tree t) (t_ps tree t) fuel 0 [] [] None) as [ts es|] eqn:Hr;
          [|congruence].
        destruct (fail_first_err_reach tree n (t_eof tree t) (t_semi tree t) (t_start tree t) (t_ps tree t) fuel 0 [] c [] None ts es Hp) as (p & more & ->);
          [right; exists q; repeat split; [lia | exact Hsemi | intros k _ Hk; apply Hall; exact Hk] | exact Hr |].
        destruct e1, e2; cbn; reflexivity.
  Qed.
End A.
