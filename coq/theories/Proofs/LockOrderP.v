(* LockOrderP.v — proofs about Model/LockOrder.v: under the lock discipline no state is a deadlock (any number of
   threads); without it, the re-entrant read lock with a pending writer and the AB/BA inversion are deadlocks. *)
From Coq Require Import List NArith Arith Bool Lia.
From GV Require Import Model.LockOrder.
Import ListNotations.

Lemma holds_any_in : forall m t, holds_any m t = true <-> In m (map fst (l_held t)).
Proof.
  intros m t. unfold holds_any. rewrite existsb_exists. split.
  - intros ([m' md] & Hin & E). cbn in E. apply N.eqb_eq in E. subst. apply in_map_iff. exists (m, md). auto.
  - intros H. apply in_map_iff in H. destruct H as ([m' md] & E & Hin). cbn in E. subst. exists (m, md). split; auto. cbn. apply N.eqb_refl.
Qed.

Lemma holds_w_holds_any : forall m t, holds_w m t = true -> holds_any m t = true.
Proof.
  intros m t H. unfold holds_w in H. apply existsb_exists in H. destruct H as (h & Hin & E).
  apply andb_true_iff in E. destruct E as [E _]. unfold holds_any. apply existsb_exists. exists h. auto.
Qed.

Section Discipline.
  Variable ranks : list (mutex * nat).
  Variable acqs : list acq.
  Hypothesis table_ok : acq_table_ok ranks acqs = true.
  Notation rk := (rank_of ranks).

  (* a blocked thread only holds_any mutexes of rank below the one it waits for *)
  Lemma held_below : forall t m md h, at_row acqs t -> l_wait t = Some (m, md) -> holds_any h t = true -> rk h < rk m.
  Proof.
    intros t m md h Hrow Hw Hh. unfold at_row in Hrow. rewrite Hw in Hrow.
    destruct Hrow as (a & Hin & Em & _ & Hsub).
    unfold acq_table_ok in table_ok. rewrite forallb_forall in table_ok. specialize (table_ok a Hin).
    unfold row_ok in table_ok. rewrite forallb_forall in table_ok.
    apply holds_any_in in Hh. specialize (table_ok h (Hsub h Hh)). rewrite Em in table_ok. apply Nat.ltb_lt in table_ok. exact table_ok.
  Qed.

  (* among the blocked threads one waits for a mutex of maximal rank *)
  Lemma max_waiter : forall ts : lockstate, (exists t, In t ts /\ waiting t = true) ->
    exists t m md, In t ts /\ l_wait t = Some (m, md) /\
      forall u m' md', In u ts -> l_wait u = Some (m', md') -> rk m' <= rk m.
  Proof.
    induction ts as [|a r IH]; intros (t & Hin & Hw); [destruct Hin|].
    destruct (existsb waiting r) eqn:Er.
    - apply existsb_exists in Er. destruct IH as (t0 & m0 & md0 & Hin0 & Hw0 & Hmax); [destruct Er as (x & H1 & H2); eauto|].
      destruct (l_wait a) as [[ma mda]|] eqn:Ea.
      + destruct (le_lt_dec (rk ma) (rk m0)) as [Hle|Hgt].
        * exists t0, m0, md0. split; [now right|]. split; [auto|]. intros u m' md' [<-|Hu] Hwu.
          -- rewrite Ea in Hwu. inversion Hwu; subst. exact Hle.
          -- eauto.
        * exists a, ma, mda. split; [now left|]. split; [auto|]. intros u m' md' [<-|Hu] Hwu.
          -- rewrite Ea in Hwu. inversion Hwu; subst. lia.
          -- specialize (Hmax u m' md' Hu Hwu). lia.
      + exists t0, m0, md0. split; [now right|]. split; [auto|]. intros u m' md' [<-|Hu] Hwu; [congruence|eauto].
    - (* nobody waits in r: a is the one *)
      assert (Hr : forall u, In u r -> l_wait u = None).
      { intros u Hu. destruct (l_wait u) eqn:E; auto. exfalso.
        assert (existsb waiting r = true) by (apply existsb_exists; exists u; split; auto; unfold waiting; now rewrite E). congruence. }
      destruct Hin as [<-|Hin].
      + unfold waiting in Hw. destruct (l_wait a) as [[ma mda]|] eqn:Ea; [|discriminate].
        exists a, ma, mda. split; [now left|]. split; [auto|]. intros u m' md' [<-|Hu] Hwu.
        * rewrite Ea in Hwu. inversion Hwu; subst. lia.
        * rewrite (Hr u Hu) in Hwu. discriminate.
      + unfold waiting in Hw. rewrite (Hr t Hin) in Hw. discriminate.
  Qed.

  (* NO DEADLOCK: any number of threads, every blocked thread blocked at a site of the table with its held set among
     the may-held set of the site.  If somebody is blocked, then a blocked call can return or a thread that holds_any a
     mutex is running. *)
  Theorem no_deadlock : forall ts : lockstate,
    (forall t, In t ts -> at_row acqs t) ->
    (exists t, In t ts /\ waiting t = true) ->
    (exists t, In t ts /\ waiting t = true /\ can_enter ts t = true) \/
    (exists t, In t ts /\ l_held t <> [] /\ waiting t = false).
  Proof.
    intros ts Hrows Hsome.
    destruct (max_waiter ts Hsome) as (t & m & md & Hin & Hw & Hmax).
    (* a holder of m is not blocked: it would wait for something of larger rank than the maximum *)
    assert (Hholder : forall u, In u ts -> holds_any m u = true -> l_held u <> [] /\ waiting u = false).
    { intros u Hu Hh. split.
      - intros E. unfold holds_any in Hh. rewrite E in Hh. discriminate.
      - unfold waiting. destruct (l_wait u) as [[m' md']|] eqn:Eu; auto. exfalso.
        pose proof (held_below u m' md' m (Hrows u Hu) Eu Hh). pose proof (Hmax u m' md' Hu Eu). lia. }
    destruct (existsb (holds_any m) ts) eqn:Eh.
    - right. apply existsb_exists in Eh. destruct Eh as (u & Hu & Hh). exists u. destruct (Hholder u Hu Hh). auto.
    - (* nobody holds_any m *)
      left. destruct md.
      + destruct (existsb (waits_w m) ts) eqn:Ew.
        * (* a pending writer: it can take the free mutex *)
          apply existsb_exists in Ew. destruct Ew as (w & Hwin & Hww). exists w. split; [auto|].
          unfold waits_w in Hww. destruct (l_wait w) as [[m' [|]]|] eqn:Elw; try discriminate.
          apply N.eqb_eq in Hww. subst m'. split; [unfold waiting; now rewrite Elw|].
          unfold can_enter. rewrite Elw, Eh. reflexivity.
        * exists t. split; [auto|]. split; [unfold waiting; now rewrite Hw|].
          unfold can_enter. rewrite Hw, Ew.
          assert (existsb (holds_w m) ts = false) as ->; [|reflexivity].
          destruct (existsb (holds_w m) ts) eqn:E; auto. apply existsb_exists in E. destruct E as (u & Hu & Hhw).
          assert (existsb (holds_any m) ts = true) by (apply existsb_exists; exists u; split; auto using holds_w_holds_any). congruence.
      + exists t. split; [auto|]. split; [unfold waiting; now rewrite Hw|].
        unfold can_enter. rewrite Hw, Eh. reflexivity.
  Qed.

  Corollary never_deadlocked : forall ts : lockstate, (forall t, In t ts -> at_row acqs t) -> deadlocked ts = false.
  Proof.
    intros ts Hrows. destruct (deadlocked ts) eqn:E; auto. exfalso. unfold deadlocked in E.
    apply andb_true_iff in E. destruct E as [E E3]. apply andb_true_iff in E. destruct E as [E1 E2].
    apply existsb_exists in E1. rewrite forallb_forall in E2, E3.
    assert (Hsome : exists t, In t ts /\ waiting t = true) by (destruct E1 as (x & ? & ?); eauto).
    destruct (no_deadlock ts Hrows Hsome) as [(t & Hin & _ & Hc)|(t & Hin & Hh & Hw)].
    - specialize (E2 t Hin). rewrite Hc in E2. discriminate.
    - specialize (E3 t Hin). destruct (l_held t); [congruence|]. congruence.
  Qed.

  (* what the discipline excludes: taking a mutex that may already be held (in any mode) *)
  Lemma no_reacquire : forall a, In a acqs -> ~ In (q_mutex a) (q_may a).
  Proof.
    intros a Hin Hre. unfold acq_table_ok in table_ok. rewrite forallb_forall in table_ok. specialize (table_ok a Hin).
    unfold row_ok in table_ok. rewrite forallb_forall in table_ok. specialize (table_ok _ Hre). apply Nat.ltb_lt in table_ok. lia.
  Qed.
End Discipline.

(* ---- without the discipline ---- *)

(* the re-entrant read lock with a pending writer (sync.RWMutex, writer preference): thread 0 holds_any mutex 7 in read
   mode and asks for it in read mode again; thread 1 asked for it in write mode in between.  Nobody can proceed. *)
Definition reentrant_rlock_state : lockstate :=
  [ {| l_held := [(7%N, MR)]; l_wait := Some (7%N, MR) |};
    {| l_held := []; l_wait := Some (7%N, MW) |} ].

Lemma reentrant_rlock_deadlocks :
  deadlocked reentrant_rlock_state = true /\
  (forall t, In t reentrant_rlock_state -> waiting t = true /\ can_enter reentrant_rlock_state t = false) /\
  (* every blocked thread is at a row of this (undisciplined) table: the inner RLock with the outer one held *)
  (forall t, In t reentrant_rlock_state ->
     at_row [ {| q_mutex := 7%N; q_mode := MR; q_may := [7%N] |}; {| q_mutex := 7%N; q_mode := MW; q_may := [] |} ] t) /\
  (forall ranks, acq_table_ok ranks [ {| q_mutex := 7%N; q_mode := MR; q_may := [7%N] |}; {| q_mutex := 7%N; q_mode := MW; q_may := [] |} ] = false).
Proof.
  split; [vm_compute; reflexivity|]. split; [|split].
  - intros t [<-|[<-|[]]]; vm_compute; auto.
  - intros t [<-|[<-|[]]]; cbn.
    + eexists. split; [now left|]. cbn. repeat split; auto.
    + eexists. split; [right; now left|]. cbn. repeat split; auto; try (intros h []); try (now intros).
  - intros ranks. unfold acq_table_ok, row_ok. cbn [forallb q_may q_mutex]. rewrite Nat.ltb_irrefl. reflexivity.
Qed.

(* without writer preference the same state would not be stuck: the point of modelling it *)
Lemma reentrant_rlock_needs_the_writer :
  deadlocked [ {| l_held := [(7%N, MR)]; l_wait := Some (7%N, MR) |} ] = false.
Proof. vm_compute. reflexivity. Qed.

(* lock order inversion: thread 0 holds_any 1 and wants 2, thread 1 holds_any 2 and wants 1 *)
Definition abba_state : lockstate :=
  [ {| l_held := [(1%N, MW)]; l_wait := Some (2%N, MW) |};
    {| l_held := [(2%N, MW)]; l_wait := Some (1%N, MW) |} ].

Lemma abba_deadlocks :
  deadlocked abba_state = true /\
  (forall ranks, acq_table_ok ranks [ {| q_mutex := 2%N; q_mode := MW; q_may := [1%N] |}; {| q_mutex := 1%N; q_mode := MW; q_may := [2%N] |} ] = false).
Proof.
  split; [vm_compute; reflexivity|].
  intros ranks. unfold acq_table_ok, row_ok. cbn [forallb q_may q_mutex]. rewrite !andb_true_r.
  destruct (rank_of ranks 1%N <? rank_of ranks 2%N) eqn:E1; destruct (rank_of ranks 2%N <? rank_of ranks 1%N) eqn:E2; auto.
  apply Nat.ltb_lt in E1. apply Nat.ltb_lt in E2. lia.
Qed.

(* ---- a lock leaked to the caller ---- *)

(* A goroutine u that has returned to its caller still holds m in write mode.  In EVERY state in which that is so — and
   it is so in every later state: u executes no library code any more, nobody else can unlock for it — no goroutine
   blocked on m (in either mode) can enter, whatever the other goroutines do and however many they are. *)
Theorem leaked_lock_blocks : forall (ts : lockstate) u m,
  In u ts -> holds_w m u = true ->
  forall t md, In t ts -> l_wait t = Some (m, md) -> can_enter ts t = false.
Proof.
  intros ts u m Hu Hw t md Ht Hwait. unfold can_enter. rewrite Hwait.
  assert (Ew : existsb (holds_w m) ts = true) by (apply existsb_exists; exists u; auto).
  assert (Eh : existsb (holds_any m) ts = true) by (apply existsb_exists; exists u; auto using holds_w_holds_any).
  destruct md; [rewrite Ew|rewrite Eh]; reflexivity.
Qed.

(* a read lock that leaked blocks every writer (and then, by writer preference, every later reader behind it) *)
Theorem leaked_read_lock_blocks_writers : forall (ts : lockstate) u m,
  In u ts -> holds_any m u = true ->
  forall t, In t ts -> l_wait t = Some (m, MW) -> can_enter ts t = false.
Proof.
  intros ts u m Hu Hh t Ht Hwait. unfold can_enter. rewrite Hwait.
  assert (Eh : existsb (holds_any m) ts = true) by (apply existsb_exists; exists u; auto). now rewrite Eh.
Qed.

(* the witness: goroutine 0 returned from SetSpan holding 3; goroutines 1 and 2 are stuck in Lock / RLock for ever: this is
   a deadlock state although nobody violates any order *)
Definition leaked_lock_state : lockstate :=
  [ {| l_held := [(3%N, MW)]; l_wait := None |};
    {| l_held := []; l_wait := Some (3%N, MW) |};
    {| l_held := []; l_wait := Some (3%N, MR) |} ].
Lemma leaked_lock_state_stuck :
  (forall t, In t leaked_lock_state -> waiting t = true -> can_enter leaked_lock_state t = false) /\
  no_lock_leak [ {| x_held := [3%N] |} ] = false.
Proof. split; [|reflexivity]. intros t [<-|[<-|[<-|[]]]] H; try discriminate; reflexivity. Qed.

(* the positive side: when no entry point returns holding anything, a goroutine outside the library holds nothing *)
Theorem no_leak_outside_holds_nothing : forall rows t,
  no_lock_leak rows = true -> returned_from rows t -> l_held t = [].
Proof.
  intros rows t Hok (_ & r & Hin & Hsub). unfold no_lock_leak in Hok. rewrite forallb_forall in Hok. specialize (Hok r Hin).
  destruct (x_held r) eqn:E; [|discriminate]. destruct (l_held t) as [|[m md] rest]; auto.
  exfalso. apply (Hsub m). now left.
Qed.

(* ... and therefore never stands in anybody's way: with the whole discipline, a state whose blocked goroutines are at
   rows of the table and whose other goroutines are either inside the library or have returned from an entry point is not
   a deadlock, and the goroutine that is running with a lock is one INSIDE the library (it will reach its unlock) *)
Theorem running_holder_is_inside : forall ranks acqs rows (ts : lockstate),
  acq_table_ok ranks acqs = true -> no_lock_leak rows = true ->
  (forall t, In t ts -> at_row acqs t) ->
  (exists t, In t ts /\ waiting t = true) ->
  (exists t, In t ts /\ waiting t = true /\ can_enter ts t = true) \/
  (exists t, In t ts /\ l_held t <> [] /\ waiting t = false /\ ~ returned_from rows t).
Proof.
  intros ranks acqs rows ts Hok Hleak Hrows Hsome.
  destruct (no_deadlock ranks acqs Hok ts Hrows Hsome) as [H|(t & Hin & Hh & Hw)]; [now left|right].
  exists t. repeat split; auto. intros Hret. apply Hh. eapply no_leak_outside_holds_nothing; eauto.
Qed.
