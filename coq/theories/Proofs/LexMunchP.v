(* LexMunchP.v — munch lemmas: for every lexeme class of Spec/LexSpec.v, nextToken run at the first byte of a
   well-formed lexeme l followed by a text r that cannot extend it reads exactly l: kind, decoded value and quote
   mark are tok_of l, and the cursor is left exactly on r.  (Words are in LexWordP.v: their reading may look ahead.) *)
From Coq Require Import List NArith Bool Lia Arith ZifyN ZifyBool.
From GV Require Import Gen.LexTables Model.Lexer Inst.Inst_C04 Spec.LexSpec Proofs.LexerP Proofs.LexSpecP Proofs.LexUtf8P.
Import ListNotations.
Local Open Scope N_scope.

Definition munches (l : lexeme) : Prop :=
  forall bs r i, lex_ok l = true -> class_follow l r = true ->
  next_token bs (render l ++ r, i) = Val (tok_of l, (r, i + N.of_nat (length (render l)))).

(* ---------------------------------------------------------------------------------------------- *)
(* helpers *)
Ltac lnorm := repeat (progress (cbn [app]; rewrite <- ?app_assoc)).
Ltac len := repeat (progress (rewrite ?app_length; cbn [length app])); lia.
Ltac fin := match goal with |- Val (_, (_, ?p)) = Val (_, (_, ?q)) => replace q with p by len end; try reflexivity.
Lemma bytes_eqb_eq a : forall b, bytes_eqb a b = true -> a = b.
Proof.
  induction a as [|x a IH]; intros [|y b] H; cbn in H; try discriminate; [reflexivity |].
  apply andb_prop in H. destruct H as [H1 H2]. apply N.eqb_eq in H1. subst y. f_equal. auto.
Qed.

Lemma bytes_eqb_refl a : bytes_eqb a a = true.
Proof. induction a as [|x a IH]; cbn; [reflexivity |]. rewrite N.eqb_refl. exact IH. Qed.

Lemma existsb_eqb_false b forb : existsb (N.eqb b) forb = false -> ~ In b forb.
Proof.
  intros H I. assert (existsb (N.eqb b) forb = true); [| congruence].
  apply existsb_exists. exists b. split; [exact I | apply N.eqb_refl].
Qed.

Lemma next_byte_not_free forb r : next_byte_not forb r = true -> follow_free forb r.
Proof.
  destruct r as [|b t]; cbn; [auto |]. intros H. apply negb_true_iff in H. apply existsb_eqb_false. exact H.
Qed.

Lemma ascii_class b : b < 128 ->
  is_ident_start b = ascii_start b /\ is_ident_part b = ascii_part b /\ normalize_quote b = b /\ is_unicode_quote b = false.
Proof.
  intros H.
  assert (I : In b upto128).
  { unfold upto128. apply in_map_iff. exists (N.to_nat b). split; [lia |]. apply in_seq. lia. }
  pose proof ident_start_ascii as A1. pose proof ident_part_ascii as A2.
  pose proof normalize_ascii as A3. pose proof unicode_quote_ascii as A4.
  rewrite forallb_forall in A1, A2, A3, A4.
  specialize (A1 _ I). specialize (A2 _ I). specialize (A3 _ I). specialize (A4 _ I).
  apply eqb_prop in A1, A2. apply N.eqb_eq in A3. apply negb_true_iff in A4. auto.
Qed.

Lemma digit_not_start b : digit_byte b = true -> is_ident_start b = false.
Proof.
  intros H. destruct (digit_byte_lt _ H) as [L _]. destruct (ascii_class b L) as [-> _].
  unfold digit_byte in H. unfold ascii_start, in_rng. lia.
Qed.

(* ---------------------------------------------------------------------------------------------- *)
(* operators and punctuation *)
Lemma op_eqb_eq a b : op_eqb a b = true -> a = b.
Proof.
  destruct a as [[v ty] forb], b as [[v' ty'] forb']. unfold op_eqb. cbn [fst snd]. intros H.
  apply andb_prop in H. destruct H as [H H3]. apply andb_prop in H. destruct H as [H1 H2].
  apply bytes_eqb_eq in H1, H3. apply N.eqb_eq in H2. subst. reflexivity.
Qed.

Lemma munch_LOp e : munches (LOp e).
Proof.
  intros bs r i OK FO. cbn [lex_ok class_follow render tok_of] in *.
  apply existsb_exists in OK. destruct OK as (e' & IN & EQ). apply op_eqb_eq in EQ. subst e'.
  unfold all_ops in IN. apply in_app_or in IN. destruct IN as [IN|IN].
  - apply in_map_iff in IN. destruct IN as ([b ty] & <- & IN). cbn [fst snd app length].
    rewrite (munch_punct1 b ty IN). reflexivity.
  - destruct e as [[v ty] forb]. cbn [fst snd] in *. apply munch_op with (forb := forb); [exact IN |].
    apply next_byte_not_free. exact FO.
Qed.

(* bare @ *)
Lemma munch_LAt : munches LAt.
Proof.
  intros bs r i _ FO. cbn [class_follow render tok_of app length] in *.
  apply andb_prop in FO. destruct FO as [F1 F2].
  dispatch_punct. cbn [N.eqb Pos.eqb]. unfold adv, nxt, is_b, op. cbn [fst snd skipn].
  destruct r as [|x r']; [reflexivity |].
  cbn [next_byte_not existsb] in F1. apply negb_true_iff in F1. rewrite !orb_false_iff in F1.
  destruct F1 as (A & B & _). rewrite A, B.
  unfold next_rune_not in F2. destruct (decode_rune (x :: r')) as [nr nsz]. cbn [fst] in F2.
  apply negb_true_iff in F2. rewrite F2. reflexivity.
Qed.

(* bare $ *)
Lemma munch_LDollarSign : munches LDollarSign.
Proof.
  intros bs r i _ FO. cbn [class_follow render tok_of app length] in *.
  dispatch_punct. cbn [N.eqb Pos.eqb]. unfold read_dollar, adv, dollar_plain, op. cbn [fst snd skipn].
  destruct r as [|x r']; [reflexivity |].
  unfold next_rune_not in FO. destruct (decode_rune (x :: r')) as [nr nsz]. cbn [fst] in FO.
  apply negb_true_iff in FO. rewrite !orb_false_iff in FO. destruct FO as [[A B] C]. rewrite A, B, C. reflexivity.
Qed.

(* $1 *)
Lemma munch_LParamNum ds : munches (LParamNum ds).
Proof.
  intros bs r i OK FO. cbn [lex_ok class_follow render tok_of app length] in *.
  dispatch_punct. cbn [N.eqb Pos.eqb]. unfold read_dollar, adv, op. cbn [fst snd skipn].
  unfold digits_ok in OK. destruct ds as [|d ds]; [discriminate |].
  cbn [app]. pose proof OK as OK'. cbn [forallb] in OK'. apply andb_prop in OK'. destruct OK' as [D1 _].
  destruct (digit_byte_lt _ D1) as [L1 G1]. rewrite decode_ascii by exact L1. rewrite G1.
  change (d :: ds ++ r) with ((d :: ds) ++ r). rewrite span_digits by assumption.
  cbn [bind length]. f_equal. f_equal. f_equal. lia.
Qed.

(* ---------------------------------------------------------------------------------------------- *)
(* numbers *)
Lemma next_token_digit bs d tl i : digit_byte d = true -> next_token bs (d :: tl, i) = read_number bs (d :: tl, i).
Proof.
  intros H. destruct (digit_byte_lt _ H) as [L G]. unfold next_token. cbn [fst].
  rewrite decode_ascii by exact L. rewrite (digit_not_start _ H), G. reflexivity.
Qed.

Lemma digits_ok_inv ds : digits_ok ds = true -> exists d tl, ds = d :: tl /\ digit_byte d = true /\ forallb digit_byte ds = true.
Proof.
  unfold digits_ok. destruct ds as [|d tl]; [discriminate |]. intros H. exists d, tl. split; [reflexivity |].
  split; [| exact H]. cbn [forallb] in H. apply andb_prop in H. tauto.
Qed.

Lemma adv_cons1 b l i : adv (b :: l, i) 1 = (l, i + 1).
Proof. reflexivity. Qed.

Lemma nondigit_cons b t : digit_byte b = false -> next_byte_nondigit (b :: t) = true.
Proof. intros H. cbn. rewrite H. reflexivity. Qed.

(* the exponent stage of readNumber *)
Lemma num_exp_stage bs w2 ex r i2 :
  (match ex with
   | Some (e, sg, ds) =>
       ((e =? 101) || (e =? 69)) && (match sg with Some s => (s =? 43) || (s =? 45) | None => true end) && digits_ok ds
   | None => true
   end) = true ->
  next_byte_nondigit r = true ->
  (match ex with None => next_byte_not [101; 69] r | Some _ => true end) = true ->
  let et := match ex with
            | Some (e, sg, ds) => e :: (match sg with Some s => [s] | None => [] end) ++ ds
            | None => []
            end in
  match fst (et ++ r, i2) with
  | [] => Val (op TT_Number w2, (et ++ r, i2))
  | e :: _ =>
      if (e =? 101) || (e =? 69) then
        let c3 := adv (et ++ r, i2) 1 in
        let '(ws, c4) :=
          match fst c3 with
          | s :: _ => if (s =? 43) || (s =? 45) then ([s], adv c3 1) else ([], c3)
          | [] => ([], c3)
          end in
        match fst c4 with
        | [] => err_at bs E_InvalidNumber (snd c4)
        | _ =>
            if is_digit (fst (decode_rune (fst c4))) then
              do (we, c5) <- span is_digit c4; Val (op TT_Number (w2 ++ e :: ws ++ we), c5)
            else err_at bs E_InvalidNumber (snd c4)
        end
      else Val (op TT_Number w2, (et ++ r, i2))
  end = Val (op TT_Number (w2 ++ et), (r, i2 + N.of_nat (length et))).
Proof.
  intros OK ND FE et. subst et. destruct ex as [[[e sg] ds]|].
  - apply andb_prop in OK. destruct OK as [OK DS]. apply andb_prop in OK. destruct OK as [EE SG].
    destruct (digits_ok_inv _ DS) as (d & tl & -> & D1 & DA).
    destruct (digit_byte_lt _ D1) as [L1 G1].
    cbn [fst app]. rewrite EE. unfold adv. cbn [fst snd skipn].
    destruct sg as [s|].
    + cbn [app fst]. rewrite SG. cbn [fst snd skipn]. rewrite decode_ascii by exact L1. cbn [fst]. rewrite G1.
      change (d :: tl ++ r) with ((d :: tl) ++ r). rewrite span_digits by assumption.
      cbn [bind]. f_equal. f_equal. f_equal. len.
    + cbn [app fst].
      assert (NS : (d =? 43) || (d =? 45) = false) by (unfold digit_byte in D1; lia).
      rewrite NS. cbn [fst snd]. rewrite decode_ascii by exact L1. cbn [fst]. rewrite G1.
      change (d :: tl ++ r) with ((d :: tl) ++ r). rewrite span_digits by assumption.
      cbn [bind]. f_equal. f_equal. f_equal. len.
  - cbn [app fst length]. rewrite app_nil_r, N.add_0_r. destruct r as [|x r']; [reflexivity |].
    cbn [next_byte_not existsb] in FE. apply negb_true_iff in FE. rewrite !orb_false_iff in FE.
    destruct FE as (A & B & _). rewrite A, B. reflexivity.
Qed.

Lemma munch_LNum ip fp ex : munches (LNum ip fp ex).
Proof.
  intros bs r i OK FO. cbn [lex_ok class_follow render tok_of] in *.
  apply andb_prop in OK. destruct OK as [OK OKE]. apply andb_prop in OK. destruct OK as [OKI OKF].
  apply andb_prop in FO. destruct FO as [ND FO].
  destruct (digits_ok_inv _ OKI) as (d & tl & -> & D1 & DA).
  unfold num_text. rewrite <- !app_assoc. cbn [app]. rewrite next_token_digit by exact D1.
  set (et := match ex with
            | Some (e, sg, ds) => e :: (match sg with Some s => [s] | None => [] end) ++ ds
            | None => []
            end) in *.
  assert (NDE : next_byte_nondigit (et ++ r) = true).
  { subst et. destruct ex as [[[e sg] ds]|]; [| exact ND].
    apply andb_prop in OKE. destruct OKE as [OKE _]. apply andb_prop in OKE. destruct OKE as [EE _].
    cbn [app]. apply nondigit_cons. unfold digit_byte. lia. }
  assert (FE : (match ex with None => next_byte_not [101; 69] r | Some _ => true end) = true).
  { destruct ex; [reflexivity |]. destruct fp; [exact FO |].
    destruct r as [|x r']; [reflexivity |]. cbn [next_byte_not existsb] in *.
    apply negb_true_iff in FO. rewrite !orb_false_iff in FO. destruct FO as (_ & B & C & _). rewrite B, C. reflexivity. }
  unfold read_number.
  destruct fp as [f|].
  - destruct (digits_ok_inv _ OKF) as (d2 & tl2 & -> & D2 & DA2).
    destruct (digit_byte_lt _ D2) as [L2 G2]. cbn [app].
    change (d :: tl ++ 46 :: d2 :: tl2 ++ et ++ r) with ((d :: tl) ++ 46 :: (d2 :: tl2) ++ et ++ r).
    rewrite span_digits; [| exact DA | apply nondigit_cons; reflexivity].
    cbn [bind fst app N.eqb Pos.eqb]. rewrite !adv_cons1. cbn [fst snd].
    rewrite decode_ascii by exact L2. cbn [fst]. rewrite G2.
    change (d2 :: tl2 ++ et ++ r) with ((d2 :: tl2) ++ et ++ r). rewrite span_digits by assumption.
    cbn [bind].
    rewrite (num_exp_stage bs _ ex r _ OKE ND FE). fold et.
    unfold op. f_equal. f_equal.
    + f_equal. f_equal. lnorm. reflexivity.
    + f_equal. len.
  - cbn [app]. change (d :: tl ++ et ++ r) with ((d :: tl) ++ et ++ r).
    rewrite span_digits; [| exact DA | exact NDE].
    cbn [bind fst app].
    destruct (et ++ r) as [|b t] eqn:ER.
    { destruct et; [| discriminate]. destruct r; [| discriminate]. cbn [app length].
      unfold op. rewrite !app_nil_r. reflexivity. }
    assert (B46 : (b =? 46) = false).
    { subst et. destruct ex as [[[e sg] ds]|].
      - apply andb_prop in OKE. destruct OKE as [OKE _]. apply andb_prop in OKE. destruct OKE as [EE _].
        cbn [app] in ER. injection ER as <- _. lia.
      - cbn [app] in ER. subst r. cbn [next_byte_not existsb] in FO. apply negb_true_iff in FO.
        rewrite !orb_false_iff in FO. tauto. }
    rewrite B46. cbn [bind]. rewrite <- ER.
    rewrite (num_exp_stage bs _ ex r _ OKE ND FE). fold et.
    unfold op. f_equal. f_equal. f_equal. len.
Qed.

(* ---------------------------------------------------------------------------------------------- *)
(* first byte of an encoded code point; reducing a match on a non-empty text *)
Lemma match_ne {A B} (l : list A) (a b : B) : l <> [] -> match l with [] => a | _ :: _ => b end = b.
Proof. destruct l; [congruence | reflexivity]. Qed.

Lemma enc_app_ne x rest : encode_rune x ++ rest <> [].
Proof. pose proof (encode_ne x). destruct (encode_rune x); [congruence | discriminate]. Qed.

Lemma first_byte_enc x b t : encode_rune x = b :: t -> (x < 128 /\ b = x /\ t = []) \/ (128 <= x /\ 128 <= b).
Proof.
  intros E. destruct (N.lt_ge_cases x 128) as [L|G].
  - left. rewrite encode_ascii in E by exact L. injection E as <- <-. auto.
  - right. split; [exact G |]. pose proof (encode_hi x G) as F. rewrite E in F. inversion F; assumption.
Qed.

(* the first byte of the encoding of an identifier-start code point is no digit, none of '>' '@' '$' *)
Lemma start_first_byte x rest : is_ident_start x = true ->
  exists b t, encode_rune x ++ rest = b :: t /\ b <> 62 /\ b <> 64 /\ b <> 36 /\ digit_byte b = false /\
              is_digit x = false /\ (x =? 36) = false.
Proof.
  intros IS. destruct (encode_rune x) as [|b t] eqn:E; [destruct (encode_ne x E) |].
  exists b, (t ++ rest). split; [reflexivity |].
  destruct (first_byte_enc _ _ _ E) as [(L & -> & _)|(G & GB)].
  - destruct (ascii_class x L) as [A _]. rewrite A in IS. unfold ascii_start, in_rng in IS.
    unfold digit_byte, is_digit, in_rng. repeat split; lia.
  - unfold digit_byte, is_digit, in_rng. repeat split; lia.
Qed.

Lemma word_shape_inv rs : word_shape rs = true ->
  exists r0 rtl, rs = r0 :: rtl /\ is_ident_start r0 = true /\ scalar r0 = true /\
                 forallb is_ident_part rtl = true /\ forallb scalar rtl = true.
Proof.
  unfold word_shape. destruct rs as [|r0 rtl]; [discriminate |]. intros H.
  apply andb_prop in H. destruct H as [H S]. apply andb_prop in H. destruct H as [H1 H2].
  cbn [forallb] in S. apply andb_prop in S. destruct S as [S1 S2]. exists r0, rtl. auto.
Qed.

(* @name *)
Lemma munch_LParamAt rs : munches (LParamAt rs).
Proof.
  intros bs r i OK FO. cbn [lex_ok class_follow render tok_of] in *.
  destruct (word_shape_inv _ OK) as (r0 & rtl & -> & IS & SC & IP & SS).
  cbn [utf8 flat_map app length]. fold (utf8 rtl). rewrite <- app_assoc.
  destruct (start_first_byte r0 (utf8 rtl ++ r) IS) as (b0 & t0 & E & N62 & N64 & _).
  dispatch_punct. cbn [N.eqb Pos.eqb]. unfold adv, nxt, is_b, op. cbn [fst snd skipn].
  rewrite E.
  replace (b0 =? 62) with false by (symmetry; apply N.eqb_neq; exact N62).
  replace (b0 =? 64) with false by (symmetry; apply N.eqb_neq; exact N64).
  rewrite <- E. rewrite (decode_encode r0 _ SC). rewrite IS.
  rewrite adv_rune_app by apply encode_ne.
  rewrite span_utf8 by assumption. cbn [bind]. rewrite firstn_app_len.
  f_equal. f_equal. f_equal. len.
Qed.

(* ---------------------------------------------------------------------------------------------- *)
(* back-ticked identifier *)
Lemma backtick_body_spec bs start items : forall r p buf,
  forallb bitem_ok items = true -> next_byte_not [96] r = true ->
  backtick_body bs start (flat_map bitem_text items ++ 96 :: r) p buf =
  Val ((TT_Identifier, buf ++ flat_map bitem_value items, 96),
       (r, p + N.of_nat (length (flat_map bitem_text items)) + 1)).
Proof.
  induction items as [|[b|] items IH]; intros r p buf OK FO.
  - cbn [flat_map app length backtick_body N.eqb Pos.eqb]. rewrite app_nil_r, N.add_0_r.
    destruct r as [|x r']; [reflexivity |].
    cbn [next_byte_not existsb] in FO. apply negb_true_iff, orb_false_iff in FO. destruct FO as [FO _].
    rewrite FO. reflexivity.
  - cbn [forallb bitem_ok] in OK. apply andb_prop in OK. destruct OK as [NB OK]. apply negb_true_iff in NB.
    cbn [flat_map bitem_text bitem_value app backtick_body]. rewrite NB.
    assert (R : backtick_body bs start (flat_map bitem_text items ++ 96 :: r) (p + 1) (buf ++ [b]) =
                Val ((TT_Identifier, buf ++ b :: flat_map bitem_value items, 96),
                     (r, p + N.of_nat (length (b :: flat_map bitem_text items)) + 1))).
    { rewrite IH by assumption. rewrite <- app_assoc. cbn [app length]. f_equal. f_equal. f_equal. lia. }
    destruct (b =? 10); exact R.
  - cbn [forallb bitem_ok] in OK.
    cbn [flat_map bitem_text bitem_value app backtick_body N.eqb Pos.eqb].
    rewrite IH by assumption. rewrite <- app_assoc. cbn [app length]. f_equal. f_equal. f_equal. lia.
Qed.

Lemma munch_LBId items : munches (LBId items).
Proof.
  intros bs r i OK FO. cbn [lex_ok class_follow render tok_of] in *.
  cbn [app]. rewrite <- app_assoc. cbn [app].
  unfold next_token. cbn [fst]. rewrite decode_ascii by lia.
  destruct dispatch_bt as (A & B & C). rewrite A, B, C. cbn [N.eqb Pos.eqb orb].
  unfold read_backtick. cbn [fst snd].
  rewrite backtick_body_spec by assumption. cbn [app]. fin.
Qed.

(* ---------------------------------------------------------------------------------------------- *)
(* single-quoted strings *)
Lemma adv_app2 a b rest p : adv (a ++ b ++ rest, p) (length a + length b) = (rest, p + N.of_nat (length a + length b)).
Proof. rewrite app_assoc, <- app_length. apply adv_app. Qed.

Lemma escape_spec bs e rest p : In e [92; 34; 39; 96; 110; 114; 116] ->
  escape bs (92 :: e :: rest, p) = Val (esc_value e, (rest, p + 1 + 1)).
Proof. intros H. cbn [In] in H. repeat (destruct H as [<-|H]; [reflexivity |]). contradiction. Qed.

Lemma existsb_eqb_in e l : existsb (N.eqb e) l = true -> In e l.
Proof. intros H. apply existsb_exists in H. destruct H as (x & I & E). apply N.eqb_eq in E. subst. exact I. Qed.

Lemma sitems_len items : (length items <= length (flat_map sitem_text items))%nat.
Proof.
  induction items as [|it items IH]; [cbn; lia |]. cbn [flat_map length]. rewrite app_length.
  assert (1 <= length (sitem_text it))%nat; [| lia].
  destruct it as [x|a b|e]; cbn [sitem_text length]; try lia.
  - pose proof (encode_len x). lia.
  - rewrite app_length. pose proof (encode_len a). lia.
Qed.

Lemma string_body_spec bs start original cl items : forall fuel r p buf,
  forallb sitem_ok items = true -> scalar cl = true -> normalize_quote cl = 39 ->
  next_rune_not (fun x => normalize_quote x =? 39) r = true -> (length items < fuel)%nat ->
  string_body bs fuel start original 39 (flat_map sitem_text items ++ encode_rune cl ++ r, p) buf =
  Val ((string_type original, buf ++ flat_map sitem_value items, original),
       (r, p + N.of_nat (length (flat_map sitem_text items ++ encode_rune cl)))).
Proof.
  induction items as [|it items IH]; intros fuel r p buf OK SC NC FO Hf; (destruct fuel as [|f]; [cbn in Hf; lia |]).
  - cbn [flat_map app string_body fst]. rewrite match_ne by apply enc_app_ne.
    rewrite (decode_encode cl _ SC). cbv beta iota zeta. rewrite NC. cbn [N.eqb Pos.eqb].
    rewrite skipn_app_len, adv_app, app_nil_r.
    destruct r as [|x r']; [reflexivity |].
    unfold next_rune_not in FO. destruct (decode_rune (x :: r')) as [nr0 nsz]. cbn [fst] in FO.
    apply negb_true_iff in FO. rewrite FO. reflexivity.
  - cbn [forallb] in OK. apply andb_prop in OK. destruct OK as [OK1 OK]. cbn [length] in Hf.
    destruct it as [x|a b|e]; cbn [sitem_ok] in OK1; cbn [flat_map sitem_text sitem_value].
    + apply andb_prop in OK1. destruct OK1 as [OK1 N92]. apply andb_prop in OK1. destruct OK1 as [SX N39].
      apply negb_true_iff in N92, N39.
      rewrite <- !app_assoc. cbn [string_body fst]. rewrite match_ne by apply enc_app_ne.
      rewrite (decode_encode x _ SX). cbv beta iota zeta. rewrite N39, N92. rewrite adv_app.
      assert (R : string_body bs f start original 39
                    (flat_map sitem_text items ++ encode_rune cl ++ r, p + N.of_nat (length (encode_rune x)))
                    (buf ++ encode_rune (normalize_quote x)) =
                  Val ((string_type original, buf ++ encode_rune (normalize_quote x) ++ flat_map sitem_value items, original),
                       (r, p + N.of_nat (length (encode_rune x ++ flat_map sitem_text items ++ encode_rune cl))))).
      { rewrite IH by (auto; lia). rewrite <- app_assoc. fin. }
      destruct (normalize_quote x =? 10); exact R.
    + apply andb_prop in OK1. destruct OK1 as [OK1 NB]. apply andb_prop in OK1. destruct OK1 as [OK1 NA].
      apply andb_prop in OK1. destruct OK1 as [SA SB]. apply N.eqb_eq in NA, NB.
      rewrite <- !app_assoc. cbn [string_body fst]. rewrite match_ne by apply enc_app_ne.
      rewrite (decode_encode a _ SA). cbv beta iota zeta. rewrite NA. cbn [N.eqb Pos.eqb].
      rewrite skipn_app_len. rewrite match_ne by apply enc_app_ne.
      rewrite (decode_encode b _ SB). cbv beta iota zeta. rewrite NB. cbn [N.eqb Pos.eqb].
      rewrite adv_app2. rewrite IH by (auto; lia). rewrite <- app_assoc. fin.
    + apply existsb_eqb_in in OK1.
      cbn [app string_body fst]. rewrite decode_ascii by lia. cbv beta iota zeta.
      destruct (ascii_class 92 ltac:(lia)) as (_ & _ & -> & _). cbn [N.eqb Pos.eqb].
      rewrite (escape_spec bs e _ p OK1). cbn [bind].
      rewrite IH by (auto; lia). rewrite <- app_assoc. fin.
Qed.

Lemma family_in op : is_single_quote_family op = true -> In op sq_family.
Proof.
  unfold is_single_quote_family, sq_family. rewrite !orb_true_iff, !N.eqb_eq. cbn [In]. intuition.
Qed.

Lemma family_facts op : is_single_quote_family op = true ->
  is_ident_start op = false /\ is_digit op = false /\ (op =? 34) = false /\ is_unicode_quote op = false /\ (op =? 96) = false.
Proof.
  intros H. apply family_in in H. pose proof sq_family_dispatch as F. rewrite forallb_forall in F.
  specialize (F _ H). rewrite !andb_true_iff, !negb_true_iff in F. intuition.
Qed.

Lemma decode_first_39 b t : fst (decode_rune (b :: t)) = 39 -> b = 39.
Proof.
  intros H. assert (X : fst (decode_rune (b :: t)) < 128) by lia. apply decode_lt128 in X. destruct X as [X _]. congruence.
Qed.

Lemma enc_first_39 x rest t : encode_rune x ++ rest = 39 :: t -> x = 39 /\ rest = t.
Proof.
  intros H. destruct (encode_rune x) as [|b bt] eqn:E; [destruct (encode_ne x E) |].
  cbn [app] in H. injection H as -> H.
  destruct (first_byte_enc _ _ _ E) as [(_ & <- & ->)|(_ & G)]; [auto | lia].
Qed.

Lemma no_triple_aux op cl items r x0 x1 x2 t :
  is_single_quote_family op = true -> normalize_quote cl = 39 -> forallb sitem_ok items = true ->
  (match items with SQuote2 a b :: _ => negb ((op =? 39) && (a =? 39) && (b =? 39)) | _ => true end) = true ->
  next_rune_not (fun x => normalize_quote x =? 39) r = true ->
  encode_rune op ++ flat_map sitem_text items ++ encode_rune cl ++ r = x0 :: x1 :: x2 :: t ->
  (fst (decode_rune (x1 :: x2 :: t)) =? op) && (fst (decode_rune (x2 :: t)) =? op) = true -> False.
Proof.
  intros FAM NC OK TR FO E T. apply andb_prop in T. destruct T as [T1 T2]. apply N.eqb_eq in T1, T2.
  apply family_in in FAM. unfold sq_family in FAM. cbn [In] in FAM.
  destruct FAM as [<-|[<-|[<-|[<-|[<-|[]]]]]].
  - change (encode_rune 39) with [39] in E. cbn [app] in E. injection E as _ E.
    apply decode_first_39 in T1, T2. subst x1 x2.
    assert (N39 : normalize_quote 39 = 39) by (destruct (ascii_class 39 ltac:(lia)) as (_ & _ & X & _); exact X).
    destruct items as [|[x|a b|e] items].
    + cbn [flat_map app] in E. apply enc_first_39 in E. destruct E as [-> ->].
      unfold next_rune_not in FO. rewrite decode_ascii in FO by lia. cbn [fst] in FO. rewrite N39 in FO. discriminate.
    + cbn [flat_map sitem_text] in E. rewrite <- app_assoc in E. apply enc_first_39 in E. destruct E as [-> _].
      cbn [forallb sitem_ok] in OK. rewrite N39 in OK. apply andb_prop in OK. destruct OK as [OK _].
      apply andb_prop in OK. destruct OK as [OK _]. apply andb_prop in OK. destruct OK as [_ OK]. cbn in OK. discriminate.
    + cbn [flat_map sitem_text] in E. rewrite <- !app_assoc in E. apply enc_first_39 in E. destruct E as [-> E].
      apply enc_first_39 in E. destruct E as [-> _]. discriminate.
    + cbn [flat_map sitem_text app] in E. discriminate.
  - change (encode_rune 8216) with [226; 128; 152] in E. cbn [app] in E. injection E as _ <- <- _.
    vm_compute in T1. discriminate.
  - change (encode_rune 8217) with [226; 128; 153] in E. cbn [app] in E. injection E as _ <- <- _.
    vm_compute in T1. discriminate.
  - change (encode_rune 171) with [194; 171] in E. cbn [app] in E. injection E as _ <- _.
    vm_compute in T1. discriminate.
  - change (encode_rune 187) with [194; 187] in E. cbn [app] in E. injection E as _ <- _.
    vm_compute in T1. discriminate.
Qed.

Lemma munch_LSStr op cl items : munches (LSStr op cl items).
Proof.
  intros bs r i OK FO. cbn [lex_ok class_follow render tok_of] in *.
  apply andb_prop in OK. destruct OK as [OK TR]. apply andb_prop in OK. destruct OK as [OK IT].
  apply andb_prop in OK. destruct OK as [OK NC]. apply andb_prop in OK. destruct OK as [OK SC].
  apply andb_prop in OK. destruct OK as [OK NO]. apply andb_prop in OK. destruct OK as [FAM SO].
  apply N.eqb_eq in NC, NO.
  destruct (family_facts op FAM) as (F1 & F2 & F3 & F4 & F5).
  rewrite <- !app_assoc.
  unfold next_token. cbn [fst]. rewrite match_ne by apply enc_app_ne.
  rewrite (decode_encode op _ SO). cbv beta iota zeta. rewrite F1, F2, F3, F4, F5, FAM. cbn [orb].
  unfold read_quoted_string. cbn [fst snd].
  match goal with |- context [if ?b then _ else _] => destruct b eqn:T end.
  - exfalso.
    remember (encode_rune op ++ flat_map sitem_text items ++ encode_rune cl ++ r) as X eqn:EX.
    destruct X as [|x0 [|x1 [|x2 t]]]; try discriminate T.
    eapply no_triple_aux; eauto.
  - rewrite (decode_encode op _ SO). cbv beta iota zeta. rewrite NO.
    rewrite adv_rune_app by apply encode_ne. cbn [fst].
    rewrite string_body_spec; auto.
    + unfold string_type. rewrite FAM. cbn [app]. fin.
    + pose proof (sitems_len items). rewrite !app_length. lia.
Qed.

(* ---------------------------------------------------------------------------------------------- *)
(* double-quoted identifiers *)
Lemma qitems_len items : (length items <= length (flat_map qitem_text items))%nat.
Proof.
  induction items as [|it items IH]; [cbn; lia |]. cbn [flat_map length]. rewrite app_length.
  assert (1 <= length (qitem_text it))%nat; [| lia].
  destruct it as [x|a b]; cbn [qitem_text length].
  - pose proof (encode_len x). lia.
  - rewrite app_length. pose proof (encode_len a). lia.
Qed.

Lemma quoted_ident_body_spec bs start cl items : forall fuel r p buf,
  forallb qitem_ok items = true -> scalar cl = true -> normalize_quote cl = 34 ->
  next_rune_not (fun x => normalize_quote x =? 34) r = true -> (length items < fuel)%nat ->
  quoted_ident_body bs fuel start 34 (flat_map qitem_text items ++ encode_rune cl ++ r, p) buf =
  Val ((TT_DoubleQuotedString, buf ++ flat_map qitem_value items, 34),
       (r, p + N.of_nat (length (flat_map qitem_text items ++ encode_rune cl)))).
Proof.
  induction items as [|it items IH]; intros fuel r p buf OK SC NC FO Hf; (destruct fuel as [|f]; [cbn in Hf; lia |]).
  - cbn [flat_map app quoted_ident_body fst]. rewrite match_ne by apply enc_app_ne.
    rewrite (decode_encode cl _ SC). cbv beta iota zeta. rewrite NC. cbn [N.eqb Pos.eqb].
    rewrite skipn_app_len, adv_app, app_nil_r.
    destruct r as [|x r']; [reflexivity |].
    unfold next_rune_not in FO. destruct (decode_rune (x :: r')) as [nr0 nsz]. cbn [fst] in FO.
    apply negb_true_iff in FO. rewrite FO. reflexivity.
  - cbn [forallb] in OK. apply andb_prop in OK. destruct OK as [OK1 OK]. cbn [length] in Hf.
    destruct it as [x|a b]; cbn [qitem_ok] in OK1; cbn [flat_map qitem_text qitem_value].
    + apply andb_prop in OK1. destruct OK1 as [OK1 N10]. apply andb_prop in OK1. destruct OK1 as [SX N34].
      apply negb_true_iff in N10, N34.
      rewrite <- !app_assoc. cbn [quoted_ident_body fst]. rewrite match_ne by apply enc_app_ne.
      rewrite (decode_encode x _ SX). cbv beta iota zeta. rewrite N34, N10. rewrite adv_app.
      rewrite IH by (auto; lia). rewrite <- app_assoc. fin.
    + apply andb_prop in OK1. destruct OK1 as [OK1 NB]. apply andb_prop in OK1. destruct OK1 as [OK1 NA].
      apply andb_prop in OK1. destruct OK1 as [SA SB]. apply N.eqb_eq in NA, NB.
      rewrite <- !app_assoc. cbn [quoted_ident_body fst]. rewrite match_ne by apply enc_app_ne.
      rewrite (decode_encode a _ SA). cbv beta iota zeta. rewrite NA. cbn [N.eqb Pos.eqb].
      rewrite skipn_app_len. rewrite match_ne by apply enc_app_ne.
      rewrite (decode_encode b _ SB). cbv beta iota zeta. rewrite NB. cbn [N.eqb Pos.eqb].
      rewrite adv_app2. rewrite IH by (auto; lia). rewrite <- app_assoc. fin.
Qed.

Lemma munch_LQId op cl items : munches (LQId op cl items).
Proof.
  intros bs r i OK FO. cbn [lex_ok class_follow render tok_of] in *.
  apply andb_prop in OK. destruct OK as [OK IT]. apply andb_prop in OK. destruct OK as [OK NC].
  apply andb_prop in OK. destruct OK as [OK SC]. apply andb_prop in OK. destruct OK as [OK NO].
  apply andb_prop in OK. destruct OK as [OK SO]. apply andb_prop in OK. destruct OK as [DQ NS].
  apply N.eqb_eq in NC, NO. apply negb_true_iff in NS.
  assert (ND : is_digit op = false).
  { destruct (is_digit op) eqn:D; [| reflexivity]. exfalso.
    assert (L : op < 128) by (unfold is_digit, in_rng in D; lia).
    destruct (ascii_class op L) as (_ & _ & _ & UQ). rewrite UQ, orb_false_r in DQ.
    apply N.eqb_eq in DQ. subst op. discriminate D. }
  rewrite <- !app_assoc.
  unfold next_token. cbn [fst]. rewrite match_ne by apply enc_app_ne.
  rewrite (decode_encode op _ SO). cbv beta iota zeta. rewrite NS, ND, DQ.
  unfold read_quoted_identifier. cbn [fst snd].
  rewrite (decode_encode op _ SO). cbv beta iota zeta. rewrite NO.
  rewrite adv_rune_app by apply encode_ne. cbn [fst].
  rewrite quoted_ident_body_spec; auto.
  - cbn [app]. fin.
  - pose proof (qitems_len items). rewrite !app_length. lia.
Qed.

(* ---------------------------------------------------------------------------------------------- *)
(* dollar quoting *)
Lemma is_prefix_self p r : is_prefix p (p ++ r) = true.
Proof. induction p as [|x p IH]; [reflexivity |]. cbn. rewrite N.eqb_refl. exact IH. Qed.

Lemma is_prefix_app_r p : forall l r, (length p <= length l)%nat -> is_prefix p (l ++ r) = is_prefix p l.
Proof.
  induction p as [|x p IH]; intros l r H; [reflexivity |].
  destruct l as [|y l]; [cbn in H; lia |]. cbn [app is_prefix]. rewrite IH by (cbn in H; lia). reflexivity.
Qed.

Lemma no_early_close_skipn closing k : forall body, no_early_close closing body = true -> no_early_close closing (skipn k body) = true.
Proof.
  induction k as [|k IH]; intros body H; [exact H |]. destruct body as [|a body]; [exact H |].
  cbn [skipn]. apply IH. cbn [no_early_close] in H. apply andb_prop in H. tauto.
Qed.

Lemma adv_runes_app closing r p :
  adv_runes (length closing) closing (closing ++ r, p) = (r, p + N.of_nat (length closing)).
Proof.
  pose proof (adv_runes_spec (length closing) closing (closing ++ r, p) r (le_n _) eq_refl) as [S1 S2].
  destruct (adv_runes (length closing) closing (closing ++ r, p)) as [l q]. cbn [fst snd] in *.
  apply app_inv_head in S1. subst. reflexivity.
Qed.

Lemma dollar_body_spec bs ctl : forall n body, (length body <= n)%nat -> forall fuel r p buf,
  no_early_close (36 :: ctl) body = true -> (length body < fuel)%nat ->
  dollar_body bs fuel (36 :: ctl) (body ++ (36 :: ctl) ++ r, p) buf =
  Val ((TT_DollarQuotedString, buf ++ body, 0), (r, p + N.of_nat (length (body ++ 36 :: ctl)))).
Proof.
  induction n as [|n IH]; intros body Hn fuel r p buf NE Hf.
  - destruct body; [| cbn in Hn; lia]. destruct fuel as [|f]; [lia |].
    cbn [app dollar_body fst]. rewrite N.eqb_refl. cbn [andb].
    change (36 :: ctl ++ r) with ((36 :: ctl) ++ r). rewrite is_prefix_self.
    rewrite adv_runes_app, app_nil_r. reflexivity.
  - destruct body as [|b body]; [apply (IH []); auto; cbn; lia |].
    destruct fuel as [|f]; [lia |].
    cbn [app dollar_body fst].
    assert (NP : (b =? 36) && is_prefix (36 :: ctl) (b :: body ++ (36 :: ctl) ++ r) = false).
    { cbn [no_early_close] in NE. apply andb_prop in NE. destruct NE as [NE _]. apply negb_true_iff in NE.
      change (b :: body ++ (36 :: ctl) ++ r) with ((b :: body) ++ (36 :: ctl) ++ r).
      rewrite app_assoc. rewrite is_prefix_app_r by (rewrite app_length; lia). rewrite NE. apply andb_false_r. }
    cbn [app] in NP. rewrite NP.
    destruct (decode_rune (b :: body ++ 36 :: ctl ++ r)) as [x sz] eqn:D.
    destruct (decode_chunk b body (36 :: ctl ++ r) x sz ltac:(cbn; lia) D) as (k & -> & K & _).
    assert (AD : adv_rune (b :: body ++ 36 :: ctl ++ r, p) (S k) = (skipn k body ++ 36 :: ctl ++ r, p + N.of_nat (S k))).
    { unfold adv_rune, adv. cbn [fst snd skipn]. rewrite skipn_app. replace (k - length body)%nat with 0%nat by lia.
      reflexivity. }
    rewrite AD.
    assert (F1 : firstn (S k) (b :: body ++ 36 :: ctl ++ r) = b :: firstn k body).
    { cbn [firstn]. rewrite firstn_app. replace (k - length body)%nat with 0%nat by lia.
      rewrite firstn_O, app_nil_r. reflexivity. }
    rewrite F1.
    change (skipn k body ++ 36 :: ctl ++ r) with (skipn k body ++ (36 :: ctl) ++ r).
    rewrite (IH (skipn k body)).
    + rewrite <- app_assoc. cbn [app]. rewrite firstn_skipn.
      match goal with |- Val (_, (_, ?a)) = Val (_, (_, ?b)) => replace b with a; [reflexivity |] end.
      repeat (progress (rewrite ?app_length, ?skipn_length; cbn [length])). lia.
    + rewrite skipn_length. cbn [length] in Hn. lia.
    + apply no_early_close_skipn. cbn [no_early_close] in NE. apply andb_prop in NE. tauto.
    + rewrite skipn_length. cbn [length] in Hf. lia.
Qed.

(* the tag loop over an encoded tag followed by '$' *)
Lemma tag_body_spec rs : forall fuel rest p,
  forallb is_ident_part rs = true -> forallb scalar rs = true -> (length rs < fuel)%nat ->
  tag_body fuel (utf8 rs ++ 36 :: rest, p) = Val (Some (utf8 rs, (36 :: rest, p + N.of_nat (length (utf8 rs))))).
Proof.
  induction rs as [|x rs IH]; intros fuel rest p IP SC Hf; (destruct fuel as [|f]; [cbn in Hf; lia |]).
  - cbn [utf8 flat_map app length tag_body fst]. rewrite decode_ascii by lia. cbn [N.eqb Pos.eqb].
    rewrite N.add_0_r. reflexivity.
  - cbn [forallb] in IP, SC. apply andb_prop in IP, SC. destruct IP as [P1 P2], SC as [S1 S2].
    cbn [utf8 flat_map]. fold (utf8 rs). rewrite <- app_assoc. cbn [tag_body fst].
    rewrite match_ne by apply enc_app_ne. rewrite (decode_encode x _ S1). cbv beta iota zeta.
    assert (X36 : (x =? 36) = false).
    { destruct (x =? 36) eqn:E; [| reflexivity]. apply N.eqb_eq in E. subst x.
      destruct (ascii_class 36 ltac:(lia)) as (_ & A & _). rewrite A in P1. discriminate P1. }
    rewrite X36, P1. cbn [negb]. rewrite adv_rune_app by apply encode_ne.
    rewrite IH by (auto; cbn [length] in Hf; lia). cbn [bind]. rewrite firstn_app_len.
    f_equal. f_equal. f_equal. f_equal. len.
Qed.

Lemma utf8_len rs : (length rs <= length (utf8 rs))%nat.
Proof.
  induction rs as [|x rs IH]; [cbn; lia |]. cbn [utf8 flat_map length]. fold (utf8 rs). rewrite app_length.
  pose proof (encode_len x). lia.
Qed.

Lemma munch_LDollar tag body : munches (LDollar tag body).
Proof.
  intros bs r i OK _. cbn [lex_ok render tok_of] in *.
  apply andb_prop in OK. destruct OK as [TG NE].
  unfold dollar_tag in *. rewrite <- !app_assoc. cbn [app]. rewrite <- !app_assoc. cbn [app].
  dispatch_punct. cbn [N.eqb Pos.eqb]. unfold read_dollar. rewrite adv_cons1. cbn [fst].
  destruct tag as [|t0 ttl].
  - cbn [utf8 flat_map app]. rewrite decode_ascii by lia. cbn [is_digit in_rng N.leb N.compare Pos.compare Pos.compare_cont andb N.eqb Pos.eqb orb bind fst].
    rewrite decode_ascii by lia. cbn [N.eqb Pos.eqb negb]. unfold adv_rune. rewrite adv_cons1. cbn [fst].
    change (body ++ 36 :: 36 :: r) with (body ++ [36; 36] ++ r).
    rewrite (dollar_body_spec bs [36] (length body) body (le_n _)); auto; [| rewrite !app_length; cbn [length]; lia].
    cbn [app]. fin.
  - apply andb_prop in TG. destruct TG as [WS P0].
    destruct (word_shape_inv _ WS) as (r0 & rtl & EQ & IS & SC & IP & SS). injection EQ as <- <-.
    destruct (start_first_byte t0 (utf8 ttl ++ 36 :: body ++ 36 :: utf8 (t0 :: ttl) ++ 36 :: r) IS)
      as (b0 & tb & E & _ & _ & _ & _ & ND & N36).
    cbn [utf8 flat_map]. fold (utf8 ttl). rewrite <- !app_assoc.
    rewrite match_ne by apply enc_app_ne. rewrite (decode_encode t0 _ SC). cbv beta iota zeta.
    rewrite ND, N36, IS. cbn [orb].
    change (encode_rune t0 ++ utf8 ttl ++ 36 :: body ++ 36 :: encode_rune t0 ++ utf8 ttl ++ 36 :: r)
      with (encode_rune t0 ++ utf8 ttl ++ 36 :: (body ++ 36 :: encode_rune t0 ++ utf8 ttl ++ 36 :: r)).
    rewrite app_assoc. change (encode_rune t0 ++ utf8 ttl) with (utf8 (t0 :: ttl)).
    rewrite tag_body_spec.
    + cbn [bind fst]. rewrite decode_ascii by lia. cbn [N.eqb Pos.eqb negb]. unfold adv_rune. rewrite adv_cons1. cbn [fst].
      replace (body ++ 36 :: encode_rune t0 ++ utf8 ttl ++ 36 :: r)
        with (body ++ (36 :: utf8 (t0 :: ttl) ++ [36]) ++ r)
        by (cbn [utf8 flat_map app]; fold (utf8 ttl); rewrite <- !app_assoc; reflexivity).
      rewrite (dollar_body_spec bs (utf8 (t0 :: ttl) ++ [36]) (length body) body (le_n _)); auto.
      * cbn [app utf8 flat_map]. fold (utf8 ttl). fin.
      * rewrite !app_length. cbn [length]. lia.
    + cbn [forallb]. rewrite P0. exact IP.
    + cbn [forallb]. rewrite SC. exact SS.
    + pose proof (utf8_len (t0 :: ttl)). rewrite app_length. cbn [length] in *. lia.
Qed.

(* ---------------------------------------------------------------------------------------------- *)
(* triple-quoted strings *)
Lemma match3 {A B} (l : list A) (a b : B) : (3 <= length l)%nat ->
  match l with _ :: _ :: _ :: _ => a | _ => b end = a.
Proof. destruct l as [|x [|y [|z t]]]; cbn [length]; intros; try lia; reflexivity. Qed.

Definition close_test (T : list N) (quote : N) : option nat :=
  match T with
  | _ :: _ :: _ :: _ =>
      let '(r1, s1) := decode_rune T in
      let '(r2, s2) := decode_rune (skipn s1 T) in
      let '(r3, s3) := decode_rune (skipn (s1 + s2) T) in
      if (r1 =? quote) && (r2 =? quote) && (r3 =? quote) then Some (s1 + s2 + s3)%nat else None
  | _ => None
  end.

Lemma close_test3 a b c rest q : scalar a = true -> scalar b = true -> scalar c = true ->
  close_test (encode_rune a ++ encode_rune b ++ encode_rune c ++ rest) q =
  if (a =? q) && (b =? q) && (c =? q)
  then Some (length (encode_rune a) + length (encode_rune b) + length (encode_rune c))%nat else None.
Proof.
  intros SA SB SC. unfold close_test.
  rewrite match3 by (rewrite !app_length; pose proof (encode_len a); pose proof (encode_len b); pose proof (encode_len c); lia).
  rewrite (decode_encode a _ SA). rewrite skipn_app_len. rewrite (decode_encode b _ SB).
  replace (skipn (length (encode_rune a) + length (encode_rune b)) (encode_rune a ++ encode_rune b ++ encode_rune c ++ rest))
    with (encode_rune c ++ rest) by (rewrite app_assoc, <- app_length, skipn_app_len; reflexivity).
  rewrite (decode_encode c _ SC). reflexivity.
Qed.

Lemma close_test_none x rs r :
  forallb scalar (x :: rs) = true -> starts3 ((x :: rs) ++ [39; 39; 39]) = false ->
  close_test (utf8 (x :: rs) ++ 39 :: 39 :: 39 :: r) 39 = None.
Proof.
  intros SC ST. cbn [forallb] in SC. apply andb_prop in SC. destruct SC as [SX SC].
  assert (S39 : scalar 39 = true) by reflexivity.
  destruct rs as [|y [|z rs]].
  - change (utf8 [x] ++ 39 :: 39 :: 39 :: r) with ((encode_rune x ++ []) ++ encode_rune 39 ++ encode_rune 39 ++ 39 :: r).
    rewrite app_nil_r. rewrite close_test3 by assumption. cbn [app starts3] in ST. rewrite ST. reflexivity.
  - cbn [forallb] in SC. apply andb_prop in SC. destruct SC as [SY _].
    change (utf8 [x; y] ++ 39 :: 39 :: 39 :: r) with ((encode_rune x ++ encode_rune y ++ []) ++ encode_rune 39 ++ 39 :: 39 :: r).
    rewrite app_nil_r, <- app_assoc. rewrite close_test3 by assumption. cbn [app starts3] in ST. rewrite ST. reflexivity.
  - cbn [forallb] in SC. apply andb_prop in SC. destruct SC as [SY SC]. apply andb_prop in SC. destruct SC as [SZ _].
    cbn [utf8 flat_map]. fold (utf8 rs). rewrite <- !app_assoc. rewrite close_test3 by assumption.
    cbn [app starts3] in ST. rewrite ST. reflexivity.
Qed.

Lemma triple_body_spec bs start rs : forall fuel r p buf,
  forallb scalar rs = true -> no_tclose rs = true -> (length rs < fuel)%nat ->
  triple_body bs fuel start 39 (utf8 rs ++ 39 :: 39 :: 39 :: r, p) buf =
  Val ((TT_TripleSingleQuotedString, buf ++ utf8 rs, 39), (r, p + N.of_nat (length (utf8 rs) + 3))).
Proof.
  induction rs as [|x rs IH]; intros fuel r p buf SC NT Hf; (destruct fuel as [|f]; [cbn in Hf; lia |]).
  - cbn [utf8 flat_map app length Nat.add]. rewrite app_nil_r. reflexivity.
  - cbn [no_tclose] in NT. apply andb_prop in NT. destruct NT as [ST NT]. apply negb_true_iff in ST.
    pose proof (close_test_none x rs r SC ST) as CN.
    cbn [forallb] in SC. apply andb_prop in SC. destruct SC as [SX SC].
    cbn [triple_body fst].
    change (match utf8 (x :: rs) ++ 39 :: 39 :: 39 :: r with
            | _ :: _ :: _ :: _ =>
                let '(r1, s1) := decode_rune (utf8 (x :: rs) ++ 39 :: 39 :: 39 :: r) in
                let '(r2, s2) := decode_rune (skipn s1 (utf8 (x :: rs) ++ 39 :: 39 :: 39 :: r)) in
                let '(r3, s3) := decode_rune (skipn (s1 + s2) (utf8 (x :: rs) ++ 39 :: 39 :: 39 :: r)) in
                if (r1 =? 39) && (r2 =? 39) && (r3 =? 39) then Some (s1 + s2 + s3)%nat else None
            | _ => None
            end) with (close_test (utf8 (x :: rs) ++ 39 :: 39 :: 39 :: r) 39).
    rewrite CN.
    cbn [utf8 flat_map]. fold (utf8 rs). rewrite <- app_assoc.
    rewrite match_ne by apply enc_app_ne. rewrite (decode_encode x _ SX). rewrite adv_app.
    assert (R : triple_body bs f start 39 (utf8 rs ++ 39 :: 39 :: 39 :: r, p + N.of_nat (length (encode_rune x)))
                  (buf ++ encode_rune x) =
                Val ((TT_TripleSingleQuotedString, buf ++ encode_rune x ++ utf8 rs, 39),
                     (r, p + N.of_nat (length (encode_rune x ++ utf8 rs) + 3)))).
    { rewrite IH by (auto; cbn [length] in Hf; lia). rewrite <- app_assoc. fin. }
    destruct (x =? 10); exact R.
Qed.

Lemma munch_LTriple rs : munches (LTriple rs).
Proof.
  intros bs r i OK _. cbn [lex_ok render tok_of] in *. apply andb_prop in OK. destruct OK as [SC NT].
  cbn [app]. rewrite <- app_assoc. cbn [app].
  unfold next_token. cbn [fst]. rewrite decode_ascii by lia.
  destruct (family_facts 39 eq_refl) as (F1 & F2 & F3 & F4 & F5). rewrite F1, F2, F3, F4, F5. cbn [orb].
  replace (is_single_quote_family 39) with true by reflexivity.
  unfold read_quoted_string. cbn [fst snd]. rewrite !decode_ascii by lia. cbn [fst N.eqb Pos.eqb andb].
  unfold adv_rune. rewrite !adv_cons1. cbn [fst snd]. rewrite decode_ascii by lia. rewrite !adv_cons1.
  cbn [fst snd]. rewrite decode_ascii by lia. rewrite !adv_cons1. cbn [fst snd].
  rewrite triple_body_spec; auto.
  - fin.
  - pose proof (utf8_len rs). rewrite app_length. lia.
Qed.
