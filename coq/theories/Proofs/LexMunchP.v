(* LexMunchP.v — munch lemmas: for every lexeme class of Spec/LexSpec.v, nextToken run at the first byte of a
   well-formed lexeme l followed by a text r that cannot extend it reads exactly l: kind, decoded value and quote
   mark are tok_of l, and the cursor is left exactly on r.  (Words are in LexWordP.v: their reading may look ahead.) *)
From Coq Require Import List NArith Bool Lia Arith ZifyN ZifyBool.
From GV Require Import Gen.LexTables Model.Lexer Inst.Inst_C04 Spec.LexSpec Proofs.LexerP Proofs.LexSpecP Proofs.LexUtf8P.
Import ListNotations.
Local Open Scope N_scope.

Definition munches (l : lexeme) : Prop :=
  forall bs r i, lex_ok l = true -> class_follow l r = true ->
  next_token bs (render l ++ r, i) = Val (tok_of l, (r, i + N.of_nat (length (render l)))).

(* ---------------------------------------------------------------------------------------------- *)
(* helpers *)
Ltac lnorm := repeat (progress (cbn [app]; rewrite <- ?app_assoc)).
Ltac len := repeat (progress (rewrite ?app_length; cbn [length app])); lia.
Lemma bytes_eqb_eq a : forall b, bytes_eqb a b = true -> a = b.
Proof.
  induction a as [|x a IH]; intros [|y b] H; cbn in H; try discriminate; [reflexivity |].
  apply andb_prop in H. destruct H as [H1 H2]. apply N.eqb_eq in H1. subst y. f_equal. auto.
Qed.

Lemma bytes_eqb_refl a : bytes_eqb a a = true.
Proof. induction a as [|x a IH]; cbn; [reflexivity |]. rewrite N.eqb_refl. exact IH. Qed.

Lemma existsb_eqb_false b forb : existsb (N.eqb b) forb = false -> ~ In b forb.
Proof.
  intros H I. assert (existsb (N.eqb b) forb = true); [| congruence].
  apply existsb_exists. exists b. split; [exact I | apply N.eqb_refl].
Qed.

Lemma next_byte_not_free forb r : next_byte_not forb r = true -> follow_free forb r.
Proof.
  destruct r as [|b t]; cbn; [auto |]. intros H. apply negb_true_iff in H. apply existsb_eqb_false. exact H.
Qed.

Lemma ascii_class b : b < 128 ->
  is_ident_start b = ascii_start b /\ is_ident_part b = ascii_part b /\ normalize_quote b = b /\ is_unicode_quote b = false.
Proof.
  intros H.
  assert (I : In b upto128).
  { unfold upto128. apply in_map_iff. exists (N.to_nat b). split; [lia |]. apply in_seq. lia. }
  pose proof ident_start_ascii as A1. pose proof ident_part_ascii as A2.
  pose proof normalize_ascii as A3. pose proof unicode_quote_ascii as A4.
  rewrite forallb_forall in A1, A2, A3, A4.
  specialize (A1 _ I). specialize (A2 _ I). specialize (A3 _ I). specialize (A4 _ I).
  apply eqb_prop in A1, A2. apply N.eqb_eq in A3. apply negb_true_iff in A4. auto.
Qed.

Lemma digit_not_start b : digit_byte b = true -> is_ident_start b = false.
Proof.
  intros H. destruct (digit_byte_lt _ H) as [L _]. destruct (ascii_class b L) as [-> _].
  unfold digit_byte in H. unfold ascii_start, in_rng. lia.
Qed.

(* ---------------------------------------------------------------------------------------------- *)
(* operators and punctuation *)
Lemma op_eqb_eq a b : op_eqb a b = true -> a = b.
Proof.
  destruct a as [[v ty] forb], b as [[v' ty'] forb']. unfold op_eqb. cbn [fst snd]. intros H.
  apply andb_prop in H. destruct H as [H H3]. apply andb_prop in H. destruct H as [H1 H2].
  apply bytes_eqb_eq in H1, H3. apply N.eqb_eq in H2. subst. reflexivity.
Qed.

Lemma munch_LOp e : munches (LOp e).
Proof.
  intros bs r i OK FO. cbn [lex_ok class_follow render tok_of] in *.
  apply existsb_exists in OK. destruct OK as (e' & IN & EQ). apply op_eqb_eq in EQ. subst e'.
  unfold all_ops in IN. apply in_app_or in IN. destruct IN as [IN|IN].
  - apply in_map_iff in IN. destruct IN as ([b ty] & <- & IN). cbn [fst snd app length].
    rewrite (munch_punct1 b ty IN). reflexivity.
  - destruct e as [[v ty] forb]. cbn [fst snd] in *. apply munch_op with (forb := forb); [exact IN |].
    apply next_byte_not_free. exact FO.
Qed.

(* bare @ *)
Lemma munch_LAt : munches LAt.
Proof.
  intros bs r i _ FO. cbn [class_follow render tok_of app length] in *.
  apply andb_prop in FO. destruct FO as [F1 F2].
  dispatch_punct. cbn [N.eqb Pos.eqb]. unfold adv, nxt, is_b, op. cbn [fst snd skipn].
  destruct r as [|x r']; [reflexivity |].
  cbn [next_byte_not existsb] in F1. apply negb_true_iff in F1. rewrite !orb_false_iff in F1.
  destruct F1 as (A & B & _). rewrite A, B.
  unfold next_rune_not in F2. destruct (decode_rune (x :: r')) as [nr nsz]. cbn [fst] in F2.
  apply negb_true_iff in F2. rewrite F2. reflexivity.
Qed.

(* bare $ *)
Lemma munch_LDollarSign : munches LDollarSign.
Proof.
  intros bs r i _ FO. cbn [class_follow render tok_of app length] in *.
  dispatch_punct. cbn [N.eqb Pos.eqb]. unfold read_dollar, adv, dollar_plain, op. cbn [fst snd skipn].
  destruct r as [|x r']; [reflexivity |].
  unfold next_rune_not in FO. destruct (decode_rune (x :: r')) as [nr nsz]. cbn [fst] in FO.
  apply negb_true_iff in FO. rewrite !orb_false_iff in FO. destruct FO as [[A B] C]. rewrite A, B, C. reflexivity.
Qed.

(* $1 *)
Lemma munch_LParamNum ds : munches (LParamNum ds).
Proof.
  intros bs r i OK FO. cbn [lex_ok class_follow render tok_of app length] in *.
  dispatch_punct. cbn [N.eqb Pos.eqb]. unfold read_dollar, adv, op. cbn [fst snd skipn].
  unfold digits_ok in OK. destruct ds as [|d ds]; [discriminate |].
  cbn [app]. pose proof OK as OK'. cbn [forallb] in OK'. apply andb_prop in OK'. destruct OK' as [D1 _].
  destruct (digit_byte_lt _ D1) as [L1 G1]. rewrite decode_ascii by exact L1. rewrite G1.
  change (d :: ds ++ r) with ((d :: ds) ++ r). rewrite span_digits by assumption.
  cbn [bind length]. f_equal. f_equal. f_equal. lia.
Qed.

(* ---------------------------------------------------------------------------------------------- *)
(* numbers *)
Lemma next_token_digit bs d tl i : digit_byte d = true -> next_token bs (d :: tl, i) = read_number bs (d :: tl, i).
Proof.
  intros H. destruct (digit_byte_lt _ H) as [L G]. unfold next_token. cbn [fst].
  rewrite decode_ascii by exact L. rewrite (digit_not_start _ H), G. reflexivity.
Qed.

Lemma digits_ok_inv ds : digits_ok ds = true -> exists d tl, ds = d :: tl /\ digit_byte d = true /\ forallb digit_byte ds = true.
Proof.
  unfold digits_ok. destruct ds as [|d tl]; [discriminate |]. intros H. exists d, tl. split; [reflexivity |].
  split; [| exact H]. cbn [forallb] in H. apply andb_prop in H. tauto.
Qed.

Lemma adv_cons1 b l i : adv (b :: l, i) 1 = (l, i + 1).
Proof. reflexivity. Qed.

Lemma nondigit_cons b t : digit_byte b = false -> next_byte_nondigit (b :: t) = true.
Proof. intros H. cbn. rewrite H. reflexivity. Qed.

(* the exponent stage of readNumber *)
Lemma num_exp_stage bs w2 ex r i2 :
  (match ex with
   | Some (e, sg, ds) =>
       ((e =? 101) || (e =? 69)) && (match sg with Some s => (s =? 43) || (s =? 45) | None => true end) && digits_ok ds
   | None => true
   end) = true ->
  next_byte_nondigit r = true ->
  (match ex with None => next_byte_not [101; 69] r | Some _ => true end) = true ->
  let et := match ex with
            | Some (e, sg, ds) => e :: (match sg with Some s => [s] | None => [] end) ++ ds
            | None => []
            end in
  match fst (et ++ r, i2) with
  | [] => Val (op TT_Number w2, (et ++ r, i2))
  | e :: _ =>
      if (e =? 101) || (e =? 69) then
        let c3 := adv (et ++ r, i2) 1 in
        let '(ws, c4) :=
          match fst c3 with
          | s :: _ => if (s =? 43) || (s =? 45) then ([s], adv c3 1) else ([], c3)
          | [] => ([], c3)
          end in
        match fst c4 with
        | [] => err_at bs E_InvalidNumber (snd c4)
        | _ =>
            if is_digit (fst (decode_rune (fst c4))) then
              do (we, c5) <- span is_digit c4; Val (op TT_Number (w2 ++ e :: ws ++ we), c5)
            else err_at bs E_InvalidNumber (snd c4)
        end
      else Val (op TT_Number w2, (et ++ r, i2))
  end = Val (op TT_Number (w2 ++ et), (r, i2 + N.of_nat (length et))).
Proof.
  intros OK ND FE et. subst et. destruct ex as [[[e sg] ds]|].
  - apply andb_prop in OK. destruct OK as [OK DS]. apply andb_prop in OK. destruct OK as [EE SG].
    destruct (digits_ok_inv _ DS) as (d & tl & -> & D1 & DA).
    destruct (digit_byte_lt _ D1) as [L1 G1].
    cbn [fst app]. rewrite EE. unfold adv. cbn [fst snd skipn].
    destruct sg as [s|].
    + cbn [app fst]. rewrite SG. cbn [fst snd skipn]. rewrite decode_ascii by exact L1. cbn [fst]. rewrite G1.
      change (d :: tl ++ r) with ((d :: tl) ++ r). rewrite span_digits by assumption.
      cbn [bind]. f_equal. f_equal. f_equal. len.
    + cbn [app fst].
      assert (NS : (d =? 43) || (d =? 45) = false) by (unfold digit_byte in D1; lia).
      rewrite NS. cbn [fst snd]. rewrite decode_ascii by exact L1. cbn [fst]. rewrite G1.
      change (d :: tl ++ r) with ((d :: tl) ++ r). rewrite span_digits by assumption.
      cbn [bind]. f_equal. f_equal. f_equal. len.
  - cbn [app fst length]. rewrite app_nil_r, N.add_0_r. destruct r as [|x r']; [reflexivity |].
    cbn [next_byte_not existsb] in FE. apply negb_true_iff in FE. rewrite !orb_false_iff in FE.
    destruct FE as (A & B & _). rewrite A, B. reflexivity.
Qed.

Lemma munch_LNum ip fp ex : munches (LNum ip fp ex).
Proof.
  intros bs r i OK FO. cbn [lex_ok class_follow render tok_of] in *.
  apply andb_prop in OK. destruct OK as [OK OKE]. apply andb_prop in OK. destruct OK as [OKI OKF].
  apply andb_prop in FO. destruct FO as [ND FO].
  destruct (digits_ok_inv _ OKI) as (d & tl & -> & D1 & DA).
  unfold num_text. rewrite <- !app_assoc. cbn [app]. rewrite next_token_digit by exact D1.
  set (et := match ex with
            | Some (e, sg, ds) => e :: (match sg with Some s => [s] | None => [] end) ++ ds
            | None => []
            end) in *.
  assert (NDE : next_byte_nondigit (et ++ r) = true).
  { subst et. destruct ex as [[[e sg] ds]|]; [| exact ND].
    apply andb_prop in OKE. destruct OKE as [OKE _]. apply andb_prop in OKE. destruct OKE as [EE _].
    cbn [app]. apply nondigit_cons. unfold digit_byte. lia. }
  assert (FE : (match ex with None => next_byte_not [101; 69] r | Some _ => true end) = true).
  { destruct ex; [reflexivity |]. destruct fp; [exact FO |].
    destruct r as [|x r']; [reflexivity |]. cbn [next_byte_not existsb] in *.
    apply negb_true_iff in FO. rewrite !orb_false_iff in FO. destruct FO as (_ & B & C & _). rewrite B, C. reflexivity. }
  unfold read_number.
  destruct fp as [f|].
  - destruct (digits_ok_inv _ OKF) as (d2 & tl2 & -> & D2 & DA2).
    destruct (digit_byte_lt _ D2) as [L2 G2]. cbn [app].
    change (d :: tl ++ 46 :: d2 :: tl2 ++ et ++ r) with ((d :: tl) ++ 46 :: (d2 :: tl2) ++ et ++ r).
    rewrite span_digits; [| exact DA | apply nondigit_cons; reflexivity].
    cbn [bind fst app N.eqb Pos.eqb]. rewrite !adv_cons1. cbn [fst snd].
    rewrite decode_ascii by exact L2. cbn [fst]. rewrite G2.
    change (d2 :: tl2 ++ et ++ r) with ((d2 :: tl2) ++ et ++ r). rewrite span_digits by assumption.
    cbn [bind].
    rewrite (num_exp_stage bs _ ex r _ OKE ND FE). fold et.
    unfold op. f_equal. f_equal.
    + f_equal. f_equal. lnorm. reflexivity.
    + f_equal. len.
  - cbn [app]. change (d :: tl ++ et ++ r) with ((d :: tl) ++ et ++ r).
    rewrite span_digits; [| exact DA | exact NDE].
    cbn [bind fst app].
    destruct (et ++ r) as [|b t] eqn:ER.
    { destruct et; [| discriminate]. destruct r; [| discriminate]. cbn [app length].
      unfold op. rewrite !app_nil_r. reflexivity. }
    assert (B46 : (b =? 46) = false).
    { subst et. destruct ex as [[[e sg] ds]|].
      - apply andb_prop in OKE. destruct OKE as [OKE _]. apply andb_prop in OKE. destruct OKE as [EE _].
        cbn [app] in ER. injection ER as <- _. lia.
      - cbn [app] in ER. subst r. cbn [next_byte_not existsb] in FO. apply negb_true_iff in FO.
        rewrite !orb_false_iff in FO. tauto. }
    rewrite B46. cbn [bind]. rewrite <- ER.
    rewrite (num_exp_stage bs _ ex r _ OKE ND FE). fold et.
    unfold op. f_equal. f_equal. f_equal. len.
Qed.
