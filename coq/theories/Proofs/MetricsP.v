(* MetricsP.v — proofs about Model/Metrics.v: counters are exact and CAS-loop extreme-value updates are
   exact, for every schedule and any number of threads; load-compare-store updates are refuted. *)
From Coq Require Import List ZArith NArith Bool Arith Lia ZifyNat ZifyN ZifyBool.
From GV Require Import Model.Metrics.
Import ListNotations.
Local Open Scope Z_scope.

(* ---------------------------------------------------------------------------------------------- *)
(* lists of threads *)

Lemma nth_error_set_thread_eq : forall ts n t t0, nth_error ts n = Some t0 -> nth_error (set_thread ts n t) n = Some t.
Proof.
  induction ts as [|h r IH]; intros [|n] t t0 H; cbn in *; try discriminate; auto.
  eapply IH; eauto.
Qed.

Lemma in_set_thread : forall ts n t x, In x (set_thread ts n t) -> x = t \/ In x ts.
Proof.
  induction ts as [|h r IH]; intros [|n] t x H; cbn in *; auto.
  - destruct H; auto.
  - destruct H as [H|H]; auto. apply IH in H. tauto.
Qed.

Lemma in_set_thread_new : forall ts n t t0, nth_error ts n = Some t0 -> In t (set_thread ts n t).
Proof.
  induction ts as [|h r IH]; intros [|n] t t0 H; cbn in *; try discriminate; auto.
  right. eapply IH; eauto.
Qed.

Lemma in_old_set_thread : forall ts n t t0 x, nth_error ts n = Some t0 -> In x ts -> x = t0 \/ In x (set_thread ts n t).
Proof.
  induction ts as [|h r IH]; intros [|n] t t0 x H Hx; cbn in *; try discriminate.
  - inversion H; subst. destruct Hx; auto.
  - destruct Hx as [Hx|Hx]; auto. destruct (IH n t t0 x H Hx); auto.
Qed.

Lemma sum_set_thread : forall (f : thread -> Z) ts n t t0,
  nth_error ts n = Some t0 -> sumZ (map f (set_thread ts n t)) = sumZ (map f ts) - f t0 + f t.
Proof.
  unfold sumZ. induction ts as [|h r IH]; intros [|n] t t0 H; cbn in *; try discriminate.
  - inversion H; subst. lia.
  - rewrite (IH n t t0 H). lia.
Qed.

Lemma map_set_thread_same : forall (A : Type) (f : thread -> A) ts n t t0,
  nth_error ts n = Some t0 -> f t = f t0 -> map f (set_thread ts n t) = map f ts.
Proof.
  induction ts as [|h r IH]; intros [|n] t t0 H E; cbn in *; try discriminate.
  - inversion H; subst. now rewrite E.
  - f_equal. eapply IH; eauto.
Qed.

Lemma run_inv : forall (P : config -> Prop),
  (forall c tid, P c -> P (step c tid)) -> forall sched c, P c -> P (run c sched).
Proof.
  intros P Hs sched. induction sched as [|a r IH]; intros c Hc; cbn; auto.
  apply IH. apply Hs. exact Hc.
Qed.

(* the code (sections, arguments) of a thread never changes *)
Definition code (t : thread) := (t_secs t, t_args t).

Lemma step_thread_code : forall m t, code (snd (step_thread m t)) = code t.
Proof.
  intros m t. unfold step_thread.
  destruct (nth_error (t_secs t) (t_si t)) as [s|]; auto.
  destruct (negb _); auto.
  destruct (s_body s) as [e|e|p|]; auto.
  destruct (nth_error p (t_pc t)) as [i|]; auto.
  destruct i; cbn; auto. destruct (_ =? _); auto.
Qed.

Lemma step_code : forall c tid, map code (snd (step c tid)) = map code (snd c).
Proof.
  intros [m ts] tid. unfold step. cbn [snd fst].
  destruct (nth_error ts tid) as [t|] eqn:E; auto.
  pose proof (step_thread_code m t) as H. destruct (step_thread m t) as [m' t']. cbn [snd] in *.
  eapply map_set_thread_same; eauto.
Qed.

Lemma run_code : forall sched c, map code (snd (run c sched)) = map code (snd c).
Proof.
  intros sched c. apply (run_inv (fun c' => map code (snd c') = map code (snd c))); auto.
  intros c' tid H. now rewrite step_code.
Qed.

Lemma firstn_done : forall t, done t = true -> firstn (t_si t) (t_secs t) = t_secs t.
Proof. intros t H. unfold done in H. apply firstn_all2. lia. Qed.

Lemma firstn_snoc : forall (A : Type) (l : list A) n x, nth_error l n = Some x -> firstn (S n) l = firstn n l ++ [x].
Proof.
  induction l as [|h r IH]; intros [|n] x H; cbn in *; try discriminate.
  - now inversion H.
  - f_equal. now apply IH.
Qed.

(* ---------------------------------------------------------------------------------------------- *)
(* counters: a location that is only ever atomically added to holds init + the sum of all adds *)

Lemma contrib_app : forall l args a b, contrib l args (a ++ b) = contrib l args a + contrib l args b.
Proof. induction a as [|s r IH]; intros b; cbn [contrib app]; [lia|]. rewrite IH. lia. Qed.

Lemma upd_same : forall m l v, upd m l v l = v.
Proof. intros. unfold upd. now rewrite N.eqb_refl. Qed.
Lemma upd_other : forall m l l' v, l' <> l -> upd m l v l' = m l'.
Proof. intros. unfold upd. destruct (N.eqb_spec l' l); congruence. Qed.

Lemma add_only_nth : forall l secs n s, add_only l secs = true -> nth_error secs n = Some s -> s_loc s = l ->
  exists e, s_body s = BAdd e.
Proof.
  intros l secs n s H Hn Hl. unfold add_only in H. rewrite forallb_forall in H.
  specialize (H s (nth_error_In _ _ Hn)). subst l. rewrite N.eqb_refl in H. cbn in H.
  destruct (s_body s); try discriminate. eauto.
Qed.

Definition csf := contrib_so_far.

Lemma csf_at_pc : forall l t pc regs, csf l (at_pc t pc regs) = csf l t.
Proof. reflexivity. Qed.

Lemma csf_next : forall l t s, nth_error (t_secs t) (t_si t) = Some s ->
  csf l (next_sec t) = csf l t + contrib l (t_args t) [s].
Proof.
  intros l t s H. unfold csf, contrib_so_far, next_sec. cbn [t_secs t_args t_si].
  rewrite (firstn_snoc _ _ _ _ H), contrib_app. reflexivity.
Qed.

Lemma counter_step_thread : forall l m t m' t',
  add_only l (t_secs t) = true -> step_thread m t = (m', t') -> m' l - csf l t' = m l - csf l t.
Proof.
  intros l m t m' t' Ha Hs. unfold step_thread in Hs.
  destruct (nth_error (t_secs t) (t_si t)) as [s|] eqn:En; [|inversion Hs; subst; lia].
  destruct (N.eqb_spec (s_loc s) l) as [El|Nl].
  - destruct (add_only_nth _ _ _ _ Ha En El) as [e Hb].
    destruct (negb _) eqn:Ec.
    + inversion Hs; subst. rewrite (csf_next _ _ _ En). cbn [contrib].
      rewrite N.eqb_refl. apply negb_true_iff in Ec. rewrite Ec. cbn. lia.
    + rewrite Hb in Hs. inversion Hs; subst. rewrite (csf_next _ _ _ En). cbn [contrib].
      rewrite N.eqb_refl, Hb. apply negb_false_iff in Ec. rewrite Ec. cbn. rewrite upd_same. lia.
  - assert (Hc : contrib l (t_args t) [s] = 0).
    { cbn [contrib]. destruct (N.eqb_spec (s_loc s) l); [congruence|]. cbn. lia. }
    assert (Hl : l <> s_loc s) by congruence.
    destruct (negb _).
    { inversion Hs; subst. rewrite (csf_next _ _ _ En), Hc. lia. }
    destruct (s_body s) as [e|e|p|].
    + inversion Hs; subst. rewrite (csf_next _ _ _ En), Hc, upd_other by auto. lia.
    + inversion Hs; subst. rewrite (csf_next _ _ _ En), Hc, upd_other by auto. lia.
    + destruct (nth_error p (t_pc t)) as [i|].
      * destruct i; cbn [step_instr] in Hs;
          try (inversion Hs; subst; rewrite ?csf_at_pc, ?upd_other by auto; lia).
        -- destruct (_ =? _); inversion Hs; subst; rewrite ?csf_at_pc, ?upd_other by auto; lia.
        -- inversion Hs; subst. rewrite (csf_next _ _ _ En), Hc. lia.
      * inversion Hs; subst. rewrite (csf_next _ _ _ En), Hc. lia.
    + inversion Hs; subst. rewrite (csf_next _ _ _ En), Hc. lia.
Qed.

Definition all_add_only (l : loc) (ts : list thread) : Prop := forall t, In t ts -> add_only l (t_secs t) = true.

Lemma counter_step : forall l c tid,
  all_add_only l (snd c) ->
  all_add_only l (snd (step c tid)) /\
  fst (step c tid) l - sumZ (map (csf l) (snd (step c tid))) = fst c l - sumZ (map (csf l) (snd c)).
Proof.
  intros l [m ts] tid Ha. unfold step. cbn [fst snd] in *.
  destruct (nth_error ts tid) as [t|] eqn:E; [|auto].
  destruct (step_thread m t) as [m' t'] eqn:Es. cbn [fst snd].
  pose proof (step_thread_code m t) as Hc. rewrite Es in Hc. cbn [snd] in Hc.
  assert (Ht : add_only l (t_secs t) = true) by (apply Ha; eapply nth_error_In; eauto).
  split.
  - intros x Hx. apply in_set_thread in Hx. destruct Hx as [->|Hx]; auto.
    unfold code in Hc. inversion Hc as [[H1 H2]]. now rewrite H1.
  - rewrite (sum_set_thread _ _ _ _ _ E). pose proof (counter_step_thread _ _ _ _ _ Ht Es). lia.
Qed.

Lemma contrib_total_code : forall l ts ts', map code ts = map code ts' ->
  map (contrib_total l) ts = map (contrib_total l) ts'.
Proof.
  induction ts as [|a r IH]; intros [|b r'] H; cbn in *; try discriminate; auto.
  inversion H as [[H1 H2 H3]]. unfold contrib_total at 1 3. rewrite H1, H2. f_equal. auto.
Qed.

Lemma csf_done : forall l ts, all_done ts = true -> map (csf l) ts = map (contrib_total l) ts.
Proof.
  intros l ts H. unfold all_done in H. rewrite forallb_forall in H.
  apply map_ext_in. intros t Ht. unfold csf, contrib_so_far, contrib_total. now rewrite firstn_done by auto.
Qed.

Lemma csf_start : forall l ts, (forall t, In t ts -> t_si t = 0%nat) -> sumZ (map (csf l) ts) = 0.
Proof.
  induction ts as [|a r IH]; intros H; [reflexivity|].
  change (csf l a + sumZ (map (csf l) r) = 0).
  rewrite IH by (intros; apply H; now right).
  unfold csf, contrib_so_far. rewrite (H a) by now left. reflexivity.
Qed.

(* any number of threads, any schedule: after quiescence a counter equals its initial value plus every add of
   every call *)
Theorem counters_exact : forall l init ts sched,
  (forall t, In t ts -> add_only l (t_secs t) = true /\ t_si t = 0%nat) ->
  let c := run (init, ts) sched in
  all_done (snd c) = true -> fst c l = init l + sumZ (map (contrib_total l) ts).
Proof.
  intros l init ts sched H c Hd.
  assert (Hinv : all_add_only l (snd c) /\ fst c l - sumZ (map (csf l) (snd c)) = init l - sumZ (map (csf l) ts)).
  { subst c. apply (run_inv (fun c' => all_add_only l (snd c') /\
        fst c' l - sumZ (map (csf l) (snd c')) = init l - sumZ (map (csf l) ts))).
    - intros c' tid [Ha He]. destruct (counter_step l c' tid Ha) as [Ha' He']. split; auto. lia.
    - split; [intros t Ht; apply H; auto | reflexivity]. }
  destruct Hinv as [_ He].
  rewrite (csf_start l ts) in He by (intros; apply H; auto).
  rewrite (csf_done _ _ Hd) in He.
  rewrite (contrib_total_code l (snd c) ts) in He by (subst c; apply run_code).
  lia.
Qed.

(* and at every moment (not only at quiescence) the counter equals the adds executed so far *)
Theorem counters_exact_always : forall l init ts sched,
  (forall t, In t ts -> add_only l (t_secs t) = true /\ t_si t = 0%nat) ->
  let c := run (init, ts) sched in
  fst c l = init l + sumZ (map (contrib_so_far l) (snd c)).
Proof.
  intros l init ts sched H c.
  assert (Hinv : all_add_only l (snd c) /\ fst c l - sumZ (map (csf l) (snd c)) = init l - sumZ (map (csf l) ts)).
  { subst c. apply (run_inv (fun c' => all_add_only l (snd c') /\
        fst c' l - sumZ (map (csf l) (snd c')) = init l - sumZ (map (csf l) ts))).
    - intros c' tid [Ha He]. destruct (counter_step l c' tid Ha) as [Ha' He']. split; auto. lia.
    - split; [intros t Ht; apply H; auto | reflexivity]. }
  destruct Hinv as [_ He]. rewrite (csf_start l ts) in He by (intros; apply H; auto). unfold csf in He. lia.
Qed.

(* ---------------------------------------------------------------------------------------------- *)
(* extreme-value updates by a CAS loop, generically in the order ("a is at least as good as b") *)

Lemma eval_reg_free : forall args regs v, reg_free v = true -> eval args regs v = eval args [] v.
Proof.
  induction v; cbn; intros H; auto; try discriminate.
  apply andb_true_iff in H. destruct H. now rewrite IHv1, IHv2.
Qed.

Lemma nthZ_set_same : forall rs n v, nthZ (set_nth rs n v) n = v.
Proof. intros rs n; revert rs. induction n; intros [|h t] v; cbn; auto; apply IHn. Qed.
Lemma nthZ_set_other : forall rs n k v, n <> k -> nthZ (set_nth rs n v) k = nthZ rs k.
Proof.
  intros rs n; revert rs. induction n; intros [|h t] [|k] v H; cbn; auto; try congruence.
  - destruct k; reflexivity.
  - unfold nthZ in IHn. rewrite IHn by congruence. destruct k; reflexivity.
  - apply IHn. congruence.
Qed.

Section RmwBest.
  Variable ble : Z -> Z -> Prop.            (* ble a b : a is at least as good as b *)
  Variable skip : expr -> cond.
  Variable l : loc.
  Variable dom : Z -> Prop.                  (* the values that may be recorded (sizes are not the sentinel) *)
  Hypothesis ble_refl : forall a, ble a a.
  Hypothesis ble_trans : forall a b c, ble a b -> ble b c -> ble a c.
  Hypothesis skip_true : forall args regs v, reg_free v = true ->
    evalc args regs (skip v) = true -> ble (nthZ regs 0) (eval args [] v).
  Hypothesis skip_false : forall args regs v, reg_free v = true -> dom (eval args [] v) ->
    evalc args regs (skip v) = false -> ble (eval args [] v) (nthZ regs 0).

  Definition cas_sec (v : expr) : section := {| s_cond := CTrue; s_loc := l; s_body := BRmw (cas_prog (skip v) v) |}.

  Lemma cas_sec_shape : forall secs n s, cas_only skip l secs = true -> nth_error secs n = Some s -> s_loc s = l ->
    exists v, reg_free v = true /\ s = cas_sec v.
  Proof.
    intros secs n s H Hn Hl. unfold cas_only in H. rewrite forallb_forall in H.
    specialize (H s (nth_error_In _ _ Hn)). unfold is_cas_sec in H. rewrite Hl, N.eqb_refl in H. cbn [negb orb] in H.
    destruct s as [c l0 b]. cbn in *. subst l0.
    destruct c; try discriminate. destruct b as [| |p|]; try discriminate.
    destruct (operand p) as [v|] eqn:Eo; try discriminate.
    apply andb_true_iff in H. destruct H as [Hr Hp]. unfold prog_eqb in Hp.
    destruct (list_eq_dec instr_eq_dec p (cas_prog (skip v) v)); try discriminate.
    exists v. subst p. auto.
  Qed.

  (* values that the current value of l must be at least as good as, because of the control state of t *)
  Definition cur_obl (t : thread) : list Z :=
    match nth_error (t_secs t) (t_si t) with
    | Some s =>
        if N.eqb (s_loc s) l then
          match s_body s with
          | BRmw p => match operand p with
                      | Some v =>
                          let val := eval (t_args t) [] v in
                          match t_pc t with
                          | 1%nat | 2%nat => [nthZ (t_regs t) 0]
                          | 3%nat => if nthZ (t_regs t) 1 =? 0 then [] else [val]
                          | 5%nat => [val]
                          | _ => []
                          end
                      | None => []
                      end
          | _ => []
          end
        else []
    | None => []
    end.

  Definition loc_ok (t : thread) : Prop :=
    forall s v, nth_error (t_secs t) (t_si t) = Some s -> s = cas_sec v ->
      (t_pc t <= 5)%nat /\ (t_pc t = 2%nat -> ble (eval (t_args t) [] v) (nthZ (t_regs t) 0)).

  Definition thread_ok (m : Z) (t : thread) : Prop :=
    (cas_only skip l (t_secs t) = true /\ forall x, In x (recorded_total l t) -> dom x) /\ loc_ok t /\
    (forall x, In x (recorded_so_far l t) -> ble m x) /\ (forall x, In x (cur_obl t) -> ble m x).

  Lemma recorded_app : forall args a b, recorded l args (a ++ b) = recorded l args a ++ recorded l args b.
  Proof. induction a as [|s r IH]; intros b; cbn [recorded app]; auto. now rewrite IH, app_assoc. Qed.

  Lemma rsf_next : forall t s, nth_error (t_secs t) (t_si t) = Some s ->
    recorded_so_far l (next_sec t) = recorded_so_far l t ++ recorded l (t_args t) [s].
  Proof.
    intros t s H. unfold recorded_so_far, next_sec. cbn [t_secs t_args t_si].
    now rewrite (firstn_snoc _ _ _ _ H), recorded_app.
  Qed.

  Lemma recorded_other : forall args s, s_loc s <> l -> recorded l args [s] = [].
  Proof. intros args s H. cbn. destruct (N.eqb_spec (s_loc s) l); [congruence|reflexivity]. Qed.

  Lemma recorded_in : forall args secs n v, nth_error secs n = Some (cas_sec v) -> In (eval args [] v) (recorded l args secs).
  Proof.
    induction secs as [|s r IH]; intros [|n] v H; cbn in H; try discriminate.
    - inversion H; subst. cbn. rewrite N.eqb_refl. cbn. now left.
    - cbn [recorded]. apply in_or_app. right. eauto.
  Qed.

  Lemma cur_obl_next_nil : forall t, (forall s, nth_error (t_secs t) (S (t_si t)) = Some s -> s_loc s = l ->
      exists v, s = cas_sec v) -> cur_obl (next_sec t) = [].
  Proof.
    intros t H. unfold cur_obl, next_sec. cbn [t_secs t_si t_pc t_regs t_args].
    destruct (nth_error (t_secs t) (S (t_si t))) as [s|] eqn:E; auto.
    destruct (N.eqb_spec (s_loc s) l); auto.
    destruct (s_body s); auto. destruct (operand p); auto.
  Qed.

  Lemma loc_ok_next : forall t, loc_ok (next_sec t).
  Proof. intros t s v _ _. cbn. split; [lia|discriminate]. Qed.

  Opaque set_nth.
  (* one step of a thread that satisfies its invariant: the value of l only improves, changes only to a value
     recorded by this thread, and the thread's invariant holds again *)
  Lemma rmw_step_thread : forall m t m' t',
    thread_ok (m l) t -> step_thread m t = (m', t') ->
    ble (m' l) (m l) /\ (m' l = m l \/ In (m' l) (recorded_total l t)) /\ thread_ok (m' l) t'.
  Proof.
    intros m t m' t' (Hcd & Hl & Hr & Ho) Hs. pose proof Hcd as [Hc Hd].
    assert (Hnext : forall s, nth_error (t_secs t) (t_si t) = Some s ->
              (forall x, In x (recorded l (t_args t) [s]) -> ble (m l) x) -> thread_ok (m l) (next_sec t)).
    { intros s En Hx. split; [exact Hcd|]. split; [apply loc_ok_next|]. split.
      - intros x Hin. rewrite (rsf_next _ _ En) in Hin. apply in_app_or in Hin. destruct Hin; auto.
      - rewrite cur_obl_next_nil; [intros x []|].
        intros s' E' L'. destruct (cas_sec_shape _ _ _ Hc E' L') as (v & _ & ->). eauto. }
    unfold step_thread in Hs.
    destruct (nth_error (t_secs t) (t_si t)) as [s|] eqn:En.
    2:{ inversion Hs; subst. split; [apply ble_refl|]. split; [now left|]. exact (conj Hcd (conj Hl (conj Hr Ho))). }
    specialize (Hnext s eq_refl).
    destruct (N.eqb_spec (s_loc s) l) as [El|Nl].
    - (* a section on l: it is the CAS loop *)
      destruct (cas_sec_shape _ _ _ Hc En El) as (v & Hrf & ->).
      destruct (Hl _ _ En eq_refl) as [Hpc H2].
      assert (Hobl : cur_obl t = match t_pc t with
                                 | 1%nat | 2%nat => [nthZ (t_regs t) 0]
                                 | 3%nat => if nthZ (t_regs t) 1 =? 0 then [] else [eval (t_args t) [] v]
                                 | 5%nat => [eval (t_args t) [] v]
                                 | _ => []
                                 end).
      { unfold cur_obl. rewrite En. cbn. now rewrite N.eqb_refl. }
      rewrite Hobl in Ho. clear Hobl.
      assert (Hat : forall pc regs, (cas_only skip l (t_secs (at_pc t pc regs)) = true /\
                    forall x, In x (recorded_total l (at_pc t pc regs)) -> dom x) /\
                 (forall x, In x (recorded_so_far l (at_pc t pc regs)) -> ble (m l) x)) by (intros; split; auto).
      assert (Hdv : dom (eval (t_args t) [] v)) by (apply Hd; unfold recorded_total; eapply recorded_in; eauto).
      assert (Hobl' : forall pc regs, cur_obl (at_pc t pc regs) = match pc with
                                 | 1%nat | 2%nat => [nthZ regs 0]
                                 | 3%nat => if nthZ regs 1 =? 0 then [] else [eval (t_args t) [] v]
                                 | 5%nat => [eval (t_args t) [] v]
                                 | _ => []
                                 end).
      { intros. unfold cur_obl, at_pc. cbn [t_secs t_si t_pc t_regs t_args]. rewrite En. cbn. now rewrite N.eqb_refl. }
      assert (Hlok : forall pc regs, (pc <= 5)%nat -> (pc = 2%nat -> ble (eval (t_args t) [] v) (nthZ regs 0)) ->
                 loc_ok (at_pc t pc regs)).
      { intros pc regs Hp Hq s0 v0 E0 Es0. unfold at_pc in *. cbn [t_secs t_si t_pc t_regs t_args] in *.
        rewrite En in E0. subst s0. unfold cas_sec, cas_prog in E0. inversion E0 as [[Hsk Hv]]. subst v0. auto. }
      cbn [s_cond evalc negb s_body s_loc cas_sec] in Hs.
      destruct (t_pc t) as [|[|[|[|[|[|pc]]]]]] eqn:Epc; [| | | | | |lia]; cbn [nth_error cas_prog step_instr] in Hs; rewrite ?Epc in Hs.
      + (* 0: load *)
        inversion Hs; subst m' t'. split; [apply ble_refl|]. split; [now left|].
        destruct (Hat 1%nat (set_nth (t_regs t) 0 (m l))) as [A B]. split; [exact A|]. split.
        * apply Hlok; [lia|discriminate].
        * split; [exact B|]. rewrite Hobl'. rewrite nthZ_set_same. intros x [<-|[]]. apply ble_refl.
      + (* 1: skip? *)
        inversion Hs; subst m' t'. split; [apply ble_refl|]. split; [now left|].
        destruct (evalc (t_args t) (t_regs t) (skip v)) eqn:Esk.
        * destruct (Hat 5%nat (t_regs t)) as [A B]. split; [exact A|]. split; [apply Hlok; [lia|discriminate]|].
          split; [exact B|]. rewrite Hobl'. intros x [<-|[]].
          eapply ble_trans; [apply Ho; now left|]. eapply skip_true; eauto.
        * destruct (Hat 2%nat (t_regs t)) as [A B]. split; [exact A|]. split.
          { apply Hlok; [lia|]. intros _. eapply skip_false; eauto. }
          split; [exact B|]. rewrite Hobl'. exact Ho.
      + (* 2: compare and swap *)
        rewrite (eval_reg_free _ _ _ Hrf) in Hs. cbn [eval] in Hs.
        fold (nthZ (t_regs t) 0) in Hs.
        destruct (m l =? nthZ (t_regs t) 0) eqn:Ecas.
        * inversion Hs; subst m' t'. rewrite upd_same.
          assert (Hbetter : ble (eval (t_args t) [] v) (m l)).
          { apply Z.eqb_eq in Ecas. rewrite Ecas. now apply H2. }
          split; [exact Hbetter|]. split.
          { right. unfold recorded_total. eapply recorded_in; eauto. }
          split; [exact Hcd|]. split; [apply Hlok; [lia|discriminate]|]. split.
          { intros x Hx. eapply ble_trans; [exact Hbetter|]. apply Hr. exact Hx. }
          rewrite Hobl'. rewrite nthZ_set_same. cbn. intros x [<-|[]]. apply ble_refl.
        * inversion Hs; subst m' t'. split; [apply ble_refl|]. split; [now left|].
          destruct (Hat 3%nat (set_nth (t_regs t) 1 0)) as [A B]. split; [exact A|]. split; [apply Hlok; [lia|discriminate]|].
          split; [exact B|]. rewrite Hobl'. rewrite nthZ_set_same. cbn. intros x [].
      + (* 3: retry? *)
        inversion Hs; subst m' t'. split; [apply ble_refl|]. split; [now left|].
        cbn [evalc eval]. fold (nthZ (t_regs t) 1).
        destruct (nthZ (t_regs t) 1 =? 0) eqn:E1; cbn [negb].
        * destruct (Hat 4%nat (t_regs t)) as [A B]. split; [exact A|]. split; [apply Hlok; [lia|discriminate]|].
          split; [exact B|]. rewrite Hobl'. intros x [].
        * destruct (Hat 5%nat (t_regs t)) as [A B]. split; [exact A|]. split; [apply Hlok; [lia|discriminate]|].
          split; [exact B|]. rewrite Hobl'. exact Ho.
      + (* 4: back to the load *)
        inversion Hs; subst m' t'. split; [apply ble_refl|]. split; [now left|].
        destruct (Hat 0%nat (t_regs t)) as [A B]. split; [exact A|]. split; [apply Hlok; [lia|discriminate]|].
        split; [exact B|]. rewrite Hobl'. intros x [].
      + (* 5: return *)
        inversion Hs; subst m' t'. split; [apply ble_refl|]. split; [now left|].
        apply Hnext. cbn. rewrite N.eqb_refl. cbn. intros x [<-|[]]. apply Ho. now left.
    - (* a section on another location: l is untouched *)
      assert (Hl' : l <> s_loc s) by congruence.
      assert (Hrec : forall x, In x (recorded l (t_args t) [s]) -> ble (m l) x).
      { rewrite recorded_other by auto. intros x []. }
      assert (Hat : forall pc regs, thread_ok (m l) (at_pc t pc regs)).
      { intros pc regs. split; [exact Hcd|]. split.
        - intros s0 v0 E0 Es0. unfold at_pc in E0. cbn [t_secs t_si] in E0. rewrite En in E0. inversion E0; subst s0.
          subst s. cbn in Nl. congruence.
        - split; [exact Hr|]. unfold cur_obl, at_pc. cbn [t_secs t_si t_pc t_regs t_args]. rewrite En.
          destruct (N.eqb_spec (s_loc s) l); [congruence|]. intros x []. }
      destruct (negb _).
      { inversion Hs; subst. split; [apply ble_refl|]. split; [now left|]. apply (Hnext Hrec). }
      destruct (s_body s) as [e|e|p|].
      + inversion Hs; subst. rewrite upd_other by auto. split; [apply ble_refl|]. split; [now left|]. apply (Hnext Hrec).
      + inversion Hs; subst. rewrite upd_other by auto. split; [apply ble_refl|]. split; [now left|]. apply (Hnext Hrec).
      + destruct (nth_error p (t_pc t)) as [i|].
        * destruct i; cbn [step_instr] in Hs;
            try (inversion Hs; subst; rewrite ?upd_other by auto; split; [apply ble_refl|]; split; [now left|]; apply Hat).
          -- destruct (_ =? _); inversion Hs; subst; rewrite ?upd_other by auto; (split; [apply ble_refl|]; split; [now left|]; apply Hat).
          -- inversion Hs; subst. split; [apply ble_refl|]. split; [now left|]. apply (Hnext Hrec).
        * inversion Hs; subst. split; [apply ble_refl|]. split; [now left|]. apply (Hnext Hrec).
      + inversion Hs; subst. split; [apply ble_refl|]. split; [now left|]. apply (Hnext Hrec).
  Qed.

  Transparent set_nth.

  Lemma thread_ok_weaken : forall m m' t, ble m' m -> thread_ok m t -> thread_ok m' t.
  Proof.
    intros m m' t Hb (A & B & C & D). split; [exact A|]. split; [exact B|].
    split; intros x Hx; (eapply ble_trans; [exact Hb|]); auto.
  Qed.

  Definition inv (init : Z) (c : config) : Prop :=
    ble (fst c l) init /\
    (fst c l = init \/ exists t, In t (snd c) /\ In (fst c l) (recorded_total l t)) /\
    (forall t, In t (snd c) -> thread_ok (fst c l) t).

  Lemma recorded_total_code : forall t t', code t' = code t -> recorded_total l t' = recorded_total l t.
  Proof. intros t t' H. unfold code in H. inversion H as [[H1 H2]]. unfold recorded_total. now rewrite H1, H2. Qed.

  Lemma inv_step : forall init c tid, inv init c -> inv init (step c tid).
  Proof.
    intros init [m ts] tid (I1 & I2 & I3). unfold step. cbn [fst snd] in *.
    destruct (nth_error ts tid) as [t|] eqn:E; [|exact (conj I1 (conj I2 I3))].
    destruct (step_thread m t) as [m' t'] eqn:Es. unfold inv. cbn [fst snd].
    assert (Hin : In t ts) by (eapply nth_error_In; eauto).
    destruct (rmw_step_thread m t m' t' (I3 t Hin) Es) as (Hb & Hch & Hok).
    pose proof (step_thread_code m t) as Hcode. rewrite Es in Hcode. cbn [snd] in Hcode.
    split; [eapply ble_trans; eauto|]. split.
    - destruct Hch as [Heq|Hrec].
      + rewrite Heq. destruct I2 as [I2|(t0 & Ht0 & Hr0)]; [now left|right].
        destruct (in_old_set_thread ts tid t' t t0 E Ht0) as [->|Hin0].
        * exists t'. split; [eapply in_set_thread_new; eauto|]. now rewrite (recorded_total_code _ _ Hcode).
        * exists t0. auto.
      + right. exists t'. split; [eapply in_set_thread_new; eauto|]. now rewrite (recorded_total_code _ _ Hcode).
    - intros x Hx. apply in_set_thread in Hx. destruct Hx as [->|Hx]; auto.
      eapply thread_ok_weaken; eauto.
  Qed.

  Lemma thread_ok_start : forall m t, cas_only skip l (t_secs t) = true -> (forall x, In x (recorded_total l t) -> dom x) ->
    t_si t = 0%nat -> t_pc t = 0%nat -> thread_ok m t.
  Proof.
    intros m t Hc Hdm Hs Hp. split; [exact (conj Hc Hdm)|]. split.
    - intros s v _ _. rewrite Hp. split; [lia|discriminate].
    - split.
      + unfold recorded_so_far. rewrite Hs. cbn. intros x [].
      + unfold cur_obl. rewrite Hp. destruct (nth_error _ _) as [s|]; [|intros x []].
        destruct (N.eqb _ _); [|intros x []]. destruct (s_body s); try (intros x []). destruct (operand p); intros x [].
  Qed.

  Lemma rsf_done : forall t, done t = true -> recorded_so_far l t = recorded_total l t.
  Proof. intros t H. unfold recorded_so_far, recorded_total. now rewrite firstn_done. Qed.

  Definition all_recorded (ts : list thread) : list Z := concat (map (recorded_total l) ts).

  Lemma all_recorded_code : forall ts ts', map code ts = map code ts' -> all_recorded ts = all_recorded ts'.
  Proof.
    unfold all_recorded. induction ts as [|a r IH]; intros [|b r'] H; cbn in *; try discriminate; auto.
    injection H as Hs Ha Hr. unfold recorded_total at 1 3. rewrite Hs, Ha. f_equal. auto.
  Qed.

  (* any number of threads, any schedule: the value of l is at least as good as the initial one, is the initial
     one or one that was recorded, and after quiescence is at least as good as every recorded value *)
  Theorem rmw_best : forall init ts sched,
    (forall t, In t ts -> cas_only skip l (t_secs t) = true /\ t_si t = 0%nat /\ t_pc t = 0%nat) ->
    (forall x, In x (all_recorded ts) -> dom x) ->
    let c := run (init, ts) sched in
    ble (fst c l) (init l) /\
    (fst c l = init l \/ In (fst c l) (all_recorded ts)) /\
    (all_done (snd c) = true -> forall x, In x (all_recorded ts) -> ble (fst c l) x).
  Proof.
    intros init ts sched H Hdom c.
    assert (Hinv : inv (init l) c).
    { subst c. apply run_inv; [intros; now apply inv_step|].
      split; [apply ble_refl|]. split; [now left|]. cbn [fst snd]. intros t Ht.
      destruct (H t Ht) as (A & B & C). apply thread_ok_start; auto.
      intros x Hx. apply Hdom. unfold all_recorded. apply in_concat. exists (recorded_total l t). split; auto. now apply in_map. }
    assert (Hcode : all_recorded (snd c) = all_recorded ts) by (apply all_recorded_code; subst c; apply run_code).
    destruct Hinv as (I1 & I2 & I3). split; [exact I1|]. split.
    - destruct I2 as [I2|(t & Ht & Hr)]; [now left|right]. rewrite <- Hcode. unfold all_recorded.
      apply in_concat. exists (recorded_total l t). split; auto. now apply in_map.
    - intros Hd x Hx. rewrite <- Hcode in Hx. unfold all_recorded in Hx. apply in_concat in Hx.
      destruct Hx as (rl & Hrl & Hx). apply in_map_iff in Hrl. destruct Hrl as (t & <- & Ht).
      destruct (I3 t Ht) as (_ & _ & Hr & _). apply Hr. rewrite rsf_done; auto.
      unfold all_done in Hd. rewrite forallb_forall in Hd. auto.
  Qed.
End RmwBest.

(* ---------------------------------------------------------------------------------------------- *)
(* instances: largest value, smallest value with the -1 sentinel *)

Lemma maxZ_char : forall vs init m,
  init <= m -> (m = init \/ In m vs) -> (forall x, In x vs -> x <= m) -> m = maxZ init vs.
Proof.
  unfold maxZ. induction vs as [|v r IH]; intros init m Hi Hm Ha; cbn.
  - destruct Hm as [|[]]; auto.
  - apply IH.
    + assert (v <= m) by (apply Ha; now left). lia.
    + destruct Hm as [->|[<-|Hm]]; auto.
      * assert (v <= init) by (apply Ha; now left). left. lia.
      * assert (init <= v) by lia. left. lia.
    + intros x Hx. apply Ha. now right.
Qed.

Theorem max_exact : forall l init ts sched,
  (forall t, In t ts -> cas_only max_skip l (t_secs t) = true /\ t_si t = 0%nat /\ t_pc t = 0%nat) ->
  let c := run (init, ts) sched in
  all_done (snd c) = true -> fst c l = maxZ (init l) (all_recorded l ts).
Proof.
  intros l init ts sched H c Hd.
  destruct (rmw_best (fun a b => b <= a) max_skip l (fun _ => True)) with (init := init) (ts := ts) (sched := sched) as (A & B & C); auto.
  - intros; lia.
  - intros; lia.
  - intros args regs v Hr He. cbn in He. rewrite (eval_reg_free _ _ _ Hr) in He. unfold nthZ in *. lia.
  - intros args regs v Hr _ He. cbn in He. rewrite (eval_reg_free _ _ _ Hr) in He. unfold nthZ in *. lia.
  - fold c in A, B, C. apply maxZ_char; auto.
Qed.

Definition ble_min (a b : Z) : Prop := b = -1 \/ (a <> -1 /\ a <= b).

Lemma minZ_char : forall vs init m,
  (init = -1 \/ 0 <= init) -> (forall x, In x vs -> 0 <= x) ->
  ble_min m init -> (m = init \/ In m vs) -> (forall x, In x vs -> ble_min m x) -> m = minZ init vs.
Proof.
  unfold minZ. induction vs as [|v r IH]; intros init m Hi Hv Hb Hm Ha; cbn.
  - destruct Hm as [|[]]; auto.
  - assert (V : 0 <= v) by (apply Hv; now left).
    assert (Bv : ble_min m v) by (apply Ha; now left).
    apply IH.
    + unfold min_s. destruct (init =? -1) eqn:E1; [right; lia|]. destruct (v =? -1) eqn:E2; lia.
    + intros x Hx. apply Hv. now right.
    + unfold ble_min, min_s in *. destruct (init =? -1) eqn:E1; [lia|]. destruct (v =? -1) eqn:E2; lia.
    + unfold ble_min, min_s in *. destruct Hm as [->|[<-|Hm]]; auto.
      * left. destruct (init =? -1) eqn:E1; [lia|]. destruct (v =? -1) eqn:E2; lia.
      * left. destruct (init =? -1) eqn:E1; [lia|]. destruct (v =? -1) eqn:E2; lia.
    + intros x Hx. apply Ha. now right.
Qed.

Theorem min_exact : forall l init ts sched,
  (forall t, In t ts -> cas_only min_skip l (t_secs t) = true /\ t_si t = 0%nat /\ t_pc t = 0%nat) ->
  (init l = -1 \/ 0 <= init l) -> (forall x, In x (all_recorded l ts) -> 0 <= x) ->
  let c := run (init, ts) sched in
  all_done (snd c) = true -> fst c l = minZ (init l) (all_recorded l ts).
Proof.
  intros l init ts sched H Hi Hv c Hd.
  destruct (rmw_best ble_min min_skip l (fun x => 0 <= x)) with (init := init) (ts := ts) (sched := sched) as (A & B & C); auto.
  - unfold ble_min. intros a. destruct (Z.eq_dec a (-1)); [left|right]; lia.
  - unfold ble_min. intros; lia.
  - intros args regs v Hr He. cbn in He. rewrite (eval_reg_free _ _ _ Hr) in He. unfold ble_min, nthZ in *. lia.
  - intros args regs v Hr Hd0 He. cbn in He. rewrite (eval_reg_free _ _ _ Hr) in He. unfold ble_min, nthZ in *. lia.
  - fold c in A, B, C. apply minZ_char; auto.
Qed.

(* ---------------------------------------------------------------------------------------------- *)
(* load-compare-store: two threads lose the extreme *)

Definition lcs_sec (skip : expr -> cond) (l : loc) : section :=
  {| s_cond := CTrue; s_loc := l; s_body := BRmw (lcs_prog (skip (EArg 0)) (EArg 0)) |}.

Definition lcs_witness_sched : list nat := [0; 1; 0; 0; 0; 1; 1; 1]%nat.

(* thread 0 records 200, thread 1 records 100, both load the old maximum 0 first; thread 1 stores last *)
Lemma max_lcs_refuted : exists ts sched,
  let c := run (fun _ => 0, ts) sched in
  (forall t, In t ts -> t_secs t = [lcs_sec max_skip 7%N] /\ t_si t = 0%nat /\ t_pc t = 0%nat) /\
  all_done (snd c) = true /\ fst c 7%N <> maxZ 0 (concat (map (recorded_total 7%N) ts)).
Proof.
  exists [start [lcs_sec max_skip 7%N] [200]; start [lcs_sec max_skip 7%N] [100]], lcs_witness_sched.
  split; [|split].
  - intros t [<-|[<-|[]]]; repeat split.
  - vm_compute. reflexivity.
  - vm_compute. discriminate.
Qed.

(* thread 0 records 100, thread 1 records 200, both load "not set" first; thread 1 stores last *)
Lemma min_lcs_refuted : exists ts sched,
  let c := run (fun _ => -1, ts) sched in
  (forall t, In t ts -> t_secs t = [lcs_sec min_skip 7%N] /\ t_si t = 0%nat /\ t_pc t = 0%nat) /\
  all_done (snd c) = true /\ fst c 7%N <> minZ (-1) (concat (map (recorded_total 7%N) ts)).
Proof.
  exists [start [lcs_sec min_skip 7%N] [100]; start [lcs_sec min_skip 7%N] [200]], lcs_witness_sched.
  split; [|split].
  - intros t [<-|[<-|[]]]; repeat split.
  - vm_compute. reflexivity.
  - vm_compute. discriminate.
Qed.

(* a counter updated by atomic load then atomic store (x = x + n) loses an increment *)
Definition ls_incr_sec (l : loc) : section :=
  {| s_cond := CTrue; s_loc := l; s_body := BRmw [ILoad 0%nat; IStore (EAdd (EReg 0%nat) (EArg 0)); IRet] |}.

Lemma load_store_counter_refuted : exists ts sched,
  let c := run (fun _ => 0, ts) sched in
  all_done (snd c) = true /\ fst c 7%N <> 0 + sumZ (map (fun t => nthZ (t_args t) 0) ts).
Proof.
  exists [start [ls_incr_sec 7%N] [1]; start [ls_incr_sec 7%N] [1]], [0; 1; 0; 0; 1; 1]%nat.
  split; vm_compute; [reflexivity|discriminate].
Qed.

(* ---------------------------------------------------------------------------------------------- *)
(* the whole metrics struct: every translated Record function has the accepted shape for every location *)

Lemma prog_ok_role : forall roles secs l r, prog_ok roles secs = true -> In (l, r) roles -> role_ok secs (l, r) = true.
Proof.
  intros roles secs l r H Hin. unfold prog_ok in H. apply andb_true_iff in H. destruct H as [_ H].
  rewrite forallb_forall in H. now apply H.
Qed.

Theorem metrics_exact : forall roles progs,
  forallb (prog_ok roles) progs = true ->
  forall init ts sched,
    (forall t, In t ts -> In (t_secs t) progs /\ t_si t = 0%nat /\ t_pc t = 0%nat) ->
    let c := run (init, ts) sched in
    all_done (snd c) = true ->
    forall l r, In (l, r) roles ->
      match r with
      | RCounter => fst c l = init l + sumZ (map (contrib_total l) ts)
      | RMax => fst c l = maxZ (init l) (all_recorded l ts)
      | RMin => (init l = -1 \/ 0 <= init l) -> (forall x, In x (all_recorded l ts) -> 0 <= x) ->
                fst c l = minZ (init l) (all_recorded l ts)
      | RStamp => True
      end.
Proof.
  intros roles progs Hok init ts sched Hts c Hd l r Hin.
  rewrite forallb_forall in Hok.
  assert (Hr : forall t, In t ts -> role_ok (t_secs t) (l, r) = true).
  { intros t Ht. destruct (Hts t Ht) as (Hp & _ & _). eapply prog_ok_role; eauto. }
  destruct r; cbn [role_ok fst snd] in Hr.
  - apply counters_exact; auto. intros t Ht. destruct (Hts t Ht) as (_ & Hs & _). auto.
  - apply max_exact; auto. intros t Ht. destruct (Hts t Ht) as (_ & Hs & Hp). auto.
  - intros Hi Hv. apply min_exact; auto. intros t Ht. destruct (Hts t Ht) as (_ & Hs & Hp). auto.
  - exact I.
Qed.
