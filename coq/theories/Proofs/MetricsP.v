(* MetricsP.v — proofs about Model/Metrics.v: counters are exact and CAS-loop extreme-value updates are
   exact, for every schedule and any number of threads; load-compare-store updates are refuted. *)
From Coq Require Import List ZArith NArith Bool Arith Lia ZifyNat ZifyN ZifyBool.
From GV Require Import Model.Metrics.
Import ListNotations.
Local Open Scope Z_scope.

(* ---------------------------------------------------------------------------------------------- *)
(* lists of threads *)

Lemma nth_error_set_thread_eq : forall ts n t t0, nth_error ts n = Some t0 -> nth_error (set_thread ts n t) n = Some t.
Proof.
  induction ts as [|h r IH]; intros [|n] t t0 H; cbn in *; try discriminate; auto.
  eapply IH; eauto.
Qed.

Lemma in_set_thread : forall ts n t x, In x (set_thread ts n t) -> x = t \/ In x ts.
Proof.
  induction ts as [|h r IH]; intros [|n] t x H; cbn in *; auto.
  - destruct H; auto.
  - destruct H as [H|H]; auto. apply IH in H. tauto.
Qed.

Lemma in_set_thread_new : forall ts n t t0, nth_error ts n = Some t0 -> In t (set_thread ts n t).
Proof.
  induction ts as [|h r IH]; intros [|n] t t0 H; cbn in *; try discriminate; auto.
  right. eapply IH; eauto.
Qed.

Lemma in_old_set_thread : forall ts n t t0 x, nth_error ts n = Some t0 -> In x ts -> x = t0 \/ In x (set_thread ts n t).
Proof.
  induction ts as [|h r IH]; intros [|n] t t0 x H Hx; cbn in *; try discriminate.
  - inversion H; subst. destruct Hx; auto.
  - destruct Hx as [Hx|Hx]; auto. destruct (IH n t t0 x H Hx); auto.
Qed.

Lemma sum_set_thread : forall (f : thread -> Z) ts n t t0,
  nth_error ts n = Some t0 -> sumZ (map f (set_thread ts n t)) = sumZ (map f ts) - f t0 + f t.
Proof.
  unfold sumZ. induction ts as [|h r IH]; intros [|n] t t0 H; cbn in *; try discriminate.
  - inversion H; subst. lia.
  - rewrite (IH n t t0 H). lia.
Qed.

Lemma map_set_thread_same : forall (A : Type) (f : thread -> A) ts n t t0,
  nth_error ts n = Some t0 -> f t = f t0 -> map f (set_thread ts n t) = map f ts.
Proof.
  induction ts as [|h r IH]; intros [|n] t t0 H E; cbn in *; try discriminate.
  - inversion H; subst. now rewrite E.
  - f_equal. eapply IH; eauto.
Qed.

Lemma run_inv : forall (P : config -> Prop),
  (forall c tid, P c -> P (step c tid)) -> forall sched c, P c -> P (run c sched).
Proof.
  intros P Hs sched. induction sched as [|a r IH]; intros c Hc; cbn; auto.
  apply IH. apply Hs. exact Hc.
Qed.

(* the code (sections, arguments) of a thread never changes *)
Definition code (t : thread) := (t_secs t, t_args t).

Lemma step_thread_code : forall m t, code (snd (step_thread m t)) = code t.
Proof.
  intros m t. unfold step_thread.
  destruct (nth_error (t_secs t) (t_si t)) as [s|]; auto.
  destruct (negb _); auto.
  destruct (s_body s) as [e|e|p|]; auto.
  destruct (nth_error p (t_pc t)) as [i|]; auto.
  destruct i; cbn; auto. destruct (_ =? _); auto.
Qed.

Lemma step_code : forall c tid, map code (snd (step c tid)) = map code (snd c).
Proof.
  intros [m ts] tid. unfold step. cbn [snd fst].
  destruct (nth_error ts tid) as [t|] eqn:E; auto.
  pose proof (step_thread_code m t) as H. destruct (step_thread m t) as [m' t']. cbn [snd] in *.
  eapply map_set_thread_same; eauto.
Qed.

Lemma run_code : forall sched c, map code (snd (run c sched)) = map code (snd c).
Proof.
  intros sched c. apply (run_inv (fun c' => map code (snd c') = map code (snd c))); auto.
  intros c' tid H. now rewrite step_code.
Qed.

Lemma firstn_done : forall t, done t = true -> firstn (t_si t) (t_secs t) = t_secs t.
Proof. intros t H. unfold done in H. apply firstn_all2. lia. Qed.

Lemma firstn_snoc : forall (A : Type) (l : list A) n x, nth_error l n = Some x -> firstn (S n) l = firstn n l ++ [x].
Proof.
  induction l as [|h r IH]; intros [|n] x H; cbn in *; try discriminate.
  - now inversion H.
  - f_equal. now apply IH.
Qed.

(* ---------------------------------------------------------------------------------------------- *)
(* counters: a location that is only ever atomically added to holds init + the sum of all adds *)

Lemma contrib_app : forall l args a b, contrib l args (a ++ b) = contrib l args a + contrib l args b.
Proof. induction a as [|s r IH]; intros b; cbn [contrib app]; [lia|]. rewrite IH. lia. Qed.

Lemma upd_same : forall m l v, upd m l v l = v.
Proof. intros. unfold upd. now rewrite N.eqb_refl. Qed.
Lemma upd_other : forall m l l' v, l' <> l -> upd m l v l' = m l'.
Proof. intros. unfold upd. destruct (N.eqb_spec l' l); congruence. Qed.

Lemma add_only_nth : forall l secs n s, add_only l secs = true -> nth_error secs n = Some s -> s_loc s = l ->
  exists e, s_body s = BAdd e.
Proof.
  intros l secs n s H Hn Hl. unfold add_only in H. rewrite forallb_forall in H.
  specialize (H s (nth_error_In _ _ Hn)). subst l. rewrite N.eqb_refl in H. cbn in H.
  destruct (s_body s); try discriminate. eauto.
Qed.

Definition csf := contrib_so_far.

Lemma csf_at_pc : forall l t pc regs, csf l (at_pc t pc regs) = csf l t.
Proof. reflexivity. Qed.

Lemma csf_next : forall l t s, nth_error (t_secs t) (t_si t) = Some s ->
  csf l (next_sec t) = csf l t + contrib l (t_args t) [s].
Proof.
  intros l t s H. unfold csf, contrib_so_far, next_sec. cbn [t_secs t_args t_si].
  rewrite (firstn_snoc _ _ _ _ H), contrib_app. reflexivity.
Qed.

Lemma counter_step_thread : forall l m t m' t',
  add_only l (t_secs t) = true -> step_thread m t = (m', t') -> m' l - csf l t' = m l - csf l t.
Proof.
  intros l m t m' t' Ha Hs. unfold step_thread in Hs.
  destruct (nth_error (t_secs t) (t_si t)) as [s|] eqn:En; [|inversion Hs; subst; lia].
  destruct (N.eqb_spec (s_loc s) l) as [El|Nl].
  - destruct (add_only_nth _ _ _ _ Ha En El) as [e Hb].
    destruct (negb _) eqn:Ec.
    + inversion Hs; subst. rewrite (csf_next _ _ _ En). cbn [contrib].
      rewrite N.eqb_refl. apply negb_true_iff in Ec. rewrite Ec. cbn. lia.
    + rewrite Hb in Hs. inversion Hs; subst. rewrite (csf_next _ _ _ En). cbn [contrib].
      rewrite N.eqb_refl, Hb. apply negb_false_iff in Ec. rewrite Ec. cbn. rewrite upd_same. lia.
  - assert (Hc : contrib l (t_args t) [s] = 0).
    { cbn [contrib]. destruct (N.eqb_spec (s_loc s) l); [congruence|]. cbn. lia. }
    assert (Hl : l <> s_loc s) by congruence.
    destruct (negb _).
    { inversion Hs; subst. rewrite (csf_next _ _ _ En), Hc. lia. }
    destruct (s_body s) as [e|e|p|].
    + inversion Hs; subst. rewrite (csf_next _ _ _ En), Hc, upd_other by auto. lia.
    + inversion Hs; subst. rewrite (csf_next _ _ _ En), Hc, upd_other by auto. lia.
    + destruct (nth_error p (t_pc t)) as [i|].
      * destruct i; cbn [step_instr] in Hs;
          try (inversion Hs; subst; rewrite ?csf_at_pc, ?upd_other by auto; lia).
        -- destruct (_ =? _); inversion Hs; subst; rewrite ?csf_at_pc, ?upd_other by auto; lia.
        -- inversion Hs; subst. rewrite (csf_next _ _ _ En), Hc. lia.
      * inversion Hs; subst. rewrite (csf_next _ _ _ En), Hc. lia.
    + inversion Hs; subst. rewrite (csf_next _ _ _ En), Hc. lia.
Qed.

Definition all_add_only (l : loc) (ts : list thread) : Prop := forall t, In t ts -> add_only l (t_secs t) = true.

Lemma counter_step : forall l c tid,
  all_add_only l (snd c) ->
  all_add_only l (snd (step c tid)) /\
  fst (step c tid) l - sumZ (map (csf l) (snd (step c tid))) = fst c l - sumZ (map (csf l) (snd c)).
Proof.
  intros l [m ts] tid Ha. unfold step. cbn [fst snd] in *.
  destruct (nth_error ts tid) as [t|] eqn:E; [|auto].
  destruct (step_thread m t) as [m' t'] eqn:Es. cbn [fst snd].
  pose proof (step_thread_code m t) as Hc. rewrite Es in Hc. cbn [snd] in Hc.
  assert (Ht : add_only l (t_secs t) = true) by (apply Ha; eapply nth_error_In; eauto).
  split.
  - intros x Hx. apply in_set_thread in Hx. destruct Hx as [->|Hx]; auto.
    unfold code in Hc. inversion Hc as [[H1 H2]]. now rewrite H1.
  - rewrite (sum_set_thread _ _ _ _ _ E). pose proof (counter_step_thread _ _ _ _ _ Ht Es). lia.
Qed.

Lemma contrib_total_code : forall l ts ts', map code ts = map code ts' ->
  map (contrib_total l) ts = map (contrib_total l) ts'.
Proof.
  induction ts as [|a r IH]; intros [|b r'] H; cbn in *; try discriminate; auto.
  inversion H as [[H1 H2 H3]]. unfold contrib_total at 1 3. rewrite H1, H2. f_equal. auto.
Qed.

Lemma csf_done : forall l ts, all_done ts = true -> map (csf l) ts = map (contrib_total l) ts.
Proof.
  intros l ts H. unfold all_done in H. rewrite forallb_forall in H.
  apply map_ext_in. intros t Ht. unfold csf, contrib_so_far, contrib_total. now rewrite firstn_done by auto.
Qed.

Lemma csf_start : forall l ts, (forall t, In t ts -> t_si t = 0%nat) -> sumZ (map (csf l) ts) = 0.
Proof.
  induction ts as [|a r IH]; intros H; [reflexivity|].
  change (csf l a + sumZ (map (csf l) r) = 0).
  rewrite IH by (intros; apply H; now right).
  unfold csf, contrib_so_far. rewrite (H a) by now left. reflexivity.
Qed.

(* any number of threads, any schedule: after quiescence a counter equals its initial value plus every add of
   every call *)
Theorem counters_exact : forall l init ts sched,
  (forall t, In t ts -> add_only l (t_secs t) = true /\ t_si t = 0%nat) ->
  let c := run (init, ts) sched in
  all_done (snd c) = true -> fst c l = init l + sumZ (map (contrib_total l) ts).
Proof.
  intros l init ts sched H c Hd.
  assert (Hinv : all_add_only l (snd c) /\ fst c l - sumZ (map (csf l) (snd c)) = init l - sumZ (map (csf l) ts)).
  { subst c. apply (run_inv (fun c' => all_add_only l (snd c') /\
        fst c' l - sumZ (map (csf l) (snd c')) = init l - sumZ (map (csf l) ts))).
    - intros c' tid [Ha He]. destruct (counter_step l c' tid Ha) as [Ha' He']. split; auto. lia.
    - split; [intros t Ht; apply H; auto | reflexivity]. }
  destruct Hinv as [_ He].
  rewrite (csf_start l ts) in He by (intros; apply H; auto).
  rewrite (csf_done _ _ Hd) in He.
  rewrite (contrib_total_code l (snd c) ts) in He by (subst c; apply run_code).
  lia.
Qed.

(* and at every moment (not only at quiescence) the counter equals the adds executed so far *)
Theorem counters_exact_always : forall l init ts sched,
  (forall t, In t ts -> add_only l (t_secs t) = true /\ t_si t = 0%nat) ->
  let c := run (init, ts) sched in
  fst c l = init l + sumZ (map (contrib_so_far l) (snd c)).
Proof.
  intros l init ts sched H c.
  assert (Hinv : all_add_only l (snd c) /\ fst c l - sumZ (map (csf l) (snd c)) = init l - sumZ (map (csf l) ts)).
  { subst c. apply (run_inv (fun c' => all_add_only l (snd c') /\
        fst c' l - sumZ (map (csf l) (snd c')) = init l - sumZ (map (csf l) ts))).
    - intros c' tid [Ha He]. destruct (counter_step l c' tid Ha) as [Ha' He']. split; auto. lia.
    - split; [intros t Ht; apply H; auto | reflexivity]. }
  destruct Hinv as [_ He]. rewrite (csf_start l ts) in He by (intros; apply H; auto). unfold csf in He. lia.
Qed.

(* ---------------------------------------------------------------------------------------------- *)
(* extreme-value updates by a CAS loop, generically in the order ("a is at least as good as b") *)

Lemma eval_reg_free : forall args regs v, reg_free v = true -> eval args regs v = eval args [] v.
Proof.
  induction v; cbn; intros H; auto; try discriminate.
  apply andb_true_iff in H. destruct H. now rewrite IHv1, IHv2.
Qed.

Lemma nthZ_set_same : forall rs n v, nthZ (set_nth rs n v) n = v.
Proof. intros rs n; revert rs. induction n; intros [|h t] v; cbn; auto; apply IHn. Qed.
Lemma nthZ_set_other : forall rs n k v, n <> k -> nthZ (set_nth rs n v) k = nthZ rs k.
Proof.
  intros rs n; revert rs. induction n; intros [|h t] [|k] v H; cbn; auto; try congruence.
  - destruct k; reflexivity.
  - unfold nthZ in IHn. rewrite IHn by congruence. destruct k; reflexivity.
  - apply IHn. congruence.
Qed.

(* known registers *)
Definition kok (k : list (reg * Z)) (regs : list Z) : Prop := forall r z, In (r, z) k -> nthZ regs r = z.

Lemma klook_in : forall k r z, klook k r = Some z -> In (r, z) k.
Proof.
  induction k as [|[r' z'] t IH]; intros r z H; cbn in H; [discriminate|].
  destruct (Nat.eqb_spec r' r) as [->|N]; [inversion H; now left|right; auto].
Qed.

Lemma in_kdel : forall k r r' z, In (r', z) (kdel k r) -> r' <> r /\ In (r', z) k.
Proof.
  intros k r r' z H. unfold kdel in H. apply filter_In in H. destruct H as [H1 H2]. cbn in H2.
  split; auto. intros ->. rewrite Nat.eqb_refl in H2. discriminate.
Qed.

Lemma in_kins : forall k r z r' z', In (r', z') (kins k r z) -> (r', z') = (r, z) \/ In (r', z') k.
Proof.
  induction k as [|[a b] t IH]; intros r z r' z' H; cbn [kins] in H.
  - destruct H as [H|[]]. left. congruence.
  - destruct (r <? a)%nat.
    + destruct H as [H|H]; [left; congruence|auto].
    + destruct H as [H|H]; [right; now left|]. apply IH in H. destruct H; auto. right. now right.
Qed.

Lemma kok_kdel : forall k regs r x, kok k regs -> kok (kdel k r) (set_nth regs r x).
Proof.
  intros k regs r x H r' z Hin. apply in_kdel in Hin. destruct Hin as [N Hin].
  rewrite nthZ_set_other by congruence. auto.
Qed.

Lemma kok_kset : forall k regs r x, kok k regs -> kok (kset k r x) (set_nth regs r x).
Proof.
  intros k regs r x H r' z Hin. unfold kset in Hin. apply in_kins in Hin. destruct Hin as [E|Hin].
  - inversion E; subst. apply nthZ_set_same.
  - now apply (kok_kdel k regs r x H).
Qed.

Lemma keval_sound : forall k args regs e z, kok k regs -> keval k e = Some z -> eval args regs e = z.
Proof.
  intros k args regs e. induction e as [n|r|c|a IHa b IHb]; intros z Hk H; cbn in *; try discriminate.
  - apply Hk. now apply klook_in.
  - now inversion H.
  - destruct (keval k a) as [x|]; [|discriminate]. destruct (keval k b) as [y|]; [|discriminate].
    inversion H; subst. now rewrite (IHa x), (IHb y).
Qed.

Lemma expr_eqb_eq : forall a b, expr_eqb a b = true -> a = b.
Proof. intros a b H. unfold expr_eqb in H. destruct (expr_eq_dec a b); [auto|discriminate]. Qed.
Lemma is_reg_eq : forall rc e, is_reg rc e = true -> e = EReg rc.
Proof. intros rc [n|r|c|a b] H; cbn in H; try discriminate. apply Nat.eqb_eq in H. now subst. Qed.
Lemma is_const_eq : forall z e, is_const z e = true -> e = EConst z.
Proof. intros z [n|r|c|a b] H; cbn in H; try discriminate. apply Z.eqb_eq in H. now subst. Qed.
Lemma pt_is_true : forall a b, pt_is a b = true <-> a = b.
Proof. intros a b. unfold pt_is. destruct (pt_eq_dec a b); split; intros; auto; discriminate. Qed.

Lemma mem_st_in : forall x R, mem_st x R = true -> In x R.
Proof.
  intros [pc s] R H. unfold mem_st in H. apply existsb_exists in H. destruct H as ([pc' s'] & Hin & H). cbn in H.
  apply andb_true_iff in H. destruct H as [H1 H2]. apply Nat.eqb_eq in H1.
  destruct (astate_eq_dec s s'); [|discriminate]. now subst.
Qed.

Section RmwBest.
  Variable ble : Z -> Z -> Prop.            (* ble a b : a is at least as good as b *)
  Variable o : ospec.
  Variable in_pt : pt -> Z -> Z -> Prop.     (* in_pt q cur val : the pair (loaded value, candidate) lies in point q *)
  Variable l : loc.
  Variable dom : Z -> Prop.                  (* the values that may be recorded (sizes are not the sentinel) *)
  Hypothesis ble_refl : forall a, ble a a.
  Hypothesis ble_trans : forall a b c, ble a b -> ble b c -> ble a c.
  Hypothesis cover : forall cur val, dom val -> exists q, In q (o_points o) /\ in_pt q cur val.
  Hypothesis atom_sound : forall q rc v args regs c b, reg_free v = true ->
    in_pt q (nthZ regs rc) (eval args [] v) -> atom o q rc v c = Some b -> evalc args regs c = b.
  Hypothesis improves_sound : forall q cur val, in_pt q cur val -> o_improves o q = true -> ble val cur.
  Hypothesis skipok_sound : forall q cur val, in_pt q cur val -> o_skipok o q = true -> ble cur val.
  Hypothesis skipok_complete : forall q cur val, dom val -> in_pt q cur val -> ble cur val -> o_skipok o q = true.

  (* what an abstract state says about a concrete one (m: current value of the location) *)
  Definition desc (m : Z) (args regs : list Z) (v : expr) (s : astate) : Prop :=
    kok (a_known s) regs /\
    match a_phase s with
    | PIdle => True
    | PLoaded rc pts => ble m (nthZ regs rc) /\ exists q, In q pts /\ in_pt q (nthZ regs rc) (eval args [] v)
    | PGood => ble m (eval args [] v)
    end.

  Lemma desc_weaken : forall m m' args regs v s, ble m' m -> desc m args regs v s -> desc m' args regs v s.
  Proof.
    intros m m' args regs v s Hb [Hk Hp]. split; [exact Hk|]. destruct (a_phase s) as [|rc pts|]; auto.
    - destruct Hp as [H1 H2]. split; auto. eapply ble_trans; eauto.
    - eapply ble_trans; eauto.
  Qed.

  Lemma aevalc_sound : forall args regs v k lp c b, reg_free v = true -> kok k regs ->
    (forall rc q, lp = Some (rc, q) -> in_pt q (nthZ regs rc) (eval args [] v)) ->
    aevalc o k lp v c = Some b -> evalc args regs c = b.
  Proof.
    intros args regs v k lp c. induction c as [|a b0|a b0|c IH|c1 IH1 c2 IH2|c1 IH1 c2 IH2]; intros b Hv Hk Hlp H.
    - cbn in H. now inversion H.
    - cbn [aevalc] in H. cbn [evalc].
      destruct (keval k a) as [x|] eqn:Ea; [destruct (keval k b0) as [y|] eqn:Eb|].
      + inversion H. now rewrite (keval_sound _ args _ _ _ Hk Ea), (keval_sound _ args _ _ _ Hk Eb).
      + destruct lp as [[rc q]|]; [|discriminate]. exact (atom_sound q rc v args regs (CLt a b0) b Hv (Hlp _ _ eq_refl) H).
      + destruct lp as [[rc q]|]; [|discriminate]. exact (atom_sound q rc v args regs (CLt a b0) b Hv (Hlp _ _ eq_refl) H).
    - cbn [aevalc] in H. cbn [evalc].
      destruct (keval k a) as [x|] eqn:Ea; [destruct (keval k b0) as [y|] eqn:Eb|].
      + inversion H. now rewrite (keval_sound _ args _ _ _ Hk Ea), (keval_sound _ args _ _ _ Hk Eb).
      + destruct lp as [[rc q]|]; [|discriminate]. exact (atom_sound q rc v args regs (CEq a b0) b Hv (Hlp _ _ eq_refl) H).
      + destruct lp as [[rc q]|]; [|discriminate]. exact (atom_sound q rc v args regs (CEq a b0) b Hv (Hlp _ _ eq_refl) H).
    - cbn [aevalc] in H. cbn [evalc]. destruct (aevalc o k lp v c) as [x|]; [|discriminate]. cbn in H. inversion H.
      now rewrite (IH x).
    - cbn [aevalc] in H. cbn [evalc].
      destruct (aevalc o k lp v c1) as [[|]|]; destruct (aevalc o k lp v c2) as [[|]|]; cbn in H; inversion H;
        rewrite ?(IH1 _ Hv Hk Hlp eq_refl), ?(IH2 _ Hv Hk Hlp eq_refl); auto using andb_false_r.
    - cbn [aevalc] in H. cbn [evalc].
      destruct (aevalc o k lp v c1) as [[|]|]; destruct (aevalc o k lp v c2) as [[|]|]; cbn in H; inversion H;
        rewrite ?(IH1 _ Hv Hk Hlp eq_refl), ?(IH2 _ Hv Hk Hlp eq_refl); auto using orb_true_r.
  Qed.

  Lemma exit_ok_sound : forall m args regs v s, exit_ok o (a_phase s) = true -> desc m args regs v s -> ble m (eval args [] v).
  Proof.
    intros m args regs v s He [_ Hp]. destruct (a_phase s) as [|rc pts|]; cbn in He; [discriminate| |exact Hp].
    destruct Hp as [H1 (q & Hq & Hin)]. rewrite forallb_forall in He. eapply ble_trans; [exact H1|]. eapply skipok_sound; eauto.
  Qed.

  Lemma in_succ_if : forall (q : pt) pts x, In q pts -> In x (succ_if pts x).
  Proof. intros q [|a r] x H; [destruct H|now left]. Qed.

  Opaque set_nth.
  (* one concrete instruction against the abstract step *)
  Lemma astep_sound : forall p v s succs m t i,
    reg_free v = true -> dom (eval (t_args t) [] v) ->
    nth_error p (t_pc t) = Some i -> i <> IRet ->
    astep o p v (t_pc t) s = Some succs ->
    desc (m l) (t_args t) (t_regs t) v s ->
    forall m' t', step_instr m t l i = (m', t') ->
    ble (m' l) (m l) /\ (m' l = m l \/ m' l = eval (t_args t) [] v) /\
    (forall l', l' <> l -> m' l' = m l') /\ t_secs t' = t_secs t /\ t_args t' = t_args t /\ t_si t' = t_si t /\
    exists s', In (t_pc t', s') succs /\ desc (m' l) (t_args t) (t_regs t') v s'.
  Proof.
    intros p v s succs m t i Hv Hdom Hi Hnr Ha [Hk Hp] m' t' Hs.
    unfold astep in Ha. rewrite Hi in Ha.
    destruct i as [r|e|e|r old new|r e|c tg|tg|]; cbn [step_instr] in Hs; try discriminate; try congruence.
    - (* load *)
      inversion Hs; subst m' t'; clear Hs. inversion Ha; subst succs; clear Ha.
      split; [apply ble_refl|]. split; [now left|]. split; [auto|]. cbn [at_pc t_secs t_args t_si t_pc t_regs]. repeat (split; [reflexivity|]).
      eexists. split; [now left|]. split; cbn [a_known a_phase].
      + now apply kok_kdel.
      + destruct (a_phase s) as [|rc pts|].
        * rewrite nthZ_set_same. split; [apply ble_refl|]. now apply cover.
        * rewrite nthZ_set_same. split; [apply ble_refl|]. now apply cover.
        * rewrite nthZ_set_same. split; [apply ble_refl|].
          destruct (cover (m l) (eval (t_args t) [] v) Hdom) as (q & Hq & Hin). exists q. split; [|exact Hin].
          apply filter_In. split; [exact Hq|]. eapply skipok_complete; eauto.
    - (* cas *)
      destruct (a_phase s) as [|rc pts|] eqn:Eph; try discriminate.
      destruct (is_reg rc old && expr_eqb new v && forallb (o_improves o) pts) eqn:Ec; [|discriminate].
      apply andb_true_iff in Ec. destruct Ec as [Ec Himp]. apply andb_true_iff in Ec. destruct Ec as [Eo En].
      apply is_reg_eq in Eo. apply expr_eqb_eq in En. subst old new. inversion Ha; subst succs; clear Ha.
      destruct Hp as [Hcur (q & Hq & Hin)]. rewrite forallb_forall in Himp.
      cbn [eval] in Hs. fold (nthZ (t_regs t) rc) in Hs. rewrite (eval_reg_free _ _ _ Hv) in Hs.
      destruct (m l =? nthZ (t_regs t) rc) eqn:Ecas.
      + inversion Hs; subst m' t'; clear Hs. rewrite upd_same. apply Z.eqb_eq in Ecas.
        split; [rewrite Ecas; eapply improves_sound; eauto|]. split; [now right|].
        split; [intros l' Hl'; now apply upd_other|]. cbn [at_pc t_secs t_args t_si t_pc t_regs]. repeat (split; [reflexivity|]).
        eexists. split; [now left|]. split; cbn [a_known a_phase]; [now apply kok_kset|apply ble_refl].
      + inversion Hs; subst m' t'; clear Hs.
        split; [apply ble_refl|]. split; [now left|]. split; [auto|]. cbn [at_pc t_secs t_args t_si t_pc t_regs]. repeat (split; [reflexivity|]).
        eexists. split; [right; now left|]. split; cbn [a_known a_phase]; [now apply kok_kset|exact I].
    - (* set *)
      inversion Hs; subst m' t'; clear Hs. inversion Ha; subst succs; clear Ha.
      split; [apply ble_refl|]. split; [now left|]. split; [auto|]. cbn [at_pc t_secs t_args t_si t_pc t_regs]. repeat (split; [reflexivity|]).
      eexists. split; [now left|]. split; cbn [a_known a_phase].
      + destruct (keval (a_known s) e) as [z|] eqn:Ek.
        * rewrite (keval_sound _ (t_args t) _ _ _ Hk Ek). now apply kok_kset.
        * now apply kok_kdel.
      + destruct (a_phase s) as [|rc pts|]; auto.
        destruct (Nat.eqb_spec rc r) as [->|N]; [exact I|]. rewrite nthZ_set_other by congruence. exact Hp.
    - (* conditional jump *)
      inversion Hs; subst m' t'; clear Hs.
      split; [apply ble_refl|]. split; [now left|]. split; [auto|]. cbn [at_pc t_secs t_args t_si t_pc t_regs]. repeat (split; [reflexivity|]).
      destruct (a_phase s) as [|rc pts|] eqn:Eph.
      + pose proof (aevalc_sound (t_args t) (t_regs t) v (a_known s) None c) as Hsnd.
        destruct (aevalc o (a_known s) None v c) as [[|]|] eqn:Eev; inversion Ha; subst succs; clear Ha.
        * rewrite (Hsnd true) by (auto; intros; discriminate). exists s. split; [now left|]. split; [auto|now rewrite Eph].
        * rewrite (Hsnd false) by (auto; intros; discriminate). exists s. split; [now left|]. split; [auto|now rewrite Eph].
        * exists s. split; [destruct (evalc _ _ c); [now left|right; now left]|]. split; [auto|now rewrite Eph].
      + inversion Ha; subst succs; clear Ha. destruct Hp as [Hcur (q & Hq & Hin)].
        assert (Hsnd : forall b, aevalc o (a_known s) (Some (rc, q)) v c = Some b -> evalc (t_args t) (t_regs t) c = b).
        { intros b. apply aevalc_sound; auto. intros rc' q' E. inversion E; subst. exact Hin. }
        destruct (evalc (t_args t) (t_regs t) c) eqn:Eev.
        * assert (Hq' : In q (filter (fun q0 => not_false (aevalc o (a_known s) (Some (rc, q0)) v c)) pts)).
          { apply filter_In. split; auto. destruct (aevalc o (a_known s) (Some (rc, q)) v c) as [[|]|] eqn:E; auto.
            specialize (Hsnd false eq_refl). discriminate. }
          eexists. split; [apply in_or_app; left; eapply in_succ_if; exact Hq'|].
          split; cbn [a_known a_phase]; auto. split; auto. exists q. auto.
        * assert (Hq' : In q (filter (fun q0 => not_true (aevalc o (a_known s) (Some (rc, q0)) v c)) pts)).
          { apply filter_In. split; auto. destruct (aevalc o (a_known s) (Some (rc, q)) v c) as [[|]|] eqn:E; auto. }
          eexists. split; [apply in_or_app; right; eapply in_succ_if; exact Hq'|].
          split; cbn [a_known a_phase]; auto. split; auto. exists q. auto.
      + pose proof (aevalc_sound (t_args t) (t_regs t) v (a_known s) None c) as Hsnd.
        destruct (aevalc o (a_known s) None v c) as [[|]|] eqn:Eev; inversion Ha; subst succs; clear Ha.
        * rewrite (Hsnd true) by (auto; intros; discriminate). exists s. split; [now left|]. split; [auto|now rewrite Eph].
        * rewrite (Hsnd false) by (auto; intros; discriminate). exists s. split; [now left|]. split; [auto|now rewrite Eph].
        * exists s. split; [destruct (evalc _ _ c); [now left|right; now left]|]. split; [auto|now rewrite Eph].
    - (* jump *)
      inversion Hs; subst m' t'; clear Hs. inversion Ha; subst succs; clear Ha.
      split; [apply ble_refl|]. split; [now left|]. split; [auto|]. cbn [at_pc t_secs t_args t_si t_pc t_regs]. repeat (split; [reflexivity|]).
      exists s. split; [now left|]. split; auto.
  Qed.
  Transparent set_nth.

  (* shape of a section on l *)
  Lemma cas_sec_shape : forall secs n s, cas_only o l secs = true -> nth_error secs n = Some s -> s_loc s = l ->
    exists p v, s_cond s = CTrue /\ s_body s = BRmw p /\ operand p = Some v /\ reg_free v = true /\ is_rmw_loop o p v = true.
  Proof.
    intros secs n s H Hn Hl. unfold cas_only in H. rewrite forallb_forall in H.
    specialize (H s (nth_error_In _ _ Hn)). unfold is_cas_sec in H. rewrite Hl, N.eqb_refl in H. cbn [negb orb] in H.
    destruct (s_cond s); try discriminate. destruct (s_body s) as [| |p|]; try discriminate.
    destruct (operand p) as [v|] eqn:Eo; try discriminate.
    apply andb_true_iff in H. destruct H as [Hr Hp]. exists p, v. auto.
  Qed.

  Lemma rmw_loop_start : forall p v, is_rmw_loop o p v = true ->
    exists R, closed o p v R = true /\ In (0%nat, astate0) R.
  Proof.
    intros p v H. unfold is_rmw_loop in H. destruct (reach _ _ _ _ _ _) as [R|]; [|discriminate].
    apply andb_true_iff in H. destruct H as [H1 H2]. exists R. split; auto. now apply mem_st_in.
  Qed.

  Lemma closed_step : forall p v R pc s, closed o p v R = true -> In (pc, s) R ->
    exists succs, astep o p v pc s = Some succs /\ forall x, In x succs -> In x R.
  Proof.
    intros p v R pc s H Hin. unfold closed in H. rewrite forallb_forall in H. specialize (H _ Hin). cbn [fst snd] in H.
    destruct (astep o p v pc s) as [succs|]; [|discriminate]. exists succs. split; auto.
    rewrite forallb_forall in H. intros x Hx. apply mem_st_in. auto.
  Qed.

  (* the invariant of a thread inside a section on l: its control state is described by a state of a closed set *)
  Definition sec_inv (m : Z) (t : thread) : Prop :=
    forall s p v, nth_error (t_secs t) (t_si t) = Some s -> s_loc s = l -> s_body s = BRmw p -> operand p = Some v ->
      exists R s', closed o p v R = true /\ In (t_pc t, s') R /\ desc m (t_args t) (t_regs t) v s'.

  Definition thread_ok (m : Z) (t : thread) : Prop :=
    (cas_only o l (t_secs t) = true /\ forall x, In x (recorded_total l t) -> dom x) /\
    (forall x, In x (recorded_so_far l t) -> ble m x) /\ sec_inv m t.

  Lemma recorded_app : forall args a b, recorded l args (a ++ b) = recorded l args a ++ recorded l args b.
  Proof. induction a as [|s r IH]; intros b; cbn [recorded app]; auto. now rewrite IH, app_assoc. Qed.

  Lemma rsf_next : forall t s, nth_error (t_secs t) (t_si t) = Some s ->
    recorded_so_far l (next_sec t) = recorded_so_far l t ++ recorded l (t_args t) [s].
  Proof.
    intros t s H. unfold recorded_so_far, next_sec. cbn [t_secs t_args t_si].
    now rewrite (firstn_snoc _ _ _ _ H), recorded_app.
  Qed.

  Lemma recorded_other : forall args s, s_loc s <> l -> recorded l args [s] = [].
  Proof. intros args s H. cbn. destruct (N.eqb_spec (s_loc s) l); [congruence|reflexivity]. Qed.

  Lemma recorded_one : forall args s p v, s_loc s = l -> s_body s = BRmw p -> operand p = Some v ->
    recorded l args [s] = [eval args [] v].
  Proof. intros args s p v Hl Hb Ho. cbn. rewrite Hl, N.eqb_refl, Hb, Ho. reflexivity. Qed.

  Lemma recorded_in : forall args secs n s p v, nth_error secs n = Some s -> s_loc s = l -> s_body s = BRmw p ->
    operand p = Some v -> In (eval args [] v) (recorded l args secs).
  Proof.
    induction secs as [|s0 r IH]; intros [|n] s p v H Hl Hb Ho; cbn in H; try discriminate.
    - inversion H as [E0]. subst s0. change (s :: r) with ([s] ++ r). rewrite recorded_app, (recorded_one _ _ _ _ Hl Hb Ho). now left.
    - change (s0 :: r) with ([s0] ++ r). rewrite recorded_app. apply in_or_app. right. eauto.
  Qed.

  Lemma sec_inv_next : forall m t, cas_only o l (t_secs t) = true -> sec_inv m (next_sec t).
  Proof.
    intros m t Hc s p v En Hl Hb Ho. cbn [next_sec t_secs t_si t_pc t_regs t_args] in *.
    destruct (cas_sec_shape _ _ _ Hc En Hl) as (p' & v' & _ & Hb' & Ho' & _ & Hloop).
    rewrite Hb in Hb'. inversion Hb'; subst p'. rewrite Ho in Ho'. inversion Ho'; subst v'.
    destruct (rmw_loop_start _ _ Hloop) as (R & Hcl & Hin). exists R, astate0. split; [auto|]. split; [auto|].
    split; [intros r z []|exact I].
  Qed.

  Lemma sec_inv_other : forall m t s pc regs, nth_error (t_secs t) (t_si t) = Some s -> s_loc s <> l -> sec_inv m (at_pc t pc regs).
  Proof.
    intros m t s pc regs En Nl s0 p v E0 Hl _ _. cbn [at_pc t_secs t_si] in E0. rewrite En in E0. inversion E0; subst. congruence.
  Qed.

  (* one step of a thread that satisfies its invariant: the value of l only improves, changes only to a value
     recorded by this thread, and the thread's invariant holds again *)
  Lemma rmw_step_thread : forall m t m' t',
    thread_ok (m l) t -> step_thread m t = (m', t') ->
    ble (m' l) (m l) /\ (m' l = m l \/ In (m' l) (recorded_total l t)) /\ thread_ok (m' l) t'.
  Proof.
    intros m t m' t' (Hcd & Hr & Hi) Hs. pose proof Hcd as [Hc Hd].
    assert (Hnext : forall s, nth_error (t_secs t) (t_si t) = Some s ->
              (forall x, In x (recorded l (t_args t) [s]) -> ble (m l) x) -> thread_ok (m l) (next_sec t)).
    { intros s En Hx. split; [exact Hcd|]. split; [|now apply sec_inv_next].
      intros x Hin. rewrite (rsf_next _ _ En) in Hin. apply in_app_or in Hin. destruct Hin; auto. }
    unfold step_thread in Hs.
    destruct (nth_error (t_secs t) (t_si t)) as [s|] eqn:En.
    2:{ inversion Hs; subst. split; [apply ble_refl|]. split; [now left|]. exact (conj Hcd (conj Hr Hi)). }
    specialize (Hnext s eq_refl).
    destruct (N.eqb_spec (s_loc s) l) as [El|Nl].
    - (* a section on l: a retry loop of the class *)
      destruct (cas_sec_shape _ _ _ Hc En El) as (p & v & Hcond & Hbody & Hop & Hrf & Hloop).
      destruct (Hi s p v En El Hbody Hop) as (R & s0 & Hcl & Hin & Hdesc).
      assert (Hdv : dom (eval (t_args t) [] v)) by (apply Hd; unfold recorded_total; eapply recorded_in; eauto).
      destruct (closed_step _ _ _ _ _ Hcl Hin) as (succs & Hst & Hsub).
      rewrite Hcond in Hs. cbn [evalc negb] in Hs. rewrite Hbody, El in Hs.
      assert (Hexit : exit_ok o (a_phase s0) = true -> ble (m l) (m l) /\ (m l = m l \/ In (m l) (recorded_total l t)) /\ thread_ok (m l) (next_sec t)).
      { intros He. split; [apply ble_refl|]. split; [now left|]. apply Hnext.
        rewrite (recorded_one _ _ _ _ El Hbody Hop). intros x [<-|[]]. eapply exit_ok_sound; eauto. }
      destruct (nth_error p (t_pc t)) as [i|] eqn:Ei.
      + destruct (instr_eq_dec i IRet) as [->|Nret].
        * cbn [step_instr] in Hs. inversion Hs; subst m' t'. apply Hexit.
          unfold astep in Hst. rewrite Ei in Hst. destruct (exit_ok o (a_phase s0)); [auto|discriminate].
        * destruct (astep_sound p v s0 succs m t i Hrf Hdv Ei Nret Hst Hdesc m' t' Hs)
            as (Hb & Hch & Hoth & Hsecs & Hargs & Hsi & s1 & Hin1 & Hd1).
          split; [exact Hb|]. split.
          { destruct Hch as [E|E]; [now left|right]. rewrite E. unfold recorded_total. eapply recorded_in; eauto. }
          split; [|split].
          -- unfold recorded_total. rewrite Hsecs, Hargs. exact Hcd.
          -- unfold recorded_so_far. rewrite Hsecs, Hargs, Hsi. intros x Hx. eapply ble_trans; [exact Hb|]. apply Hr. exact Hx.
          -- intros s' p' v' En' El' Hb' Ho'. rewrite Hsecs, Hsi, En in En'. inversion En'; subst s'.
             rewrite Hbody in Hb'. inversion Hb'; subst p'. rewrite Hop in Ho'. inversion Ho'; subst v'.
             exists R, s1. split; [auto|]. split; [auto|]. rewrite Hargs. exact Hd1.
      + inversion Hs; subst m' t'. apply Hexit.
        unfold astep in Hst. rewrite Ei in Hst. destruct (exit_ok o (a_phase s0)); [auto|discriminate].
    - (* a section on another location: l is untouched *)
      assert (Hl' : l <> s_loc s) by congruence.
      assert (Hrec : forall x, In x (recorded l (t_args t) [s]) -> ble (m l) x).
      { rewrite recorded_other by auto. intros x []. }
      assert (Hat : forall pc regs, thread_ok (m l) (at_pc t pc regs)).
      { intros pc regs. split; [exact Hcd|]. split; [exact Hr|]. eapply sec_inv_other; eauto. }
      destruct (negb _).
      { inversion Hs; subst. split; [apply ble_refl|]. split; [now left|]. apply (Hnext Hrec). }
      destruct (s_body s) as [e|e|p|].
      + inversion Hs; subst. rewrite upd_other by auto. split; [apply ble_refl|]. split; [now left|]. apply (Hnext Hrec).
      + inversion Hs; subst. rewrite upd_other by auto. split; [apply ble_refl|]. split; [now left|]. apply (Hnext Hrec).
      + destruct (nth_error p (t_pc t)) as [i|].
        * destruct i; cbn [step_instr] in Hs;
            try (inversion Hs; subst; rewrite ?upd_other by auto; split; [apply ble_refl|]; split; [now left|]; apply Hat).
          -- destruct (_ =? _); inversion Hs; subst; rewrite ?upd_other by auto; (split; [apply ble_refl|]; split; [now left|]; apply Hat).
          -- inversion Hs; subst. split; [apply ble_refl|]. split; [now left|]. apply (Hnext Hrec).
        * inversion Hs; subst. split; [apply ble_refl|]. split; [now left|]. apply (Hnext Hrec).
      + inversion Hs; subst. split; [apply ble_refl|]. split; [now left|]. apply (Hnext Hrec).
  Qed.

  Lemma thread_ok_weaken : forall m m' t, ble m' m -> thread_ok m t -> thread_ok m' t.
  Proof.
    intros m m' t Hb (A & C & D). split; [exact A|]. split.
    - intros x Hx. eapply ble_trans; [exact Hb|]. auto.
    - intros s p v En El Hbd Ho. destruct (D s p v En El Hbd Ho) as (R & s' & H1 & H2 & H3).
      exists R, s'. split; [auto|]. split; [auto|]. eapply desc_weaken; eauto.
  Qed.

  Definition inv (init : Z) (c : config) : Prop :=
    ble (fst c l) init /\
    (fst c l = init \/ exists t, In t (snd c) /\ In (fst c l) (recorded_total l t)) /\
    (forall t, In t (snd c) -> thread_ok (fst c l) t).

  Lemma recorded_total_code : forall t t', code t' = code t -> recorded_total l t' = recorded_total l t.
  Proof. intros t t' H. unfold code in H. inversion H as [[H1 H2]]. unfold recorded_total. now rewrite H1, H2. Qed.

  Lemma inv_step : forall init c tid, inv init c -> inv init (step c tid).
  Proof.
    intros init [m ts] tid (I1 & I2 & I3). unfold step. cbn [fst snd] in *.
    destruct (nth_error ts tid) as [t|] eqn:E; [|exact (conj I1 (conj I2 I3))].
    destruct (step_thread m t) as [m' t'] eqn:Es. unfold inv. cbn [fst snd].
    assert (Hin : In t ts) by (eapply nth_error_In; eauto).
    destruct (rmw_step_thread m t m' t' (I3 t Hin) Es) as (Hb & Hch & Hok).
    pose proof (step_thread_code m t) as Hcode. rewrite Es in Hcode. cbn [snd] in Hcode.
    split; [eapply ble_trans; eauto|]. split.
    - destruct Hch as [Heq|Hrec].
      + rewrite Heq. destruct I2 as [I2|(t0 & Ht0 & Hr0)]; [now left|right].
        destruct (in_old_set_thread ts tid t' t t0 E Ht0) as [->|Hin0].
        * exists t'. split; [eapply in_set_thread_new; eauto|]. now rewrite (recorded_total_code _ _ Hcode).
        * exists t0. auto.
      + right. exists t'. split; [eapply in_set_thread_new; eauto|]. now rewrite (recorded_total_code _ _ Hcode).
    - intros x Hx. apply in_set_thread in Hx. destruct Hx as [->|Hx]; auto.
      eapply thread_ok_weaken; eauto.
  Qed.

  Lemma thread_ok_start : forall m t, cas_only o l (t_secs t) = true -> (forall x, In x (recorded_total l t) -> dom x) ->
    t_si t = 0%nat -> t_pc t = 0%nat -> thread_ok m t.
  Proof.
    intros m t Hc Hdm Hs Hp. split; [exact (conj Hc Hdm)|]. split.
    - unfold recorded_so_far. rewrite Hs. cbn. intros x [].
    - intros s p v En El Hb Ho. destruct (cas_sec_shape _ _ _ Hc En El) as (p' & v' & _ & Hb' & Ho' & _ & Hloop).
      rewrite Hb in Hb'. inversion Hb'; subst p'. rewrite Ho in Ho'. inversion Ho'; subst v'.
      destruct (rmw_loop_start _ _ Hloop) as (R & Hcl & Hin). exists R, astate0. split; [auto|]. rewrite Hp. split; [auto|].
      split; [intros r z []|exact I].
  Qed.

  Lemma rsf_done : forall t, done t = true -> recorded_so_far l t = recorded_total l t.
  Proof. intros t H. unfold recorded_so_far, recorded_total. now rewrite firstn_done. Qed.

  Definition all_recorded (ts : list thread) : list Z := concat (map (recorded_total l) ts).

  Lemma all_recorded_code : forall ts ts', map code ts = map code ts' -> all_recorded ts = all_recorded ts'.
  Proof.
    unfold all_recorded. induction ts as [|a r IH]; intros [|b r'] H; cbn in *; try discriminate; auto.
    injection H as Hs Ha Hr. unfold recorded_total at 1 3. rewrite Hs, Ha. f_equal. auto.
  Qed.

  (* any number of threads, any schedule: the value of l is at least as good as the initial one, is the initial
     one or one that was recorded, and after quiescence is at least as good as every recorded value *)
  Theorem rmw_best : forall init ts sched,
    (forall t, In t ts -> cas_only o l (t_secs t) = true /\ t_si t = 0%nat /\ t_pc t = 0%nat) ->
    (forall x, In x (all_recorded ts) -> dom x) ->
    let c := run (init, ts) sched in
    ble (fst c l) (init l) /\
    (fst c l = init l \/ In (fst c l) (all_recorded ts)) /\
    (all_done (snd c) = true -> forall x, In x (all_recorded ts) -> ble (fst c l) x).
  Proof.
    intros init ts sched H Hdom c.
    assert (Hinv : inv (init l) c).
    { subst c. apply run_inv; [intros; now apply inv_step|].
      split; [apply ble_refl|]. split; [now left|]. cbn [fst snd]. intros t Ht.
      destruct (H t Ht) as (A & B & C). apply thread_ok_start; auto.
      intros x Hx. apply Hdom. unfold all_recorded. apply in_concat. exists (recorded_total l t). split; auto. now apply in_map. }
    assert (Hcode : all_recorded (snd c) = all_recorded ts) by (apply all_recorded_code; subst c; apply run_code).
    destruct Hinv as (I1 & I2 & I3). split; [exact I1|]. split.
    - destruct I2 as [I2|(t & Ht & Hr)]; [now left|right]. rewrite <- Hcode. unfold all_recorded.
      apply in_concat. exists (recorded_total l t). split; auto. now apply in_map.
    - intros Hd x Hx. rewrite <- Hcode in Hx. unfold all_recorded in Hx. apply in_concat in Hx.
      destruct Hx as (rl & Hrl & Hx). apply in_map_iff in Hrl. destruct Hrl as (t & <- & Ht).
      destruct (I3 t Ht) as (_ & Hr & _). apply Hr. rewrite rsf_done; auto.
      unfold all_done in Hd. rewrite forallb_forall in Hd. auto.
  Qed.
End RmwBest.

(* ---------------------------------------------------------------------------------------------- *)
(* instances: largest value, smallest value with the -1 sentinel *)

Lemma maxZ_char : forall vs init m,
  init <= m -> (m = init \/ In m vs) -> (forall x, In x vs -> x <= m) -> m = maxZ init vs.
Proof.
  unfold maxZ. induction vs as [|v r IH]; intros init m Hi Hm Ha; cbn.
  - destruct Hm as [|[]]; auto.
  - apply IH.
    + assert (v <= m) by (apply Ha; now left). lia.
    + destruct Hm as [->|[<-|Hm]]; auto.
      * assert (v <= init) by (apply Ha; now left). left. lia.
      * assert (init <= v) by lia. left. lia.
    + intros x Hx. apply Ha. now right.
Qed.

(* the points of the largest-value order *)
Definition in_pt_max (q : pt) (cur val : Z) : Prop :=
  match q with PUnset => False | PLt => cur < val | PEq => cur = val | PGt => val < cur end.
(* the points of the smallest-value order with the sentinel -1 (candidates are >= 0) *)
Definition in_pt_min (q : pt) (cur val : Z) : Prop :=
  match q with PUnset => cur = -1 | PLt => cur <> -1 /\ cur < val | PEq => cur = val /\ cur <> -1 | PGt => val < cur /\ cur <> -1 end.

Ltac atom_cases Hv :=
  repeat match goal with
         | H : _ && _ = true |- _ => apply andb_true_iff in H; destruct H
         | H : _ || _ = true |- _ => apply orb_true_iff in H; destruct H
         | H : is_reg _ _ = true |- _ => apply is_reg_eq in H; subst
         | H : expr_eqb _ _ = true |- _ => apply expr_eqb_eq in H; subst
         | H : is_const _ _ = true |- _ => apply is_const_eq in H; subst
         end;
  cbn [evalc eval]; rewrite ?(eval_reg_free _ _ _ Hv); unfold nthZ in *.

Lemma atom_sound_max : forall q rc v args regs c b, reg_free v = true ->
  in_pt_max q (nthZ regs rc) (eval args [] v) -> atom max_spec q rc v c = Some b -> evalc args regs c = b.
Proof.
  intros q rc v args regs c b Hv Hin H. destruct c as [|x y|x y| | |]; cbn [atom] in H; try discriminate.
  - destruct (is_reg rc x && expr_eqb y v) eqn:E1; [|destruct (expr_eqb x v && is_reg rc y) eqn:E2; [|discriminate]];
      inversion H; subst b; clear H; atom_cases Hv; destruct q; cbn in *; lia.
  - destruct ((is_reg rc x && expr_eqb y v) || (expr_eqb x v && is_reg rc y)) eqn:E1; [|cbn in H; discriminate].
    inversion H; subst b; clear H; atom_cases Hv; destruct q; cbn in *; lia.
Qed.

Lemma atom_sound_min : forall q rc v args regs c b, reg_free v = true ->
  in_pt_min q (nthZ regs rc) (eval args [] v) -> 0 <= eval args [] v -> atom min_spec q rc v c = Some b -> evalc args regs c = b.
Proof.
  intros q rc v args regs c b Hv Hin Hd H. destruct c as [|x y|x y| | |]; cbn [atom] in H; try discriminate.
  - destruct (is_reg rc x && expr_eqb y v) eqn:E1; [|destruct (expr_eqb x v && is_reg rc y) eqn:E2; [|discriminate]];
      inversion H; subst b; clear H; atom_cases Hv; destruct q; cbn in *; lia.
  - destruct ((is_reg rc x && expr_eqb y v) || (expr_eqb x v && is_reg rc y)) eqn:E1.
    + inversion H; subst b; clear H; atom_cases Hv; destruct q; cbn in *; lia.
    + cbn [min_spec o_sentinel] in H.
      destruct ((is_reg rc x && is_const (-1) y) || (is_const (-1) x && is_reg rc y)) eqn:E2; [|discriminate].
      inversion H; subst b; clear H E1; atom_cases Hv; rewrite ?(Z.eqb_sym (-1)); destruct q; cbn in *; lia.
Qed.

Theorem max_exact : forall l init ts sched,
  (forall t, In t ts -> cas_only max_spec l (t_secs t) = true /\ t_si t = 0%nat /\ t_pc t = 0%nat) ->
  let c := run (init, ts) sched in
  all_done (snd c) = true -> fst c l = maxZ (init l) (all_recorded l ts).
Proof.
  intros l init ts sched H c Hd.
  destruct (rmw_best (fun a b => b <= a) max_spec in_pt_max l (fun _ => True)) with (init := init) (ts := ts) (sched := sched) as (A & B & C); auto.
  - intros; lia.
  - intros; lia.
  - intros cur val _. destruct (Z.lt_trichotomy cur val) as [L|[E|G]];
      [exists PLt|exists PEq|exists PGt]; cbn; auto.
  - intros. eapply atom_sound_max; eauto.
  - intros q cur val Hin Hi. destruct q; cbn in *; try discriminate; lia.
  - intros q cur val Hin Hi. destruct q; cbn in *; try discriminate; lia.
  - intros q cur val _ Hin Hb. destruct q; cbn in *; auto; lia.
  - fold c in A, B, C. apply maxZ_char; auto.
Qed.

Definition ble_min (a b : Z) : Prop := b = -1 \/ (a <> -1 /\ a <= b).

Lemma minZ_char : forall vs init m,
  (init = -1 \/ 0 <= init) -> (forall x, In x vs -> 0 <= x) ->
  ble_min m init -> (m = init \/ In m vs) -> (forall x, In x vs -> ble_min m x) -> m = minZ init vs.
Proof.
  unfold minZ. induction vs as [|v r IH]; intros init m Hi Hv Hb Hm Ha; cbn.
  - destruct Hm as [|[]]; auto.
  - assert (V : 0 <= v) by (apply Hv; now left).
    assert (Bv : ble_min m v) by (apply Ha; now left).
    apply IH.
    + unfold min_s. destruct (init =? -1) eqn:E1; [right; lia|]. destruct (v =? -1) eqn:E2; lia.
    + intros x Hx. apply Hv. now right.
    + unfold ble_min, min_s in *. destruct (init =? -1) eqn:E1; [lia|]. destruct (v =? -1) eqn:E2; lia.
    + unfold ble_min, min_s in *. destruct Hm as [->|[<-|Hm]]; auto.
      * left. destruct (init =? -1) eqn:E1; [lia|]. destruct (v =? -1) eqn:E2; lia.
      * left. destruct (init =? -1) eqn:E1; [lia|]. destruct (v =? -1) eqn:E2; lia.
    + intros x Hx. apply Ha. now right.
Qed.

Theorem min_exact : forall l init ts sched,
  (forall t, In t ts -> cas_only min_spec l (t_secs t) = true /\ t_si t = 0%nat /\ t_pc t = 0%nat) ->
  (init l = -1 \/ 0 <= init l) -> (forall x, In x (all_recorded l ts) -> 0 <= x) ->
  let c := run (init, ts) sched in
  all_done (snd c) = true -> fst c l = minZ (init l) (all_recorded l ts).
Proof.
  intros l init ts sched H Hi Hv c Hd.
  destruct (rmw_best ble_min min_spec (fun q cur val => in_pt_min q cur val /\ 0 <= val) l (fun x => 0 <= x)) with (init := init) (ts := ts) (sched := sched) as (A & B & C); auto.
  - unfold ble_min. intros a. destruct (Z.eq_dec a (-1)); [left|right]; lia.
  - unfold ble_min. intros; lia.
  - intros cur val Hd0. destruct (Z.eq_dec cur (-1)) as [E|N]; [exists PUnset; cbn; auto|].
    destruct (Z.lt_trichotomy cur val) as [L|[E|G]]; [exists PLt|exists PEq|exists PGt]; cbn; auto 6.
  - intros q rc v args regs c0 b Hr [Hin Hd0] Ha. eapply atom_sound_min; eauto.
  - intros q cur val [Hin Hd0] Hi0. unfold ble_min. destruct q; cbn in *; try discriminate; lia.
  - intros q cur val [Hin Hd0] Hi0. unfold ble_min. destruct q; cbn in *; try discriminate; lia.
  - intros q cur val _ [Hin Hd0] Hb. unfold ble_min in Hb. destruct q; cbn in *; auto; lia.
  - fold c in A, B, C. apply minZ_char; auto.
Qed.

(* ---------------------------------------------------------------------------------------------- *)
(* load-compare-store: two threads lose the extreme *)

Definition lcs_sec (skip : expr -> cond) (l : loc) : section :=
  {| s_cond := CTrue; s_loc := l; s_body := BRmw (lcs_prog (skip (EArg 0)) (EArg 0)) |}.

Definition lcs_witness_sched : list nat := [0; 1; 0; 0; 0; 1; 1; 1]%nat.

(* thread 0 records 200, thread 1 records 100, both load the old maximum 0 first; thread 1 stores last *)
Lemma max_lcs_refuted : exists ts sched,
  let c := run (fun _ => 0, ts) sched in
  (forall t, In t ts -> t_secs t = [lcs_sec max_skip 7%N] /\ t_si t = 0%nat /\ t_pc t = 0%nat) /\
  all_done (snd c) = true /\ fst c 7%N <> maxZ 0 (concat (map (recorded_total 7%N) ts)).
Proof.
  exists [start [lcs_sec max_skip 7%N] [200]; start [lcs_sec max_skip 7%N] [100]], lcs_witness_sched.
  split; [|split].
  - intros t [<-|[<-|[]]]; repeat split.
  - vm_compute. reflexivity.
  - vm_compute. discriminate.
Qed.

(* thread 0 records 100, thread 1 records 200, both load "not set" first; thread 1 stores last *)
Lemma min_lcs_refuted : exists ts sched,
  let c := run (fun _ => -1, ts) sched in
  (forall t, In t ts -> t_secs t = [lcs_sec min_skip 7%N] /\ t_si t = 0%nat /\ t_pc t = 0%nat) /\
  all_done (snd c) = true /\ fst c 7%N <> minZ (-1) (concat (map (recorded_total 7%N) ts)).
Proof.
  exists [start [lcs_sec min_skip 7%N] [100]; start [lcs_sec min_skip 7%N] [200]], lcs_witness_sched.
  split; [|split].
  - intros t [<-|[<-|[]]]; repeat split.
  - vm_compute. reflexivity.
  - vm_compute. discriminate.
Qed.

(* a counter updated by atomic load then atomic store (x = x + n) loses an increment *)
Definition ls_incr_sec (l : loc) : section :=
  {| s_cond := CTrue; s_loc := l; s_body := BRmw [ILoad 0%nat; IStore (EAdd (EReg 0%nat) (EArg 0)); IRet] |}.

Lemma load_store_counter_refuted : exists ts sched,
  let c := run (fun _ => 0, ts) sched in
  all_done (snd c) = true /\ fst c 7%N <> 0 + sumZ (map (fun t => nthZ (t_args t) 0) ts).
Proof.
  exists [start [ls_incr_sec 7%N] [1]; start [ls_incr_sec 7%N] [1]], [0; 1; 0; 0; 1; 1]%nat.
  split; vm_compute; [reflexivity|discriminate].
Qed.

(* ---------------------------------------------------------------------------------------------- *)
(* the whole metrics struct: every translated Record function has the accepted shape for every location *)

Lemma prog_ok_role : forall roles secs l r, prog_ok roles secs = true -> In (l, r) roles -> role_ok secs (l, r) = true.
Proof.
  intros roles secs l r H Hin. unfold prog_ok in H. apply andb_true_iff in H. destruct H as [_ H].
  rewrite forallb_forall in H. now apply H.
Qed.

Theorem metrics_exact : forall roles progs,
  forallb (prog_ok roles) progs = true ->
  forall init ts sched,
    (forall t, In t ts -> In (t_secs t) progs /\ t_si t = 0%nat /\ t_pc t = 0%nat) ->
    let c := run (init, ts) sched in
    all_done (snd c) = true ->
    forall l r, In (l, r) roles ->
      match r with
      | RCounter => fst c l = init l + sumZ (map (contrib_total l) ts)
      | RMax => fst c l = maxZ (init l) (all_recorded l ts)
      | RMin => (init l = -1 \/ 0 <= init l) -> (forall x, In x (all_recorded l ts) -> 0 <= x) ->
                fst c l = minZ (init l) (all_recorded l ts)
      | RStamp => True
      end.
Proof.
  intros roles progs Hok init ts sched Hts c Hd l r Hin.
  rewrite forallb_forall in Hok.
  assert (Hr : forall t, In t ts -> role_ok (t_secs t) (l, r) = true).
  { intros t Ht. destruct (Hts t Ht) as (Hp & _ & _). eapply prog_ok_role; eauto. }
  destruct r; cbn [role_ok fst snd] in Hr.
  - apply counters_exact; auto. intros t Ht. destruct (Hts t Ht) as (_ & Hs & _). auto.
  - apply max_exact; auto. intros t Ht. destruct (Hts t Ht) as (_ & Hs & Hp). auto.
  - intros Hi Hv. apply min_exact; auto. intros t Ht. destruct (Hts t Ht) as (_ & Hs & Hp). auto.
  - exact I.
Qed.

(* ---------------------------------------------------------------------------------------------- *)
(* the class is_rmw_loop: what it contains and what it rejects (complete evaluation on concrete programs) *)

Definition ex_v : expr := EArg 1.
Definition ex_ok := CNot (CEq (EReg 1%nat) (EConst 0)).

(* the canonical loop, for both orders; each order rejects the other's test *)
Example class_canonical : is_rmw_loop max_spec (cas_prog (max_skip ex_v) ex_v) ex_v = true /\
                          is_rmw_loop min_spec (cas_prog (min_skip ex_v) ex_v) ex_v = true /\
                          is_rmw_loop max_spec (cas_prog (min_skip ex_v) ex_v) ex_v = false /\
                          is_rmw_loop min_spec (cas_prog (max_skip ex_v) ex_v) ex_v = false.
Proof. vm_compute. auto. Qed.

(* `if v > cur { if !CAS { continue } }; break` *)
Example class_continue : is_rmw_loop max_spec
  [ILoad 0; IJmpIf (CNot (CLt (EReg 0) ex_v)) 5; ICas 1 (EReg 0) ex_v; IJmpIf ex_ok 5; IJmp 0; IJmp 7; IJmp 0; IRet]%nat ex_v = true.
Proof. vm_compute. reflexivity. Qed.

(* `done := false; for !done { cur := Load; if v <= cur { done = true } else { done = CAS(cur, v) } }` *)
Example class_done_flag : is_rmw_loop max_spec
  [ISet 0 (EConst 0); IJmpIf (CNot (CEq (EReg 0) (EConst 0))) 9; ILoad 1; IJmpIf (CLt (EReg 1) ex_v) 6; ISet 0 (EConst 1); IJmp 7;
   ICas 0 (EReg 1) ex_v; IJmp 1; IRet; IRet]%nat ex_v = true.
Proof. vm_compute. reflexivity. Qed.

(* `if (cur != -1 && v >= cur) || CAS(cur, v) { break }` with the short-circuit as control flow; and with a CAS on the
   sentinel path of its own *)
Example class_short_circuit : is_rmw_loop min_spec
  [ILoad 0; IJmpIf (min_skip ex_v) 5; ICas 1 (EReg 0) ex_v; IJmpIf ex_ok 5; IJmp 0; IRet]%nat ex_v = true /\
  is_rmw_loop min_spec
  [ILoad 0; IJmpIf (CNot (CEq (EReg 0) (EConst (-1)))) 5; ICas 1 (EReg 0) ex_v; IJmpIf ex_ok 10; IJmp 0;
   IJmpIf (CNot (CLt ex_v (EReg 0))) 10; ICas 1 (EReg 0) ex_v; IJmpIf ex_ok 10; IJmp 0; IRet; IRet]%nat ex_v = true.
Proof. vm_compute. auto. Qed.

(* `if (v <= cur || CAS(cur, v)) && p { break }` with an opaque p: the loop may run again after a successful swap; what
   it loads then is known to be good enough *)
Example class_again_after_success : is_rmw_loop max_spec
  [ILoad 0; IJmpIf (CNot (CLt (EReg 0) ex_v)) 4; ICas 1 (EReg 0) ex_v; IJmpIf (CEq (EReg 1) (EConst 0)) 5;
   IJmpIf (CEq (EArg 2) (EArg 2)) 6; IJmp 0; IRet]%nat ex_v = true.
Proof. vm_compute. reflexivity. Qed.

(* rejected: load-compare-store; one CAS attempt without retry; a plain store on the sentinel path; the CAS executed
   whatever the test says (the condition `skip || CAS` evaluated without short-circuit); the CAS in the wrong direction *)
Example class_rejects :
  is_rmw_loop max_spec (lcs_prog (max_skip ex_v) ex_v) ex_v = false /\
  is_rmw_loop max_spec [ILoad 0; IJmpIf (max_skip ex_v) 3; ICas 1 (EReg 0) ex_v; IRet]%nat ex_v = false /\
  is_rmw_loop min_spec
    [ILoad 0; IJmpIf (CNot (CEq (EReg 0) (EConst (-1)))) 4; IStore ex_v; IJmp 9; IJmpIf (CNot (CLt ex_v (EReg 0))) 9;
     ICas 1 (EReg 0) ex_v; IJmpIf ex_ok 9; IJmp 0; IRet; IRet]%nat ex_v = false /\
  is_rmw_loop min_spec [ILoad 0; ICas 1 (EReg 0) ex_v; IJmpIf (COr (min_skip ex_v) ex_ok) 4; IJmp 0; IRet]%nat ex_v = false /\
  is_rmw_loop max_spec [ILoad 0; IJmpIf (CNot (CLt ex_v (EReg 0))) 5; ICas 1 (EReg 0) ex_v; IJmpIf ex_ok 5; IJmp 0; IRet]%nat ex_v = false.
Proof. vm_compute. auto 6. Qed.

(* one CAS attempt without retry loses the extreme: thread 0 (records 200) loads 0; thread 1 (records 100) runs to
   completion and stores 100; thread 0's CAS(0 -> 200) fails and is not retried: the final value is 100 *)
Definition single_cas_sec (l : loc) : section :=
  {| s_cond := CTrue; s_loc := l; s_body := BRmw [ILoad 0; IJmpIf (max_skip (EArg 0)) 3; ICas 1 (EReg 0) (EArg 0); IRet]%nat |}.
Lemma max_single_cas_refuted : exists ts sched,
  let c := run (fun _ => 0, ts) sched in
  (forall t, In t ts -> t_secs t = [single_cas_sec 7%N] /\ t_si t = 0%nat /\ t_pc t = 0%nat) /\
  all_done (snd c) = true /\ fst c 7%N <> maxZ 0 (concat (map (recorded_total 7%N) ts)).
Proof.
  exists [start [single_cas_sec 7%N] [200]; start [single_cas_sec 7%N] [100]], [0; 1; 1; 1; 1; 0; 0; 0]%nat.
  split; [|split].
  - intros t [<-|[<-|[]]]; repeat split.
  - vm_compute. reflexivity.
  - vm_compute. discriminate.
Qed.

(* a failed swap that reloads into ANOTHER register (a shadowed variable): the expected value of the next swap is never
   refreshed.  cur := Load; for v > cur { if CAS(cur, v) { break }; if cur2 := Load; v <= cur2 { break } } *)
Definition stale_retry_prog (v : expr) : list instr :=
  [ILoad 0; IJmpIf (CNot (CLt (EReg 0) v)) 7; ICas 1 (EReg 0) v; IJmpIf (CNot (CEq (EReg 1) (EConst 0))) 7;
   ILoad 2; IJmpIf (CNot (CLt (EReg 2) v)) 7; IJmp 1; IRet]%nat.
Definition stale_retry_sec (l : loc) : section :=
  {| s_cond := CTrue; s_loc := l; s_body := BRmw (stale_retry_prog (EArg 0)) |}.

Example class_rejects_stale_retry : is_rmw_loop max_spec (stale_retry_prog ex_v) ex_v = false.
Proof. vm_compute. reflexivity. Qed.

Lemma run_app : forall s1 s2 c, run c (s1 ++ s2) = run (run c s1) s2.
Proof. intros. unfold run. apply fold_left_app. Qed.

(* thread 0 records 200, thread 1 records 100.  Thread 0 loads 0; thread 1 runs to completion (stores 100); thread 0's
   swap 0 -> 200 fails, it reloads 100 into the other register, 200 > 100, so it tries 0 -> 200 again: after these 12
   steps the configuration repeats every 6 steps of thread 0 — the call never returns, however long it runs. *)
Definition stale_retry_threads : list thread := [start [stale_retry_sec 7%N] [200]; start [stale_retry_sec 7%N] [100]].
Definition stale_retry_prefix : list nat := [0; 1; 1; 1; 1; 1; 0; 0; 0; 0; 0; 0]%nat.

Lemma stale_retry_spins :
  let c := run (fun _ => 0, stale_retry_threads) stale_retry_prefix in
  all_done (snd c) = false /\
  forall n, all_done (snd (run c (concat (repeat (repeat 0%nat 6) n)))) = false.
Proof.
  cbv zeta. set (c := run (fun _ => 0, stale_retry_threads) stale_retry_prefix).
  assert (Hper : run c (repeat 0%nat 6) = c) by (vm_compute; reflexivity).
  assert (Hnd : all_done (snd c) = false) by (vm_compute; reflexivity).
  split; [exact Hnd|]. induction n as [|n IH]; [exact Hnd|].
  change (concat (repeat (repeat 0%nat 6) (S n))) with (repeat 0%nat 6 ++ concat (repeat (repeat 0%nat 6) n)).
  rewrite run_app, Hper. exact IH.
Qed.
