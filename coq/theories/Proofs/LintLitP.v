(* LintLitP.v — what the scanner of the lint model (Model/Lint.v, = linter.LexMap) reads as ONE literal: triple-quoted
   strings, dollar-quoted strings, doubled quotes.  The reference is the tokenizer's own loop for each form, written as a
   function with look-ahead ([tri_len], [dol_len]: "advance until the text repeats the closing delimiter"); the scanner's
   counters ([STri run], [SDol tag m]) are proved to stop at the same place. *)
From Coq Require Import List NArith Bool Arith Lia.
From GV Require Import Model.Lint Proofs.LintP.
Import ListNotations.
Local Open Scope N_scope.

Definition no36 (r : list ch) : Prop := forall x, In x r -> (cp x =? 36) = false.

Lemma in_skipn_in : forall {A} n (l : list A) y, In y (skipn n l) -> In y l.
Proof. intros A. induction n as [|n IH]; intros [|c l] y H; cbn [skipn] in H; try exact H; right; apply IH; exact H. Qed.

Lemma skipn_add : forall {A} b a (l : list A), skipn a (skipn b l) = skipn (b + a) l.
Proof. intros A. induction b as [|b IH]; intros a l; [reflexivity|]. destruct l as [|c l]; [destruct a; reflexivity|]. cbn [skipn Nat.add]. apply IH. Qed.

Section Lit.
Variables ids idc : N -> bool.
Notation lex := (lex ids idc).
Notation lstep := (lstep ids idc).
Notation dollar_tag := (dollar_tag ids idc).
Notation scan_tag := (scan_tag idc).

(* m characters of a literal, then code *)
Notation R := (lit_code ids idc).

Lemma R_S : forall m c t, R (S m) (c :: t) = 1 :: R m t.
Proof. reflexivity. Qed.

(* ---- triple-quoted strings ---- *)

Lemma tri_len_skip : forall c t, starts3 (c :: t) = false -> tri_len (c :: t) = S (tri_len t).
Proof. intros c t H. cbn [tri_len]. rewrite H. reflexivity. Qed.

Lemma lex_tri_all : forall l,
  lex (STri 0) l = R (tri_len l) l /\
  lex (STri 1) l = (if starts2q l then R 2 l else R (tri_len l) l) /\
  lex (STri 2) l = (if starts1 l then R 1 l else R (tri_len l) l).
Proof.
  induction l as [|c t (P0 & P1 & P2)]; [repeat split|].
  cbn [Lint.lex Lint.lstep fst snd Nat.eqb]. fold (ap c). destruct (ap c) eqn:Ec.
  - rewrite P1, P2. repeat split.
    + assert (E3 : starts3 (c :: t) = starts2q t) by (destruct t as [|a [|b t]]; cbn [starts3 starts2q]; rewrite ?Ec; reflexivity).
      destruct (starts2q t) eqn:E2.
      * cbn [tri_len]. rewrite E3. reflexivity.
      * rewrite (tri_len_skip c t E3). reflexivity.
    + assert (E2 : starts2q (c :: t) = starts1 t) by (destruct t as [|a t]; cbn [starts2q starts1]; rewrite ?Ec; reflexivity).
      rewrite E2. destruct (starts1 t) eqn:E1; [reflexivity|].
      assert (E3 : starts3 (c :: t) = false) by (destruct t as [|a [|b t]]; cbn [starts3 starts1] in *; rewrite ?Ec, ?E1; reflexivity).
      rewrite (tri_len_skip c t E3). reflexivity.
    + cbn [starts1]. rewrite Ec. reflexivity.
  - assert (E3 : starts3 (c :: t) = false) by (destruct t as [|a [|b t]]; cbn [starts3]; rewrite ?Ec; reflexivity).
    assert (E2 : starts2q (c :: t) = false) by (destruct t as [|a t]; cbn [starts2q]; rewrite ?Ec; reflexivity).
    rewrite E2. cbn [starts1]. rewrite Ec. rewrite (tri_len_skip c t E3). rewrite P0. repeat split.
Qed.

(* three apostrophes where a string literal may begin open a literal that ends exactly where the tokenizer's loop ends it *)
Theorem triple_quoted_read : forall a b c l, ap a = true -> ap b = true -> ap c = true ->
  lex SCode (a :: b :: c :: l) = R (3 + tri_len l) (a :: b :: c :: l).
Proof.
  intros a b c l Ha Hb Hc. unfold ap in *. cbn [Lint.lex Lint.lstep]. cbn [next2_39]. rewrite Ha, Hb, Hc. cbn [andb fst snd].
  cbn [Lint.lstep fst snd]. destruct (lex_tri_all l) as (P0 & _). rewrite P0. reflexivity.
Qed.

(* ---- doubled quotes in a '...' literal ---- *)
Theorem doubled_quote_read : forall a b l, nq (cp a) = 39 -> nq (cp b) = 39 ->
  lex (SLit 39) (a :: b :: l) = 1 :: 1 :: lex (SLit 39) l.
Proof.
  intros a b l Ha Hb. cbn [Lint.lex Lint.lstep next_q39]. rewrite Ha, Hb. reflexivity.
Qed.

(* ---- dollar-quoted strings ---- *)

Lemma lex_skip : forall n a l, (S n <= length l)%nat -> lex (SSkip (S n) a) l = repeat 1 (S n) ++ lex a (skipn (S n) l).
Proof.
  induction n as [|n IH]; intros a l H; (destruct l as [|c t]; [cbn in H; lia|]).
  - reflexivity.
  - cbn [length] in H. cbn [Lint.lex Lint.lstep fst snd]. rewrite IH by lia. reflexivity.
Qed.

Lemma same_dl : forall c, wfc c -> same_ch c dl = (cp c =? 36).
Proof.
  intros c (_ & _ & W & _). unfold same_ch, dl. cbn [asc cp width raw length]. destruct (cp c =? 36) eqn:E; [|reflexivity].
  apply N.eqb_eq in E. unfold width. rewrite (W ltac:(rewrite E; reflexivity)). reflexivity.
Qed.

Lemma same_cp : forall c x, same_ch c x = true -> cp c = cp x.
Proof. intros c x H. unfold same_ch in H. apply andb_prop in H. destruct H as [H _]. apply N.eqb_eq. exact H. Qed.

Lemma lex_dol_all : forall tag, no36 tag -> forall l, wft l ->
  lex (SDol tag None) l = R (dol_len (dl :: tag ++ [dl]) l) l /\
  (forall r, no36 r -> lex (SDol tag (Some r)) l =
     if pmatch (r ++ [dl]) l then R (S (length r)) l else R (dol_len (dl :: tag ++ [dl]) l) l).
Proof.
  intros tag Ht. set (cl := dl :: tag ++ [dl]).
  induction l as [|c t IH]; intro Hw.
  - split; [reflexivity|]. intros r _. destruct r; reflexivity.
  - assert (Hc : wfc c) by (apply Hw; left; reflexivity).
    assert (Hw' : wft t) by (intros d Hd; apply Hw; right; exact Hd).
    destruct (IH Hw') as (P0 & PS). pose proof (PS tag Ht) as PT.
    (* what a character that does not continue the match leaves *)
    assert (Miss : lex (match (if cp c =? 36 then SDol tag (Some tag) else SDol tag None) with s => s end) t =
                   match dol_len cl (c :: t) with O => [] | S m => R m t end).
    { cbn [dol_len]. unfold cl at 1. cbn [pmatch]. rewrite (same_dl c Hc). destruct (cp c =? 36) eqn:E.
      - cbn [andb]. rewrite PT. fold cl. destruct (pmatch (tag ++ [dl]) t) eqn:Em.
        + unfold cl. cbn [length]. rewrite app_length. cbn [length]. replace (length tag + 1)%nat with (S (length tag)) by lia. reflexivity.
        + reflexivity.
      - cbn [andb]. rewrite P0. reflexivity. }
    cbn beta iota in Miss.
    assert (Eq0 : forall X, (match dol_len cl (c :: t) with O => [] | S m => R m t end) = X -> 1 :: X = R (dol_len cl (c :: t)) (c :: t)).
    { intros X <-. cbn [dol_len]. destruct (pmatch cl (c :: t)); [unfold cl; cbn [length]|]; reflexivity. }
    split.
    + cbn [Lint.lex Lint.lstep fst snd dol_step]. apply Eq0. symmetry. exact Miss.
    + intros r Hr. cbn [Lint.lex Lint.lstep fst snd]. destruct r as [|x r].
      * cbn [dol_step app pmatch length]. change (asc 36) with dl. rewrite andb_true_r. destruct (same_ch c dl) eqn:Es.
        -- reflexivity.
        -- apply Eq0. symmetry. exact Miss.
      * cbn [dol_step app pmatch length]. destruct (same_ch c x) eqn:Es.
        -- cbn [andb]. assert (Hr' : no36 r) by (intros y Hy; apply Hr; right; exact Hy).
           rewrite (PS r Hr'). destruct (pmatch (r ++ [dl]) t); [reflexivity|].
           assert (Ex : (cp c =? 36) = false) by (rewrite (same_cp c x Es); apply Hr; left; reflexivity).
           assert (Hn : dol_len cl (c :: t) = S (dol_len cl t)).
           { cbn [dol_len]. replace (pmatch cl (c :: t)) with false; [reflexivity|]. unfold cl. cbn [pmatch]. rewrite (same_dl c Hc), Ex. reflexivity. }
           rewrite Hn. reflexivity.
        -- cbn [andb]. apply Eq0. symmetry. exact Miss.
Qed.

(* the tag the scanner finds: the characters up to the next '$' continue a tag and are not '$' themselves *)
Lemma scan_tag_spec : forall nx tag, scan_tag nx = Some tag ->
  exists d rest, nx = tag ++ d :: rest /\ (cp d =? 36) = true /\ no36 tag /\ forallb (fun x => idc (cp x)) tag = true.
Proof.
  induction nx as [|c t IH]; intros tag H; [discriminate|]. cbn [Lint.scan_tag] in H.
  destruct (cp c =? 36) eqn:E.
  - injection H as <-. exists c, t. repeat split; [exact E|intros x []].
  - destruct (idc (cp c)) eqn:Ei; [|discriminate]. destruct (Lint.scan_tag idc t) as [g|] eqn:Eg; [|discriminate].
    injection H as <-. destruct (IH g eq_refl) as (d & rest & E1 & E2 & E3 & E4). exists d, rest. subst t. repeat split; try assumption.
    + intros x [Hx|Hx]; [subst; exact E|apply E3; exact Hx].
    + cbn [forallb]. rewrite Ei, E4. reflexivity.
Qed.

(* a '$' that is followed by  tag '$'  opens a literal that ends exactly where the tokenizer's loop ends it; the scanner is in
   code again after it *)
Theorem dollar_quoted_read : forall c nx tag, (cp c =? 36) = true -> dollar_tag nx = Some tag -> wft nx ->
  let body := skipn (S (length tag)) nx in
  lex SCode (c :: nx) = R (S (S (length tag)) + dol_len (dl :: tag ++ [dl]) body) (c :: nx).
Proof.
  intros c nx tag Hc Hd Hw body.
  assert (Hs : scan_tag nx = Some tag).
  { destruct nx as [|e nx]; [discriminate|]. unfold Lint.dollar_tag in Hd. destruct ((cp e =? 36) || ids (cp e)); [exact Hd|discriminate]. }
  destruct (scan_tag_spec nx tag Hs) as (d & rest & E1 & E2 & E3 & _).
  assert (Hq : is_quote c = false /\ (cp c =? 39) = false /\ (cp c =? 45) = false /\ (cp c =? 47) = false).
  { apply N.eqb_eq in Hc. unfold is_quote. rewrite Hc. repeat split. }
  destruct Hq as (Q1 & Q2 & Q3 & Q4).
  cbn [Lint.lex Lint.lstep]. rewrite Q1, Q2, Q3, Q4, Hc, Hd. cbn [andb fst snd].
  assert (Hlen : (S (length tag) <= length nx)%nat) by (rewrite E1, app_length; cbn [length]; lia).
  rewrite (lex_skip (length tag) (SDol tag None) nx Hlen). destruct nx as [|e nx]; [cbn in Hlen; lia|].
  fold body. assert (Hwb : wft body) by (intros y Hy; apply Hw; unfold body in Hy; eapply in_skipn_in; exact Hy).
  destruct (lex_dol_all tag E3 body Hwb) as (P0 & _). rewrite P0. unfold lit_code.
  set (D := dol_len (dl :: tag ++ [dl]) body).
  change (1 :: repeat 1 (S (length tag)) ++ repeat 1 D ++ lex SCode (skipn D body) =
          repeat 1 (S (S (length tag)) + D) ++ lex SCode (skipn (S (length tag) + D) (e :: nx))).
  unfold body. rewrite skipn_add. rewrite repeat_app. rewrite <- app_assoc. reflexivity.
Qed.

(* a '$' that does not open a dollar-quoted string ("$1", "$ x", "$a b$", a tag that runs into the end) is code *)
Theorem dollar_not_opener_read : forall c nx, (cp c =? 36) = true -> dollar_tag nx = None -> lstep SCode c nx = (0, SCode).
Proof.
  intros c nx Hc Hd. apply N.eqb_eq in Hc. cbn [Lint.lstep]. unfold is_quote. rewrite Hc, Hd. reflexivity.
Qed.

End Lit.

(* ---- what L007 and L010 flag is code: never a character of a literal, quoted identifier or comment ---- *)
Section Flags.
  Variables ids idc : N -> bool.
  Variables is_letter is_digit : N -> bool.
  Variable upper_ascii : N -> option N.
  Variable keywords : list (list N).

  Lemma wordc_code0 : forall inw p, wordc is_letter is_digit inw p = true -> code0 p = true.
  Proof. intros inw p H. unfold wordc in H. apply andb_prop in H. tauto. Qed.

  Theorem l007_flags_code : forall t n col, In (n, col) (l007_check ids idc is_letter is_digit upper_ascii keywords t) ->
    exists fl pre wd post, nth_error (clines ids idc t) (n - 1) = Some fl /\ snd fl = pre ++ wd ++ post /\
      col = S (blen (chars pre)) /\ wd <> [] /\ forallb code0 wd = true.
  Proof.
    intros t n col H. apply l007_check_exact in H. destruct H as (fl & pre & wd & post & E & _ & (E1 & _ & Hw & _) & _ & Ec).
    exists fl, pre, wd, post. destruct wd as [|p v]; [destruct Hw|]. destruct Hw as [H1 H2].
    repeat split; try assumption; [discriminate|].
    cbn [forallb]. rewrite (wordc_code0 _ _ H1). cbn [andb].
    apply forallb_forall. intros q Hq. rewrite forallb_forall in H2. apply (wordc_code0 true). apply H2. exact Hq.
  Qed.

  Theorem l010_flags_code : forall t n col, In (n, col) (l010_check ids idc t) ->
    exists fl pre r post, nth_error (clines ids idc t) (n - 1) = Some fl /\ snd fl = pre ++ r ++ post /\
      col = S (blen (chars pre)) /\ (2 <= length r)%nat /\ forallb code0 r = true.
  Proof.
    intros t n col H. apply l010_check_exact in H. destruct H as (fl & pre & r & post & E & _ & (E1 & Hs & Hl & _) & _ & Ec).
    exists fl, pre, r, post. repeat split; try assumption.
    apply forallb_forall. intros q Hq. rewrite forallb_forall in Hs. specialize (Hs q Hq). unfold cspace in Hs. apply andb_prop in Hs. tauto.
  Qed.
End Flags.
