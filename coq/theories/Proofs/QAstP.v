(* QAstP.v — facts about the traversal of query trees: it is C14's walk on the erased tree, it reaches every
   node below emitted slots, it lists each node occurrence once. *)
From Coq Require Import List String NArith Bool Arith Lia.
From GV Require Import Model.Walk Proofs.WalkP Model.QAst.
Import ListNotations.

Lemma flat_map_flat_map {A B C} (f : B -> list C) (g : A -> list B) (l : list A) :
  flat_map f (flat_map g l) = flat_map (fun x => flat_map f (g x)) l.
Proof.
  induction l as [|x r IH]; cbn; [reflexivity|].
  rewrite flat_map_app, IH. reflexivity.
Qed.

Lemma flat_map_map {A B C} (f : B -> list C) (g : A -> B) (l : list A) :
  flat_map f (map g l) = flat_map (fun x => f (g x)) l.
Proof. induction l as [|x r IH]; cbn; [reflexivity|]. rewrite IH. reflexivity. Qed.

Lemma flat_map_ext_in {A B} (f g : A -> list B) l :
  (forall x, In x l -> f x = g x) -> flat_map f l = flat_map g l.
Proof.
  induction l as [|x r IH]; cbn; intros H; [reflexivity|].
  rewrite (H x) by (left; reflexivity). rewrite IH; [reflexivity|]. intros y Hy. apply H. right. exact Hy.
Qed.

(* induction principle for the nested type *)
Section QInd.
  Variable P : qn -> Prop.
  Hypothesis step : forall k a kids,
      (forall s l c, In (s, l) kids -> In c l -> P c) -> P (QN k a kids).
  Fixpoint qn_induction (t : qn) : P t :=
    match t with
    | QN k a kids =>
        step k a kids
          ((fix go (ks : list (slot * list qn)) : forall s l c, In (s, l) ks -> In c l -> P c :=
              match ks with
              | [] => fun s l c H _ => match H with end
              | (s0, l0) :: r => fun s l c H Hc =>
                  match H with
                  | or_introl e =>
                      (fix go2 (cs : list qn) : forall c, In c cs -> P c :=
                         match cs with
                         | [] => fun c H => match H with end
                         | c0 :: cr => fun c H =>
                             match H with
                             | or_introl e2 => eq_ind c0 P (qn_induction c0) c e2
                             | or_intror H2 => go2 cr c H2
                             end
                         end) l0 c (eq_ind_r (fun l' => In c l') Hc (f_equal snd e))
                  | or_intror H2 => go r s l c H2 Hc
                  end
              end) kids)
    end.
End QInd.

Section Traverse.
  Variable em : kind -> slot -> bool.

  Lemma qwalk_node k a kids :
    qwalk em (QN k a kids) =
    QN k a kids :: flat_map (fun sk : slot * list qn => if em k (fst sk) then flat_map (qwalk em) (snd sk) else []) kids.
  Proof. reflexivity. Qed.

  Lemma qwalk_self t : In t (qwalk em t).
  Proof. destruct t. left. reflexivity. Qed.

  (* a fold of a node-local function over the traversal, one level unfolded *)
  Lemma collect_node {A} (loc : qn -> list A) k a kids :
    flat_map loc (qwalk em (QN k a kids)) =
    loc (QN k a kids) ++
    flat_map (fun sk : slot * list qn =>
                if em k (fst sk) then flat_map (fun c => flat_map loc (qwalk em c)) (snd sk) else []) kids.
  Proof.
    rewrite qwalk_node. cbn [flat_map]. f_equal.
    rewrite flat_map_flat_map. apply flat_map_ext_in. intros [s l] _. cbn [fst snd].
    destruct (em k s); [|reflexivity]. apply flat_map_flat_map.
  Qed.

  (* ---- completeness: every node below emitted slots is visited (same induction as C14's walk_complete) ---- *)
  Inductive qreach : qn -> qn -> Prop :=
  | qreach_self t : qreach t t
  | qreach_kid k a kids s l c n :
      In (s, l) kids -> em k s = true -> In c l -> qreach c n -> qreach (QN k a kids) n.

  Theorem qwalk_complete : forall t n, qreach t n -> In n (qwalk em t).
  Proof.
    intros t n H. induction H as [t|k a kids s l c n Hin Hem Hc _ IH].
    - apply qwalk_self.
    - rewrite qwalk_node. right. apply in_flat_map. exists (s, l). split; [exact Hin|].
      cbn [fst snd]. rewrite Hem. apply in_flat_map. exists c. split; assumption.
  Qed.

  Theorem qwalk_sound : forall t n, In n (qwalk em t) -> qreach t n.
  Proof.
    intros t. induction t as [k a kids IH] using qn_induction. intros n H.
    rewrite qwalk_node in H. destruct H as [H|H].
    - subst. constructor.
    - apply in_flat_map in H. destruct H as [[s l] [Hin H]]. cbn [fst snd] in H.
      destruct (em k s) eqn:E; [|destruct H].
      apply in_flat_map in H. destruct H as [c [Hc H]].
      eapply qreach_kid; eauto.
  Qed.

  (* each node occurrence is listed once: the traversal is linear in the tree *)
  Lemma length_flat_map_le {A B} (f : A -> list B) (g : A -> nat) l :
    (forall x, In x l -> List.length (f x) <= g x) -> List.length (flat_map f l) <= list_sum (map g l).
  Proof.
    induction l as [|x r IH]; intros H; [cbn; lia|].
    simpl. rewrite app_length.
    pose proof (H x (or_introl eq_refl)) as Hx.
    assert (Hr : List.length (flat_map f r) <= list_sum (map g r)).
    { apply IH. intros y Hy. apply H. right. exact Hy. }
    lia.
  Qed.

  Theorem qwalk_linear : forall t, List.length (qwalk em t) <= qsize t.
  Proof.
    intros t. induction t as [k a kids IH] using qn_induction.
    rewrite qwalk_node. cbn [List.length qsize]. apply le_n_S.
    apply length_flat_map_le. intros [s l] Hin. cbn [fst snd].
    destruct (em k s); [|cbn; lia].
    apply length_flat_map_le. intros c Hc. exact (IH s l c Hin Hc).
  Qed.

  (* ---- the traversal IS Walk.walk on the erased tree ---- *)
  Variable kcode : kind -> N.
  Variable scode : kind -> slot -> N.
  Variable emitted : list (N * N).
  Hypothesis em_table : forall k s, em k s = pmem (kcode k, scode k s) emitted.

  Theorem qwalk_erase : forall t, map (erase kcode scode) (qwalk em t) = walk emitted (erase kcode scode t).
  Proof.
    intros t. induction t as [k a kids IH] using qn_induction.
    rewrite qwalk_node. cbn [map erase walk]. f_equal.
    rewrite flat_map_map. rewrite flat_map_concat_map, concat_map, map_map, <- flat_map_concat_map.
    apply flat_map_ext_in. intros [s l] Hin. cbn [fst snd].
    rewrite <- em_table. destruct (em k s); [|reflexivity].
    rewrite flat_map_map. rewrite flat_map_concat_map, concat_map, map_map, <- flat_map_concat_map.
    apply flat_map_ext_in. intros c Hc. exact (IH s l c Hin Hc).
  Qed.
End Traverse.
