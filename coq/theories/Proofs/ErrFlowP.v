(* ErrFlowP.v — generic theorems about the error-flow model (any table). *)
From Coq Require Import List NArith Bool Lia.
From GV Require Import Model.ErrFlow.
Import ListNotations.
Local Open Scope N_scope.

Lemma mem_In x l : mem x l = true <-> In x l.
Proof.
  unfold mem. rewrite existsb_exists. split.
  - intros [y [Hy He]]. apply N.eqb_eq in He. now subst.
  - intro H. exists x. split; [assumption | apply N.eqb_refl].
Qed.

Lemma subset_In a b : subset a b = true -> forall x, In x a -> mem x b = true.
Proof. unfold subset. rewrite forallb_forall. auto. Qed.

Lemma uses_no_head X e : uses_no X e = true -> mem (site_of e) X = false.
Proof.
  unfold uses_no, sites. destruct e; cbn [subterms map forallb]; intro H;
    apply andb_true_iff in H; destruct H as [H _]; now apply negb_true_iff in H.
Qed.

Lemma uses_no_sub X e :
  uses_no X e = true ->
  match e with
  | Wrapw _ e' | Rewrapv _ _ e' | Cause _ _ e' => uses_no X e' = true
  | _ => True
  end.
Proof.
  unfold uses_no, sites. destruct e; cbn [subterms map forallb]; try exact (fun _ => I);
    intro H; apply andb_true_iff in H; now destruct H.
Qed.

(* ------------------------------------------------------------------------------------------------------
   C13, part 1: every error that arrives at an API boundary is a context error or exposes, through
   errors.As, a structured error built at a site whose code is of the right family *)
Section Structured.
  Variable T : table.
  Variables X B api : list N.
  Hypothesis Hok : site_table_ok X B api T = true.

  Definition good (e : err) : Prop :=
    is_ctx e = true \/
    exists n, In n T /\ as_structured e = Some (n_id n, n_code n) /\ node_family_ok n = true.

  Lemma ok_nodes : forall n, In n T -> mem (n_id n) B = false -> local_ok X B n = true.
  Proof.
    intros n Hn Hb. unfold site_table_ok in Hok. apply andb_true_iff in Hok. destruct Hok as [H _].
    rewrite forallb_forall in H. specialize (H _ Hn). rewrite Hb in H. exact H.
  Qed.

  Lemma good_at_ok_nodes :
    forall i e, derives T i e -> mem i B = false -> uses_no X e = true -> good e.
  Proof.
    intros i e D. induction D as [n Hn Hk|n Hn Hk|n Hn Hk|n Hn Hk|n m e Hn Hk Hm D IH|n m e Hn Hk Hm D IH
                                  |n m e Hn Hk Hm D IH|n m e Hn Hk Hm D IH]; intros Hb Hu;
      pose proof (ok_nodes n Hn Hb) as L; unfold local_ok in L; rewrite Hk in L;
      try (pose proof (uses_no_head _ _ Hu) as Hh; cbn [site_of] in Hh).
    - rewrite Hh in L. cbn [orb] in L. right. exists n. cbn [as_structured]. auto.
    - left. reflexivity.
    - rewrite Hh in L. discriminate L.
    - rewrite Hh in L. discriminate L.
    - rewrite forallb_forall in L. specialize (L _ Hm). apply negb_true_iff in L. apply IH; assumption.
    - rewrite Hh in L. cbn [orb] in L.
      rewrite forallb_forall in L. specialize (L _ Hm). apply negb_true_iff in L.
      pose proof (uses_no_sub _ _ Hu) as Hs. cbn in Hs.
      destruct (IH L Hs) as [G|[n' [Hn' [Ha Hf]]]].
      + left. exact G.
      + right. exists n'. cbn [as_structured]. auto.
    - rewrite Hh in L. cbn [orb] in L. right. exists n. cbn [as_structured]. auto.
    - rewrite Hh in L. cbn [orb] in L.
      apply andb_true_iff in L. destruct L as [Lc Lf]. apply negb_true_iff in Lc.
      right. exists n. cbn [as_structured]. rewrite Lc. auto.
  Qed.

  Theorem structured_reachable_except :
    forall a e, In a api -> derives T a e -> uses_no X e = true -> good e.
  Proof.
    intros a e Ha D Hu. apply (good_at_ok_nodes a e D); [|assumption].
    unfold site_table_ok in Hok. apply andb_true_iff in Hok. destruct Hok as [_ H].
    rewrite forallb_forall in H. specialize (H _ Ha). now apply negb_true_iff in H.
  Qed.
End Structured.

(* ------------------------------------------------------------------------------------------------------
   C13, part 2: wrapped causes stay reachable.  If no site rebuilds an error from the text of another one,
   every error that went into the making of a returned error is on its Unwrap chain *)
Section Cause.
  Variable T : table.
  Variable X : list N.
  Hypothesis Hnr : no_rewrap X T = true.

  Theorem cause_reachable_except :
    forall i e, derives T i e -> uses_no X e = true -> subterms e = chain e.
  Proof.
    intros i e D. induction D as [n Hn Hk|n Hn Hk|n Hn Hk|n Hn Hk|n m e Hn Hk Hm D IH|n m e Hn Hk Hm D IH
                                  |n m e Hn Hk Hm D IH|n m e Hn Hk Hm D IH]; intro Hu;
      try reflexivity.
    - auto.
    - pose proof (uses_no_sub _ _ Hu) as Hs. cbn in Hs. cbn [subterms chain]. now rewrite IH.
    - pose proof (uses_no_sub _ _ Hu) as Hs. cbn in Hs. cbn [subterms chain]. now rewrite IH.
    - exfalso. unfold no_rewrap in Hnr. rewrite forallb_forall in Hnr. specialize (Hnr _ Hn).
      unfold is_rewrap in Hnr. rewrite Hk in Hnr. cbn [negb orb] in Hnr.
      apply uses_no_head in Hu. cbn [site_of] in Hu. congruence.
  Qed.

  (* consequence for limit (and all other) codes: the code of the error a returned error was made from is
     exposed along the Unwrap chain *)
  Lemma chain_codes_leaf : forall e, subterms e = chain e ->
    match leaf_of e with
    | Leaf _ c => In c (chain_codes e)
    | _ => True
    end.
  Proof.
    induction e as [s c|s|s|s e IH|s c e IH|s c e IH]; cbn [subterms chain leaf_of chain_codes]; intro H;
      try exact I.
    - now left.
    - injection H as H. apply IH in H. exact H.
    - injection H as H. destruct e; discriminate H.
    - injection H as H. apply IH in H. destruct (leaf_of e); try exact I. now right.
  Qed.

  Theorem origin_code_exposed :
    forall i e s c, derives T i e -> uses_no X e = true -> leaf_of e = Leaf s c -> In c (chain_codes e).
  Proof.
    intros i e s c D Hu Hl. pose proof (chain_codes_leaf e (cause_reachable_except i e D Hu)) as H.
    now rewrite Hl in H.
  Qed.
End Cause.

(* a re-wrap site refutes cause reachability: whatever flows into it is cut off the chain *)
Theorem rewrap_cuts_chain :
  forall T n m e, In n T -> n_kind n = KRewrapv -> In m (n_dropped n) -> derives T m e ->
    exists e', derives T (n_id n) e' /\ In e (subterms e') /\ ~ In e (chain e') /\ subterms e' <> chain e'.
Proof.
  intros T n m e Hn Hk Hm D. exists (Rewrapv (n_id n) (n_code n) e). split; [|split; [|split]].
  - eapply D_rewrapv; eauto.
  - cbn [subterms]. right. destruct e; cbn [subterms]; now left.
  - cbn [chain]. intros [H|[]].
    assert (Hs : forall x, (length (subterms x) >= 1)%nat) by (destruct x; cbn [subterms length]; lia).
    apply (f_equal (fun x => length (subterms x))) in H. cbn [subterms length] in H.
    specialize (Hs e). lia.
  - cbn [subterms chain]. intro H. injection H as H. destruct e; discriminate H.
Qed.

(* ------------------------------------------------------------------------------------------------------
   C11 (reported as such): an error made from a context error still satisfies errors.Is(err, ctx.Err())
   when it arrives anywhere, provided no re-wrap-by-text site can receive an error made from a poll *)
Section Ctx.
  Variable T : table.
  Variables X F : list N.
  Hypothesis HF : ctx_free_ok F T = true.
  Hypothesis Hnr : no_rewrap_on_poll_paths X F T = true.

  Lemma ctx_free_node : forall n, In n T -> mem (n_id n) F = true ->
    n_kind n <> KCtx /\ subset (n_inner n) F = true /\ subset (n_dropped n) F = true.
  Proof.
    intros n Hn Hf. unfold ctx_free_ok in HF. rewrite forallb_forall in HF. specialize (HF _ Hn).
    rewrite Hf in HF. cbn [negb orb] in HF.
    apply andb_true_iff in HF. destruct HF as [H1 Hd]. apply andb_true_iff in H1. destruct H1 as [Hk Hi].
    split; [|split]; try assumption. intro E. rewrite E in Hk. discriminate Hk.
  Qed.

  Lemma ctx_free_sound : forall i e, derives T i e -> mem i F = true -> has_ctx_leaf e = false.
  Proof.
    intros i e D. induction D as [n Hn Hk|n Hn Hk|n Hn Hk|n Hn Hk|n m e Hn Hk Hm D IH|n m e Hn Hk Hm D IH
                                  |n m e Hn Hk Hm D IH|n m e Hn Hk Hm D IH]; intro Hf;
      try reflexivity; destruct (ctx_free_node n Hn Hf) as [Hc [Hi Hd]].
    - congruence.
    - apply IH. exact (subset_In _ _ Hi _ Hm).
    - unfold has_ctx_leaf. cbn [leaf_of]. apply IH. exact (subset_In _ _ Hi _ Hm).
    - unfold has_ctx_leaf. cbn [leaf_of]. apply IH. exact (subset_In _ _ Hi _ Hm).
    - unfold has_ctx_leaf. cbn [leaf_of]. apply IH. exact (subset_In _ _ Hd _ Hm).
  Qed.

  Theorem ctx_reported_except :
    forall i e, derives T i e -> uses_no X e = true -> has_ctx_leaf e = true -> is_ctx e = true.
  Proof.
    intros i e D. induction D as [n Hn Hk|n Hn Hk|n Hn Hk|n Hn Hk|n m e Hn Hk Hm D IH|n m e Hn Hk Hm D IH
                                  |n m e Hn Hk Hm D IH|n m e Hn Hk Hm D IH]; intros Hu Hl;
      try discriminate Hl; try reflexivity.
    - auto.
    - pose proof (uses_no_sub _ _ Hu) as Hs. cbn in Hs. cbn [is_ctx]. apply IH; assumption.
    - pose proof (uses_no_sub _ _ Hu) as Hs. cbn in Hs. cbn [is_ctx]. apply IH; assumption.
    - exfalso. unfold no_rewrap_on_poll_paths in Hnr. rewrite forallb_forall in Hnr. specialize (Hnr _ Hn).
      apply uses_no_head in Hu. cbn [site_of] in Hu. rewrite Hu in Hnr. cbn [orb] in Hnr.
      pose proof (subset_In _ _ Hnr _ Hm) as Hf.
      pose proof (ctx_free_sound _ _ D Hf) as Hc.
      unfold has_ctx_leaf in Hl. cbn [leaf_of] in Hl. unfold has_ctx_leaf in Hc. congruence.
  Qed.
End Ctx.

(* a re-wrap site that can receive an error made from a poll refutes it *)
Theorem rewrap_hides_ctx :
  forall T n m e, In n T -> n_kind n = KRewrapv -> In m (n_dropped n) -> derives T m e -> has_ctx_leaf e = true ->
    exists e', derives T (n_id n) e' /\ has_ctx_leaf e' = true /\ is_ctx e' = false.
Proof.
  intros T n m e Hn Hk Hm D Hl. exists (Rewrapv (n_id n) (n_code n) e). split; [|split].
  - eapply D_rewrapv; eauto.
  - exact Hl.
  - reflexivity.
Qed.

(* errors.Is never reports a context error for an error that was not made from one *)
Lemma is_ctx_leaf : forall e, is_ctx e = true -> has_ctx_leaf e = true.
Proof.
  unfold has_ctx_leaf. induction e; cbn [is_ctx leaf_of]; intro H; try discriminate H; auto.
Qed.

(* the evaluator used for the correspondence is sound: a chain shape it accepts is the shape of a derivable
   error value *)
Lemma lookup_sound T i n : lookup T i = Some n -> In n T /\ n_id n = i.
Proof.
  unfold lookup. intro H. apply find_some in H. destruct H as [H1 H2]. apply N.eqb_eq in H2. auto.
Qed.

Lemma inh_close_sound : forall T fuel S,
  (forall i, In i S -> exists e, derives T i e) ->
  forall i, In i (inh_close T fuel S) -> exists e, derives T i e.
Proof.
  intros T. induction fuel as [|f IH]; intros S HS i Hi; cbn [inh_close] in Hi; [auto|].
  destruct (inh_step T S) as [|x xs] eqn:E; [auto|].
  apply (IH (map n_id (x :: xs) ++ S)); [|exact Hi].
  intros j Hj. apply in_app_or in Hj. destruct Hj as [Hj|Hj]; [|auto].
  apply in_map_iff in Hj. destruct Hj as [n [Hid Hn]]. subst j. rewrite <- E in Hn.
  unfold inh_step in Hn. apply filter_In in Hn. destruct Hn as [HnT Hc].
  apply andb_true_iff in Hc. destruct Hc as [_ Hc].
  destruct (n_kind n) eqn:K.
  - apply existsb_exists in Hc. destruct Hc as [m [Hm HmS]]. apply mem_In in HmS.
    destruct (HS _ HmS) as [e D]. exists e. eapply D_fun; eauto.
  - eexists. eapply D_leaf; eauto.
  - eexists. eapply D_ctx; eauto.
  - eexists. eapply D_bare; eauto.
  - apply existsb_exists in Hc. destruct Hc as [m [Hm HmS]]. apply mem_In in HmS.
    destruct (HS _ HmS) as [e D]. eexists. eapply D_wrapw; eauto.
  - apply existsb_exists in Hc. destruct Hc as [m [Hm HmS]]. apply mem_In in HmS.
    destruct (HS _ HmS) as [e D]. eexists. eapply D_rewrapv; eauto.
  - apply existsb_exists in Hc. destruct Hc as [m [Hm HmS]]. apply mem_In in HmS.
    destruct (HS _ HmS) as [e D]. eexists. eapply D_cause; eauto.
  - eexists. eapply D_unknown; eauto.
Qed.

Lemma inhab_set_sound : forall T i, In i (inhab_set T) -> exists e, derives T i e.
Proof. intros T. unfold inhab_set. apply inh_close_sound. intros i []. Qed.

Section Eval.
  Variable T : table.
  Definition sound_set (S : list N) (sh : oshape) : Prop :=
    forall i, In i S -> exists e, derives T i e /\ shape_of e = sh.

  Lemma close_sound : forall fuel S sh, sound_set S sh -> sound_set (close T fuel S) sh.
  Proof.
    induction fuel as [|f IH]; intros S sh HS; cbn [close]; [exact HS|].
    destruct (fun_step T S) as [|x xs] eqn:E; [exact HS|].
    apply IH. intros i Hi. apply in_app_or in Hi. destruct Hi as [Hi|Hi]; [|auto].
    apply in_map_iff in Hi. destruct Hi as [n [Hid Hn]]. subst i. rewrite <- E in Hn.
    unfold fun_step in Hn. apply filter_In in Hn. destruct Hn as [HnT Hc].
    apply andb_true_iff in Hc. destruct Hc as [Hc Hex]. apply andb_true_iff in Hc. destruct Hc as [Hf _].
    apply existsb_exists in Hex. destruct Hex as [m [Hm HmS]]. apply mem_In in HmS.
    destruct (HS _ HmS) as [e [D Sh]]. exists e. split; [|exact Sh].
    eapply D_fun; eauto. unfold is_fun in Hf. destruct (n_kind n); try discriminate Hf. reflexivity.
  Qed.

  Lemma term_sound : forall n k c, In n T -> term_match (inhab_set T) n k c = true ->
    exists e, derives T (n_id n) e /\ shape_of e = [(k, c)].
  Proof.
    intros n k c Hn H. unfold term_match in H. destruct (n_kind n) eqn:K; try discriminate H.
    - apply andb_true_iff in H. destruct H as [H1 H2]. apply N.eqb_eq in H1, H2. subst.
      eexists. split; [eapply D_leaf; eauto|reflexivity].
    - apply andb_true_iff in H. destruct H as [H1 H2]. apply N.eqb_eq in H1, H2. subst.
      eexists. split; [eapply D_ctx; eauto|reflexivity].
    - apply andb_true_iff in H. destruct H as [H1 H2]. apply N.eqb_eq in H1, H2. subst.
      eexists. split; [eapply D_bare; eauto|reflexivity].
    - apply andb_true_iff in H. destruct H as [H1 H2].
      apply existsb_exists in H2. destruct H2 as [m [Hm Hp]]. apply mem_In in Hp.
      destruct (inhab_set_sound _ _ Hp) as [e D].
      eexists. split; [eapply D_rewrapv; eauto|]. cbn [shape_of].
      destruct (n_code n =? 0) eqn:Z; apply andb_true_iff in H1; destruct H1 as [Ha Hb];
        apply N.eqb_eq in Ha, Hb; now subst.
    - apply andb_true_iff in H. destruct H as [H1 H2]. apply N.eqb_eq in H1, H2. subst.
      eexists. split; [eapply D_unknown; eauto|reflexivity].
  Qed.

  Lemma wrap_sound : forall n k c m e, In n T -> wrap_match n k c = true -> In m (n_inner n) -> derives T m e ->
    exists e', derives T (n_id n) e' /\ shape_of e' = (k, c) :: shape_of e.
  Proof.
    intros n k c m e Hn H Hm D. unfold wrap_match in H. destruct (n_kind n) eqn:K; try discriminate H;
      apply andb_true_iff in H; destruct H as [H1 H2]; apply N.eqb_eq in H1, H2; subst.
    - eexists. split; [eapply D_wrapw; eauto|reflexivity].
    - eexists. split; [eapply D_cause; eauto|reflexivity].
  Qed.

  Theorem prod_set_sound : forall sh, sound_set (prod_set T (inhab_set T) sh) sh.
  Proof.
    induction sh as [|[k c] rest IH]; [intros i []|].
    cbn [prod_set]. apply close_sound. destruct rest as [|p rest'].
    - intros i Hi. apply in_map_iff in Hi. destruct Hi as [n [Hid Hn]]. subst i.
      apply filter_In in Hn. destruct Hn as [HnT Hm]. exact (term_sound n k c HnT Hm).
    - intros i Hi. apply in_map_iff in Hi. destruct Hi as [n [Hid Hn]]. subst i.
      apply filter_In in Hn. destruct Hn as [HnT Hc]. apply andb_true_iff in Hc. destruct Hc as [Hw Hex].
      apply existsb_exists in Hex. destruct Hex as [m [Hm HmS]]. apply mem_In in HmS.
      destruct (IH _ HmS) as [e [D Sh]].
      destruct (wrap_sound n k c m e HnT Hw Hm D) as [e' [D' Sh']]. exists e'. split; [exact D'|].
      rewrite Sh'. now rewrite Sh.
  Qed.

  Theorem produces_sound :
    forall i sh, produces T i sh = true -> exists e, derives T i e /\ shape_of e = sh.
  Proof. intros i sh H. unfold produces in H. apply mem_In in H. exact (prod_set_sound sh i H). Qed.
End Eval.

(* errors.Is read off the observed shape agrees with is_ctx of the value *)
Lemma shape_is_ctx_correct : forall e, shape_is_ctx (shape_of e) = is_ctx e.
Proof.
  induction e as [s c|s|s|s e IH|s c e IH|s c e IH]; cbn [shape_of shape_is_ctx is_ctx]; try reflexivity.
  - exact IH.
  - destruct (c =? 0); reflexivity.
  - exact IH.
Qed.
