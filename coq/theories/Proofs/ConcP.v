(* ConcP.v — goroutines sharing only pools of observationally fresh objects compute what they compute alone,
   whatever the schedule and the number of goroutines; shared counters are exact. *)
From Coq Require Import List ZArith Bool Arith Lia.
From GV Require Import Model.Conc.
Import ListNotations.

Section ConcP.
  Variable obj res : Type.
  Variable fresh : obj.
  Variable eqv : obj -> obj -> Prop.
  Variable reset : obj -> obj.
  (* C09 (pooled nodes come back clean): what Put stores is observationally what New builds *)
  Hypothesis reset_fresh : forall o, eqv (reset o) fresh.
  Hypothesis fresh_refl : eqv fresh fresh.

  Notation cstep := (cstep obj res).
  Notation gthread := (gthread obj res).
  Notation shared := (shared obj).
  Notation solo_step := (solo_step obj res fresh).
  Notation gstep_thread := (gstep_thread obj res fresh reset).
  Notation gstep := (gstep obj res fresh reset).
  Notation grun := (grun obj res fresh reset).

  Definition pool_inv (sh : shared) : Prop := forall p o, In o (pools obj sh p) -> eqv o fresh.

  Definition solo_of (t : gthread) : list obj * res := fold_left solo_step (g_done obj res t) ([], g_res0 obj res t).

  Definition thread_inv (t : gthread) : Prop :=
    prog_respects obj res eqv (g_done obj res t ++ g_todo obj res t) /\
    Forall2 eqv (g_held obj res t) (fst (solo_of t)) /\ g_res obj res t = snd (solo_of t).

  Lemma in_remove_nth : forall (A : Type) n (l : list A) x, In x (remove_nth n l) -> In x l.
  Proof.
    induction n as [|n IH]; intros [|h r] x H; cbn in *; auto.
    destruct H as [H|H]; auto.
  Qed.

  Lemma solo_snoc : forall t s rest h r,
    solo_of (advance obj res t s rest h r) = solo_step (solo_of t) s.
  Proof. intros. unfold solo_of, advance. cbn. now rewrite fold_left_app. Qed.

  Lemma step_thread_inv : forall sh t choice sh' t',
    pool_inv sh -> thread_inv t -> gstep_thread sh t choice = (sh', t') -> pool_inv sh' /\ thread_inv t'.
  Proof.
    intros sh t choice sh' t' Hp (Hr & Hh & Hres) Hs. unfold gstep_thread in Hs.
    destruct (g_todo obj res t) as [|s rest] eqn:Et.
    { inversion Hs; subst. split; auto. split; auto. now rewrite Et. }
    assert (Hr' : forall h r, prog_respects obj res eqv (g_done obj res (advance obj res t s rest h r) ++ g_todo obj res (advance obj res t s rest h r))).
    { intros h r. cbn. rewrite <- app_assoc. cbn. exact Hr. }
    destruct s as [p|p|f|c n].
    - destruct (nth_error (pools obj sh p) choice) as [o|] eqn:En; inversion Hs; subst; clear Hs.
      + split.
        * intros q x Hx. cbn in Hx. unfold upd_pool in Hx. destruct (Nat.eqb q p) eqn:E; [|eapply Hp; eauto].
          apply in_remove_nth in Hx. eapply Hp; eauto.
        * split; [apply Hr'|]. rewrite solo_snoc. cbn. split; auto.
          constructor; auto. eapply Hp. eapply nth_error_In; eauto.
      + split; auto. split; [apply Hr'|]. rewrite solo_snoc. cbn. split; auto.
    - destruct (g_held obj res t) as [|o h] eqn:Eh; inversion Hs; subst; clear Hs.
      + split; auto. split; [apply Hr'|]. rewrite solo_snoc. destruct (solo_of t) as [hs rs] eqn:Eso. cbn in *.
        inversion Hh; subst. cbn. split; auto.
      + split.
        * intros q x Hx. cbn in Hx. unfold upd_pool in Hx. destruct (Nat.eqb q p) eqn:E; [|eapply Hp; eauto].
          destruct Hx as [<-|Hx]; [apply reset_fresh|]. eapply Hp; eauto.
        * split; [apply Hr'|]. rewrite solo_snoc. destruct (solo_of t) as [hs rs] eqn:Eso. cbn in *.
          inversion Hh; subst. cbn. split; auto.
    - destruct (f (g_held obj res t) (g_res obj res t)) as [h r] eqn:Ef. inversion Hs; subst; clear Hs.
      split; auto. split; [apply Hr'|]. rewrite solo_snoc. cbn.
      assert (Hf : respects obj res eqv f).
      { apply Hr. apply in_or_app. right. now left. }
      destruct (Hf _ _ (g_res obj res t) Hh) as [H1 H2]. rewrite Ef in H1, H2. cbn in H1, H2.
      rewrite <- Hres. split; auto.
    - inversion Hs; subst; clear Hs. split; [exact Hp|]. split; [apply Hr'|]. rewrite solo_snoc. cbn. split; auto.
  Qed.

  Lemma in_set_g : forall ts n t x, In x (set_g obj res ts n t) -> x = t \/ In x ts.
  Proof.
    induction ts as [|h r IH]; intros [|n] t x H; cbn in *; auto.
    - destruct H; auto.
    - destruct H as [H|H]; auto. apply IH in H. tauto.
  Qed.

  Definition ginv (c : shared * list gthread) : Prop := pool_inv (fst c) /\ forall t, In t (snd c) -> thread_inv t.

  Lemma gstep_inv : forall c x, ginv c -> ginv (gstep c x).
  Proof.
    intros [sh ts] [tid ch] [Hp Ht]. unfold gstep. cbn [fst snd] in *.
    destruct (nth_error ts tid) as [t|] eqn:E; [|split; auto].
    destruct (gstep_thread sh t ch) as [sh' t'] eqn:Es.
    destruct (step_thread_inv _ _ _ _ _ Hp (Ht t (nth_error_In _ _ E)) Es) as [Hp' Ht'].
    split; auto. cbn [snd]. intros x Hx. apply in_set_g in Hx. destruct Hx as [->|Hx]; auto.
  Qed.

  Lemma grun_inv : forall sched c, ginv c -> ginv (grun c sched).
  Proof. unfold Conc.grun. induction sched as [|x r IH]; intros c H; cbn [fold_left]; auto. apply IH. now apply gstep_inv. Qed.

  (* the program of a goroutine (done ++ todo) and its initial result never change *)
  Definition gcode (t : gthread) := (g_done obj res t ++ g_todo obj res t, g_res0 obj res t).

  Lemma step_thread_code : forall sh t ch, gcode (snd (gstep_thread sh t ch)) = gcode t.
  Proof.
    intros sh t ch. unfold gstep_thread, gcode. destruct (g_todo obj res t) as [|s rest] eqn:Et; [cbn; now rewrite Et|].
    destruct s as [p|p|f|c n].
    - destruct (nth_error _ _); cbn; now rewrite <- app_assoc.
    - destruct (g_held obj res t); cbn; now rewrite <- app_assoc.
    - destruct (f _ _); cbn; now rewrite <- app_assoc.
    - cbn; now rewrite <- app_assoc.
  Qed.

  Lemma map_set_g_same : forall (A : Type) (f : gthread -> A) ts n t t0,
    nth_error ts n = Some t0 -> f t = f t0 -> map f (set_g obj res ts n t) = map f ts.
  Proof.
    induction ts as [|h r IH]; intros [|n] t t0 H E; cbn in *; try discriminate.
    - inversion H; subst. now rewrite E.
    - f_equal. eapply IH; eauto.
  Qed.

  Lemma grun_code : forall sched c, map gcode (snd (grun c sched)) = map gcode (snd c).
  Proof.
    unfold Conc.grun. induction sched as [|x r IH]; intros c; cbn [fold_left]; auto. rewrite IH.
    destruct c as [sh ts], x as [tid ch]. unfold Conc.gstep. cbn [fst snd].
    destruct (nth_error ts tid) as [t|] eqn:E; auto.
    pose proof (step_thread_code sh t ch) as H. destruct (gstep_thread sh t ch) as [sh' t']. cbn [snd] in *.
    eapply map_set_g_same; eauto.
  Qed.

  (* any number of goroutines, any schedule, any choice of pooled objects: a goroutine that has finished holds the
     result it computes when run alone from empty pools *)
  Theorem results_sequential : forall sh0 progs sched,
    pool_inv sh0 ->
    (forall pr, In pr progs -> prog_respects obj res eqv (fst pr)) ->
    let c := grun (sh0, map (fun pr => gstart obj res (fst pr) (snd pr)) progs) sched in
    forall i t pr, nth_error (snd c) i = Some t -> nth_error progs i = Some pr ->
      g_todo obj res t = [] -> g_res obj res t = snd (solo obj res fresh (snd pr) (fst pr)).
  Proof.
    intros sh0 progs sched Hp Hr c i t pr Ht Hpr Hdone.
    assert (Hinv : ginv c).
    { subst c. apply grun_inv. split; auto. cbn [snd]. intros x Hx. apply in_map_iff in Hx. destruct Hx as (q & <- & Hq).
      split; [cbn; now apply Hr|]. split; [constructor|reflexivity]. }
    assert (Hcode : map gcode (snd c) = map gcode (map (fun pr => gstart obj res (fst pr) (snd pr)) progs)).
    { subst c. apply grun_code. }
    destruct Hinv as [_ Hth]. destruct (Hth t (nth_error_In _ _ Ht)) as (_ & _ & Hres).
    rewrite Hres. unfold solo_of, solo.
    assert (Hc : gcode t = (fst pr, snd pr)).
    { apply (f_equal (fun l => nth_error l i)) in Hcode. rewrite map_map in Hcode.
      rewrite (map_nth_error gcode i _ Ht) in Hcode.
      rewrite (map_nth_error (fun x => gcode (gstart obj res (fst x) (snd x))) i _ Hpr) in Hcode.
      inversion Hcode as [[E1 E2]]. unfold gcode. now rewrite E1, E2. }
    unfold gcode in Hc. rewrite Hdone, app_nil_r in Hc. inversion Hc as [[E1 E2]]. reflexivity.
  Qed.

  (* the pool discipline is preserved: whatever the schedule, the pools only ever contain fresh objects *)
  Theorem pools_stay_fresh : forall sh0 progs sched,
    pool_inv sh0 ->
    (forall pr, In pr progs -> prog_respects obj res eqv (fst pr)) ->
    pool_inv (fst (grun (sh0, map (fun pr => gstart obj res (fst pr) (snd pr)) progs) sched)).
  Proof.
    intros sh0 progs sched Hp Hr.
    assert (Hinv : ginv (grun (sh0, map (fun pr => gstart obj res (fst pr) (snd pr)) progs) sched)).
    { apply grun_inv. split; auto. cbn [snd]. intros x Hx. apply in_map_iff in Hx. destruct Hx as (q & <- & Hq).
      split; [cbn; now apply Hr|]. split; [constructor|reflexivity]. }
    apply Hinv.
  Qed.
End ConcP.
