(* LexWordP.v — reading a word (identifier or keyword) at the head of a well-formed item sequence: readIdentifier
   reads exactly the word, looks its upper-cased spelling up in the keyword table, and — when the word can start a
   two-word keyword — looks ahead across plain white space: the result is exactly the reading step next_lex of the
   reference grammar (one raw token for a completed two-word keyword, the plain word token otherwise, position
   restored). *)
From Coq Require Import List NArith Bool Lia Arith ZifyN ZifyBool.
From GV Require Import Gen.LexTables Model.Lexer Inst.Inst_C04 Spec.LexSpec Proofs.LexerP Proofs.LexSpecP Proofs.LexUtf8P
  Proofs.LexSepP Proofs.LexMunchP.
Import ListNotations.
Local Open Scope N_scope.

Definition lookahead (upper : list N) (plain : outcome (rtok * (list N * N))) (c3 : list N * N)
  : outcome (rtok * (list N * N)) :=
  match fst c3 with
  | [] => plain
  | _ => let '(r2, sz2) := decode_rune (fst c3) in
         if is_ident_start r2 then
           do (w2, c4) <- span is_ident_part (adv_rune c3 sz2);
           let next := firstn sz2 (fst c3) ++ w2 in
           let ucomp := upper ++ 32 :: to_upper next in
           match assoc_b compound_keywords ucomp with Some cty => Val ((cty, ucomp, 0), c4) | None => plain end
         else plain
  end.

Lemma read_identifier_unfold c : read_identifier c =
   let '(r, sz) := decode_rune (fst c) in
   let c1 := adv_rune c sz in
   do (w, c2) <- span is_ident_part c1;
   let ident := firstn sz (fst c) ++ w in
   let upper := to_upper ident in
   let plain := Val ((kw_type upper, ident, 0), c2) in
   if mem_b compound_starts upper then lookahead upper plain (skip_ws (fst c2) (snd c2)) else plain.
Proof. reflexivity. Qed.

Lemma lookahead_nonstart u plain T p :
  match T with [] => True | _ => is_ident_start (fst (decode_rune T)) = false end -> lookahead u plain (T, p) = plain.
Proof.
  intros H. unfold lookahead. cbn [fst]. destruct T as [|b t]; [reflexivity |].
  destruct (decode_rune (b :: t)) as [r2 sz2]. cbn [fst] in H. rewrite H. reflexivity.
Qed.

Lemma lookahead_word u plain rs2 R p :
  word_shape rs2 = true -> next_rune_not is_ident_part R = true ->
  lookahead u plain (utf8 rs2 ++ R, p) =
  match assoc_b compound_keywords (u ++ 32 :: to_upper (utf8 rs2)) with
  | Some cty => Val ((cty, u ++ 32 :: to_upper (utf8 rs2), 0), (R, p + N.of_nat (length (utf8 rs2))))
  | None => plain
  end.
Proof.
  intros WS FO. destruct (word_shape_inv _ WS) as (r0 & rtl & -> & IS & SC & IP & SS).
  unfold lookahead. cbn [fst utf8 flat_map]. fold (utf8 rtl). rewrite <- app_assoc.
  rewrite match_ne by apply enc_app_ne. rewrite (decode_encode r0 _ SC). cbv beta iota zeta. rewrite IS.
  rewrite adv_rune_app by apply encode_ne. rewrite span_utf8 by assumption. cbn [bind].
  rewrite firstn_app_len.
  destruct (assoc_b compound_keywords _); [| reflexivity].
  f_equal. f_equal. f_equal. len.
Qed.

(* ---------------------------------------------------------------------------------------------- *)
(* white space in front of the look-ahead *)
Lemma items_ok_drop_ws rest : items_ok rest = true -> items_ok (drop_ws rest) = true.
Proof.
  induction rest as [|[l|[b|body|body]] rest IH]; intros H.
  - exact H.
  - exact H.
  - cbn [drop_ws]. cbn [items_ok] in H. apply andb_prop in H. destruct H as [_ H]. auto.
  - exact H.
  - exact H.
Qed.

Lemma items_head_stop its : items_ok its = true ->
  match its with ITriv (TWs _) :: _ => True | _ =>
    match render_items its with [] => True | b :: _ => ws_byte b = false end end.
Proof.
  destruct its as [|[l|[b|body|body]] rest]; cbn [items_ok]; intros H.
  - exact I.
  - apply andb_prop in H. destruct H as [H _]. apply andb_prop in H. destruct H as [_ H].
    unfold follow_ok in H. apply andb_prop in H. destruct H as [_ H]. apply clean_stop in H. exact H.
  - exact I.
  - reflexivity.
  - reflexivity.
Qed.

Lemma skip_ws_items rest : forall p, items_ok rest = true ->
  skip_ws (render_items rest) p = (render_items (drop_ws rest), p + N.of_nat (ws_count rest)).
Proof.
  induction rest as [|it rest IH]; intros p OK.
  - cbn. rewrite N.add_0_r. reflexivity.
  - pose proof (items_head_stop _ OK) as HS.
    destruct it as [l|[b|body|body]].
    + cbn [drop_ws ws_count]. rewrite N.add_0_r. apply skip_ws_stop. exact HS.
    + cbn [items_ok triv_ok] in OK. apply andb_prop in OK. destruct OK as [OK OKR]. apply andb_prop in OK. destruct OK as [WB _].
      change (render_items (ITriv (TWs b) :: rest)) with (b :: render_items rest).
      rewrite skip_ws_cons_ws by exact WB. rewrite IH by exact OKR. cbn [drop_ws ws_count]. f_equal. lia.
    + cbn [drop_ws ws_count]. rewrite N.add_0_r. apply skip_ws_stop. exact HS.
    + cbn [drop_ws ws_count]. rewrite N.add_0_r. apply skip_ws_stop. exact HS.
Qed.

(* ---------------------------------------------------------------------------------------------- *)
(* what is not a word does not begin like one *)
Lemma ops_first_byte :
  forallb (fun e : list N * N * list N =>
             match fst (fst e) with b :: _ => (b <? 128) && negb (is_ident_start b) | [] => false end) all_ops = true.
Proof. vm_compute. reflexivity. Qed.

Lemma ascii_nonstart b t : b < 128 -> ascii_start b = false -> is_ident_start (fst (decode_rune (b :: t))) = false.
Proof. intros L A. rewrite decode_ascii by exact L. cbn [fst]. destruct (ascii_class b L) as [-> _]. exact A. Qed.

Lemma nonword_start l R : lex_ok l = true -> is_word l = false ->
  match render l ++ R with [] => True | _ => is_ident_start (fst (decode_rune (render l ++ R))) = false end.
Proof.
  intros OK NW. destruct l as [e| | |ip fp ex|rs|ds|rs|op cl items|op cl items|items|tag body|trs];
    cbn [is_word] in NW; try discriminate NW; cbn [lex_ok render] in *.
  - apply existsb_exists in OK. destruct OK as (e' & IN & EQ). apply op_eqb_eq in EQ. subst e'.
    pose proof ops_first_byte as F. rewrite forallb_forall in F. specialize (F _ IN).
    destruct (fst (fst e)) as [|b t]; [discriminate F |]. apply andb_prop in F. destruct F as [L NS].
    apply N.ltb_lt in L. apply negb_true_iff in NS. cbn [app]. rewrite decode_ascii by exact L. exact NS.
  - cbn [app]. apply ascii_nonstart; [lia | reflexivity].
  - cbn [app]. apply ascii_nonstart; [lia | reflexivity].
  - apply andb_prop in OK. destruct OK as [OK _]. apply andb_prop in OK. destruct OK as [OK _].
    destruct (digits_ok_inv _ OK) as (d & tl & -> & D1 & _). unfold num_text. cbn [app].
    destruct (digit_byte_lt _ D1) as [L _]. rewrite decode_ascii by exact L. cbn [fst]. apply digit_not_start. exact D1.
  - cbn [app]. apply ascii_nonstart; [lia | reflexivity].
  - cbn [app]. apply ascii_nonstart; [lia | reflexivity].
  - repeat (apply andb_prop in OK; destruct OK as [OK ?]).
    rewrite <- !app_assoc. rewrite match_ne by apply enc_app_ne.
    rewrite decode_encode by assumption. cbn [fst]. apply family_facts. assumption.
  - repeat (apply andb_prop in OK; destruct OK as [OK ?]).
    rewrite <- !app_assoc. rewrite match_ne by apply enc_app_ne.
    rewrite decode_encode by assumption. cbn [fst]. apply negb_true_iff. assumption.
  - cbn [app]. apply ascii_nonstart; [lia | reflexivity].
  - unfold dollar_tag. cbn [app]. apply ascii_nonstart; [lia | reflexivity].
  - cbn [app]. apply ascii_nonstart; [lia | reflexivity].
Qed.

(* ---------------------------------------------------------------------------------------------- *)
(* the word lemma *)
Lemma munch_word bs rs rest i :
  lex_ok (LWord rs) = true -> class_follow (LWord rs) (render_items rest) = true -> items_ok rest = true ->
  next_token bs (utf8 rs ++ render_items rest, i) =
  let '(tk, n, rest') := next_lex (LWord rs) rest in Val (tk, (render_items rest', i + N.of_nat n)).
Proof.
  intros OK FO OKR. cbn [lex_ok class_follow] in *.
  destruct (word_shape_inv _ OK) as (r0 & rtl & EQ & IS & SC & IP & SS).
  assert (NT : next_token bs (utf8 rs ++ render_items rest, i) = read_identifier (utf8 rs ++ render_items rest, i)).
  { subst rs. unfold next_token. cbn [fst utf8 flat_map]. fold (utf8 rtl). rewrite <- app_assoc.
    rewrite match_ne by apply enc_app_ne. rewrite (decode_encode r0 _ SC). cbv beta iota zeta. rewrite IS. reflexivity. }
  rewrite NT. rewrite read_identifier_unfold.
  assert (RD : decode_rune (fst (utf8 rs ++ render_items rest, i)) = (r0, length (encode_rune r0))).
  { subst rs. cbn [fst utf8 flat_map]. fold (utf8 rtl). rewrite <- app_assoc. apply decode_encode. exact SC. }
  rewrite RD.
  assert (AD : adv_rune (utf8 rs ++ render_items rest, i) (length (encode_rune r0)) =
               (utf8 rtl ++ render_items rest, i + N.of_nat (length (encode_rune r0)))).
  { subst rs. cbn [utf8 flat_map]. fold (utf8 rtl). rewrite <- app_assoc. apply adv_rune_app. apply encode_ne. }
  cbv zeta. rewrite AD. rewrite span_utf8 by assumption. cbn [bind fst snd].
  assert (ID : firstn (length (encode_rune r0)) (utf8 rs ++ render_items rest) ++ utf8 rtl = utf8 rs).
  { subst rs. cbn [utf8 flat_map]. fold (utf8 rtl). rewrite <- app_assoc. rewrite firstn_app_len. reflexivity. }
  rewrite ID.
  assert (LEN : i + N.of_nat (length (encode_rune r0)) + N.of_nat (length (utf8 rtl)) = i + N.of_nat (length (utf8 rs))).
  { subst rs. cbn [utf8 flat_map]. fold (utf8 rtl). rewrite app_length. lia. }
  rewrite LEN.
  unfold next_lex. cbn [tok_of render].
  destruct (mem_b compound_starts (to_upper (utf8 rs))); [| reflexivity].
  rewrite skip_ws_items by exact OKR.
  pose proof (items_ok_drop_ws _ OKR) as OKD.
  destruct (drop_ws rest) as [|[l|t] rest2] eqn:DW.
  - cbn [render_items flat_map]. reflexivity.
  - cbn [items_ok] in OKD. apply andb_prop in OKD. destruct OKD as [OKD OK2]. apply andb_prop in OKD.
    destruct OKD as [LOK LFO]. unfold follow_ok in LFO. apply andb_prop in LFO. destruct LFO as [LFO _].
    change (render_items (ILex l :: rest2)) with (render l ++ render_items rest2).
    destruct l as [e| | |ip fp ex|rs2|ds|rs2|op cl items|op cl items|items|tag body|trs];
      try (rewrite lookahead_nonstart by (apply nonword_start; [exact LOK | reflexivity]); reflexivity).
    cbn [render lex_ok class_follow] in *. rewrite lookahead_word by assumption.
    destruct (assoc_b compound_keywords _); [| reflexivity].
    match goal with |- Val (_, (_, ?a)) = Val (_, (_, ?b)) => replace b with a by lia end. reflexivity.
  - destruct t as [b|body|body].
    + exfalso. clear - DW. induction rest as [|[l|[b'|body|body]] rest IH]; cbn [drop_ws] in DW; try discriminate; auto.
    + rewrite lookahead_nonstart; [reflexivity |].
      change (render_items (ITriv (TLine body) :: rest2)) with (45 :: 45 :: body ++ render_items rest2).
      apply ascii_nonstart; [lia | reflexivity].
    + rewrite lookahead_nonstart; [reflexivity |].
      change (render_items (ITriv (TBlock body) :: rest2)) with ((47 :: 42 :: body ++ [42; 47]) ++ render_items rest2).
      cbn [app]. apply ascii_nonstart; [lia | reflexivity].
Qed.
