(* LexerP.v — lemmas about Model/Lexer.v: cursor stepping (every reader consumes a non-empty prefix of the
   remaining input and keeps the byte index in step), totality (no Panic, no OutOfFuel), exactly one end marker,
   limits, comment capture. *)
From Coq Require Import List NArith Bool Lia Arith.
From GV Require Import Gen.LexTables Model.Lexer Inst.Inst_C04.
Import ListNotations.
Local Open Scope N_scope.

(* ---------------------------------------------------------------------------------------------- *)
(* outcomes *)

Definition post {A} (P : A -> Prop) (o : outcome A) : Prop :=
  match o with
  | Val a => P a
  | Err _ _ _ => True
  | Panic => False
  | OutOfFuel => False
  end.

Lemma post_bind {A B} (Q : A -> Prop) (P : B -> Prop) (x : outcome A) (f : A -> outcome B) :
  post Q x -> (forall a, Q a -> post P (f a)) -> post P (bind x f).
Proof. destruct x; cbn; auto. Qed.

Lemma post_weaken {A} (P Q : A -> Prop) (o : outcome A) : post P o -> (forall a, P a -> Q a) -> post Q o.
Proof. destruct o; cbn; auto. Qed.

Lemma post_val_inv {A} (P : A -> Prop) o a : post P o -> o = Val a -> P a.
Proof. intros H ->. exact H. Qed.

Lemma post_not_panic {A} (P : A -> Prop) o : post P o -> o <> Panic /\ o <> OutOfFuel.
Proof. destruct o; cbn; intros H; split; congruence || contradiction. Qed.

(* ---------------------------------------------------------------------------------------------- *)
(* cursor stepping *)

(* c' is c after consuming exactly the bytes w *)
Definition stepw (w : bytes) (c c' : cur) : Prop :=
  fst c = w ++ fst c' /\ snd c' = snd c + N.of_nat (length w).

Lemma stepw_nil c : stepw [] c c.
Proof. split; cbn; [reflexivity | lia]. Qed.

Lemma stepw_trans w1 w2 c c1 c2 : stepw w1 c c1 -> stepw w2 c1 c2 -> stepw (w1 ++ w2) c c2.
Proof.
  intros [H1 I1] [H2 I2]. split.
  - rewrite H1, H2, app_assoc. reflexivity.
  - rewrite I2, I1, app_length. lia.
Qed.

Lemma stepw_len w c c' : stepw w c c' -> length (fst c) = (length w + length (fst c'))%nat.
Proof. intros [H _]. rewrite H, app_length. reflexivity. Qed.

Lemma stepw_adv c n : (n <= length (fst c))%nat -> stepw (firstn n (fst c)) c (adv c n).
Proof.
  intros H. split; cbn.
  - symmetry. apply firstn_skipn.
  - rewrite firstn_length_le by exact H. reflexivity.
Qed.

Lemma stepw_adv1 c b tl : fst c = b :: tl -> stepw [b] c (adv c 1).
Proof.
  intros H. replace [b] with (firstn 1 (fst c)) by (rewrite H; reflexivity).
  apply stepw_adv. rewrite H. cbn. lia.
Qed.

Lemma stepw_cons b w tl p c' : stepw w (tl, p + 1) c' -> stepw (b :: w) (b :: tl, p) c'.
Proof.
  intros [S1 S2]. cbn [fst snd] in *. split; cbn [fst snd app length].
  - f_equal. exact S1.
  - rewrite S2. lia.
Qed.

(* strict step: some non-empty w *)
Definition step1 (c c' : cur) : Prop := exists w, w <> [] /\ stepw w c c'.
Definition step0 (c c' : cur) : Prop := exists w, stepw w c c'.

Lemma step1_step0 c c' : step1 c c' -> step0 c c'.
Proof. intros (w & _ & H). exists w. exact H. Qed.
Lemma step0_refl c : step0 c c.
Proof. exists []. apply stepw_nil. Qed.
Lemma step0_trans c c1 c2 : step0 c c1 -> step0 c1 c2 -> step0 c c2.
Proof. intros (w1 & H1) (w2 & H2). exists (w1 ++ w2). eapply stepw_trans; eauto. Qed.
Lemma step1_0 c c1 c2 : step1 c c1 -> step0 c1 c2 -> step1 c c2.
Proof.
  intros (w1 & N1 & H1) (w2 & H2). exists (w1 ++ w2). split.
  - destruct w1; [congruence | discriminate].
  - eapply stepw_trans; eauto.
Qed.
Lemma step0_1 c c1 c2 : step0 c c1 -> step1 c1 c2 -> step1 c c2.
Proof.
  intros (w1 & H1) (w2 & N2 & H2). exists (w1 ++ w2). split.
  - destruct w1; cbn; [exact N2 | discriminate].
  - eapply stepw_trans; eauto.
Qed.
Lemma step1_len c c' : step1 c c' -> (length (fst c') < length (fst c))%nat.
Proof. intros (w & N & H). apply stepw_len in H. destruct w; [congruence | cbn in H; lia]. Qed.
Lemma step0_len c c' : step0 c c' -> (length (fst c') <= length (fst c))%nat.
Proof. intros (w & H). apply stepw_len in H. lia. Qed.
Lemma step0_idx c c' : step0 c c' -> snd c <= snd c'.
Proof. intros (w & _ & H). lia. Qed.
Lemma step1_idx c c' : step1 c c' -> snd c < snd c'.
Proof. intros (w & N & _ & H). destruct w; [congruence | cbn [length] in H; lia]. Qed.

Lemma step1_adv c n : (1 <= n <= length (fst c))%nat -> step1 c (adv c n).
Proof.
  intros H. exists (firstn n (fst c)). split.
  - destruct (fst c) eqn:E; cbn in H; [lia |]. destruct n; [lia | discriminate].
  - apply stepw_adv. lia.
Qed.

(* ---------------------------------------------------------------------------------------------- *)
(* utf8.DecodeRune: on non-empty input the width is between 1 and the number of remaining bytes *)

Lemma decode_size l : l <> [] -> (1 <= snd (decode_rune l) <= length l)%nat.
Proof.
  destruct l as [|b0 tl]; [congruence | intros _].
  unfold decode_rune.
  destruct (b0 <? 128); [cbn; lia |].
  destruct (in_rng 194 223 b0).
  { destruct tl as [|b1 tl]; [cbn; lia |]. destruct (is_cont b1); cbn; lia. }
  destruct (in_rng 224 239 b0).
  { destruct tl as [|b1 [|b2 tl]]; try (cbn; lia).
    destruct (in_rng _ _ b1 && is_cont b2); cbn; lia. }
  destruct (in_rng 240 244 b0).
  { destruct tl as [|b1 [|b2 [|b3 tl]]]; try (cbn; lia).
    destruct (in_rng _ _ b1 && is_cont b2 && is_cont b3); cbn; lia. }
  cbn; lia.
Qed.

Lemma decode_ascii b tl : b < 128 -> decode_rune (b :: tl) = (b, 1%nat).
Proof. intros H. unfold decode_rune. apply N.ltb_lt in H. rewrite H. reflexivity. Qed.

Lemma step1_adv_rune c r sz : fst c <> [] -> decode_rune (fst c) = (r, sz) -> step1 c (adv_rune c sz).
Proof.
  intros NE D. pose proof (decode_size _ NE) as S. rewrite D in S. cbn in S.
  unfold adv_rune. destruct sz; [lia |]. apply step1_adv. lia.
Qed.

Lemma stepw_adv_rune c r sz :
  fst c <> [] -> decode_rune (fst c) = (r, sz) -> stepw (firstn sz (fst c)) c (adv_rune c sz) /\ firstn sz (fst c) <> [].
Proof.
  intros NE D. pose proof (decode_size _ NE) as S. rewrite D in S. cbn in S.
  unfold adv_rune. destruct sz; [lia |]. split.
  - apply stepw_adv. lia.
  - destruct (fst c); [congruence | discriminate].
Qed.

Lemma adv_rune_len c r sz :
  fst c <> [] -> decode_rune (fst c) = (r, sz) -> (length (fst (adv_rune c sz)) < length (fst c))%nat.
Proof. intros NE D. apply step1_len. eapply step1_adv_rune; eauto. Qed.

(* ---------------------------------------------------------------------------------------------- *)
(* skipWhitespace *)

Lemma skip_ws_step l p : step0 (l, p) (skip_ws l p).
Proof.
  revert p. induction l as [|b tl IH]; intros p; cbn [skip_ws].
  - apply step0_refl.
  - assert (S1 : step0 (b :: tl, p) (tl, p + 1)).
    { exists [b]. split; cbn; [reflexivity | lia]. }
    destruct ((b =? 32) || (b =? 9) || (b =? 13)).
    + eapply step0_trans; [exact S1 | apply IH].
    + destruct (b =? 10).
      * eapply step0_trans; [exact S1 | apply IH].
      * apply step0_refl.
Qed.

(* what skip_ws consumed is white space, and what follows is not *)
Definition is_ws (b : N) : bool := (b =? 32) || (b =? 9) || (b =? 13) || (b =? 10).

Lemma skip_ws_spec l p :
  exists w, stepw w (l, p) (skip_ws l p) /\ forallb is_ws w = true /\
            match fst (skip_ws l p) with [] => True | b :: _ => is_ws b = false end.
Proof.
  revert p. induction l as [|b tl IH]; intros p; cbn [skip_ws].
  - exists []. split; [apply stepw_nil | split; [reflexivity | exact I]].
  - unfold is_ws in *. destruct ((b =? 32) || (b =? 9) || (b =? 13)) eqn:E1.
    + destruct (IH (p + 1)) as (w & S & F & T). exists (b :: w). split; [| split].
      * apply stepw_cons. exact S.
      * cbn [forallb]. rewrite E1. cbn. exact F.
      * exact T.
    + destruct (b =? 10) eqn:E2.
      * destruct (IH (p + 1)) as (w & S & F & T). exists (b :: w). split; [| split].
        -- apply stepw_cons. exact S.
        -- cbn [forallb]. rewrite E1, E2. cbn. exact F.
        -- exact T.
      * exists []. split; [apply stepw_nil | split; [reflexivity |]]. cbn [fst]. rewrite E1, E2. reflexivity.
Qed.

(* ---------------------------------------------------------------------------------------------- *)
Section WithInput.
  Variable bs : bytes.

  Lemma err_at_post {A} (P : A -> Prop) code i : post P (err_at bs code i).
  Proof. unfold err_at. destruct (to_loc bs i). exact I. Qed.

  (* span_runes: never out of fuel when fuel exceeds the remaining length; returns exactly the bytes it consumed *)
  Lemma span_runes_post p fuel c :
    (length (fst c) < fuel)%nat -> post (fun wc => stepw (fst wc) c (snd wc)) (span_runes p fuel c).
  Proof.
    revert c. induction fuel as [|f IH]; intros c Hf; [lia |].
    destruct c as [l i]. cbn [span_runes fst]. destruct l as [|b tl].
    - cbn. apply stepw_nil.
    - destruct (decode_rune (b :: tl)) as [r sz] eqn:D.
      destruct (p r).
      + assert (NE : fst (b :: tl, i) <> []) by discriminate.
        destruct (stepw_adv_rune (b :: tl, i) r sz NE D) as [S1 N1].
        eapply post_bind.
        * apply IH. pose proof (adv_rune_len (b :: tl, i) r sz NE D) as L2. cbn [fst length] in L2, Hf. lia.
        * intros [w c'] Hs. cbn [fst snd post] in *. eapply stepw_trans; eauto.
      + cbn. apply stepw_nil.
  Qed.

  Lemma span_post p c : post (fun wc => stepw (fst wc) c (snd wc)) (span p c).
  Proof. unfold span. apply span_runes_post. lia. Qed.

  Lemma span_post0 p c : post (fun wc => step0 c (snd wc)) (span p c).
  Proof. eapply post_weaken; [apply span_post |]. intros [w c'] H. exists w. exact H. Qed.

  (* -------------------------------------------------------------------------------------------- *)
  (* comments *)

  (* cm is the comment read between cursors c and c' *)
  Definition com_ok (c : cur) (cm : comment) (c' : cur) : Prop :=
    stepw (ctext cm) c c' /\ cstart cm = snd c /\ cend cm = snd c' /\
    cinline cm = code_before bs (snd c) /\
    exists w, ctext cm = (if cstyle cm =? 0 then [45; 45] else [47; 42]) ++ w.

  Lemma stepw_adv2 c a b t : fst c = a :: b :: t -> stepw [a; b] c (adv c 2).
  Proof.
    intros H. replace [a; b] with (firstn 2 (fst c)) by (rewrite H; reflexivity).
    apply stepw_adv. rewrite H. cbn. lia.
  Qed.

  Lemma read_line_comment_post c t :
    fst c = 45 :: 45 :: t -> post (fun r => com_ok c (fst r) (snd r)) (read_line_comment bs c).
  Proof.
    intros H. unfold read_line_comment.
    eapply post_bind; [apply span_post |].
    intros [w c2] S. cbn [fst snd] in S. cbn [post fst snd].
    unfold com_ok. cbn [ctext cstart cend cinline cstyle].
    split; [| repeat split; try reflexivity; exists w; reflexivity].
    change (45 :: 45 :: w) with ([45; 45] ++ w). eapply stepw_trans; [eapply stepw_adv2; eauto | exact S].
  Qed.

  Lemma block_body_post fuel c :
    (length (fst c) < fuel)%nat ->
    post (fun o => match o with None => True | Some (w, c') => stepw w c c' end) (block_body fuel c).
  Proof.
    revert c. induction fuel as [|f IH]; intros c Hf; [lia |].
    destruct c as [l i]. cbn [block_body fst]. destruct l as [|b tl]; [exact I |].
    destruct (decode_rune (b :: tl)) as [r sz] eqn:D.
    assert (NE : fst (b :: tl, i) <> []) by discriminate.
    destruct (stepw_adv_rune (b :: tl, i) r sz NE D) as [S1 N1].
    pose proof (stepw_len _ _ _ S1) as L. cbn [fst] in L, S1, N1.
    assert (Hf' : (length (fst (adv_rune (b :: tl, i) sz)) < f)%nat).
    { pose proof (adv_rune_len (b :: tl, i) r sz NE D) as L2. cbn [fst length] in L2, Hf. lia. }
    set (c1 := adv_rune (b :: tl, i) sz) in *.
    assert (REC : post (fun o => match o with
                                 | Some (w, c') => stepw (firstn sz (b :: tl) ++ w) (b :: tl, i) c'
                                 | None => True end) (block_body f c1)).
    { eapply post_weaken; [apply IH; exact Hf' |]. intros [[w c']|]; [| auto].
      intros S2. eapply stepw_trans; eauto. }
    assert (REC' : post (fun o => match o with None => True | Some (w, c') => stepw w (b :: tl, i) c' end)
                     (do o <- block_body f c1;
                      Val (match o with Some (w, c') => Some (firstn sz (b :: tl) ++ w, c') | None => None end))).
    { eapply post_bind; [exact REC |]. intros [[w c']|]; cbn; auto. }
    destruct (r =? 42); [| exact REC'].
    destruct (fst c1) as [|b1 tl1] eqn:E1.
    - exact I.
    - destruct (decode_rune (b1 :: tl1)) as [nr ns] eqn:D1.
      destruct (nr =? 47); [| exact REC'].
      cbn [post].
      assert (NE1 : fst c1 <> []) by (rewrite E1; discriminate).
      rewrite <- E1 in D1. destruct (stepw_adv_rune c1 nr ns NE1 D1) as [S2 _].
      rewrite <- E1. eapply stepw_trans; eauto.
  Qed.

  Lemma read_block_comment_post c t :
    fst c = 47 :: 42 :: t -> post (fun r => com_ok c (fst r) (snd r)) (read_block_comment bs c).
  Proof.
    intros H. unfold read_block_comment.
    eapply post_bind; [apply block_body_post; lia |].
    intros [[w c2]|] S; [| apply err_at_post].
    cbn [post fst snd]. unfold com_ok. cbn [ctext cstart cend cinline cstyle].
    split; [| repeat split; try reflexivity; exists w; reflexivity].
    change (47 :: 42 :: w) with ([47; 42] ++ w). eapply stepw_trans; [eapply stepw_adv2; eauto | exact S].
  Qed.

  Lemma com_ok_step1 c cm c' : com_ok c cm c' -> step1 c c'.
  Proof.
    intros (S & _ & _ & _ & w & E). exists (ctext cm). split; [| exact S].
    rewrite E. destruct (cstyle cm =? 0); discriminate.
  Qed.

  (* the comments read by one run of skipWhitespaceAndComments, in order: each starts where white space after the
     previous cursor ends *)
  Inductive com_chain : cur -> list comment -> cur -> Prop :=
  | chain_nil c : com_chain c [] c
  | chain_cons c cm c' cms c'' :
      com_ok (skip_ws (fst c) (snd c)) cm c' -> com_chain c' cms c'' -> com_chain c (cm :: cms) c''.

  Lemma com_chain_step0 c cms c' : com_chain c cms c' -> step0 c c'.
  Proof.
    induction 1; [apply step0_refl |].
    eapply step0_trans; [apply skip_ws_step |]. destruct c as [l i]. cbn [fst snd] in *.
    eapply step0_trans; [apply step1_step0; eapply com_ok_step1; eauto | exact IHcom_chain].
  Qed.

  Lemma com_chain_app c a c1 b c2 : com_chain c a c1 -> com_chain c1 b c2 -> com_chain c (a ++ b) c2.
  Proof. induction 1; intros; cbn; [assumption | econstructor; eauto]. Qed.

  Lemma skip_trivia_post fuel c acc :
    (length (fst c) < fuel)%nat ->
    post (fun r => exists new c1, acc ++ new = snd r /\ com_chain c new c1 /\
                   fst r = skip_ws (fst c1) (snd c1)) (skip_trivia bs fuel c acc).
  Proof.
    revert c acc. induction fuel as [|f IH]; intros c acc Hf; [lia |].
    cbn [skip_trivia].
    pose proof (skip_ws_step (fst c) (snd c)) as W.
    set (c1 := skip_ws (fst c) (snd c)) in *.
    assert (BASE : post (fun r => exists new c0, acc ++ new = snd r /\ com_chain c new c0 /\
                                  fst r = skip_ws (fst c0) (snd c0)) (Val (c1, acc))).
    { cbn. exists [], c. rewrite app_nil_r. repeat split; constructor. }
    destruct (fst c1) as [|c0 [|c1b t]] eqn:E; try exact BASE.
    assert (L1 : (length (fst c1) <= length (fst c))%nat).
    { replace c with (fst c, snd c) in W by (destruct c; reflexivity). apply step0_len in W. exact W. }
    destruct ((c0 =? 45) && (c1b =? 45)) eqn:B1.
    - apply andb_prop in B1. destruct B1 as [B1 B2]. apply N.eqb_eq in B1, B2. subst c0 c1b.
      eapply post_bind; [eapply read_line_comment_post; eauto |].
      intros [cm c2] OK. cbn [fst snd] in OK.
      eapply post_weaken.
      + apply IH. pose proof (step1_len _ _ (com_ok_step1 _ _ _ OK)). lia.
      + intros [c' acc'] (new & c3 & A & CH & F). cbn [fst snd] in *.
        exists (cm :: new), c3. rewrite <- A, <- app_assoc. repeat split; auto.
        econstructor; eauto.
    - destruct ((c0 =? 47) && (c1b =? 42)) eqn:B2; [| exact BASE].
      apply andb_prop in B2. destruct B2 as [B2 B3]. apply N.eqb_eq in B2, B3. subst c0 c1b.
      eapply post_bind; [eapply read_block_comment_post; eauto |].
      intros [cm c2] OK. cbn [fst snd] in OK.
      eapply post_weaken.
      + apply IH. pose proof (step1_len _ _ (com_ok_step1 _ _ _ OK)). lia.
      + intros [c' acc'] (new & c3 & A & CH & F). cbn [fst snd] in *.
        exists (cm :: new), c3. rewrite <- A, <- app_assoc. repeat split; auto.
        econstructor; eauto.
  Qed.

  Lemma skip_trivia_step0 fuel c acc :
    (length (fst c) < fuel)%nat -> post (fun r => step0 c (fst r)) (skip_trivia bs fuel c acc).
  Proof.
    intros H. eapply post_weaken; [apply skip_trivia_post; exact H |].
    intros [c' acc'] (new & c1 & _ & CH & F). cbn [fst snd] in *. subst c'.
    eapply step0_trans; [eapply com_chain_step0; eauto |]. destruct c1. apply skip_ws_step.
  Qed.

  (* -------------------------------------------------------------------------------------------- *)
  (* token readers: each returns a non-EOF type and a cursor strictly after the start of the token *)

  Definition tokpost (c : cur) (r : rtok * cur) : Prop := fst (fst (fst r)) <> TT_EOF /\ step1 c (snd r).

  Ltac neq := let H := fresh in intro H; vm_compute in H; discriminate H.
  Ltac dif := match goal with |- context [if ?b then _ else _] => destruct b eqn:? end.
  Hint Resolve step0_refl step1_step0 : stp.
  Ltac stp := eauto 8 using step0_trans, step1_0, step0_1 with stp.

  Lemma assoc_b_snd (P : N -> bool) t k v :
    forallb (fun kv : list N * N => P (snd kv)) t = true -> assoc_b t k = Some v -> P v = true.
  Proof.
    induction t as [|[k' v'] t IH]; cbn; [discriminate |].
    intros H. apply andb_prop in H. destruct H as [H1 H2].
    destruct (bytes_eqb k k'); [intros [= <-]; exact H1 | auto].
  Qed.

  Lemma kw_type_neq u : (match assoc_b keywords u with Some t => t | None => TT_Identifier end) <> TT_EOF.
  Proof.
    destruct (assoc_b keywords u) eqn:E; [| neq].
    pose proof (assoc_b_snd (fun t => negb (t =? TT_EOF)) _ _ _ keywords_not_eof E) as H.
    apply negb_true_iff, N.eqb_neq in H. exact H.
  Qed.

  Lemma adv_len c n : length (fst (adv c n)) = (length (fst c) - n)%nat.
  Proof. cbn. apply skipn_length. Qed.

  Lemma step0_adv c n : (n <= length (fst c))%nat -> step0 c (adv c n).
  Proof. intros H. eexists. apply stepw_adv. exact H. Qed.

  Lemma span_first p c :
    fst c <> [] -> p (fst (decode_rune (fst c))) = true ->
    post (fun wc => stepw (fst wc) c (snd wc) /\ fst wc <> []) (span p c).
  Proof.
    intros NE P. unfold span. destruct c as [l i]. cbn [span_runes fst] in *.
    destruct l as [|b tl]; [congruence |].
    destruct (decode_rune (b :: tl)) as [r sz] eqn:D. cbn [fst] in P. rewrite P.
    destruct (stepw_adv_rune (b :: tl, i) r sz NE D) as [S1 N1].
    eapply post_bind.
    - apply span_runes_post. pose proof (adv_rune_len (b :: tl, i) r sz NE D) as L. cbn [fst length] in *. lia.
    - intros [w c'] S2. cbn [post fst snd] in *. split.
      + eapply stepw_trans; eauto.
      + destruct (firstn sz (b :: tl)); [congruence | discriminate].
  Qed.

  Lemma read_identifier_post c : fst c <> [] -> post (tokpost c) (read_identifier c).
  Proof.
    intros NE. unfold read_identifier.
    destruct (decode_rune (fst c)) as [r sz] eqn:D.
    pose proof (step1_adv_rune c r sz NE D) as S1.
    eapply post_bind; [apply span_post0 |].
    intros [w c2] S2. cbn [fst snd] in S2.
    assert (S12 : step1 c c2) by stp.
    set (ty := match assoc_b keywords _ with Some t => t | None => TT_Identifier end).
    assert (PL : post (tokpost c) (Val ((ty, firstn sz (fst c) ++ w, 0), c2))).
    { split; [apply kw_type_neq | exact S12]. }
    destruct (mem_b compound_starts _); [| exact PL].
    pose proof (skip_ws_step (fst c2) (snd c2)) as W.
    replace (fst c2, snd c2) with c2 in W by (destruct c2; reflexivity).
    set (c3 := skip_ws (fst c2) (snd c2)) in *.
    destruct (fst c3) as [|b3 t3] eqn:E3; [exact PL |].
    destruct (decode_rune (b3 :: t3)) as [r2 sz2] eqn:D2.
    destruct (is_ident_start r2); [| exact PL].
    assert (NE3 : fst c3 <> []) by (rewrite E3; discriminate).
    rewrite <- E3 in D2. pose proof (step1_adv_rune c3 r2 sz2 NE3 D2) as S3.
    eapply post_bind; [apply span_post0 |].
    intros [w2 c4] S4. cbn [fst snd] in S4.
    destruct (assoc_b compound_keywords _) eqn:EC; [| exact PL].
    split; cbn [fst snd].
    - pose proof (assoc_b_snd (fun t => negb (t =? TT_EOF)) _ _ _ compound_not_eof EC) as H.
      apply negb_true_iff, N.eqb_neq in H. exact H.
    - stp.
  Qed.

  Lemma read_number_post c :
    fst c <> [] -> is_digit (fst (decode_rune (fst c))) = true -> post (tokpost c) (read_number bs c).
  Proof.
    intros NE DG. unfold read_number.
    eapply post_bind; [apply span_first; assumption |].
    intros [w1 c1] [S1 N1]. cbn [fst snd] in S1, N1.
    assert (S01 : step1 c c1) by (exists w1; auto).
    destruct (fst c1) as [|b t] eqn:E1; [split; [neq | exact S01] |].
    eapply post_bind with (Q := fun wc => step0 c1 (snd wc)).
    { destruct (b =? 46); [| cbn; stp].
      assert (SA : step1 c1 (adv c1 1)) by (apply step1_adv; rewrite E1; cbn; lia).
      destruct (fst (adv c1 1)) eqn:E2; [apply err_at_post |].
      dif; [| apply err_at_post].
      eapply post_bind; [apply span_post0 |]. intros [wf c2] S2. cbn [fst snd post] in *. stp. }
    intros [w2 c2] S2. cbn [fst snd] in S2.
    assert (S02 : step1 c c2) by stp.
    destruct (fst c2) as [|e t2] eqn:E2; [split; [neq | exact S02] |].
    destruct ((e =? 101) || (e =? 69)); [| split; [neq | exact S02]].
    assert (S3 : step1 c2 (adv c2 1)) by (apply step1_adv; rewrite E2; cbn; lia).
    set (c3 := adv c2 1) in *.
    assert (S4 : forall x, step0 c3 (snd (match fst c3 with
                         | s :: _ => if (s =? 43) || (s =? 45) then ([s], adv c3 1) else ([], c3)
                         | [] => (x, c3) end))).
    { intros x. destruct (fst c3) eqn:E3; cbn; [stp |].
      destruct ((n =? 43) || (n =? 45)); cbn [snd]; [| stp].
      apply step0_adv. rewrite E3. cbn. lia. }
    specialize (S4 []).
    destruct (match fst c3 with s :: _ => _ | [] => _ end) as [ws c4]. cbn [snd] in S4.
    destruct (fst c4) eqn:E4; [apply err_at_post |].
    dif; [| apply err_at_post].
    eapply post_bind; [apply span_post0 |]. intros [we c5] S5. cbn [fst snd] in S5.
    split; [neq | cbn [snd]; stp].
  Qed.

  (* recursive call / result at cursor (adv c n) with 1 <= n <= remaining length *)
  Ltac size_facts :=
    repeat match goal with
           | D : decode_rune ?l = (_, ?sz) |- _ =>
               lazymatch goal with
               | _ : (1 <= sz <= length l)%nat |- _ => fail
               | _ => let H := fresh "SZ" in
                      assert (H : (1 <= sz <= length l)%nat)
                        by (let X := fresh in pose proof (decode_size l ltac:(discriminate)) as X; rewrite D in X; exact X)
               end
           end.
  Ltac adv_goal :=
    first [ rewrite adv_len; cbn [fst length] in *; lia
          | eapply step1_0; [eassumption | apply step0_adv; cbn [fst length] in *; lia] ].

  Lemma skipn_cons_len {A} n (l : list A) a t : skipn n l = a :: t -> (S (length t) = length l - n)%nat.
  Proof. intros H. rewrite <- skipn_length, H. reflexivity. Qed.

  Lemma quoted_ident_body_post fuel start quote c0 c buf :
    (length (fst c) < fuel)%nat -> step1 c0 c ->
    post (tokpost c0) (quoted_ident_body bs fuel start quote c buf).
  Proof.
    revert c buf. induction fuel as [|f IH]; intros c buf Hf S0; [lia |].
    destruct c as [l i]. cbn [quoted_ident_body fst]. destruct l as [|b tl]; [apply err_at_post |].
    destruct (decode_rune (b :: tl)) as [r0 sz] eqn:D. cbv zeta. size_facts.
    dif.
    - destruct (skipn sz (b :: tl)) as [|a t] eqn:A.
      + split; [neq | cbn [snd]; adv_goal].
      + destruct (decode_rune (a :: t)) as [nr0 nsz] eqn:D2. size_facts.
        pose proof (skipn_cons_len _ _ _ _ A) as LA. cbn [length] in *.
        dif.
        * apply IH; adv_goal.
        * split; [neq | cbn [snd]; adv_goal].
    - dif; [apply err_at_post |]. apply IH; adv_goal.
  Qed.

  Lemma read_quoted_identifier_post c : fst c <> [] -> post (tokpost c) (read_quoted_identifier bs c).
  Proof.
    intros NE. unfold read_quoted_identifier.
    destruct (decode_rune (fst c)) as [r sz] eqn:D.
    apply quoted_ident_body_post; [lia | eapply step1_adv_rune; eauto].
  Qed.

  Lemma backtick_body_post_n n start c0 : forall l p buf,
    (length l <= n)%nat -> step1 c0 (l, p) -> post (tokpost c0) (backtick_body bs start l p buf).
  Proof.
    induction n as [|n IH]; intros l p buf Hn S0.
    - destruct l; [apply err_at_post | cbn in Hn; lia].
    - destruct l as [|ch tl]; cbn [backtick_body]; [apply err_at_post |]. cbn [length] in Hn.
      assert (S1 : step1 c0 (tl, p + 1)).
      { eapply step1_0; [exact S0 |]. exists [ch]. split; cbn; [reflexivity | lia]. }
      dif.
      + destruct tl as [|ch2 tl2]; [split; [neq | exact S1] |].
        dif; [| split; [neq | exact S1]].
        apply IH; [cbn [length] in Hn; lia |].
        eapply step1_0; [exact S0 |]. exists [ch; ch2]. split; cbn; [reflexivity | lia].
      + dif; apply IH; solve [lia | exact S1].
  Qed.

  Lemma backtick_body_post start c0 l p buf :
    step1 c0 (l, p) -> post (tokpost c0) (backtick_body bs start l p buf).
  Proof. apply backtick_body_post_n with (n := length l). lia. Qed.

  Lemma read_backtick_post c : fst c <> [] -> post (tokpost c) (read_backtick bs c).
  Proof.
    intros NE. unfold read_backtick. destruct c as [l i]. cbn [fst snd] in *. destruct l as [|b tl]; [congruence |].
    apply backtick_body_post. exists [b]. split; [discriminate |]. split; cbn; [reflexivity | lia].
  Qed.

  Lemma escape_post c : fst c <> [] -> post (fun wc => step1 c (snd wc)) (escape bs c).
  Proof.
    intros NE. unfold escape.
    assert (S1 : step1 c (adv c 1)) by (apply step1_adv; destruct (fst c); [congruence | cbn; lia]).
    set (c1 := adv c 1) in *.
    destruct c1 as [l1 i1] eqn:E1. cbn [fst snd]. destruct l1 as [|b1 t1]; [apply err_at_post |].
    destruct (decode_rune (b1 :: t1)) as [r sz] eqn:D. size_facts.
    repeat (dif; [cbn [post snd]; adv_goal |]). apply err_at_post.
  Qed.

  Lemma string_body_post fuel start original quote c0 c buf :
    (length (fst c) < fuel)%nat -> step1 c0 c ->
    post (tokpost c0) (string_body bs fuel start original quote c buf).
  Proof.
    revert c buf. induction fuel as [|f IH]; intros c buf Hf S0; [lia |].
    destruct c as [l i]. cbn [string_body fst]. destruct l as [|b tl]; [apply err_at_post |].
    destruct (decode_rune (b :: tl)) as [r0 sz] eqn:D. cbv zeta. size_facts.
    assert (TY : string_type original <> TT_EOF).
    { unfold string_type. repeat dif; neq. }
    dif.
    - destruct (skipn sz (b :: tl)) as [|a t] eqn:A.
      + split; [exact TY | cbn [snd]; adv_goal].
      + destruct (decode_rune (a :: t)) as [nr0 nsz] eqn:D2. size_facts.
        pose proof (skipn_cons_len _ _ _ _ A) as LA. cbn [length] in *.
        dif.
        * apply IH; adv_goal.
        * split; [exact TY | cbn [snd]; adv_goal].
    - dif.
      + eapply post_bind; [apply escape_post; discriminate |].
        intros [w c'] S1. cbn [snd] in S1. apply IH.
        * apply step1_len in S1. cbn [fst length] in *. lia.
        * stp.
      + dif; apply IH; adv_goal.
  Qed.

  Lemma triple_body_post fuel start quote c0 c buf :
    (length (fst c) < fuel)%nat -> (fst c = [] \/ step1 c0 c) ->
    post (tokpost c0) (triple_body bs fuel start quote c buf).
  Proof.
    revert c buf. induction fuel as [|f IH]; intros c buf Hf S0'; [lia |].
    destruct c as [l i]. cbn [triple_body fst]. destruct l as [|b tl]; [apply err_at_post |].
    destruct S0' as [S0|S0]; [discriminate S0 |].
    match goal with |- context [match ?x with Some _ => _ | None => _ end] => destruct x as [n|] eqn:CL end.
    - (* closing quotes: n = s1 + s2 + s3 bytes, all inside the remaining input *)
      destruct tl as [|b2 [|b3 t3]]; try discriminate.
      destruct (decode_rune (b :: b2 :: b3 :: t3)) as [r1 s1] eqn:D1.
      destruct (decode_rune (skipn s1 (b :: b2 :: b3 :: t3))) as [r2 s2] eqn:D2.
      destruct (decode_rune (skipn (s1 + s2) (b :: b2 :: b3 :: t3))) as [r3 s3] eqn:D3.
      destruct ((r1 =? quote) && (r2 =? quote) && (r3 =? quote)); [| discriminate].
      injection CL as <-.
      assert (B1 : (1 <= s1 <= length (b :: b2 :: b3 :: t3))%nat).
      { pose proof (decode_size (b :: b2 :: b3 :: t3) ltac:(discriminate)) as X. rewrite D1 in X. exact X. }
      assert (B2 : (s2 <= length (skipn s1 (b :: b2 :: b3 :: t3)))%nat).
      { destruct (skipn s1 (b :: b2 :: b3 :: t3)) eqn:K; [cbn in D2; injection D2 as _ <-; cbn; lia |].
        pose proof (decode_size (n :: l) ltac:(discriminate)) as X. rewrite D2 in X. cbn [snd] in X. lia. }
      assert (B3 : (s3 <= length (skipn (s1 + s2) (b :: b2 :: b3 :: t3)))%nat).
      { destruct (skipn (s1 + s2) (b :: b2 :: b3 :: t3)) eqn:K; [cbn in D3; injection D3 as _ <-; cbn; lia |].
        pose proof (decode_size (n :: l) ltac:(discriminate)) as X. rewrite D3 in X. cbn [snd] in X. lia. }
      rewrite skipn_length in B2, B3.
      split; [dif; neq | cbn [snd]]. eapply step1_0; [exact S0 | apply step0_adv; cbn [fst]; lia].
    - destruct (decode_rune (b :: tl)) as [r sz] eqn:D. size_facts.
      dif; apply IH; solve [adv_goal | right; adv_goal].
  Qed.

  (* a cursor reached by AdvanceRune calls that may run past the end of the input (then the remaining input is
     empty and the readers report an unterminated literal) *)
  Lemma okc_adv_rune c0 c r sz :
    (fst c = [] \/ step1 c0 c) -> decode_rune (fst c) = (r, sz) -> fst (adv_rune c sz) = [] \/ step1 c0 (adv_rune c sz).
  Proof.
    intros [E|S] D.
    - left. unfold adv_rune, adv. cbn [fst]. rewrite E. apply skipn_nil.
    - destruct (fst c) eqn:E; [left; unfold adv_rune, adv; cbn [fst]; rewrite E; apply skipn_nil |].
      right. eapply step1_0; [exact S |]. apply step1_step0. eapply step1_adv_rune; [rewrite E; discriminate | rewrite E; eauto].
  Qed.

  Lemma read_quoted_string_post q c : fst c <> [] -> post (tokpost c) (read_quoted_string bs q c).
  Proof.
    intros NE. unfold read_quoted_string.
    match goal with |- context [if ?b then _ else _] => destruct b eqn:T end.
    - destruct (decode_rune (fst c)) as [r1 s1] eqn:D1.
      pose proof (step1_adv_rune c r1 s1 NE D1) as S1. set (c1 := adv_rune c s1) in *.
      destruct (decode_rune (fst c1)) as [r2 s2] eqn:D2.
      pose proof (okc_adv_rune c c1 r2 s2 (or_intror S1) D2) as S2. set (c2 := adv_rune c1 s2) in *.
      destruct (decode_rune (fst c2)) as [r3 s3] eqn:D3.
      pose proof (okc_adv_rune c c2 r3 s3 S2 D3) as S3.
      apply triple_body_post; [lia | exact S3].
    - destruct (decode_rune (fst c)) as [r sz] eqn:D.
      apply string_body_post; [lia | eapply step1_adv_rune; eauto].
  Qed.

  (* dollar quoting *)
  Lemma is_prefix_app p l : is_prefix p l = true -> exists r, l = p ++ r.
  Proof.
    revert l. induction p as [|x p IH]; intros l H; [exists l; reflexivity |].
    destruct l as [|y l]; cbn in H; [discriminate |].
    apply andb_prop in H. destruct H as [H1 H2]. apply N.eqb_eq in H1. subst y.
    destruct (IH _ H2) as [r ->]. exists r. reflexivity.
  Qed.

  Lemma adv_runes_spec fuel : forall tag c rest,
    (length tag <= fuel)%nat -> fst c = tag ++ rest -> stepw tag c (adv_runes fuel tag c).
  Proof.
    induction fuel as [|f IH]; intros tag c rest Hf E.
    - destruct tag; [apply stepw_nil | cbn in Hf; lia].
    - cbn [adv_runes]. destruct tag as [|t0 tt]; [apply stepw_nil |].
      destruct (decode_rune (t0 :: tt)) as [r sz] eqn:D. size_facts.
      destruct sz as [|n]; [lia |]. unfold adv_rune.
      assert (LE : (S n <= length (fst c))%nat) by (rewrite E, app_length; lia).
      pose proof (stepw_adv c (S n) LE) as S1.
      assert (F1 : firstn (S n) (fst c) = firstn (S n) (t0 :: tt)).
      { rewrite E, firstn_app. replace (S n - length (t0 :: tt))%nat with 0%nat by lia.
        rewrite firstn_O, app_nil_r. reflexivity. }
      assert (F2 : fst (adv c (S n)) = skipn (S n) (t0 :: tt) ++ rest).
      { unfold adv. cbn [fst]. rewrite E, skipn_app. replace (S n - length (t0 :: tt))%nat with 0%nat by lia.
        reflexivity. }
      rewrite F1 in S1.
      rewrite <- (firstn_skipn (S n) (t0 :: tt)) at 1.
      eapply stepw_trans; [exact S1 |].
      eapply IH; [| exact F2]. rewrite skipn_length. cbn [length] in *. lia.
  Qed.

  Lemma dollar_body_post fuel closing c0 c buf :
    (length (fst c) < fuel)%nat -> step1 c0 c ->
    post (tokpost c0) (dollar_body bs fuel closing c buf).
  Proof.
    revert c buf. induction fuel as [|f IH]; intros c buf Hf S0; [lia |].
    destruct c as [l i]. cbn [dollar_body fst]. destruct l as [|b tl]; [apply err_at_post |].
    dif.
    - apply andb_prop in Heqb0. destruct Heqb0 as [_ P]. apply is_prefix_app in P. destruct P as [rest P].
      split; [neq | cbn [snd]].
      eapply step1_0; [exact S0 |]. exists closing. eapply adv_runes_spec; [lia | exact P].
    - destruct (decode_rune (b :: tl)) as [r sz] eqn:D. size_facts.
      apply IH.
      + pose proof (adv_rune_len (b :: tl, i) r sz ltac:(discriminate) D) as L. cbn [fst length] in *. lia.
      + eapply step1_0; [exact S0 |]. apply step1_step0. eapply step1_adv_rune; [discriminate | exact D].
  Qed.

  Lemma tag_body_post fuel c :
    (length (fst c) < fuel)%nat ->
    post (fun o => match o with None => True | Some (w, c') => step0 c c' end) (tag_body fuel c).
  Proof.
    revert c. induction fuel as [|f IH]; intros c Hf; [lia |].
    destruct c as [l i]. cbn [tag_body fst]. destruct l as [|b tl]; [cbn; stp |].
    destruct (decode_rune (b :: tl)) as [r sz] eqn:D.
    dif; [cbn; stp |]. dif; [exact I |].
    eapply post_bind.
    - apply IH. pose proof (adv_rune_len (b :: tl, i) r sz ltac:(discriminate) D) as L. cbn [fst length] in *. lia.
    - intros [[w c']|] H; cbn; [| exact I].
      eapply step0_trans; [| exact H]. apply step1_step0. eapply step1_adv_rune; [discriminate | exact D].
  Qed.

  Lemma read_dollar_post c : fst c <> [] -> post (tokpost c) (read_dollar bs c).
  Proof.
    intros NE. unfold read_dollar.
    assert (S1 : step1 c (adv c 1)) by (apply step1_adv; destruct (fst c); [congruence | cbn; lia]).
    set (c1 := adv c 1) in *.
    assert (PL : post (tokpost c) (dollar_plain c1)) by (split; [neq | exact S1]).
    destruct (fst c1) as [|b1 t1] eqn:E1; [exact PL |].
    destruct (decode_rune (b1 :: t1)) as [nr nsz] eqn:D1.
    dif.
    { eapply post_bind; [apply span_post0 |]. intros [w c2] S2. cbn [snd] in S2. split; [neq | cbn [snd]; stp]. }
    dif; [| exact PL].
    eapply post_bind with (Q := fun o => match o with None => True | Some (w, c') => step0 c1 c' end).
    { dif; [cbn; stp | apply tag_body_post; rewrite E1; cbn [length]; lia]. }
    intros [[tag c2]|] S2; [| exact PL].
    destruct (fst c2) as [|b2 t2] eqn:E2; [exact PL |].
    destruct (decode_rune (b2 :: t2)) as [cr csz] eqn:D2.
    dif; [exact PL |].
    apply dollar_body_post; [try rewrite E2; cbn [length]; lia |].
    eapply step1_0; [exact S1 |]. eapply step0_trans; [exact S2 |].
    apply step1_step0. eapply step1_adv_rune; [rewrite E2; discriminate | rewrite E2; exact D2].
  Qed.

  (* readPunctuation *)
  Lemma read_punctuation_post r c : fst c <> [] -> post (tokpost c) (read_punctuation bs r c).
  Proof.
    intros NE. unfold read_punctuation.
    assert (S1 : step1 c (adv c 1)) by (apply step1_adv; destruct (fst c); [congruence | cbn; lia]).
    set (c1 := adv c 1) in *.
    assert (S2 : step0 c1 (match nxt c1 with Some _ => adv c1 1 | None => c1 end)).
    { unfold nxt. destruct (fst c1) eqn:E; [stp |]. apply step0_adv. rewrite E. cbn. lia. }
    set (c2 := match nxt c1 with Some _ => adv c1 1 | None => c1 end) in *.
    assert (S3 : step0 c2 (match nxt c2 with Some _ => adv c2 1 | None => c2 end)).
    { unfold nxt. destruct (fst c2) eqn:E; [stp |]. apply step0_adv. rewrite E. cbn. lia. }
    set (c3 := match nxt c2 with Some _ => adv c2 1 | None => c2 end) in *.
    assert (T1 : step1 c c1) by exact S1.
    assert (T2 : step1 c c2) by stp.
    assert (T3 : step1 c c3) by stp.
    clearbody c1 c2 c3.
    Ltac leaf := solve [ split; [neq | assumption] ].
    repeat (dif; [ try leaf; repeat (dif; try leaf) |]); try leaf; try apply err_at_post.
    all: try (apply read_dollar_post; assumption).
    (* the '@name' branch (dif has already split on the remaining input after '@') *)
    match goal with H : fst c1 = _ :: _ |- _ => rename H into E1 end.
    match goal with |- context [decode_rune ?l] => destruct (decode_rune l) as [nr nsz] eqn:D1 end.
    dif; try leaf.
    eapply post_bind; [apply span_post0 |].
    intros [w c'] Sw; cbn [snd] in Sw; split; [neq | cbn [snd]].
    eapply step1_0; [exact T1 |]; eapply step0_trans; [| exact Sw].
    apply step1_step0; eapply step1_adv_rune; [rewrite E1; discriminate | rewrite E1; exact D1].
  Qed.

  Lemma next_token_post c : fst c <> [] -> post (tokpost c) (next_token bs c).
  Proof.
    intros NE. unfold next_token. destruct (fst c) as [|b tl] eqn:E; [congruence |].
    destruct (decode_rune (b :: tl)) as [r sz] eqn:D. rewrite <- E in *.
    dif; [apply read_identifier_post; exact NE |].
    dif; [apply read_number_post; [exact NE | rewrite D; assumption] |].
    dif; [apply read_quoted_identifier_post; exact NE |].
    dif; [apply read_backtick_post; exact NE |].
    dif; [apply read_quoted_string_post; exact NE |].
    apply read_punctuation_post; exact NE.
  Qed.
End WithInput.

(* ---------------------------------------------------------------------------------------------- *)
(* the loop of Tokenize *)

Definition eof_at (i : N) : token := mktok TT_EOF [] 0 i i.
Definition non_eof (t : token) : Prop := ttype t <> TT_EOF.

(* spans of consecutive tokens: start < end <= next start; the end marker sits at (lo <=) i *)
Fixpoint spans_from (lo : N) (ts : list token) : Prop :=
  match ts with
  | [] => True
  | t :: tl => lo <= tstart t /\ tstart t < tend t /\ spans_from (tend t) tl
  end.

Lemma spans_from_app lo ts t :
  spans_from lo ts -> (forall hi, (ts = [] -> hi = lo) -> (forall x l, ts = l ++ [x] -> hi = tend x) -> hi <= tstart t) ->
  tstart t < tend t -> spans_from lo (ts ++ [t]).
Proof.
  revert lo. induction ts as [|a ts IH]; intros lo H1 H2 H3; cbn.
  - split; [| split; [exact H3 | exact I]]. apply H2; [reflexivity | intros x l E; destruct l; discriminate].
  - destruct H1 as (A & B & C). split; [exact A | split; [exact B |]].
    apply IH; [exact C | | exact H3].
    intros hi Hn Hl. apply H2.
    + discriminate.
    + intros x l E. destruct l as [|y l].
      * cbn in E. injection E as -> ->. apply Hn. reflexivity.
      * cbn in E. injection E as -> E. eapply Hl. exact E.
Qed.

Definition last_end (lo : N) (ts : list token) : N := match rev ts with [] => lo | t :: _ => tend t end.

Lemma last_end_app lo ts t : last_end lo (ts ++ [t]) = tend t.
Proof. unfold last_end. rewrite rev_app_distr. reflexivity. Qed.

Lemma spans_from_snoc lo ts t :
  spans_from lo ts -> last_end lo ts <= tstart t -> tstart t < tend t -> spans_from lo (ts ++ [t]).
Proof.
  intros H1 H2 H3. apply spans_from_app; auto.
  intros hi Hn Hl. destruct ts as [|a ts'] using rev_ind.
  - rewrite (Hn eq_refl). exact H2.
  - rewrite (Hl _ _ eq_refl). rewrite last_end_app in H2. exact H2.
Qed.

Lemma lex_loop_post bs max_tok fuel : forall c n toks cms,
  (length (fst c) < fuel)%nat -> Forall non_eof toks ->
  spans_from 0 toks -> last_end 0 toks <= snd c -> n = N.of_nat (length toks) -> n <= max_tok ->
  post (fun r => exists ts i, fst r = ts ++ [eof_at i] /\ Forall non_eof ts /\ spans_from 0 ts /\ last_end 0 ts <= i /\
                              N.of_nat (length ts) <= max_tok)
       (lex_loop bs max_tok fuel c n toks cms).
Proof.
  induction fuel as [|f IH]; intros c n toks cms Hf NEOF SP LE HN HM; [lia |].
  cbn [lex_loop]. destruct (fst c) as [|b tl] eqn:E.
  - cbn. exists toks, (snd c). repeat split; auto. lia.
  - eapply post_bind; [apply skip_trivia_step0; rewrite E; cbn [length]; lia |].
    intros [c1 cms1] S1. cbn [fst] in S1.
    pose proof (step0_len _ _ S1) as L1. pose proof (step0_idx _ _ S1) as I1.
    destruct (fst c1) as [|b1 t1] eqn:E1.
    + cbn. exists toks, (snd c1). repeat split; auto; lia.
    + destruct (max_tok <=? n) eqn:LIM; [apply err_at_post |]. apply N.leb_gt in LIM.
      eapply post_bind; [apply next_token_post; rewrite E1; discriminate |].
      intros [[[ty v] q] c2] [TY S2]. cbn [fst snd] in TY, S2.
      pose proof (step1_len _ _ S2) as L2. pose proof (step1_idx _ _ S2) as I2.
      apply IH.
      * try rewrite E1 in L1; try rewrite E1 in L2; try rewrite E in L1; try rewrite E in Hf. cbn [length] in *. lia.
      * apply Forall_app. split; [exact NEOF | constructor; [exact TY | constructor]].
      * apply spans_from_snoc; cbn [tstart tend]; [exact SP | lia | lia].
      * rewrite last_end_app. cbn [tend]. lia.
      * rewrite app_length. cbn [length]. lia.
      * lia.
Qed.

(* ---------------------------------------------------------------------------------------------- *)
(* theorems about Tokenize *)

Theorem tokenize_with_total max_in max_tok bs :
  tokenize_with max_in max_tok bs <> Panic /\ tokenize_with max_in max_tok bs <> OutOfFuel.
Proof.
  unfold tokenize_with. destruct (max_in <? N.of_nat (length bs)); [split; discriminate |].
  eapply post_not_panic. apply lex_loop_post; cbn; auto; lia.
Qed.

Theorem tokenize_total bs : tokenize bs <> Panic /\ tokenize bs <> OutOfFuel.
Proof. apply tokenize_with_total. Qed.

(* a successful run: tokens, then exactly one end marker; no other token has the end-marker type; token spans are
   non-empty, ordered and disjoint; at most max_tok tokens *)
Theorem tokenize_shape max_in max_tok bs toks cms :
  tokenize_with max_in max_tok bs = Val (toks, cms) ->
  exists ts i, toks = ts ++ [eof_at i] /\ Forall non_eof ts /\ spans_from 0 ts /\ last_end 0 ts <= i /\
               N.of_nat (length ts) <= max_tok.
Proof.
  unfold tokenize_with. destruct (max_in <? N.of_nat (length bs)); [discriminate |].
  intros H.
  pose proof (lex_loop_post bs max_tok (S (length bs)) (bs, 0) 0 [] [] ltac:(cbn; lia) ltac:(constructor) I
                ltac:(cbn; lia) eq_refl ltac:(lia)) as P.
  rewrite H in P. exact P.
Qed.

Theorem exactly_one_eof bs toks cms :
  tokenize bs = Val (toks, cms) ->
  exists ts i, toks = ts ++ [eof_at i] /\ Forall (fun t => ttype t <> TT_EOF) ts.
Proof.
  intros H. destruct (tokenize_shape _ _ _ _ _ H) as (ts & i & A & B & _). exists ts, i. split; assumption.
Qed.

(* size limit: above the limit the input is rejected with E1006 at 1:1; at or below it the limit plays no role *)
Theorem size_limit_reject max_in max_tok bs :
  max_in < N.of_nat (length bs) -> tokenize_with max_in max_tok bs = Err E_InputTooLarge 1 1.
Proof. intros H. unfold tokenize_with. apply N.ltb_lt in H. rewrite H. reflexivity. Qed.

Theorem size_limit_exact m1 m2 max_tok bs :
  N.of_nat (length bs) <= m1 -> N.of_nat (length bs) <= m2 ->
  tokenize_with m1 max_tok bs = tokenize_with m2 max_tok bs.
Proof.
  intros H1 H2. unfold tokenize_with.
  replace (m1 <? N.of_nat (length bs)) with false by (symmetry; apply N.ltb_ge; exact H1).
  replace (m2 <? N.of_nat (length bs)) with false by (symmetry; apply N.ltb_ge; exact H2).
  reflexivity.
Qed.

(* token limit: a successful run has at most max_tok tokens before the end marker *)
Theorem token_limit_bound max_in max_tok bs toks cms :
  tokenize_with max_in max_tok bs = Val (toks, cms) -> N.of_nat (length toks) <= max_tok + 1.
Proof.
  intros H. destruct (tokenize_shape _ _ _ _ _ H) as (ts & i & -> & _ & _ & _ & B).
  rewrite app_length. cbn [length]. lia.
Qed.

(* ---------------------------------------------------------------------------------------------- *)
(* comments: captured in source order, each with exactly the bytes of the text it spans *)

Definition slice (bs : list N) (a b : N) : list N := firstn (N.to_nat (b - a)) (skipn (N.to_nat a) bs).

Definition inv (bs : list N) (c : list N * N) : Prop := fst c = skipn (N.to_nat (snd c)) bs.

Lemma skipn_plus {A} a b (l : list A) : skipn (a + b) l = skipn b (skipn a l).
Proof.
  revert l. induction a as [|a IH]; intros l; [reflexivity |].
  destruct l; cbn [Nat.add skipn]; [rewrite skipn_nil; reflexivity | apply IH].
Qed.

Lemma inv_stepw bs w c c' : inv bs c -> stepw w c c' -> inv bs c' /\ w = slice bs (snd c) (snd c').
Proof.
  unfold inv, slice. intros I [S1 S2]. rewrite S2. split.
  - rewrite N2Nat.inj_add, Nat2N.id, skipn_plus, <- I, S1.
    rewrite skipn_app, skipn_all, Nat.sub_diag. reflexivity.
  - replace (snd c + N.of_nat (length w) - snd c) with (N.of_nat (length w)) by lia.
    rewrite Nat2N.id, <- I, S1, firstn_app, firstn_all, Nat.sub_diag, firstn_O, app_nil_r. reflexivity.
Qed.

Lemma inv_step0 bs c c' : inv bs c -> step0 c c' -> inv bs c'.
Proof. intros I (w & S). eapply inv_stepw; eauto. Qed.

(* cm is a well-formed capture: its text is the slice of the input it spans, it is not empty and starts with the
   comment opener of its style *)
Definition com_good (bs : list N) (cm : comment) : Prop :=
  ctext cm = slice bs (cstart cm) (cend cm) /\ cstart cm < cend cm /\
  cinline cm = code_before bs (cstart cm) /\
  exists w, ctext cm = (if cstyle cm =? 0 then [45; 45] else [47; 42]) ++ w.

Fixpoint coms_from (bs : list N) (lo : N) (cms : list comment) : Prop :=
  match cms with
  | [] => True
  | cm :: tl => lo <= cstart cm /\ com_good bs cm /\ coms_from bs (cend cm) tl
  end.

Definition last_cend (lo : N) (cms : list comment) : N := match rev cms with [] => lo | c :: _ => cend c end.

Lemma last_cend_cons lo x a : last_cend lo (x :: a) = last_cend (cend x) a.
Proof. unfold last_cend. cbn [rev]. destruct (rev a); reflexivity. Qed.

Lemma coms_from_app bs lo a b : coms_from bs lo a -> coms_from bs (last_cend lo a) b -> coms_from bs lo (a ++ b).
Proof.
  revert lo. induction a as [|x a IH]; intros lo H1 H2; cbn; [exact H2 |].
  destruct H1 as (A & B & C). split; [exact A | split; [exact B |]]. apply IH; [exact C |].
  rewrite last_cend_cons in H2. exact H2.
Qed.

Lemma last_cend_app lo a b : last_cend lo (a ++ b) = last_cend (last_cend lo a) b.
Proof.
  unfold last_cend. rewrite rev_app_distr. destruct (rev b); cbn; [reflexivity | reflexivity].
Qed.

Lemma com_chain_good bs c cms c' :
  inv bs c -> com_chain bs c cms c' -> inv bs c' /\ coms_from bs (snd c) cms /\ last_cend (snd c) cms <= snd c'.
Proof.
  intros I H. induction H as [c | c cm c1 cms c2 OK CH IH].
  - repeat split; auto. cbn. lia.
  - pose proof (skip_ws_step (fst c) (snd c)) as W. replace (fst c, snd c) with c in W by (destruct c; reflexivity).
    pose proof (inv_step0 _ _ _ I W) as I1. pose proof (step0_idx _ _ W) as X1.
    destruct OK as (S & A & B & INL & PX).
    destruct (inv_stepw _ _ _ _ I1 S) as [I2 SL].
    destruct (IH I2) as (I3 & G & LE).
    assert (LT : cstart cm < cend cm).
    { destruct S as [_ S2]. rewrite A, B, S2. destruct PX as [w E]. rewrite E.
      destruct (cstyle cm =? 0); cbn [app length]; lia. }
    split; [exact I3 |]. split.
    + cbn [coms_from]. split; [lia |]. split.
      * unfold com_good. split; [rewrite A, B; exact SL |]. split; [exact LT |]. split; [rewrite A; exact INL | exact PX].
      * rewrite B. exact G.
    + rewrite last_cend_cons, B. exact LE.
Qed.

Lemma lex_loop_comments bs max_tok fuel : forall c n toks cms,
  (length (fst c) < fuel)%nat -> inv bs c -> coms_from bs 0 cms -> last_cend 0 cms <= snd c ->
  post (fun r => coms_from bs 0 (snd r)) (lex_loop bs max_tok fuel c n toks cms).
Proof.
  induction fuel as [|f IH]; intros c n toks cms Hf I G LE; [lia |].
  cbn [lex_loop]. destruct (fst c) as [|b tl] eqn:E; [exact G |].
  eapply post_bind; [apply skip_trivia_post; rewrite E; cbn [length]; lia |].
  intros [c1 cms1] (new & c0 & A & CH & F). cbn [fst snd] in A, F.
  destruct (com_chain_good _ _ _ _ I CH) as (I0 & G0 & LE0).
  assert (G1 : coms_from bs 0 cms1).
  { subst cms1. apply coms_from_app; [exact G |].
    clear - G0 LE. revert G0. generalize (snd c) LE. intros lo LE0'.
    destruct new as [|x new]; cbn [coms_from]; [auto |]. intros (A & B & C). split; [lia | split; assumption]. }
  assert (S01 : step0 c0 c1) by (subst c1; destruct c0; apply skip_ws_step).
  pose proof (inv_step0 _ _ _ I0 S01) as I1.
  assert (LE1 : last_cend 0 cms1 <= snd c1).
  { subst cms1. rewrite last_cend_app. pose proof (step0_idx _ _ S01).
    unfold last_cend in *. destruct (rev new); [| lia].
    pose proof (com_chain_step0 _ _ _ _ CH) as SS. apply step0_idx in SS. lia. }
  pose proof (com_chain_step0 _ _ _ _ CH) as S00.
  pose proof (step0_len _ _ S00) as L0. pose proof (step0_len _ _ S01) as L1.
  destruct (fst c1) as [|b1 t1] eqn:E1; [exact G1 |].
  destruct (max_tok <=? n); [apply err_at_post |].
  eapply post_bind; [apply next_token_post; rewrite E1; discriminate |].
  intros [[[ty v] q] c2] [_ S2]. cbn [fst snd] in S2.
  pose proof (step1_len _ _ S2) as L2. pose proof (step1_idx _ _ S2) as X2.
  apply IH; auto.
  - try rewrite E1 in L1; try rewrite E1 in L2; try rewrite E in L0; try rewrite E in Hf. cbn [length] in *. lia.
  - eapply inv_step0; [exact I1 | apply step1_step0; exact S2].
  - lia.
Qed.

Theorem comments_captured bs toks cms :
  tokenize bs = Val (toks, cms) -> coms_from bs 0 cms.
Proof.
  unfold tokenize, tokenize_with. destruct (max_input <? N.of_nat (length bs)); [discriminate |].
  intros H.
  pose proof (lex_loop_comments bs max_tokens (S (length bs)) (bs, 0) 0 [] [] ltac:(cbn; lia) eq_refl I ltac:(cbn; lia)) as P.
  rewrite H in P. exact P.
Qed.

(* ---------------------------------------------------------------------------------------------- *)
(* quoted identifiers are kept distinct: a token read from "..." has the double-quoted kind and quote mark 34, a token
   read from `...` has the identifier kind and quote mark 96 — whatever the text between the quotes spells —
   while every token read as a word (identifier or keyword) has quote mark 0 *)

Lemma quoted_ident_body_kind bs fuel start quote c buf :
  post (fun r => fst (fst (fst r)) = TT_DoubleQuotedString /\ snd (fst r) = quote)
       (match quoted_ident_body bs fuel start quote c buf with OutOfFuel => Err 0 0 0 | o => o end).
Proof.
  revert c buf. induction fuel as [|f IH]; intros c buf; [exact I |].
  cbn [quoted_ident_body]. destruct (fst c); [unfold err_at; destruct (to_loc bs start); exact I |].
  destruct (decode_rune (n :: l)) as [r0 sz]. cbv zeta.
  destruct (normalize_quote r0 =? quote).
  - destruct (skipn sz (n :: l)); [cbn; auto |].
    destruct (decode_rune (n0 :: l0)) as [nr0 nsz]. destruct (normalize_quote nr0 =? quote); [apply IH | cbn; auto].
  - destruct (normalize_quote r0 =? 10); [unfold err_at; destruct (to_loc bs start); exact I | apply IH].
Qed.

Theorem double_quoted_kind bs tl i ty v q c' :
  next_token bs (34 :: tl, i) = Val ((ty, v, q), c') -> ty = TT_DoubleQuotedString /\ q = 34.
Proof.
  unfold next_token. cbn [fst]. rewrite decode_ascii by lia.
  destruct dispatch_dq as (A & B & C). rewrite A, B. cbn [N.eqb Pos.eqb orb].
  unfold read_quoted_identifier. cbn [fst]. rewrite decode_ascii by lia. rewrite C.
  intros H.
  pose proof (quoted_ident_body_kind bs (S (length (fst (adv_rune (34 :: tl, i) 1)))) (snd (34 :: tl, i)) 34
                (adv_rune (34 :: tl, i) 1) []) as P.
  rewrite H in P. exact P.
Qed.

Lemma backtick_body_kind bs start : forall n l p buf, (length l <= n)%nat ->
  post (fun r => fst (fst (fst r)) = TT_Identifier /\ snd (fst r) = 96) (backtick_body bs start l p buf).
Proof.
  induction n as [|n IH]; intros l p buf Hn.
  - destruct l; [unfold backtick_body, err_at; destruct (to_loc bs start); exact I | cbn in Hn; lia].
  - destruct l as [|ch tl]; cbn [backtick_body]; [unfold err_at; destruct (to_loc bs start); exact I |].
    cbn [length] in Hn. destruct (ch =? 96).
    + destruct tl as [|ch2 tl2]; [cbn; auto |]. destruct (ch2 =? 96); [apply IH; cbn [length] in Hn; lia | cbn; auto].
    + destruct (ch =? 10); apply IH; lia.
Qed.

Theorem backtick_kind bs tl i ty v q c' :
  next_token bs (96 :: tl, i) = Val ((ty, v, q), c') -> ty = TT_Identifier /\ q = 96.
Proof.
  unfold next_token. cbn [fst]. rewrite decode_ascii by lia.
  destruct dispatch_bt as (A & B & C). rewrite A, B, C. cbn [N.eqb Pos.eqb orb].
  unfold read_backtick. cbn [fst snd]. intros H.
  pose proof (backtick_body_kind bs i (length tl) tl (i + 1) [] (le_n _)) as P.
  rewrite H in P. exact P.
Qed.

(* a word is read with quote mark 0 *)
Theorem word_unquoted c ty v q c' : read_identifier c = Val ((ty, v, q), c') -> q = 0.
Proof.
  unfold read_identifier. destruct (decode_rune (fst c)) as [r sz].
  destruct (span is_ident_part (adv_rune c sz)) as [[w c2]| | |]; cbn [bind]; try discriminate.
  set (plain := Val (_, c2)).
  assert (PL : plain = Val (ty, v, q, c') -> q = 0) by (unfold plain; intros [= _ _ <- _]; reflexivity).
  destruct (mem_b compound_starts _); [| exact PL].
  destruct (fst (skip_ws (fst c2) (snd c2))); [exact PL |].
  destruct (decode_rune (n :: l)) as [r2 sz2]. destruct (is_ident_start r2); [| exact PL].
  destruct (span is_ident_part _) as [[w2 c4]| | |]; cbn [bind]; try discriminate.
  destruct (assoc_b compound_keywords _); [intros [= _ _ <- _]; reflexivity | exact PL].
Qed.
