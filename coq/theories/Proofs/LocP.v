(* LocP.v — lemmas about Model/Loc.v: toSQLPosition is 1-based, exact, strictly monotone, inside the input. *)
From Coq Require Import List Arith NArith Bool Lia.
From GV Require Import Model.Loc.
Import ListNotations.
Local Open Scope nat_scope.

(* ------------------------------------------------------------------------------------------------ *)
(* list facts *)

Lemma is_lf_true : forall b, is_lf b = true <-> b = LF.
Proof. intro b. unfold is_lf. apply N.eqb_eq. Qed.
Lemma is_lf_false : forall b, is_lf b = false <-> b <> LF.
Proof. intro b. unfold is_lf. apply N.eqb_neq. Qed.

Lemma firstn_S_snoc : forall (A : Type) (l : list A) n,
  firstn (S n) l = firstn n l ++ match nth_error l n with Some b => [b] | None => [] end.
Proof.
  intros A l. induction l as [|a r IH]; intro n.
  - destruct n; reflexivity.
  - destruct n as [|n]; [reflexivity|].
    change (firstn (S (S n)) (a :: r)) with (a :: firstn (S n) r).
    rewrite IH. reflexivity.
Qed.

Lemma nth_error_skipn : forall (A : Type) (l : list A) s k, nth_error (skipn s l) k = nth_error l (s + k).
Proof.
  intros A l. induction l as [|a r IH]; intros s k.
  - destruct s; destruct k; reflexivity.
  - destruct s as [|s]; [reflexivity|]. cbn [skipn plus nth_error]. apply IH.
Qed.

Lemma count_lf_app : forall a b, count_lf (a ++ b) = count_lf a + count_lf b.
Proof. intros a b. unfold count_lf. rewrite filter_app, app_length. reflexivity. Qed.
Lemma width_app : forall a b, width (a ++ b) = width a + width b.
Proof. intros a b. induction a as [|x a IH]; cbn [app width fold_right]; [reflexivity|]. fold (width (a ++ b)) (width a). lia. Qed.
Lemma count_tab_app : forall a b, count_tab (a ++ b) = count_tab a + count_tab b.
Proof. intros a b. unfold count_tab. rewrite filter_app, app_length. reflexivity. Qed.

Lemma bwidth_pos : forall b, 1 <= bwidth b.
Proof. intro b. unfold bwidth. destruct (is_tab b); lia. Qed.

Lemma width_tabs : forall l, width l = length l + 3 * count_tab l.
Proof.
  induction l as [|b l IH]; [reflexivity|].
  cbn [width fold_right]. fold (width l). unfold count_tab in *. cbn [filter length].
  unfold bwidth. destruct (is_tab b); cbn [length]; lia.
Qed.

Lemma chars_conts : forall l, length l = count_chars l + count_cont l.
Proof.
  induction l as [|b l IH]; [reflexivity|].
  unfold count_chars, count_cont in *. cbn [filter length]. destruct (is_cont b); cbn [negb length]; lia.
Qed.

Lemma slice_length : forall bs s i, s <= i -> i <= length bs -> length (slice bs s i) = i - s.
Proof. intros bs s i Hs Hi. unfold slice. rewrite firstn_length, skipn_length. lia. Qed.

Lemma slice_S : forall bs s i, s <= i ->
  slice bs s (S i) = slice bs s i ++ match nth_error bs i with Some b => [b] | None => [] end.
Proof.
  intros bs s i Hs. unfold slice. replace (S i - s) with (S (i - s)) by lia.
  rewrite firstn_S_snoc, nth_error_skipn. replace (s + (i - s)) with i by lia. reflexivity.
Qed.

Lemma slice_same : forall bs s, slice bs s s = [].
Proof. intros. unfold slice. rewrite Nat.sub_diag. reflexivity. Qed.

(* ------------------------------------------------------------------------------------------------ *)
(* the line table scan of toSQLPosition is the single scan of getLocation *)

Lemma lsf_head_gt : forall bs k, match line_starts_from k bs with [] => True | s :: _ => k < s end.
Proof.
  induction bs as [|b r IH]; intro k; cbn [line_starts_from]; [exact I|].
  destruct (is_lf b); [lia|]. specialize (IH (S k)). destruct (line_starts_from (S k) r); [exact I|lia].
Qed.

Lemma find_line_lsf : forall bs k idx line ls0, k <= idx ->
  find_line (line_starts_from k bs) idx line line ls0 = gl_scan (idx - k) bs k line ls0.
Proof.
  induction bs as [|b r IH]; intros k idx line ls0 Hk.
  - cbn [line_starts_from find_line]. destruct (idx - k); reflexivity.
  - cbn [line_starts_from]. destruct (is_lf b) eqn:E.
    + cbn [find_line]. destruct (idx <? S k) eqn:H.
      * apply Nat.ltb_lt in H. replace (idx - k) with 0 by lia. reflexivity.
      * apply Nat.ltb_ge in H. replace (idx - k) with (S (idx - S k)) by lia.
        cbn [gl_scan]. rewrite E. apply IH. lia.
    + destruct (Nat.eq_dec idx k) as [->|Hne].
      * rewrite Nat.sub_diag. cbn [gl_scan].
        pose proof (lsf_head_gt r (S k)) as Hh. destruct (line_starts_from (S k) r) as [|s t]; [reflexivity|].
        cbn [find_line]. replace (k <? s) with true; [reflexivity|]. symmetry. apply Nat.ltb_lt. lia.
      * replace (idx - k) with (S (idx - S k)) by lia. cbn [gl_scan]. rewrite E. apply IH. lia.
Qed.

Lemma find_line_line_starts : forall bs idx, find_line (line_starts bs) idx 0 1 0 = gl_scan idx bs 0 1 0.
Proof.
  intros bs idx. unfold line_starts. cbn [find_line]. replace (idx <? 0) with false by (symmetry; apply Nat.ltb_ge; lia).
  rewrite find_line_lsf by lia. rewrite Nat.sub_0_r. reflexivity.
Qed.

Lemma gl_scan_line : forall bs n k line ls0, fst (gl_scan n bs k line ls0) = line + count_lf (firstn n bs).
Proof.
  induction bs as [|b r IH]; intros n k line ls0.
  - destruct n; cbn; lia.
  - destruct n as [|n]; [cbn; lia|]. cbn [gl_scan firstn]. unfold count_lf. cbn [filter].
    destruct (is_lf b); rewrite IH; unfold count_lf; cbn [length]; lia.
Qed.

(* where the scan leaves lineStart *)
Lemma gl_scan_start : forall bs n k line ls0,
  let s := snd (gl_scan n bs k line ls0) in
  (s = ls0 /\ forall j, j < n -> nth_error bs j <> Some LF) \/
  (k < s /\ s <= k + n /\ nth_error bs (s - S k) = Some LF /\ forall j, s - k <= j < n -> nth_error bs j <> Some LF).
Proof.
  induction bs as [|b r IH]; intros n k line ls0.
  - left. destruct n; (split; [reflexivity|]); intros j _; destruct j; discriminate.
  - destruct n as [|n].
    + left. split; [reflexivity|]. intros j Hj. lia.
    + cbn [gl_scan]. destruct (is_lf b) eqn:E.
      * right. specialize (IH n (S k) (S line) (S k)). cbv zeta in IH |- *.
        destruct IH as [[Hs Hno]|[Hk [Hle [Hnth Hno]]]].
        -- rewrite Hs. split; [lia|]. split; [lia|]. split.
           ++ rewrite Nat.sub_diag. cbn. f_equal. apply is_lf_true. exact E.
           ++ intros j Hj. destruct j as [|j]; [lia|]. cbn [nth_error]. apply Hno. lia.
        -- set (s := snd (gl_scan n r (S k) (S line) (S k))) in *.
           split; [lia|]. split; [lia|]. split.
           ++ replace (s - S k) with (S (s - S (S k))) by lia. cbn [nth_error]. exact Hnth.
           ++ intros j Hj. destruct j as [|j]; [lia|]. cbn [nth_error]. apply Hno. lia.
      * specialize (IH n (S k) line ls0). cbv zeta in IH |- *.
        destruct IH as [[Hs Hno]|[Hk [Hle [Hnth Hno]]]].
        -- left. split; [exact Hs|]. intros j Hj. destruct j as [|j].
           ++ cbn. intro H. injection H as H. apply is_lf_false in E. contradiction.
           ++ cbn [nth_error]. apply Hno. lia.
        -- right. set (s := snd (gl_scan n r (S k) line ls0)) in *.
           split; [lia|]. split; [lia|]. split.
           ++ replace (s - S k) with (S (s - S (S k))) by lia. cbn [nth_error]. exact Hnth.
           ++ intros j Hj. destruct j as [|j]; [lia|]. cbn [nth_error]. apply Hno. lia.
Qed.

Lemma gl_scan_is_line_start : forall bs i, is_line_start bs i (snd (gl_scan i bs 0 1 0)).
Proof.
  intros bs i. pose proof (gl_scan_start bs i 0 1 0) as H. cbv zeta in H.
  set (s := snd (gl_scan i bs 0 1 0)) in *. unfold is_line_start, no_lf_between.
  destruct H as [[Hs Hno]|[Hk [Hle [Hnth Hno]]]].
  - rewrite Hs. split; [lia|]. split; [left; reflexivity|]. intros k Hk. apply Hno. lia.
  - split; [lia|]. split.
    + right. replace (s - 1) with (s - 1 - 0) by lia. replace (s - 1 - 0) with (s - 1) by lia. exact Hnth.
    + intros k Hk'. apply Hno. lia.
Qed.

Lemma line_start_exists : forall bs i, exists s, is_line_start bs i s.
Proof. intros bs i. eexists. apply gl_scan_is_line_start. Qed.

Lemma is_line_start_unique : forall bs i s s', is_line_start bs i s -> is_line_start bs i s' -> s = s'.
Proof.
  intros bs i s s' [H1 [H2 H3]] [H1' [H2' H3']]. unfold no_lf_between in *.
  destruct (lt_eq_lt_dec s s') as [[Hlt|Heq]|Hgt]; [|exact Heq|].
  - exfalso. destruct H2' as [Hz|Hn]; [lia|]. apply (H3 (s' - 1)); [lia|exact Hn].
  - exfalso. destruct H2 as [Hz|Hn]; [lia|]. apply (H3' (s - 1)); [lia|exact Hn].
Qed.

Lemma col_scan_width : forall n bs c, col_scan n bs c = c + width (firstn n bs).
Proof.
  induction n as [|n IH]; intros bs c.
  - destruct bs; cbn; lia.
  - destruct bs as [|b r]; [cbn; lia|]. cbn [col_scan firstn width fold_right]. fold (width (firstn n r)).
    rewrite IH. lia.
Qed.

(* ------------------------------------------------------------------------------------------------ *)
(* characterisation of to_loc and get_location *)

Theorem to_loc_spec : forall bs i s, is_line_start bs i s ->
  to_loc bs i = (1 + count_lf (firstn i bs), 1 + width (slice bs s i)).
Proof.
  intros bs i s Hs. unfold to_loc, to_loc_with. rewrite find_line_line_starts.
  pose proof (gl_scan_line bs i 0 1 0) as Hl. pose proof (gl_scan_is_line_start bs i) as Hst.
  destruct (gl_scan i bs 0 1 0) as [l s0]. cbn [fst snd] in *.
  assert (s0 = s) by (eapply is_line_start_unique; eassumption). subst s0.
  rewrite col_scan_width. fold (slice bs s i).
  replace (1 + width (slice bs s i) <? 1) with false by (symmetry; apply Nat.ltb_ge; lia).
  rewrite Hl. reflexivity.
Qed.

Theorem get_location_spec : forall bs i s, is_line_start bs i s ->
  get_location bs i = (1 + count_lf (firstn i bs), 1 + (i - s)).
Proof.
  intros bs i s Hs. unfold get_location.
  pose proof (gl_scan_line bs i 0 1 0) as Hl. pose proof (gl_scan_is_line_start bs i) as Hst.
  destruct (gl_scan i bs 0 1 0) as [l s0]. cbn [fst snd] in *.
  assert (s0 = s) by (eapply is_line_start_unique; eassumption). subst s0.
  destruct Hs as [Hle _]. replace (s <=? i) with true by (symmetry; apply Nat.leb_le; exact Hle).
  rewrite Hl. f_equal. lia.
Qed.

Lemma loc_line : forall bs i, fst (to_loc bs i) = 1 + count_lf (firstn i bs).
Proof. intros bs i. destruct (line_start_exists bs i) as [s Hs]. rewrite (to_loc_spec _ _ _ Hs). reflexivity. Qed.

Lemma loc_one_based : forall bs i, 1 <= fst (to_loc bs i) /\ 1 <= snd (to_loc bs i).
Proof. intros bs i. destruct (line_start_exists bs i) as [s Hs]. rewrite (to_loc_spec _ _ _ Hs). cbn [fst snd]. lia. Qed.

Lemma loc_origin : forall bs, to_loc bs 0 = (1, 1).
Proof.
  intro bs. assert (H : is_line_start bs 0 0).
  { split; [lia|]. split; [left; reflexivity|]. intros k Hk. lia. }
  rewrite (to_loc_spec _ _ _ H). rewrite slice_same. reflexivity.
Qed.

(* exact column: byte distance from the line start, plus 3 extra per tab *)
Lemma loc_exact : forall bs i s, i <= length bs -> is_line_start bs i s ->
  to_loc bs i = (1 + count_lf (firstn i bs), 1 + (i - s) + 3 * count_tab (slice bs s i)).
Proof.
  intros bs i s Hi Hs. rewrite (to_loc_spec _ _ _ Hs). rewrite width_tabs, slice_length; [f_equal; lia| |exact Hi].
  destruct Hs as [H _]. exact H.
Qed.

Lemma loc_exact_tabfree : forall bs i s, i <= length bs -> is_line_start bs i s ->
  count_tab (slice bs s i) = 0 -> to_loc bs i = (1 + count_lf (firstn i bs), 1 + (i - s)).
Proof. intros bs i s Hi Hs Ht. rewrite (loc_exact _ _ _ Hi Hs), Ht. f_equal. lia. Qed.

(* in characters: columns count bytes, so every UTF-8 continuation byte before the offset adds one *)
Lemma loc_exact_chars : forall bs i s, i <= length bs -> is_line_start bs i s ->
  snd (to_loc bs i) = 1 + count_chars (slice bs s i) + count_cont (slice bs s i) + 3 * count_tab (slice bs s i).
Proof.
  intros bs i s Hi Hs. rewrite (loc_exact _ _ _ Hi Hs). cbn [snd].
  rewrite <- (slice_length bs s i); [|destruct Hs as [H _]; exact H|exact Hi].
  rewrite (chars_conts (slice bs s i)). lia.
Qed.

Lemma get_location_eq_to_loc : forall bs i s, i <= length bs -> is_line_start bs i s ->
  count_tab (slice bs s i) = 0 -> get_location bs i = to_loc bs i.
Proof. intros bs i s Hi Hs Ht. rewrite (get_location_spec _ _ _ Hs), (loc_exact_tabfree _ _ _ Hi Hs Ht). reflexivity. Qed.

(* ------------------------------------------------------------------------------------------------ *)
(* one step to the right *)

Lemma is_line_start_step : forall bs i s, is_line_start bs i s -> nth_error bs i <> Some LF ->
  is_line_start bs (S i) s.
Proof.
  intros bs i s [H1 [H2 H3]] Hb. split; [lia|]. split; [exact H2|].
  intros k Hk. destruct (Nat.eq_dec k i) as [->|Hne]; [exact Hb|]. apply H3. lia.
Qed.

Lemma lex_le_refl : forall a, lex_le a a.
Proof. intro a. right. split; [reflexivity|lia]. Qed.
Lemma lex_lt_le : forall a b, lex_lt a b -> lex_le a b.
Proof. intros a b [H|[H1 H2]]; [left; exact H|right; split; [exact H1|lia]]. Qed.
Lemma lex_le_trans : forall a b c, lex_le a b -> lex_le b c -> lex_le a c.
Proof. intros a b c [H|[H1 H2]] [H'|[H1' H2']]; unfold lex_le; lia. Qed.
Lemma lex_lt_le_trans : forall a b c, lex_lt a b -> lex_le b c -> lex_lt a c.
Proof. intros a b c [H|[H1 H2]] [H'|[H1' H2']]; unfold lex_lt; lia. Qed.
Lemma lex_le_lt_trans : forall a b c, lex_le a b -> lex_lt b c -> lex_lt a c.
Proof. intros a b c [H|[H1 H2]] [H'|[H1' H2']]; unfold lex_lt; lia. Qed.
Lemma lex_lt_irrefl : forall a, ~ lex_lt a a.
Proof. intros a [H|[_ H]]; lia. Qed.
Lemma lex_leb_le : forall a b, lex_leb a b = true <-> lex_le a b.
Proof.
  intros a b. unfold lex_leb, lex_le. rewrite orb_true_iff, andb_true_iff, Nat.ltb_lt, Nat.eqb_eq, Nat.leb_le. reflexivity.
Qed.

Lemma loc_step : forall bs i,
  match nth_error bs i with
  | Some _ => lex_lt (to_loc bs i) (to_loc bs (S i))
  | None => to_loc bs (S i) = to_loc bs i
  end.
Proof.
  intros bs i. destruct (line_start_exists bs i) as [s Hs].
  rewrite (to_loc_spec _ _ _ Hs).
  destruct (nth_error bs i) as [b|] eqn:Hn.
  - destruct (N.eq_dec b LF) as [->|Hb].
    + left. rewrite loc_line. cbn [fst]. rewrite firstn_S_snoc, Hn, count_lf_app.
      assert (Hc : count_lf [LF] = 1) by reflexivity. rewrite Hc. lia.
    + assert (Hs' : is_line_start bs (S i) s).
      { apply (is_line_start_step bs i s Hs). rewrite Hn. intro H. injection H as H. contradiction. }
      rewrite (to_loc_spec _ _ _ Hs'). right. cbn [fst snd].
      rewrite firstn_S_snoc, Hn, count_lf_app.
      assert (Hc : count_lf [b] = 0).
      { unfold count_lf. cbn [filter]. replace (is_lf b) with false by (symmetry; apply is_lf_false; exact Hb). reflexivity. }
      rewrite Hc. split; [lia|]. rewrite slice_S by (destruct Hs as [H _]; exact H). rewrite Hn, width_app.
      cbn [width fold_right]. pose proof (bwidth_pos b). lia.
  - assert (Hs' : is_line_start bs (S i) s).
    { apply (is_line_start_step bs i s Hs). rewrite Hn. discriminate. }
    rewrite (to_loc_spec _ _ _ Hs'). rewrite firstn_S_snoc, Hn, app_nil_r.
    rewrite slice_S by (destruct Hs as [H _]; exact H). rewrite Hn, app_nil_r. reflexivity.
Qed.

Lemma loc_step_le : forall bs i, lex_le (to_loc bs i) (to_loc bs (S i)).
Proof.
  intros bs i. pose proof (loc_step bs i) as H. destruct (nth_error bs i).
  - apply lex_lt_le. exact H.
  - rewrite H. apply lex_le_refl.
Qed.

Theorem loc_monotone : forall bs i j, i <= j -> lex_le (to_loc bs i) (to_loc bs j).
Proof.
  intros bs i j H. induction H as [|j H IH]; [apply lex_le_refl|].
  eapply lex_le_trans; [exact IH|apply loc_step_le].
Qed.

Theorem loc_strict : forall bs i j, i < j -> j <= length bs -> lex_lt (to_loc bs i) (to_loc bs j).
Proof.
  intros bs i j H Hj. apply lex_lt_le_trans with (b := to_loc bs (S i)).
  - pose proof (loc_step bs i) as Hst. destruct (nth_error bs i) eqn:Hn; [exact Hst|].
    apply nth_error_None in Hn. lia.
  - apply loc_monotone. lia.
Qed.

Theorem loc_injective : forall bs i j, i <= length bs -> j <= length bs -> to_loc bs i = to_loc bs j -> i = j.
Proof.
  intros bs i j Hi Hj He. destruct (lt_eq_lt_dec i j) as [[Hlt|Heq]|Hgt]; [|exact Heq|]; exfalso.
  - apply (lex_lt_irrefl (to_loc bs j)). rewrite <- He at 1. apply loc_strict; assumption.
  - apply (lex_lt_irrefl (to_loc bs i)). rewrite He at 1. apply loc_strict; assumption.
Qed.

(* past the end of the input the location stays that of the end *)
Theorem loc_clamped : forall bs i, length bs <= i -> to_loc bs i = to_loc bs (length bs).
Proof.
  intros bs i H. induction H as [|i H IH]; [reflexivity|].
  pose proof (loc_step bs i) as Hst. destruct (nth_error bs i) eqn:Hn.
  - assert (i < length bs) by (apply nth_error_Some; rewrite Hn; discriminate). lia.
  - rewrite Hst. exact IH.
Qed.

(* ------------------------------------------------------------------------------------------------ *)
(* inside the input *)

Lemma count_lf_firstn_le : forall bs i, count_lf (firstn i bs) <= count_lf bs.
Proof. intros bs i. rewrite <- (firstn_skipn i bs) at 2. rewrite count_lf_app. lia. Qed.

Lemma take_line_prefix : forall l n, (forall k, k < n -> nth_error l k <> Some LF) ->
  exists rest, take_line l = firstn n l ++ rest.
Proof.
  induction l as [|b r IH]; intros n H.
  - exists []. destruct n; reflexivity.
  - destruct n as [|n]; [eexists; reflexivity|]. cbn [take_line].
    destruct (is_lf b) eqn:E.
    + exfalso. apply (H 0); [lia|]. cbn. f_equal. apply is_lf_true. exact E.
    + destruct (IH n) as [rest Hr]. { intros k Hk. apply (H (S k)). lia. }
      exists rest. cbn [firstn app]. rewrite Hr. reflexivity.
Qed.

Theorem loc_inside : forall bs i s, is_line_start bs i s ->
  fst (to_loc bs i) <= 1 + count_lf bs /\ snd (to_loc bs i) <= 1 + width (line_bytes bs s).
Proof.
  intros bs i s Hs. rewrite (to_loc_spec _ _ _ Hs). cbn [fst snd]. split.
  - pose proof (count_lf_firstn_le bs i). lia.
  - destruct Hs as [H1 [_ H3]]. unfold slice, line_bytes.
    destruct (take_line_prefix (skipn s bs) (i - s)) as [rest Hr].
    { intros k Hk. rewrite nth_error_skipn. apply H3. lia. }
    rewrite Hr, width_app. lia.
Qed.

(* on a tab-free line the bound is the byte length of the line + 1 *)
Lemma width_tabfree : forall l, count_tab l = 0 -> width l = length l.
Proof. intros l H. rewrite width_tabs, H. lia. Qed.

(* ------------------------------------------------------------------------------------------------ *)
(* spans of a token stream *)

Lemma spans_ordered_from : forall bs sp prev, spans_chain (length bs) prev sp ->
  locs_chain (to_loc bs prev) (reported bs sp).
Proof.
  intros bs sp. induction sp as [|[s e] r IH]; intros prev H; [exact I|].
  cbn [spans_chain] in H. destruct H as [H1 [H2 [H3 H4]]].
  cbn [reported map locs_chain fst snd]. split; [apply loc_monotone; exact H1|].
  split; [apply loc_monotone; exact H2|]. apply IH. exact H4.
Qed.

Theorem spans_ordered_loc : forall bs sp, spans_chain (length bs) 0 sp ->
  locs_chain (1, 1) (reported bs sp).
Proof. intros bs sp H. rewrite <- (loc_origin bs). apply spans_ordered_from. exact H. Qed.

Lemma spans_chain_bound : forall n sp prev, spans_chain n prev sp -> forall s e, In (s, e) sp -> s <= e /\ e <= n.
Proof.
  intros n sp. induction sp as [|[s0 e0] r IH]; intros prev H s e Hin; [destruct Hin|].
  cbn [spans_chain] in H. destruct H as [H1 [H2 [H3 H4]]]. destruct Hin as [Heq|Hin].
  - injection Heq as <- <-. lia.
  - eapply IH; eassumption.
Qed.

(* every reported location of a span is 1-based, and a non-empty element has start strictly before end *)
Theorem spans_one_based_strict : forall bs sp, spans_chain (length bs) 0 sp ->
  forall s e, In (s, e) sp ->
    1 <= fst (to_loc bs s) /\ 1 <= snd (to_loc bs s) /\ 1 <= fst (to_loc bs e) /\ 1 <= snd (to_loc bs e) /\
    fst (to_loc bs e) <= 1 + count_lf bs /\
    (s < e -> lex_lt (to_loc bs s) (to_loc bs e)).
Proof.
  intros bs sp H s e Hin. destruct (spans_chain_bound _ _ _ H s e Hin) as [Hse He].
  pose proof (loc_one_based bs s) as [A B]. pose proof (loc_one_based bs e) as [C D].
  repeat split; try assumption.
  - rewrite loc_line. pose proof (count_lf_firstn_le bs e). lia.
  - intro Hlt. apply loc_strict; assumption.
Qed.

(* ------------------------------------------------------------------------------------------------ *)
(* parser side: the position mapping and Parser.currentLocation *)

Definition span_of (own : bool) (t : srctok) (j : nat) : loc * loc :=
  match st_parts t with
  | [] | [_] => (st_start t, st_end t)
  | ws => part_span own (st_start t) (st_end t) ws j
  end.

Lemma nth_error_seq : forall n s j, j < n -> nth_error (seq s n) j = Some (s + j).
Proof.
  induction n as [|n IH]; intros s j H; [lia|]. destruct j as [|j]; cbn [seq nth_error].
  - f_equal. lia.
  - rewrite IH by lia. f_equal. lia.
Qed.

Lemma tok_positions_length : forall own oi t, length (tok_positions own oi t) = nparts t.
Proof.
  intros own oi t. unfold tok_positions, nparts. destruct (st_parts t) as [|w [|w' r]]; [reflexivity|reflexivity|].
  rewrite map_length, seq_length. reflexivity.
Qed.

Lemma tok_positions_nth : forall own oi t j, j < nparts t ->
  nth_error (tok_positions own oi t) j = Some (oi, span_of own t j).
Proof.
  intros own oi t j H. unfold tok_positions, nparts, span_of in *. destruct (st_parts t) as [|w [|w' r]].
  - replace j with 0 by lia. reflexivity.
  - cbn [length] in H. replace j with 0 by lia. reflexivity.
  - rewrite nth_error_map, nth_error_seq by exact H. reflexivity.
Qed.

Lemma conv_positions_nth : forall ts own b oi t j, nth_error ts oi = Some t -> j < nparts t ->
  nth_error (conv_positions own b ts) (flat_index ts oi + j) = Some (b + oi, span_of own t j).
Proof.
  induction ts as [|a r IH]; intros own b oi t j Hn Hj.
  - destruct oi; discriminate.
  - destruct oi as [|k]; cbn [nth_error] in Hn.
    + injection Hn as ->. cbn [flat_index conv_positions plus].
      rewrite nth_error_app1 by (rewrite tok_positions_length; exact Hj).
      rewrite tok_positions_nth by exact Hj. rewrite Nat.add_0_r. reflexivity.
    + cbn [flat_index conv_positions].
      rewrite nth_error_app2 by (rewrite tok_positions_length; lia).
      rewrite tok_positions_length.
      replace (nparts a + flat_index r k + j - nparts a) with (flat_index r k + j) by lia.
      rewrite (IH own (S b) k t j Hn Hj). f_equal. f_equal. lia.
Qed.

Lemma conv_positions_length : forall ts own b, length (conv_positions own b ts) = flat_index ts (length ts).
Proof.
  induction ts as [|a r IH]; intros own b; [reflexivity|].
  cbn [conv_positions flat_index length]. rewrite app_length, tok_positions_length, IH. reflexivity.
Qed.

(* the location an error raised with the cursor on part j of tokenizer token oi carries *)
Theorem error_at_offending_token : forall own ts oi t j, nth_error ts oi = Some t -> j < nparts t ->
  current_location (Some (conv_positions own 0 ts)) (flat_index ts oi + j) = fst (span_of own t j).
Proof.
  intros own ts oi t j Hn Hj. unfold current_location.
  rewrite (conv_positions_nth ts own 0 oi t j Hn Hj). reflexivity.
Qed.

(* an ordinary token, and the first keyword of a split one, are located at the token's own Start *)
Lemma span_of_first : forall own t, fst (span_of own t 0) = st_start t.
Proof.
  intros own t. unfold span_of. destruct (st_parts t) as [|w [|w' r]]; [reflexivity|reflexivity|].
  unfold part_span. destruct (own && fits (st_start t) (st_end t) (w :: w' :: r)); reflexivity.
Qed.

Theorem error_at_plain_token : forall own ts oi t, nth_error ts oi = Some t ->
  current_location (Some (conv_positions own 0 ts)) (flat_index ts oi) = st_start t.
Proof.
  intros own ts oi t Hn. rewrite <- (Nat.add_0_r (flat_index ts oi)).
  rewrite (error_at_offending_token own ts oi t 0 Hn).
  - apply span_of_first.
  - unfold nparts. destruct (st_parts t); cbn; lia.
Qed.

(* no token under the cursor: the position of the last token (the end of input); no mapping at all: the zero Location *)
Theorem error_beyond_tokens : forall own ts cursor, flat_index ts (length ts) <= cursor ->
  current_location (Some (conv_positions own 0 ts)) cursor = last_start (conv_positions own 0 ts).
Proof.
  intros own ts cursor H. unfold current_location.
  replace (nth_error (conv_positions own 0 ts) cursor) with (@None (nat * (loc * loc))); [reflexivity|].
  symmetry. apply nth_error_None. rewrite conv_positions_length. exact H.
Qed.
Theorem error_without_mapping : forall cursor, current_location None cursor = (0, 0).
Proof. reflexivity. Qed.

(* ------------------------------------------------------------------------------------------------ *)
(* sub-spans of split compound keywords *)

Lemma loc_step_exact : forall bs i b, nth_error bs i = Some b -> b <> LF ->
  to_loc bs (S i) = (fst (to_loc bs i), snd (to_loc bs i) + bwidth b).
Proof.
  intros bs i b Hn Hb. destruct (line_start_exists bs i) as [s Hs].
  assert (Hs' : is_line_start bs (S i) s).
  { apply (is_line_start_step bs i s Hs). rewrite Hn. intro H. injection H as H. contradiction. }
  rewrite (to_loc_spec _ _ _ Hs), (to_loc_spec _ _ _ Hs'). cbn [fst snd].
  rewrite firstn_S_snoc, Hn, count_lf_app.
  assert (Hc : count_lf [b] = 0).
  { unfold count_lf. cbn [filter]. replace (is_lf b) with false by (symmetry; apply is_lf_false; exact Hb). reflexivity. }
  rewrite Hc. rewrite slice_S by (destruct Hs as [H _]; exact H). rewrite Hn, width_app.
  cbn [width fold_right]. f_equal; lia.
Qed.

Definition plain_bytes (bs : list N) (a b : nat) : Prop :=
  forall k, a <= k < b -> exists x, nth_error bs k = Some x /\ x <> LF /\ x <> TAB.

Lemma loc_advance : forall w bs i, plain_bytes bs i (i + w) ->
  to_loc bs (i + w) = (fst (to_loc bs i), snd (to_loc bs i) + w).
Proof.
  induction w as [|w IH]; intros bs i H.
  - rewrite !Nat.add_0_r. destruct (to_loc bs i). reflexivity.
  - replace (i + S w) with (S (i + w)) by lia.
    destruct (H (i + w)) as [b [Hn [Hlf Htab]]]; [lia|].
    rewrite (loc_step_exact bs (i + w) b Hn Hlf). rewrite IH by (intros k Hk; apply H; lia).
    cbn [fst snd]. unfold bwidth. replace (is_tab b) with false by (symmetry; apply N.eqb_neq; exact Htab).
    f_equal. lia.
Qed.

(* for a two-word keyword read by the tokenizer the sub-spans are exactly the reported positions of its words *)
Theorem split_spans_exact : forall bs so eo w1 w2,
  so + w1 <= eo - w2 -> w2 <= eo -> plain_bytes bs so (so + w1) -> plain_bytes bs (eo - w2) eo ->
  fits (to_loc bs so) (to_loc bs eo) [w1; w2] = true /\
  part_span true (to_loc bs so) (to_loc bs eo) [w1; w2] 0 = (to_loc bs so, to_loc bs (so + w1)) /\
  part_span true (to_loc bs so) (to_loc bs eo) [w1; w2] 1 = (to_loc bs (eo - w2), to_loc bs eo).
Proof.
  intros bs so eo w1 w2 H1 H2 P1 P2.
  pose proof (loc_advance w1 bs so P1) as A.
  assert (P2' : plain_bytes bs (eo - w2) (eo - w2 + w2)) by (replace (eo - w2 + w2) with eo by lia; exact P2).
  pose proof (loc_advance w2 bs (eo - w2) P2') as B. replace (eo - w2 + w2) with eo in B by lia.
  pose proof (loc_one_based bs so) as [S1 S2]. pose proof (loc_one_based bs (eo - w2)) as [M1 M2].
  pose proof (loc_monotone bs (so + w1) (eo - w2) H1) as Hm. rewrite A in Hm.
  destruct (to_loc bs so) as [sl sc] eqn:Es. destruct (to_loc bs (eo - w2)) as [ml mc] eqn:Em.
  cbn [fst snd] in *. rewrite B.
  assert (F : fits (sl, sc) (ml, mc + w2) [w1; w2] = true).
  { unfold fits. cbn [length nth fst snd Nat.sub]. replace (mc + w2 - w2) with mc by lia.
    apply andb_true_intro; split; [apply andb_true_intro; split; [apply andb_true_intro; split|]|].
    - reflexivity.
    - apply Nat.leb_le. exact S1.
    - apply Nat.ltb_lt. lia.
    - apply lex_leb_le. exact Hm. }
  split; [exact F|]. unfold part_span. rewrite F. cbn [andb length nth fst snd Nat.sub Nat.eqb].
  replace (mc + w2 - w2) with mc by lia. rewrite A. split; reflexivity.
Qed.

(* the sub-spans of one split token are ordered and lie inside the token's span *)
Theorem split_positions_ordered : forall s e ws i j, fits s e ws = true -> length ws <= 3 -> i < j -> j < length ws ->
  lex_le (snd (part_span true s e ws i)) (fst (part_span true s e ws j)).
Proof.
  intros s e ws i j F Hn Hij Hj. unfold part_span. rewrite F. cbn [andb].
  unfold fits in F. apply andb_true_iff in F as [F F4]. apply lex_leb_le in F4.
  destruct (Nat.eqb_spec i 0) as [Ei|Ei]; destruct (Nat.eqb_spec j 0) as [Ej|Ej];
    destruct (Nat.eqb_spec i (length ws - 1)) as [Ei'|Ei']; destruct (Nat.eqb_spec j (length ws - 1)) as [Ej'|Ej'];
    cbn [fst snd]; try lia; try exact F4; try apply lex_le_refl.
Qed.

Theorem split_positions_inside : forall s e ws i, fits s e ws = true -> lex_le s e ->
  let sp := part_span true s e ws i in lex_le s (fst sp) /\ lex_le (fst sp) (snd sp) /\ lex_le (snd sp) e.
Proof.
  intros s e ws i F Hse. cbv zeta. unfold part_span. rewrite F. cbn [andb].
  unfold fits in F. apply andb_true_iff in F as [F F4]. apply lex_leb_le in F4.
  apply andb_true_iff in F as [F F3]. apply Nat.ltb_lt in F3.
  assert (A : lex_le s (fst s, snd s + nth 0 ws 0)) by (right; cbn [fst snd]; split; [reflexivity|lia]).
  assert (B : lex_le (fst e, snd e - nth (length ws - 1) ws 0) e) by (right; cbn [fst snd]; split; [reflexivity|lia]).
  destruct (i =? 0); [|destruct (i =? length ws - 1)]; cbn [fst snd]; repeat split;
    try exact A; try exact B; try exact F4; try apply lex_le_refl;
    try (eapply lex_le_trans; [exact A|exact F4]); try (eapply lex_le_trans; [exact F4|exact B]).
Qed.

(* the behaviour before the repair (every part carries the whole token's span): the end of the first keyword lies
   after the start of the second *)
Theorem split_positions_shared_refuted :
  exists s e ws i j, i < j /\ j < length ws /\ lex_le s e /\
    ~ lex_le (snd (part_span false s e ws i)) (fst (part_span false s e ws j)).
Proof.
  exists (1, 1), (1, 9), [5; 2], 0, 1. cbn. repeat split; try lia.
  - right. cbn. lia.
  - intros [H|[_ H]]; cbn in H; lia.
Qed.

(* two different offsets of one line never get the same column *)
Theorem loc_injective_on_line : forall bs i j, i <= length bs -> j <= length bs ->
  fst (to_loc bs i) = fst (to_loc bs j) -> snd (to_loc bs i) = snd (to_loc bs j) -> i = j.
Proof.
  intros bs i j Hi Hj H1 H2. apply (loc_injective bs i j Hi Hj).
  destruct (to_loc bs i), (to_loc bs j). cbn [fst snd] in *. subst. reflexivity.
Qed.
