(* Proofs for the ownership model (C09 ownership clause). *)
From Coq Require Import List NArith Bool Arith Lia.
From GV Require Import Model.Own.
Import ListNotations.

Lemma memb_In i l : memb i l = true <-> In i l.
Proof.
  unfold memb. rewrite existsb_exists. split.
  - intros [x [Hin He]]. apply N.eqb_eq in He. now subst.
  - intros Hin. exists i. split; [assumption | apply N.eqb_refl].
Qed.

Lemma memb_false i l : memb i l = false <-> ~ In i l.
Proof.
  rewrite <- memb_In. destruct (memb i l); split; intros H; congruence.
Qed.

Lemma upd_same {A} (f : id -> A) i a : upd f i a i = a.
Proof. unfold upd. now rewrite N.eqb_refl. Qed.

Lemma upd_other {A} (f : id -> A) i a j : j <> i -> upd f i a j = f j.
Proof. intros H. unfold upd. apply N.eqb_neq in H. now rewrite H. Qed.

Lemma owner_is_true t o : owner_is t o = true <-> o = Live t.
Proof.
  destruct o as [|t'| |]; cbn; split; intros H; try discriminate.
  - apply Nat.eqb_eq in H. now subst.
  - inversion H; subst. apply Nat.eqb_refl.
Qed.

Lemma remove1_In i l j : In j (remove1 i l) -> In j l.
Proof.
  induction l as [|x r IH]; cbn; [tauto|]. destruct (N.eqb i x); cbn; intros H; [now right|].
  destruct H as [H|H]; [now left | right; now apply IH].
Qed.

Lemma remove1_nodup i l : NoDup l -> NoDup (remove1 i l).
Proof.
  induction 1 as [|x r Hx Hr IH]; cbn; [constructor|].
  destruct (N.eqb i x); [assumption|]. constructor; [|assumption].
  intros H. apply Hx. eapply remove1_In; eauto.
Qed.

Lemma remove1_spec i l j : NoDup l -> (In j (remove1 i l) <-> In j l /\ j <> i).
Proof.
  induction 1 as [|x r Hx Hr IH]; cbn; [tauto|].
  destruct (N.eqb i x) eqn:E.
  - apply N.eqb_eq in E. subst x. split.
    + intros H. split; [now right|]. intros ->. contradiction.
    + intros [[H|H] Hn]; [congruence | assumption].
  - apply N.eqb_neq in E. cbn. rewrite IH. split.
    + intros [H|[H Hn]]; [subst; split; [now left | congruence] | split; [now right | assumption]].
    + intros [[H|H] Hn]; [now left | right; now split].
Qed.

Lemma filter_none {A} (p : A -> bool) l : (forall x, p x = false) -> filter p l = [].
Proof. intros H. induction l as [|x r IH]; cbn; [reflexivity|]. now rewrite H. Qed.

Section P.
  Variable pooled_ty : N -> bool.
  Variable container : N -> bool.
  Variable descend : N -> N -> bool.
  Variable keeps : N -> N -> bool.
  Variable budget : nat.
  Variable depth : nat.
  (* table fact (cleanliness clause on node-holding slots): a Put leaves no child reference behind *)
  Hypothesis Hkeeps : forall ty f, keeps ty f = false.

  Notation walk := (walk pooled_ty descend keeps).
  Notation rel := (rel pooled_ty container descend keeps budget).
  Notation step := (step pooled_ty container descend keeps budget depth).
  Notation wf_opb := (wf_opb pooled_ty container descend keeps budget depth).
  Notation run := (run pooled_ty container descend keeps budget depth).
  Notation wf_histb := (wf_histb pooled_ty container descend keeps budget depth).
  Notation put_node := (put_node keeps).
  Notation dkids := (dkids descend).

  (* The invariant.  [rt] is the tree being released at the moment (None between operations): while its
     release is under way, its not-yet-released objects may still point at objects already Put. *)
  Record Mid (rt : option nat) (s : state) : Prop := {
    m_fresh : forall i, (nxt s <= i)%N -> own s i = Unalloc;
    m_nodup : NoDup (pool s);
    m_pool : forall i, In i (pool s) <-> own s i = Pooled;
    m_clean : forall i, In i (pool s) -> nkids (cont s i) = [];
    m_closed : forall i t f c, own s i = Live t -> In (f, c) (nkids (cont s i)) ->
               own s c = Live t \/ (rt = Some t /\ own s c = Pooled)
  }.
  Definition Inv := Mid None.

  Lemma inv_mid t s : Inv s -> Mid (Some t) s.
  Proof.
    intros [H0 H1 H2 H3 H4]. constructor; auto.
    intros i t' f c Ho Hin. destruct (H4 i t' f c Ho Hin) as [H|[H _]]; [now left | discriminate].
  Qed.

  Lemma inv_init : Inv init.
  Proof.
    constructor; cbn.
    - auto.
    - constructor.
    - intros i. split; [tauto | discriminate].
    - auto.
    - intros i t f c H. discriminate.
  Qed.

  (* what a release of tree t may change *)
  Definition frame (t : nat) (s s' : state) : Prop :=
    nxt s' = nxt s /\
    (forall j, own s j <> Live t -> cont s' j = cont s j /\ own s' j = own s j) /\
    (forall j, own s j = Live t -> own s' j = Live t \/ own s' j = Pooled).

  Lemma frame_refl t s : frame t s s.
  Proof. repeat split; auto. Qed.

  Lemma frame_trans t s1 s2 s3 : frame t s1 s2 -> frame t s2 s3 -> frame t s1 s3.
  Proof.
    intros [N1 [A1 B1]] [N2 [A2 B2]]. split; [congruence|]. split.
    - intros j Hj. destruct (A1 j Hj) as [C1 O1].
      assert (Hj2 : own s2 j <> Live t) by (rewrite O1; assumption).
      destruct (A2 j Hj2) as [C2 O2]. split; congruence.
    - intros j Hj. destruct (B1 j Hj) as [H|H].
      + now apply B2.
      + assert (Hj2 : own s2 j <> Live t) by (rewrite H; discriminate).
        destruct (A2 j Hj2) as [_ O2]. right. congruence.
  Qed.

  Lemma put_node_mid t s i :
    Mid (Some t) s -> own s i = Live t -> ~ In i (pool s) ->
    Mid (Some t) (put_node s i) /\ frame t s (put_node s i).
  Proof.
    intros [H0 H1 H2 H3 H4] Hi Hn. split.
    - constructor; cbn.
      + intros j Hj. destruct (N.eq_dec j i) as [->|Hne].
        * rewrite (H0 i Hj) in Hi. discriminate.
        * rewrite upd_other by assumption. now apply H0.
      + now constructor.
      + intros j. destruct (N.eq_dec j i) as [->|Hne].
        * rewrite upd_same. split; auto.
        * rewrite upd_other by assumption. rewrite <- H2. split; [intros [H|H]; [congruence | assumption] | now right].
      + intros j Hj. destruct (N.eq_dec j i) as [->|Hne].
        * rewrite upd_same. cbn. apply filter_none. intros x. apply Hkeeps.
        * rewrite upd_other by assumption. apply H3. destruct Hj as [Hj|Hj]; [congruence | assumption].
      + intros j t' f c Hj Hin. destruct (N.eq_dec j i) as [->|Hne].
        * rewrite upd_same in Hj. discriminate.
        * rewrite upd_other in Hj by assumption. rewrite upd_other in Hin by assumption.
          destruct (N.eq_dec c i) as [->|Hc].
          -- rewrite upd_same. destruct (H4 j t' f i Hj Hin) as [H|[_ H]]; [|congruence].
             right. split; [congruence | reflexivity].
          -- rewrite upd_other by assumption. eapply H4; eauto.
    - split; [reflexivity|]. split.
      + intros j Hj. assert (Hne : j <> i) by congruence. cbn. now rewrite !upd_other by assumption.
      + intros j Hj. cbn. destruct (N.eq_dec j i) as [->|Hne].
        * right. apply upd_same.
        * left. now rewrite upd_other by assumption.
  Qed.

  Lemma walk_flag b : forall s wl, snd (walk b s wl false) = false.
  Proof.
    induction b as [|b IH]; intros s wl; [reflexivity|].
    destruct wl as [|i rest]; [reflexivity|]. cbn [Own.walk].
    destruct (pooled_ty (nty (cont s i))); apply IH.
  Qed.

  Definition mine_or_put (t : nat) (s : state) (i : id) : Prop := own s i = Live t \/ own s i = Pooled.

  Lemma frame_mine t s s' i : frame t s s' -> mine_or_put t s i -> mine_or_put t s' i.
  Proof.
    intros [_ [A B]] [H|H].
    - exact (B i H).
    - assert (Hn : own s i <> Live t) by (rewrite H; discriminate).
      destruct (A i Hn) as [_ O]. right. congruence.
  Qed.

  Lemma dkids_In n c : In c (dkids n) -> exists f, In (f, c) (nkids n).
  Proof.
    unfold Own.dkids. intros H. apply in_map_iff in H. destruct H as [[f c'] [E H]]. cbn in E. subst c'.
    apply filter_In in H. destruct H as [H _]. now exists f.
  Qed.

  (* the children a release follows from one of its own (or already put) objects are its own or already put *)
  Lemma dkids_mine t s i : Mid (Some t) s -> mine_or_put t s i ->
    forall j, In j (dkids (cont s i)) -> mine_or_put t s j.
  Proof.
    intros HM Hi j Hj. apply dkids_In in Hj. destruct Hj as [f Hj]. destruct Hi as [Hi|Hi].
    - destruct (m_closed _ _ HM i t f j Hi Hj) as [H|[_ H]]; [now left | now right].
    - assert (Hp : In i (pool s)) by now apply (m_pool _ _ HM).
      rewrite (m_clean _ _ HM i Hp) in Hj. destruct Hj.
  Qed.

  Lemma walk_mid t b : forall s wl ok s',
    Mid (Some t) s -> (forall i, In i wl -> mine_or_put t s i) ->
    walk b s wl ok = (s', true) ->
    ok = true /\ Mid (Some t) s' /\ frame t s s'.
  Proof.
    induction b as [|b IH]; intros s wl ok s' HM Hwl Hw.
    - cbn in Hw. inversion Hw; subst. split; [reflexivity | split; [assumption | apply frame_refl]].
    - destruct wl as [|i rest];
        [cbn in Hw; inversion Hw; subst; split; [reflexivity | split; [assumption | apply frame_refl]]|].
      cbn [Own.walk] in Hw. destruct (pooled_ty (nty (cont s i))) eqn:Ep.
      + destruct ok.
        2:{ cbn [andb] in Hw. pose proof (walk_flag b (put_node s i) (rev (dkids (cont s i)) ++ rest)) as Hf.
            rewrite Hw in Hf. discriminate. }
        cbn [andb] in Hw. destruct (put_ok s i) eqn:Eo.
        2:{ pose proof (walk_flag b (put_node s i) (rev (dkids (cont s i)) ++ rest)) as Hf.
            rewrite Hw in Hf. discriminate. }
        unfold put_ok in Eo. apply negb_true_iff in Eo. apply memb_false in Eo.
        assert (Hi : own s i = Live t).
        { destruct (Hwl i (or_introl eq_refl)) as [H|H]; [assumption|].
          exfalso. apply Eo. now apply (m_pool _ _ HM). }
        destruct (put_node_mid t s i HM Hi Eo) as [HM1 HF1].
        assert (Hwl1 : forall j, In j (rev (dkids (cont s i)) ++ rest) -> mine_or_put t (put_node s i) j).
        { intros j Hj. apply (frame_mine t s); [assumption|]. apply in_app_iff in Hj. destruct Hj as [Hj|Hj].
          - apply in_rev in Hj. apply (dkids_mine t s i HM (or_introl Hi) j Hj).
          - apply Hwl. now right. }
        destruct (IH _ _ _ _ HM1 Hwl1 Hw) as [_ [HM' HF']].
        split; [reflexivity|]. split; [assumption|]. eapply frame_trans; eauto.
      + apply (IH s (rev (dkids (cont s i)) ++ rest) ok s' HM); [|assumption].
        intros j Hj. apply in_app_iff in Hj. destruct Hj as [Hj|Hj].
        * apply in_rev in Hj. apply (dkids_mine t s i HM (Hwl i (or_introl eq_refl)) j Hj).
        * apply Hwl. now right.
  Qed.

  Lemma fold_rel_flag f :
    (forall s i, snd (rel f s i false) = false) ->
    forall l acc, snd acc = false ->
    snd (fold_left (fun a c => rel f (fst a) c (snd a)) l acc) = false.
  Proof.
    intros Hf. induction l as [|c l IHl]; intros acc Ha; [assumption|].
    cbn [fold_left]. apply IHl. rewrite Ha. apply Hf.
  Qed.

  Lemma rel_flag f : forall s i, snd (rel f s i false) = false.
  Proof.
    induction f as [|f IH]; intros s i; [reflexivity|].
    cbn [Own.rel]. destruct (container (nty (cont s i))).
    - destruct (pooled_ty (nty (cont s i))).
      + cbn [snd]. rewrite (fold_rel_flag f IH); reflexivity.
      + apply (fold_rel_flag f IH). reflexivity.
    - apply walk_flag.
  Qed.

  Lemma rel_mid t f : forall s i ok s',
    Mid (Some t) s -> mine_or_put t s i ->
    rel f s i ok = (s', true) ->
    ok = true /\ Mid (Some t) s' /\ frame t s s'.
  Proof.
    induction f as [|f IH]; intros s i ok s' HM Hi Hr.
    - cbn in Hr. inversion Hr; subst. split; [reflexivity | split; [assumption | apply frame_refl]].
    - cbn [Own.rel] in Hr. destruct (container (nty (cont s i))) eqn:Ec.
      2:{ eapply walk_mid; eauto. intros j [<-|[]]. assumption. }
      assert (Hfold : forall l acc,
                 Mid (Some t) (fst acc) -> (forall c, In c l -> mine_or_put t (fst acc) c) ->
                 snd (fold_left (fun a c => rel f (fst a) c (snd a)) l acc) = true ->
                 snd acc = true /\ Mid (Some t) (fst (fold_left (fun a c => rel f (fst a) c (snd a)) l acc))
                 /\ frame t (fst acc) (fst (fold_left (fun a c => rel f (fst a) c (snd a)) l acc))).
      { induction l as [|c l IHl]; intros acc HMa Hl Hf.
        - cbn in *. split; [assumption | split; [assumption | apply frame_refl]].
        - cbn [fold_left] in *.
          destruct (rel f (fst acc) c (snd acc)) as [sa oka] eqn:Er.
          destruct oka.
          2:{ rewrite (fold_rel_flag f (rel_flag f)) in Hf; [discriminate | reflexivity]. }
          destruct (IH _ _ _ _ HMa (Hl c (or_introl eq_refl)) Er) as [Hok [HMs HFs]].
          destruct (IHl (sa, true)) as [_ [HM2 HF2]]; cbn [fst snd]; auto.
          { intros c' Hc'. apply (frame_mine t (fst acc)); [assumption|]. apply Hl. now right. }
          split; [assumption|]. split; [assumption|]. eapply frame_trans; eauto. }
      set (r1 := fold_left (fun a c => rel f (fst a) c (snd a)) (dkids (cont s i)) (s, ok)) in *.
      destruct (pooled_ty (nty (cont s i))) eqn:Ep.
      2:{ destruct (Hfold (dkids (cont s i)) (s, ok)) as [Hok [HM1 HF1]]; cbn [fst snd]; auto.
          { intros c Hc. apply (dkids_mine t s i HM Hi c Hc). }
          { fold r1. now rewrite Hr. }
          fold r1 in HM1, HF1. rewrite Hr in HM1, HF1. cbn [fst snd] in *. auto. }
      pose proof (f_equal fst Hr) as Hs'. pose proof (f_equal snd Hr) as Hok'. cbn [fst snd] in Hs', Hok'.
      apply andb_true_iff in Hok'. destruct Hok' as [Hr1 Hpo].
      destruct (Hfold (dkids (cont s i)) (s, ok)) as [Hok [HM1 HF1]]; cbn [fst snd]; auto.
      { intros c Hc. apply (dkids_mine t s i HM Hi c Hc). }
      fold r1 in HM1, HF1. cbn [fst snd] in Hok, HF1.
      unfold put_ok in Hpo. apply negb_true_iff in Hpo. apply memb_false in Hpo.
      assert (Hi1 : own (fst r1) i = Live t).
      { destruct (frame_mine t s (fst r1) i HF1 Hi) as [H|H]; [assumption|].
        exfalso. apply Hpo. now apply (m_pool _ _ HM1). }
      destruct (put_node_mid t (fst r1) i HM1 Hi1 Hpo) as [HM2 HF2]. subst s'.
      split; [assumption|]. split; [assumption|]. eapply frame_trans; eauto.
  Qed.

  (* ------------------------------------------------------------------------------------------ *)
  (* one operation *)

  Lemma step_inv s o : Inv s -> wf_opb s o = true -> Inv (step s o).
  Proof.
    intros HI Hwf. destruct o as [t ty | t i | t i n | t r | i | | t r]; cbn [Own.step Own.wf_opb] in *.
    - (* Alloc *)
      destruct HI as [H0 H1 H2 H3 H4].
      assert (Hk : own s (nxt s) = Unalloc) by (apply H0; lia).
      constructor; cbn [cont own nxt pool].
      + intros j Hj. rewrite upd_other by lia. apply H0. lia.
      + assumption.
      + intros j. destruct (N.eq_dec j (nxt s)) as [->|Hne].
        * rewrite upd_same. split; [|discriminate]. intros Hp. apply H2 in Hp. congruence.
        * now rewrite upd_other by assumption.
      + intros j Hj. assert (Hne : j <> nxt s) by (intros ->; apply H2 in Hj; congruence).
        rewrite upd_other by assumption. now apply H3.
      + intros j t' f c Hj Hin. destruct (N.eq_dec j (nxt s)) as [->|Hne].
        * rewrite upd_same in Hin. destruct Hin.
        * rewrite upd_other in Hj by assumption. rewrite upd_other in Hin by assumption.
          destruct (H4 j t' f c Hj Hin) as [H|[H _]]; [|discriminate].
          assert (c <> nxt s) by congruence. left. now rewrite upd_other by assumption.
    - (* Get *)
      rewrite Hwf. apply memb_In in Hwf. destruct HI as [H0 H1 H2 H3 H4].
      assert (Hp : own s i = Pooled) by now apply H2.
      constructor; cbn [cont own nxt pool].
      + intros j Hj. assert (j <> i) by (intros ->; rewrite (H0 i Hj) in Hp; discriminate).
        rewrite upd_other by assumption. now apply H0.
      + now apply remove1_nodup.
      + intros j. rewrite (remove1_spec i _ j H1). destruct (N.eq_dec j i) as [->|Hne].
        * rewrite upd_same. split; [intros [_ H]; congruence | discriminate].
        * rewrite upd_other by assumption. rewrite H2. tauto.
      + intros j Hj. apply H3. eapply remove1_In; eauto.
      + intros j t' f c Hj Hin. destruct (N.eq_dec j i) as [->|Hne].
        * rewrite (H3 i Hwf) in Hin. destruct Hin.
        * rewrite upd_other in Hj by assumption.
          destruct (H4 j t' f c Hj Hin) as [H|[H _]]; [|discriminate].
          assert (c <> i) by congruence. left. now rewrite upd_other by assumption.
    - (* Write *)
      apply andb_true_iff in Hwf. destruct Hwf as [Hwf Hk]. apply andb_true_iff in Hwf. destruct Hwf as [Ho _].
      apply owner_is_true in Ho. rewrite forallb_forall in Hk. destruct HI as [H0 H1 H2 H3 H4].
      constructor; cbn [cont own nxt pool]; auto.
      + intros j Hj. assert (j <> i) by (intros ->; apply H2 in Hj; congruence).
        rewrite upd_other by assumption. now apply H3.
      + intros j t' f c Hj Hin. destruct (N.eq_dec j i) as [->|Hne].
        * rewrite upd_same in Hin. left. specialize (Hk _ Hin). cbn in Hk. apply owner_is_true in Hk. congruence.
        * rewrite upd_other in Hin by assumption. eapply H4; eauto.
    - (* Release *)
      apply andb_true_iff in Hwf. destruct Hwf as [Ho Hr]. apply owner_is_true in Ho.
      destruct (rel depth s r true) as [s1 ok1] eqn:Er. cbn [fst snd] in *. subst ok1.
      destruct (rel_mid t depth s r true s1 (inv_mid t s HI) (or_introl Ho) Er) as [_ [[H0 H1 H2 H3 H4] _]].
      constructor; cbn [cont own nxt pool]; auto.
      + intros j Hj. unfold retire. now rewrite (H0 j Hj).
      + intros j. rewrite H2. unfold retire. destruct (own s1 j) as [|t'| |]; try tauto; try (split; discriminate).
        destruct (Nat.eqb t' t); split; discriminate.
      + intros j t' f c Hj Hin. unfold retire in Hj.
        destruct (own s1 j) as [|t''| |] eqn:Ej; try discriminate.
        destruct (Nat.eqb t'' t) eqn:Et; [discriminate|]. inversion Hj; subst t''.
        apply Nat.eqb_neq in Et.
        destruct (H4 j t' f c Ej Hin) as [H|[H _]]; [|congruence].
        left. unfold retire. rewrite H. apply Nat.eqb_neq in Et. now rewrite Et.
    - (* Drop *)
      rewrite Hwf. apply memb_In in Hwf. destruct HI as [H0 H1 H2 H3 H4].
      assert (Hp : own s i = Pooled) by now apply H2.
      constructor; cbn [cont own nxt pool].
      + intros j Hj. assert (j <> i) by (intros ->; rewrite (H0 i Hj) in Hp; discriminate).
        rewrite upd_other by assumption. now apply H0.
      + now apply remove1_nodup.
      + intros j. rewrite (remove1_spec i _ j H1). destruct (N.eq_dec j i) as [->|Hne].
        * rewrite upd_same. split; [intros [_ H]; congruence | discriminate].
        * rewrite upd_other by assumption. rewrite H2. tauto.
      + intros j Hj. apply H3. eapply remove1_In; eauto.
      + intros j t' f c Hj Hin. destruct (N.eq_dec j i) as [->|Hne].
        * rewrite upd_same in Hj. discriminate.
        * rewrite upd_other in Hj by assumption.
          destruct (H4 j t' f c Hj Hin) as [H|[H _]]; [|discriminate].
          assert (c <> i) by congruence. left. now rewrite upd_other by assumption.
    - (* DropAll *)
      destruct HI as [H0 H1 H2 H3 H4]. constructor; cbn [cont own nxt pool].
      + intros j Hj. unfold drop_all. now rewrite (H0 j Hj).
      + constructor.
      + intros j. unfold drop_all. split; [intros []|]. destruct (own s j); discriminate.
      + intros j [].
      + intros j t' f c Hj Hin. unfold drop_all in *. destruct (own s j) eqn:Ej; try discriminate.
        inversion Hj; subst. destruct (H4 j t' f c Ej Hin) as [H|[H _]]; [|discriminate].
        left. now rewrite H.
    - assumption.
  Qed.

  (* an operation that is not performed by the holder of tree t leaves every object of t as it is *)
  Lemma step_frame s o t : Inv s -> wf_opb s o = true -> actor o <> Some t ->
    forall j, own s j = Live t -> cont (step s o) j = cont s j /\ own (step s o) j = Live t.
  Proof.
    intros HI Hwf Ha j Hj. destruct o as [t' ty | t' i | t' i n | t' r | i | | t' r]; cbn [Own.step Own.wf_opb actor] in *.
    - assert (Hk : own s (nxt s) = Unalloc) by (apply (m_fresh _ _ HI); lia).
      assert (j <> nxt s) by congruence. cbn [cont own nxt pool]. now rewrite !upd_other by assumption.
    - rewrite Hwf. apply memb_In in Hwf. apply (m_pool _ _ HI) in Hwf.
      assert (j <> i) by congruence. cbn [cont own nxt pool]. now rewrite upd_other by assumption.
    - apply andb_true_iff in Hwf. destruct Hwf as [Hwf _]. apply andb_true_iff in Hwf. destruct Hwf as [Ho _].
      apply owner_is_true in Ho. assert (j <> i) by (intros ->; apply Ha; congruence).
      cbn [cont own nxt pool]. now rewrite upd_other by assumption.
    - apply andb_true_iff in Hwf. destruct Hwf as [Ho Hr]. apply owner_is_true in Ho.
      destruct (rel depth s r true) as [s1 ok1] eqn:Er. cbn [fst snd] in *. subst ok1.
      destruct (rel_mid t' depth s r true s1 (inv_mid t' s HI) (or_introl Ho) Er) as [_ [_ [_ [A _]]]].
      assert (Hne : t' <> t) by congruence.
      assert (Hn : own s j <> Live t') by congruence.
      destruct (A j Hn) as [C O]. cbn [cont own nxt pool]. split; [assumption|]. unfold retire. rewrite O, Hj.
      destruct (Nat.eqb_spec t t'); [congruence | reflexivity].
    - rewrite Hwf. apply memb_In in Hwf. apply (m_pool _ _ HI) in Hwf.
      assert (j <> i) by congruence. cbn [cont own nxt pool]. now rewrite upd_other by assumption.
    - cbn [cont own nxt pool]. unfold drop_all. now rewrite Hj.
    - auto.
  Qed.

  (* ------------------------------------------------------------------------------------------ *)
  (* histories *)

  Lemma run_app h1 : forall s h2, run s (h1 ++ h2) = run (run s h1) h2.
  Proof. induction h1 as [|o h1 IH]; intros s h2; cbn; [reflexivity | apply IH]. Qed.

  Lemma wf_histb_app h1 : forall s h2,
    wf_histb s (h1 ++ h2) = true -> wf_histb s h1 = true /\ wf_histb (run s h1) h2 = true.
  Proof.
    induction h1 as [|o h1 IH]; intros s h2 H; cbn in *; [now split|].
    apply andb_true_iff in H. destruct H as [Ho H]. destruct (IH _ _ H) as [H1 H2].
    rewrite Ho, H1. now split.
  Qed.

  Theorem run_inv : forall h s, Inv s -> wf_histb s h = true -> Inv (run s h).
  Proof.
    induction h as [|o h IH]; intros s HI Hwf; cbn in *; [assumption|].
    apply andb_true_iff in Hwf. destruct Hwf as [Ho Hh]. apply IH; [|assumption]. now apply step_inv.
  Qed.

  Lemma reach_own s r t : Inv s -> own s r = Live t -> forall i, reach (cont s) r i -> own s i = Live t.
  Proof.
    intros HI Hr i Hre. induction Hre as [i | i f k j Hin Hre IH]; [assumption|].
    apply IH. destruct (m_closed _ _ HI i t f k Hr Hin) as [H|[H _]]; [assumption | discriminate].
  Qed.

  (* every object has at most one holder: the pools never hold an object twice, no caller-held tree
     reaches a pooled object, and no object is reachable from the trees of two different holders *)
  Theorem no_double_ownership : forall h, wf_histb init h = true ->
    let s := run init h in
    NoDup (pool s) /\
    (forall r t i, own s r = Live t -> reach (cont s) r i -> ~ In i (pool s)) /\
    (forall r r' t t' i, own s r = Live t -> own s r' = Live t' ->
                         reach (cont s) r i -> reach (cont s) r' i -> t = t').
  Proof.
    intros h Hwf s. assert (HI : Inv s) by (apply run_inv; [apply inv_init | assumption]).
    split; [apply (m_nodup _ _ HI)|]. split.
    - intros r t i Hr Hre Hp. apply (m_pool _ _ HI) in Hp.
      rewrite (reach_own s r t HI Hr i Hre) in Hp. discriminate.
    - intros r r' t t' i Hr Hr' Hre Hre'.
      pose proof (reach_own s r t HI Hr i Hre) as H1. pose proof (reach_own s r' t' HI Hr' i Hre') as H2.
      congruence.
  Qed.

  Lemma run_frame : forall h s t, Inv s -> wf_histb s h = true ->
    Forall (fun o => actor o <> Some t) h ->
    forall j, own s j = Live t -> cont (run s h) j = cont s j /\ own (run s h) j = Live t.
  Proof.
    induction h as [|o h IH]; intros s t HI Hwf Ha j Hj; cbn in *; [now split|].
    apply andb_true_iff in Hwf. destruct Hwf as [Ho Hh]. inversion Ha as [|? ? Ha1 Ha2]; subst.
    destruct (step_frame s o t HI Ho Ha1 j Hj) as [C O].
    destruct (IH (step s o) t (step_inv s o HI Ho) Hh Ha2 j O) as [C' O']. split; congruence.
  Qed.

  Lemma view_ext fuel : forall c c' i, (forall j, reach c i j -> c' j = c j) -> view fuel c' i = view fuel c i.
  Proof.
    induction fuel as [|fuel IH]; intros c c' i H; [reflexivity|].
    cbn [view]. rewrite (H i (reach_refl c i)). f_equal. apply map_ext_in.
    intros [f k] Hin. cbn. f_equal. apply IH. intros j Hj. apply H. eapply reach_step; eauto.
  Qed.

  (* whatever happens later (parses, releases of other trees, pool gets and puts by anybody else, garbage
     collection), a tree that its holder has not released looks the same and stays the holder's *)
  Theorem held_results_stable : forall h s t r, Inv s -> wf_histb s h = true ->
    Forall (fun o => actor o <> Some t) h -> own s r = Live t ->
    (forall fuel, view fuel (cont (run s h)) r = view fuel (cont s) r) /\
    (forall i, reach (cont s) r i -> own (run s h) i = Live t /\ ~ In i (pool (run s h))).
  Proof.
    intros h s t r HI Hwf Ha Hr. split.
    - intros fuel. apply view_ext. intros j Hj.
      apply (run_frame h s t HI Hwf Ha j). eapply reach_own; eauto.
    - intros i Hi. assert (Ho : own s i = Live t) by (eapply reach_own; eauto).
      destruct (run_frame h s t HI Hwf Ha i Ho) as [_ O]. split; [assumption|].
      intros Hp. apply (m_pool _ _ (run_inv h s HI Hwf)) in Hp. congruence.
  Qed.

  Theorem held_results_stable_from_init : forall h1 h2 t r,
    wf_histb init (h1 ++ h2) = true -> Forall (fun o => actor o <> Some t) h2 ->
    own (run init h1) r = Live t ->
    (forall fuel, view fuel (cont (run init (h1 ++ h2))) r = view fuel (cont (run init h1)) r) /\
    (forall i, reach (cont (run init h1)) r i ->
               own (run init (h1 ++ h2)) i = Live t /\ ~ In i (pool (run init (h1 ++ h2)))).
  Proof.
    intros h1 h2 t r Hwf Ha Hr. destruct (wf_histb_app _ _ _ Hwf) as [W1 W2]. rewrite run_app.
    apply held_results_stable; auto. apply run_inv; [apply inv_init | assumption].
  Qed.

  (* releasing tree t' leaves every other live tree exactly as it was *)
  Theorem release_does_not_touch_other_trees : forall h t' r' t r,
    wf_histb init (h ++ [Release t' r']) = true -> t <> t' ->
    own (run init h) r = Live t ->
    (forall fuel, view fuel (cont (run init (h ++ [Release t' r']))) r = view fuel (cont (run init h)) r) /\
    (forall i, reach (cont (run init h)) r i ->
               own (run init (h ++ [Release t' r'])) i = Live t /\ ~ In i (pool (run init (h ++ [Release t' r'])))).
  Proof.
    intros h t' r' t r Hwf Hne Hr. apply held_results_stable_from_init; auto.
    constructor; [|constructor]. cbn. congruence.
  Qed.
End P.

(* slices and byte buffers: a result none of whose cells is written later reads the same *)
Lemma wr_other m w a : a <> fst w -> wr m w a = m a.
Proof. intros H. unfold wr. apply N.eqb_neq in H. now rewrite H. Qed.

Theorem alias_free_stable : forall ws m cells,
  disjointb cells ws = true -> read (wr_all m ws) cells = read m cells.
Proof.
  induction ws as [|w ws IH]; intros m cells H; [reflexivity|].
  cbn in H. apply andb_true_iff in H. destruct H as [Hw H]. cbn. unfold wr_all in IH. rewrite IH by assumption.
  unfold read. apply map_ext_in. intros a Ha. apply wr_other. intros ->.
  apply negb_true_iff in Hw. apply memb_false in Hw. contradiction.
Qed.

(* The no-double-Put flag is necessary: a release that meets one object through two descended slots
   Puts it twice, and the pool then hands the same object to two different holders. *)
Example shared_child_is_put_twice :
  let P := fun _ : N => true in let F := fun _ : N => false in
  let D := fun _ _ : N => true in let K := fun _ _ : N => false in
  let h := [Alloc 0 1%N; Alloc 0 2%N; Write 0 0%N (mkNode 1%N 0%N [(0%N, 1%N); (1%N, 1%N)])] in
  let s := run P F D K 10 3 init h in
  wf_histb P F D K 10 3 init h = true /\
  wf_opb P F D K 10 3 s (Release 0 0%N) = false /\
  let s' := run P F D K 10 3 s [Release 0 0%N; Get 1 1%N] in
  wf_opb P F D K 10 3 s' (Get 2 1%N) = true /\ own s' 1%N = Live 1.
Proof. vm_compute. repeat split. Qed.
