(* StmtParseP.v — proofs about the Gallina model of the statement parser (Model/StmtParse.v): every rendering of a
   reference SELECT (Spec/RefStmt.v), for every parenthesisation choice of every expression in it, is mapped to
   exactly the prescribed tree and the untouched rest.  One lemma per clause; list-valued clauses by induction over
   the list with the loop's accumulator generalised. *)
From Coq Require Import List String Ascii Bool Arith NArith ZArith Lia.
From GV Require Import Spec.RefGrammar Spec.RefStmt Model.Expr Model.ExprParse Model.StmtParse Proofs.ExprParseP Proofs.ExprParseExtP.
Import ListNotations.
Local Open Scope string_scope.
Local Open Scope list_scope.
Local Open Scope nat_scope.
Local Notation length := List.length.
Local Notation render_body := RefStmt.render_body.   (* Proofs/ExprParseP.v has a lemma of the same name *)
Arguments isT !t k /.
Arguments litfold !t kw /.
Arguments parse_select : simpl never.
Arguments parse_join : simpl never.
Arguments parse_from_table_ref : simpl never.
Arguments parse_qualified_name : simpl never.
Arguments parse_table_alias : simpl never.

(* ------------------------------------------------------------------------------------------------ *)
(* token classes: "the head of the remaining input has one of these types" *)
Definition tyin (t : token) (l : list tty) : bool := existsb (tty_eqb (ty t)) l.
Definition notin (k : tty) (l : list tty) : bool := forallb (fun a => negb (N.eqb (tty_code a) (tty_code k))) l.

Lemma tyin_isT : forall t l k, tyin t l = true -> notin k l = true -> isT t k = false.
Proof.
  intros t l k Hin Hk. unfold tyin in Hin. apply existsb_exists in Hin. destruct Hin as (a & Ha & E).
  unfold notin in Hk. rewrite forallb_forall in Hk. specialize (Hk a Ha). apply negb_true_iff in Hk.
  unfold isT, tty_eqb in *. apply N.eqb_eq in E. rewrite E. exact Hk.
Qed.

Lemma tyin_weaken : forall t l l', tyin t l = true -> (forall a, In a l -> In a l') -> tyin t l' = true.
Proof.
  intros t l l' H Hsub. unfold tyin in *. apply existsb_exists in H. destruct H as (a & Ha & E).
  apply existsb_exists. exists a. split; [apply Hsub; exact Ha|exact E].
Qed.

(* the remaining input starts with a token of class [l] that ends an expression *)
Definition hd_in (l : list tty) (R : list token) : Prop := tyin (cur R) l = true /\ stops 0 (cur R) = true.

Lemma hd_isT : forall l R k, hd_in l R -> notin k l = true -> isT (cur R) k = false.
Proof. intros l R k [H _] Hk. eapply tyin_isT; eassumption. Qed.

Lemma hd_weaken : forall l l' R, hd_in l R -> (forall a, In a l -> In a l') -> hd_in l' R.
Proof. intros l l' R [H1 H2] Hs. split; [eapply tyin_weaken; eassumption|exact H2]. Qed.

Lemma hd_cons : forall l t R, tyin t l = true -> stops 0 t = true -> hd_in l (t :: R).
Proof. intros. split; assumption. Qed.

(* rewrite every test [isT (cur R) k] whose answer follows from the class of the head of R *)
Ltac hd_rw H :=
  repeat match goal with
         | |- context [isT (cur ?R) ?k] =>
             match type of H with hd_in _ R => rewrite (hd_isT _ R k H eq_refl) end
         end.

(* decide [isT] on tokens of a known type *)
Ltac isT_conc :=
  repeat match goal with
         | |- context [isT (Tk ?a ?s) ?k] =>
             let b := eval vm_compute in (tty_eqb a k) in change (isT (Tk a s) k) with b
         | |- context [isT tLP ?k] => let b := eval vm_compute in (isT tLP k) in change (isT tLP k) with b
         | |- context [isT tRP ?k] => let b := eval vm_compute in (isT tRP k) in change (isT tRP k) with b
         | |- context [isT tComma ?k] => let b := eval vm_compute in (isT tComma k) in change (isT tComma k) with b
         | |- context [isT tPeriod ?k] => let b := eval vm_compute in (isT tPeriod k) in change (isT tPeriod k) with b
         end.

Ltac len_norm H := repeat (progress (rewrite ?app_length in H; cbn [length] in H)).
Ltac in_sub := let a := fresh "a" in let Ha := fresh "Ha" in intros a Ha; cbn [In] in *; tauto.

(* clause keywords after the FROM clause, in order, and what may follow a SELECT *)
Definition Tstop : list tty := [TyEOF; TySemicolon; TyRParen; TyUnion; TyExcept; TyIntersect; TyReturning; TyOn].
Definition T7 := TyFor :: Tstop.
Definition T6 := TyFetch :: T7.
Definition T5 := TyOffset :: T6.
Definition T4 := TyLimit :: T5.
Definition T3 := TyOrder :: T4.
Definition T2 := TyHaving :: T3.
Definition T1 := TyGroup :: T2.
Definition T0 := TyWhere :: T1.
Definition Tjoin : list tty := [TyJoin; TyInner; TyLeft; TyRight; TyFull; TyCross; TyNatural].
Definition TJ0 := Tjoin ++ T0.
Definition Titems := TyFrom :: T0.
Ltac in_sub2 := let a := fresh "a" in let Ha := fresh "Ha" in intros a Ha; unfold Titems, TJ0, Tjoin, T0, T1, T2, T3, T4, T5, T6, T7, Tstop in *; cbn [In app] in *; tauto.

Lemma sel_follow_hd : forall stop, sel_follow stop -> hd_in Tstop stop.
Proof.
  intros stop (t & rest & E & H). subst stop. unfold sel_stop in H. apply andb_prop in H. destruct H as [H _].
  apply andb_prop in H. destruct H as [H Hs].
  split; [|exact Hs]. cbn [cur]. unfold tyin, Tstop. cbn [existsb]. unfold isT in H.
  rewrite orb_false_r. repeat rewrite orb_assoc in *. exact H.
Qed.

Lemma sel_follow_lit : forall stop, sel_follow stop -> for_word (lit (cur stop)) = false.
Proof.
  intros stop (t & rest & E & H). subst stop. unfold sel_stop in H. apply andb_prop in H. destruct H as [_ H].
  apply negb_true_iff in H. exact H.
Qed.

(* decide [litfold] on tokens of a known text *)
Ltac lf_conc :=
  repeat match goal with
         | |- context [litfold (Tk ?a ?s) ?k] =>
             let b := eval vm_compute in (eqfold s k) in change (litfold (Tk a s) k) with b
         end.

(* an optional clause in front of a remainder: the head is the clause keyword or the head of the remainder *)
Lemma hd_opt : forall {A} (kwt : tty) (kws : string) (more : list token) (f : A -> list token) (o : option A) l R,
    hd_in l R -> stops 0 (Tk kwt kws) = true -> hd_in (kwt :: l) (opt_clause (Tk kwt kws :: more) f o ++ R).
Proof.
  intros A kwt kws more f o l R H Hs. destruct o as [x|]; cbn [opt_clause app].
  - split; [|exact Hs]. cbn [cur]. unfold tyin. cbn [existsb ty]. unfold tty_eqb. rewrite N.eqb_refl. reflexivity.
  - eapply hd_weaken; [exact H|in_sub].
Qed.

Lemma hd_list : forall (kwt : tty) (kws : string) (more : list token) (ls : list (list token)) l R,
    hd_in l R -> stops 0 (Tk kwt kws) = true -> hd_in (kwt :: l) (list_clause (Tk kwt kws :: more) ls ++ R).
Proof.
  intros kwt kws more ls l R H Hs. destruct ls as [|x tl]; cbn [list_clause app].
  - eapply hd_weaken; [exact H|in_sub].
  - split; [|exact Hs]. cbn [cur]. unfold tyin. cbn [existsb ty]. unfold tty_eqb. rewrite N.eqb_refl. reflexivity.
Qed.

(* identifiers of the surface end an expression *)
Lemma plain_stops : forall n, plain_name n = true -> stops 0 (Tk TyIdent n) = true.
Proof.
  intros n H. unfold plain_name in H. apply andb_prop in H. destruct H as [_ H]. rewrite forallb_forall in H.
  assert (Hw : forall w, In w special_words -> litfold (Tk TyIdent n) w = false).
  { intros w Hw. specialize (H w Hw). apply negb_true_iff in H. exact H. }
  unfold stops, cont8, cont7, cont6, cont5, cont4, cont3, cont1, cont0, is_cmp_tok.
  rewrite (Hw "AGAINST"), (Hw "ILIKE"), (Hw "REGEXP"), (Hw "RLIKE") by (unfold special_words; cbn [In]; tauto).
  reflexivity.
Qed.

(* ------------------------------------------------------------------------------------------------ *)
(* names *)
Definition dot_acc (acc : string) (ps : list string) : string := fold_left (fun a p => ((a ++ ".") ++ p)%string) ps acc.
Fixpoint path_tail (ps : list string) : list token :=
  match ps with [] => [] | p :: r => tPeriod :: Tk TyIdent p :: path_tail r end.

Lemma path_toks_cons : forall p ps, path_toks (p :: ps) = Tk TyIdent p :: path_tail ps.
Proof.
  intros p ps. revert p. induction ps as [|q r IH]; intros p; [reflexivity|].
  change (path_toks (p :: q :: r)) with ([Tk TyIdent p] ++ [tPeriod] ++ path_toks (q :: r)). rewrite IH. reflexivity.
Qed.

Lemma join_dot_acc : forall ps p pre, (pre ++ join_dot (p :: ps))%string = dot_acc (pre ++ p)%string ps.
Proof.
  induction ps as [|q r IH]; intros p pre; [reflexivity|].
  change (join_dot (p :: q :: r)) with (p ++ ("." ++ join_dot (q :: r)))%string.
  cbn [dot_acc fold_left]. change (fold_left (fun a p0 => ((a ++ ".") ++ p0)%string) r (((pre ++ p) ++ ".") ++ q)%string)
    with (dot_acc ((((pre ++ p) ++ ".") ++ q))%string r).
  rewrite <- IH. rewrite !sapp_assoc. reflexivity.
Qed.

Lemma join_dot_dot_acc : forall p ps, join_dot (p :: ps) = dot_acc p ps.
Proof. intros. exact (join_dot_acc ps p ""). Qed.

Lemma length_path_tail : forall ps, length (path_tail ps) = 2 * length ps.
Proof. induction ps; cbn [path_tail length]; lia. Qed.

Lemma qname_tail_ok : forall ps name R n,
    isT (cur R) TyPeriod = false -> length (path_tail ps) < n ->
    qname_tail n name (path_tail ps ++ R) = Val (dot_acc name ps, R).
Proof.
  induction ps as [|p r IH]; intros name R n HR Hn.
  - destruct n as [|n]; [cbn in Hn; lia|]. cbn [path_tail app qname_tail dot_acc fold_left]. rewrite HR. reflexivity.
  - destruct n as [|n]; [cbn in Hn; lia|]. cbn [path_tail app qname_tail cur advance].
    cbn [isT ty tty_eqb tty_code N.eqb Pos.eqb tPeriod is_identifier orb negb andb lit].
    rewrite IH; [reflexivity|exact HR|cbn [path_tail length] in Hn; lia].
Qed.

Lemma qname_ok : forall p ps R, isT (cur R) TyPeriod = false ->
    parse_qualified_name (path_toks (p :: ps) ++ R) = Val (join_dot (p :: ps), R).
Proof.
  intros p ps R HR. rewrite path_toks_cons, join_dot_dot_acc. unfold parse_qualified_name.
  cbn [app cur advance]. cbn [isT ty tty_eqb tty_code N.eqb Pos.eqb is_identifier orb negb andb lit].
  apply qname_tail_ok; [exact HR|]. cbn [length]. rewrite app_length. lia.
Qed.

Lemma path_head : forall p ps X, cur (path_toks (p :: ps) ++ X) = Tk TyIdent p.
Proof. intros. rewrite path_toks_cons. reflexivity. Qed.

(* what must not follow a table name / alias *)
Definition tbl_follow (R : list token) : Prop :=
  isT (cur R) TyPeriod = false /\ is_identifier (cur R) = false /\ isT (cur R) TyAs = false.

Lemma hd_tbl_follow : forall l R, hd_in l R ->
    notin TyPeriod l = true -> notin TyIdent l = true -> notin TyDQuoted l = true -> notin TyAs l = true -> tbl_follow R.
Proof.
  intros l R H H1 H2 H3 H4. unfold tbl_follow, is_identifier.
  rewrite (hd_isT l R TyPeriod H H1), (hd_isT l R TyIdent H H2), (hd_isT l R TyDQuoted H H3), (hd_isT l R TyAs H H4). auto.
Qed.

Lemma alias_ok_parse : forall a R, tbl_follow R -> parse_table_alias (alias_toks a ++ R) = Val (alias_name a, R).
Proof.
  intros a R (Hp & Hi & Ha). unfold parse_table_alias.
  destruct a as [[askw n]|]; [destruct askw|]; cbn [alias_toks app cur advance alias_name].
  - reflexivity.
  - reflexivity.
  - rewrite Hi, Ha. reflexivity.
Qed.

Lemma table_ref_ok : forall t R, table_ok t = true -> tbl_follow R ->
    parse_from_table_ref (table_toks t ++ R) = Val (ast_of_table t, R).
Proof.
  intros [path al] R Hok HR. unfold table_ok in Hok. cbn [tb_path tb_alias] in Hok.
  apply andb_prop in Hok. destruct Hok as [Hok _]. apply andb_prop in Hok. destruct Hok as [Hne _].
  destruct path as [|p ps]; [discriminate|].
  unfold parse_from_table_ref, table_toks, ast_of_table. cbn [tb_path tb_alias].
  rewrite <- app_assoc. rewrite !path_head. isT_conc. cbn iota. rewrite !path_head. isT_conc. cbn iota.
  rewrite qname_ok.
  - cbn [bind]. rewrite alias_ok_parse by exact HR. reflexivity.
  - destruct HR as (Hp & Hi & Ha). destruct al as [[askw n]|]; [destruct askw|]; cbn [alias_toks app cur]; [reflexivity|reflexivity|exact Hp].
Qed.

(* ------------------------------------------------------------------------------------------------ *)
(* heads of renderings: type and literal *)
Definition starts_list : list tty :=
  [TyIdent; TyDQuoted; TyNumber; TySQuoted; TyPlaceholder; TyNull; TyTrue; TyFalse; TyLParen; TyNot; TyCase; TyCast].

Ltac rhd :=
  repeat match goal with
         | |- context [isT (cur (render ?lv ?r ?e ++ ?X)) ?k] => rewrite (head_isT_not e lv r X k eq_refl)
         end.


Lemma notin_cons_false : forall k a l, notin k (a :: l) = true -> notin k l = true.
Proof. intros k a l H. unfold notin in *. cbn [forallb] in H. apply andb_prop in H. tauto. Qed.

Lemma sep_by_cons2 : forall {A} (sep x y : list A) (tl : list (list A)), sep_by sep (x :: y :: tl) = x ++ sep ++ sep_by sep (y :: tl).
Proof. reflexivity. Qed.

Section SP.
  Variable md : nat.
  Variable fuel : nat.
  Variable sf : sflags.
  Notation pe := (parse_expression md no_defects fuel).

  Lemma pe_item : forall e (r : rho) rest d, ref_expr e = true -> stops 0 (cur rest) = true ->
      S d + pdepth 0 r e <= md -> length (render 0 r e ++ rest) < fuel ->
      pe d (render 0 r e ++ rest) = Val (ast_of e, rest).
  Proof. intros. apply (PE_item md e (all_exprs_ext md e)); assumption. Qed.

  (* ---------------------------------------------------------------------------------------------- *)
  (* WHERE, HAVING *)
  Lemma ps_where_ok : forall (sr : srho) w R d, optb ref_expr w = true -> hd_in T1 R ->
      S d + opt_depth (sr cl_where 0) w <= md -> length (where_toks sr w ++ R) < fuel ->
      ps_where pe d (where_toks sr w ++ R) = Val (option_map ast_of w, R).
  Proof.
    intros sr w R d Href HR Hdep Hlen. unfold where_toks in *. destruct w as [e|]; cbn [opt_clause app option_map opt_depth optb] in *.
    - unfold ps_where. cbn [cur advance]. isT_conc. cbn iota. unfold is_setop. rhd. cbn [orb].
      rewrite pe_item; [reflexivity|assumption|apply HR|assumption|cbn [length] in Hlen; lia].
    - unfold ps_where. hd_rw HR. reflexivity.
  Qed.

  Lemma ps_having_ok : forall (sr : srho) w R d, optb ref_expr w = true -> hd_in T3 R ->
      S d + opt_depth (sr cl_having 0) w <= md -> length (having_toks sr w ++ R) < fuel ->
      ps_having pe d (having_toks sr w ++ R) = Val (option_map ast_of w, R).
  Proof.
    intros sr w R d Href HR Hdep Hlen. unfold having_toks in *. destruct w as [e|]; cbn [opt_clause app option_map opt_depth optb] in *.
    - unfold ps_having. cbn [cur advance]. isT_conc. cbn iota.
      rewrite pe_item; [reflexivity|assumption|apply HR|assumption|cbn [length] in Hlen; lia].
    - unfold ps_having. hd_rw HR. reflexivity.
  Qed.

  (* ---------------------------------------------------------------------------------------------- *)
  (* LIMIT, OFFSET *)
  Lemma sscanf_digits : forall s, number_ok s = true -> sscanf_d s = dec_value s.
  Proof.
    intros s H. unfold number_ok in H. apply andb_prop in H. destruct H as [Hne Hd].
    destruct s as [|c r]; [discriminate|]. cbn [all_digits] in Hd. apply andb_prop in Hd. destruct Hd as [Hc _].
    unfold sscanf_d.
    assert (Hm : Ascii.eqb c "-" = false).
    { destruct (Ascii.eqb_spec c "-"%char) as [->|]; [discriminate Hc|reflexivity]. }
    assert (Hp : Ascii.eqb c "+" = false).
    { destruct (Ascii.eqb_spec c "+"%char) as [->|]; [discriminate Hc|reflexivity]. }
    rewrite Hm, Hp. reflexivity.
  Qed.

  Lemma ps_limit_ok : forall o R, optb number_ok o = true -> hd_in T5 R ->
      ps_limit (limit_toks o ++ R) = Val (option_map dec_value o, R).
  Proof.
    intros o R Hok HR. unfold limit_toks. destruct o as [s|]; cbn [opt_clause app option_map optb] in *.
    - unfold ps_limit. cbn [cur advance lit]. unfold is_numeric_literal. isT_conc. cbn iota. cbn [negb]. rewrite sscanf_digits by exact Hok. reflexivity.
    - unfold ps_limit. hd_rw HR. reflexivity.
  Qed.

  Lemma ps_offset_ok : forall o R, optb number_ok o = true -> hd_in T6 R ->
      ps_offset (offset_toks o ++ R) = Val (option_map dec_value o, R).
  Proof.
    intros o R Hok HR. unfold offset_toks. destruct o as [s|]; cbn [opt_clause app option_map optb] in *.
    - unfold ps_offset. cbn [cur advance lit]. unfold is_numeric_literal. isT_conc. cbn iota. cbn [negb]. rewrite sscanf_digits by exact Hok.
      hd_rw HR. reflexivity.
    - unfold ps_offset. hd_rw HR. reflexivity.
  Qed.

  Lemma ps_fetch_ok : forall o R, optb (fun f => number_ok (ft_count f)) o = true -> hd_in T7 R ->
      ps_fetch (fetch_toks o ++ R) = Val (option_map ast_of_fetch o, R).
  Proof.
    intros o R Hok HR. unfold fetch_toks. destruct o as [[nx cnt pct rows ties]|]; cbn [opt_clause app option_map optb ft_count] in *.
    - unfold ps_fetch, ast_of_fetch. cbn [ft_next ft_count ft_percent ft_rows ft_ties].
      rewrite <- (sscanf_digits cnt Hok).
      destruct nx, pct, rows as [[|]|], ties; cbn [app cur advance lit]; unfold is_numeric_literal; isT_conc; cbn iota; cbn [negb orb bind cur advance lit];
        isT_conc; cbn iota; cbn [negb orb bind cur advance lit]; isT_conc; cbn iota; cbn [negb orb bind cur advance lit]; isT_conc; cbn iota;
        cbn [negb orb bind cur advance lit]; isT_conc; cbn iota; try reflexivity.
    - unfold ps_fetch. hd_rw HR. reflexivity.
  Qed.

  (* ---------------------------------------------------------------------------------------------- *)
  (* comma-separated expression lists: GROUP BY, plain lists (VALUES rows), RETURNING *)
  Lemma exprs_sep_cons2 : forall (sr : srho) c i e e2 tl,
      sep_by [tComma] (exprs_toks sr c i (e :: e2 :: tl))
      = render 0 (sr c i) e ++ tComma :: sep_by [tComma] (exprs_toks sr c (S i) (e2 :: tl)).
  Proof. reflexivity. Qed.

  Lemma exprs_head_not : forall (sr : srho) c i e tl X k, notin k starts_list = true ->
      isT (cur (sep_by [tComma] (exprs_toks sr c i (e :: tl)) ++ X)) k = false.
  Proof.
    intros sr c i e tl X k Hk. destruct tl as [|e2 tl2].
    - cbn [exprs_toks sep_by]. apply head_isT_not. exact Hk.
    - rewrite exprs_sep_cons2. rewrite <- app_assoc. apply head_isT_not. exact Hk.
  Qed.

  (* ROLLUP ( ... ) / CUBE ( ... ) *)
  Lemma grouping_exprs_ok : forall l, forallb ref_expr l = true -> l <> [] ->
      forall (sr : srho) c i d acc X n,
        S d + exprs_depth sr c i l <= md ->
        length (sep_by [tComma] (exprs_toks sr c i l) ++ tRP :: X) < fuel ->
        length (sep_by [tComma] (exprs_toks sr c i l) ++ tRP :: X) < n ->
        grouping_exprs pe n d acc (sep_by [tComma] (exprs_toks sr c i l) ++ tRP :: X) = Val (acc ++ map ast_of l, tRP :: X).
  Proof.
    induction l as [|e tl IH]; intros Href Hne sr c i d acc X n Hdep Hlen Hn; [contradiction|].
    cbn [forallb] in Href. apply andb_prop in Href. destruct Href as [Hre Hrtl].
    cbn [exprs_depth] in Hdep.
    destruct n as [|n]; [lia|].
    destruct tl as [|e2 tl'].
    - cbn [exprs_toks sep_by] in *. cbn [grouping_exprs].
      rewrite pe_item; [|assumption|reflexivity|lia|assumption].
      cbn [bind cur]. isT_conc. cbn iota. reflexivity.
    - rewrite exprs_sep_cons2 in *. rewrite <- app_assoc in *. cbn [app] in *.
      rewrite app_length in Hlen, Hn. cbn [length] in Hlen, Hn.
      cbn [grouping_exprs].
      rewrite pe_item; [|assumption|reflexivity|lia|rewrite app_length; cbn [length]; lia].
      cbn [bind cur advance]. isT_conc. cbn iota. cbn [negb].
      rewrite (IH Hrtl ltac:(discriminate) sr c (S i) d (acc ++ [ast_of e]) X n); [|lia|lia|lia].
      rewrite <- app_assoc. reflexivity.
  Qed.

  Lemma grouping_list_ok : forall l (sr : srho) c i d X,
      forallb ref_expr l = true -> l <> [] ->
      S d + exprs_depth sr c i l <= md ->
      length (tLP :: sep_by [tComma] (exprs_toks sr c i l) ++ tRP :: X) < fuel ->
      parse_grouping_list pe d (tLP :: sep_by [tComma] (exprs_toks sr c i l) ++ tRP :: X) = Val (map ast_of l, X).
  Proof.
    intros l sr c i d X Href Hne Hdep Hlen. destruct l as [|e tl]; [contradiction|].
    unfold parse_grouping_list. cbn [cur advance]. isT_conc. cbn iota. cbn [negb].
    rewrite (exprs_head_not sr c i e tl (tRP :: X) TyRParen eq_refl).
    cbn [length] in Hlen.
    rewrite (grouping_exprs_ok (e :: tl) Href Hne sr c i d [] X); [|exact Hdep|lia|lia].
    cbn [bind advance app]. reflexivity.
  Qed.

  (* GROUPING SETS ( set, ... ) *)
  Definition colref_toks (e : mexpr) : list token :=
    match e with
    | MIdent q n => [Tk (if q then TyDQuoted else TyIdent) n]
    | MQIdent t n => [Tk TyIdent t; Tk TyPeriod "."; Tk TyIdent n]
    | _ => []
    end.
  Lemma colref_render : forall e (r : rho), is_column_ref e = true -> render 0 r e = wrap (r []) (colref_toks e).
  Proof.
    intros e r H. destruct e; try discriminate H; cbn [render colref_toks]; unfold parens; cbn [level_of Nat.ltb Nat.leb]; rewrite Nat.add_0_r; reflexivity.
  Qed.
  Lemma colref_depth : forall e (r : rho), is_column_ref e = true -> pdepth 0 r e = r [].
  Proof.
    intros e r H. destruct e; try discriminate H; cbn [pdepth]; unfold parens; cbn [level_of Nat.ltb Nat.leb]; lia.
  Qed.

  Definition gset_depth (sr : srho) (i : nat) (g : mgset) : nat :=
    match g with GsList es => exprs_depth sr cl_group i es | GsBare e => pdepth 0 (sr cl_group i) e end.

  Lemma gs_set_ok : forall g (sr : srho) i d X,
      gset_ok g = true -> stops 0 (cur X) = true ->
      S d + gset_depth sr i g <= md -> length (gset_toks sr i g ++ X) < fuel ->
      parse_gs_set pe d (gset_toks sr i g ++ X) = Val (ast_of_gset g, X).
  Proof.
    intros g sr i d X Hok HX Hdep Hlen. unfold parse_gs_set.
    destruct g as [es|e]; cbn [gset_toks gset_ok gset_depth ast_of_gset] in *.
    - cbn [app cur advance]. isT_conc. cbn iota.
      destruct es as [|e0 tl].
      + cbn [exprs_toks sep_by app cur advance map]. isT_conc. cbn iota. reflexivity.
      + rewrite <- app_assoc. cbn [app].
        rewrite (exprs_head_not sr cl_group i e0 tl (tRP :: X) TyRParen eq_refl).
        cbn [app] in Hlen. rewrite <- app_assoc in Hlen. cbn [app length] in Hlen.
        rewrite (grouping_exprs_ok (e0 :: tl) Hok ltac:(discriminate) sr cl_group i d [] X); [|exact Hdep|lia|lia].
        cbn [bind advance app]. reflexivity.
    - apply andb_prop in Hok. destruct Hok as [Hcol Href].
      pose proof (colref_render e (sr cl_group i) Hcol) as Er. pose proof (colref_depth e (sr cl_group i) Hcol) as Ed.
      destruct (sr cl_group i []) as [|k] eqn:Ek.
      + assert (Hh : isT (cur (render 0 (sr cl_group i) e ++ X)) TyLParen = false).
        { rewrite Er. cbn [wrap]. destruct e; try discriminate Hcol; [destruct quoted|]; reflexivity. }
        rewrite Hh. rewrite pe_item; [reflexivity|exact Href|exact HX|exact Hdep|exact Hlen].
      + set (r' := (fun _ : list nat => k) : rho).
        assert (Er' : wrap k (colref_toks e) = render 0 r' e) by (rewrite (colref_render e r' Hcol); reflexivity).
        rewrite Er in *. cbn [wrap] in *. rewrite Er' in *. cbn [app cur advance] in *. isT_conc. cbn iota.
        rewrite <- app_assoc in *. cbn [app] in *.
        rewrite (head_isT_not e 0 r' (tRP :: X) TyRParen eq_refl).
        cbn [length] in Hlen.
        pose proof (grouping_exprs_ok [e]) as G. cbn [forallb exprs_toks sep_by exprs_depth map] in G.
        rewrite (G ltac:(rewrite Href; reflexivity) ltac:(discriminate) (fun _ _ => r') 0 0 d [] X).
        * cbn [bind advance app]. reflexivity.
        * rewrite (colref_depth e r' Hcol). unfold r'. lia.
        * lia.
        * lia.
  Qed.

  Lemma gsets_sep_cons2 : forall (sr : srho) i g g2 tl,
      sep_by [tComma] (gsets_toks sr i (g :: g2 :: tl))
      = gset_toks sr i g ++ tComma :: sep_by [tComma] (gsets_toks sr (i + gset_size g) (g2 :: tl)).
  Proof. reflexivity. Qed.

  Lemma gs_sets_ok : forall l, forallb gset_ok l = true -> l <> [] ->
      forall (sr : srho) i d acc X n,
        S d + gsets_depth sr i l <= md ->
        length (sep_by [tComma] (gsets_toks sr i l) ++ tRP :: X) < fuel ->
        length (sep_by [tComma] (gsets_toks sr i l) ++ tRP :: X) < n ->
        gs_sets pe n d acc (sep_by [tComma] (gsets_toks sr i l) ++ tRP :: X) = Val (acc ++ map ast_of_gset l, tRP :: X).
  Proof.
    induction l as [|g tl IH]; intros Hok Hne sr i d acc X n Hdep Hlen Hn; [contradiction|].
    cbn [forallb] in Hok. apply andb_prop in Hok. destruct Hok as [Hg Htl].
    cbn [gsets_depth] in Hdep. fold (gset_depth sr i g) in Hdep.
    destruct n as [|n]; [lia|].
    destruct tl as [|g2 tl'].
    - cbn [gsets_toks sep_by] in *. cbn [gs_sets].
      rewrite gs_set_ok; [|exact Hg|reflexivity|lia|exact Hlen].
      cbn [bind cur]. isT_conc. cbn iota. reflexivity.
    - rewrite gsets_sep_cons2 in *. rewrite <- app_assoc in *. cbn [app] in *.
      rewrite app_length in Hlen, Hn. cbn [length] in Hlen, Hn.
      cbn [gs_sets].
      rewrite gs_set_ok; [|exact Hg|reflexivity|lia|rewrite app_length; cbn [length]; lia].
      cbn [bind cur advance]. isT_conc. cbn iota. cbn [negb].
      rewrite (IH Htl ltac:(discriminate) sr (i + gset_size g) d (acc ++ [ast_of_gset g]) X n); [|lia|lia|lia].
      rewrite <- app_assoc. reflexivity.
  Qed.

  Definition group_item_depth (sr : srho) (i : nat) (g : mgroup) : nat :=
    match g with GrExpr e => pdepth 0 (sr cl_group i) e | GrRollup es | GrCube es => exprs_depth sr cl_group i es
            | GrSets sets => gsets_depth sr i sets end.

  (* one round of the GROUP BY loop *)
  Lemma group_step : forall g (sr : srho) i X d n acc,
      group_ok g = true -> stops 0 (cur X) = true ->
      S d + group_item_depth sr i g <= md -> length (group_item_toks sr i g ++ X) < fuel ->
      group_list pe (S n) d acc (group_item_toks sr i g ++ X)
      = if isT (cur X) TyComma then group_list pe n d (acc ++ [ast_of_group g]) (advance X)
        else Val (acc ++ [ast_of_group g], X).
  Proof.
    intros g sr i X d n acc Hok HX Hdep Hlen. cbn [group_list].
    destruct g as [e|es|es|sets]; cbn [group_item_toks group_ok group_item_depth ast_of_group] in *.
    - rhd. cbn [orb andb]. rewrite pe_item; [|assumption|assumption|assumption|assumption]. cbn [bind]. reflexivity.
    - apply andb_prop in Hok. destruct Hok as [Hne Href].
      cbn [app cur advance] in *. isT_conc. cbn iota. rewrite <- app_assoc in *. cbn [app] in *.
      rewrite grouping_list_ok; [|exact Href|destruct es; [discriminate|discriminate]|exact Hdep|cbn [length] in *; lia].
      cbn [bind]. reflexivity.
    - apply andb_prop in Hok. destruct Hok as [Hne Href].
      cbn [app cur advance] in *. isT_conc. cbn iota. rewrite <- app_assoc in *. cbn [app] in *.
      rewrite grouping_list_ok; [|exact Href|destruct es; [discriminate|discriminate]|exact Hdep|cbn [length] in *; lia].
      cbn [bind]. reflexivity.
    - apply andb_prop in Hok. destruct Hok as [Hne Href].
      cbn [app cur advance lit] in *. isT_conc. cbn iota.
      change (String.eqb "GROUPING SETS" "GROUPING SETS") with true. cbn [orb andb]. cbn iota.
      unfold parse_grouping_sets. cbn [cur advance lit].
      change (String.eqb "GROUPING SETS" "GROUPING SETS") with true. cbn iota. cbn [bind cur advance]. isT_conc. cbn iota. cbn [negb].
      rewrite <- app_assoc in *. cbn [app] in *. cbn [length] in Hlen.
      rewrite gs_sets_ok; [|exact Href|destruct sets; [discriminate|discriminate]|exact Hdep|lia|lia].
      cbn [bind advance app]. reflexivity.
  Qed.

  Lemma groups_sep_cons2 : forall (sr : srho) i g g2 tl,
      sep_by [tComma] (groups_toks sr i (g :: g2 :: tl))
      = group_item_toks sr i g ++ tComma :: sep_by [tComma] (groups_toks sr (i + group_size g) (g2 :: tl)).
  Proof. reflexivity. Qed.

  Lemma group_list_ok : forall l, forallb group_ok l = true -> l <> [] ->
      forall (sr : srho) i d acc R n,
        hd_in T2 R ->
        S d + groups_depth sr i l <= md ->
        length (sep_by [tComma] (groups_toks sr i l) ++ R) < fuel ->
        length (sep_by [tComma] (groups_toks sr i l) ++ R) < n ->
        group_list pe n d acc (sep_by [tComma] (groups_toks sr i l) ++ R) = Val (acc ++ map ast_of_group l, R).
  Proof.
    induction l as [|g tl IH]; intros Href Hne sr i d acc R n HR Hdep Hlen Hn; [contradiction|].
    cbn [forallb] in Href. apply andb_prop in Href. destruct Href as [Hg Hrtl].
    cbn [groups_depth] in Hdep. fold (group_item_depth sr i g) in Hdep.
    destruct n as [|n]; [lia|].
    destruct tl as [|g2 tl'].
    - cbn [groups_toks sep_by] in *.
      rewrite group_step; [|assumption|apply HR|lia|assumption].
      rewrite (hd_isT T2 R TyComma HR eq_refl). reflexivity.
    - rewrite groups_sep_cons2 in *. rewrite <- app_assoc in *. cbn [app] in *.
      rewrite app_length in Hlen, Hn. cbn [length] in Hlen, Hn.
      rewrite group_step; [|assumption|reflexivity|lia|rewrite app_length; cbn [length]; lia].
      cbn [cur advance]. change (isT tComma TyComma) with true. cbn iota.
      assert (Hgl : 1 <= length (group_item_toks sr i g)).
      { destruct g as [e|es|es|sets]; cbn [group_item_toks length]; try lia.
        destruct (render_head e 0 (sr cl_group i)) as (tk & tl0 & E & _). rewrite E. cbn [length]. lia. }
      rewrite (IH Hrtl ltac:(discriminate) sr (i + group_size g) d (acc ++ [ast_of_group g]) R n HR); [|lia|lia|lia].
      rewrite <- app_assoc. reflexivity.
  Qed.

  Lemma expr_list_ok : forall l, forallb ref_expr l = true -> l <> [] ->
      forall (sr : srho) c i d acc R n L,
        hd_in L R -> notin TyComma L = true ->
        S d + exprs_depth sr c i l <= md ->
        length (sep_by [tComma] (exprs_toks sr c i l) ++ R) < fuel ->
        length (sep_by [tComma] (exprs_toks sr c i l) ++ R) < n ->
        expr_list pe n d acc (sep_by [tComma] (exprs_toks sr c i l) ++ R) = Val (acc ++ map ast_of l, R).
  Proof.
    induction l as [|e tl IH]; intros Href Hne sr c i d acc R n L HR HL Hdep Hlen Hn; [contradiction|].
    cbn [forallb] in Href. apply andb_prop in Href. destruct Href as [Hre Hrtl].
    cbn [exprs_depth] in Hdep.
    destruct n as [|n]; [lia|].
    destruct tl as [|e2 tl'].
    - cbn [exprs_toks sep_by] in *. cbn [expr_list].
      rewrite pe_item; [|assumption|apply HR|lia|assumption].
      cbn [bind]. rewrite (hd_isT L R TyComma HR HL). reflexivity.
    - rewrite exprs_sep_cons2 in *. rewrite <- app_assoc in *. cbn [app] in *.
      rewrite app_length in Hlen, Hn. cbn [length] in Hlen, Hn.
      cbn [expr_list].
      rewrite pe_item; [|assumption|reflexivity|lia|rewrite app_length; cbn [length]; lia].
      cbn [bind cur advance]. isT_conc. cbn iota.
      rewrite (IH Hrtl ltac:(discriminate) sr c (S i) d (acc ++ [ast_of e]) R n L HR HL); [|lia|lia|lia].
      rewrite <- app_assoc. reflexivity.
  Qed.

  Lemma returning_list_ok : forall l, forallb ref_expr l = true -> l <> [] ->
      forall (sr : srho) c i d acc R n L,
        hd_in L R -> notin TyComma L = true ->
        S d + exprs_depth sr c i l <= md ->
        length (sep_by [tComma] (exprs_toks sr c i l) ++ R) < fuel ->
        length (sep_by [tComma] (exprs_toks sr c i l) ++ R) < n ->
        returning_list pe n d acc (sep_by [tComma] (exprs_toks sr c i l) ++ R) = Val (acc ++ map ast_of l, R).
  Proof.
    induction l as [|e tl IH]; intros Href Hne sr c i d acc R n L HR HL Hdep Hlen Hn; [contradiction|].
    cbn [forallb] in Href. apply andb_prop in Href. destruct Href as [Hre Hrtl].
    cbn [exprs_depth] in Hdep.
    destruct n as [|n]; [lia|].
    destruct tl as [|e2 tl'].
    - cbn [exprs_toks sep_by] in *. cbn [returning_list]. rhd.
      rewrite pe_item; [|assumption|apply HR|lia|assumption].
      cbn [bind]. rewrite (hd_isT L R TyComma HR HL). reflexivity.
    - rewrite exprs_sep_cons2 in *. rewrite <- app_assoc in *. cbn [app] in *.
      rewrite app_length in Hlen, Hn. cbn [length] in Hlen, Hn.
      cbn [returning_list]. rhd.
      rewrite pe_item; [|assumption|reflexivity|lia|rewrite app_length; cbn [length]; lia].
      cbn [bind cur advance]. isT_conc. cbn iota.
      rewrite (IH Hrtl ltac:(discriminate) sr c (S i) d (acc ++ [ast_of e]) R n L HR HL); [|lia|lia|lia].
      rewrite <- app_assoc. reflexivity.
  Qed.

  Lemma ps_group_ok : forall (sr : srho) l R d, forallb group_ok l = true -> hd_in T2 R ->
      S d + groups_depth sr 0 l <= md -> length (group_toks sr l ++ R) < fuel ->
      ps_group pe d (group_toks sr l ++ R) = Val (map ast_of_group l, R).
  Proof.
    intros sr l R d Href HR Hdep Hlen. unfold group_toks, list_clause in *.
    destruct l as [|g tl].
    - cbn [groups_toks app map]. unfold ps_group. hd_rw HR. reflexivity.
    - remember (g :: tl) as l0 eqn:El.
      assert (Hex : groups_toks sr 0 l0 <> []) by (subst l0; discriminate).
      destruct (groups_toks sr 0 l0) as [|x xs] eqn:Ex; [contradiction|]. rewrite <- Ex in *. clear Hex Ex x xs.
      cbn [app] in *. cbn [length] in Hlen.
      unfold ps_group. cbn [cur advance]. isT_conc. cbn iota. cbn [negb].
      rewrite (group_list_ok l0 Href ltac:(subst l0; discriminate) sr 0 d [] R _ HR); [|lia|lia|lia].
      cbn [bind app]. hd_rw HR. reflexivity.
  Qed.

  (* ---------------------------------------------------------------------------------------------- *)
  (* ORDER BY *)
  Definition dir_toks (o : morder) : list token :=
    match o_dir o with None => [] | Some true => [Tk TyAsc "ASC"] | Some false => [Tk TyDesc "DESC"] end.
  Definition nulls_toks (o : morder) : list token :=
    match o_nulls o with None => [] | Some true => [Tk TyNulls "NULLS"; Tk TyFirst "FIRST"]
                       | Some false => [Tk TyNulls "NULLS"; Tk TyLast "LAST"] end.

  (* one round of the ORDER BY loop: an item followed by X, whose head is a comma or ends the list *)
  Lemma order_step : forall o (r : rho) X d n acc,
      ref_expr (o_expr o) = true -> stops 0 (cur X) = true ->
      isT (cur X) TyAsc = false -> isT (cur X) TyDesc = false -> isT (cur X) TyNulls = false ->
      S d + pdepth 0 r (o_expr o) <= md -> length (order_toks r o ++ X) < fuel ->
      order_list pe (S n) d acc (order_toks r o ++ X)
      = if isT (cur X) TyComma then order_list pe n d (acc ++ [ast_of_order o]) (advance X)
        else Val (acc ++ [ast_of_order o], X).
  Proof.
    intros [e dir nl] r X d n acc Href HX Ha Hd Hn Hdep Hlen. unfold order_toks, ast_of_order in *. cbn [o_expr o_dir o_nulls] in *.
    rewrite <- !app_assoc in *. cbn [order_list].
    rewrite pe_item; [|assumption| |assumption|assumption].
    - cbn [bind]. unfold parse_nulls.
      destruct dir as [[|]|], nl as [[|]|]; cbn [app cur advance]; isT_conc; cbn iota; rewrite ?Ha, ?Hd, ?Hn; cbn [bind]; reflexivity.
    - destruct dir as [[|]|], nl as [[|]|]; cbn [app cur]; first [reflexivity|exact HX].
  Qed.

  Lemma orders_sep_cons2 : forall (sr : srho) i o o2 tl,
      sep_by [tComma] (orders_toks sr i (o :: o2 :: tl))
      = order_toks (sr cl_order i) o ++ tComma :: sep_by [tComma] (orders_toks sr (S i) (o2 :: tl)).
  Proof. reflexivity. Qed.

  Lemma order_list_ok : forall l, forallb order_ok l = true -> l <> [] ->
      forall (sr : srho) i d acc R n,
        hd_in T4 R ->
        S d + orders_depth sr i l <= md ->
        length (sep_by [tComma] (orders_toks sr i l) ++ R) < fuel ->
        length (sep_by [tComma] (orders_toks sr i l) ++ R) < n ->
        order_list pe n d acc (sep_by [tComma] (orders_toks sr i l) ++ R) = Val (acc ++ map ast_of_order l, R).
  Proof.
    induction l as [|o tl IH]; intros Href Hne sr i d acc R n HR Hdep Hlen Hn; [contradiction|].
    cbn [forallb] in Href. apply andb_prop in Href. destruct Href as [Hre Hrtl]. unfold order_ok in Hre.
    cbn [orders_depth] in Hdep.
    destruct n as [|n]; [lia|].
    destruct tl as [|o2 tl'].
    - cbn [orders_toks sep_by] in *.
      rewrite order_step; [|assumption|apply HR|apply (hd_isT T4 R TyAsc HR eq_refl)|apply (hd_isT T4 R TyDesc HR eq_refl)
                           |apply (hd_isT T4 R TyNulls HR eq_refl)|lia|assumption].
      rewrite (hd_isT T4 R TyComma HR eq_refl). reflexivity.
    - rewrite orders_sep_cons2 in *. rewrite <- app_assoc in *. cbn [app] in *.
      rewrite app_length in Hlen, Hn. cbn [length] in Hlen, Hn.
      rewrite order_step; [|assumption|reflexivity|reflexivity|reflexivity|reflexivity|lia|rewrite app_length; cbn [length]; lia].
      cbn [cur advance]. change (isT tComma TyComma) with true. cbn iota.
      rewrite (IH Hrtl ltac:(discriminate) sr (S i) d (acc ++ [ast_of_order o]) R n HR); [|lia|lia|lia].
      rewrite <- app_assoc. reflexivity.
  Qed.

  Lemma ps_order_ok : forall (sr : srho) l R d, forallb order_ok l = true -> hd_in T4 R ->
      S d + orders_depth sr 0 l <= md -> length (orderby_toks sr l ++ R) < fuel ->
      ps_order pe d (orderby_toks sr l ++ R) = Val (map ast_of_order l, R).
  Proof.
    intros sr l R d Href HR Hdep Hlen. unfold orderby_toks, list_clause in *.
    destruct l as [|o tl].
    - cbn [orders_toks app map]. unfold ps_order. hd_rw HR. reflexivity.
    - remember (o :: tl) as l0 eqn:El.
      assert (Hex : orders_toks sr 0 l0 <> []) by (subst l0; discriminate).
      destruct (orders_toks sr 0 l0) as [|x xs] eqn:Ex; [contradiction|]. rewrite <- Ex in *. clear Hex Ex x xs.
      cbn [app] in *. cbn [length] in Hlen.
      unfold ps_order. cbn [cur advance]. isT_conc. cbn iota. cbn [negb].
      rewrite (order_list_ok l0 Href ltac:(subst l0; discriminate) sr 0 d [] R _ HR); [reflexivity|lia|lia|lia].
  Qed.

  (* ---------------------------------------------------------------------------------------------- *)
  (* select list *)
  (* t.* read by parseExpression: a qualified asterisk is not a reference expression, so the ladder is walked by hand *)
  Lemma pe_qstar : forall t X d, stops 0 (cur X) = true -> S d <= md -> 3 + length X < fuel ->
      pe d (Tk TyIdent t :: tPeriod :: Tk TyAsterisk "*" :: X) = Val (GIdent "*" t, X).
  Proof.
    intros t X d HX Hd Hf. destruct fuel as [|f]; [lia|].
    change (parse_expression md no_defects (S f) d) with (PE md (S f) d). rewrite PE_S. unfold expr_body.
    destruct (Nat.ltb_spec md (S d)); [lia|].
    change (Tk TyIdent t :: tPeriod :: Tk TyAsterisk "*" :: X) with ([Tk TyIdent t; tPeriod; Tk TyAsterisk "*"] ++ X).
    apply (Pg_direct md 0 f (S d) [Tk TyIdent t; tPeriod; Tk TyAsterisk "*"] (GIdent "*" t) X); [|exact HX].
    apply (lift_down md 7 0); [lia|reflexivity| |eapply stops_mono; [|exact HX]; cbn; lia].
    intros R HK. cbn [Kg] in HK. inversion HK; subst R. clear HK. cbn [rg plus app].
    assert (Hc8 : cont8 (cur X) = false).
    { unfold stops in HX. apply andb_prop in HX. destruct HX as [HX _]. repeat (apply andb_prop in HX; destruct HX as [HX _]).
      apply negb_true_iff in HX. exact HX. }
    unfold cont8 in Hc8. repeat (apply orb_false_elim in Hc8; destruct Hc8 as [Hc8 ?]).
    unfold ExprParseP.r7, primary. cbn [cur advance peek]. isT_conc. cbn [andb orb negb]. cbn iota. cbn [cur advance lit]. isT_conc. cbn iota.
    cbn [bind cur advance].
    match goal with Hb : isT (cur X) TyLBracket = false |- _ => rewrite Hb end. reflexivity.
  Qed.

  Lemma is_gident_ast : forall e, is_gident (ast_of e) = is_column_ref e.
  Proof. destruct e; reflexivity. Qed.

  Definition no_alias_head (X : list token) : Prop := isT (cur X) TyAs = false /\ can_be_alias (cur X) = false.

  Lemma hd_no_alias : forall L R, hd_in L R ->
      notin TyAs L = true -> notin TyIdent L = true -> notin TyDQuoted L = true -> notin TyTarget L = true ->
      notin TySource L = true -> notin TyMatched L = true -> notin TyKeyword L = true -> no_alias_head R.
  Proof.
    intros L R H H0 H1 H2 H3 H4 H5 H6. unfold no_alias_head, can_be_alias, is_identifier, is_nonreserved.
    rewrite (hd_isT L R TyAs H H0), (hd_isT L R TyIdent H H1), (hd_isT L R TyDQuoted H H2), (hd_isT L R TyTarget H H3),
      (hd_isT L R TySource H H4), (hd_isT L R TyMatched H H5), (hd_isT L R TyKeyword H H6). auto.
  Qed.

  Lemma item_step : forall it (r : rho) X d n acc,
      item_ok it = true -> (d_no_alias_after_column sf = false \/ bare_alias_free it = true) ->
      stops 0 (cur X) = true -> no_alias_head X ->
      S d + match it with IExpr e _ => pdepth 0 r e | _ => 0 end <= md -> length (item_toks r it ++ X) < fuel ->
      select_items sf pe (S n) d acc (item_toks r it ++ X)
      = if isT (cur X) TyComma then select_items sf pe n d (acc ++ [ast_of_item it]) (advance X)
        else Val (acc ++ [ast_of_item it], X).
  Proof.
    intros it r X d n acc Hok Hflag HX [HXas HXal] Hdep Hlen. cbn [select_items]. unfold parse_select_item.
    destruct it as [|t|e a]; cbn [item_toks app cur advance ast_of_item]; cbn [item_toks] in Hlen; cbn iota in Hdep.
    - isT_conc. cbn iota. cbn [bind]. reflexivity.
    - isT_conc. cbn iota. cbn [app length] in Hlen.
      rewrite pe_qstar; [|exact HX|lia|lia].
      cbn [bind]. rewrite HXas, HXal. cbn [bind]. reflexivity.
    - cbn [item_ok] in Hok. apply andb_prop in Hok. destruct Hok as [Hre Hal].
      rewrite <- app_assoc in *. rhd.
      rewrite pe_item; [|assumption| |assumption|assumption].
      + cbn [bind]. destruct a as [[[|] n0]|]; cbn [alias_toks app cur advance].
        * isT_conc. cbn iota. unfold is_identifier. isT_conc. cbn [orb negb]. cbn [bind lit]. reflexivity.
        * isT_conc. cbn iota. unfold can_be_alias, is_identifier. isT_conc. cbn [orb].
          rewrite is_gident_ast.
          assert (Hz : d_no_alias_after_column sf && is_column_ref e = false).
          { destruct Hflag as [Hf|Hb]; [rewrite Hf; reflexivity|]. cbn [bare_alias_free] in Hb. apply negb_true_iff in Hb. rewrite Hb. apply andb_false_r. }
          rewrite Hz. cbn [bind lit]. reflexivity.
        * rewrite HXas, HXal. cbn [bind]. reflexivity.
      + destruct a as [[[|] n0]|]; cbn [alias_toks app cur]; [reflexivity| |exact HX].
        apply plain_stops. exact Hal.
  Qed.

  Lemma items_sep_cons2 : forall (sr : srho) i it it2 tl,
      sep_by [tComma] (items_toks sr i (it :: it2 :: tl))
      = item_toks (sr cl_items i) it ++ tComma :: sep_by [tComma] (items_toks sr (S i) (it2 :: tl)).
  Proof. reflexivity. Qed.

  Lemma select_items_ok : forall l, forallb item_ok l = true -> l <> [] ->
      (d_no_alias_after_column sf = false \/ forallb bare_alias_free l = true) ->
      forall (sr : srho) i d acc R n,
        hd_in Titems R ->
        S d + items_depth sr i l <= md ->
        length (sep_by [tComma] (items_toks sr i l) ++ R) < fuel ->
        length (sep_by [tComma] (items_toks sr i l) ++ R) < n ->
        select_items sf pe n d acc (sep_by [tComma] (items_toks sr i l) ++ R) = Val (acc ++ map ast_of_item l, R).
  Proof.
    induction l as [|it tl IH]; intros Href Hne Hflag sr i d acc R n HR Hdep Hlen Hn; [contradiction|].
    cbn [forallb] in Href. apply andb_prop in Href. destruct Href as [Hre Hrtl].
    assert (Hf1 : d_no_alias_after_column sf = false \/ bare_alias_free it = true).
    { destruct Hflag as [Hf|Hb]; [left; exact Hf|right]. cbn [forallb] in Hb. apply andb_prop in Hb. tauto. }
    assert (Hf2 : d_no_alias_after_column sf = false \/ forallb bare_alias_free tl = true).
    { destruct Hflag as [Hf|Hb]; [left; exact Hf|right]. cbn [forallb] in Hb. apply andb_prop in Hb. tauto. }
    cbn [items_depth] in Hdep.
    destruct n as [|n]; [lia|].
    destruct tl as [|it2 tl'].
    - cbn [items_toks sep_by] in *.
      rewrite item_step; [|assumption|assumption|apply HR| |lia|assumption].
      + rewrite (hd_isT Titems R TyComma HR eq_refl). reflexivity.
      + apply (hd_no_alias Titems R HR); reflexivity.
    - rewrite items_sep_cons2 in *. rewrite <- app_assoc in *. cbn [app] in *.
      rewrite app_length in Hlen, Hn. cbn [length] in Hlen, Hn.
      rewrite item_step; [|assumption|assumption|reflexivity|split; reflexivity|lia|rewrite app_length; cbn [length]; lia].
      cbn [cur advance]. change (isT tComma TyComma) with true. cbn iota.
      rewrite (IH Hrtl ltac:(discriminate) Hf2 sr (S i) d (acc ++ [ast_of_item it]) R n HR); [|lia|lia|lia].
      rewrite <- app_assoc. reflexivity.
  Qed.

  (* ---------------------------------------------------------------------------------------------- *)
  (* identifier lists: USING ( ... ), column lists *)
  Fixpoint idents_tail (l : list string) : list token :=
    match l with [] => [] | c :: r => tComma :: Tk TyIdent c :: idents_tail r end.
  Lemma idents_toks_cons : forall c l, idents_toks (c :: l) = Tk TyIdent c :: idents_tail l.
  Proof.
    intros c l. revert c. induction l as [|c2 r IH]; intros c; [reflexivity|].
    change (idents_toks (c :: c2 :: r)) with ([Tk TyIdent c] ++ [tComma] ++ idents_toks (c2 :: r)). rewrite IH. reflexivity.
  Qed.
  Lemma length_idents_tail : forall l, length (idents_tail l) = 2 * length l.
  Proof. induction l; cbn [idents_tail length]; lia. Qed.

  Lemma ident_list_tail_ok : forall l c acc Y n, isT (cur Y) TyComma = false -> length (idents_tail l) < n ->
      ident_list n acc (Tk TyIdent c :: idents_tail l ++ Y) = Val (acc ++ c :: l, Y).
  Proof.
    induction l as [|c2 r IH]; intros c acc Y n HY Hn; (destruct n as [|n]; [cbn in Hn; lia|]).
    - cbn [idents_tail app ident_list cur advance]. unfold is_identifier. isT_conc. cbn [orb negb lit]. rewrite HY. reflexivity.
    - cbn [idents_tail app ident_list cur advance]. unfold is_identifier. isT_conc. cbn [orb negb lit].
      change (isT tComma TyComma) with true. cbn iota.
      rewrite IH; [|exact HY|cbn [idents_tail length] in Hn; lia]. rewrite <- app_assoc. reflexivity.
  Qed.

  Lemma paren_ident_list_ok : forall c l X,
      paren_ident_list (tLP :: idents_toks (c :: l) ++ tRP :: X) = Val (c :: l, X).
  Proof.
    intros c l X. unfold paren_ident_list. cbn [advance]. rewrite idents_toks_cons. cbn [app].
    rewrite ident_list_tail_ok; [|reflexivity|cbn [length]; rewrite app_length; lia].
    cbn [bind cur advance app]. reflexivity.
  Qed.

  (* ---------------------------------------------------------------------------------------------- *)
  (* the locking clause FOR ... [OF t, ...] [NOWAIT | SKIP LOCKED] *)
  Lemma for_word_split : forall s, for_word s = false -> eqfold s "OF" = false /\ eqfold s "NOWAIT" = false /\ eqfold s "SKIP" = false.
  Proof.
    intros s H. unfold for_word in H. apply orb_false_elim in H. destruct H as [H H3]. apply orb_false_elim in H. destruct H as [H1 H2]. auto.
  Qed.

  Lemma ps_for_ok : forall o R, hd_in Tstop R -> for_word (lit (cur R)) = false ->
      ps_for (for_toks o ++ R) = Val (option_map ast_of_for o, R).
  Proof.
    intros o R HR Hw. destruct (for_word_split _ Hw) as (Hof & Hnw & Hsk).
    unfold for_toks. destruct o as [[lk tbls wt]|]; cbn [opt_clause app option_map].
    - unfold ps_for, ast_of_for. cbn [fr_lock fr_of fr_wait cur advance]. isT_conc. cbn iota.
      (* after the lock words *)
      assert (Htail : forall lks,
                 (do (tables, ts) <- (if litfold (cur (of_toks tbls ++ wait_toks wt ++ R)) "OF"
                                      then let ts := advance (of_toks tbls ++ wait_toks wt ++ R) in
                                           ident_list (S (length ts)) [] ts
                                      else Val ([], of_toks tbls ++ wait_toks wt ++ R));
                  if litfold (cur ts) "NOWAIT" then Val (Some (GFor lks tables true false), advance ts)
                  else if litfold (cur ts) "SKIP" then
                    let ts := advance ts in
                    if negb (litfold (cur ts) "LOCKED") then Err EExpected else Val (Some (GFor lks tables false true), advance ts)
                  else Val (Some (GFor lks tables false false), ts))
                 = Val (Some (GFor lks tbls (match wt with WtNowait => true | _ => false end) (match wt with WtSkipLocked => true | _ => false end)), R)).
      { intros lks.
        assert (Hwait : forall tb, (if litfold (cur (wait_toks wt ++ R)) "NOWAIT" then Val (Some (GFor lks tb true false), advance (wait_toks wt ++ R))
                          else if litfold (cur (wait_toks wt ++ R)) "SKIP" then
                            let ts := advance (wait_toks wt ++ R) in
                            if negb (litfold (cur ts) "LOCKED") then Err EExpected else Val (Some (GFor lks tb false true), advance ts)
                          else Val (Some (GFor lks tb false false), wait_toks wt ++ R))
                         = Val (Some (GFor lks tb (match wt with WtNowait => true | _ => false end) (match wt with WtSkipLocked => true | _ => false end)), R)).
        { intros tb. destruct wt; cbn [wait_toks app cur advance].
          - unfold litfold. rewrite Hnw, Hsk. reflexivity.
          - lf_conc. cbn iota. reflexivity.
          - lf_conc. cbn iota. cbn [negb]. reflexivity. }
        destruct tbls as [|c l]; cbn [of_toks].
        - cbn [app].
          assert (Hno : litfold (cur (wait_toks wt ++ R)) "OF" = false).
          { destruct wt; cbn [wait_toks app cur]; [unfold litfold; exact Hof|reflexivity|reflexivity]. }
          rewrite Hno. cbn [bind]. apply Hwait.
        - cbn [app cur advance]. lf_conc. cbn iota. rewrite idents_toks_cons. cbn [app].
          rewrite ident_list_tail_ok.
          + cbn [bind app]. apply Hwait.
          + destruct wt; cbn [wait_toks app cur]; [apply (hd_isT Tstop R TyComma HR eq_refl)|reflexivity|reflexivity].
          + cbn [length]. rewrite !app_length. lia. }
      destruct lk; cbn [lock_toks app cur advance]; lf_conc; cbn iota; cbn [negb cur advance]; lf_conc; cbn iota; cbn [negb cur advance bind];
        rewrite <- ?app_assoc; apply Htail.
    - unfold ps_for. hd_rw HR. reflexivity.
  Qed.

  (* ---------------------------------------------------------------------------------------------- *)
  (* joins *)
  Lemma join_kind_ok : forall (nat : bool) side X,
      parse_join_kind ((if nat then [Tk TyNatural "NATURAL"] else []) ++ side_toks side ++ Tk TyJoin "JOIN" :: X)
      = (nat, side_str side, Tk TyJoin "JOIN" :: X).
  Proof.
    intros nat side X. unfold parse_join_kind.
    destruct nat, side as [| |[|]|[|]|[|]|]; cbn [side_toks outer_toks app cur advance]; isT_conc; cbn iota; reflexivity.
  Qed.

  Lemma join_head : forall (r : rho) j X, is_join_keyword (cur (join_toks r j ++ X)) = true.
  Proof.
    intros r [nat side tb c] X. unfold join_toks. cbn [j_nat j_side].
    destruct nat, side as [| |[|]|[|]|[|]|]; reflexivity.
  Qed.

  Definition needs_cond (nat : bool) (side : jside) : bool := negb nat && negb (match side with SCross => true | _ => false end).

  Lemma join_cond_ok : forall (nat : bool) side c (r : rho) X d,
      match c with
      | None => needs_cond nat side = false
      | Some cc => needs_cond nat side = true /\ match cc with JOn e => ref_expr e = true | JUsing cols => cols <> [] end
      end ->
      stops 0 (cur X) = true ->
      S d + match c with Some (JOn e) => pdepth 0 r e | _ => 0 end <= md ->
      length (cond_toks r c ++ X) < fuel ->
      parse_join_cond pe d nat (if nat then ("NATURAL " ++ side_str side)%string else side_str side) (cond_toks r c ++ X)
      = Val (ast_of_cond c, X).
  Proof.
    intros nat side c r X d Hc HX Hdep Hlen. unfold parse_join_cond.
    destruct c as [[e|cols]|].
    - destruct Hc as [Hn Hre]. unfold needs_cond in Hn. apply andb_prop in Hn. destruct Hn as [Hn1 Hn2].
      apply negb_true_iff in Hn1. subst nat.
      assert (Hcr : String.eqb (side_str side) "CROSS" = false) by (destruct side; first [reflexivity|discriminate]).
      rewrite Hcr. cbn [negb andb cond_toks app cur advance]. isT_conc. cbn iota.
      rewrite pe_item; [reflexivity|assumption|assumption|assumption|cbn [cond_toks app length] in Hlen; lia].
    - destruct Hc as [Hn Hne]. unfold needs_cond in Hn. apply andb_prop in Hn. destruct Hn as [Hn1 Hn2].
      apply negb_true_iff in Hn1. subst nat.
      assert (Hcr : String.eqb (side_str side) "CROSS" = false) by (destruct side; first [reflexivity|discriminate]).
      rewrite Hcr. cbn [negb andb cond_toks app cur advance]. isT_conc. cbn iota. cbn [negb].
      destruct cols as [|c0 cl]; [contradiction|].
      rewrite <- app_assoc. cbn [app]. rewrite paren_ident_list_ok. cbn [bind ast_of_cond].
      destruct cl; reflexivity.
    - unfold needs_cond in Hc. cbn [cond_toks app ast_of_cond].
      destruct nat; [destruct side as [| |[|]|[|]|[|]|]; reflexivity|].
      destruct side; try discriminate. reflexivity.
  Qed.

  Definition join_ref_ok (j : mjoin) : Prop :=
    table_ok (j_table j) = true /\
    match j_cond j with
    | None => needs_cond (j_nat j) (j_side j) = false
    | Some cc => needs_cond (j_nat j) (j_side j) = true /\ match cc with JOn e => ref_expr e = true | JUsing cols => cols <> [] end
    end.

  Lemma join_ok_ref : forall j, join_ok j = true -> join_ref_ok j.
  Proof.
    intros [nat side tb c] H. unfold join_ok in H. cbn [j_nat j_side j_table j_cond] in *. unfold join_ref_ok. cbn [j_nat j_side j_table j_cond].
    apply andb_prop in H. destruct H as [H Hc]. apply andb_prop in H. destruct H as [Ht Hnc]. split; [exact Ht|].
    unfold needs_cond. destruct c as [[e|cols]|].
    - apply andb_prop in Hc. destruct Hc as [Hc He]. split; [exact Hc|exact He].
    - apply andb_prop in Hc. destruct Hc as [Hc He]. split; [exact Hc|].
      apply andb_prop in He. destruct He as [He _]. destruct cols; [discriminate|discriminate].
    - destruct nat; [reflexivity|]. cbn [orb negb andb] in *. rewrite Hc. reflexivity.
  Qed.

  Lemma cond_tbl_follow : forall (r : rho) c X, tbl_follow X -> tbl_follow (cond_toks r c ++ X).
  Proof.
    intros r c X HX. destruct c as [[e|cols]|]; cbn [cond_toks app]; [| |exact HX]; unfold tbl_follow, is_identifier; cbn [cur]; isT_conc; auto.
  Qed.

  Lemma parse_join_ok : forall j (r : rho) base k X d,
      join_ref_ok j -> tbl_follow X -> stops 0 (cur X) = true ->
      S d + match j_cond j with Some (JOn e) => pdepth 0 r e | _ => 0 end <= md ->
      length (join_toks r j ++ X) < fuel ->
      parse_join pe d base k (join_toks r j ++ X)
      = Val (GJoin (join_type j) (join_left base k) (ast_of_table (j_table j)) (ast_of_cond (j_cond j)), X).
  Proof.
    intros [nat side [path al] c] r base k X d [Ht Hc] HX HXs Hdep Hlen. cbn [j_nat j_side j_table j_cond] in *.
    unfold table_ok in Ht. cbn [tb_path tb_alias] in Ht.
    apply andb_prop in Ht. destruct Ht as [Ht _]. apply andb_prop in Ht. destruct Ht as [Hne _].
    destruct path as [|p ps]; [discriminate|].
    unfold join_toks, table_toks in *. cbn [j_nat j_side j_table j_cond tb_path tb_alias] in *.
    repeat (rewrite <- app_assoc in *; cbn [app] in * ).
    unfold parse_join. rewrite join_kind_ok.
    cbn [cur advance]. isT_conc. cbn iota. cbn [negb].
    rewrite !path_head. isT_conc. cbn iota. rewrite !path_head. isT_conc. cbn iota.
    rewrite qname_ok.
    - cbn [rewrap bind]. rewrite alias_ok_parse by (apply cond_tbl_follow; exact HX). cbn [bind].
      rewrite join_cond_ok; [|exact Hc|exact HXs|exact Hdep|].
      + cbn [bind]. unfold join_type, ast_of_table. cbn [j_nat j_side j_table tb_path tb_alias]. reflexivity.
      + rewrite !app_length in Hlen. cbn [length] in Hlen. rewrite !app_length in Hlen. rewrite app_length. lia.
    - destruct HX as (Hp & Hi & Ha).
      destruct al as [[[|] n0]|]; cbn [alias_toks app cur]; [reflexivity|reflexivity|].
      destruct c as [[e|cols]|]; cbn [cond_toks app cur]; [reflexivity|reflexivity|exact Hp].
  Qed.

  Lemma hd_tbl_follow_T0 : forall R, hd_in T0 R -> tbl_follow R.
  Proof. intros R H. apply (hd_tbl_follow T0 R H); reflexivity. Qed.

  Lemma hd_not_join : forall R, hd_in T0 R -> is_join_keyword (cur R) = false.
  Proof. intros R H. unfold is_join_keyword. hd_rw H. reflexivity. Qed.

  Lemma join_toks_tbl_follow : forall (r : rho) j X, tbl_follow (join_toks r j ++ X).
  Proof.
    intros r [nat side tb c] X. unfold join_toks. cbn [j_nat j_side].
    unfold tbl_follow, is_identifier.
    destruct nat, side as [| |[|]|[|]|[|]|]; cbn [side_toks outer_toks app cur]; isT_conc; auto.
  Qed.

  Lemma join_toks_stops : forall (r : rho) j X, stops 0 (cur (join_toks r j ++ X)) = true.
  Proof.
    intros r [nat side tb c] X. unfold join_toks. cbn [j_nat j_side].
    destruct nat, side as [| |[|]|[|]|[|]|]; reflexivity.
  Qed.

  Lemma join_toks_len : forall (r : rho) j, 1 <= length (join_toks r j).
  Proof. intros r j. unfold join_toks. rewrite !app_length. cbn [length]. lia. Qed.

  Lemma joins_loop_ok : forall l, Forall join_ref_ok l ->
      forall (sr : srho) k d base acc R n,
        hd_in T0 R ->
        S d + joins_depth sr k l <= md ->
        length (joins_toks sr k l ++ R) < fuel ->
        length (joins_toks sr k l ++ R) < n ->
        joins_loop pe n d base k acc (joins_toks sr k l ++ R) = Val (acc ++ ast_of_joins base k l, R).
  Proof.
    induction l as [|j tl IH]; intros HA sr k d base acc R n HR Hdep Hlen Hn.
    - destruct n as [|n]; [lia|]. cbn [joins_toks app joins_loop ast_of_joins]. rewrite hd_not_join by exact HR. rewrite app_nil_r. reflexivity.
    - inversion HA as [|? ? Hj Htl]; subst.
      destruct n as [|n]; [lia|]. cbn [joins_toks joins_depth ast_of_joins] in *. rewrite <- app_assoc in *.
      rewrite app_length in Hlen, Hn.
      cbn [joins_loop]. rewrite join_head.
      assert (Hnext : tbl_follow (joins_toks sr (S k) tl ++ R) /\ stops 0 (cur (joins_toks sr (S k) tl ++ R)) = true).
      { destruct tl as [|j2 tl2]; cbn [joins_toks app].
        - split; [apply hd_tbl_follow_T0; exact HR|apply HR].
        - rewrite <- app_assoc. split; [apply join_toks_tbl_follow|apply join_toks_stops]. }
      destruct Hnext as [Hn1 Hn2].
      rewrite parse_join_ok; [|exact Hj|exact Hn1|exact Hn2|lia|rewrite app_length; lia].
      cbn [bind].
      pose proof (join_toks_len (sr cl_on k) j) as Hjl.
      rewrite IH; [|exact Htl|exact HR|lia|lia|lia].
      rewrite <- app_assoc. reflexivity.
  Qed.

  (* FROM list *)
  Fixpoint tables_tail (l : list mtable) : list token :=
    match l with [] => [] | t :: r => tComma :: table_toks t ++ tables_tail r end.
  Lemma tables_sep : forall t l, sep_by [tComma] (map table_toks (t :: l)) = table_toks t ++ tables_tail l.
  Proof.
    intros t l. revert t. induction l as [|t2 r IH]; intros t; [cbn [map sep_by tables_tail]; rewrite app_nil_r; reflexivity|].
    change (sep_by [tComma] (map table_toks (t :: t2 :: r))) with (table_toks t ++ [tComma] ++ sep_by [tComma] (map table_toks (t2 :: r))).
    rewrite IH. reflexivity.
  Qed.

  Lemma from_tail_ok : forall l, forallb table_ok l = true ->
      forall acc Y n, tbl_follow Y -> isT (cur Y) TyComma = false -> length (tables_tail l ++ Y) < n ->
      from_tail n acc (tables_tail l ++ Y) = Val (acc ++ map ast_of_table l, Y).
  Proof.
    induction l as [|t r IH]; intros Hok acc Y n HY HYc Hn; (destruct n as [|n]; [lia|]).
    - cbn [tables_tail app from_tail map]. rewrite HYc. rewrite app_nil_r. reflexivity.
    - cbn [forallb] in Hok. apply andb_prop in Hok. destruct Hok as [Ht Hr].
      cbn [tables_tail app from_tail cur advance map] in *. change (isT tComma TyComma) with true. cbn iota.
      rewrite <- app_assoc.
      rewrite table_ref_ok; [|exact Ht|].
      + cbn [bind]. rewrite IH; [|exact Hr|exact HY|exact HYc|cbn [length] in Hn; rewrite !app_length in Hn; rewrite app_length; lia].
        rewrite <- app_assoc. reflexivity.
      + destruct r as [|t2 r2]; cbn [tables_tail app]; [exact HY|].
        unfold tbl_follow, is_identifier. cbn [cur]. isT_conc. auto.
  Qed.

  Lemma last_map_default : forall {A} (l : list A) (x d1 d2 : A), last (x :: l) d1 = last (x :: l) d2.
  Proof. intros A l. induction l as [|y r IH]; intros x d1 d2; [reflexivity|]. cbn [last]. apply (IH y). Qed.

  Lemma ps_from_ok : forall (sr : srho) from joins R d,
      forallb table_ok from = true -> Forall join_ref_ok joins ->
      (from = [] -> joins = []) -> hd_in T0 R ->
      S d + joins_depth sr 0 joins <= md ->
      length (from_toks from ++ joins_toks sr 0 joins ++ R) < fuel ->
      ps_from pe d (from_toks from ++ joins_toks sr 0 joins ++ R)
      = Val ((match map ast_of_table from with [] => ""%string | GTable n _ _ _ :: _ => n end,
              map ast_of_table from,
              ast_of_joins (last (map ast_of_table from) (GTable "" "" None false)) 0 joins), R).
  Proof.
    intros sr from joins R d Hok HJ Hnil HR Hdep Hlen. unfold from_toks, list_clause in *.
    destruct from as [|t tl].
    - rewrite (Hnil eq_refl) in *. cbn [map app joins_toks ast_of_joins]. unfold ps_from. hd_rw HR. reflexivity.
    - remember (t :: tl) as from0 eqn:Ef. cbn [map] in *.
      assert (Hm : map table_toks from0 <> []) by (subst from0; discriminate).
      destruct (map table_toks from0) as [|x xs] eqn:Em; [contradiction|]. rewrite <- Em in *. clear Hm Em x xs.
      subst from0. rewrite tables_sep in *. cbn [app] in *. rewrite <- !app_assoc in *.
      cbn [forallb] in Hok. apply andb_prop in Hok. destruct Hok as [Ht Htl].
      unfold ps_from. cbn [cur advance]. isT_conc. cbn iota.
      assert (Hhd : cur (table_toks t ++ tables_tail tl ++ joins_toks sr 0 joins ++ R) = Tk TyIdent (hd ""%string (tb_path t))).
      { unfold table_ok in Ht. apply andb_prop in Ht. destruct Ht as [Ht _]. apply andb_prop in Ht. destruct Ht as [Hne _].
        destruct t as [[|p ps] al]; [discriminate|]. unfold table_toks. cbn [tb_path]. rewrite <- app_assoc. rewrite path_head. reflexivity. }
      rewrite Hhd. isT_conc. cbn [orb]. cbn iota.
      assert (HJR : tbl_follow (joins_toks sr 0 joins ++ R) /\ isT (cur (joins_toks sr 0 joins ++ R)) TyComma = false).
      { destruct joins as [|j js]; cbn [joins_toks app].
        - split; [apply hd_tbl_follow_T0; exact HR|apply (hd_isT T0 R TyComma HR eq_refl)].
        - rewrite <- app_assoc. split; [apply join_toks_tbl_follow|].
          destruct j as [nat side tb c]. unfold join_toks. cbn [j_nat j_side].
          destruct nat, side as [| |[|]|[|]|[|]|]; reflexivity. }
      destruct HJR as [HJ1 HJ2].
      rewrite table_ref_ok; [|exact Ht|].
      + cbn [bind].
        rewrite (from_tail_ok tl Htl [ast_of_table t]); [|exact HJ1|exact HJ2|cbn [length] in Hlen; rewrite !app_length in *; lia].
        cbn [bind app].
        rewrite joins_loop_ok; [|exact HJ|exact HR|exact Hdep|cbn [length] in Hlen; rewrite !app_length in *; lia|rewrite !app_length; lia].
        cbn [bind app]. unfold ast_of_table at 1. cbn iota.
        rewrite (last_map_default (map ast_of_table tl) (ast_of_table t) (ast_of_table t) (GTable "" "" None false)). reflexivity.
      + destruct tl as [|t2 r2]; cbn [tables_tail app]; [exact HJ1|].
        unfold tbl_follow, is_identifier. cbn [cur]. isT_conc. auto.
  Qed.

  (* ---------------------------------------------------------------------------------------------- *)
  (* the whole SELECT *)
  Lemma item_head_not : forall it (r : rho) X k, notin k (TyAsterisk :: starts_list) = true ->
      isT (cur (item_toks r it ++ X)) k = false.
  Proof.
    intros it r X k Hk. destruct it as [|t|e a]; cbn [item_toks].
    - cbn [app cur]. unfold notin in Hk. cbn [forallb] in Hk. apply andb_prop in Hk. destruct Hk as [Hk _].
      apply negb_true_iff in Hk. unfold isT, tty_eqb. cbn [ty]. exact Hk.
    - cbn [app cur]. unfold notin, starts_list in Hk. cbn [forallb] in Hk. apply andb_prop in Hk. destruct Hk as [_ Hk].
      apply andb_prop in Hk. destruct Hk as [Hk _]. apply negb_true_iff in Hk. unfold isT, tty_eqb. cbn [ty]. exact Hk.
    - rewrite <- app_assoc. apply head_isT_not. apply notin_cons_false in Hk. exact Hk.
  Qed.

  Lemma items_head_not : forall (sr : srho) i it tl X k, notin k (TyAsterisk :: starts_list) = true ->
      isT (cur (sep_by [tComma] (items_toks sr i (it :: tl)) ++ X)) k = false.
  Proof.
    intros sr i it tl X k Hk. destruct tl as [|it2 tl2].
    - cbn [items_toks sep_by]. apply item_head_not. exact Hk.
    - rewrite items_sep_cons2. rewrite <- app_assoc. apply item_head_not. exact Hk.
  Qed.

  Lemma titems_check : forall t, tyin t Titems = true ->
      negb (isT t TyFrom) && negb (isT t TyEOF) && negb (isT t TySemicolon) && negb (isT t TyRParen) && negb (is_setop t)
      && negb (is_clause_start t) = false.
  Proof.
    intros t H. unfold tyin, Titems, T0, T1, T2, T3, T4, T5, T6, T7, Tstop in H. cbn [existsb] in H. unfold is_setop, is_clause_start, isT.
    destruct (tty_eqb (ty t) TyFrom); [reflexivity|].
    destruct (tty_eqb (ty t) TyEOF); [reflexivity|].
    destruct (tty_eqb (ty t) TySemicolon); [reflexivity|].
    destruct (tty_eqb (ty t) TyRParen); [reflexivity|].
    destruct (tty_eqb (ty t) TyUnion); [reflexivity|].
    destruct (tty_eqb (ty t) TyExcept); [reflexivity|].
    destruct (tty_eqb (ty t) TyIntersect); [reflexivity|].
    destruct (tty_eqb (ty t) TyWhere); [reflexivity|].
    destruct (tty_eqb (ty t) TyGroup); [reflexivity|].
    destruct (tty_eqb (ty t) TyHaving); [reflexivity|].
    destruct (tty_eqb (ty t) TyOrder); [reflexivity|].
    destruct (tty_eqb (ty t) TyLimit); [reflexivity|].
    destruct (tty_eqb (ty t) TyOffset); [reflexivity|].
    destruct (tty_eqb (ty t) TyFetch); [repeat rewrite orb_true_r; reflexivity|].
    destruct (tty_eqb (ty t) TyFor); [repeat rewrite orb_true_r; reflexivity|].
    destruct (tty_eqb (ty t) TyReturning); [repeat rewrite orb_true_r; reflexivity|].
    destruct (tty_eqb (ty t) TyOn); [repeat rewrite orb_true_r; reflexivity|]. discriminate H.
  Qed.

  Lemma joins_all_ref : forall l, forallb join_ok l = true -> Forall join_ref_ok l.
  Proof.
    induction l as [|j tl IH]; intros H; [constructor|]. cbn [forallb] in H. apply andb_prop in H. destruct H as [Hj Ht].
    constructor; [apply join_ok_ref; exact Hj|apply IH; exact Ht].
  Qed.

  Theorem parse_select_ok : forall (sr : srho) s stop d,
      select_ok s = true -> (d_no_alias_after_column sf = false \/ select_bare_alias_free s = true) ->
      sel_follow stop ->
      d + 2 + select_depth sr s <= md ->
      length (select_tail_toks sr s ++ stop) < fuel ->
      parse_select md sf pe d (select_tail_toks sr s ++ stop) = Val (ast_of_select s, stop).
  Proof.
    intros sr [dist don items from joins wh gb hv ob lim off fe fo] stop d Hok Hflag Hstop Hdep Hlen.
    unfold select_ok in Hok. cbn [s_distinct s_distinct_on s_items s_from s_joins s_where s_group s_having s_order s_limit s_offset s_fetch s_for] in Hok.
    repeat (let H := fresh "Hk" in apply andb_prop in Hok; destruct Hok as [Hok H]).
    rename Hok into Hdon1. rename Hk11 into Hdon. rename Hk10 into Hne. rename Hk9 into Hitems. rename Hk8 into Hfrom. rename Hk7 into Hnojoin. rename Hk6 into Hjoins.
    rename Hk5 into Hwh. rename Hk4 into Hgb. rename Hk3 into Hhv. rename Hk2 into Hob. rename Hk1 into Hlim. rename Hk0 into Hoff. rename Hk into Hfe.
    unfold select_bare_alias_free in Hflag. cbn [s_items] in Hflag.
    unfold select_depth in Hdep. cbn [s_distinct_on s_items s_joins s_where s_group s_having s_order] in Hdep.
    unfold select_tail_toks in *. cbn [s_distinct s_distinct_on s_items s_from s_joins s_where s_group s_having s_order s_limit s_offset s_fetch s_for] in *.
    pose proof (sel_follow_hd stop Hstop) as H8. pose proof (sel_follow_lit stop Hstop) as Hlit.
    set (Rfo := for_toks fo ++ stop) in *.
    assert (H7 : hd_in T7 Rfo) by (apply hd_opt; [exact H8|reflexivity]).
    assert (H6 : hd_in T6 (fetch_toks fe ++ Rfo)) by (apply hd_opt; [exact H7|reflexivity]).
    assert (H5 : hd_in T5 (offset_toks off ++ fetch_toks fe ++ Rfo)) by (apply hd_opt; [exact H6|reflexivity]).
    assert (H4 : hd_in T4 (limit_toks lim ++ offset_toks off ++ fetch_toks fe ++ Rfo)) by (apply hd_opt; [exact H5|reflexivity]).
    assert (H3 : hd_in T3 (orderby_toks sr ob ++ limit_toks lim ++ offset_toks off ++ fetch_toks fe ++ Rfo)) by (apply hd_list; [exact H4|reflexivity]).
    assert (H2 : hd_in T2 (having_toks sr hv ++ orderby_toks sr ob ++ limit_toks lim ++ offset_toks off ++ fetch_toks fe ++ Rfo)) by (apply hd_opt; [exact H3|reflexivity]).
    assert (H1 : hd_in T1 (group_toks sr gb ++ having_toks sr hv ++ orderby_toks sr ob ++ limit_toks lim ++ offset_toks off ++ fetch_toks fe ++ Rfo)) by (apply hd_list; [exact H2|reflexivity]).
    assert (H0 : hd_in T0 (where_toks sr wh ++ group_toks sr gb ++ having_toks sr hv ++ orderby_toks sr ob ++ limit_toks lim ++ offset_toks off ++ fetch_toks fe ++ Rfo)) by (apply hd_opt; [exact H1|reflexivity]).
    repeat (rewrite <- app_assoc in * ). fold Rfo in Hlen |- *.
    set (Rfe := fetch_toks fe ++ Rfo) in *.
    set (Ro := offset_toks off ++ Rfe) in *.
    set (Rl := limit_toks lim ++ Ro) in *.
    set (Rob := orderby_toks sr ob ++ Rl) in *.
    set (Rh := having_toks sr hv ++ Rob) in *.
    set (Rg := group_toks sr gb ++ Rh) in *.
    set (Rw := where_toks sr wh ++ Rg) in *.
    set (Rj := joins_toks sr 0 joins ++ Rw) in *.
    set (Rf := from_toks from ++ Rj) in *.
    (* the token after the select list *)
    assert (Hf : hd_in Titems Rf).
    { subst Rf Rj. destruct from as [|t tl].
      - destruct joins; [|discriminate]. cbn [from_toks list_clause map joins_toks app]. eapply hd_weaken; [exact H0|in_sub2].
      - unfold from_toks, list_clause. cbn [map app]. split; reflexivity. }
    destruct items as [|it itl]; [discriminate|].
    assert (Hlen_items : length (sep_by [tComma] (items_toks sr 0 (it :: itl)) ++ Rf) < fuel).
    { rewrite app_length in Hlen. lia. }
    unfold parse_select. destruct (Nat.ltb_spec md (S d)); [lia|].
    (* DISTINCT [ON ( ... )] *)
    assert (Hd : ps_distinct pe (S d) (distinct_toks sr dist don ++ sep_by [tComma] (items_toks sr 0 (it :: itl)) ++ Rf)
                 = Val ((dist, map ast_of don), sep_by [tComma] (items_toks sr 0 (it :: itl)) ++ Rf)).
    { unfold ps_distinct, distinct_toks. destruct dist; cbn [app cur advance].
      - isT_conc. cbn iota. destruct don as [|e0 dtl].
        + cbn [app map]. rewrite (items_head_not sr 0 it itl Rf TyOn eq_refl). reflexivity.
        + cbn [app cur advance]. isT_conc. cbn iota. cbn [negb]. rewrite <- app_assoc. cbn [app].
          assert (HRP : hd_in [TyRParen] (tRP :: sep_by [tComma] (items_toks sr 0 (it :: itl)) ++ Rf)) by (split; reflexivity).
          unfold distinct_toks in Hlen. cbn [app length] in Hlen. rewrite <- app_assoc in Hlen. cbn [app] in Hlen. rewrite !app_length in Hlen. cbn [length] in Hlen.
          rewrite (expr_list_ok (e0 :: dtl) Hdon ltac:(discriminate) sr cl_don 0 (S d) [] _ _ [TyRParen] HRP eq_refl);
            [| | | ].
          2:{ lia. } 2:{ rewrite app_length; cbn [length]; lia. } 2:{ lia. }
          cbn [bind cur advance app]. isT_conc. cbn iota. reflexivity.
      - destruct don; [|discriminate Hdon1]. cbn [map].
        rewrite (items_head_not sr 0 it itl Rf TyDistinct eq_refl), (items_head_not sr 0 it itl Rf TyAll eq_refl). reflexivity. }
    rewrite Hd. cbn [bind fst snd]. rewrite (items_head_not sr 0 it itl Rf TyFrom eq_refl).
    rewrite (select_items_ok (it :: itl) Hitems ltac:(discriminate) Hflag sr 0 (S d) [] Rf _ Hf); [|lia|exact Hlen_items|lia].
    cbn [bind app]. rewrite (titems_check (cur Rf) (proj1 Hf)).
    (* FROM, joins *)
    assert (HlenRf : length Rf < fuel) by (rewrite app_length in Hlen_items; lia).
    subst Rf Rj.
    rewrite ps_from_ok; [|exact Hfrom|apply joins_all_ref; exact Hjoins| |exact H0|lia|exact HlenRf].
    2:{ intros ->. destruct joins; [reflexivity|discriminate]. }
    cbn [bind fst snd].
    assert (HlenRw : length Rw < fuel) by (rewrite !app_length in HlenRf; lia).
    subst Rw.
    rewrite ps_where_ok; [|exact Hwh|exact H1|lia|exact HlenRw]. cbn [bind].
    assert (HlenRg : length Rg < fuel) by (rewrite app_length in HlenRw; lia).
    subst Rg.
    rewrite ps_group_ok; [|exact Hgb|exact H2|lia|exact HlenRg]. cbn [bind].
    assert (HlenRh : length Rh < fuel) by (rewrite app_length in HlenRg; lia).
    subst Rh.
    rewrite ps_having_ok; [|exact Hhv|exact H3|lia|exact HlenRh]. cbn [bind].
    assert (HlenRob : length Rob < fuel) by (rewrite app_length in HlenRh; lia).
    subst Rob.
    rewrite ps_order_ok; [|exact Hob|exact H4|lia|exact HlenRob]. cbn [bind].
    subst Rl. rewrite ps_limit_ok; [|exact Hlim|exact H5]. cbn [bind].
    subst Ro. rewrite ps_offset_ok; [|exact Hoff|exact H6]. cbn [bind].
    subst Rfe. rewrite ps_fetch_ok; [|exact Hfe|exact H7]. cbn [bind].
    subst Rfo. rewrite ps_for_ok; [|exact H8|exact Hlit]. cbn [bind]. reflexivity.
  Qed.
End SP.

(* ------------------------------------------------------------------------------------------------ *)
(* statement level: a single SELECT *)
Lemma query_follow_sel : forall stop, query_follow stop -> sel_follow stop.
Proof.
  intros stop (t & rest & E & H). exists t, rest. split; [exact E|]. unfold query_stop in H. unfold sel_stop.
  apply andb_prop in H. destruct H as [H Hw]. apply andb_prop in H. destruct H as [H Hs]. rewrite Hs, Hw, !andb_true_r.
  repeat (apply orb_prop in H; destruct H as [H|H]); rewrite H; repeat rewrite orb_true_r; reflexivity.
Qed.

Lemma query_follow_no_setop : forall stop, query_follow stop -> is_setop (cur stop) = false.
Proof.
  intros stop (t & rest & E & H). subst stop. cbn [cur]. unfold query_stop in H. apply andb_prop in H. destruct H as [H _].
  apply andb_prop in H. destruct H as [H _].
  unfold is_setop, isT in *.
  repeat (apply orb_prop in H; destruct H as [H|H]);
    unfold tty_eqb in *; apply N.eqb_eq in H; rewrite H; reflexivity.
Qed.

Theorem parse_render_select :
  forall md sf fuel (sr : srho) s stop d,
    select_ok s = true -> (d_no_alias_after_column sf = false \/ select_bare_alias_free s = true) ->
    query_follow stop ->
    d + 2 + select_depth sr s <= md ->
    length (render_select sr s ++ stop) <= fuel ->
    parse_statement md sf (parse_expression md no_defects fuel) d (render_select sr s ++ stop)
    = Val (GSelectS (ast_of_select s), stop).
Proof.
  intros md sf fuel sr s stop d Hok Hflag Hstop Hdep Hlen.
  unfold render_select in *. cbn [app length] in Hlen.
  unfold parse_statement. cbn [app cur advance]. isT_conc. cbn iota.
  unfold parse_select_setops.
  rewrite parse_select_ok; [|exact Hok|exact Hflag|apply query_follow_sel; exact Hstop|exact Hdep|lia].
  cbn [bind setops_loop]. rewrite query_follow_no_setop by exact Hstop. reflexivity.
Qed.

(* the defect switch of the tree: an alias without AS after a bare column reference is not read *)
Definition w_bare_alias : mselect :=
  MkSelect false [] [IExpr (MIdent false "a") (Some (false, "b"))] [MkTable ["t"] None] [] None [] None [] None None None None.

Theorem parse_render_select_refuted_bare_alias :
  exists s stop, select_ok s = true /\ query_follow stop /\
    parse_statement 100 tree_flags (parse_expression 100 no_defects 100) 0 (render_select (fun _ _ => no_parens) s ++ stop)
    <> Val (GSelectS (ast_of_select s), stop).
Proof.
  exists w_bare_alias, [Tk TyEOF ""]. split; [reflexivity|]. split; [eexists _, _; split; reflexivity|].
  vm_compute. discriminate.
Qed.

(* non-vacuity: the example of Spec/RefStmt.v is in the surface, within the depth limit, and the instance computes *)
Example ex_select_parse :
  parse_statement_top tree_flags (render_select (fun _ _ => no_parens) ex_select ++ [Tk TyEOF ""])
  = Val (GSelectS (ast_of_select ex_select), [Tk TyEOF ""]).
Proof. vm_compute. reflexivity. Qed.
Example ex_select_free : select_bare_alias_free ex_select = true. Proof. reflexivity. Qed.
Example ex_select_lock_parse :
  parse_statement_top tree_flags (render_select (fun _ _ => no_parens) ex_select_lock ++ [Tk TyEOF ""])
  = Val (GSelectS (ast_of_select ex_select_lock), [Tk TyEOF ""]).
Proof. vm_compute. reflexivity. Qed.

(* ------------------------------------------------------------------------------------------------ *)
(* set operations: a query is its first SELECT followed by (operator, ALL?, SELECT) steps, left-nested *)
Fixpoint query_first (q : mquery) : mselect := match q with QSelect s => s | QSetOp l _ _ _ => query_first l end.
Fixpoint query_ops (q : mquery) : list (setop * bool * mselect) :=
  match q with QSelect _ => [] | QSetOp l op all r => query_ops l ++ [(op, all, r)] end.
Definition op_step (l : gstmt) (x : setop * bool * mselect) : gstmt :=
  match x with (op, all, r) => GSetOp l (setop_str op) (GSelectS (ast_of_select r)) all end.
Fixpoint ops_toks (sr : srho) (k : nat) (ops : list (setop * bool * mselect)) : list token :=
  match ops with
  | [] => []
  | (op, all, r) :: tl => setop_tok op :: (if all then [Tk TyAll "ALL"] else []) ++ render_select (shift sr k) r ++ ops_toks sr (S k) tl
  end.
Fixpoint ops_depth (sr : srho) (k : nat) (ops : list (setop * bool * mselect)) : nat :=
  match ops with [] => 0 | (_, _, r) :: tl => Nat.max (select_depth (shift sr k) r) (ops_depth sr (S k) tl) end.

Lemma qsize_ops : forall q, qsize q = S (length (query_ops q)).
Proof. induction q as [s|l IH op all r]; cbn [qsize query_ops]; [reflexivity|]. rewrite app_length. cbn [length]. lia. Qed.

Lemma ops_toks_app : forall sr a b k, ops_toks sr k (a ++ b) = ops_toks sr k a ++ ops_toks sr (k + length a) b.
Proof.
  intros sr a. induction a as [|[[op all] r] tl IH]; intros b k.
  - cbn [app ops_toks length]. rewrite Nat.add_0_r. reflexivity.
  - cbn [app ops_toks length]. rewrite IH. replace (S k + length tl) with (k + S (length tl)) by lia.
    cbn [app]. rewrite <- ?app_assoc. cbn [app]. rewrite <- ?app_assoc. reflexivity.
Qed.

Lemma ops_depth_app : forall sr a b k, ops_depth sr k (a ++ b) = Nat.max (ops_depth sr k a) (ops_depth sr (k + length a) b).
Proof.
  intros sr a. induction a as [|[[op all] r] tl IH]; intros b k.
  - cbn [app ops_depth length]. rewrite Nat.add_0_r. reflexivity.
  - cbn [app ops_depth length]. rewrite IH. replace (S k + length tl) with (k + S (length tl)) by lia. lia.
Qed.

Lemma render_query_flat : forall sr q base,
    render_query sr base q = render_select (shift sr base) (query_first q) ++ ops_toks sr (S base) (query_ops q).
Proof.
  intros sr. induction q as [s|l IH op all r]; intros base; cbn [render_query query_first query_ops].
  - cbn [ops_toks]. rewrite app_nil_r. reflexivity.
  - rewrite IH, ops_toks_app, qsize_ops. cbn [ops_toks]. rewrite app_nil_r.
    replace (base + S (length (query_ops l))) with (S base + length (query_ops l)) by lia.
    rewrite <- !app_assoc. cbn [app]. reflexivity.
Qed.

Lemma query_depth_flat : forall sr q base,
    query_depth sr base q = Nat.max (select_depth (shift sr base) (query_first q)) (ops_depth sr (S base) (query_ops q)).
Proof.
  intros sr. induction q as [s|l IH op all r]; intros base; cbn [query_depth query_first query_ops].
  - cbn [ops_depth]. lia.
  - rewrite IH, ops_depth_app, qsize_ops. cbn [ops_depth].
    replace (base + S (length (query_ops l))) with (S base + length (query_ops l)) by lia. lia.
Qed.

Lemma ast_of_query_flat : forall w q,
    ast_of_query_w w q = fold_left op_step (query_ops q) (GSelectS (ast_of_select_w w (query_first q))).
Proof.
  intros w. induction q as [s|l IH op all r]; cbn [ast_of_query_w query_first query_ops]; [reflexivity|].
  rewrite fold_left_app. cbn [fold_left op_step]. rewrite IH. reflexivity.
Qed.

Definition op_ok (x : setop * bool * mselect) : bool := match x with (_, _, r) => select_ok r && plain_operand r end.
Lemma query_ops_ok : forall q, query_ok q = true -> select_ok (query_first q) = true /\ forallb op_ok (query_ops q) = true.
Proof.
  induction q as [s|l IH op all r]; cbn [query_ok query_first query_ops]; intros H.
  - split; [exact H|reflexivity].
  - apply andb_prop in H. destruct H as [H Hp]. apply andb_prop in H. destruct H as [H Hr]. apply andb_prop in H. destruct H as [H Hlp].
    destruct (IH H) as [Hq1 Hq2]. split; [exact Hq1|].
    rewrite forallb_app. rewrite Hq2. cbn [forallb op_ok]. rewrite Hr, Hp. reflexivity.
Qed.
Definition op_free (x : setop * bool * mselect) : bool := match x with (_, _, r) => select_bare_alias_free r end.

Section SetOps.
  Variable md : nat.
  Variable fuel : nat.
  Variable sf : sflags.
  Notation pe := (parse_expression md no_defects fuel).

  Lemma ops_follow : forall sr k ops stop, query_follow stop -> sel_follow (ops_toks sr k ops ++ stop).
  Proof.
    intros sr k ops stop H. destruct ops as [|[[op all] r] tl]; cbn [ops_toks app]; [apply query_follow_sel; exact H|].
    eexists _, _. split; [reflexivity|]. destruct op; reflexivity.
  Qed.

  Lemma setops_loop_ok : forall ops, forallb op_ok ops = true ->
      (d_no_alias_after_column sf = false \/ forallb op_free ops = true) ->
      forall (sr : srho) k d left stop n,
        query_follow stop ->
        d + 2 + ops_depth sr k ops <= md ->
        length (ops_toks sr k ops ++ stop) < fuel ->
        length (ops_toks sr k ops ++ stop) < n ->
        setops_loop md sf pe n d left (ops_toks sr k ops ++ stop) = Val (fold_left op_step ops left, stop).
  Proof.
    induction ops as [|[[op all] r] tl IH]; intros Hok Hflag sr k d left stop n Hstop Hdep Hlen Hn; (destruct n as [|n]; [lia|]).
    - cbn [ops_toks app setops_loop fold_left]. rewrite query_follow_no_setop by exact Hstop. reflexivity.
    - cbn [forallb op_ok] in Hok. apply andb_prop in Hok. destruct Hok as [Hr Htl]. apply andb_prop in Hr. destruct Hr as [Hr _].
      assert (Hf1 : d_no_alias_after_column sf = false \/ select_bare_alias_free r = true).
      { destruct Hflag as [Hf|Hb]; [left; exact Hf|right]. cbn [forallb op_free] in Hb. apply andb_prop in Hb. tauto. }
      assert (Hf2 : d_no_alias_after_column sf = false \/ forallb op_free tl = true).
      { destruct Hflag as [Hf|Hb]; [left; exact Hf|right]. cbn [forallb op_free] in Hb. apply andb_prop in Hb. tauto. }
      cbn [ops_toks ops_depth fold_left op_step] in *. unfold render_select in *.
      repeat (cbn [app] in *; rewrite <- app_assoc in * ). cbn [app] in *.
      cbn [length] in Hlen, Hn. rewrite !app_length in Hlen, Hn. cbn [length] in Hlen, Hn. rewrite !app_length in Hlen, Hn.
      cbn [setops_loop].
      assert (Hso : is_setop (setop_tok op) = true) by (destruct op; reflexivity).
      cbn [cur advance]. rewrite Hso.
      destruct all; cbn [app cur advance]; isT_conc; cbn iota; cbn [negb cur advance]; isT_conc; cbn iota; cbn [negb cur advance].
      all: rewrite parse_select_ok; [|exact Hr|exact Hf1|apply ops_follow; exact Hstop|lia|rewrite !app_length; cbn [length] in *; lia].
      all: cbn [rewrap bind].
      all: rewrite IH; [|exact Htl|exact Hf2|exact Hstop|lia|rewrite ?app_length; lia|rewrite ?app_length; lia].
      all: unfold setop_str; destruct op; reflexivity.
  Qed.

  (* parseSelectWithSetOperations on everything after the first SELECT keyword of a query *)
  Lemma select_setops_ok : forall (sr : srho) q base stop d,
      query_ok q = true ->
      (d_no_alias_after_column sf = false \/ (select_bare_alias_free (query_first q) = true /\ forallb op_free (query_ops q) = true)) ->
      query_follow stop ->
      d + 2 + query_depth sr base q <= md ->
      length (render_query sr base q ++ stop) <= fuel ->
      parse_select_setops md sf pe d (select_tail_toks (shift sr base) (query_first q) ++ ops_toks sr (S base) (query_ops q) ++ stop)
      = Val (ast_of_query q, stop).
  Proof.
    intros sr q base stop d Hok Hflag Hstop Hdep Hlen.
    destruct (query_ops_ok q Hok) as [H1 H2].
    rewrite render_query_flat in Hlen. rewrite query_depth_flat in Hdep. unfold render_select in Hlen.
    cbn [app length] in Hlen. rewrite <- app_assoc in Hlen. rewrite app_length in Hlen.
    unfold parse_select_setops.
    rewrite parse_select_ok; [|exact H1| |apply ops_follow; exact Hstop|lia|rewrite app_length; lia].
    2:{ destruct Hflag as [Hf|[Hb _]]; [left; exact Hf|right; exact Hb]. }
    cbn [bind].
    rewrite setops_loop_ok; [|exact H2| |exact Hstop|lia|lia|lia].
    2:{ destruct Hflag as [Hf|[_ Hb]]; [left; exact Hf|right; exact Hb]. }
    unfold ast_of_query. rewrite ast_of_query_flat. reflexivity.
  Qed.
End SetOps.

(* ------------------------------------------------------------------------------------------------ *)
(* WITH, INSERT, UPDATE, DELETE *)
Definition Tq : list tty := [TyEOF; TySemicolon; TyRParen].
Definition Tret := TyReturning :: Tq.
Definition Twr := TyWhere :: Tret.
Definition Ton := TyOn :: Tret.

Lemma stmt_follow_hd : forall stop, stmt_follow stop -> hd_in Tq stop /\ String.eqb (lit (cur stop)) "RETURNING" = false.
Proof.
  intros stop (t & rest & E & H). subst stop. unfold stmt_stop in H. apply andb_prop in H. destruct H as [H _].
  apply andb_prop in H. destruct H as [H Hl].
  apply andb_prop in H. destruct H as [H Hs]. apply negb_true_iff in Hl. split; [|exact Hl].
  split; [|exact Hs]. cbn [cur]. unfold tyin, Tq. cbn [existsb]. unfold isT in H. rewrite orb_false_r. repeat rewrite orb_assoc in *. exact H.
Qed.

Lemma stmt_follow_query : forall stop, stmt_follow stop -> query_follow stop.
Proof.
  intros stop (t & rest & E & H). exists t, rest. split; [exact E|]. unfold stmt_stop in H. unfold query_stop.
  apply andb_prop in H. destruct H as [H Hw]. apply andb_prop in H. destruct H as [H _]. apply andb_prop in H. destruct H as [H Hs].
  rewrite Hs, Hw, !andb_true_r.
  repeat (apply orb_prop in H; destruct H as [H|H]); rewrite H; repeat rewrite orb_true_r; reflexivity.
Qed.

Lemma query_bare_flat : forall q, query_bare_alias_free q = true ->
    select_bare_alias_free (query_first q) = true /\ forallb op_free (query_ops q) = true.
Proof.
  induction q as [s|l IH op all r]; cbn [query_bare_alias_free query_first query_ops]; intros H.
  - split; [exact H|reflexivity].
  - apply andb_prop in H. destruct H as [Hl Hr]. destruct (IH Hl) as [H1 H2]. split; [exact H1|].
    rewrite forallb_app, H2. cbn [forallb op_free]. rewrite Hr. reflexivity.
Qed.

Lemma set_with_fold : forall w ops left, set_with_leftmost w (fold_left op_step ops left) = fold_left op_step ops (set_with_leftmost w left).
Proof.
  intros w ops. induction ops as [|[[op all] r] tl IH]; intros left; [reflexivity|].
  cbn [fold_left op_step]. rewrite IH. reflexivity.
Qed.

Lemma set_with_query : forall w q, set_with w (ast_of_query q) = ast_of_query_w (Some w) q.
Proof.
  intros w q. unfold ast_of_query. rewrite !ast_of_query_flat.
  assert (H : set_with w (fold_left op_step (query_ops q) (GSelectS (ast_of_select_w None (query_first q))))
              = set_with_leftmost w (fold_left op_step (query_ops q) (GSelectS (ast_of_select_w None (query_first q))))).
  { destruct (query_ops q) as [|x tl] using rev_ind; [reflexivity|]. rewrite fold_left_app. cbn [fold_left]. destruct x as [[op all] r]. reflexivity. }
  rewrite H, set_with_fold. reflexivity.
Qed.

Section Stmts.
  Variable md : nat.
  Variable fuel : nat.
  Variable sf : sflags.
  Notation pe := (parse_expression md no_defects fuel).

  Definition qflag (q : mquery) : Prop := d_no_alias_after_column sf = false \/ query_bare_alias_free q = true.

  Lemma qflag_flat : forall q, qflag q ->
      d_no_alias_after_column sf = false \/ (select_bare_alias_free (query_first q) = true /\ forallb op_free (query_ops q) = true).
  Proof. intros q [H|H]; [left; exact H|right; apply query_bare_flat; exact H]. Qed.

  (* a whole query, its SELECT keyword included, followed by [stop] *)
  Lemma query_ok_parse : forall (sr : srho) q base stop d,
      query_ok q = true -> qflag q -> query_follow stop ->
      d + 2 + query_depth sr base q <= md ->
      length (render_query sr base q ++ stop) <= fuel ->
      exists tail, render_query sr base q ++ stop = Tk TySelect "SELECT" :: tail
                   /\ parse_select_setops md sf pe d tail = Val (ast_of_query q, stop).
  Proof.
    intros sr q base stop d Hok Hflag Hstop Hdep Hlen.
    exists (select_tail_toks (shift sr base) (query_first q) ++ ops_toks sr (S base) (query_ops q) ++ stop). split.
    - rewrite render_query_flat. unfold render_select. cbn [app]. rewrite <- app_assoc. reflexivity.
    - apply select_setops_ok; [exact Hok|apply qflag_flat; exact Hflag|exact Hstop|exact Hdep|exact Hlen].
  Qed.

  Lemma cols_list_ok : forall cols X, isT (cur X) TyLParen = false ->
      (if isT (cur (cols_toks cols ++ X)) TyLParen then paren_ident_list (cols_toks cols ++ X) else Val ([], cols_toks cols ++ X))
      = Val (cols, X).
  Proof.
    intros cols X HX. destruct cols as [|c cl]; cbn [cols_toks app].
    - rewrite HX. reflexivity.
    - cbn [cur]. isT_conc. cbn iota. rewrite <- app_assoc. cbn [app]. apply paren_ident_list_ok.
  Qed.

  Lemma parse_cte_ok : forall (sr : srho) base c X d,
      cte_ok c = true -> qflag (c_body c) ->
      d + 3 + query_depth sr base (c_body c) <= md ->
      length (cte_toks sr base c ++ X) <= fuel ->
      parse_cte md sf pe d (cte_toks sr base c ++ X) = Val (ast_of_cte c, X).
  Proof.
    intros sr base [name cols mat body] X d Hok Hflag Hdep Hlen. unfold cte_ok in Hok. cbn [c_body c_name c_cols c_mat] in *.
    unfold cte_toks in *. cbn [c_body c_name c_cols c_mat] in *.
    repeat (cbn [app] in *; rewrite <- app_assoc in * ). cbn [app] in *.
    destruct (query_ok_parse sr body base (tRP :: X) (S d) Hok Hflag) as (tail & Etail & Hparse).
    { eexists _, _. split; reflexivity. }
    { lia. }
    { cbn [length] in Hlen. rewrite !app_length in Hlen. cbn [length] in Hlen. rewrite !app_length in Hlen. cbn [length] in Hlen. lia. }
    rewrite Etail in *.
    unfold parse_cte. destruct (Nat.ltb_spec md (S d)); [lia|].
    cbn [cur advance]. unfold is_identifier at 1. isT_conc. cbn [orb negb lit]. cbn iota.
    rewrite cols_list_ok by reflexivity. cbn [bind cur advance]. isT_conc. cbn iota. cbn [negb].
    destruct mat as [[|]|]; cbn [mat_toks app cur advance]; isT_conc; cbn iota; cbn [bind negb cur advance]; isT_conc; cbn iota; cbn [negb cur advance].
    all: cbn [bind negb cur advance]; isT_conc; cbn iota; cbn [negb cur advance].
    all: rewrite Hparse; cbn [rewrap bind cur advance]; isT_conc; cbn iota; reflexivity.
  Qed.

  Lemma ctes_sep_cons2 : forall (sr : srho) base c c2 tl,
      sep_by [tComma] (ctes_toks sr base (c :: c2 :: tl))
      = cte_toks sr base c ++ tComma :: sep_by [tComma] (ctes_toks sr (base + qsize (c_body c)) (c2 :: tl)).
  Proof. reflexivity. Qed.

  Definition ctes_flag (l : list mcte) : Prop :=
    d_no_alias_after_column sf = false \/ forallb (fun c => query_bare_alias_free (c_body c)) l = true.

  Lemma cte_list_ok : forall l, forallb cte_ok l = true -> l <> [] -> ctes_flag l ->
      forall (sr : srho) base d acc X n,
        isT (cur X) TyComma = false ->
        d + ctes_depth sr base l <= md ->
        length (sep_by [tComma] (ctes_toks sr base l) ++ X) <= fuel ->
        length (sep_by [tComma] (ctes_toks sr base l) ++ X) < n ->
        cte_list md sf pe n d acc (sep_by [tComma] (ctes_toks sr base l) ++ X) = Val (acc ++ map ast_of_cte l, X).
  Proof.
    induction l as [|c tl IH]; intros Hok Hne Hflag sr base d acc X n HX Hdep Hlen Hn; [contradiction|].
    cbn [forallb] in Hok. apply andb_prop in Hok. destruct Hok as [Hc Htl].
    assert (Hf1 : qflag (c_body c)).
    { destruct Hflag as [Hf|Hb]; [left; exact Hf|right]. cbn [forallb] in Hb. apply andb_prop in Hb. tauto. }
    assert (Hf2 : ctes_flag tl).
    { destruct Hflag as [Hf|Hb]; [left; exact Hf|right]. cbn [forallb] in Hb. apply andb_prop in Hb. tauto. }
    cbn [ctes_depth] in Hdep.
    destruct n as [|n]; [lia|].
    destruct tl as [|c2 tl'].
    - cbn [ctes_toks sep_by] in *. cbn [cte_list].
      rewrite parse_cte_ok; [|exact Hc|exact Hf1|lia|exact Hlen].
      cbn [rewrap bind]. rewrite HX. reflexivity.
    - rewrite ctes_sep_cons2 in *. rewrite <- app_assoc in *. cbn [app] in *.
      rewrite app_length in Hlen, Hn. cbn [length] in Hlen, Hn.
      cbn [cte_list].
      rewrite parse_cte_ok; [|exact Hc|exact Hf1|lia|rewrite app_length; cbn [length]; lia].
      cbn [rewrap bind cur advance]. change (isT tComma TyComma) with true. cbn iota.
      assert (Hcl : 1 <= length (cte_toks sr base c)) by (unfold cte_toks; cbn [length]; lia).
      rewrite (IH Htl ltac:(discriminate) Hf2 sr (base + qsize (c_body c)) d (acc ++ [ast_of_cte c]) X n HX); [|lia|lia|lia].
      rewrite <- app_assoc. reflexivity.
  Qed.

  (* ---------------------------------------------------------------------------------------------- *)
  (* RETURNING, optional WHERE of UPDATE / DELETE *)
  Lemma returning_ok : forall (sr : srho) ret stop d,
      forallb ref_expr ret = true -> stmt_follow stop ->
      S d + exprs_depth sr cl_returning 0 ret <= md ->
      length (returning_toks sr ret ++ stop) < fuel ->
      parse_returning pe d (returning_toks sr ret ++ stop) = Val (map ast_of ret, stop).
  Proof.
    intros sr ret stop d Href Hstop Hdep Hlen. destruct (stmt_follow_hd stop Hstop) as [HR Hlit].
    unfold returning_toks, list_clause in *. destruct ret as [|e tl].
    - cbn [exprs_toks app map]. unfold parse_returning. hd_rw HR. rewrite Hlit. reflexivity.
    - remember (e :: tl) as l0 eqn:El.
      assert (Hex : exprs_toks sr cl_returning 0 l0 <> []) by (subst l0; discriminate).
      destruct (exprs_toks sr cl_returning 0 l0) as [|x xs] eqn:Ex; [contradiction|]. rewrite <- Ex in *. clear Hex Ex x xs.
      cbn [app] in *. cbn [length] in Hlen.
      unfold parse_returning. cbn [cur advance]. isT_conc. cbn [orb]. cbn iota.
      rewrite (returning_list_ok md fuel l0 Href ltac:(subst l0; discriminate) sr cl_returning 0 d [] stop _ Tq HR eq_refl); [reflexivity|lia|lia|lia].
  Qed.

  Lemma ret_hd : forall (sr : srho) ret stop, stmt_follow stop -> hd_in Tret (returning_toks sr ret ++ stop).
  Proof.
    intros sr ret stop Hstop. destruct (stmt_follow_hd stop Hstop) as [HR _]. unfold returning_toks.
    apply hd_list; [exact HR|reflexivity].
  Qed.

  Lemma opt_where_at_ok : forall (r : rho) w R d, optb ref_expr w = true -> hd_in Tret R ->
      S d + opt_depth r w <= md -> length (where_toks_at r w ++ R) < fuel ->
      parse_opt_where pe d (where_toks_at r w ++ R) = Val (option_map ast_of w, R).
  Proof.
    intros r w R d Href HR Hdep Hlen. unfold where_toks_at in *. destruct w as [e|]; cbn [opt_clause app option_map opt_depth optb] in *.
    - unfold parse_opt_where. cbn [cur advance]. isT_conc. cbn iota.
      rewrite (pe_item md fuel); [reflexivity|assumption|apply HR|assumption|cbn [length] in Hlen; lia].
    - unfold parse_opt_where. hd_rw HR. reflexivity.
  Qed.

  Lemma opt_where_ok : forall (sr : srho) w R d, optb ref_expr w = true -> hd_in Tret R ->
      S d + opt_depth (sr cl_where 0) w <= md -> length (where_toks sr w ++ R) < fuel ->
      parse_opt_where pe d (where_toks sr w ++ R) = Val (option_map ast_of w, R).
  Proof. intros sr w R d. apply (opt_where_at_ok (sr cl_where 0)). Qed.

  Lemma skip_limit_id : forall R, hd_in Tret R -> skip_limit R = R.
  Proof. intros R HR. unfold skip_limit. hd_rw HR. reflexivity. Qed.

  (* ---------------------------------------------------------------------------------------------- *)
  (* DELETE *)
  Lemma parse_delete_ok : forall (sr : srho) t wh ret stop d,
      path_ok t = true -> optb ref_expr wh = true -> forallb ref_expr ret = true -> stmt_follow stop ->
      S d + Nat.max (opt_depth (sr cl_where 0) wh) (exprs_depth sr cl_returning 0 ret) <= md ->
      length (Tk TyFrom "FROM" :: path_toks t ++ where_toks sr wh ++ returning_toks sr ret ++ stop) < fuel ->
      parse_delete pe d (Tk TyFrom "FROM" :: path_toks t ++ where_toks sr wh ++ returning_toks sr ret ++ stop)
      = Val (GDelete None (join_dot t) "" [] (option_map ast_of wh) (map ast_of ret), stop).
  Proof.
    intros sr t wh ret stop d Hp Hwh Hret Hstop Hdep Hlen.
    destruct t as [|p ps]; [discriminate|].
    pose proof (ret_hd sr ret stop Hstop) as HRr.
    assert (HRw : hd_in Twr (where_toks sr wh ++ returning_toks sr ret ++ stop)) by (apply hd_opt; [exact HRr|reflexivity]).
    cbn [length] in Hlen. rewrite !app_length in Hlen.
    unfold parse_delete. cbn [cur advance]. isT_conc. cbn iota. cbn [negb].
    rewrite qname_ok by (apply (hd_isT Twr _ TyPeriod HRw eq_refl)).
    cbn [rewrap bind].
    rewrite opt_where_ok; [|exact Hwh|exact HRr|lia|rewrite !app_length; lia].
    cbn [bind]. rewrite skip_limit_id by exact HRr.
    rewrite returning_ok; [reflexivity|exact Hret|exact Hstop|lia|rewrite app_length; lia].
  Qed.

  (* ---------------------------------------------------------------------------------------------- *)
  (* UPDATE *)
  Lemma assign_sep_cons2 : forall (sr : srho) c i n e x tl,
      sep_by [tComma] (assign_toks sr c i ((n, e) :: x :: tl))
      = (Tk TyIdent n :: Tk TyEq "=" :: render 0 (sr c i) e) ++ tComma :: sep_by [tComma] (assign_toks sr c (S i) (x :: tl)).
  Proof. intros. destruct x. reflexivity. Qed.

  Lemma assign_list_ok : forall l, forallb (fun ce : string * mexpr => ref_expr (snd ce)) l = true -> l <> [] ->
      forall (sr : srho) c i d acc R n,
        hd_in Twr R ->
        S d + assign_depth sr c i l <= md ->
        length (sep_by [tComma] (assign_toks sr c i l) ++ R) < fuel ->
        length (sep_by [tComma] (assign_toks sr c i l) ++ R) < n ->
        set_list pe n d acc (sep_by [tComma] (assign_toks sr c i l) ++ R) = Val (acc ++ ast_of_sets l, R).
  Proof.
    induction l as [|[nm e] tl IH]; intros Href Hne sr c i d acc R n HR Hdep Hlen Hn; [contradiction|].
    cbn [forallb snd] in Href. apply andb_prop in Href. destruct Href as [Hre Hrtl].
    cbn [assign_depth] in Hdep.
    destruct n as [|n]; [lia|].
    destruct tl as [|x tl'].
    - cbn [assign_toks sep_by app] in *. cbn [length] in Hlen, Hn.
      cbn [set_list cur advance]. unfold is_identifier. isT_conc. cbn [orb negb lit]. cbn iota.
      rewrite (pe_item md fuel); [|assumption|apply HR|lia|lia].
      cbn [bind]. rewrite (hd_isT Twr R TyComma HR eq_refl). reflexivity.
    - rewrite assign_sep_cons2 in *. cbn [app] in *. rewrite <- app_assoc in *. cbn [app] in *.
      cbn [length] in Hlen, Hn. rewrite app_length in Hlen, Hn. cbn [length] in Hlen, Hn.
      cbn [set_list cur advance]. unfold is_identifier. isT_conc. cbn [orb negb lit]. cbn iota.
      rewrite (pe_item md fuel); [|assumption|reflexivity|lia|rewrite app_length; cbn [length]; lia].
      cbn [bind cur advance]. change (isT tComma TyComma) with true. cbn iota.
      rewrite (IH Hrtl ltac:(discriminate) sr c (S i) d (acc ++ [(GIdent nm "", ast_of e)]) R n HR); [|lia|lia|lia].
      rewrite <- app_assoc. reflexivity.
  Qed.

  Lemma set_list_ok : forall l, forallb (fun ce : string * mexpr => ref_expr (snd ce)) l = true -> l <> [] ->
      forall (sr : srho) i d acc R n,
        hd_in Twr R ->
        S d + sets_depth sr i l <= md ->
        length (sep_by [tComma] (sets_toks sr i l) ++ R) < fuel ->
        length (sep_by [tComma] (sets_toks sr i l) ++ R) < n ->
        set_list pe n d acc (sep_by [tComma] (sets_toks sr i l) ++ R) = Val (acc ++ ast_of_sets l, R).
  Proof. intros l Href Hne sr i. apply (assign_list_ok l Href Hne sr cl_set i). Qed.

  Lemma parse_update_ok : forall (sr : srho) t sets wh ret stop d,
      path_ok t = true -> sets <> [] -> forallb (fun ce : string * mexpr => ref_expr (snd ce)) sets = true ->
      optb ref_expr wh = true -> forallb ref_expr ret = true -> stmt_follow stop ->
      S d + Nat.max (sets_depth sr 0 sets) (Nat.max (opt_depth (sr cl_where 0) wh) (exprs_depth sr cl_returning 0 ret)) <= md ->
      length (path_toks t ++ Tk TySet "SET" :: sep_by [tComma] (sets_toks sr 0 sets) ++ where_toks sr wh ++ returning_toks sr ret ++ stop) < fuel ->
      parse_update pe d (path_toks t ++ Tk TySet "SET" :: sep_by [tComma] (sets_toks sr 0 sets) ++ where_toks sr wh ++ returning_toks sr ret ++ stop)
      = Val (GUpdate None (join_dot t) "" (ast_of_sets sets) [] (option_map ast_of wh) (map ast_of ret), stop).
  Proof.
    intros sr t sets wh ret stop d Hp Hne Hsets Hwh Hret Hstop Hdep Hlen.
    destruct t as [|p ps]; [discriminate|].
    pose proof (ret_hd sr ret stop Hstop) as HRr.
    assert (HRw : hd_in Twr (where_toks sr wh ++ returning_toks sr ret ++ stop)) by (apply hd_opt; [exact HRr|reflexivity]).
    rewrite !app_length in Hlen. cbn [length] in Hlen. rewrite !app_length in Hlen.
    unfold parse_update.
    rewrite qname_ok by reflexivity.
    cbn [rewrap bind cur advance]. isT_conc. cbn iota. cbn [negb].
    rewrite set_list_ok; [|exact Hsets|exact Hne|exact HRw|lia|rewrite !app_length; lia|rewrite !app_length; lia].
    cbn [bind app].
    rewrite opt_where_ok; [|exact Hwh|exact HRr|lia|rewrite !app_length; lia].
    cbn [bind]. rewrite skip_limit_id by exact HRr.
    rewrite returning_ok; [reflexivity|exact Hret|exact Hstop|lia|rewrite app_length; lia].
  Qed.

  (* ---------------------------------------------------------------------------------------------- *)
  (* INSERT *)
  Definition row_toks (sr : srho) (i : nat) (row : list mexpr) : list token :=
    tLP :: sep_by [tComma] (exprs_toks sr cl_values i row) ++ [tRP].

  Lemma rows_sep_cons2 : forall (sr : srho) i row row2 tl,
      sep_by [tComma] (rows_toks sr i (row :: row2 :: tl))
      = row_toks sr i row ++ tComma :: sep_by [tComma] (rows_toks sr (i + length row) (row2 :: tl)).
  Proof. reflexivity. Qed.

  Lemma values_rows_ok : forall rows, forallb row_ok rows = true -> rows <> [] ->
      forall (sr : srho) i d acc R n,
        hd_in Ton R ->
        S d + rows_depth sr i rows <= md ->
        length (sep_by [tComma] (rows_toks sr i rows) ++ R) < fuel ->
        length (sep_by [tComma] (rows_toks sr i rows) ++ R) < n ->
        values_rows pe n d acc (sep_by [tComma] (rows_toks sr i rows) ++ R) = Val (acc ++ map (map ast_of) rows, R).
  Proof.
    induction rows as [|row tl IH]; intros Hok Hne sr i d acc R n HR Hdep Hlen Hn; [contradiction|].
    cbn [forallb] in Hok. apply andb_prop in Hok. destruct Hok as [Hrow Htl].
    unfold row_ok in Hrow. apply andb_prop in Hrow. destruct Hrow as [Hrne Hrref].
    assert (Hrow_ne : row <> []) by (destruct row; [discriminate|discriminate]).
    cbn [rows_depth] in Hdep.
    destruct n as [|n]; [lia|].
    assert (HRP : forall Y, hd_in [TyRParen] (tRP :: Y)) by (intros Y; split; reflexivity).
    destruct tl as [|row2 tl'].
    - cbn [rows_toks sep_by] in *. cbn [app] in *. rewrite <- app_assoc in *. cbn [app] in *.
      cbn [length] in Hlen, Hn.
      cbn [values_rows cur advance]. isT_conc. cbn iota. cbn [negb].
      rewrite (expr_list_ok md fuel row Hrref Hrow_ne sr cl_values i d [] (tRP :: R) _ [TyRParen] (HRP R) eq_refl); [|lia|lia|lia].
      cbn [bind cur advance app]. isT_conc. cbn iota. cbn [negb].
      rewrite (hd_isT Ton R TyComma HR eq_refl). reflexivity.
    - rewrite rows_sep_cons2 in *. unfold row_toks in *. cbn [app] in *. rewrite <- !app_assoc in *. cbn [app] in *.
      cbn [length] in Hlen, Hn. rewrite !app_length in Hlen, Hn. cbn [length] in Hlen, Hn.
      cbn [values_rows cur advance]. isT_conc. cbn iota. cbn [negb].
      rewrite (expr_list_ok md fuel row Hrref Hrow_ne sr cl_values i d [] (tRP :: tComma :: sep_by [tComma] (rows_toks sr (i + length row) (row2 :: tl')) ++ R) _ [TyRParen] (HRP _) eq_refl);
        [|lia|rewrite !app_length; cbn [length]; lia|rewrite !app_length; cbn [length]; lia].
      cbn [bind cur advance app]. isT_conc. cbn iota. cbn [negb]. change (isT tComma TyComma) with true. cbn iota.
      rewrite (IH Htl ltac:(discriminate) sr (i + length row) d (acc ++ [map ast_of row]) R n HR); [|lia|lia|lia].
      rewrite <- app_assoc. reflexivity.
  Qed.

  (* ON CONFLICT *)
  Lemma on_conflict_ok : forall (sr : srho) c R d,
      conflict_ok c = true -> hd_in Tret R ->
      S d + conflict_depth sr (Some c) <= md ->
      length (conflict_toks sr (Some c) ++ R) < fuel ->
      exists tail, conflict_toks sr (Some c) ++ R = Tk TyOn "ON" :: Tk TyIdent "CONFLICT" :: tail /\
                   parse_on_conflict pe d tail = Val (ast_of_conflict c, R).
  Proof.
    intros sr [tg act] R d Hok HR Hdep Hlen. unfold conflict_ok in Hok. cbn [cf_target cf_action] in Hok.
    apply andb_prop in Hok. destruct Hok as [Htg Hact].
    cbn [conflict_toks cf_target cf_action] in *. eexists. split; [cbn [app]; reflexivity|].
    repeat (cbn [app] in *; rewrite <- app_assoc in * ). cbn [app] in *.
    unfold parse_on_conflict, ast_of_conflict. cbn [cf_target cf_action].
    (* the part after the target *)
    assert (Hact_ok : forall tgl cn,
               (if negb (eqfold (lit (cur (Tk TyIdent "DO" :: match act with
                                                | CaNothing => [Tk TyIdent "NOTHING"]
                                                | CaUpdate sets wh => Tk TyUpdate "UPDATE" :: Tk TySet "SET" :: sep_by [tComma] (assign_toks sr cl_cset 0 sets) ++ where_toks_at (sr cl_cwhere 0) wh
                                                end ++ R))) "DO") then Err EExpected
                else
                  let ts := advance (Tk TyIdent "DO" :: match act with
                                                | CaNothing => [Tk TyIdent "NOTHING"]
                                                | CaUpdate sets wh => Tk TyUpdate "UPDATE" :: Tk TySet "SET" :: sep_by [tComma] (assign_toks sr cl_cset 0 sets) ++ where_toks_at (sr cl_cwhere 0) wh
                                                end ++ R) in
                  if eqfold (lit (cur ts)) "NOTHING" then Val (GConflict tgl cn true [] None, advance ts)
                  else if isT (cur ts) TyUpdate then
                    let ts := advance ts in
                    if negb (isT (cur ts) TySet) then Err EExpected
                    else
                      let ts := advance ts in
                      do (asg, ts1) <- set_list pe (S (length ts)) d [] ts;
                      do (wh, ts2) <- parse_opt_where pe d ts1;
                      Val (GConflict tgl cn false asg wh, ts2)
                  else Err EExpected)
               = Val (GConflict tgl cn (match act with CaNothing => true | _ => false end)
                        (match act with CaUpdate sets _ => ast_of_sets sets | _ => [] end)
                        (match act with CaUpdate _ wh => option_map ast_of wh | _ => None end), R)).
    { intros tgl cn. cbn [cur advance lit].
      change (eqfold "DO" "DO") with true. cbn [negb]. cbn iota.
      destruct act as [|sets wh].
      - cbn [app cur advance lit]. change (eqfold "NOTHING" "NOTHING") with true. cbn iota. reflexivity.
      - apply andb_prop in Hact. destruct Hact as [Hact Hwh]. apply andb_prop in Hact. destruct Hact as [Hsne Hsets].
        cbn [app cur advance lit]. change (eqfold "UPDATE" "NOTHING") with false. cbn iota. isT_conc. cbn iota. cbn [negb].
        assert (HRw : hd_in Twr (where_toks_at (sr cl_cwhere 0) wh ++ R)) by (apply hd_opt; [exact HR|reflexivity]).
        cbn [conflict_depth] in Hdep.
        assert (Hl2 : length (sep_by [tComma] (assign_toks sr cl_cset 0 sets) ++ where_toks_at (sr cl_cwhere 0) wh ++ R) < fuel).
        { destruct tg as [|cs|n0]; cbn [app length] in Hlen; rewrite ?app_length in Hlen; cbn [length] in Hlen; rewrite ?app_length in *; lia. }
        rewrite <- app_assoc.
        rewrite assign_list_ok; [|exact Hsets|destruct sets; [discriminate|discriminate]|exact HRw|lia|exact Hl2|lia].
        cbn [bind app].
        rewrite opt_where_at_ok; [reflexivity|exact Hwh|exact HR|lia|rewrite app_length in Hl2; lia]. }
    destruct tg as [|cs|n0]; cbn [app cur advance peek].
    - isT_conc. cbn [andb]. cbn iota. cbn [bind fst snd]. apply Hact_ok.
    - destruct cs as [|c0 cl]; [discriminate Htg|]. isT_conc. cbn iota.
      rewrite <- app_assoc. cbn [app]. rewrite paren_ident_list_ok. cbn [bind fst snd]. apply Hact_ok.
    - isT_conc. cbn [andb lit]. change (eqfold "CONSTRAINT" "CONSTRAINT") with true. cbn iota.
      cbn [cur advance]. unfold is_identifier. isT_conc. cbn [orb negb lit]. cbn iota. cbn [bind fst snd]. apply Hact_ok.
  Qed.

  Lemma conflict_hd : forall (sr : srho) cf R, hd_in Tret R -> hd_in Ton (conflict_toks sr cf ++ R).
  Proof.
    intros sr cf R HR. destruct cf as [c|]; cbn [conflict_toks app].
    - split; reflexivity.
    - eapply hd_weaken; [exact HR|unfold Ton; in_sub].
  Qed.

  Lemma opt_conflict_ok : forall (sr : srho) cf R d,
      optb conflict_ok cf = true -> hd_in Tret R ->
      S d + conflict_depth sr cf <= md ->
      length (conflict_toks sr cf ++ R) < fuel ->
      let X := conflict_toks sr cf ++ R in
      (isT (cur X) TyOn && String.eqb (upper (lit (peek X))) "DUPLICATE" = false) /\
      (if isT (cur X) TyOn && String.eqb (upper (lit (peek X))) "CONFLICT" then
         do (c, ts1) <- parse_on_conflict pe d (advance (advance X)); Val (Some c, ts1)
       else Val (None, X)) = Val (option_map ast_of_conflict cf, R).
  Proof.
    intros sr cf R d Hok HR Hdep Hlen X. subst X. destruct cf as [c|].
    - destruct (on_conflict_ok sr c R d Hok HR Hdep Hlen) as (tail & Etail & Hp). rewrite Etail.
      cbn [cur peek advance lit]. isT_conc. cbn [andb].
      change (String.eqb (upper "CONFLICT") "DUPLICATE") with false. change (String.eqb (upper "CONFLICT") "CONFLICT") with true.
      split; [reflexivity|]. cbn iota. rewrite Hp. reflexivity.
    - cbn [conflict_toks app option_map]. rewrite (hd_isT Tret R TyOn HR eq_refl). cbn [andb]. split; reflexivity.
  Qed.

  Lemma parse_insert_ok : forall (sr : srho) base t cols src cf ret stop d,
      body_ok (BInsert t cols src cf ret) = true ->
      match src with inl _ => True | inr q => qflag q end ->
      stmt_follow stop ->
      d + body_depth sr base (BInsert t cols src cf ret) <= md ->
      length (render_body sr base (BInsert t cols src cf ret) ++ stop) <= fuel ->
      exists tail, render_body sr base (BInsert t cols src cf ret) ++ stop = Tk TyInsert "INSERT" :: tail /\
        parse_insert md sf pe d tail
        = Val (GInsert None (join_dot t) (map (fun c => GIdent c "") cols)
                 (match src with inl rows => map (map ast_of) rows | inr _ => [] end)
                 (match src with inl _ => None | inr q => Some (ast_of_query q) end) (map ast_of ret)
                 (option_map ast_of_conflict cf) [], stop).
  Proof.
    intros sr base t cols src cf ret stop d Hok Hflag Hstop Hdep Hlen.
    cbn [body_ok] in Hok. apply andb_prop in Hok. destruct Hok as [Hok Hsrc]. apply andb_prop in Hok. destruct Hok as [Hok Hcf].
    apply andb_prop in Hok. destruct Hok as [Hp Hret].
    destruct t as [|p ps]; [discriminate|].
    cbn [render_body body_depth] in *. cbv zeta in Hdep.
    eexists. split; [cbn [app]; reflexivity|].
    set (k := base + match src with inl _ => 0 | inr q => qsize q end) in *.
    pose proof (ret_hd (shift sr k) ret stop Hstop) as HRr.
    pose proof (conflict_hd (shift sr k) cf _ HRr) as HRc.
    repeat (cbn [app] in *; rewrite <- app_assoc in * ). cbn [app] in *.
    cbn [length] in Hlen. rewrite ?app_length in Hlen.
    set (Rr := returning_toks (shift sr k) ret ++ stop) in *.
    set (Rc := conflict_toks (shift sr k) cf ++ Rr) in *.
    unfold parse_insert. cbn [cur advance]. isT_conc. cbn iota. cbn [negb].
    assert (Hsrc_hd : forall Y, isT (cur (match src with
                                 | inl rows => Tk TyValues "VALUES" :: sep_by [tComma] (rows_toks (shift sr base) 0 rows)
                                 | inr q => render_query sr base q end ++ Y)) TyLParen = false
                           /\ isT (cur (match src with
                                 | inl rows => Tk TyValues "VALUES" :: sep_by [tComma] (rows_toks (shift sr base) 0 rows)
                                 | inr q => render_query sr base q end ++ Y)) TyPeriod = false).
    { intros Y. destruct src as [rows|q]; [split; reflexivity|]. rewrite render_query_flat. split; reflexivity. }
    rewrite qname_ok.
    2:{ destruct cols as [|c cl]; cbn [cols_toks app cur]; [apply (Hsrc_hd _)|reflexivity]. }
    cbn [rewrap bind].
    rewrite cols_list_ok by (apply (Hsrc_hd _)).
    cbn [bind].
    assert (HlenRc : length Rc < fuel).
    { subst Rc Rr. rewrite ?app_length in *. lia. }
    destruct (opt_conflict_ok (shift sr k) cf Rr d Hcf HRr) as (Hdup & Hconf); [lia|exact HlenRc|].
    fold Rc in Hdup, Hconf.
    assert (Hrest : (if isT (cur Rc) TyOn && String.eqb (upper (lit (peek Rc))) "DUPLICATE" then Unmodelled
                     else
                       do (oc, ts) <- (if isT (cur Rc) TyOn && String.eqb (upper (lit (peek Rc))) "CONFLICT" then
                                          do (c, ts1) <- parse_on_conflict pe d (advance (advance Rc)); Val (Some c, ts1)
                                        else Val (None, Rc));
                       do (ret0, ts0) <- parse_returning pe d ts;
                       Val (GInsert None (join_dot (p :: ps)) (map (fun c => GIdent c "") cols)
                              (match src with inl rows => map (map ast_of) rows | inr _ => [] end)
                              (match src with inl _ => None | inr q => Some (ast_of_query q) end) ret0 oc [], ts0))
                    = Val (GInsert None (join_dot (p :: ps)) (map (fun c => GIdent c "") cols)
                             (match src with inl rows => map (map ast_of) rows | inr _ => [] end)
                             (match src with inl _ => None | inr q => Some (ast_of_query q) end) (map ast_of ret)
                             (option_map ast_of_conflict cf) [], stop)).
    { rewrite Hdup, Hconf. cbn [bind]. subst Rr.
      rewrite returning_ok; [reflexivity|exact Hret|exact Hstop|lia|subst Rc; rewrite ?app_length in HlenRc; rewrite ?app_length; lia]. }
    destruct src as [rows|q].
    - apply andb_prop in Hsrc. destruct Hsrc as [Hrne Hrows].
      cbn [app cur advance]. isT_conc. cbn iota.
      cbn [length] in Hlen. rewrite ?app_length in Hlen.
      rewrite values_rows_ok; [|exact Hrows|destruct rows; [discriminate|discriminate]|exact HRc|lia
                               |subst Rc Rr; rewrite ?app_length; lia|subst Rc Rr; rewrite ?app_length; lia].
      cbn [bind]. exact Hrest.
    - assert (Hqf : query_follow Rc).
      { subst Rc. destruct cf as [c|]; cbn [conflict_toks app]; [eexists _, _; split; reflexivity|].
        subst Rr. unfold returning_toks, list_clause. destruct (exprs_toks (shift sr k) cl_returning 0 ret) as [|x xs].
        - cbn [app]. apply stmt_follow_query. exact Hstop.
        - cbn [app]. eexists _, _. split; reflexivity. }
      destruct (query_ok_parse sr q base Rc d Hsrc Hflag Hqf) as (tail & Etail & Hparse).
      { lia. }
      { subst Rc Rr. rewrite ?app_length. lia. }
      rewrite Etail. cbn [cur advance]. isT_conc. cbn iota.
      rewrite Hparse. cbn [bind]. exact Hrest.
  Qed.

  (* ---------------------------------------------------------------------------------------------- *)
  (* MERGE *)
  Definition Tw : list tty := TyWhen :: Tq.

  Lemma merge_alias_ok : forall kwt kws a X,
      malias_ok kws a = true -> tty_eqb TyIdent kwt = false -> tty_eqb kwt TyAs = false ->
      parse_merge_alias kwt kws (alias_toks a ++ Tk kwt kws :: X) = Val (alias_name a, Tk kwt kws :: X).
  Proof.
    intros kwt kws a X Hok Hi Ha. unfold parse_merge_alias.
    destruct a as [[[|] n]|]; cbn [alias_toks app cur advance alias_name malias_ok] in *.
    - isT_conc. cbn iota. unfold is_identifier. isT_conc. cbn [orb negb andb lit]. reflexivity.
    - unfold can_be_alias, is_identifier, isT. cbn [ty lit]. rewrite Hi, Hok. reflexivity.
    - unfold isT at 1. cbn [ty]. rewrite Ha.
      assert (Hk : isT (Tk kwt kws) kwt = true) by (unfold isT, tty_eqb; cbn [ty]; apply N.eqb_refl).
      rewrite Hk. cbn [negb andb]. rewrite andb_false_r. reflexivity.
  Qed.

  Lemma msets_sep_cons2 : forall (sr : srho) i c e x tl,
      sep_by [tComma] (msets_toks sr i ((c, e) :: x :: tl))
      = (mcol_toks c ++ Tk TyEq "=" :: render 0 (sr cl_mset i) e) ++ tComma :: sep_by [tComma] (msets_toks sr (S i) (x :: tl)).
  Proof. intros. destruct x. reflexivity. Qed.

  Definition ast_of_mset (ce : mcol * mexpr) : string * gexpr := (mcol_str (fst ce), ast_of (snd ce)).

  (* one SET clause of WHEN ... THEN UPDATE, followed by X *)
  Lemma merge_set_step : forall c e (r : rho) X d n acc,
      ref_expr e = true -> stops 0 (cur X) = true ->
      S d + pdepth 0 r e <= md -> length ((mcol_toks c ++ Tk TyEq "=" :: render 0 r e) ++ X) < fuel ->
      merge_set_list pe (S n) d acc ((mcol_toks c ++ Tk TyEq "=" :: render 0 r e) ++ X)
      = if isT (cur X) TyComma then merge_set_list pe n d (acc ++ [ast_of_mset (c, e)]) (advance X)
        else Val (acc ++ [ast_of_mset (c, e)], X).
  Proof.
    intros [[t|] nm] e r X d n acc Href HX Hdep Hlen; cbn [mcol_toks app] in *; rewrite <- ?app_assoc in *; cbn [app length] in *.
    - cbn [merge_set_list cur advance]. unfold is_identifier. isT_conc. cbn [orb negb andb lit]. cbn iota.
      cbn [cur advance]. isT_conc. cbn [orb negb andb lit]. cbn iota. cbn [bind cur advance]. isT_conc. cbn iota. cbn [negb].
      rewrite (pe_item md fuel); [|exact Href|exact HX|exact Hdep|lia].
      cbn [rewrap bind]. unfold ast_of_mset, mcol_str. cbn [fst snd]. reflexivity.
    - cbn [merge_set_list cur advance]. unfold is_identifier. isT_conc. cbn [orb negb andb lit]. cbn iota.
      cbn [bind cur advance]. isT_conc. cbn iota. cbn [negb].
      rewrite (pe_item md fuel); [|exact Href|exact HX|exact Hdep|lia].
      cbn [rewrap bind]. unfold ast_of_mset, mcol_str. cbn [fst snd]. reflexivity.
  Qed.

  Lemma merge_set_list_ok : forall l, forallb (fun ce : mcol * mexpr => ref_expr (snd ce)) l = true -> l <> [] ->
      forall (sr : srho) i d acc R n L,
        hd_in L R -> notin TyComma L = true ->
        S d + msets_depth sr i l <= md ->
        length (sep_by [tComma] (msets_toks sr i l) ++ R) < fuel ->
        length (sep_by [tComma] (msets_toks sr i l) ++ R) < n ->
        merge_set_list pe n d acc (sep_by [tComma] (msets_toks sr i l) ++ R) = Val (acc ++ map ast_of_mset l, R).
  Proof.
    induction l as [|[c e] tl IH]; intros Href Hne sr i d acc R n L HR HL Hdep Hlen Hn; [contradiction|].
    cbn [forallb snd] in Href. apply andb_prop in Href. destruct Href as [Hre Hrtl].
    cbn [msets_depth] in Hdep.
    destruct n as [|n]; [lia|].
    destruct tl as [|x tl'].
    - cbn [msets_toks sep_by] in *.
      rewrite merge_set_step; [|exact Hre|apply HR|lia|exact Hlen].
      rewrite (hd_isT L R TyComma HR HL). reflexivity.
    - rewrite msets_sep_cons2 in *. rewrite <- (app_assoc _ (tComma :: _) R) in *. cbn [app] in *.
      rewrite app_length in Hlen, Hn. cbn [length] in Hlen, Hn.
      rewrite merge_set_step; [|exact Hre|reflexivity|lia|rewrite app_length; cbn [length]; lia].
      cbn [cur advance]. change (isT tComma TyComma) with true. cbn iota.
      rewrite (IH Hrtl ltac:(discriminate) sr (S i) d (acc ++ [ast_of_mset (c, e)]) R n L HR HL); [|lia|lia|lia].
      rewrite <- app_assoc. reflexivity.
  Qed.

  Lemma ast_of_action_update : forall sets, ast_of_action (MaUpdate sets) = GAction "UPDATE" (map ast_of_mset sets) [] [] false.
  Proof. reflexivity. Qed.

  (* parseMergeAction *)
  Lemma merge_action_ok : forall a k (sr : srho) is_ iv d R,
      action_ok k a = true -> hd_in Tw R ->
      S d + action_depth sr is_ iv a <= md -> length (action_toks sr is_ iv a ++ R) < fuel ->
      parse_merge_action pe d (kind_str k) (action_toks sr is_ iv a ++ R) = Val (ast_of_action a, R).
  Proof.
    intros a k sr is_ iv d R Hok HR Hdep Hlen. unfold parse_merge_action.
    destruct a as [sets| |cols vals]; cbn [action_toks action_ok action_depth] in *.
    - apply andb_prop in Hok. destruct Hok as [Hok _]. apply andb_prop in Hok. destruct Hok as [Hne Href].
      cbn [app cur advance] in *. isT_conc. cbn iota. cbn [negb]. cbn [length] in Hlen.
      rewrite merge_set_list_ok with (L := Tw); [|exact Href|destruct sets; [discriminate|discriminate]|exact HR|reflexivity|exact Hdep|lia|lia].
      cbn [bind app]. rewrite ast_of_action_update. reflexivity.
    - cbn [app cur advance]. isT_conc. cbn iota.
      destruct k; [reflexivity|discriminate Hok|reflexivity].
    - apply andb_prop in Hok. destruct Hok as [Hvals Hk].
      destruct k; try discriminate Hk. cbn [kind_str]. cbn [app cur advance]. isT_conc. cbn iota.
      change (String.eqb "NOT_MATCHED" "MATCHED" || String.eqb "NOT_MATCHED" "NOT_MATCHED_BY_SOURCE") with false. cbn iota.
      rewrite <- app_assoc.
      rewrite cols_list_ok by (destruct vals; reflexivity).
      cbn [bind].
      destruct vals as [vs|]; cbn [app cur advance]; isT_conc; cbn iota; cbn [negb cur advance]; isT_conc; cbn iota; [|reflexivity].
      apply andb_prop in Hvals. destruct Hvals as [Hvne Hvref].
      assert (HRP : hd_in [TyRParen] (tRP :: R)) by (split; reflexivity).
      rewrite <- app_assoc. cbn [app].
      cbn [app length] in Hlen. rewrite !app_length in Hlen. cbn [length] in Hlen. rewrite !app_length in Hlen. cbn [length] in Hlen.
      rewrite (expr_list_ok md fuel vs Hvref ltac:(destruct vs; [discriminate|discriminate]) sr cl_mvals iv d [] (tRP :: R) _ [TyRParen] HRP eq_refl);
        [|exact Hdep|rewrite app_length; cbn [length]; lia|rewrite app_length; cbn [length]; lia].
      cbn [rewrap bind cur advance app]. isT_conc. cbn iota. reflexivity.
  Qed.

  (* parseMergeWhenClause *)
  Lemma merge_when_ok : forall w (sr : srho) k is_ iv d R,
      when_ok w = true -> hd_in Tw R ->
      S d + Nat.max (opt_depth (sr cl_mcond k) (wn_cond w)) (action_depth sr is_ iv (wn_action w)) <= md ->
      length (when_toks sr k is_ iv w ++ R) < fuel ->
      parse_merge_when pe d (when_toks sr k is_ iv w ++ R) = Val (ast_of_when w, R).
  Proof.
    intros [kd cond act] sr k is_ iv d R Hok HR Hdep Hlen. unfold when_ok in Hok. cbn [wn_kind wn_cond wn_action] in *.
    apply andb_prop in Hok. destruct Hok as [Hc Ha].
    unfold when_toks, ast_of_when in *. cbn [wn_kind wn_cond wn_action] in *.
    unfold parse_merge_when. cbn [app advance].
    assert (Hact : parse_merge_action pe d (kind_str kd) (action_toks sr is_ iv act ++ R) = Val (ast_of_action act, R)).
    { apply merge_action_ok; [exact Ha|exact HR|lia|].
      len_norm Hlen. rewrite app_length. lia. }
    assert (Hrest : forall Y, Y = opt_clause [Tk TyAnd "AND"] (render 0 (sr cl_mcond k)) cond ++ Tk TyThen "THEN" :: action_toks sr is_ iv act ++ R ->
               (do (cond0, ts) <- (if isT (cur Y) TyAnd then do (c, ts1) <- rewrap EInvalid (pe d (advance Y)); Val (Some c, ts1) else Val (None, Y));
                if negb (isT (cur ts) TyThen) then Err EExpected
                else do (a, ts1) <- parse_merge_action pe d (kind_str kd) (advance ts); Val (GWhen (kind_str kd) cond0 a, ts1))
               = Val (GWhen (kind_str kd) (option_map ast_of cond) (ast_of_action act), R)).
    { intros Y ->. destruct cond as [c|]; cbn [opt_clause app cur advance option_map optb opt_depth] in *.
      - isT_conc. cbn iota.
        rewrite (pe_item md fuel); [|exact Hc|reflexivity|lia|].
        + cbn [rewrap bind cur advance]. isT_conc. cbn iota. cbn [negb]. rewrite Hact. reflexivity.
        + len_norm Hlen. rewrite app_length. cbn [length]. rewrite app_length. lia.
      - isT_conc. cbn iota. cbn [bind cur advance]. isT_conc. cbn iota. cbn [negb]. rewrite Hact. reflexivity. }
    rewrite <- !app_assoc.
    destruct kd; cbn [kind_toks app cur advance lit kind_str] in *; isT_conc; cbn [orb]; cbn iota; cbn [negb andb cur advance]; isT_conc; cbn iota;
      cbn [negb andb cur advance bind].
    - apply Hrest. reflexivity.
    - assert (Hby : isT (cur (opt_clause [Tk TyAnd "AND"] (render 0 (sr cl_mcond k)) cond ++ Tk TyThen "THEN" :: action_toks sr is_ iv act ++ R)) TyBy = false)
        by (destruct cond; reflexivity).
      rewrite Hby. cbn [bind]. apply Hrest. reflexivity.
    - isT_conc. cbn iota. cbn [negb andb cur advance bind]. apply Hrest. reflexivity.
  Qed.

  Lemma whens_hd : forall (sr : srho) k is_ iv l stop, hd_in Tq stop -> hd_in Tw (whens_toks sr k is_ iv l ++ stop).
  Proof.
    intros sr k is_ iv l stop H. destruct l as [|w tl]; cbn [whens_toks app].
    - eapply hd_weaken; [exact H|unfold Tw; in_sub].
    - unfold when_toks. cbn [app]. split; reflexivity.
  Qed.

  Lemma merge_whens_ok : forall l, forallb when_ok l = true ->
      forall (sr : srho) k is_ iv d acc stop n,
        hd_in Tq stop ->
        S d + whens_depth sr k is_ iv l <= md ->
        length (whens_toks sr k is_ iv l ++ stop) < fuel ->
        length (whens_toks sr k is_ iv l ++ stop) < n ->
        merge_whens pe n d acc (whens_toks sr k is_ iv l ++ stop) = Val (acc ++ map ast_of_when l, stop).
  Proof.
    induction l as [|w tl IH]; intros Hok sr k is_ iv d acc stop n HR Hdep Hlen Hn; (destruct n as [|n]; [lia|]).
    - cbn [whens_toks app merge_whens map]. rewrite (hd_isT Tq stop TyWhen HR eq_refl). rewrite app_nil_r. reflexivity.
    - cbn [forallb] in Hok. apply andb_prop in Hok. destruct Hok as [Hw Htl].
      cbn [whens_toks whens_depth map] in *. rewrite <- app_assoc in *.
      rewrite app_length in Hlen, Hn.
      cbn [merge_whens].
      assert (Hh : isT (cur (when_toks sr k is_ iv w ++ whens_toks sr (S k) (is_ + action_sets (wn_action w)) (iv + action_vals (wn_action w)) tl ++ stop)) TyWhen = true)
        by reflexivity.
      rewrite Hh.
      rewrite merge_when_ok; [|exact Hw|apply whens_hd; exact HR|lia|rewrite app_length; lia].
      cbn [bind].
      assert (Hwl : 1 <= length (when_toks sr k is_ iv w)) by (unfold when_toks; cbn [length]; lia).
      rewrite IH; [|exact Htl|exact HR|lia|lia|lia].
      rewrite <- app_assoc. reflexivity.
  Qed.

  Lemma parse_merge_ok : forall (sr : srho) m stop d,
      merge_ok m = true -> stmt_follow stop ->
      S d + merge_depth sr m <= md ->
      length (merge_toks sr m ++ stop) <= fuel ->
      exists tail, merge_toks sr m ++ stop = Tk TyMerge "MERGE" :: tail /\ parse_merge pe d tail = Val (ast_of_merge m, stop).
  Proof.
    intros sr [into tg ta src sa on whens] stop d Hok Hstop Hdep Hlen.
    unfold merge_ok in Hok. cbn [mg_into mg_target mg_talias mg_source mg_salias mg_on mg_whens] in Hok.
    repeat (let H := fresh "Hk" in apply andb_prop in Hok; destruct Hok as [Hok H]).
    rename Hok into Htg. rename Hk4 into Hsrc. rename Hk3 into Hta. rename Hk2 into Hsa. rename Hk1 into Hon. rename Hk0 into Hwne. rename Hk into Hwhens.
    destruct tg as [|p ps]; [discriminate|]. destruct src as [|q qs]; [discriminate|].
    destruct (stmt_follow_hd stop Hstop) as [HR _].
    unfold merge_toks, merge_depth, ast_of_merge in *. cbn [mg_into mg_target mg_talias mg_source mg_salias mg_on mg_whens] in *.
    eexists. split; [cbn [app]; reflexivity|].
    repeat (cbn [app] in *; rewrite <- app_assoc in * ). cbn [app] in *.
    len_norm Hlen.
    set (W := whens_toks sr 0 0 0 whens ++ stop) in *.
    set (Ron := Tk TyOn "ON" :: render 0 (sr cl_mon 0) on ++ W) in *.
    set (Rus := Tk TyUsing "USING" :: path_toks (q :: qs) ++ alias_toks sa ++ Ron) in *.
    unfold parse_merge.
    assert (Hinto : (if isT (cur ((if into then [Tk TyInto "INTO"] else []) ++ path_toks (p :: ps) ++ alias_toks ta ++ Rus)) TyInto
                     then advance ((if into then [Tk TyInto "INTO"] else []) ++ path_toks (p :: ps) ++ alias_toks ta ++ Rus)
                     else (if into then [Tk TyInto "INTO"] else []) ++ path_toks (p :: ps) ++ alias_toks ta ++ Rus)
                    = path_toks (p :: ps) ++ alias_toks ta ++ Rus).
    { destruct into; cbn [app cur advance]; [reflexivity|]. rewrite path_head. reflexivity. }
    rewrite Hinto.
    rewrite qname_ok by (destruct ta as [[[|] n0]|]; reflexivity).
    cbn [rewrap bind]. subst Rus.
    rewrite merge_alias_ok; [|exact Hta|reflexivity|reflexivity].
    cbn [bind cur advance lit]. isT_conc. cbn [negb andb]. cbn iota.
    rewrite qname_ok by (destruct sa as [[[|] n0]|]; reflexivity).
    cbn [rewrap bind]. subst Ron.
    rewrite merge_alias_ok; [|exact Hsa|reflexivity|reflexivity].
    cbn [bind cur advance]. isT_conc. cbn iota. cbn [negb].
    pose proof (whens_hd sr 0 0 0 whens stop HR) as HW. fold W in HW.
    rewrite (pe_item md fuel); [|exact Hon|apply HW|lia|subst W; rewrite !app_length; lia].
    cbn [rewrap bind]. subst W.
    rewrite merge_whens_ok; [|exact Hwhens|exact HR|lia|rewrite app_length; lia|lia].
    cbn [bind app]. destruct whens as [|w0 wtl]; [discriminate Hwne|]. reflexivity.
  Qed.

  (* ---------------------------------------------------------------------------------------------- *)
  (* the statement after the optional WITH clause *)
  Definition main_dispatch (d : nat) (ts : list token) : sres gstmt :=
    if isT (cur ts) TySelect then parse_select_setops md sf pe d (advance ts)
    else if isT (cur ts) TyInsert then parse_insert md sf pe d (advance ts)
    else if isT (cur ts) TyUpdate then parse_update pe d (advance ts)
    else if isT (cur ts) TyDelete then parse_delete pe d (advance ts)
    else Err EExpected.

  Definition body_flag (b : mbody) : Prop :=
    d_no_alias_after_column sf = false \/
    match b with BQuery q => query_bare_alias_free q | BInsert _ _ (inr q) _ _ => query_bare_alias_free q | _ => true end = true.

  Definition not_merge (b : mbody) : Prop := match b with BMerge _ => False | _ => True end.

  Lemma body_ok_parse : forall (sr : srho) base b stop d,
      not_merge b -> body_ok b = true -> body_flag b -> stmt_follow stop ->
      d + body_depth sr base b <= md ->
      length (render_body sr base b ++ stop) <= fuel ->
      main_dispatch d (render_body sr base b ++ stop) = Val (ast_of_stmt (MkStmt None b), stop)
      /\ isT (cur (render_body sr base b ++ stop)) TyWith = false
      /\ isT (cur (render_body sr base b ++ stop)) TyComma = false.
  Proof.
    intros sr base b stop d Hnm Hok Hflag Hstop Hdep Hlen. unfold main_dispatch, ast_of_stmt. cbn [st_with st_body ast_of_with option_map].
    destruct b as [q|t cols src cf ret|t sets wh ret|t wh ret|m]; [| | | |contradiction Hnm].
    - cbn [body_ok body_depth render_body] in *.
      destruct (query_ok_parse sr q base stop d Hok) as (tail & Etail & Hparse);
        [destruct Hflag as [Hf|Hb]; [left; exact Hf|right; exact Hb]|apply stmt_follow_query; exact Hstop|lia|exact Hlen|].
      rewrite Etail. cbn [cur advance]. isT_conc. cbn iota. split; [exact Hparse|split; reflexivity].
    - destruct (parse_insert_ok sr base t cols src cf ret stop d Hok) as (tail & Etail & Hparse);
        [destruct src as [rows|q]; [exact I|destruct Hflag as [Hf|Hb]; [left; exact Hf|right; exact Hb]]|exact Hstop|exact Hdep|exact Hlen|].
      rewrite Etail. cbn [cur advance]. isT_conc. cbn iota. split; [|split; reflexivity].
      rewrite Hparse. destruct src; reflexivity.
    - cbn [body_ok body_depth render_body] in *.
      repeat (apply andb_prop in Hok; destruct Hok as [Hok ?]).
      cbn [app cur advance]. isT_conc. cbn iota. split; [|split; reflexivity].
      rewrite <- !app_assoc. cbn [app]. rewrite <- !app_assoc.
      rewrite parse_update_ok; [reflexivity|assumption| |assumption|assumption|assumption|exact Hstop|cbn [shift] in *; lia|].
      + destruct sets; [discriminate|discriminate].
      + cbn [app length] in Hlen. rewrite <- !app_assoc in Hlen. cbn [app] in Hlen. rewrite <- !app_assoc in Hlen. lia.
    - cbn [body_ok body_depth render_body] in *.
      repeat (apply andb_prop in Hok; destruct Hok as [Hok ?]).
      cbn [app cur advance]. isT_conc. cbn iota. split; [|split; reflexivity].
      rewrite <- !app_assoc.
      rewrite parse_delete_ok; [reflexivity|assumption|assumption|assumption|exact Hstop|cbn [shift] in *; lia|].
      cbn [app length] in Hlen. rewrite <- !app_assoc in Hlen. cbn [length]. lia.
  Qed.

  Lemma set_with_body : forall w b, set_with w (ast_of_stmt (MkStmt None b)) = ast_of_stmt_w (Some w) b.
  Proof.
    intros w b. unfold ast_of_stmt, ast_of_stmt_w. cbn [st_with st_body ast_of_with option_map].
    destruct b as [q|t cols src cf ret|t sets wh ret|t wh ret|m]; [|reflexivity|reflexivity|reflexivity|reflexivity].
    change (ast_of_query_w None q) with (ast_of_query q). apply set_with_query.
  Qed.

  Lemma parse_stmt_ok_nm : forall (sr : srho) w b stop d,
      not_merge b ->
      stmt_ok (MkStmt w b) = true -> (d_no_alias_after_column sf = false \/ stmt_bare_alias_free (MkStmt w b) = true) ->
      stmt_follow stop ->
      d + stmt_depth sr (MkStmt w b) <= md ->
      length (render_stmt sr (MkStmt w b) ++ stop) <= fuel ->
      parse_statement md sf pe d (render_stmt sr (MkStmt w b) ++ stop) = Val (ast_of_stmt (MkStmt w b), stop).
  Proof.
    intros sr w b stop d Hnm Hok Hflag Hstop Hdep Hlen.
    unfold stmt_ok in Hok. cbn [st_with st_body] in Hok. apply andb_prop in Hok. destruct Hok as [Hok _]. apply andb_prop in Hok. destruct Hok as [Hw Hb].
    unfold stmt_depth in Hdep. cbn [st_with st_body] in Hdep.
    unfold render_stmt in *. cbn [st_with st_body] in *.
    assert (Hbf : body_flag b).
    { destruct Hflag as [Hf|Hf]; [left; exact Hf|right]. unfold stmt_bare_alias_free in Hf. cbn [st_with st_body] in Hf.
      apply andb_prop in Hf. destruct Hf as [_ Hf]. exact Hf. }
    destruct w as [[rc ctes]|].
    - cbn [with_toks with_size w_rec w_ctes with_ok] in *. apply andb_prop in Hw. destruct Hw as [Hcne Hctes].
      repeat (cbn [app] in *; rewrite <- app_assoc in * ). cbn [app] in *.
      destruct (body_ok_parse sr (ctes_size ctes) b stop d Hnm Hb Hbf Hstop) as (Hmain & HnW & HnC).
      { lia. }
      { cbn [length] in Hlen. rewrite ?app_length in Hlen. rewrite ?app_length. lia. }
      unfold parse_statement. cbn [cur]. isT_conc. cbn iota.
      unfold parse_with. cbn [advance].
      assert (Hcf : ctes_flag ctes).
      { destruct Hflag as [Hf|Hf]; [left; exact Hf|right]. unfold stmt_bare_alias_free in Hf. cbn [st_with st_body w_ctes] in Hf.
        apply andb_prop in Hf. destruct Hf as [Hf _]. exact Hf. }
      assert (Hchd : forall Y, isT (cur (sep_by [tComma] (ctes_toks sr 0 ctes) ++ Y)) TyRecursive = false).
      { intros Y. destruct ctes as [|c [|c2 tl]]; [discriminate| |]; cbn [ctes_toks sep_by]; unfold cte_toks; reflexivity. }
      cbn [length] in Hlen. rewrite !app_length in Hlen.
      assert (Hbase : forall l base0, ctes_size l + base0 = base0 + ctes_size l) by (intros; lia).
      destruct rc; cbn [app cur advance]; isT_conc; cbn iota; rewrite ?Hchd.
      all: rewrite cte_list_ok; [|exact Hctes|destruct ctes; [discriminate|discriminate]|exact Hcf|exact HnC|lia
                                 |rewrite !app_length; cbn [length] in *; lia|rewrite !app_length; lia].
      all: cbn [bind app].
      all: match goal with |- context [rewrap EInvalid ?X] =>
             replace X with (Val (ast_of_stmt (MkStmt None b), stop) : sres gstmt) by (symmetry; exact Hmain) end; cbn [rewrap bind].
      all: rewrite set_with_body; reflexivity.
    - cbn [with_toks with_size app] in *.
      destruct (body_ok_parse sr 0 b stop d Hnm Hb Hbf Hstop) as (Hmain & HnW & HnC); [lia|exact Hlen|].
      unfold parse_statement. rewrite HnW.
      unfold main_dispatch in Hmain.
      destruct (isT (cur (render_body sr 0 b ++ stop)) TySelect); [exact Hmain|].
      destruct (isT (cur (render_body sr 0 b ++ stop)) TyInsert); [exact Hmain|].
      destruct (isT (cur (render_body sr 0 b ++ stop)) TyUpdate); [exact Hmain|].
      destruct (isT (cur (render_body sr 0 b ++ stop)) TyDelete); [exact Hmain|discriminate Hmain].
  Qed.

  Theorem parse_stmt_ok : forall (sr : srho) s stop d,
      stmt_ok s = true -> (d_no_alias_after_column sf = false \/ stmt_bare_alias_free s = true) ->
      stmt_follow stop ->
      d + stmt_depth sr s <= md ->
      length (render_stmt sr s ++ stop) <= fuel ->
      parse_statement md sf pe d (render_stmt sr s ++ stop) = Val (ast_of_stmt s, stop).
  Proof.
    intros sr [w b] stop d Hok Hflag Hstop Hdep Hlen.
    destruct b as [q|t cols src cf ret|t sets wh ret|t wh ret|m];
      [apply parse_stmt_ok_nm; [exact I|assumption..] | apply parse_stmt_ok_nm; [exact I|assumption..]
      | apply parse_stmt_ok_nm; [exact I|assumption..] | apply parse_stmt_ok_nm; [exact I|assumption..] | ].
    (* MERGE: no WITH clause *)
    unfold stmt_ok in Hok. cbn [st_with st_body] in Hok. apply andb_prop in Hok. destruct Hok as [Hok Hnw]. apply andb_prop in Hok. destruct Hok as [_ Hm].
    destruct w as [w|]; [discriminate Hnw|]. cbn [body_ok] in Hm.
    unfold stmt_depth in Hdep. unfold render_stmt, ast_of_stmt in *. cbn [st_with st_body with_toks with_size app body_depth render_body ast_of_with option_map ast_of_stmt_w] in *.
    destruct (parse_merge_ok (shift sr 0) m stop d Hm Hstop) as (tail & Etail & Hparse); [lia|exact Hlen|].
    rewrite Etail. unfold parse_statement. cbn [cur advance]. isT_conc. cbn iota. exact Hparse.
  Qed.
End Stmts.

Theorem parse_render_stmt :
  forall md sf fuel (sr : srho) s stop d,
    stmt_ok s = true -> (d_no_alias_after_column sf = false \/ stmt_bare_alias_free s = true) ->
    stmt_follow stop ->
    d + stmt_depth sr s <= md ->
    length (render_stmt sr s ++ stop) <= fuel ->
    parse_statement md sf (parse_expression md no_defects fuel) d (render_stmt sr s ++ stop) = Val (ast_of_stmt s, stop).
Proof. intros. apply parse_stmt_ok; assumption. Qed.

(* non-vacuity of the statement theorem *)
Example ex_stmt_with_parse :
  parse_statement_top tree_flags (render_stmt (fun _ _ => no_parens) ex_stmt_with ++ [Tk TyEOF ""])
  = Val (ast_of_stmt ex_stmt_with, [Tk TyEOF ""]).
Proof. vm_compute. reflexivity. Qed.
Example ex_stmt_insert_parse :
  parse_statement_top tree_flags (render_stmt (fun _ _ => no_parens) ex_stmt_insert ++ [Tk TyEOF ""])
  = Val (ast_of_stmt ex_stmt_insert, [Tk TyEOF ""]).
Proof. vm_compute. reflexivity. Qed.
Example ex_stmt_merge_parse :
  parse_statement_top tree_flags (render_stmt (fun _ _ => no_parens) ex_stmt_merge ++ [Tk TyEOF ""])
  = Val (ast_of_stmt ex_stmt_merge, [Tk TyEOF ""]).
Proof. vm_compute. reflexivity. Qed.
(* a grouping set written without parentheses that is not a column reference (PostgreSQL accepts any expression): the
   parser takes the opening parenthesis of `( a + b ) * c` for the parenthesis of a set and rejects the statement *)
Example gs_bare_expression_rejected :
  let s := MkSelect false [] [IExpr (MIdent false "a") None] [MkTable ["t"] None] [] None
             [GrSets [GsBare (MBin BMul (MBin BAdd (MIdent false "a") (MIdent false "b")) (MIdent false "c"))]] None [] None None None None in
  map lit (render_select (fun _ _ => no_parens) s)
  = ["SELECT"; "a"; "FROM"; "t"; "GROUP"; "BY"; "GROUPING SETS"; "("; "("; "a"; "+"; "b"; ")"; "*"; "c"; ")"]
  /\ parse_statement_top tree_flags (render_select (fun _ _ => no_parens) s ++ [Tk TyEOF ""]) = Err EExpected.
Proof. split; vm_compute; reflexivity. Qed.
Example stmt_follow_eof : stmt_follow [Tk TyEOF ""].
Proof. eexists _, _. split; reflexivity. Qed.
