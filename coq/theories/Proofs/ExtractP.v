(* ExtractP.v — the extraction model returns exactly the names the reference statement wrote. *)
From Coq Require Import List String Ascii NArith Bool Arith Lia.
From GV Require Import Model.Walk Model.QAst Model.Extract Model.QRef Proofs.QAstP.
Import ListNotations.
Local Open Scope string_scope.
Local Open Scope list_scope.

Definition set_eq {A} (a b : list A) : Prop := forall x, In x a <-> In x b.

Lemma set_eq_refl {A} (a : list A) : set_eq a a.
Proof. intro x. tauto. Qed.

(* ---- strings ---- *)
Lemma str_eqb_eq a b : str_eqb a b = true <-> a = b.
Proof. apply String.eqb_eq. Qed.

Lemma smem_In x l : smem x l = true <-> In x l.
Proof.
  unfold smem. rewrite existsb_exists. split.
  - intros [y [Hy E]]. apply str_eqb_eq in E. subst. exact Hy.
  - intros H. exists x. split; [exact H|]. apply str_eqb_eq. reflexivity.
Qed.

Lemma dedup_In x l : In x (dedup l) <-> In x l.
Proof.
  induction l as [|y r IH]; cbn; [tauto|].
  destruct (smem y r) eqn:E.
  - rewrite IH. split; [tauto|]. intros [H|H]; [subst; apply smem_In; exact E|exact H].
  - cbn. rewrite IH. tauto.
Qed.

Lemma dedup_NoDup l : NoDup (dedup l).
Proof.
  induction l as [|y r IH]; cbn; [constructor|].
  destruct (smem y r) eqn:E; [exact IH|].
  constructor; [|exact IH]. rewrite dedup_In. intro H. apply smem_In in H. congruence.
Qed.

Lemma nonempty_empty : nonempty "" = false.
Proof. reflexivity. Qed.

Lemma split_dot_aux_dotfree s : forall cur, dotfree s = true -> split_dot_aux s cur = [(cur ++ s)%string].
Proof.
  induction s as [|c r IH]; intros cur H; cbn.
  - f_equal. induction cur; cbn; [reflexivity|f_equal; assumption].
  - cbn in H. apply andb_prop in H. destruct H as [Hc Hr].
    destruct (Ascii.eqb c ".") eqn:E; [discriminate|].
    rewrite IH by exact Hr. f_equal.
    clear. induction cur; cbn; [reflexivity|f_equal; assumption].
Qed.

Lemma split_last_dot_dotfree s : dotfree s = true -> split_last_dot s = ("", s).
Proof.
  intros H. unfold split_last_dot, split_dot. rewrite split_dot_aux_dotfree by exact H. reflexivity.
Qed.

Lemma name_col_ok (n : name) : col_ok (nstr n) = true.
Proof. pose proof (nok n) as H. unfold name_ok in H. apply andb_prop in H. tauto. Qed.
Lemma name_dotfree (n : name) : dotfree (nstr n) = true.
Proof. pose proof (nok n) as H. unfold name_ok in H. apply andb_prop in H. tauto. Qed.
Lemma name_nonempty (n : name) : nonempty (nstr n) = true.
Proof. pose proof (name_col_ok n) as H. unfold col_ok in H. apply andb_prop in H. tauto. Qed.

Lemma filter_col_ok_names (l : list name) : filter col_ok (map nstr l) = map nstr l.
Proof. induction l as [|n r IH]; cbn; [reflexivity|]. rewrite name_col_ok, IH. reflexivity. Qed.

Lemma names_of_app a b : names_of (a ++ b) = names_of a ++ names_of b.
Proof. unfold names_of. rewrite map_app, filter_app. reflexivity. Qed.

Arguments col_ok : simpl never.
Arguments nonempty : simpl never.

Lemma names_of_one t : names_of [t] = if nonempty (q_name t) then [q_name t] else [].
Proof. unfold names_of. cbn. reflexivity. Qed.
Lemma names_of_cons t r : names_of (t :: r) = names_of [t] ++ names_of r.
Proof. change (t :: r) with ([t] ++ r). apply names_of_app. Qed.
Arguments names_of : simpl never.

Lemma kind_eqb_eq a b : kind_eqb a b = true -> a = b.
Proof. destruct a, b; cbn; try discriminate; try reflexivity. intros H. apply N.eqb_eq in H. subst. reflexivity. Qed.
Lemma slot_eqb_eq a b : slot_eqb a b = true -> a = b.
Proof. destruct a, b; cbn; try discriminate; try reflexivity. intros H. apply N.eqb_eq in H. subst. reflexivity. Qed.

Section Exact.
  Variable em : kind -> slot -> bool.
  Hypothesis em_ok : em_covers em = true.

  Lemma em_all k s : existsb (edge_eqb (k, s)) modelled_edges = true -> em k s = true.
  Proof.
    intros H. apply existsb_exists in H. destruct H as [[k' s'] [Hin E]].
    unfold edge_eqb in E. cbn [fst snd] in E. apply andb_prop in E. destruct E as [Ek Es].
    apply kind_eqb_eq in Ek. apply slot_eqb_eq in Es. subst.
    unfold em_covers in em_ok. rewrite forallb_forall in em_ok. exact (em_ok (k', s') Hin).
  Qed.

  Ltac em_rw := repeat match goal with |- context [em ?k ?s] => rewrite (em_all k s eq_refl) end.

  (* what the traversal of a tree contributes, all analyses together *)
  Definition C (t : qn) : list item := flat_map loc_item (qwalk em t).
  Arguments C : simpl never.

  Lemma C_node k a kids :
    C (QN k a kids) =
    loc_item (QN k a kids) ++
    flat_map (fun sk : slot * list qn => if em k (fst sk) then flat_map C (snd sk) else []) kids.
  Proof. unfold C. apply collect_node. Qed.

  Ltac node := rewrite C_node; cbn [flat_map fst snd]; em_rw.

  Lemma C_shared : C (QN KShared noA []) = [].
  Proof. rewrite C_node. reflexivity. Qed.

  Lemma C_wrap_alias e al : C (wrap_alias e al) = C e.
  Proof.
    unfold wrap_alias. destruct (nonempty al); [|reflexivity].
    node. cbn. rewrite !app_nil_r. reflexivity.
  Qed.

  Lemma C_ob_wrap l : flat_map C (map ob_wrap l) = flat_map C l.
  Proof.
    induction l as [|e r IH]; cbn [map flat_map]; [reflexivity|]. rewrite IH. f_equal.
    unfold ob_wrap. node. cbn. rewrite !app_nil_r. reflexivity.
  Qed.

  Lemma C_wrap_with l : flat_map C (wrap_with l) = flat_map C l.
  Proof.
    destruct l as [|c r]; [reflexivity|]. unfold wrap_with. cbn [flat_map].
    node. cbn. rewrite !app_nil_r. reflexivity.
  Qed.

  Lemma C_shared_copy_tref t : C (shared_copy (ast_tref t)) = [].
  Proof.
    destruct t as [n al|s al]; cbn [ast_tref shared_copy map fst snd].
    - rewrite C_node. reflexivity.
    - node. rewrite C_shared. reflexivity.
  Qed.

  (* the keys of an index are IndexColumn nodes holding a plain string: whether or not Children() returns them,
     they contribute nothing *)
  Lemma C_index_keys (keys : list name) : flat_map C (map (fun k => QN KIndexCol (nameA (nstr k)) []) keys) = [].
  Proof.
    induction keys as [|k r IH]; cbn [map flat_map]; [reflexivity|]. rewrite IH, C_node. reflexivity.
  Qed.

  Ltac fin :=
    let x := fresh "x" in
    intro x;
    repeat match goal with H : set_eq _ _ |- _ => specialize (H x) end;
    repeat (progress (repeat rewrite ?map_app, ?names_of_app, ?in_app_iff in *; cbn [In map fst snd] in * )); tauto.

  (* the per-sort statements of the mutual induction *)
  Definition P_expr (e : mexpr) := set_eq (C (ast_expr e)) (items_expr e).
  Definition P_exprs (l : mexprs) := set_eq (flat_map C (ast_exprs l)) (items_exprs l).
  Definition P_whens (l : mwhens) := set_eq (flat_map C (ast_whens l)) (items_whens l).
  Definition P_opt (o : mopt) := set_eq (flat_map C (ast_opt o)) (items_opt o).
  Definition P_items (l : mitems) := set_eq (flat_map C (ast_items l)) (items_items l).
  Definition P_tref (t : mtref) :=
    set_eq (C (ast_tref t) ++ map ITable (names_of [ast_tref t])) (items_tref t).
  Definition P_trefs (l : mtrefs) :=
    set_eq (flat_map C (ast_trefs l) ++ map ITable (names_of (ast_trefs l))) (items_trefs l).
  Definition P_joins (l : mjoins) := forall first i,
    flat_map C (map shared_copy first) = [] ->
    set_eq (flat_map C (ast_joins first i l) ++
            map ITable (names_of (flat_map (kids_of SRight) (ast_joins first i l)))) (items_joins l).
  Definition P_ctes (l : mctes) := set_eq (flat_map C (ast_ctes l)) (items_ctes l).
  Definition P_assigns (l : massigns) := set_eq (flat_map C (ast_assigns l)) (items_assigns l).
  Definition P_sets (l : msets) := set_eq (flat_map C (ast_sets l)) (items_sets l).
  Definition P_mwhens (l : mmwhens) := set_eq (flat_map C (ast_mwhens l)) (items_mwhens l).
  Definition P_colcons (l : mcolcons) := set_eq (flat_map C (ast_colcons l)) (items_colcons l).
  Definition P_coldefs (l : mcoldefs) := set_eq (flat_map C (ast_coldefs l)) (items_coldefs l).
  Definition P_tabcons (l : mtabcons) := set_eq (flat_map C (ast_tabcons l)) (items_tabcons l).
  Definition P_stmt (s : mstmt) := set_eq (C (ast_stmt s)) (items s).

  (* whichever FROM item the join list attaches to, its shared copy contributes nothing *)
  Lemma trefs_shared (from : mtrefs) : forall f, In f (ast_trefs from) -> C (shared_copy f) = [].
  Proof.
    induction from as [|t r IH]; cbn [ast_trefs In]; [tauto|].
    intros f [E|H]; [subst; apply C_shared_copy_tref|apply IH; exact H].
  Qed.
  Lemma join_left_incl (l : list qn) f : In f (join_left l) -> In f l.
  Proof.
    unfold join_left. destruct (rev l) as [|x r] eqn:E; [intros []|].
    intros [H|[]]. subst. apply in_rev. rewrite E. left. reflexivity.
  Qed.
  Lemma shared_join_left (from : mtrefs) : flat_map C (map shared_copy (join_left (ast_trefs from))) = [].
  Proof.
    assert (H := join_left_incl (ast_trefs from)).
    unfold join_left in *. destruct (rev (ast_trefs from)) as [|x r]; [reflexivity|].
    cbn [map flat_map]. rewrite (trefs_shared from x); [reflexivity|]. apply H. left. reflexivity.
  Qed.

  Theorem items_exact_all :
    (forall e, P_expr e) /\ (forall l, P_exprs l) /\ (forall l, P_whens l) /\ (forall o, P_opt o) /\
    (forall l, P_items l) /\ (forall t, P_tref t) /\ (forall l, P_trefs l) /\ (forall l, P_joins l) /\
    (forall l, P_ctes l) /\ (forall l, P_assigns l) /\ (forall l, P_sets l) /\ (forall l, P_mwhens l) /\
    (forall l, P_colcons l) /\ (forall l, P_coldefs l) /\ (forall l, P_tabcons l) /\
    (forall s, P_stmt s).
  Proof.
    apply mgrammar_ind;
      unfold P_expr, P_exprs, P_whens, P_opt, P_items, P_tref, P_trefs, P_joins, P_ctes, P_assigns, P_sets,
             P_mwhens, P_colcons, P_coldefs, P_tabcons, P_stmt; intros.
    (* mexpr *)
    - (* MCol *) cbn [ast_expr items_expr]. rewrite C_node. cbn. unfold identA. cbn. rewrite name_col_ok. fin.
    - (* MStar *) cbn [ast_expr items_expr]. rewrite C_node. cbn. fin.
    - (* MLit *) cbn [ast_expr items_expr]. rewrite C_node. cbn. fin.
    - (* MBin *) cbn [ast_expr items_expr]. node. cbn. fin.
    - (* MUn *) cbn [ast_expr items_expr]. node. cbn. fin.
    - (* MFunc *) cbn [ast_expr items_expr]. node. cbn. rewrite name_nonempty. fin.
    - (* MCase *) cbn [ast_expr items_expr]. node. cbn. fin.
    - (* MIn *) cbn [ast_expr items_expr]. node. cbn. fin.
    - (* MInSub *) cbn [ast_expr items_expr]. node. cbn. fin.
    - (* MBetween *) cbn [ast_expr items_expr]. node. cbn. fin.
    - (* MExists *) cbn [ast_expr items_expr]. node. cbn. fin.
    - (* MSub *) cbn [ast_expr items_expr]. node. cbn. fin.
    - (* MCast *) cbn [ast_expr items_expr]. node. cbn. fin.
    - (* MNiladic *) cbn [ast_expr items_expr]. unfold ast_niladic, items_niladic. rewrite C_node. cbn. rewrite name_nonempty. fin.
    (* mexprs *)
    - cbn. fin.
    - cbn [ast_exprs items_exprs flat_map]. fin.
    (* mwhens *)
    - cbn. fin.
    - cbn [ast_whens items_whens flat_map]. node. cbn. fin.
    (* mopt *)
    - cbn. fin.
    - cbn [ast_opt items_opt flat_map]. fin.
    (* mitems *)
    - cbn. fin.
    - cbn [ast_items items_items flat_map]. rewrite C_wrap_alias. fin.
    (* mtref *)
    - cbn [ast_tref items_tref]. rewrite C_node. cbn. rewrite names_of_one. cbn. rewrite (tok n). fin.
    - cbn [ast_tref items_tref]. node. cbn. rewrite names_of_one. cbn. rewrite nonempty_empty. fin.
    (* mtrefs *)
    - cbn. fin.
    - cbn [ast_trefs items_trefs flat_map].
      rewrite (names_of_cons (ast_tref t)). fin.
    (* mjoins *)
    - cbn. fin.
    - rename H2 into Hfirst. cbn [ast_joins items_joins flat_map].
      specialize (H1 first (S i) Hfirst).
      node.
      assert (HL : flat_map C match i with
                                | O => map shared_copy first
                                | S _ => [QN KTableRef (nameA (synthetic_left match first with f :: _ => q_name f | [] => "" end i)) []]
                                end = []).
      { destruct i; [exact Hfirst|]. cbn [flat_map]. rewrite C_node. reflexivity. }
      rewrite HL. cbn.
      rewrite (names_of_cons (ast_tref t)).
      fin.
    (* mctes *)
    - cbn. fin.
    - cbn [ast_ctes items_ctes flat_map]. node. cbn. fin.
    (* massigns *)
    - cbn. fin.
    - cbn [ast_assigns items_assigns flat_map]. node. cbn. fin.
    (* msets *)
    - cbn. fin.
    - cbn [ast_sets items_sets flat_map]. node. cbn.
      rewrite (split_last_dot_dotfree _ (name_dotfree col)). cbn. rewrite name_col_ok. fin.
    (* mmwhens *)
    - cbn. fin.
    - cbn [ast_mwhens items_mwhens flat_map]. node.
      node. cbn. fin.
    - cbn [ast_mwhens items_mwhens flat_map]. node.
      node. cbn. rewrite filter_col_ok_names, !map_map. cbn. fin.
    - cbn [ast_mwhens items_mwhens flat_map]. node.
      rewrite C_node. cbn. fin.
    (* mcolcons *)
    - cbn. fin.
    - cbn [ast_colcons items_colcons flat_map]. rewrite C_node. cbn. fin.
    - cbn [ast_colcons items_colcons flat_map]. node. cbn. fin.
    - cbn [ast_colcons items_colcons flat_map]. node. cbn. fin.
    (* mcoldefs *)
    - cbn. fin.
    - cbn [ast_coldefs items_coldefs flat_map]. node. cbn. fin.
    (* mtabcons *)
    - cbn. fin.
    - cbn [ast_tabcons items_tabcons flat_map]. rewrite C_node. cbn. fin.
    - cbn [ast_tabcons items_tabcons flat_map]. node. cbn. fin.
    (* mstmt *)
    - (* MSelect *) cbn [ast_stmt items]. node.
      rewrite C_wrap_with, C_ob_wrap.
      assert (HJ := H2 (join_left (ast_trefs from)) 0%nat).
      assert (Hsh : flat_map C (map shared_copy (join_left (ast_trefs from))) = []).
      { apply shared_join_left. }
      specialize (HJ Hsh). clear H2 Hsh.
      cbn. rewrite !app_nil_r. fin.
    - (* MSetOp *) cbn [ast_stmt items]. node. cbn. fin.
    - (* MInsertV *) cbn [ast_stmt items]. node. rewrite C_wrap_with.
      cbn. rewrite names_of_one. cbn. rewrite (tok t). fin.
    - (* MInsertQ *) cbn [ast_stmt items]. node. rewrite C_wrap_with.
      cbn. rewrite names_of_one. cbn. rewrite (tok t). fin.
    - (* MUpdate *) cbn [ast_stmt items]. node. rewrite C_wrap_with.
      cbn. rewrite names_of_one. cbn. rewrite (tok t). rewrite ?app_nil_r. fin.
    - (* MDelete *) cbn [ast_stmt items]. node. rewrite C_wrap_with.
      cbn. rewrite names_of_one. cbn. rewrite (tok t). rewrite ?app_nil_r. fin.
    - (* MMerge *) cbn [ast_stmt items]. node. cbn. rewrite !app_nil_r. fin.
    - (* MCreateView *) cbn [ast_stmt items]. node. cbn. rewrite !app_nil_r. fin.
    - (* MCreateMView *) cbn [ast_stmt items]. node. cbn. rewrite !app_nil_r. fin.
    - (* MCreateIndex *) cbn [ast_stmt items]. node. rewrite C_index_keys.
      destruct (em KCreateIndex SColumns); cbn; rewrite ?app_nil_r; fin.
    - (* MCreateTable *) cbn [ast_stmt items]. node. cbn. rewrite !app_nil_r. fin.
    - (* MExplain *) cbn [ast_stmt items]. node. cbn. rewrite !app_nil_r. fin.
  Qed.

  Theorem items_exact : forall s, set_eq (C (ast_stmt s)) (items s).
  Proof. apply items_exact_all. Qed.

  (* ---- projections: each collector sees its own class of items ---- *)
  Lemma loc_item_table x n : In (ITable x) (loc_item n) <-> In x (table_names n).
  Proof.
    unfold loc_item. rewrite !in_app_iff, !in_map_iff. split.
    - intros [[y [E H]]|[[y [E H]]|[y [E H]]]]; try discriminate. injection E as E. subst. exact H.
    - intros H. left. exists x. split; [reflexivity|exact H].
  Qed.
  Lemma loc_item_col q x n : In (ICol q x) (loc_item n) <-> In (q, x) (col_refs n).
  Proof.
    unfold loc_item. rewrite !in_app_iff, !in_map_iff. split.
    - intros [[y [E H]]|[[[y1 y2] [E H]]|[y [E H]]]]; try discriminate. cbn in E. injection E as E1 E2. subst. exact H.
    - intros H. right. left. exists (q, x). split; [reflexivity|exact H].
  Qed.
  Lemma loc_item_func x n : In (IFunc x) (loc_item n) <-> In x (func_names n).
  Proof.
    unfold loc_item. rewrite !in_app_iff, !in_map_iff. split.
    - intros [[y [E H]]|[[y [E H]]|[y [E H]]]]; try discriminate. injection E as E. subst. exact H.
    - intros H. right. right. exists x. split; [reflexivity|exact H].
  Qed.

  Lemma In_C i t : In i (C t) <-> exists n, In n (qwalk em t) /\ In i (loc_item n).
  Proof. unfold C. apply in_flat_map. Qed.

  Lemma collect_one {A} (loc : qn -> list A) t : collect em loc [t] = flat_map loc (qwalk em t).
  Proof. unfold collect. cbn. apply app_nil_r. Qed.

  Lemma tables_C x t : In x (collect em table_names [t]) <-> In (ITable x) (C t).
  Proof.
    rewrite collect_one, in_flat_map, In_C. split; intros [n [Hn H]]; exists n; (split; [exact Hn|]); apply loc_item_table; exact H.
  Qed.
  Lemma qcols_C q x t : In (q, x) (collect em qcol_names [t]) <-> In (ICol q x) (C t).
  Proof.
    rewrite collect_one, in_flat_map, In_C. unfold qcol_names.
    split; intros [n [Hn H]]; exists n; (split; [exact Hn|]); apply loc_item_col; exact H.
  Qed.
  Lemma cols_C x t : In x (collect em col_names [t]) <-> exists q, In (ICol q x) (C t).
  Proof.
    rewrite collect_one, in_flat_map. unfold col_names. split.
    - intros [n [Hn H]]. apply in_map_iff in H. destruct H as [[q y] [E H]]. cbn in E. subst.
      exists q. apply In_C. exists n. split; [exact Hn|]. apply loc_item_col. exact H.
    - intros [q H]. apply In_C in H. destruct H as [n [Hn H]]. exists n. split; [exact Hn|].
      apply in_map_iff. exists (q, x). split; [reflexivity|]. apply loc_item_col. exact H.
  Qed.
  Lemma funcs_C x t : In x (collect em func_names [t]) <-> In (IFunc x) (C t).
  Proof.
    rewrite collect_one, in_flat_map, In_C. split; intros [n [Hn H]]; exists n; (split; [exact Hn|]); apply loc_item_func; exact H.
  Qed.

  Lemma written_tables x s : In x (tables_written s) <-> In (ITable x) (items s).
  Proof.
    unfold tables_written. rewrite in_flat_map. split.
    - intros [i [Hi H]]. destruct i; cbn in H; try tauto. destruct H as [H|[]]. subst. exact Hi.
    - intros H. exists (ITable x). split; [exact H|left; reflexivity].
  Qed.
  Lemma written_qcols q x s : In (q, x) (qcolumns_written s) <-> In (ICol q x) (items s).
  Proof.
    unfold qcolumns_written. rewrite in_flat_map. split.
    - intros [i [Hi H]]. destruct i; cbn in H; try tauto. destruct H as [H|[]]. injection H as H1 H2. subst. exact Hi.
    - intros H. exists (ICol q x). split; [exact H|left; reflexivity].
  Qed.
  Lemma written_cols x s : In x (columns_written s) <-> exists q, In (ICol q x) (items s).
  Proof.
    unfold columns_written. rewrite in_flat_map. split.
    - intros [i [Hi H]]. destruct i; cbn in H; try tauto. destruct H as [H|[]]. subst. exists q. exact Hi.
    - intros [q H]. exists (ICol q x). split; [exact H|left; reflexivity].
  Qed.
  Lemma written_funcs x s : In x (functions_written s) <-> In (IFunc x) (items s).
  Proof.
    unfold functions_written. rewrite in_flat_map. split.
    - intros [i [Hi H]]. destruct i; cbn in H; try tauto. destruct H as [H|[]]. subst. exact Hi.
    - intros H. exists (IFunc x). split; [exact H|left; reflexivity].
  Qed.

  (* ---- C15: exactness of the five extraction functions on the prescribed tree of every statement ---- *)
  Theorem tables_exact : forall s, set_eq (extract_tables em [ast_stmt s]) (tables_written s).
  Proof.
    intros s x. unfold extract_tables. rewrite dedup_In, tables_C, written_tables. apply items_exact.
  Qed.
  Theorem columns_exact : forall s, set_eq (extract_columns em [ast_stmt s]) (columns_written s).
  Proof.
    intros s x. unfold extract_columns. rewrite dedup_In, cols_C, written_cols.
    split; intros [q H]; exists q; apply items_exact; exact H.
  Qed.
  Theorem functions_exact : forall s, set_eq (extract_functions em [ast_stmt s]) (functions_written s).
  Proof.
    intros s x. unfold extract_functions. rewrite dedup_In, funcs_C, written_funcs. apply items_exact.
  Qed.

  (* the qualified variants: one result per distinct QualifiedName.String() key, nothing that was not written,
     everything that was written (with its qualifier split off by addTable / kept by addColumn) *)
  Lemma kdedup_incl l q : In q (kdedup l) -> In q l.
  Proof.
    induction l as [|y r IH]; cbn [kdedup In]; [tauto|].
    destruct (existsb _ r); [intros H; right; apply IH; exact H|].
    cbn [In]. intros [H|H]; [left; exact H|right; apply IH; exact H].
  Qed.
  Lemma kdedup_key l : forall x, In x l -> exists q, In q (kdedup l) /\ qname_string q = qname_string x.
  Proof.
    induction l as [|y r IH]; cbn [kdedup In]; [tauto|]. intros x [H|H].
    - subst. destruct (existsb _ r) eqn:E.
      + apply existsb_exists in E. destruct E as [z [Hz E]]. apply str_eqb_eq in E.
        destruct (IH z Hz) as [q [Hq Eq]]. exists q. split; [exact Hq|congruence].
      + exists x. split; [left; reflexivity|reflexivity].
    - destruct (IH x H) as [q [Hq Eq]]. exists q. split; [|exact Eq].
      destruct (existsb _ r); [exact Hq|right; exact Hq].
  Qed.
  Lemma kdedup_NoDup l : NoDup (map qname_string (kdedup l)).
  Proof.
    induction l as [|y r IH]; cbn [kdedup map]; [constructor|].
    destruct (existsb _ r) eqn:E; [exact IH|].
    cbn [map]. constructor; [|exact IH]. intros H. apply in_map_iff in H. destruct H as [z [Ez Hz]].
    apply kdedup_incl in Hz.
    assert (existsb (fun y0 => str_eqb (qname_string y) (qname_string y0)) r = true).
    { apply existsb_exists. exists z. split; [exact Hz|]. apply str_eqb_eq. congruence. }
    congruence.
  Qed.

  Theorem tables_qualified_exact : forall s,
    (forall q, In q (extract_tables_qualified em [ast_stmt s]) -> In q (map add_table (tables_written s))) /\
    (forall n, In n (tables_written s) ->
               exists q, In q (extract_tables_qualified em [ast_stmt s]) /\ qname_string q = qname_string (add_table n)).
  Proof.
    intros s. unfold extract_tables_qualified. split.
    - intros q H. apply kdedup_incl in H. apply in_map_iff in H. destruct H as [n [E H]].
      apply in_map_iff. exists n. split; [exact E|]. apply written_tables. apply items_exact. apply tables_C. exact H.
    - intros n H. apply kdedup_key. apply in_map. apply tables_C. apply items_exact. apply written_tables. exact H.
  Qed.
  Theorem columns_qualified_exact : forall s,
    (forall q, In q (extract_columns_qualified em [ast_stmt s]) -> In q (map add_column (qcolumns_written s))) /\
    (forall c, In c (qcolumns_written s) ->
               exists q, In q (extract_columns_qualified em [ast_stmt s]) /\ qname_string q = qname_string (add_column c)).
  Proof.
    intros s. unfold extract_columns_qualified. split.
    - intros q H. apply kdedup_incl in H. apply in_map_iff in H. destruct H as [[t n] [E H]].
      apply in_map_iff. exists (t, n). split; [exact E|]. apply written_qcols. apply items_exact. apply qcols_C. exact H.
    - intros [t n] H. apply kdedup_key. apply in_map. apply qcols_C. apply items_exact. apply written_qcols. exact H.
  Qed.

  (* aliases, the synthetic "(x_with_n_joins)" names, literals and keywords are never reported: whatever is
     reported was written in a table / column / function position *)
  Theorem no_alias_no_synthetic : forall s,
    (forall x, In x (extract_tables em [ast_stmt s]) -> In x (tables_written s)) /\
    (forall x, In x (extract_columns em [ast_stmt s]) -> In x (columns_written s)) /\
    (forall x, In x (extract_functions em [ast_stmt s]) -> In x (functions_written s)).
  Proof.
    intros s. split; [|split]; intros x H; [apply tables_exact|apply columns_exact|apply functions_exact]; exact H.
  Qed.
End Exact.

(* ---- results are duplicate-free, for every tree ---- *)
Theorem extract_nodup em stmts :
  NoDup (extract_tables em stmts) /\ NoDup (extract_columns em stmts) /\ NoDup (extract_functions em stmts) /\
  NoDup (map qname_string (extract_tables_qualified em stmts)) /\
  NoDup (map qname_string (extract_columns_qualified em stmts)).
Proof.
  repeat split; try apply dedup_NoDup; apply kdedup_NoDup.
Qed.

(* ---- EXPLAIN q before /repo kept the query in the tree: nothing of q was extracted ---- *)
Definition ex_explained : mstmt :=
  MSelect CNil (ICons (MFunc (mkName "UPPER" eq_refl) (ECons (MCol "" (mkName "b" eq_refl)) ENil)) "" INil)
          (TCons (TName (mkT "s1.users" eq_refl) "u") TNil) JNil ONone ENil ONone ENil.
Theorem explain_names_dropped em :
  exists q t c f,
    In t (tables_written (MExplain q)) /\ In c (columns_written (MExplain q)) /\ In f (functions_written (MExplain q)) /\
    extract_tables em [explain_pinned] = [] /\ extract_columns em [explain_pinned] = [] /\
    extract_functions em [explain_pinned] = [].
Proof.
  exists ex_explained, "s1.users", "b", "UPPER".
  repeat split; try (cbn; tauto);
    unfold extract_tables, extract_columns, extract_functions, collect, explain_pinned; cbn; reflexivity.
Qed.

(* ---- cost: one visit per node (repaired form) vs. doubling per nested set operation (pinned form) ---- *)
Theorem collect_visits_linear em stmts : visits em stmts <= list_sum (map qsize stmts).
Proof.
  unfold visits, collect. induction stmts as [|t r IH]; [cbn; lia|].
  cbn [flat_map map]. rewrite app_length. simpl list_sum.
  assert (H : List.length (flat_map (fun t0 => [t0]) (qwalk em t)) = List.length (qwalk em t)).
  { generalize (qwalk em t). intros l. induction l; cbn; [reflexivity|f_equal; assumption]. }
  rewrite H. pose proof (qwalk_linear em t). lia.
Qed.

Theorem collect_visits_exponential_refuted em :
  em KSetOp SLeft = true -> forall k, 2 ^ k <= visits_pinned em (union_chain k).
Proof.
  intros Hem k. induction k as [|k IH].
  - cbn. lia.
  - cbn [union_chain visits_pinned map list_sum fst snd explicit_pinned]. rewrite Hem.
    simpl list_sum. rewrite Nat.pow_succ_r'. lia.
Qed.
