(* FileReplP.v — lemmas about Model/FileRepl.v: frame properties of the system calls, crash points of a
   concatenated protocol, atomicity of every protocol of the temp+rename shape, failure of the
   truncate-then-write shape. *)
From Coq Require Import List NArith Bool Arith Lia.
From GV Require Import Model.FileRepl.
Import ListNotations.

(* ---- the association list ---------------------------------------------------------------------- *)

Lemma lookup_remove_eq : forall p s, lookup p (fs_remove p s) = None.
Proof.
  intros p s. induction s as [|[q f] r IH]; cbn [fs_remove lookup]; [reflexivity|].
  destruct (N.eqb q p) eqn:E; [exact IH|]. cbn [lookup]. rewrite E. exact IH.
Qed.

Lemma lookup_remove_neq : forall p q s, p <> q -> lookup p (fs_remove q s) = lookup p s.
Proof.
  intros p q s Hne. induction s as [|[x f] r IH]; cbn [fs_remove lookup]; [reflexivity|].
  destruct (N.eqb x q) eqn:E.
  - apply N.eqb_eq in E. subst x. destruct (N.eqb q p) eqn:E2.
    + apply N.eqb_eq in E2. congruence.
    + exact IH.
  - cbn [lookup]. destruct (N.eqb x p); [reflexivity|exact IH].
Qed.

Lemma lookup_set_eq : forall p f s, lookup p (fs_set p f s) = Some f.
Proof. intros. unfold fs_set. cbn [lookup]. rewrite N.eqb_refl. reflexivity. Qed.

Lemma lookup_set_neq : forall p q f s, p <> q -> lookup p (fs_set q f s) = lookup p s.
Proof.
  intros p q f s Hne. unfold fs_set. cbn [lookup].
  destruct (N.eqb q p) eqn:E; [apply N.eqb_eq in E; congruence|].
  apply lookup_remove_neq. exact Hne.
Qed.

Lemma lookup_put_eq : forall p o s, lookup p (fs_put p o s) = o.
Proof. intros p [f|] s; cbn [fs_put]; [apply lookup_set_eq|apply lookup_remove_eq]. Qed.

Lemma lookup_put_neq : forall p q o s, p <> q -> lookup p (fs_put q o s) = lookup p s.
Proof. intros p q [f|] s H; cbn [fs_put]; [apply lookup_set_neq|apply lookup_remove_neq]; exact H. Qed.

Lemma lookup_put_same : forall p q s, lookup p (fs_put q (lookup q s) s) = lookup p s.
Proof.
  intros p q s. destruct (N.eq_dec p q) as [->|Hne].
  - apply lookup_put_eq.
  - apply lookup_put_neq. exact Hne.
Qed.

(* ---- frame: a call that does not touch t leaves t alone ---------------------------------------- *)

Lemma neqb_neq : forall a b, N.eqb a b = false -> b <> a.
Proof. intros a b H E. subst. rewrite N.eqb_refl in H. discriminate. Qed.

Lemma do_step_frame : forall t st s, touches t st = false -> lookup t (do_step st s) = lookup t s.
Proof.
  intros t st s H.
  destruct st; cbn [touches step_path] in H; cbn [do_step step_path file_step];
    try (apply lookup_put_neq; apply neqb_neq; exact H);
    try (apply lookup_put_same).
  (* Rename *)
  apply orb_false_elim in H. destruct H as [Ha Hb].
  destruct (lookup src s) as [f|]; [|reflexivity].
  destruct (N.eqb src dst); [reflexivity|].
  rewrite lookup_set_neq by (apply neqb_neq; exact Hb).
  apply lookup_remove_neq. apply neqb_neq. exact Ha.
Qed.

Lemma do_step_on_path : forall st s, is_rename st = false ->
  lookup (step_path st) (do_step st s) = file_step st (lookup (step_path st) s).
Proof.
  intros st s H. destruct st; try discriminate H; cbn [do_step]; apply lookup_put_eq.
Qed.

Lemma do_step_off_path : forall p st s, is_rename st = false -> p <> step_path st ->
  lookup p (do_step st s) = lookup p s.
Proof.
  intros p st s H Hne. destruct st; try discriminate H; cbn [do_step]; apply lookup_put_neq; exact Hne.
Qed.

Lemma run_app : forall a b s, run (a ++ b) s = run b (run a s).
Proof. intros. unfold run. apply fold_left_app. Qed.

Lemma run_cons : forall st l s, run (st :: l) s = run l (do_step st s).
Proof. reflexivity. Qed.

Lemma inert_run : forall t l s, inert t l = true -> lookup t (run l s) = lookup t s.
Proof.
  intros t l. induction l as [|st r IH]; intros s H; [reflexivity|].
  cbn [inert forallb] in H. apply andb_true_iff in H. destruct H as [H1 H2].
  rewrite run_cons. rewrite (IH _ H2). apply do_step_frame.
  apply negb_true_iff. exact H1.
Qed.

Lemma inert_app : forall t a b, inert t (a ++ b) = inert t a && inert t b.
Proof. intros. unfold inert. apply forallb_app. Qed.

Lemma inert_firstn : forall t l i, inert t l = true -> inert t (firstn i l) = true.
Proof.
  intros t l. induction l as [|st r IH]; intros i H; destruct i; try reflexivity.
  cbn [firstn inert forallb] in *. apply andb_true_iff in H. destruct H as [H1 H2].
  rewrite H1. exact (IH i H2).
Qed.

Lemma inert_partial : forall t st k, touches t st = false -> inert t (partial st k) = true.
Proof.
  intros t st k H. destruct st; try reflexivity.
  cbn [partial inert forallb touches step_path] in *. rewrite H. reflexivity.
Qed.

Lemma inert_nth : forall t l i st, inert t l = true -> nth_error l i = Some st -> touches t st = false.
Proof.
  intros t l. induction l as [|x r IH]; intros i st H Hn; destruct i; try discriminate Hn;
    cbn [inert forallb] in H; apply andb_true_iff in H; destruct H as [H1 H2].
  - cbn in Hn. inversion Hn; subst. apply negb_true_iff. exact H1.
  - exact (IH i st H2 Hn).
Qed.

Lemma inert_crash : forall t l i k s, inert t l = true -> lookup t (crash_at l i k s) = lookup t s.
Proof.
  intros t l i k s H. unfold crash_at.
  destruct (nth_error l i) as [st|] eqn:En.
  - rewrite inert_run by (apply inert_partial; exact (inert_nth _ _ _ _ H En)).
    apply inert_run. apply inert_firstn. exact H.
  - apply inert_run. apply inert_firstn. exact H.
Qed.

(* ---- crash points of a concatenation ----------------------------------------------------------- *)

Lemma crash_at_app_l : forall pre l i k s, i < length pre -> crash_at (pre ++ l) i k s = crash_at pre i k s.
Proof.
  intros pre l i k s Hi. unfold crash_at.
  rewrite firstn_app. replace (i - length pre) with 0 by lia. cbn [firstn]. rewrite app_nil_r.
  rewrite nth_error_app1 by exact Hi. reflexivity.
Qed.

Lemma crash_at_app_r : forall pre l j k s,
  crash_at (pre ++ l) (length pre + j) k s = crash_at l j k (run pre s).
Proof.
  intros pre l j k s. unfold crash_at.
  rewrite firstn_app. replace (length pre + j - length pre) with j by lia.
  rewrite firstn_all2 by lia. rewrite run_app.
  rewrite nth_error_app2 by lia. replace (length pre + j - length pre) with j by lia. reflexivity.
Qed.

Lemma crash_at_cons_S : forall st l j k s, crash_at (st :: l) (S j) k s = crash_at l j k (do_step st s).
Proof. intros. exact (crash_at_app_r [st] l j k s). Qed.

(* ---- the staged file ---------------------------------------------------------------------------- *)

Lemma staged_sound : forall src pre s, no_rename_of src pre = true ->
  lookup src (run pre s) = staged src pre (lookup src s).
Proof.
  intros src pre. induction pre as [|st r IH]; intros s H; [reflexivity|].
  cbn [no_rename_of forallb] in H. apply andb_true_iff in H. destruct H as [H1 H2].
  rewrite run_cons. rewrite (IH _ H2). cbn [staged]. f_equal.
  destruct (is_rename st) eqn:Er.
  - rewrite andb_false_r. destruct st; try discriminate Er.
    apply do_step_frame. cbn [touches]. apply negb_true_iff. exact H1.
  - rewrite andb_true_r. destruct (N.eqb (step_path st) src) eqn:Ep.
    + apply N.eqb_eq in Ep. subst src. apply do_step_on_path. exact Er.
    + apply do_step_off_path; [exact Er|]. apply neqb_neq in Ep. exact Ep.
Qed.

Lemma split_commit_sound : forall t l pre src post,
  split_commit t l = Some (pre, src, post) -> l = pre ++ Rename src t :: post.
Proof.
  intros t l. induction l as [|st r IH]; intros pre src post H; [discriminate H|].
  destruct st; cbn [split_commit] in H;
    try (destruct (split_commit t r) as [[[p0 s0] q0]|]; [|discriminate H];
         inversion H; subst; cbn [app]; f_equal; apply IH; reflexivity).
  destruct (N.eqb dst t) eqn:E.
  - apply N.eqb_eq in E. inversion H; subst. reflexivity.
  - destruct (split_commit t r) as [[[p0 s0] q0]|]; [|discriminate H].
    inversion H; subst. cbn [app]. f_equal. apply IH. reflexivity.
Qed.

Lemma bytes_eqb_eq : forall a b, bytes_eqb a b = true -> a = b.
Proof.
  induction a as [|x a IH]; intros [|y b] H; try reflexivity;
    unfold bytes_eqb in H; cbn [length] in H; apply andb_true_iff in H; destruct H as [Hl Hc];
    try (apply Nat.eqb_eq in Hl; discriminate Hl).
  cbn [combine forallb fst snd] in Hc. apply andb_true_iff in Hc. destruct Hc as [Hx Hr].
  apply N.eqb_eq in Hx. subst y. f_equal. apply IH. unfold bytes_eqb.
  apply Nat.eqb_eq in Hl. injection Hl as Hl. rewrite Hl, Nat.eqb_refl. exact Hr.
Qed.

(* ---- atomicity of the temp+rename shape, semantic form ------------------------------------------ *)

Theorem commit_atomic : forall t src pre post s fold fnew,
  inert t pre = true -> inert t post = true -> src <> t ->
  lookup t s = Some fold ->
  lookup src (run pre s) = Some fnew ->
  (forall i k, lookup t (crash_at (pre ++ Rename src t :: post) i k s) = Some fold \/
               lookup t (crash_at (pre ++ Rename src t :: post) i k s) = Some fnew) /\
  lookup t (run (pre ++ Rename src t :: post) s) = Some fnew.
Proof.
  intros t src pre post s fold fnew Hpre Hpost Hne Hold Hnew.
  assert (Hcommit : lookup t (do_step (Rename src t) (run pre s)) = Some fnew).
  { cbn [do_step]. rewrite Hnew. destruct (N.eqb src t) eqn:E; [apply N.eqb_eq in E; congruence|].
    apply lookup_set_eq. }
  split.
  - intros i k. destruct (Nat.lt_ge_cases i (length pre)) as [Hi|Hi].
    + left. rewrite crash_at_app_l by exact Hi. rewrite inert_crash by exact Hpre. exact Hold.
    + replace i with (length pre + (i - length pre)) by lia. rewrite crash_at_app_r.
      destruct (i - length pre) as [|j].
      * left. unfold crash_at. cbn [firstn nth_error partial run fold_left].
        rewrite inert_run by exact Hpre. exact Hold.
      * right. rewrite crash_at_cons_S. rewrite inert_crash by exact Hpost. exact Hcommit.
  - rewrite run_app, run_cons. rewrite inert_run by exact Hpost. exact Hcommit.
Qed.

Definition commit_src (t : path) (proto : list step) : option path :=
  match split_commit t proto with Some (_, src, _) => Some src | None => None end.

(* every protocol accepted by the decidable shape check is atomic, for every initial file system in which
   the target exists and the temporary name is free *)
Theorem shape_atomic : forall t new proto s fold,
  atomic_shapeb t new proto = true ->
  lookup t s = Some fold ->
  (forall src, commit_src t proto = Some src -> lookup src s = None) ->
  (forall i k, content t (crash_at proto i k s) = Some (f_data fold) \/
               content t (crash_at proto i k s) = Some new) /\
  content t (run proto s) = Some new.
Proof.
  intros t new proto s fold Hshape Hold Hfree.
  unfold atomic_shapeb in Hshape. unfold commit_src in Hfree.
  destruct (split_commit t proto) as [[[pre src] post]|] eqn:Es; [|discriminate Hshape].
  apply split_commit_sound in Es. subst proto.
  repeat (apply andb_true_iff in Hshape; destruct Hshape as [Hshape ?]).
  destruct (staged src pre None) as [fnew|] eqn:Est; [|discriminate].
  assert (Hsrc : lookup src (run pre s) = Some fnew).
  { rewrite staged_sound by assumption. rewrite (Hfree src eq_refl). exact Est. }
  assert (Hne : src <> t).
  { intro E. subst. rewrite N.eqb_refl in Hshape. discriminate Hshape. }
  match goal with Hb : bytes_eqb _ _ = true |- _ => apply bytes_eqb_eq in Hb; rename Hb into Hdata end.
  destruct (commit_atomic t src pre post s fold fnew) as [Hall Hfin]; try assumption.
  unfold content. split.
  - intros i k. destruct (Hall i k) as [E|E]; rewrite E; cbn [option_map]; [left|right]; congruence.
  - rewrite Hfin. cbn [option_map]. congruence.
Qed.

(* a protocol that never touches t leaves t as it was at every crash point *)
Theorem untouched_keeps : forall t proto s,
  untouched_shapeb t proto = true ->
  forall i k, lookup t (crash_at proto i k s) = lookup t s.
Proof. intros t proto s H i k. apply inert_crash. exact H. Qed.

(* ---- the canonical temp+rename protocol, for every old and new content --------------------------- *)

Lemma pwrite_0_nil : forall d, pwrite 0 d [] = d.
Proof. intros [|x d]; [reflexivity|]. unfold pwrite. cbn. rewrite app_nil_r. reflexivity. Qed.

Lemma atomic_pre_inert : forall t tmp new m, tmp <> t ->
  inert t [CreateExcl tmp 384; WriteAt tmp 0 new; Chmod tmp m; Fsync tmp; Close tmp] = true.
Proof.
  intros t tmp new m H. cbn [inert forallb touches step_path].
  assert (E : N.eqb tmp t = false) by (apply N.eqb_neq; exact H). rewrite E. reflexivity.
Qed.

Lemma atomic_pre_staged : forall tmp new m s, lookup tmp s = None ->
  lookup tmp (run [CreateExcl tmp 384; WriteAt tmp 0 new; Chmod tmp m; Fsync tmp; Close tmp] s)
  = Some (mkFile new m).
Proof.
  intros tmp new m s H. rewrite staged_sound by reflexivity. rewrite H.
  cbn [staged step_path is_rename]. rewrite N.eqb_refl. cbn [andb negb file_step f_data f_mode].
  rewrite pwrite_0_nil. reflexivity.
Qed.

Theorem replace_atomic : forall t tmp new m s fold,
  tmp <> t -> lookup t s = Some fold -> lookup tmp s = None ->
  forall i k, content t (crash_at (atomic_proto t tmp new m) i k s) = Some (f_data fold) \/
              content t (crash_at (atomic_proto t tmp new m) i k s) = Some new.
Proof.
  intros t tmp new m s fold Hne Hold Hfree i k.
  destruct (commit_atomic t tmp [CreateExcl tmp 384; WriteAt tmp 0 new; Chmod tmp m; Fsync tmp; Close tmp] []
              s fold (mkFile new m)) as [Hall _];
    [apply atomic_pre_inert; exact Hne|reflexivity|exact Hne|exact Hold|apply atomic_pre_staged; exact Hfree|].
  unfold content, atomic_proto. destruct (Hall i k) as [E|E]; cbn [app] in E; rewrite E; [left|right]; reflexivity.
Qed.

Theorem replace_success : forall t tmp new m s fold,
  tmp <> t -> lookup t s = Some fold -> lookup tmp s = None ->
  lookup t (run (atomic_proto t tmp new m) s) = Some (mkFile new m) /\
  lookup tmp (run (atomic_proto t tmp new m) s) = None.
Proof.
  intros t tmp new m s fold Hne Hold Hfree.
  destruct (commit_atomic t tmp [CreateExcl tmp 384; WriteAt tmp 0 new; Chmod tmp m; Fsync tmp; Close tmp] []
              s fold (mkFile new m)) as [_ Hfin];
    [apply atomic_pre_inert; exact Hne|reflexivity|exact Hne|exact Hold|apply atomic_pre_staged; exact Hfree|].
  split; [exact Hfin|].
  change (atomic_proto t tmp new m) with
    ([CreateExcl tmp 384; WriteAt tmp 0 new; Chmod tmp m; Fsync tmp; Close tmp] ++ [Rename tmp t]).
  rewrite run_app.
  set (s1 := run [CreateExcl tmp 384; WriteAt tmp 0 new; Chmod tmp m; Fsync tmp; Close tmp] s).
  assert (H1 : lookup tmp s1 = Some (mkFile new m)) by (apply atomic_pre_staged; exact Hfree).
  change (run [Rename tmp t] s1) with (do_step (Rename tmp t) s1). cbn [do_step]. rewrite H1.
  destruct (N.eqb tmp t) eqn:E; [apply N.eqb_eq in E; congruence|].
  rewrite lookup_set_neq by exact Hne. apply lookup_remove_eq.
Qed.

(* a write failing after k bytes, then the clean-up: the target is the old file at every crash point of
   the failing run, and once the clean-up has run the temporary file is gone *)
Theorem replace_write_failure : forall t tmp new m s fold k,
  tmp <> t -> lookup t s = Some fold -> lookup tmp s = None ->
  (forall j k', lookup t (crash_at (fail_run (atomic_proto t tmp new m) (atomic_cleanup tmp) 1 k) j k' s) = Some fold) /\
  lookup tmp (run (fail_run (atomic_proto t tmp new m) (atomic_cleanup tmp) 1 k) s) = None.
Proof.
  intros t tmp new m s fold k Hne Hold Hfree.
  assert (E : N.eqb tmp t = false) by (apply N.eqb_neq; exact Hne).
  split.
  - intros j k'. rewrite inert_crash; [exact Hold|].
    cbn [fail_run atomic_proto atomic_cleanup firstn nth_error partial app inert forallb touches step_path].
    rewrite E. reflexivity.
  - rewrite staged_sound by reflexivity. rewrite Hfree.
    cbn [fail_run atomic_proto atomic_cleanup firstn nth_error partial app staged step_path is_rename].
    rewrite N.eqb_refl. reflexivity.
Qed.

(* ---- truncate-then-write ------------------------------------------------------------------------- *)

(* killed (or failed) after k bytes of the write: the file holds exactly the first k bytes of the new content *)
Theorem writefile_crash_prefix : forall t new m s fold k,
  lookup t s = Some fold ->
  content t (crash_at (trunc_proto t new m) 1 k s) = Some (firstn k new).
Proof.
  intros t new m s fold k Hold. unfold crash_at, trunc_proto, content.
  cbn [firstn nth_error partial]. rewrite <- run_app. cbn [app].
  rewrite staged_sound by reflexivity. rewrite Hold.
  cbn [staged step_path is_rename]. rewrite N.eqb_refl. cbn [andb negb file_step option_map f_data f_mode].
  rewrite pwrite_0_nil. reflexivity.
Qed.

Theorem writefile_refuted : exists (old new : bytes) (i k : nat),
  let s := [(1%N, mkFile old 420)] in
  content 1%N s = Some old /\
  content 1%N (crash_at (trunc_proto 1%N new 420) i k s) <> Some old /\
  content 1%N (crash_at (trunc_proto 1%N new 420) i k s) <> Some new.
Proof.
  exists [1%N; 2%N], [3%N; 4%N], 1, 1. cbn. repeat split; discriminate.
Qed.

(* any protocol whose first call on t truncates it has a crash point at which t is empty *)
Theorem trunc_shape_loses_old : forall t proto s fold,
  trunc_shapeb t proto = true -> lookup t s = Some fold ->
  exists i, content t (run (firstn i proto) s) = Some [].
Proof.
  intros t proto. induction proto as [|st r IH]; intros s fold H Hold; [discriminate H|].
  cbn [trunc_shapeb] in H. destruct (touches t st) eqn:Et.
  - destruct st; try discriminate H. cbn [touches step_path] in Et. apply N.eqb_eq in Et. subst p.
    exists 1. cbn [firstn run fold_left do_step step_path file_step]. unfold content.
    rewrite lookup_put_eq. rewrite Hold. reflexivity.
  - destruct (IH (do_step st s) fold H) as [i Hi].
    + rewrite do_step_frame by exact Et. exact Hold.
    + exists (S i). cbn [firstn]. rewrite run_cons. exact Hi.
Qed.
