From Coq Require Import List NArith Bool Lia.
From GV Require Import Gen.LexTables Model.Lexer Spec.LexSpec Proofs.LexerP.
