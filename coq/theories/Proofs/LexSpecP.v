From Coq Require Import List NArith Bool Lia Arith.
From GV Require Import Gen.LexTables Model.Lexer Inst.Inst_C04 Spec.LexSpec Proofs.LexerP.
Import ListNotations.
Local Open Scope N_scope.

(* LexSpecP.v — munch lemmas against the reference lexical grammar Spec/LexSpec.v.
   Staged: the operator and punctuation class is done (every operator of the grammar except the bare '@' and the
   '$' forms); words, numbers, quoted literals and dollar quoting have no munch lemma yet. *)
Lemma munch_punct1 b ty : In (b, ty) punct1 ->
  forall bs tl i, next_token bs (b :: tl, i) = Val ((ty, [b], 0), (tl, i + 1)).
Proof.
  intros H bs tl i. cbn in H.
  repeat (destruct H as [H|H]; [injection H as <- <-; unfold next_token; cbn [fst]; rewrite decode_ascii by lia;
    match goal with |- context [is_ident_start ?x] => replace (is_ident_start x) with false by (vm_compute; reflexivity) end;
    match goal with |- context [is_digit ?x] => replace (is_digit x) with false by (vm_compute; reflexivity) end;
    match goal with |- context [is_unicode_quote ?x] => replace (is_unicode_quote x) with false by (vm_compute; reflexivity) end;
    match goal with |- context [is_single_quote_family ?x] => replace (is_single_quote_family x) with false by (vm_compute; reflexivity) end;
    cbn [N.eqb Pos.eqb orb]; unfold read_punctuation; cbn [N.eqb Pos.eqb]; reflexivity |]).
  contradiction.
Qed.

Ltac dispatch_punct :=
  unfold next_token; cbn [fst app]; rewrite decode_ascii by lia;
  match goal with |- context [is_ident_start ?x] => replace (is_ident_start x) with false by (vm_compute; reflexivity) end;
  match goal with |- context [is_digit ?x] => replace (is_digit x) with false by (vm_compute; reflexivity) end;
  match goal with |- context [is_unicode_quote ?x] => replace (is_unicode_quote x) with false by (vm_compute; reflexivity) end;
  match goal with |- context [is_single_quote_family ?x] => replace (is_single_quote_family x) with false by (vm_compute; reflexivity) end;
  cbn [N.eqb Pos.eqb orb]; unfold read_punctuation.

Ltac kill x :=
  repeat match goal with
         | |- context [N.eqb x ?k] =>
             let E := fresh in destruct (N.eqb x k) eqn:E;
             [apply N.eqb_eq in E; subst x; exfalso; cbn in *; tauto |]
         end.

Lemma munch_op v ty forb : In (v, ty, forb) optable ->
  forall bs r i, follow_free forb r -> next_token bs (v ++ r, i) = Val ((ty, v, 0), (r, i + N.of_nat (length v))).
Proof.
  intros H bs r i FF. cbn in H.
  repeat (destruct H as [H|H];
          [injection H as <- <- <-; dispatch_punct; unfold adv, nxt, is_b, op;
           destruct r as [|x r']; cbn [fst snd skipn N.eqb Pos.eqb length app] in *;
           try kill x;
           match goal with |- Val (_, (_, ?p)) = Val (_, (_, ?p')) => replace p with p' by (cbn; lia) end; reflexivity |]).
  contradiction.
Qed.
