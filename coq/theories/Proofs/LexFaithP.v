(* LexFaithP.v — lex_faithful: the loop of Tokenize run on the text of a well-formed lexeme sequence with separators
   returns exactly the reading the reference grammar prescribes (raw tokens with byte spans, one end marker at the end
   of the text, the comments in order with exact text, style, span and inline flag); after splitting two-word
   keywords the kind/value/quote sequence is map tok_norm of the lexemes.  Corollaries: layout independence, keyword
   case independence, the token limit as an equivalence. *)
From Coq Require Import List NArith Bool Lia Arith ZifyN ZifyBool.
From GV Require Import Gen.LexTables Model.Lexer Inst.Inst_C04 Spec.LexSpec Proofs.LexerP Proofs.LexSpecP Proofs.LexUtf8P
  Proofs.LexSepP Proofs.LexMunchP Proofs.LexWordP.
Import ListNotations.
Local Open Scope N_scope.

(* ---------------------------------------------------------------------------------------------- *)
(* one reading step at any lexeme *)
Lemma munch_all l : is_word l = false -> munches l.
Proof.
  destruct l; cbn [is_word]; intros H; try discriminate H.
  - apply munch_LOp.
  - apply munch_LAt.
  - apply munch_LDollarSign.
  - apply munch_LNum.
  - apply munch_LParamNum.
  - apply munch_LParamAt.
  - apply munch_LSStr.
  - apply munch_LQId.
  - apply munch_LBId.
  - apply munch_LDollar.
  - apply munch_LTriple.
Qed.

Lemma next_lex_nonword l rest : is_word l = false -> next_lex l rest = (tok_of l, length (render l), rest).
Proof. destruct l; cbn [is_word]; intros H; try discriminate H; reflexivity. Qed.

Lemma lex_step bs l rest i :
  lex_ok l = true -> follow_ok l (render_items rest) = true -> items_ok rest = true ->
  next_token bs (render l ++ render_items rest, i) =
  let '(tk, n, rest') := next_lex l rest in Val (tk, (render_items rest', i + N.of_nat n)).
Proof.
  intros OK FO OKR. unfold follow_ok in FO. apply andb_prop in FO. destruct FO as [FO _].
  destruct (is_word l) eqn:W.
  - destruct l; try discriminate W. apply munch_word; assumption.
  - rewrite (next_lex_nonword _ _ W). apply munch_all; assumption.
Qed.

(* what is left after a reading step is a suffix of the items *)
Lemma drop_ws_len rest : (length (drop_ws rest) <= length rest)%nat.
Proof. induction rest as [|[l|[b|body|body]] rest IH]; cbn [drop_ws length]; lia. Qed.

Lemma next_lex_rest l rest : items_ok rest = true ->
  items_ok (snd (next_lex l rest)) = true /\ (length (snd (next_lex l rest)) <= length rest)%nat.
Proof.
  intros OK. unfold next_lex.
  destruct l; cbn [snd]; try (split; [exact OK | lia]).
  destruct (mem_b compound_starts _); [| split; [exact OK | cbn; lia]].
  pose proof (items_ok_drop_ws _ OK) as OD. pose proof (drop_ws_len rest) as LD.
  destruct (drop_ws rest) as [|[[]|] rest2]; try (split; [exact OK | cbn; lia]).
  destruct (assoc_b compound_keywords _); [| split; [exact OK | cbn; lia]].
  cbn [snd]. cbn [items_ok] in OD. apply andb_prop in OD. cbn [length] in LD. split; [tauto | lia].
Qed.

(* a well-formed lexeme is not empty *)
Lemma render_ne l : lex_ok l = true -> render l <> [].
Proof.
  destruct l as [e| | |ip fp ex|rs|ds|rs|op cl items|op cl items|items|tag body|trs]; cbn [lex_ok render]; intros OK;
    try discriminate.
  - apply existsb_exists in OK. destruct OK as (e' & IN & EQ). apply op_eqb_eq in EQ. subst e'.
    pose proof ops_first_byte as F. rewrite forallb_forall in F. specialize (F _ IN).
    destruct (fst (fst e)); [discriminate F | discriminate].
  - apply andb_prop in OK. destruct OK as [OK _]. apply andb_prop in OK. destruct OK as [OK _].
    destruct (digits_ok_inv _ OK) as (d & tl & -> & _). unfold num_text. discriminate.
  - destruct (word_shape_inv _ OK) as (r0 & rtl & -> & _). cbn [utf8 flat_map]. apply enc_app_ne.
  - apply enc_app_ne.
  - apply enc_app_ne.
Qed.

Lemma items_text_nil its : items_ok its = true -> render_items its = [] -> its = [].
Proof.
  destruct its as [|[l|t] rest]; [reflexivity | |]; cbn [items_ok]; intros OK E; exfalso.
  - apply andb_prop in OK. destruct OK as [OK _]. apply andb_prop in OK. destruct OK as [OK _].
    change (render_items (ILex l :: rest)) with (render l ++ render_items rest) in E.
    apply app_eq_nil in E. destruct E as [E _]. exact (render_ne _ OK E).
  - change (render_items (ITriv t :: rest)) with (render_triv t ++ render_items rest) in E.
    apply app_eq_nil in E. destruct E as [E _]. destruct t; discriminate E.
Qed.

(* ---------------------------------------------------------------------------------------------- *)
(* the reading relation (expect is its functional form) *)
Inductive reads (bs : list N) : N -> list item -> list token -> list comment -> Prop :=
| reads_nil off : reads bs off [] [] []
| reads_triv off t rest et ec :
    reads bs (off + N.of_nat (length (render_triv t))) rest et ec ->
    reads bs off (ITriv t :: rest) et (com_of bs off t ++ ec)
| reads_lex off l rest ty v q n rest' et ec :
    next_lex l rest = ((ty, v, q), n, rest') ->
    reads bs (off + N.of_nat n) rest' et ec ->
    reads bs off (ILex l :: rest) (mktok ty v q off (off + N.of_nat n) :: et) ec.

Lemma next_lex_len l rest : (length (snd (next_lex l rest)) <= length rest)%nat.
Proof.
  unfold next_lex. destruct l; cbn [snd]; try lia.
  destruct (mem_b compound_starts _); [| cbn; lia].
  pose proof (drop_ws_len rest) as LD.
  destruct (drop_ws rest) as [|[[]|] rest2]; try (cbn; lia).
  destruct (assoc_b compound_keywords _); cbn [snd length] in *; lia.
Qed.

Lemma reads_expect bs : forall k its off, (length its <= k)%nat ->
  reads bs off its (fst (expect bs k off its)) (snd (expect bs k off its)).
Proof.
  induction k as [|k IH]; intros its off Hk.
  - destruct its; [| cbn in Hk; lia]. cbn. constructor.
  - destruct its as [|[l|t] rest]; cbn [expect].
    + constructor.
    + destruct (next_lex l rest) as [[[[ty v] q] n] rest'] eqn:NL.
      pose proof (next_lex_len l rest) as LL. rewrite NL in LL. cbn [snd] in LL.
      specialize (IH rest' (off + N.of_nat n) ltac:(cbn [length] in Hk; lia)).
      destruct (expect bs k (off + N.of_nat n) rest') as [et ec]. cbn [fst snd] in *.
      econstructor; eauto.
    + specialize (IH rest (off + N.of_nat (length (render_triv t))) ltac:(cbn [length] in Hk; lia)).
      destruct (expect bs k (off + N.of_nat (length (render_triv t))) rest) as [et ec]. cbn [fst snd] in *.
      constructor. exact IH.
Qed.

Lemma reads_lead bs its : forall i et ec, reads bs i its et ec ->
  exists ec', ec = coms_of bs i (lead its) ++ ec' /\
              reads bs (i + N.of_nat (length (render_trivs (lead its)))) (after its) et ec'.
Proof.
  induction its as [|[l|t] its IH]; intros i et ec R.
  - cbn. exists ec. rewrite N.add_0_r. split; [reflexivity | exact R].
  - cbn [lead after coms_of render_trivs flat_map length]. exists ec. rewrite N.add_0_r. split; [reflexivity | exact R].
  - inversion R; subst. destruct (IH _ _ _ H4) as (ec' & -> & R').
    exists ec'. cbn [lead after coms_of render_trivs flat_map]. fold (render_trivs (lead its)).
    split; [rewrite app_assoc; reflexivity |].
    replace (i + N.of_nat (length (render_triv t ++ render_trivs (lead its))))
      with (i + N.of_nat (length (render_triv t)) + N.of_nat (length (render_trivs (lead its))))
      by (rewrite app_length; lia).
    exact R'.
Qed.

(* ---------------------------------------------------------------------------------------------- *)
(* one iteration of the loop of Tokenize *)
Lemma loop_step bs max_tok its f i n toks cms et ec :
  items_ok its = true -> reads bs i its et ec -> (length (render_items its) < S f)%nat ->
  (et = [] /\
   lex_loop bs max_tok (S f) (render_items its, i) n toks cms =
   Val (toks ++ [eof_at (i + N.of_nat (length (render_items its)))], cms ++ ec))
  \/
  (exists tok et' rest' i1 i2 coms ec',
     et = tok :: et' /\ ec = coms ++ ec' /\ items_ok rest' = true /\ reads bs i2 rest' et' ec' /\
     (length rest' < length its)%nat /\ (length (render_items rest') < f)%nat /\
     i + N.of_nat (length (render_items its)) = i2 + N.of_nat (length (render_items rest')) /\
     lex_loop bs max_tok (S f) (render_items its, i) n toks cms =
       if max_tok <=? n then err_at bs E_TokenLimitReached i1
       else lex_loop bs max_tok f (render_items rest', i2) (n + 1) (toks ++ [tok]) (cms ++ coms)).
Proof.
  intros OK R Hf.
  destruct (reads_lead _ _ _ _ _ R) as (ec' & EC & R').
  pose proof (items_ok_after _ OK) as OKA.
  pose proof (render_lead_after its) as TXT.
  pose proof (after_length its) as LA.
  set (i1 := i + N.of_nat (length (render_trivs (lead its)))) in *.
  destruct (after_shape its) as [AE|(l & rest0 & AE)].
  - (* only separator pieces are left *)
    left. rewrite AE in *. inversion R'; subst et ec'. split; [reflexivity |].
    cbn [render_items flat_map] in TXT. rewrite app_nil_r in TXT. rewrite app_nil_r in EC.
    cbn [lex_loop fst snd].
    destruct (render_items its) as [|b0 t0] eqn:E.
    + apply items_text_nil in E; [| exact OK]. subst its. cbn [lead coms_of] in EC. subst ec.
      cbn [length]. rewrite N.add_0_r, app_nil_r. reflexivity.
    + rewrite <- E. rewrite <- E in TXT. rewrite (sep_skip bs its _ i cms OK) by lia. rewrite AE.
      cbn [bind render_items flat_map fst snd]. rewrite EC, TXT. reflexivity.
  - right. rewrite AE in *.
    inversion R' as [| |off l' rest ty v q n0 rest' et' ec0 NL R'' E1 E2 E3 E4]; subst.
    cbn [items_ok] in OKA. apply andb_prop in OKA. destruct OKA as [OKL OK0]. apply andb_prop in OKL.
    destruct OKL as [LOK LFO].
    pose proof (next_lex_rest l rest0 OK0) as [OK' LEN']. rewrite NL in OK', LEN'. cbn [snd] in OK', LEN'.
    pose proof (lex_step bs l rest0 i1 LOK LFO OK0) as ST. rewrite NL in ST.
    change (render_items (ILex l :: rest0)) with (render l ++ render_items rest0) in TXT.
    assert (NE1 : render l ++ render_items rest0 <> []).
    { intros E. apply app_eq_nil in E. destruct E as [E _]. exact (render_ne _ LOK E). }
    pose proof (next_token_post bs (render l ++ render_items rest0, i1) NE1) as NP. rewrite ST in NP.
    destruct NP as [_ (w & WN & [W1 W2])]. cbn [fst snd] in W1, W2.
    assert (LW : length w = n0) by lia.
    assert (L1 : length (render l ++ render_items rest0) = (n0 + length (render_items rest'))%nat).
    { rewrite W1, app_length. lia. }
    assert (N0 : (1 <= n0)%nat) by (destruct w; [congruence | cbn [length] in LW; lia]).
    exists (mktok ty v q i1 (i1 + N.of_nat n0)), et', rest', i1, (i1 + N.of_nat n0), (coms_of bs i (lead its)), ec'.
    split; [reflexivity |]. split; [reflexivity |]. split; [exact OK' |]. split; [exact R'' |].
    assert (LI : (length rest' < length its)%nat) by (cbn [length] in LA; lia).
    split; [exact LI |].
    assert (LT : length (render_items its) = (length (render_trivs (lead its)) + length (render l ++ render_items rest0))%nat).
    { rewrite TXT, app_length. reflexivity. }
    split; [lia |]. split; [subst i1; lia |].
    cbn [lex_loop fst snd].
    destruct (render_items its) as [|b0 t0] eqn:E.
    { exfalso. rewrite L1 in LT. cbn [length] in LT. lia. }
    rewrite <- E. rewrite (sep_skip bs its _ i cms OK) by lia. rewrite AE. cbn [bind fst snd].
    change (render_items (ILex l :: rest0)) with (render l ++ render_items rest0).
    rewrite match_ne by exact NE1.
    destruct (max_tok <=? n); [reflexivity |].
    fold i1. rewrite ST. cbn [bind fst snd]. reflexivity.
Qed.

(* ---------------------------------------------------------------------------------------------- *)
(* the whole loop: success within the token limit, E1007 beyond it *)
Lemma loop_ok bs max_tok : forall k its, (length its <= k)%nat -> forall fuel i n toks cms et ec,
  items_ok its = true -> reads bs i its et ec -> (length (render_items its) < fuel)%nat ->
  n + N.of_nat (length et) <= max_tok ->
  lex_loop bs max_tok fuel (render_items its, i) n toks cms =
  Val (toks ++ et ++ [eof_at (i + N.of_nat (length (render_items its)))], cms ++ ec).
Proof.
  induction k as [|k IH]; intros its Hk fuel i n toks cms et ec OK R Hf LIM; (destruct fuel as [|f]; [lia |]);
    (destruct (loop_step bs max_tok its f i n toks cms et ec OK R Hf)
      as [[-> E]|(tok & et' & rest' & i1 & i2 & coms & ec' & -> & -> & OK' & R' & LI & LF & POS & E)];
     [rewrite E; reflexivity |]); [exfalso; lia |].
  rewrite E. cbn [length] in LIM.
  replace (max_tok <=? n) with false by (symmetry; apply N.leb_gt; lia).
  rewrite (IH rest' ltac:(lia) f i2 (n + 1) _ _ et' ec' OK' R' LF ltac:(lia)).
  rewrite POS, <- !app_assoc. reflexivity.
Qed.

Lemma loop_limit bs max_tok : forall k its, (length its <= k)%nat -> forall fuel i n toks cms et ec,
  items_ok its = true -> reads bs i its et ec -> (length (render_items its) < fuel)%nat ->
  n <= max_tok -> max_tok < n + N.of_nat (length et) ->
  exists l c, lex_loop bs max_tok fuel (render_items its, i) n toks cms = Err E_TokenLimitReached l c.
Proof.
  induction k as [|k IH]; intros its Hk fuel i n toks cms et ec OK R Hf LE LIM; (destruct fuel as [|f]; [lia |]);
    (destruct (loop_step bs max_tok its f i n toks cms et ec OK R Hf)
      as [[-> E]|(tok & et' & rest' & i1 & i2 & coms & ec' & -> & -> & OK' & R' & LI & LF & POS & E)];
     [cbn [length] in LIM; lia |]); [exfalso; lia |].
  rewrite E. cbn [length] in LIM.
  destruct (max_tok <=? n) eqn:B.
  - unfold err_at. destruct (to_loc bs i1) as [l c]. exists l, c. reflexivity.
  - apply N.leb_gt in B. apply (IH rest' ltac:(lia) f i2 (n + 1) _ _ et' ec' OK' R' LF); lia.
Qed.

(* ---------------------------------------------------------------------------------------------- *)
(* lex_faithful, raw form *)

Theorem lex_faithful_raw max_in max_tok ls seps :
  wf ls seps ->
  N.of_nat (length (interleave ls seps)) <= max_in -> N.of_nat (length (raw_tokens ls seps)) <= max_tok ->
  tokenize_with max_in max_tok (interleave ls seps) =
  Val (raw_tokens ls seps ++ [eof_at (N.of_nat (length (interleave ls seps)))], raw_comments ls seps).
Proof.
  intros [_ OK] SZ LIM. unfold tokenize_with.
  replace (max_in <? N.of_nat (length (interleave ls seps))) with false by (symmetry; apply N.ltb_ge; exact SZ).
  unfold raw_tokens, raw_comments, expect_all, interleave in *.
  set (its := items_of ls seps) in *.
  pose proof (reads_expect (render_items its) (length its) its 0 (le_n _)) as R.
  rewrite (loop_ok (render_items its) max_tok (length its) its (le_n _) _ 0 0 [] [] _ _ OK R); [reflexivity | lia | lia].
Qed.

(* the token limit, as an equivalence: E1007 exactly when the text has more raw tokens than the limit (so a text
   with exactly max_tok tokens is not rejected for that reason) *)
Theorem token_limit_iff max_in max_tok ls seps :
  wf ls seps -> N.of_nat (length (interleave ls seps)) <= max_in ->
  ((exists l c, tokenize_with max_in max_tok (interleave ls seps) = Err E_TokenLimitReached l c) <->
   max_tok < N.of_nat (length (raw_tokens ls seps))).
Proof.
  intros WF SZ. split.
  - intros (l & c & E). destruct (N.lt_ge_cases max_tok (N.of_nat (length (raw_tokens ls seps)))) as [H|H]; [exact H |].
    rewrite (lex_faithful_raw max_in max_tok ls seps WF SZ H) in E. discriminate E.
  - intros LIM. destruct WF as [_ OK]. unfold tokenize_with.
    replace (max_in <? N.of_nat (length (interleave ls seps))) with false by (symmetry; apply N.ltb_ge; exact SZ).
    unfold raw_tokens, expect_all, interleave in *.
    set (its := items_of ls seps) in *.
    pose proof (reads_expect (render_items its) (length its) its 0 (le_n _)) as R.
    apply (loop_limit (render_items its) max_tok (length its) its (le_n _) _ 0 0 [] [] _ _ OK R); lia.
Qed.
