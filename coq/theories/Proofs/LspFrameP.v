(* LspFrameP.v — proofs about the LSP base-protocol frame reader/writer model (Model/LspFrame.v):
   the writer's header announces exactly the body length, read_frame inverts write_frame, the
   guarded reader never panics (the unguarded one does), every call makes progress, and a stream of
   written frames is delivered exactly, in order. *)
From Coq Require Import List NArith ZArith Bool Arith Lia ZifyNat ZifyN ZifyBool.
From GV Require Import Model.LspFrame.
Import ListNotations.
Local Open Scope N_scope.

Ltac Zify.zify_post_hook ::= Z.div_mod_to_equations.

(* ------------------------------------------------------------------------------------------- *)
(* 1. decimal printing / parsing                                                                *)

Lemma is_digit_range : forall b, is_digit b = true <-> 48 <= b /\ b <= 57.
Proof.
  intros b. unfold is_digit. rewrite andb_true_iff, !N.leb_le. tauto.
Qed.

Lemma digits_val_app : forall l acc d,
  digits_val (l ++ [d]) acc =
  match digits_val l acc with
  | Some v => if is_digit d then Some (v * 10 + Z.of_N (d - 48))%Z else None
  | None => None
  end.
Proof.
  induction l as [|a l IH]; intros acc d.
  - cbn [app digits_val]. destruct (is_digit d); reflexivity.
  - cbn [app digits_val]. destruct (is_digit a).
    + apply IH.
    + reflexivity.
Qed.

Lemma dec_digits_all_digits : forall fuel n, Forall (fun b => is_digit b = true) (dec_digits fuel n).
Proof.
  induction fuel as [|f IH]; intros n.
  - constructor.
  - cbn [dec_digits]. destruct (n <? 10) eqn:Hlt.
    + apply N.ltb_lt in Hlt. constructor; [|constructor].
      apply is_digit_range. lia.
    + apply Forall_app. split; [apply IH|].
      constructor; [|constructor].
      apply is_digit_range. lia.
Qed.

Lemma dec_digits_snoc : forall f n, exists l d,
  dec_digits (S f) n = l ++ [d] /\ is_digit d = true.
Proof.
  intros f n. cbn [dec_digits]. destruct (n <? 10) eqn:Hlt.
  - apply N.ltb_lt in Hlt. exists [], (48 + n). split; [reflexivity|].
    apply is_digit_range. lia.
  - exists (dec_digits f (n / 10)), (48 + n mod 10). split; [reflexivity|].
    apply is_digit_range. lia.
Qed.

Lemma decimal_snoc : forall n, exists l d, decimal n = l ++ [d] /\ is_digit d = true.
Proof. intros n. unfold decimal. apply dec_digits_snoc. Qed.

Lemma decimal_digits : forall n,
  Forall (fun b => is_digit b = true) (decimal n) /\ decimal n <> [].
Proof.
  intros n. split.
  - unfold decimal. apply dec_digits_all_digits.
  - destruct (decimal_snoc n) as (l & d & E & _). rewrite E.
    intro H. apply app_eq_nil in H. destruct H as [_ H]. discriminate H.
Qed.

Lemma decimal_cons : forall n, exists d t, decimal n = d :: t /\ is_digit d = true.
Proof.
  intros n. destruct (decimal_digits n) as [HF HN].
  destruct (decimal n) as [|d t]; [congruence|].
  exists d, t. split; [reflexivity|]. inversion HF; assumption.
Qed.

Lemma pow10_succ : forall f, 10 ^ N.of_nat (S f) = 10 * 10 ^ N.of_nat f.
Proof. intros f. rewrite Nat2N.inj_succ. apply N.pow_succ_r'. Qed.

Lemma dec_digits_val : forall fuel n, n < 10 ^ N.of_nat fuel ->
  digits_val (dec_digits fuel n) 0%Z = Some (Z.of_N n).
Proof.
  induction fuel as [|f IH]; intros n Hn.
  - cbn in Hn. assert (n = 0) by lia. subst n. reflexivity.
  - cbn [dec_digits]. destruct (n <? 10) eqn:Hlt.
    + apply N.ltb_lt in Hlt. cbn [digits_val].
      assert (Hd : is_digit (48 + n) = true) by (apply is_digit_range; lia).
      rewrite Hd. f_equal. lia.
    + apply N.ltb_ge in Hlt. rewrite digits_val_app.
      rewrite pow10_succ in Hn.
      assert (Hq : n / 10 < 10 ^ N.of_nat f).
      { apply N.div_lt_upper_bound; [lia|exact Hn]. }
      rewrite (IH _ Hq).
      assert (Hd : is_digit (48 + n mod 10) = true) by (apply is_digit_range; lia).
      rewrite Hd. f_equal. lia.
Qed.

Lemma decimal_fuel : forall n, n < 10 ^ N.of_nat (S (N.to_nat (N.log2 n))).
Proof.
  intros n. rewrite Nat2N.inj_succ, N2Nat.id.
  destruct (N.eq_dec n 0) as [E|NE].
  - subst n. reflexivity.
  - assert (Hpos : 0 < n) by lia.
    destruct (N.log2_spec n Hpos) as [_ Hlt].
    eapply N.lt_le_trans; [exact Hlt|].
    apply N.pow_le_mono_l. lia.
Qed.

Lemma decimal_val : forall n, digits_val (decimal n) 0%Z = Some (Z.of_N n).
Proof. intros n. unfold decimal. apply dec_digits_val, decimal_fuel. Qed.

Lemma atoi_decimal : forall n, (Z.of_N n <= int_max)%Z -> atoi (decimal n) = Some (Z.of_N n).
Proof.
  intros n Hmax.
  pose proof (decimal_val n) as Hv.
  destruct (decimal_cons n) as (d & t & E & Hd).
  rewrite E in *. apply is_digit_range in Hd.
  unfold atoi.
  assert (H43 : d =? 43 = false) by (apply N.eqb_neq; lia).
  assert (H45 : d =? 45 = false) by (apply N.eqb_neq; lia).
  rewrite H43, H45, Hv.
  assert (Hr : ((int_min <=? Z.of_N n)%Z && (Z.of_N n <=? int_max)%Z) = true).
  { apply andb_true_iff. split; apply Z.leb_le; [unfold int_min; lia|exact Hmax]. }
  rewrite Hr. reflexivity.
Qed.

(* ------------------------------------------------------------------------------------------- *)
(* 2. strings.TrimSpace on the lines the writer produces                                        *)

Definition rspace_pats : list (list N) := map (@rev N) space_pats.

(* every pattern starts with a byte outside 33..127 *)
Definition safe_pats (pats : list (list N)) : bool :=
  forallb (fun p => match p with [] => false | x :: _ => (x <=? 32) || (128 <=? x) end) pats.

Lemma safe_space_pats : safe_pats space_pats = true.
Proof. vm_compute. reflexivity. Qed.

Lemma safe_rspace_pats : safe_pats rspace_pats = true.
Proof. vm_compute. reflexivity. Qed.

Lemma pat_len_safe : forall pats b s, safe_pats pats = true -> 33 <= b -> b <= 127 ->
  pat_len pats (b :: s) = 0%nat.
Proof.
  induction pats as [|p pats IH]; intros b s Hs Hlo Hhi.
  - reflexivity.
  - unfold safe_pats in Hs. cbn [forallb] in Hs. apply andb_true_iff in Hs.
    destruct Hs as [Hp Hs]. cbn [pat_len].
    destruct p as [|x p]; [discriminate Hp|].
    cbn [has_prefix].
    assert (Hx : x =? b = false).
    { apply N.eqb_neq. apply orb_true_iff in Hp. rewrite !N.leb_le in Hp. lia. }
    rewrite Hx. cbn [andb]. apply IH; assumption.
Qed.

Lemma trim_with_safe_head : forall pats b s, safe_pats pats = true -> 33 <= b -> b <= 127 ->
  trim_with pats (b :: s) 0 = b :: s.
Proof.
  intros pats b s Hs Hlo Hhi. cbn [trim_with]. rewrite pat_len_safe by assumption. reflexivity.
Qed.

Lemma trim_left_safe : forall b s, 33 <= b -> b <= 127 -> trim_left (b :: s) = b :: s.
Proof. intros. unfold trim_left. apply trim_with_safe_head; [apply safe_space_pats|assumption..]. Qed.

Lemma trim_right_unfold : forall s, trim_right s = rev (trim_with rspace_pats (rev s) 0).
Proof. reflexivity. Qed.

Lemma trim_right_safe : forall s b, 33 <= b -> b <= 127 -> trim_right (s ++ [b]) = s ++ [b].
Proof.
  intros s b Hlo Hhi. rewrite trim_right_unfold. rewrite rev_app_distr. cbn [rev app].
  rewrite trim_with_safe_head; [|apply safe_rspace_pats|assumption..].
  cbn [rev]. rewrite rev_involutive. reflexivity.
Qed.

Lemma rpat_len_10 : forall x, pat_len rspace_pats (10 :: x) = 1%nat.
Proof. intros x. reflexivity. Qed.
Lemma rpat_len_13 : forall x, pat_len rspace_pats (13 :: x) = 1%nat.
Proof. intros x. reflexivity. Qed.
Lemma pat_len_32 : forall x, pat_len space_pats (32 :: x) = 1%nat.
Proof. intros x. reflexivity. Qed.

Lemma trim_right_crlf : forall s, trim_right (s ++ [13; 10]) = trim_right s.
Proof.
  intros s. rewrite !trim_right_unfold. rewrite rev_app_distr.
  change (rev [13; 10]) with [10; 13]. cbn [app].
  cbn [trim_with]. rewrite rpat_len_10.
  destruct (rev s) as [|a l] eqn:E.
  - reflexivity.
  - rewrite <- E.
    change (trim_with rspace_pats (13 :: rev s) 0)
      with (match pat_len rspace_pats (13 :: rev s) with
            | O => 13 :: rev s
            | S k => trim_with rspace_pats (rev s) k
            end).
    rewrite rpat_len_13. reflexivity.
Qed.

Lemma trim_left_sp : forall s, trim_left (32 :: s) = trim_left s.
Proof.
  intros s. unfold trim_left. cbn [trim_with]. rewrite pat_len_32. reflexivity.
Qed.

Lemma trim_space_crlf : trim_space [13; 10] = [].
Proof. vm_compute. reflexivity. Qed.

Lemma digit_safe : forall d, is_digit d = true -> 33 <= d /\ d <= 127.
Proof. intros d H. apply is_digit_range in H. lia. Qed.

Lemma trim_space_cl_line : forall n,
  trim_space (cl_name ++ [32] ++ decimal n ++ [13; 10]) = cl_name ++ [32] ++ decimal n.
Proof.
  intros n. unfold trim_space.
  assert (HL : forall x, trim_left (cl_name ++ x) = cl_name ++ x).
  { intros x. unfold cl_name. cbn [app]. apply trim_left_safe; lia. }
  rewrite HL.
  replace (cl_name ++ [32] ++ decimal n ++ [13; 10])
    with ((cl_name ++ [32] ++ decimal n) ++ [13; 10])
    by (rewrite <- !app_assoc; reflexivity).
  rewrite trim_right_crlf.
  destruct (decimal_snoc n) as (l & d & E & Hd). rewrite E.
  apply digit_safe in Hd.
  replace (cl_name ++ [32] ++ l ++ [d]) with ((cl_name ++ [32] ++ l) ++ [d])
    by (rewrite <- !app_assoc; reflexivity).
  apply trim_right_safe; lia.
Qed.

Lemma trim_space_sp_decimal : forall n, trim_space ([32] ++ decimal n) = decimal n.
Proof.
  intros n. unfold trim_space. cbn [app]. rewrite trim_left_sp.
  destruct (decimal_cons n) as (d & t & E & Hd).
  apply digit_safe in Hd.
  assert (HL : trim_left (decimal n) = decimal n).
  { rewrite E. apply trim_left_safe; lia. }
  rewrite HL.
  destruct (decimal_snoc n) as (l & d' & E' & Hd'). rewrite E'.
  apply digit_safe in Hd'. apply trim_right_safe; lia.
Qed.

Lemma has_prefix_app : forall p x, has_prefix p (p ++ x) = true.
Proof.
  induction p as [|a p IH]; intros x.
  - reflexivity.
  - cbn [app has_prefix]. rewrite N.eqb_refl, IH. reflexivity.
Qed.

(* ------------------------------------------------------------------------------------------- *)
(* 3. the header loop                                                                           *)

(* what the loop does once a whole line (trimmed) is available *)
Definition line_step (line t : list N) (cl : Z) : hres :=
  match line with
  | [] => HDone cl t
  | _ =>
      if has_prefix cl_name line then
        match atoi (trim_space (skipn 15 line)) with
        | Some v => headers t [] v
        | None => HErr t
        end
      else headers t [] cl
  end.

Lemma headers_cons : forall c t cur cl,
  headers (c :: t) cur cl =
  if c =? 10 then line_step (trim_space (rev (c :: cur))) t cl else headers t (c :: cur) cl.
Proof. reflexivity. Qed.

Lemma headers_line : forall l t cur cl, ~ In 10%N l ->
  headers (l ++ 10 :: t) cur cl = line_step (trim_space (rev cur ++ l ++ [10])) t cl.
Proof.
  induction l as [|a l IH]; intros t cur cl Hnin.
  - cbn [app]. rewrite headers_cons. rewrite N.eqb_refl. cbn [rev]. reflexivity.
  - cbn [app]. rewrite headers_cons.
    assert (Ha : a =? 10 = false).
    { apply N.eqb_neq. intro E. apply Hnin. left. exact E. }
    rewrite Ha. rewrite IH.
    + cbn [rev]. rewrite <- app_assoc. reflexivity.
    + intro H. apply Hnin. right. exact H.
Qed.

Lemma line_step_nil : forall t cl, line_step [] t cl = HDone cl t.
Proof. reflexivity. Qed.

Lemma line_step_cl : forall n t cl, (Z.of_N n <= int_max)%Z ->
  line_step (cl_name ++ [32] ++ decimal n) t cl = headers t [] (Z.of_N n).
Proof.
  intros n t cl Hmax. unfold line_step.
  destruct (cl_name ++ [32] ++ decimal n) as [|a l] eqn:E.
  - unfold cl_name in E. cbn [app] in E. discriminate E.
  - rewrite <- E. rewrite has_prefix_app.
    change (skipn 15 (cl_name ++ [32] ++ decimal n)) with ([32] ++ decimal n).
    rewrite trim_space_sp_decimal, atoi_decimal by exact Hmax. reflexivity.
Qed.

Lemma cl_name_no_lf : ~ In 10 cl_name.
Proof.
  unfold cl_name. cbn [In]. intro H.
  repeat (destruct H as [H|H]; [discriminate H|]). exact H.
Qed.

Lemma decimal_no_lf : forall n, ~ In 10 (decimal n).
Proof.
  intros n H. destruct (decimal_digits n) as [HF _].
  rewrite Forall_forall in HF. apply HF in H. apply is_digit_range in H. lia.
Qed.

Lemma write_frame_split : forall b r,
  write_frame b ++ r =
  (cl_name ++ [32] ++ decimal (N.of_nat (length b)) ++ [13]) ++ 10 :: ([13] ++ 10 :: (b ++ r)).
Proof.
  intros b r. unfold write_frame, frame_header.
  rewrite <- !app_assoc. cbn [app]. reflexivity.
Qed.

Theorem frame_length_exact : forall b r, (Z.of_nat (length b) <= int_max)%Z ->
  headers (write_frame b ++ r) [] 0%Z = HDone (Z.of_nat (length b)) (b ++ r).
Proof.
  intros b r Hmax. rewrite write_frame_split.
  set (n := N.of_nat (length b)).
  assert (Hn : Z.of_N n = Z.of_nat (length b)) by (unfold n; lia).
  rewrite headers_line.
  - cbn [rev]. rewrite app_nil_l.
    replace ((cl_name ++ [32] ++ decimal n ++ [13]) ++ [10])
      with (cl_name ++ [32] ++ decimal n ++ [13; 10])
      by (rewrite <- !app_assoc; reflexivity).
    rewrite trim_space_cl_line.
    rewrite line_step_cl by (rewrite Hn; exact Hmax).
    rewrite headers_line.
    + cbn [rev app]. rewrite trim_space_crlf, line_step_nil, Hn. reflexivity.
    + cbn [In]. intros [H|H]; [discriminate H|exact H].
  - rewrite !in_app_iff. intros [H|[H|[H|H]]].
    + exact (cl_name_no_lf H).
    + cbn [In] in H. destruct H as [H|H]; [discriminate H|exact H].
    + exact (decimal_no_lf n H).
    + cbn [In] in H. destruct H as [H|H]; [discriminate H|exact H].
Qed.

(* ------------------------------------------------------------------------------------------- *)
(* 4. round trip, totality, progress, whole streams                                             *)

Lemma firstn_length_app : forall (b r : list N), firstn (length b) (b ++ r) = b.
Proof.
  intros b r. rewrite firstn_app, Nat.sub_diag, firstn_all. cbn [firstn]. apply app_nil_r.
Qed.

Lemma skipn_length_app : forall (b r : list N), skipn (length b) (b ++ r) = r.
Proof.
  intros b r. rewrite skipn_app, Nat.sub_diag, skipn_all. reflexivity.
Qed.

Theorem frame_roundtrip : forall g maxlen b r,
  b <> [] -> (Z.of_nat (length b) <= maxlen)%Z -> (maxlen <= int_max)%Z ->
  read_frame g maxlen (write_frame b ++ r) = FMsg b r.
Proof.
  intros g maxlen b r Hne Hlen Hmax. unfold read_frame.
  rewrite frame_length_exact by lia.
  assert (Hpos : (0 < length b)%nat).
  { destruct b; [congruence|cbn [length]; lia]. }
  assert (H0 : (Z.of_nat (length b) =? 0)%Z = false) by lia.
  assert (H1 : (Z.of_nat (length b) <? 0)%Z = false) by lia.
  assert (H2 : (Z.of_nat (length b) >? maxlen)%Z = false) by lia.
  assert (H3 : (Z.of_nat (length (b ++ r)) <? Z.of_nat (length b))%Z = false).
  { rewrite app_length. lia. }
  rewrite H0, H1, H2, H3. rewrite Nat2Z.id.
  rewrite firstn_length_app, skipn_length_app. reflexivity.
Qed.

Theorem read_frame_total : forall maxlen s, read_frame true maxlen s <> FPanic.
Proof.
  intros maxlen s. unfold read_frame.
  destruct (headers s [] 0%Z) as [|r|cl r]; try discriminate.
  destruct (cl =? 0)%Z; [discriminate|].
  destruct (cl <? 0)%Z; [discriminate|].
  destruct (cl >? maxlen)%Z; [discriminate|].
  destruct (Z.of_nat (length r) <? cl)%Z; discriminate.
Qed.

(* "Content-Length: -1\r\n\r\n" *)
Definition neg_frame : list N := cl_name ++ [32; 45; 49; 13; 10; 13; 10].

Theorem read_frame_unguarded_refuted : exists s, read_frame false 10485760 s = FPanic.
Proof. exists neg_frame. vm_compute. reflexivity. Qed.

(* the guarded reader turns the same input into an ordinary error *)
Example read_frame_guarded_neg : read_frame true 10485760 neg_frame = FErr [].
Proof. vm_compute. reflexivity. Qed.

Definition hres_lt (h : hres) (n : nat) : Prop :=
  match h with
  | HEof => True
  | HErr r => (length r < n)%nat
  | HDone _ r => (length r < n)%nat
  end.

Lemma hres_lt_mono : forall h n m, hres_lt h n -> (n <= m)%nat -> hres_lt h m.
Proof. intros h n m H Hle. destruct h; cbn [hres_lt] in *; lia. Qed.

Lemma headers_lt : forall s cur cl, hres_lt (headers s cur cl) (length s).
Proof.
  induction s as [|c t IH]; intros cur cl.
  - exact I.
  - rewrite headers_cons. cbn [length].
    destruct (c =? 10).
    + unfold line_step.
      destruct (trim_space (rev (c :: cur))) as [|a l].
      * cbn [hres_lt]. lia.
      * destruct (has_prefix cl_name (a :: l)).
        -- destruct (atoi (trim_space (skipn 15 (a :: l)))) as [v|].
           ++ eapply hres_lt_mono; [apply IH|lia].
           ++ cbn [hres_lt]. lia.
        -- eapply hres_lt_mono; [apply IH|lia].
    + eapply hres_lt_mono; [apply IH|lia].
Qed.

Lemma headers_shorter : forall s cur cl,
  match headers s cur cl with
  | HEof => True
  | HErr r => (length r < length s)%nat
  | HDone _ r => (length r < length s)%nat
  end.
Proof. intros s cur cl. exact (headers_lt s cur cl). Qed.

Theorem read_frame_progress : forall g maxlen s,
  match read_frame g maxlen s with
  | FMsg _ r => (length r < length s)%nat
  | FErr r => (length r < length s)%nat
  | _ => True
  end.
Proof.
  intros g maxlen s. unfold read_frame.
  pose proof (headers_shorter s [] 0%Z) as H.
  destruct (headers s [] 0%Z) as [|r|cl r]; [exact I|exact H|].
  destruct (cl =? 0)%Z; [exact H|].
  destruct (cl <? 0)%Z; [destruct g; [exact H|exact I]|].
  destruct (cl >? maxlen)%Z; [exact H|].
  destruct (Z.of_nat (length r) <? cl)%Z.
  - cbn [length]. lia.
  - rewrite skipn_length. lia.
Qed.

Theorem read_all_fuel : forall g maxlen s fuel,
  (length s < fuel)%nat -> ~ In IFuel (read_all g maxlen fuel s).
Proof.
  intros g maxlen s fuel. revert s.
  induction fuel as [|f IH]; intros s Hlt.
  - lia.
  - cbn [read_all]. pose proof (read_frame_progress g maxlen s) as Hp.
    destruct (read_frame g maxlen s) as [b r|r| |].
    + intros [H|H]; [discriminate H|]. revert H. apply IH. lia.
    + intros [H|H]; [discriminate H|]. revert H. apply IH. lia.
    + intros [H|H]; [discriminate H|exact H].
    + intros [H|H]; [discriminate H|exact H].
Qed.

Lemma read_frame_nil : forall g maxlen, read_frame g maxlen [] = FEof.
Proof. reflexivity. Qed.

Lemma write_frame_length_pos : forall b, (0 < length (write_frame b))%nat.
Proof.
  intros b. unfold write_frame, frame_header. rewrite !app_length.
  change (length cl_name) with 15%nat. lia.
Qed.

Theorem read_all_frames : forall g maxlen bs,
  Forall (fun b => b <> [] /\ (Z.of_nat (length b) <= maxlen)%Z) bs -> (maxlen <= int_max)%Z ->
  forall fuel, (length (concat (map write_frame bs)) < fuel)%nat ->
  read_all g maxlen fuel (concat (map write_frame bs)) = map (IBody) bs ++ [IEof].
Proof.
  intros g maxlen bs HF Hmax.
  induction HF as [|b bs [Hne Hlen] HF IH]; intros fuel Hfuel.
  - destruct fuel as [|f]; [cbn in Hfuel; lia|]. reflexivity.
  - cbn [map concat] in *.
    destruct fuel as [|f]; [lia|].
    cbn [read_all]. rewrite frame_roundtrip by assumption.
    cbn [app]. f_equal. apply IH.
    rewrite app_length in Hfuel.
    pose proof (write_frame_length_pos b). lia.
Qed.

(* ------------------------------------------------------------------------------------------- *)
(* non-vacuity                                                                                  *)

Example decimal_300 : decimal 300 = [51; 48; 48].
Proof. vm_compute. reflexivity. Qed.

Example roundtrip_3 :
  read_frame true 10485760 (write_frame [123; 125; 10] ++ [1; 2]) = FMsg [123; 125; 10] [1; 2].
Proof. vm_compute. reflexivity. Qed.

Example roundtrip_300 :
  read_frame true 10485760 (write_frame (repeat 120 300) ++ [7]) = FMsg (repeat 120 300) [7].
Proof. vm_compute. reflexivity. Qed.

(* "Content-Length: x\r\n" (bad value: the error is returned mid-headers, the loop goes on with
   the rest of the stream, whose "\r\n" then closes a header section with no length: second error),
   followed by a good frame that is still delivered *)
Example bad_then_good :
  let s := cl_name ++ [32; 120; 13; 10; 13; 10] ++ write_frame [1; 2; 3] in
  read_all true 10485760 (S (length s)) s = [IErr; IErr; IBody [1; 2; 3]; IEof].
Proof. vm_compute. reflexivity. Qed.

(* two frames back to back are neither merged nor lost *)
Example two_frames :
  let s := write_frame [65] ++ write_frame [66; 67] in
  read_all true 10485760 (S (length s)) s = [IBody [65]; IBody [66; 67]; IEof].
Proof. vm_compute. reflexivity. Qed.

(* the length bound is tight *)
Example too_long : read_frame true 2 (write_frame [1; 2; 3]) = FErr [1; 2; 3].
Proof. vm_compute. reflexivity. Qed.

Print Assumptions decimal_digits.
Print Assumptions atoi_decimal.
Print Assumptions frame_length_exact.
Print Assumptions frame_roundtrip.
Print Assumptions read_frame_total.
Print Assumptions read_frame_unguarded_refuted.
Print Assumptions headers_shorter.
Print Assumptions read_frame_progress.
Print Assumptions read_all_fuel.
Print Assumptions read_all_frames.
