(* Proofs for C02 (nesting): every realizable call stack has bounded length, whatever the input. *)
From Coq Require Import List NArith Bool Arith Lia.
From GV Require Import Model.Walk Model.CallGraph Proofs.WalkP.
Import ListNotations.
Local Open Scope nat_scope.

Section P.
  Variable edges : list (N * N).
  Variable guards : list N.
  Variable X : list (N * N).
  Variable ranks : list (N * nat).
  Hypothesis Hok : rank_ok edges guards X ranks = true.

  Notation rk := (rk ranks).
  Notation R := (max_rank ranks).
  Notation is_guard := (is_guard guards).

  Lemma rank_le_max : forall l v, rank l v <= fold_right (fun p m => Nat.max (snd p) m) 0 l.
  Proof.
    induction l as [|[u r] l IH]; intros v; cbn [rank fold_right snd]; [lia|].
    destruct (N.eqb u v); [lia|]. specialize (IH v). lia.
  Qed.

  Lemma rk_bound v : rk v <= R.
  Proof. apply rank_le_max. Qed.

  Lemma edge_rank u v :
    pmem (u, v) edges = true -> pmem (u, v) X = false -> is_guard v = false -> rk v < rk u.
  Proof.
    intros He Hx Hg. unfold rank_ok in Hok. rewrite forallb_forall in Hok.
    apply pmem_In in He. specialize (Hok _ He). cbn [fst snd] in Hok.
    rewrite Hg, Hx in Hok. cbn in Hok. now apply Nat.ltb_lt in Hok.
  Qed.

  Lemma path_bound : forall s u, is_path edges X (u :: s) ->
    length (u :: s) + (R - rk u) <= (nguards guards s + 1) * (R + 1).
  Proof.
    induction s as [|v s IH]; intros u Hp.
    - cbn. pose proof (rk_bound u). lia.
    - destruct Hp as [He [Hx Hp]]. specialize (IH v Hp).
      unfold nguards in *. cbn [filter length].
      destruct (is_guard v) eqn:Hg.
      + cbn [length]. pose proof (rk_bound u). pose proof (rk_bound v). cbn [length] in IH. nia.
      + pose proof (edge_rank u v He Hx Hg). pose proof (rk_bound u). pose proof (rk_bound v).
        cbn [length] in *. nia.
  Qed.

  Theorem stack_bounded : forall s m, is_path edges X s -> nguards guards s <= m + 1 ->
    length s <= (m + 2) * (R + 1).
  Proof.
    intros [|u s] m Hp Hg; [cbn; lia|].
    pose proof (path_bound s u Hp).
    assert (nguards guards s <= m + 1).
    { unfold nguards in *. cbn [filter] in Hg. destruct (is_guard u); cbn [length] in Hg; lia. }
    nia.
  Qed.

  Lemma realizable_guards : forall s m d, realizable guards m d s -> d <= m ->
    nguards guards s + d <= m + 1.
  Proof.
    induction s as [|u s IH]; intros m d Hr Hd; [cbn; lia|].
    unfold nguards. cbn [filter]. cbn [realizable] in Hr.
    destruct (is_guard u) eqn:Hg.
    - cbn [length]. destruct s as [|v s']; [cbn; lia|].
      destruct Hr as [Hlim Hr]. specialize (Hlim eq_refl).
      specialize (IH m (S d) Hr Hlim). unfold nguards in IH. lia.
    - destruct s as [|v s']; [cbn; lia|].
      destruct Hr as [_ Hr]. specialize (IH m d Hr Hd). unfold nguards in IH. lia.
  Qed.

  (* C02, nesting clause: with the depth counter starting at 0, every call stack that can arise has at most
     (m+2)(R+1) frames, independently of the input *)
  Theorem stack_depth_bounded : forall s m,
    is_path edges X s -> realizable guards m 0 s -> length s <= (m + 2) * (R + 1).
  Proof.
    intros s m Hp Hr. apply stack_bounded; [assumption|].
    pose proof (realizable_guards s m 0 Hr). lia.
  Qed.
End P.
