(* StmtPrintP.v — proofs about the Gallina mirror of the statement serialisers (Model/StmtPrint.v):
   [print_select_is_render], [print_stmt_is_render]: for every reference statement of Spec/RefStmt.v whose names are
   printable, the printer (all defects repaired) writes exactly the rendering of the normalised statement, which has
   the same prescribed tree and stays in the reference surface; hence (C03: parse_render_select / parse_render_stmt) the
   statement parser model reads the printed tokens back to that tree. *)
From Coq Require Import List String Ascii Bool Arith NArith ZArith Lia DecimalString Decimal.
From GV Require Import Spec.RefGrammar Spec.RefStmt Model.Expr Model.ExprParse Model.StmtParse Proofs.ExprParseP Proofs.ExprParseExtP
  Proofs.StmtParseP Model.ExprPrint Proofs.ExprPrintP Model.StmtPrint.
Import ListNotations.
Local Open Scope string_scope.
Local Open Scope list_scope.
Local Open Scope nat_scope.
Local Notation length := List.length.

(* ------------------------------------------------------------------------------------------------ *)
(* generic *)
Lemma all_some_map : forall {A B} (f : A -> option B) (g : A -> B) l,
    (forall x, In x l -> f x = Some (g x)) -> all_some (map f l) = Some (map g l).
Proof.
  intros A B f g l. induction l as [|x l IH]; intros H; cbn [map all_some]; [reflexivity|].
  rewrite (H x (or_introl eq_refl)), IH; [reflexivity|]. intros y Hy. apply H. right. exact Hy.
Qed.

Lemma forallb_In : forall {A} (f : A -> bool) l x, forallb f l = true -> In x l -> f x = true.
Proof. intros A f l x H Hx. rewrite forallb_forall in H. apply H. exact Hx. Qed.

Lemma shift_sr0 : forall k, shift sr0 k = sr0. Proof. reflexivity. Qed.

(* with the constant choice function the clause renderers are maps *)
Lemma exprs_toks0 : forall c i l, exprs_toks sr0 c i l = map (render 0 no_parens) l.
Proof. intros c i l. revert i. induction l as [|e l IH]; intros i; cbn [exprs_toks map]; [reflexivity|]. rewrite IH. reflexivity. Qed.
Lemma items_toks0 : forall i l, items_toks sr0 i l = map (item_toks no_parens) l.
Proof. intros i l. revert i. induction l as [|e l IH]; intros i; cbn [items_toks map]; [reflexivity|]. rewrite IH. reflexivity. Qed.
Lemma orders_toks0 : forall i l, orders_toks sr0 i l = map (order_toks no_parens) l.
Proof. intros i l. revert i. induction l as [|e l IH]; intros i; cbn [orders_toks map]; [reflexivity|]. rewrite IH. reflexivity. Qed.
Lemma joins_toks0 : forall i l, joins_toks sr0 i l = List.concat (map (join_toks no_parens) l).
Proof. intros i l. revert i. induction l as [|e l IH]; intros i; cbn [joins_toks map List.concat]; [reflexivity|]. rewrite IH. reflexivity. Qed.
Lemma gsets_toks0 : forall i j l, gsets_toks sr0 i l = gsets_toks sr0 j l.
Proof.
  intros i j l. revert i j. induction l as [|g l IH]; intros i j; cbn [gsets_toks]; [reflexivity|].
  rewrite (IH (i + gset_size g) (j + gset_size g)). f_equal. destruct g; cbn [gset_toks]; rewrite ?exprs_toks0; reflexivity.
Qed.
Lemma groups_toks0 : forall i l, groups_toks sr0 i l = map (group_item_toks sr0 0) l.
Proof.
  intros i l. revert i. induction l as [|g l IH]; intros i; cbn [groups_toks map]; [reflexivity|]. rewrite IH. f_equal.
  destruct g; cbn [group_item_toks]; rewrite ?exprs_toks0, ?(gsets_toks0 i 0); reflexivity.
Qed.
Lemma rows_toks0 : forall i rows,
    rows_toks sr0 i rows = map (fun row => tLP :: sep_by [tComma] (map (render 0 no_parens) row) ++ [tRP]) rows.
Proof. intros i rows. revert i. induction rows as [|r l IH]; intros i; cbn [rows_toks map]; [reflexivity|]. rewrite IH, exprs_toks0. reflexivity. Qed.
Lemma assign_toks0 : forall c i l,
    assign_toks sr0 c i l = map (fun ce : string * mexpr => Tk TyIdent (fst ce) :: Tk TyEq "=" :: render 0 no_parens (snd ce)) l.
Proof. intros c i l. revert i. induction l as [|[n e] l IH]; intros i; cbn [assign_toks map fst snd]; [reflexivity|]. rewrite IH. reflexivity. Qed.

(* ------------------------------------------------------------------------------------------------ *)
(* expressions *)
Lemma expr_ok : forall e, ref_expr e = true -> pe e = true -> print_expr print_ok (ast_of e) = Some (render 0 no_parens (nm e)).
Proof. intros e Hr Hp. apply print_is_render; assumption. Qed.

Lemma exprs_ok : forall l, forallb ref_expr l = true -> forallb pe l = true ->
    print_exprs print_ok (map ast_of l) = Some (sep_by [tComma] (map (render 0 no_parens) (map nm l))).
Proof.
  intros l Hr Hp. unfold print_exprs. rewrite map_map.
  rewrite (all_some_map (fun x => print_expr print_ok (ast_of x)) (fun x => render 0 no_parens (nm x)) l).
  - cbn [ob]. rewrite map_map. reflexivity.
  - intros x Hx. apply expr_ok; eapply forallb_In; eassumption.
Qed.

Lemma item_plain : forall e, print_item print_ok (ast_of e) = print_expr print_ok (ast_of e).
Proof. destruct e; reflexivity. Qed.
Lemma group_plain : forall e, print_group print_ok (ast_of e) = print_expr print_ok (ast_of e).
Proof. destruct e; reflexivity. Qed.
Lemma cond_plain : forall {T} e (X : list gexpr -> T) (Y : gexpr -> T),
    match ast_of e with GList c => X c | g => Y g end = Y (ast_of e).
Proof. destruct e; reflexivity. Qed.

(* ------------------------------------------------------------------------------------------------ *)
(* names *)
Lemma pw_ident : forall n, pw n = true -> ident_tokens print_ok n = [Tk TyIdent n].
Proof. intros n H. apply ident_tokens_plain. exact H. Qed.

Lemma pw_facts : forall n, pw n = true ->
    String.eqb n "" = false /\ has_char "."%char n = false /\ needs_quote print_ok n = false /\ is_reserved n = false
    /\ starts_with_digit n = false /\ String.eqb n "*" = false.
Proof.
  intros n H. unfold pw, plain_word in H. apply andb_prop in H. destruct H as [H Hstar]. apply andb_prop in H. destruct H as [Hq Hdot].
  apply negb_true_iff in Hq, Hdot, Hstar.
  pose proof Hq as Hq'. unfold needs_quote in Hq'. apply orb_false_elim in Hq'. destruct Hq' as [Hq' Hd].
  apply orb_false_elim in Hq'. destruct Hq' as [Hq' Hr]. apply orb_false_elim in Hq'. destruct Hq' as [He _].
  cbn [d_reserved_raw d_digit_safe print_ok negb andb] in Hr, Hd.
  repeat split; try assumption. apply has_char_star. exact Hstar.
Qed.

Lemma raw_part_pw : forall n, pw n = true -> raw_part n = Tk TyIdent n.
Proof. intros n H. destruct (pw_facts n H) as (_ & _ & _ & Hr & Hd & Hs). unfold raw_part. rewrite Hs, Hr, Hd. reflexivity. Qed.

Lemma table_word_pw : forall n, pw n = true -> table_word n = None.
Proof.
  intros n H. destruct (pw_facts n H) as (_ & _ & _ & Hr & _). unfold table_word.
  unfold is_reserved in Hr.
  destruct (String.eqb_spec (upper n) "TARGET") as [E|_]; [rewrite E in Hr; discriminate Hr|].
  destruct (String.eqb_spec (upper n) "SOURCE") as [E|_]; [rewrite E in Hr; discriminate Hr|].
  destruct (String.eqb_spec (upper n) "MATCHED") as [E|_]; [rewrite E in Hr; discriminate Hr|]. reflexivity.
Qed.

Lemma part_tokens_pw : forall tbl n, pw n = true -> part_tokens print_ok tbl n = [Tk TyIdent n].
Proof.
  intros tbl n H. unfold part_tokens. rewrite (table_word_pw n H). destruct (pw_facts n H) as (_ & _ & Hq & _).
  rewrite Hq. rewrite (raw_part_pw n H). destruct tbl; reflexivity.
Qed.

Lemma split_dots_app : forall p rest cur, has_char "."%char p = false ->
    split_dots (p ++ rest)%string cur = split_dots rest (cur ++ p)%string.
Proof.
  induction p as [|c p IH]; intros rest cur H; cbn [append].
  - rewrite append_nil_s0. reflexivity.
  - unfold has_char in H. cbn [all_chars] in H. apply negb_false_iff in H. apply andb_prop in H. destruct H as [Hc Hp].
    apply negb_true_iff in Hc. cbn [split_dots]. rewrite Hc. rewrite IH.
    + rewrite append_assoc_s0. reflexivity.
    + unfold has_char. rewrite Hp. reflexivity.
Qed.

Lemma split_dots_path : forall path, path <> [] -> forallb pw path = true -> split_dots (join_dot path) "" = path.
Proof.
  induction path as [|x r IH]; intros Hne Hp; [contradiction|].
  cbn [forallb] in Hp. apply andb_prop in Hp. destruct Hp as [Hx Hr]. destruct (pw_facts x Hx) as (_ & Hdot & _).
  destruct r as [|y r'].
  - cbn [join_dot]. rewrite (split_dots_nodot x "" Hdot). reflexivity.
  - change (join_dot (x :: y :: r')) with (x ++ "." ++ join_dot (y :: r'))%string.
    rewrite split_dots_app by exact Hdot. cbn [append split_dots]. cbn [Ascii.eqb Bool.eqb].
    rewrite IH; [reflexivity|discriminate|exact Hr].
Qed.

Lemma join_dot_nonempty : forall path, path <> [] -> forallb pw path = true -> String.eqb (join_dot path) "" = false.
Proof.
  intros [|x r] Hne Hp; [contradiction|]. cbn [forallb] in Hp. apply andb_prop in Hp. destruct Hp as [Hx _].
  destruct (pw_facts x Hx) as (He & _). destruct x as [|c x]; [discriminate He|]. destruct r; reflexivity.
Qed.

Lemma name_tokens_path : forall tbl path, path <> [] -> forallb pw path = true ->
    name_tokens print_ok tbl (join_dot path) = path_toks path.
Proof.
  intros tbl path Hne Hp. unfold name_tokens. rewrite (join_dot_nonempty path Hne Hp), (split_dots_path path Hne Hp).
  unfold path_toks. f_equal. apply map_ext_in. intros p Hin. apply part_tokens_pw. eapply forallb_In; eassumption.
Qed.

Lemma name_tokens_word : forall n, pw n = true -> name_tokens print_ok false n = [Tk TyIdent n].
Proof.
  intros n H. destruct (pw_facts n H) as (He & Hdot & _). unfold name_tokens. rewrite He.
  rewrite (split_dots_nodot n "" Hdot). cbn [append map sep_by]. apply part_tokens_pw. exact H.
Qed.

Lemma names_tokens_words : forall l, forallb pw l = true -> names_tokens print_ok l = idents_toks l.
Proof.
  intros l H. unfold names_tokens, idents_toks. f_equal. apply map_ext_in. intros n Hn. apply name_tokens_word. eapply forallb_In; eassumption.
Qed.

Lemma ident_exprs : forall cols, forallb pw cols = true ->
    print_exprs print_ok (map (fun c => GIdent c "") cols) = Some (idents_toks cols).
Proof.
  intros cols H. unfold print_exprs. rewrite map_map.
  rewrite (all_some_map (fun c => print_expr print_ok (GIdent c "")) (fun c => [Tk TyIdent c]) cols).
  - reflexivity.
  - intros c Hc. cbn [print_expr String.eqb]. rewrite pw_ident; [reflexivity|eapply forallb_In; eassumption].
Qed.

(* ------------------------------------------------------------------------------------------------ *)
(* numbers *)
Lemma dec_acc_nonneg : forall s acc, (0 <= acc)%Z -> (0 <= dec_acc acc s)%Z.
Proof.
  induction s as [|c s IH]; intros acc H; cbn [dec_acc]; [exact H|].
  destruct (RefStmt.is_digit c); [apply IH; lia|exact H].
Qed.
Lemma num_canon : forall s, canon s = true -> num_tokens (dec_value s) = Some [Tk TyNumber s].
Proof.
  intros s H. unfold num_tokens. pose proof (dec_acc_nonneg s 0%Z ltac:(lia)) as Hn. fold (dec_value s) in Hn.
  destruct (Z.ltb_spec (dec_value s) 0); [lia|]. unfold canon in H. apply String.eqb_eq in H. rewrite H. reflexivity.
Qed.

(* ------------------------------------------------------------------------------------------------ *)
(* clauses of a SELECT *)
Lemma alias_name_pw : forall a, alias_p a = true -> forall askw,
    (if String.eqb (alias_name a) "" then [] else ident_tokens print_ok (alias_name a)) = alias_toks (norm_alias false a)
    /\ (match a with None => True | Some (_, n) => ident_tokens print_ok n = [Tk TyIdent n] /\ alias_toks (norm_alias askw a) = (if askw then [Tk TyAs "AS"] else []) ++ [Tk TyIdent n] end).
Proof.
  intros [[k n]|] H askw; cbn [alias_p alias_name norm_alias option_map alias_toks snd] in *.
  - destruct (pw_facts n H) as (He & _). rewrite He, (pw_ident n H). cbn [app]. repeat split; reflexivity.
  - split; [reflexivity|exact I].
Qed.

Lemma table_okp : forall t, table_ok t = true -> table_p t = true ->
    print_table print_ok (ast_of_table t) = Some (table_toks (norm_table t)).
Proof.
  intros [path a] Hok Hp. unfold table_ok, table_p in *. cbn [tb_path tb_alias] in *.
  apply andb_prop in Hok. destruct Hok as [Hok _]. apply andb_prop in Hok. destruct Hok as [Hlen _].
  apply andb_prop in Hp. destruct Hp as [Hpw Ha].
  assert (Hne : path <> []) by (destruct path; [discriminate Hlen|discriminate]).
  unfold ast_of_table, norm_table, table_toks. cbn [tb_path tb_alias print_table ob app].
  rewrite (name_tokens_path true path Hne Hpw). destruct (alias_name_pw a Ha false) as [E _]. rewrite E. reflexivity.
Qed.

Lemma tables_okp : forall l, forallb table_ok l = true -> forallb table_p l = true ->
    list_opt [Tk TyFrom "FROM"] (map (print_table print_ok) (map ast_of_table l)) = Some (from_toks (map norm_table l)).
Proof.
  intros l Hok Hp. unfold from_toks, list_clause, list_opt. destruct l as [|t l]; [reflexivity|].
  set (l' := t :: l) in *. rewrite !map_map.
  rewrite (all_some_map (fun x => print_table print_ok (ast_of_table x)) (fun x => table_toks (norm_table x)) l').
  - reflexivity.
  - intros x Hx. apply table_okp; eapply forallb_In; eassumption.
Qed.

Lemma join_type_toks : forall j, join_ok j = true ->
    join_type_tokens (join_type j) = Some ((if j_nat j then [Tk TyNatural "NATURAL"] else []) ++ side_toks (norm_side (j_side j))).
Proof. intros [n s t c] _. cbn [j_nat j_side]. destruct n, s as [| |o|o|o|]; try destruct o; reflexivity. Qed.

Lemma cond_okp : forall c, match c with None => true | Some (JOn e) => ref_expr e | Some (JUsing cols) => negb (Nat.eqb (length cols) 0) && forallb name_ok cols end = true ->
    cond_p c = true ->
    match ast_of_cond c with
    | None => Some []
    | Some (GList cols) => ob (print_exprs print_ok cols) (fun ts => Some (Tk TyUsing "USING" :: tLP :: ts ++ [tRP]))
    | Some e => ob (print_expr print_ok e) (fun ts => Some (Tk TyOn "ON" :: ts))
    end = Some (cond_toks no_parens (norm_cond c)).
Proof.
  intros [[e|cols]|] Hok Hp; cbn [cond_p ast_of_cond norm_cond cond_toks] in *; [| |reflexivity].
  - pose proof (expr_ok e Hok Hp) as He.
    remember (ast_of e) as g eqn:E.
    assert (Hg : forall c, g <> GList c) by (subst g; destruct e; discriminate).
    destruct g; try (rewrite He; reflexivity). exfalso. eapply Hg. reflexivity.
  - apply andb_prop in Hok. destruct Hok as [Hlen _].
    destruct cols as [|c1 [|c2 r]]; [discriminate Hlen| |].
    + cbn [forallb] in Hp. apply andb_prop in Hp. destruct Hp as [Hc _].
      cbn [print_expr String.eqb ob]. rewrite (pw_ident c1 Hc). cbn [cond_toks render wrap parens level_of no_parens Nat.ltb Nat.leb Nat.add].
      reflexivity.
    + rewrite (ident_exprs (c1 :: c2 :: r) Hp). reflexivity.
Qed.

Lemma join_okp : forall j left, join_ok j = true -> join_p j = true ->
    print_join print_ok (GJoin (join_type j) left (ast_of_table (j_table j)) (ast_of_cond (j_cond j))) = Some (join_toks no_parens (norm_join j)).
Proof.
  intros j left Hok Hp. pose proof (join_type_toks j Hok) as Ht.
  unfold join_ok in Hok. apply andb_prop in Hok. destruct Hok as [Hok Hc]. apply andb_prop in Hok. destruct Hok as [Htb _].
  unfold join_p in Hp. apply andb_prop in Hp. destruct Hp as [Htp Hcp].
  cbn [print_join]. rewrite Ht. cbn [ob]. rewrite (table_okp (j_table j) Htb Htp). cbn [ob].
  assert (Hc' : match j_cond j with None => true | Some (JOn e) => ref_expr e | Some (JUsing cols) => negb (Nat.eqb (length cols) 0) && forallb name_ok cols end = true).
  { destruct (j_cond j) as [[e|cols]|]; [| |reflexivity]; apply andb_prop in Hc; destruct Hc as [_ Hc]; exact Hc. }
  rewrite (cond_okp (j_cond j) Hc' Hcp). cbn [ob]. unfold join_toks, norm_join. cbn [j_nat j_side j_table j_cond].
  rewrite <- !app_assoc. reflexivity.
Qed.

Lemma joins_okp : forall l base k, forallb join_ok l = true -> forallb join_p l = true ->
    ob (all_some (map (print_join print_ok) (ast_of_joins base k l))) (fun x => Some (List.concat x))
    = Some (joins_toks sr0 0 (map norm_join l)).
Proof.
  intros l base k Hok Hp. rewrite joins_toks0.
  assert (E : all_some (map (print_join print_ok) (ast_of_joins base k l)) = Some (map (join_toks no_parens) (map norm_join l))).
  { revert k. induction l as [|j l IH]; intros k; cbn [ast_of_joins map all_some]; [reflexivity|].
    cbn [forallb] in Hok, Hp. apply andb_prop in Hok, Hp. destruct Hok as [H1 H2], Hp as [P1 P2].
    rewrite (join_okp j _ H1 P1). rewrite (IH H2 P2). reflexivity. }
  rewrite E. reflexivity.
Qed.

Lemma item_okp : forall it, item_ok it = true -> item_p it = true ->
    print_item print_ok (ast_of_item it) = Some (item_toks no_parens (norm_item it)).
Proof.
  intros [|t|e a] Hok Hp; cbn [item_ok item_p ast_of_item norm_item item_toks] in *.
  - reflexivity.
  - destruct (pw_facts t Hp) as (He & _). cbn [print_item print_expr]. rewrite He. rewrite (pw_ident t Hp). reflexivity.
  - apply andb_prop in Hok, Hp. destruct Hok as [Hr Ha], Hp as [Hpe Hpa].
    destruct a as [[k n]|]; cbn [norm_alias option_map alias_toks snd].
    + cbn [print_item]. rewrite (expr_ok e Hr Hpe). cbn [ob alias_p] in *. rewrite (pw_ident n Hpa). reflexivity.
    + rewrite app_nil_r, item_plain. apply expr_ok; assumption.
Qed.

Lemma group_okp : forall g, group_ok g = true -> group_p g = true ->
    print_group print_ok (ast_of_group g) = Some (group_item_toks sr0 0 (norm_group g)).
Proof.
  intros [e|es|es|sets] Hok Hp; cbn [group_ok group_p ast_of_group norm_group group_item_toks] in *; [| | |discriminate Hp].
  - rewrite group_plain. apply expr_ok; assumption.
  - apply andb_prop in Hok. destruct Hok as [_ Hr]. cbn [print_group]. rewrite (exprs_ok es Hr Hp). rewrite exprs_toks0. reflexivity.
  - apply andb_prop in Hok. destruct Hok as [_ Hr]. cbn [print_group]. rewrite (exprs_ok es Hr Hp). rewrite exprs_toks0. reflexivity.
Qed.

Lemma order_okp : forall o, order_ok o = true -> pe (o_expr o) = true ->
    print_order print_ok (ast_of_order o) = Some (order_toks no_parens (norm_order o)).
Proof.
  intros [e d n] Hok Hp. unfold order_ok in Hok. cbn [o_expr] in *. unfold ast_of_order, norm_order, order_toks. cbn [o_expr o_dir o_nulls print_order].
  rewrite (expr_ok e Hok Hp). cbn [ob]. destruct d as [[|]|], n as [[|]|]; reflexivity.
Qed.

Lemma list_opt_map : forall {A} kwd (f : A -> option (list token)) (g : A -> list token) l,
    (forall x, In x l -> f x = Some (g x)) -> list_opt kwd (map f l) = Some (list_clause kwd (map g l)).
Proof.
  intros A kwd f g l H. unfold list_opt, list_clause. destruct l as [|x l]; [reflexivity|].
  set (l' := x :: l) in *. cbn [map]. change (f x :: map f l) with (map f l'). change (g x :: map g l) with (map g l').
  rewrite (all_some_map f g l' H). reflexivity.
Qed.

Lemma opt_expr_okp : forall kwd o, optb ref_expr o = true -> optb pe o = true ->
    opt_expr print_ok kwd (option_map ast_of o) = Some (opt_clause kwd (render 0 no_parens) (option_map nm o)).
Proof.
  intros kwd [e|] Hr Hp; cbn [optb option_map opt_expr opt_clause] in *; [|reflexivity]. rewrite (expr_ok e Hr Hp). reflexivity.
Qed.

Lemma opt_num_okp : forall kwd o, optb canon o = true ->
    opt_num kwd (option_map dec_value o) = Some (opt_clause kwd (fun s => [Tk TyNumber s]) o).
Proof. intros kwd [s|] H; cbn [optb option_map opt_num opt_clause] in *; [|reflexivity]. rewrite (num_canon s H). reflexivity. Qed.

Lemma fetch_okp : forall o, optb (fun f => canon (ft_count f)) o = true ->
    print_fetch (option_map ast_of_fetch o) = Some (fetch_toks (option_map norm_fetch o)).
Proof.
  intros [[nx cnt pc rows ties]|] H; cbn [optb option_map print_fetch fetch_toks opt_clause] in *; [|reflexivity].
  unfold ast_of_fetch, norm_fetch. cbn [ft_next ft_count ft_percent ft_rows ft_ties f_type f_value f_percent f_ties].
  rewrite (num_canon cnt H). destruct nx, pc, ties; reflexivity.
Qed.

Lemma distinct_okp : forall d don,
    (d || match don with [] => true | _ => false end) = true -> forallb ref_expr don = true -> forallb pe don = true ->
    match map ast_of don with
    | [] => Some (if d then [Tk TyDistinct "DISTINCT"] else [])
    | _ => ob (print_exprs print_ok (map ast_of don)) (fun ts => Some (Tk TyDistinct "DISTINCT" :: Tk TyOn "ON" :: tLP :: ts ++ [tRP]))
    end = Some (distinct_toks sr0 d (map nm don)).
Proof.
  intros d don Hd Hr Hp. unfold distinct_toks. destruct don as [|x l].
  - destruct d; reflexivity.
  - rewrite orb_false_r in Hd. subst d. set (l' := x :: l) in *.
    change (map ast_of l') with (ast_of x :: map ast_of l). cbv iota. change (ast_of x :: map ast_of l) with (map ast_of l').
    rewrite (exprs_ok l' Hr Hp). rewrite exprs_toks0. reflexivity.
Qed.

(* the SELECT printer on the prescribed tree, with the WITH part given *)
Lemma select_okp : forall s w wt, select_ok s = true -> select_p s = true ->
    match w with None => Some [] | Some w' => print_with print_ok w' end = Some wt ->
    print_select print_ok (ast_of_select_w w s) = Some (wt ++ render_select sr0 (norm_select s)).
Proof.
  intros s w wt Hok Hp Hw. unfold select_ok in Hok. unfold select_p in Hp.
  repeat (apply andb_prop in Hok; let H := fresh "Ho" in destruct Hok as [Hok H]).
  repeat (apply andb_prop in Hp; let H := fresh "Hq" in destruct Hp as [Hp H]).
  destruct (s_for s) as [fo|] eqn:Efo; [discriminate Hq|]. clear Hq.
  rename Hq0 into Hq. rename Hq1 into Hq0. rename Hq2 into Hq1. rename Hq3 into Hq2. rename Hq4 into Hq3. rename Hq5 into Hq4.
  rename Hq6 into Hq5. rename Hq7 into Hq6. rename Hq8 into Hq7.
  unfold ast_of_select_w. rewrite Efo. cbn [option_map print_select]. rewrite Hw. cbn [ob].
  rewrite (distinct_okp (s_distinct s) (s_distinct_on s) Hok Ho11 Hp). cbn [ob].
  rewrite map_map.
  rewrite (all_some_map (fun x => print_item print_ok (ast_of_item x)) (fun x => item_toks no_parens (norm_item x)) (s_items s))
    by (intros x Hx; apply item_okp; eapply forallb_In; eassumption).
  cbn [ob]. rewrite (tables_okp (s_from s) Ho8 Hq7). cbn [ob].
  rewrite (joins_okp (s_joins s) _ 0 Ho6 Hq6). cbn [ob].
  rewrite (opt_expr_okp [Tk TyWhere "WHERE"] (s_where s) Ho5 Hq5). cbn [ob].
  rewrite map_map.
  rewrite (list_opt_map [Tk TyGroup "GROUP"; Tk TyBy "BY"] (fun x => print_group print_ok (ast_of_group x)) (fun x => group_item_toks sr0 0 (norm_group x)) (s_group s))
    by (intros x Hx; apply group_okp; eapply forallb_In; eassumption).
  cbn [ob]. rewrite (opt_expr_okp [Tk TyHaving "HAVING"] (s_having s) Ho3 Hq3). cbn [ob].
  rewrite map_map.
  rewrite (list_opt_map [Tk TyOrder "ORDER"; Tk TyBy "BY"] (fun x => print_order print_ok (ast_of_order x)) (fun x => order_toks no_parens (norm_order x)) (s_order s))
    by (intros x Hx; apply order_okp; [eapply forallb_In; eassumption|apply (forallb_In (fun o => pe (o_expr o)) (s_order s) x Hq2 Hx)]).
  cbn [ob]. rewrite (opt_num_okp [Tk TyLimit "LIMIT"] (s_limit s) Hq1). cbn [ob].
  rewrite (opt_num_okp [Tk TyOffset "OFFSET"] (s_offset s) Hq0). cbn [ob].
  rewrite (fetch_okp (s_fetch s) Hq). cbn [ob].
  unfold render_select, select_tail_toks, norm_select.
  cbn [s_distinct s_distinct_on s_items s_from s_joins s_where s_group s_having s_order s_limit s_offset s_fetch s_for].
  rewrite Efo. cbn [for_toks opt_clause]. rewrite app_nil_r.
  unfold where_toks, having_toks, group_toks, orderby_toks, limit_toks, offset_toks.
  rewrite items_toks0, groups_toks0, orders_toks0, !map_map.
  first [reflexivity | rewrite <- !app_assoc; reflexivity | f_equal; rewrite <- !app_assoc; reflexivity].
Qed.

(* ------------------------------------------------------------------------------------------------ *)
(* the normalised SELECT has the same prescribed tree and stays in the reference surface *)
Lemma map_nm_ast : forall l, map ast_of (map nm l) = map ast_of l.
Proof. intros l. rewrite map_map. apply map_ext. intros e. apply ast_of_norm. Qed.
Lemma opt_nm_ast : forall o, option_map ast_of (option_map nm o) = option_map ast_of o.
Proof. intros [e|]; cbn [option_map]; [unfold nm; rewrite ast_of_norm|]; reflexivity. Qed.
Lemma table_norm_ast : forall t, ast_of_table (norm_table t) = ast_of_table t.
Proof. intros [p [[k n]|]]; reflexivity. Qed.
Lemma cond_norm_ast : forall c, ast_of_cond (norm_cond c) = ast_of_cond c.
Proof.
  intros [[e|[|c1 [|c2 r]]]|]; cbn [norm_cond ast_of_cond]; try reflexivity. unfold nm. rewrite ast_of_norm. reflexivity.
Qed.
Lemma join_type_norm : forall j, join_type (norm_join j) = join_type j.
Proof. intros [n s t c]. unfold join_type, norm_join. cbn [j_nat j_side]. destruct n, s as [| |o|o|o|]; reflexivity. Qed.
Lemma joins_norm_ast : forall l base k, ast_of_joins base k (map norm_join l) = ast_of_joins base k l.
Proof.
  induction l as [|j l IH]; intros base k; cbn [map ast_of_joins]; [reflexivity|].
  rewrite join_type_norm, IH. unfold norm_join at 1 2. cbn [j_table j_cond]. rewrite table_norm_ast, cond_norm_ast. reflexivity.
Qed.
Lemma item_norm_ast : forall it, ast_of_item (norm_item it) = ast_of_item it.
Proof. intros [|t|e [[k n]|]]; cbn [norm_item ast_of_item norm_alias option_map snd]; try reflexivity; unfold nm; rewrite ast_of_norm; reflexivity. Qed.
Lemma group_norm_ast : forall g, ast_of_group (norm_group g) = ast_of_group g.
Proof. intros [e|es|es|sets]; cbn [norm_group ast_of_group]; [unfold nm; rewrite ast_of_norm|rewrite map_nm_ast|rewrite map_nm_ast|]; reflexivity. Qed.
Lemma order_norm_ast : forall o, ast_of_order (norm_order o) = ast_of_order o.
Proof. intros [e d n]. unfold ast_of_order, norm_order. cbn [o_expr o_dir o_nulls]. unfold nm. rewrite ast_of_norm. destruct d as [[|]|]; reflexivity. Qed.
Lemma fetch_norm_ast : forall o, option_map ast_of_fetch (option_map norm_fetch o) = option_map ast_of_fetch o.
Proof. intros [f|]; reflexivity. Qed.

Lemma select_norm_ast : forall w s, ast_of_select_w w (norm_select s) = ast_of_select_w w s.
Proof.
  intros w s. unfold ast_of_select_w, norm_select.
  cbn [s_distinct s_distinct_on s_items s_from s_joins s_where s_group s_having s_order s_limit s_offset s_fetch s_for].
  rewrite map_nm_ast, !opt_nm_ast, fetch_norm_ast, joins_norm_ast.
  rewrite (map_map norm_item ast_of_item), (map_ext _ _ item_norm_ast).
  rewrite (map_map norm_table ast_of_table), (map_ext _ _ table_norm_ast).
  rewrite (map_map norm_group ast_of_group), (map_ext _ _ group_norm_ast).
  rewrite (map_map norm_order ast_of_order), (map_ext _ _ order_norm_ast).
  reflexivity.
Qed.

Lemma forallb_map : forall {A B} (f : B -> bool) (g : A -> B) l, forallb f (map g l) = forallb (fun x => f (g x)) l.
Proof. intros A B f g l. induction l as [|x l IH]; cbn [map forallb]; [reflexivity|]. rewrite IH. reflexivity. Qed.
Lemma forallb_impl : forall {A} (f g : A -> bool) l, (forall x, f x = true -> g x = true) -> forallb f l = true -> forallb g l = true.
Proof.
  intros A f g l H. induction l as [|x l IH]; intros Hf; cbn [forallb] in *; [reflexivity|].
  apply andb_prop in Hf. destruct Hf as [H1 H2]. rewrite (H x H1), (IH H2). reflexivity.
Qed.
Lemma refs_nm : forall l, forallb ref_expr l = true -> forallb ref_expr (map nm l) = true.
Proof. intros l H. rewrite forallb_map. eapply forallb_impl; [|exact H]. intros x. apply ref_norm. Qed.
Lemma optb_nm : forall o, optb ref_expr o = true -> optb ref_expr (option_map nm o) = true.
Proof. intros [e|] H; cbn [optb option_map] in *; [apply ref_norm; exact H|reflexivity]. Qed.

Lemma table_norm_ok : forall t, table_ok t = true -> table_ok (norm_table t) = true.
Proof. intros [p [[k n]|]] H; exact H. Qed.
Lemma join_norm_ok : forall j, join_ok j = true -> join_ok (norm_join j) = true.
Proof.
  intros [n s t c] H. unfold join_ok, norm_join in *. cbn [j_nat j_side j_table j_cond] in *.
  apply andb_prop in H. destruct H as [H Hc]. apply andb_prop in H. destruct H as [Ht Hx].
  rewrite (table_norm_ok t Ht). cbn [andb].
  assert (Ecross : match norm_side s with SCross => true | _ => false end = match s with SCross => true | _ => false end)
    by (destruct s as [| |o|o|o|]; reflexivity).
  rewrite Ecross, Hx. cbn [andb].
  destruct c as [[e|cols]|]; cbn [norm_cond]; [| |exact Hc].
  - apply andb_prop in Hc. destruct Hc as [Hc He]. rewrite Hc. cbn [andb]. apply ref_norm. exact He.
  - apply andb_prop in Hc. destruct Hc as [Hc He]. apply andb_prop in He. destruct He as [Hl Hn].
    destruct cols as [|c1 [|c2 r]]; [discriminate Hl| |].
    + rewrite Hc. cbn [andb ref_expr]. cbn [forallb] in Hn. apply andb_prop in Hn. destruct Hn as [Hn _]. exact Hn.
    + rewrite Hc, Hl, Hn. reflexivity.
Qed.
Lemma item_norm_ok : forall it, item_ok it = true -> item_ok (norm_item it) = true /\ bare_alias_free (norm_item it) = true.
Proof.
  intros [|t|e a] H; cbn [item_ok norm_item bare_alias_free] in *; try (split; [exact H|reflexivity]).
  apply andb_prop in H. destruct H as [Hr Ha]. unfold nm. rewrite (ref_norm print_ok e Hr). destruct a as [[k n]|]; split; try reflexivity; exact Ha.
Qed.
Lemma group_norm_ok : forall g, group_ok g = true -> group_ok (norm_group g) = true.
Proof.
  intros [e|es|es|sets] H; cbn [group_ok norm_group] in *; [apply ref_norm; exact H| | |exact H];
    apply andb_prop in H; destruct H as [Hl Hr]; rewrite map_length, Hl, (refs_nm es Hr); reflexivity.
Qed.

Lemma select_norm_ok : forall s, select_ok s = true ->
    select_ok (norm_select s) = true /\ select_bare_alias_free (norm_select s) = true.
Proof.
  intros s Hok. unfold select_ok in Hok.
  repeat (apply andb_prop in Hok; let H := fresh "Ho" in destruct Hok as [Hok H]).
  unfold select_ok, select_bare_alias_free, norm_select.
  cbn [s_distinct s_distinct_on s_items s_from s_joins s_where s_group s_having s_order s_limit s_offset s_fetch s_for].
  assert (E1 : match map nm (s_distinct_on s) with [] => true | _ => false end = match s_distinct_on s with [] => true | _ => false end)
    by (destruct (s_distinct_on s); reflexivity).
  assert (E2 : match map norm_table (s_from s) with [] => match map norm_join (s_joins s) with [] => true | _ => false end | _ => true end
               = match s_from s with [] => match s_joins s with [] => true | _ => false end | _ => true end)
    by (destruct (s_from s); [destruct (s_joins s)|]; reflexivity).
  rewrite E1, E2, Hok, Ho7, map_length, Ho10, (refs_nm _ Ho11), (optb_nm _ Ho5), (optb_nm _ Ho3), Ho1, Ho0.
  rewrite !forallb_map.
  rewrite (forallb_impl _ _ _ (fun x H => proj1 (item_norm_ok x H)) Ho9).
  rewrite (forallb_impl _ _ _ table_norm_ok Ho8), (forallb_impl _ _ _ join_norm_ok Ho6), (forallb_impl _ _ _ group_norm_ok Ho4).
  rewrite (forallb_impl order_ok (fun x => order_ok (norm_order x)) _ (fun x H => ref_norm print_ok (o_expr x) H) Ho2).
  split.
  - cbn [andb]. destruct (s_fetch s) as [f|]; exact Ho.
  - eapply forallb_impl; [|exact Ho9]. intros x H. apply (item_norm_ok x H).
Qed.

(* ------------------------------------------------------------------------------------------------ *)
(* SELECT: the printer writes the rendering of the normalised statement, and the parser model reads it back *)
Theorem print_select_is_render : forall s, select_ok s = true -> select_p s = true ->
    print_select print_ok (ast_of_select s) = Some (render_select sr0 (norm_select s)).
Proof. intros s Hok Hp. exact (select_okp s None [] Hok Hp eq_refl). Qed.

Theorem print_parse_select : forall md sf fuel s stop d,
    select_ok s = true -> select_p s = true -> query_follow stop ->
    d + 2 + select_depth sr0 (norm_select s) <= md ->
    exists ts, print_select print_ok (ast_of_select s) = Some ts
               /\ (length (ts ++ stop) <= fuel ->
                   parse_statement md sf (parse_expression md no_defects fuel) d (ts ++ stop) = Val (GSelectS (ast_of_select s), stop)).
Proof.
  intros md sf fuel s stop d Hok Hp Hst Hdep. eexists. split; [apply print_select_is_render; assumption|].
  intros Hlen. destruct (select_norm_ok s Hok) as [Hok' Hbare].
  unfold ast_of_select. rewrite <- (select_norm_ast None s).
  apply parse_render_select; try assumption. right. exact Hbare.
Qed.

(* ------------------------------------------------------------------------------------------------ *)
(* query expressions, WITH, INSERT / UPDATE / DELETE *)
Lemma render_query_base : forall q b, render_query sr0 b q = render_query sr0 0 q.
Proof.
  induction q as [s|l IH op all r]; intros b; cbn [render_query].
  - reflexivity.
  - rewrite (IH b). reflexivity.
Qed.

Lemma setop_tok_ok : forall op, setop_token (setop_str op) = Some (setop_tok op).
Proof. destruct op; reflexivity. Qed.

Lemma query_okp : forall q w wt, query_ok q = true -> query_p q = true ->
    match w with None => Some [] | Some w' => print_with print_ok w' end = Some wt ->
    print_stmt print_ok (ast_of_query_w w q) = Some (wt ++ render_query sr0 0 (norm_query q)).
Proof.
  induction q as [s|l IH op all r]; intros w wt Hok Hp Hw; cbn [query_ok query_p ast_of_query_w norm_query render_query] in *.
  - cbn [print_stmt]. apply select_okp; assumption.
  - apply andb_prop in Hok. destruct Hok as [Hok Hpl]. apply andb_prop in Hok. destruct Hok as [Hok Hr]. apply andb_prop in Hok. destruct Hok as [Hl _].
    apply andb_prop in Hp. destruct Hp as [Hpl' Hpr].
    cbn [print_stmt]. rewrite (IH w wt Hl Hpl' Hw). cbn [ob]. rewrite setop_tok_ok. cbn [ob print_stmt]. unfold ast_of_select.
    rewrite (select_okp r None [] Hr Hpr eq_refl). cbn [ob app].
    rewrite <- !app_assoc. reflexivity.
Qed.

Lemma cte_okp : forall c, cte_ok c = true -> cte_p c = true ->
    print_cte print_ok (ast_of_cte c) = Some (cte_toks sr0 0 (norm_cte c)).
Proof.
  intros [n cols mat body] Hok Hp. unfold cte_ok, cte_p in *. cbn [c_name c_cols c_mat c_body] in *.
  apply andb_prop in Hp. destruct Hp as [Hp Hq]. apply andb_prop in Hp. destruct Hp as [Hn Hc].
  unfold ast_of_cte, norm_cte, cte_toks. cbn [c_name c_cols c_mat c_body print_cte].
  unfold ast_of_query. rewrite (query_okp body None [] Hok Hq eq_refl). cbn [ob app].
  rewrite (pw_ident n Hn). unfold cols_toks. rewrite (names_tokens_words cols Hc).
  destruct cols, mat as [[|]|]; reflexivity.
Qed.

Lemma ctes_toks0 : forall l b, ctes_toks sr0 b l = map (cte_toks sr0 0) l.
Proof.
  induction l as [|c l IH]; intros b; cbn [ctes_toks map]; [reflexivity|]. rewrite IH. f_equal.
  unfold cte_toks. rewrite render_query_base. reflexivity.
Qed.

Lemma with_okp : forall w, with_ok w = true -> with_p w = true ->
    match ast_of_with w with None => Some [] | Some w' => print_with print_ok w' end = Some (with_toks sr0 (norm_with w)).
Proof.
  intros [[rc ctes]|] Hok Hp; cbn [ast_of_with norm_with option_map with_toks]; [|reflexivity].
  unfold with_ok, with_p in *. cbn [w_rec w_ctes] in *. apply andb_prop in Hok. destruct Hok as [_ Hok].
  cbn [print_with]. rewrite map_map.
  rewrite (all_some_map (fun x => print_cte print_ok (ast_of_cte x)) (fun x => cte_toks sr0 0 (norm_cte x)) ctes)
    by (intros x Hx; apply cte_okp; eapply forallb_In; eassumption).
  cbn [ob]. rewrite ctes_toks0, map_map. reflexivity.
Qed.

Lemma assigns_okp : forall c i sets, forallb (fun ce : string * mexpr => ref_expr (snd ce)) sets = true -> sets_p sets = true ->
    print_assigns print_ok (ast_of_sets sets) = Some (sep_by [tComma] (assign_toks sr0 c i (norm_sets sets))).
Proof.
  intros c i sets Hr Hp. unfold print_assigns, ast_of_sets, norm_sets. rewrite assign_toks0, !map_map.
  rewrite (all_some_map (fun x : string * mexpr => print_assign print_ok (GIdent (fst x) "", ast_of (snd x)))
             (fun x => Tk TyIdent (fst x) :: Tk TyEq "=" :: render 0 no_parens (nm (snd x))) sets).
  - reflexivity.
  - intros [n e] Hx. cbn [fst snd]. unfold print_assign. cbn [fst snd print_expr String.eqb].
    pose proof (forallb_In _ _ _ Hr Hx) as H1. pose proof (forallb_In _ _ _ Hp Hx) as H2. cbn [fst snd] in H1, H2.
    apply andb_prop in H2. destruct H2 as [Hn He]. rewrite (pw_ident n Hn). cbn [ob]. rewrite (expr_ok e H1 He). reflexivity.
Qed.

Lemma returning_okp : forall l, forallb ref_expr l = true -> forallb pe l = true ->
    print_returning print_ok (map ast_of l) = Some (returning_toks sr0 (map nm l)).
Proof.
  intros l Hr Hp. unfold print_returning, returning_toks. rewrite map_map, exprs_toks0.
  rewrite (list_opt_map [Tk TyReturning "RETURNING"] (fun x => print_expr print_ok (ast_of x)) (fun x => render 0 no_parens (nm x)) l)
    by (intros x Hx; apply expr_ok; eapply forallb_In; eassumption).
  rewrite map_map. reflexivity.
Qed.

Lemma conflict_okp : forall cf, optb conflict_ok cf = true -> optb conflict_p cf = true ->
    print_conflict print_ok (option_map ast_of_conflict cf) = Some (conflict_toks sr0 (option_map norm_conflict cf)).
Proof.
  intros [[tg act]|] Hok Hp; cbn [optb option_map print_conflict conflict_toks] in *; [|reflexivity].
  unfold conflict_ok, conflict_p in *. cbn [cf_target cf_action] in *.
  apply andb_prop in Hok, Hp. destruct Hok as [Hto Hao], Hp as [Htp Hap].
  unfold ast_of_conflict, norm_conflict. cbn [cf_target cf_action].
  assert (Et : match (match tg with CtCols cols => map (fun c => GIdent c "") cols | _ => [] end) with
               | [] => Some []
               | _ => ob (print_exprs print_ok (match tg with CtCols cols => map (fun c => GIdent c "") cols | _ => [] end)) (fun ts => Some (tLP :: ts ++ [tRP]))
               end = Some (match tg with CtCols cols => tLP :: idents_toks cols ++ [tRP] | _ => [] end)).
  { destruct tg as [|cols|n]; try reflexivity. destruct cols as [|c cols]; [discriminate Hto|].
    set (l := c :: cols) in *. change (map (fun c0 => GIdent c0 "") l) with (GIdent c "" :: map (fun c0 => GIdent c0 "") cols).
    cbv iota. change (GIdent c "" :: map (fun c0 => GIdent c0 "") cols) with (map (fun c0 => GIdent c0 "") l).
    rewrite (ident_exprs l Htp). reflexivity. }
  rewrite Et. cbn [ob].
  assert (Ec : (if String.eqb (match tg with CtConstraint n => n | _ => "" end) "" then []
                else Tk TyOn "ON" :: Tk TyConstraint "CONSTRAINT" :: ident_tokens print_ok (match tg with CtConstraint n => n | _ => "" end))
               = match tg with CtConstraint n => [Tk TyOn "ON"; Tk TyConstraint "CONSTRAINT"; Tk TyIdent n] | _ => [] end).
  { destruct tg as [|cols|n]; try reflexivity. destruct (pw_facts n Htp) as (He & _). rewrite He, (pw_ident n Htp). reflexivity. }
  rewrite Ec.
  destruct act as [|sets wh].
  - cbn [ob]. destruct tg; reflexivity.
  - apply andb_prop in Hao. destruct Hao as [Hao Hwo]. apply andb_prop in Hao. destruct Hao as [Hlen Hso].
    apply andb_prop in Hap. destruct Hap as [Hsp Hwp].
    assert (Hne : ast_of_sets sets <> []) by (destruct sets; [discriminate Hlen|discriminate]).
    destruct (ast_of_sets sets) eqn:E; [contradiction|]. rewrite <- E.
    rewrite (assigns_okp cl_cset 0 sets Hso Hsp). cbn [ob].
    rewrite (opt_expr_okp [Tk TyWhere "WHERE"] wh Hwo Hwp). cbn [ob].
    unfold where_toks_at. destruct tg; cbn [app]; rewrite <- ?app_assoc; reflexivity.
Qed.

Lemma rows_okp : forall rows, forallb row_ok rows = true -> forallb (forallb pe) rows = true ->
    print_rows print_ok (map (map ast_of) rows) = Some (sep_by [tComma] (rows_toks sr0 0 (map (map nm) rows))).
Proof.
  intros rows Hok Hp. unfold print_rows. rewrite rows_toks0, !map_map.
  rewrite (all_some_map (fun row => ob (print_exprs print_ok (map ast_of row)) (fun ts => Some (tLP :: ts ++ [tRP])))
             (fun row => tLP :: sep_by [tComma] (map (render 0 no_parens) (map nm row)) ++ [tRP]) rows).
  - reflexivity.
  - intros row Hx. pose proof (forallb_In _ _ _ Hok Hx) as H1. pose proof (forallb_In _ _ _ Hp Hx) as H2.
    unfold row_ok in H1. apply andb_prop in H1. destruct H1 as [_ H1]. rewrite (exprs_ok row H1 H2). reflexivity.
Qed.

Ltac fin := rewrite ?shift_sr0; first [reflexivity | rewrite <- !app_assoc; cbn [app]; rewrite <- ?app_assoc; reflexivity].

Theorem print_stmt_is_render : forall s, stmt_ok s = true -> stmt_p s = true ->
    print_stmt print_ok (ast_of_stmt s) = Some (render_stmt sr0 (norm_stmt s)).
Proof.
  intros [w b] Hok Hp. unfold stmt_ok, stmt_p in *. cbn [st_with st_body] in *.
  apply andb_prop in Hok. destruct Hok as [Hok _].
  apply andb_prop in Hok, Hp. destruct Hok as [Hwo Hbo], Hp as [Hwp Hbp].
  pose proof (with_okp w Hwo Hwp) as Hw.
  unfold ast_of_stmt, render_stmt, norm_stmt. cbn [st_with st_body].
  destruct b as [q|t cols src cf ret|t sets wh ret|t wh ret|m]; cbn [body_ok body_p norm_body ast_of_stmt_w RefStmt.render_body] in *;
    [| | | |discriminate Hbp].
  - rewrite (query_okp q _ _ Hbo Hbp Hw). rewrite (render_query_base _ (with_size _)). reflexivity.
  - repeat (apply andb_prop in Hbo; let H := fresh "Ho" in destruct Hbo as [Hbo H]).
    repeat (apply andb_prop in Hbp; let H := fresh "Hq" in destruct Hbp as [Hbp H]).
    unfold path_ok in Hbo. assert (Hne : t <> []) by (destruct t; [discriminate Hbo|discriminate]).
    cbn [print_stmt]. rewrite Hw. cbn [ob].
    assert (Ecols : match map (fun c => GIdent c "") cols with [] => Some []
                    | _ => ob (print_exprs print_ok (map (fun c => GIdent c "") cols)) (fun ts => Some (tLP :: ts ++ [tRP])) end
                    = Some (cols_toks cols)).
    { destruct cols as [|c cols']; [reflexivity|]. set (l := c :: cols') in *.
      change (map (fun c0 => GIdent c0 "") l) with (GIdent c "" :: map (fun c0 => GIdent c0 "") cols'). cbv iota.
      change (GIdent c "" :: map (fun c0 => GIdent c0 "") cols') with (map (fun c0 => GIdent c0 "") l).
      rewrite (ident_exprs l Hq2). reflexivity. }
    rewrite Ecols. cbn [ob].
    rewrite (name_tokens_path false t Hne Hbp).
    destruct src as [rows|q].
    + apply andb_prop in Ho. destruct Ho as [Hlen Hrows].
      assert (Hr : map (map ast_of) rows <> []) by (destruct rows; [discriminate Hlen|discriminate]).
      destruct (map (map ast_of) rows) eqn:E; [contradiction|]. rewrite <- E.
      rewrite (rows_okp rows Hrows Hq1). cbn [ob].
      rewrite (conflict_okp cf Ho0 Hq0). cbn [ob]. rewrite (returning_okp ret Ho1 Hq). cbn [ob].
      fin.
    + unfold ast_of_query. rewrite (query_okp q None [] Ho Hq1 eq_refl). cbn [ob app].
      rewrite (conflict_okp cf Ho0 Hq0). cbn [ob]. rewrite (returning_okp ret Ho1 Hq). cbn [ob].
      rewrite (render_query_base _ (with_size _)). fin.
  - repeat (apply andb_prop in Hbo; let H := fresh "Ho" in destruct Hbo as [Hbo H]).
    repeat (apply andb_prop in Hbp; let H := fresh "Hq" in destruct Hbp as [Hbp H]).
    unfold path_ok in Hbo. assert (Hne : t <> []) by (destruct t; [discriminate Hbo|discriminate]).
    cbn [print_stmt map list_opt String.eqb]. rewrite Hw. cbn [ob].
    rewrite (assigns_okp cl_set 0 sets Ho1 Hq1). cbn [ob].
    rewrite (opt_expr_okp [Tk TyWhere "WHERE"] wh Ho0 Hq0). cbn [ob]. rewrite (returning_okp ret Ho Hq). cbn [ob].
    rewrite (name_tokens_path false t Hne Hbp). unfold sets_toks, where_toks.
    fin.
  - repeat (apply andb_prop in Hbo; let H := fresh "Ho" in destruct Hbo as [Hbo H]).
    repeat (apply andb_prop in Hbp; let H := fresh "Hq" in destruct Hbp as [Hbp H]).
    unfold path_ok in Hbo. assert (Hne : t <> []) by (destruct t; [discriminate Hbo|discriminate]).
    cbn [print_stmt map list_opt String.eqb]. rewrite Hw. cbn [ob].
    rewrite (opt_expr_okp [Tk TyWhere "WHERE"] wh Ho0 Hq0). cbn [ob]. rewrite (returning_okp ret Ho Hq). cbn [ob].
    rewrite (name_tokens_path false t Hne Hbp). unfold where_toks.
    fin.
Qed.

(* ------------------------------------------------------------------------------------------------ *)
(* the normalised statement has the same prescribed tree and stays in the reference surface *)
Lemma query_norm_ast : forall q w, ast_of_query_w w (norm_query q) = ast_of_query_w w q.
Proof.
  induction q as [s|l IH op all r]; intros w; cbn [norm_query ast_of_query_w].
  - rewrite select_norm_ast. reflexivity.
  - rewrite IH. unfold ast_of_select. rewrite select_norm_ast. reflexivity.
Qed.
Lemma with_norm_ast : forall w, ast_of_with (norm_with w) = ast_of_with w.
Proof.
  intros [[rc ctes]|]; cbn [norm_with ast_of_with option_map w_rec w_ctes]; [|reflexivity].
  rewrite map_map. f_equal. f_equal. apply map_ext. intros [n cols mat body]. unfold ast_of_cte, norm_cte. cbn [c_name c_cols c_mat c_body].
  unfold ast_of_query. rewrite query_norm_ast. reflexivity.
Qed.
Lemma sets_norm_ast : forall l, ast_of_sets (norm_sets l) = ast_of_sets l.
Proof. intros l. unfold ast_of_sets, norm_sets. rewrite map_map. apply map_ext. intros [n e]. cbn [fst snd]. unfold nm. rewrite ast_of_norm. reflexivity. Qed.
Lemma conflict_norm_ast : forall cf, option_map ast_of_conflict (option_map norm_conflict cf) = option_map ast_of_conflict cf.
Proof.
  intros [[tg act]|]; cbn [option_map]; [|reflexivity]. unfold ast_of_conflict, norm_conflict. cbn [cf_target cf_action].
  destruct act as [|sets wh]; [reflexivity|]. rewrite sets_norm_ast, opt_nm_ast. reflexivity.
Qed.
Lemma stmt_norm_ast : forall s, ast_of_stmt (norm_stmt s) = ast_of_stmt s.
Proof.
  intros [w b]. unfold ast_of_stmt, norm_stmt. cbn [st_with st_body]. rewrite with_norm_ast.
  destruct b as [q|t cols src cf ret|t sets wh ret|t wh ret|m]; cbn [norm_body ast_of_stmt_w]; [| | | |reflexivity].
  - apply query_norm_ast.
  - rewrite conflict_norm_ast, map_nm_ast. destruct src as [rows|q].
    + rewrite map_map. rewrite (map_ext (fun x => map ast_of (map nm x)) (map ast_of) map_nm_ast). reflexivity.
    + unfold ast_of_query. rewrite query_norm_ast. reflexivity.
  - rewrite sets_norm_ast, opt_nm_ast, map_nm_ast. reflexivity.
  - rewrite opt_nm_ast, map_nm_ast. reflexivity.
Qed.

Lemma plain_norm : forall s, plain_operand s = true -> plain_operand (norm_select s) = true.
Proof.
  intros s H. unfold plain_operand, norm_select in *.
  cbn [s_order s_limit s_offset s_fetch s_for]. destruct (s_order s); [|discriminate H]. destruct (s_limit s), (s_offset s), (s_fetch s), (s_for s); try discriminate H. reflexivity.
Qed.
Lemma operands_norm : forall q, operands_plain q = true -> operands_plain (norm_query q) = true.
Proof.
  induction q as [s|l IH op all r]; intros H; cbn [operands_plain norm_query] in *; [apply plain_norm; exact H|].
  apply andb_prop in H. destruct H as [H1 H2]. rewrite (IH H1), (plain_norm r H2). reflexivity.
Qed.
Lemma query_norm_ok : forall q, query_ok q = true -> query_ok (norm_query q) = true /\ query_bare_alias_free (norm_query q) = true.
Proof.
  induction q as [s|l IH op all r]; intros H; cbn [query_ok norm_query query_bare_alias_free] in *; [apply select_norm_ok; exact H|].
  apply andb_prop in H. destruct H as [H Hp]. apply andb_prop in H. destruct H as [H Hr]. apply andb_prop in H. destruct H as [Hl Hlp].
  destruct (IH Hl) as [I1 I2]. destruct (select_norm_ok r Hr) as [R1 R2].
  rewrite I1, I2, R1, R2, (operands_norm l Hlp), (plain_norm r Hp). split; reflexivity.
Qed.
Lemma sets_norm_ok : forall l, forallb (fun ce : string * mexpr => ref_expr (snd ce)) l = true ->
    forallb (fun ce : string * mexpr => ref_expr (snd ce)) (norm_sets l) = true.
Proof. intros l H. unfold norm_sets. rewrite forallb_map. eapply forallb_impl; [|exact H]. intros [n e] Hx. cbn [snd] in *. apply ref_norm. exact Hx. Qed.

Lemma stmt_norm_ok : forall s, stmt_ok s = true -> stmt_ok (norm_stmt s) = true /\ stmt_bare_alias_free (norm_stmt s) = true.
Proof.
  intros [w b] H. unfold stmt_ok, stmt_bare_alias_free, norm_stmt in *. cbn [st_with st_body] in *.
  apply andb_prop in H. destruct H as [H Hm]. apply andb_prop in H. destruct H as [Hw Hb].
  assert (Ew : with_ok (norm_with w) = true
               /\ match norm_with w with None => true | Some w' => forallb (fun c => query_bare_alias_free (c_body c)) (w_ctes w') end = true).
  { destruct w as [[rc ctes]|]; cbn [norm_with option_map with_ok w_ctes] in *; [|split; reflexivity].
    apply andb_prop in Hw. destruct Hw as [Hl Hc]. rewrite map_length, Hl, !forallb_map. cbn [andb]. split.
    - eapply forallb_impl; [|exact Hc]. intros c Hx. unfold cte_ok, norm_cte in *. cbn [c_body]. apply (query_norm_ok _ Hx).
    - eapply forallb_impl; [|exact Hc]. intros c Hx. unfold cte_ok, norm_cte in *. cbn [c_body]. apply (query_norm_ok _ Hx). }
  destruct Ew as [Ew1 Ew2]. rewrite Ew1, Ew2. cbn [andb].
  destruct b as [q|t cols src cf ret|t sets wh ret|t wh ret|m]; cbn [body_ok norm_body] in *; rewrite ?andb_true_r.
  5:{ destruct w as [w|]; [discriminate Hm|]. cbn [norm_with option_map]. rewrite Hb. split; reflexivity. }
  - apply query_norm_ok. exact Hb.
  - repeat (apply andb_prop in Hb; let H := fresh "Ho" in destruct Hb as [Hb H]).
    rewrite Hb, (refs_nm ret Ho1). cbn [andb].
    assert (Ec : optb conflict_ok (option_map norm_conflict cf) = true).
    { destruct cf as [[tg act]|]; cbn [optb option_map] in *; [|reflexivity]. unfold conflict_ok, norm_conflict in *. cbn [cf_target cf_action] in *.
      apply andb_prop in Ho0. destruct Ho0 as [Ht Ha]. rewrite Ht. cbn [andb]. destruct act as [|sets wh]; [reflexivity|].
      apply andb_prop in Ha. destruct Ha as [Ha Hwh]. apply andb_prop in Ha. destruct Ha as [Hl Hs].
      unfold norm_sets at 1. rewrite map_length, Hl, (sets_norm_ok sets Hs), (optb_nm wh Hwh). reflexivity. }
    rewrite Ec. cbn [andb]. destruct src as [rows|q].
    + apply andb_prop in Ho. destruct Ho as [Hl Hr]. rewrite map_length, Hl. cbn [andb]. split; [|reflexivity].
      rewrite forallb_map. eapply forallb_impl; [|exact Hr]. intros row Hx. unfold row_ok in *. apply andb_prop in Hx. destruct Hx as [H1 H2].
      rewrite map_length, H1, (refs_nm row H2). reflexivity.
    + apply query_norm_ok. exact Ho.
  - repeat (apply andb_prop in Hb; let H := fresh "Ho" in destruct Hb as [Hb H]).
    unfold norm_sets at 1. rewrite Hb, map_length, Ho2, (sets_norm_ok sets Ho1), (optb_nm wh Ho0), (refs_nm ret Ho). split; reflexivity.
  - repeat (apply andb_prop in Hb; let H := fresh "Ho" in destruct Hb as [Hb H]).
    rewrite Hb, (optb_nm wh Ho0), (refs_nm ret Ho). split; reflexivity.
Qed.

(* the statement round trip *)
Theorem print_parse_stmt : forall md sf fuel s stop d,
    stmt_ok s = true -> stmt_p s = true -> stmt_follow stop ->
    d + stmt_depth sr0 (norm_stmt s) <= md ->
    exists ts, print_stmt print_ok (ast_of_stmt s) = Some ts
               /\ (length (ts ++ stop) <= fuel ->
                   parse_statement md sf (parse_expression md no_defects fuel) d (ts ++ stop) = Val (ast_of_stmt s, stop)).
Proof.
  intros md sf fuel s stop d Hok Hp Hst Hdep. eexists. split; [apply print_stmt_is_render; assumption|].
  intros Hlen. destruct (stmt_norm_ok s Hok) as [Hok' Hbare].
  rewrite <- (stmt_norm_ast s).
  apply parse_render_stmt; try assumption. right. exact Hbare.
Qed.

(* non-vacuity *)
Example ex_select_p : select_p ex_select = true. Proof. reflexivity. Qed.
Example ex_stmts_p : stmt_p ex_stmt_with = true /\ stmt_p ex_stmt_insert = true. Proof. split; reflexivity. Qed.
Example ex_stmt_print_parse :
  exists ts, print_stmt print_ok (ast_of_stmt ex_stmt_insert) = Some ts
             /\ parse_statement_top tree_flags (ts ++ [Tk TyEOF ""]) = Val (ast_of_stmt ex_stmt_insert, [Tk TyEOF ""]).
Proof. eexists. split; [vm_compute; reflexivity|vm_compute; reflexivity]. Qed.
