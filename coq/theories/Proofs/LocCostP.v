(* LocCostP.v — bridge between the functional model of toSQLPosition used by C05 (Model/Loc.v, [to_loc]) and the
   two operational forms of Model/Cost.v (C20): the rescanning form of the pinned tree and the resume-point form
   that is in the tree since d9a9811.  With Proofs/CostP.v [incr_run_correct] this gives: whatever offsets are
   asked, in whatever order, the resume-point code answers [to_loc] — so every C05 theorem about [to_loc] is a
   theorem about the code that exists. *)
From Coq Require Import List Arith NArith Bool Lia.
From GV Require Import Model.Loc Proofs.LocP Model.Cost Proofs.CostP.
Import ListNotations.
Local Open Scope nat_scope.

(* width of input byte i as Cost.v wants it *)
Definition wd_of (bs : list N) (i : nat) : nat := bwidth (nth i bs 0%N).

Lemma find_line_nle : forall ls idx i line lstart,
  find_line ls idx i line lstart =
  if Cost.nle idx ls =? 0 then (line, lstart) else (i + Cost.nle idx ls, nth (Cost.nle idx ls - 1) ls 0).
Proof.
  induction ls as [|s r IH]; intros idx i line lstart; [reflexivity|].
  cbn [find_line Cost.nle]. destruct (idx <? s); [reflexivity|].
  rewrite IH. cbn [Nat.eqb]. destruct (Nat.eqb_spec (Cost.nle idx r) 0) as [E|E].
  - rewrite E. cbn [Nat.sub nth]. f_equal. lia.
  - f_equal; [lia|]. replace (S (Cost.nle idx r) - 1) with (S (Cost.nle idx r - 1)) by lia. reflexivity.
Qed.

Lemma width_wsum : forall bs a n,
  width (firstn n (skipn a bs)) =
  list_sum (map (wd_of bs) (seq (Nat.min a (length bs)) (Nat.min (a + n) (length bs) - Nat.min a (length bs)))).
Proof.
  intros bs a n. induction n as [|n IH].
  - rewrite Nat.add_0_r, Nat.sub_diag. reflexivity.
  - rewrite firstn_S_snoc, width_app, IH, nth_error_skipn.
    destruct (nth_error bs (a + n)) as [x|] eqn:Hn.
    + assert (Hlt : a + n < length bs) by (apply nth_error_Some; rewrite Hn; discriminate).
      replace (Nat.min (a + S n) (length bs) - Nat.min a (length bs)) with (S (Nat.min (a + n) (length bs) - Nat.min a (length bs))) by lia.
      rewrite seq_S, map_app, list_sum_app. cbn [map list_sum width fold_right].
      replace (Nat.min a (length bs) + (Nat.min (a + n) (length bs) - Nat.min a (length bs))) with (a + n) by lia.
      unfold wd_of. rewrite (nth_error_nth bs (a + n) 0%N Hn). lia.
    + apply nth_error_None in Hn.
      replace (Nat.min (a + S n) (length bs)) with (Nat.min (a + n) (length bs)) by lia.
      cbn [width fold_right]. lia.
Qed.

Lemma line_starts_head : forall bs, exists rest, line_starts bs = 0 :: rest.
Proof. intro bs. eexists. reflexivity. Qed.

(* the rescanning form of Cost.v, instantiated with the line table and byte widths of an input, is [to_loc] *)
Theorem rescan_loc_is_to_loc : forall bs idx,
  Cost.rescan_loc (line_starts bs) (wd_of bs) (length bs) idx = to_loc bs idx.
Proof.
  intros bs idx. rewrite (rescan_loc_eq _ _ _ (line_starts_head bs)).
  unfold to_loc, to_loc_with. rewrite find_line_nle.
  pose proof (nle_pos (line_starts bs) (line_starts_head bs) idx) as Hp.
  destruct (Nat.eqb_spec (Cost.nle idx (line_starts bs)) 0) as [E|E]; [lia|].
  cbn [plus]. set (s := nth (Cost.nle idx (line_starts bs) - 1) (line_starts bs) 0).
  assert (Hs : s <= idx) by (apply nle_nth_le; lia).
  rewrite col_scan_width, width_wsum.
  replace (s + (idx - s)) with idx by lia.
  unfold Cost.wsum, Cost.clamp, Cost.line_start. fold s.
  replace (1 + list_sum (map (wd_of bs) (seq (Nat.min s (length bs)) (Nat.min idx (length bs) - Nat.min s (length bs)))) <? 1) with false
    by (symmetry; apply Nat.ltb_ge; lia).
  reflexivity.
Qed.

(* the resume-point form (the code since d9a9811), started from the empty resume point Tokenize installs, answers
   [to_loc] for every list of queried offsets in any order *)
Theorem incr_run_is_to_loc : forall bs qs,
  fst (Cost.incr_run (line_starts bs) (wd_of bs) (length bs) (Cost.lstate0) qs) = map (to_loc bs) qs.
Proof.
  intros bs qs.
  rewrite (incr_run_correct _ _ _ (line_starts_head bs) qs Cost.lstate0 (linv0 _ _ _)).
  apply map_ext. intro q. apply rescan_loc_is_to_loc.
Qed.
