(* LexUtf8P.v — UTF-8 facts used by the munch lemmas: decode/encode round trip on scalar values, the shape of a
   decoded rune (a multi-byte rune only swallows bytes >= 128, an ASCII rune is its byte), and the rune-wise scanning
   loops of the model run over (a) a sequence of encoded code points, (b) arbitrary bytes up to an ASCII stop byte. *)
From Coq Require Import List NArith Bool Lia Arith ZArith ZifyN ZifyBool.
From GV Require Import Gen.LexTables Model.Lexer Inst.Inst_C04 Spec.LexSpec Proofs.LexerP.
Import ListNotations.
Local Open Scope N_scope.
#[local] Ltac Zify.zify_post_hook ::= Z.div_mod_to_equations.

Lemma in_rng_true lo hi b : lo <= b -> b <= hi -> in_rng lo hi b = true.
Proof. intros. unfold in_rng. apply andb_true_intro; split; apply N.leb_le; assumption. Qed.
Lemma in_rng_false lo hi b : b < lo \/ hi < b -> in_rng lo hi b = false.
Proof. intros H. unfold in_rng. apply andb_false_iff. destruct H; [left|right]; apply N.leb_gt; assumption. Qed.
Lemma in_rng_iff lo hi b : in_rng lo hi b = true <-> lo <= b <= hi.
Proof. unfold in_rng. rewrite andb_true_iff, !N.leb_le. tauto. Qed.
Lemma ltb_false a b : b <= a -> (a <? b) = false.
Proof. intros; apply N.ltb_ge; assumption. Qed.

(* ---------------------------------------------------------------------------------------------- *)
(* round trip *)
Lemma decode_encode r rest : scalar r = true ->
  decode_rune (encode_rune r ++ rest) = (r, length (encode_rune r)).
Proof.
  intros S. unfold scalar in S. unfold encode_rune.
  destruct (r <? 128) eqn:E1.
  { cbn [app length]. unfold decode_rune. rewrite E1. reflexivity. }
  apply N.ltb_ge in E1.
  destruct (r <? 2048) eqn:E2.
  { apply N.ltb_lt in E2. cbn [app length]. unfold decode_rune.
    rewrite ltb_false by lia. rewrite in_rng_true by lia. unfold is_cont. rewrite in_rng_true by lia.
    f_equal. lia. }
  apply N.ltb_ge in E2.
  destruct (in_rng 55296 57343 r || (1114111 <? r)) eqn:E3.
  { exfalso. unfold in_rng in E3. lia. }
  assert (E3' : r < 55296 \/ 57343 < r < 1114112) by (unfold in_rng in E3; lia). clear E3 S.
  destruct (r <? 65536) eqn:E4.
  { apply N.ltb_lt in E4. cbn [app length]. unfold decode_rune.
    rewrite ltb_false by lia. rewrite in_rng_false by lia. rewrite in_rng_true by lia.
    unfold is_cont.
    destruct (224 + r / 4096 =? 224) eqn:A; destruct (224 + r / 4096 =? 237) eqn:B;
    rewrite !in_rng_true by lia; cbn [andb]; f_equal; lia. }
  apply N.ltb_ge in E4. cbn [app length]. unfold decode_rune.
  rewrite ltb_false by lia. rewrite !in_rng_false by lia. rewrite in_rng_true by lia.
  unfold is_cont.
  destruct (240 + r / 262144 =? 240) eqn:A; destruct (240 + r / 262144 =? 244) eqn:B;
    rewrite !in_rng_true by lia; cbn [andb]; f_equal; lia.
Qed.

Lemma encode_len r : (1 <= length (encode_rune r) <= 4)%nat.
Proof. unfold encode_rune. repeat match goal with |- context [if ?b then _ else _] => destruct b end; cbn; lia. Qed.

Lemma encode_ascii r : r < 128 -> encode_rune r = [r].
Proof. intros H. unfold encode_rune. apply N.ltb_lt in H. rewrite H. reflexivity. Qed.

Lemma encode_hi r : 128 <= r -> Forall (fun y => 128 <= y) (encode_rune r).
Proof.
  intros H. unfold encode_rune. rewrite ltb_false by lia.
  repeat match goal with |- context [if ?b then _ else _] => destruct b end; repeat constructor; lia.
Qed.

(* ---------------------------------------------------------------------------------------------- *)
(* shape of a decoded rune *)
Lemma decode_shape b tl x sz : decode_rune (b :: tl) = (x, sz) ->
  exists k, sz = S k /\ (k <= length tl)%nat /\ Forall (fun y => 128 <= y) (firstn k tl) /\
            (b < 128 -> x = b /\ k = 0%nat) /\ (128 <= b -> 128 <= x).
Proof.
  unfold decode_rune.
  destruct (b <? 128) eqn:E0.
  { apply N.ltb_lt in E0. intros [= <- <-]. exists 0%nat. cbn. repeat split; auto; lia. }
  apply N.ltb_ge in E0.
  assert (BAD : (RuneError, 1%nat) = (x, sz) ->
                exists k, sz = S k /\ (k <= length tl)%nat /\ Forall (fun y => 128 <= y) (firstn k tl) /\
                          (b < 128 -> x = b /\ k = 0%nat) /\ (128 <= b -> 128 <= x)).
  { intros [= <- <-]. exists 0%nat. cbn. repeat split; auto; try lia. unfold RuneError. lia. }
  destruct (in_rng 194 223 b) eqn:E1.
  { apply in_rng_iff in E1. destruct tl as [|b1 tl]; [exact BAD |].
    unfold is_cont. destruct (in_rng 128 191 b1) eqn:C1; [| exact BAD]. apply in_rng_iff in C1.
    intros [= <- <-]. exists 1%nat. cbn [firstn length]. repeat split; try lia. repeat constructor; lia. }
  destruct (in_rng 224 239 b) eqn:E2.
  { apply in_rng_iff in E2. destruct tl as [|b1 [|b2 tl]]; try exact BAD.
    match goal with |- context [if ?c then _ else _] => destruct c eqn:C end; [| exact BAD].
    apply andb_prop in C. destruct C as [C1 C2]. unfold is_cont in C2. apply in_rng_iff in C1, C2.
    intros [= <- <-]. exists 2%nat. cbn [firstn length]. repeat split; try lia.
    - repeat constructor; try lia. destruct (b =? 224); destruct (b =? 237); lia.
    - intros _. destruct (b =? 224) eqn:Q; [apply N.eqb_eq in Q | apply N.eqb_neq in Q]; destruct (b =? 237); lia. }
  destruct (in_rng 240 244 b) eqn:E3.
  { apply in_rng_iff in E3. destruct tl as [|b1 [|b2 [|b3 tl]]]; try exact BAD.
    match goal with |- context [if ?c then _ else _] => destruct c eqn:C end; [| exact BAD].
    apply andb_prop in C. destruct C as [C C3]. apply andb_prop in C. destruct C as [C1 C2].
    unfold is_cont in C2, C3. apply in_rng_iff in C1, C2, C3.
    intros [= <- <-]. exists 3%nat. cbn [firstn length]. repeat split; try lia.
    - repeat constructor; try lia. destruct (b =? 240); destruct (b =? 244); lia.
    - intros _. destruct (b =? 240) eqn:Q; [apply N.eqb_eq in Q | apply N.eqb_neq in Q]; destruct (b =? 244); lia. }
  exact BAD.
Qed.

(* an ASCII rune is its byte *)
Lemma decode_lt128 b tl : fst (decode_rune (b :: tl)) < 128 -> fst (decode_rune (b :: tl)) = b /\ b < 128.
Proof.
  destruct (decode_rune (b :: tl)) as [x sz] eqn:D. cbn [fst]. intros H.
  destruct (decode_shape _ _ _ _ D) as (k & _ & _ & _ & A & B).
  destruct (N.lt_ge_cases b 128) as [L|G]; [destruct (A L); split; assumption | specialize (B G); lia].
Qed.

(* decoding inside body ++ r, where r is empty or begins with an ASCII byte, never reaches into r *)
Lemma decode_chunk b body r x sz :
  (match r with [] => True | c :: _ => c < 128 end) ->
  decode_rune (b :: body ++ r) = (x, sz) ->
  exists k, sz = S k /\ (k <= length body)%nat /\ (b < 128 -> x = b /\ k = 0%nat) /\ (128 <= b -> 128 <= x).
Proof.
  intros R D. destruct (decode_shape _ _ _ _ D) as (k & -> & L & F & A & B).
  assert (K : (k <= length body)%nat).
  { destruct (Nat.le_gt_cases k (length body)) as [|G]; [assumption | exfalso].
    destruct r as [|c t]; [rewrite app_nil_r in L; lia |].
    rewrite firstn_app in F. apply Forall_app in F. destruct F as [_ F].
    destruct (k - length body)%nat eqn:E; [lia |]. cbn [firstn] in F. inversion F; subst. lia. }
  exists k. split; [reflexivity |]. split; [exact K |]. split; assumption.
Qed.

(* ---------------------------------------------------------------------------------------------- *)
(* cursor arithmetic *)
Lemma skipn_app_len {A} (w r : list A) : skipn (length w) (w ++ r) = r.
Proof. rewrite skipn_app, skipn_all, Nat.sub_diag. reflexivity. Qed.
Lemma firstn_app_len {A} (w r : list A) : firstn (length w) (w ++ r) = w.
Proof. rewrite firstn_app, firstn_all, Nat.sub_diag, firstn_O, app_nil_r. reflexivity. Qed.

Lemma adv_app w r i : adv (w ++ r, i) (length w) = (r, i + N.of_nat (length w)).
Proof. unfold adv. cbn [fst snd]. rewrite skipn_app_len. reflexivity. Qed.

Lemma adv_rune_app w r i : w <> [] -> adv_rune (w ++ r, i) (length w) = (r, i + N.of_nat (length w)).
Proof. intros H. unfold adv_rune. destruct w; [congruence |]. cbn [length]. apply (adv_app (n :: w)). Qed.

Lemma encode_ne r : encode_rune r <> [].
Proof. pose proof (encode_len r). destruct (encode_rune r); [cbn in *; lia | discriminate]. Qed.

Lemma nat_N_add i a b : i + N.of_nat a + N.of_nat b = i + N.of_nat (a + b).
Proof. lia. Qed.

(* ---------------------------------------------------------------------------------------------- *)
(* span over encoded code points *)
Lemma span_runes_utf8 p rs : forall fuel r i,
  forallb p rs = true -> forallb scalar rs = true -> next_rune_not p r = true -> (length rs < fuel)%nat ->
  span_runes p fuel (utf8 rs ++ r, i) = Val (utf8 rs, (r, i + N.of_nat (length (utf8 rs)))).
Proof.
  induction rs as [|x rs IH]; intros fuel r i P S NX Hf.
  - destruct fuel as [|f]; [cbn in Hf; lia |]. cbn [utf8 flat_map app length span_runes fst].
    rewrite N.add_0_r. destruct r as [|b t]; [reflexivity |].
    unfold next_rune_not in NX. destruct (decode_rune (b :: t)) as [x sz]. cbn [fst] in NX.
    apply negb_true_iff in NX. rewrite NX. reflexivity.
  - destruct fuel as [|f]; [cbn in Hf; lia |].
    cbn [forallb] in P, S. apply andb_prop in P, S. destruct P as [P1 P2], S as [S1 S2].
    cbn [utf8 flat_map]. fold (utf8 rs). rewrite <- app_assoc.
    cbn [span_runes fst].
    destruct (encode_rune x ++ utf8 rs ++ r) as [|b0 t0] eqn:E.
    { exfalso. pose proof (encode_ne x). destruct (encode_rune x); [congruence | discriminate]. }
    rewrite <- E. rewrite (decode_encode x _ S1). rewrite P1.
    rewrite adv_rune_app by apply encode_ne.
    rewrite IH; auto; [| cbn [length] in Hf; lia].
    cbn [bind]. rewrite firstn_app_len. rewrite app_length. f_equal. f_equal. f_equal. lia.
Qed.

Lemma span_utf8 p rs r i :
  forallb p rs = true -> forallb scalar rs = true -> next_rune_not p r = true ->
  span p (utf8 rs ++ r, i) = Val (utf8 rs, (r, i + N.of_nat (length (utf8 rs)))).
Proof.
  intros. unfold span. apply span_runes_utf8; auto. cbn [fst]. rewrite app_length.
  assert (length rs <= length (utf8 rs))%nat; [| lia].
  clear. induction rs as [|x rs IH]; [cbn; lia |]. cbn [utf8 flat_map length]. rewrite app_length.
  pose proof (encode_len x). fold (utf8 rs). lia.
Qed.

(* span over digit bytes *)
Lemma digit_byte_lt b : digit_byte b = true -> b < 128 /\ is_digit b = true.
Proof. unfold digit_byte, is_digit, in_rng. intros H. split; [lia | exact H]. Qed.

Lemma span_runes_digits ds : forall fuel r i,
  forallb digit_byte ds = true -> next_byte_nondigit r = true -> (length ds < fuel)%nat ->
  span_runes is_digit fuel (ds ++ r, i) = Val (ds, (r, i + N.of_nat (length ds))).
Proof.
  induction ds as [|d ds IH]; intros fuel r i P NX Hf.
  - destruct fuel as [|f]; [cbn in Hf; lia |]. cbn [app length span_runes fst].
    rewrite N.add_0_r. destruct r as [|b t]; [reflexivity |].
    cbn [next_byte_nondigit] in NX. apply negb_true_iff in NX.
    destruct (decode_rune (b :: t)) as [x sz] eqn:D.
    destruct (is_digit x) eqn:DX; [| reflexivity]. exfalso.
    assert (X : fst (decode_rune (b :: t)) < 128) by (rewrite D; cbn [fst]; unfold is_digit, in_rng in DX; lia).
    apply decode_lt128 in X. rewrite D in X. cbn [fst] in X. destruct X as [-> _].
    unfold is_digit, in_rng in DX. unfold digit_byte in NX. congruence.
  - destruct fuel as [|f]; [cbn in Hf; lia |].
    cbn [forallb] in P. apply andb_prop in P. destruct P as [P1 P2].
    destruct (digit_byte_lt _ P1) as [L1 D1].
    cbn [app span_runes fst]. rewrite decode_ascii by exact L1. rewrite D1.
    unfold adv_rune, adv. cbn [fst snd skipn firstn].
    rewrite IH; auto; [| cbn [length] in Hf; lia].
    cbn [bind app length]. f_equal. f_equal. f_equal. lia.
Qed.

Lemma span_digits ds r i :
  forallb digit_byte ds = true -> next_byte_nondigit r = true ->
  span is_digit (ds ++ r, i) = Val (ds, (r, i + N.of_nat (length ds))).
Proof. intros. unfold span. apply span_runes_digits; auto. cbn [fst]. rewrite app_length. lia. Qed.

(* ---------------------------------------------------------------------------------------------- *)
(* rune-wise scanning of arbitrary bytes up to an ASCII stop byte: the line comment loop *)
Lemma In_skipn {A} (x : A) k l : In x (skipn k l) -> In x l.
Proof. intros H. rewrite <- (firstn_skipn k l). apply in_or_app. right. exact H. Qed.

Lemma span_runes_until stop : forall n body, (length body <= n)%nat -> forall fuel r i,
  stop < 128 -> ~ In stop body -> (match r with [] => True | c :: _ => c = stop end) -> (length body < fuel)%nat ->
  span_runes (fun x => negb (x =? stop)) fuel (body ++ r, i) = Val (body, (r, i + N.of_nat (length body))).
Proof.
  induction n as [|n IH]; intros body Hn fuel r i ST NI R Hf.
  - destruct body; [| cbn in Hn; lia]. destruct fuel as [|f]; [lia |].
    cbn [app length span_runes fst]. rewrite N.add_0_r. destruct r as [|c t]; [reflexivity |]. subst c.
    rewrite decode_ascii by exact ST. rewrite N.eqb_refl. reflexivity.
  - destruct body as [|b body]; [apply (IH []); auto; cbn; lia |].
    destruct fuel as [|f]; [lia |].
    cbn [app span_runes fst].
    destruct (decode_rune (b :: body ++ r)) as [x sz] eqn:D.
    assert (R' : match r with [] => True | c :: _ => c < 128 end) by (destruct r; [exact I | subst; exact ST]).
    destruct (decode_chunk _ _ _ _ _ R' D) as (k & -> & K & A & B).
    assert (PX : negb (x =? stop) = true).
    { apply negb_true_iff, N.eqb_neq. intros ->.
      destruct (N.lt_ge_cases b 128) as [L|G].
      - destruct (A L) as [E _]. apply NI. left. symmetry. exact E.
      - specialize (B G). lia. }
    rewrite PX.
    assert (AD : adv_rune (b :: body ++ r, i) (S k) = (skipn k body ++ r, i + N.of_nat (S k))).
    { unfold adv_rune, adv. cbn [fst snd skipn]. rewrite skipn_app. replace (k - length body)%nat with 0%nat by lia.
      reflexivity. }
    rewrite AD. rewrite (IH (skipn k body)); auto.
    + cbn [bind firstn]. rewrite firstn_app. replace (k - length body)%nat with 0%nat by lia.
      rewrite firstn_O, app_nil_r. cbn [app]. rewrite firstn_skipn. f_equal. f_equal. f_equal.
      rewrite skipn_length. cbn [length] in *. lia.
    + rewrite skipn_length. cbn [length] in Hn. lia.
    + intros H. apply NI. right. eapply In_skipn; eauto.
    + rewrite skipn_length. cbn [length] in Hf. lia.
Qed.
