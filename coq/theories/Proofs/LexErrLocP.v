(* LexErrLocP.v — where the tokenizer model reports its errors.  Every error of Tokenize is built by
   [err_at code i] = the line/column of byte offset i (toSQLPosition), except the size-limit rejection at 1:1.
   Proved for every byte string: the offset of every reported error is at most the length of the input (one lemma per
   reader / per err_at call site), hence the reported line and column lie inside the input (bridge to Model/Loc.v,
   the C05 development: line <= number of lines, column <= width of that line + 1, both 1-based). *)
From Coq Require Import List NArith Bool Lia Arith ZifyN ZifyBool.
From GV Require Import Gen.LexTables Model.Lexer Inst.Inst_C04 Proofs.LexerP.
From GV Require Model.Loc Proofs.LocP.
Import ListNotations.
Local Open Scope N_scope.

Section ErrOffsets.
  Variable bs : list N.
  Variable B : N.         (* N.of_nat (length bs) in the end *)

  (* a cursor inside the input: index + remaining bytes does not exceed B *)
  Definition inb (c : list N * N) : Prop := snd c + N.of_nat (length (fst c)) <= B.
  (* an error outcome is located at an offset <= B *)
  Definition errb {A} (o : outcome A) : Prop :=
    match o with
    | Err _ l k => exists i, i <= B /\ (l, k) = to_loc bs i
    | _ => True
    end.

  Lemma errb_err_at {A} code i : i <= B -> errb (@err_at bs A code i).
  Proof. intros H. unfold err_at. destruct (to_loc bs i) as [l k] eqn:E. exists i. split; [exact H | symmetry; exact E]. Qed.

  Lemma errb_bind {A C} (x : outcome A) (f : A -> outcome C) :
    errb x -> (forall a, x = Val a -> errb (f a)) -> errb (bind x f).
  Proof. destruct x; cbn; auto. Qed.

  Lemma inb_snd c : inb c -> snd c <= B.
  Proof. unfold inb. lia. Qed.

  Lemma inb_stepw w c c' : inb c -> stepw w c c' -> inb c'.
  Proof. unfold inb. intros H [S1 S2]. rewrite S1, app_length in H. lia. Qed.
  Lemma inb_step0 c c' : inb c -> step0 c c' -> inb c'.
  Proof. intros H (w & S). eapply inb_stepw; eauto. Qed.
  Lemma inb_step1 c c' : inb c -> step1 c c' -> inb c'.
  Proof. intros H S. eapply inb_step0; [exact H | apply step1_step0; exact S]. Qed.
  Lemma inb_adv c n : inb c -> (n <= length (fst c))%nat -> inb (adv c n).
  Proof. intros H L. eapply inb_stepw; [exact H | apply stepw_adv; exact L]. Qed.
  Lemma inb_adv_rune c r sz : inb c -> fst c <> [] -> decode_rune (fst c) = (r, sz) -> inb (adv_rune c sz).
  Proof. intros H NE D. eapply inb_step1; [exact H | eapply step1_adv_rune; eauto]. Qed.

  Ltac dif := match goal with |- context [if ?b then _ else _] => destruct b eqn:? end.

  (* ---- loops that never report an error ---- *)
  Lemma span_runes_noerr p fuel c : errb (span_runes p fuel c).
  Proof.
    revert c. induction fuel as [|f IH]; intros c; [exact I |].
    cbn [span_runes]. destruct (fst c); [exact I |]. destruct (decode_rune (n :: l)) as [r sz].
    destruct (p r); [| exact I]. apply errb_bind; [apply IH |]. intros [w c'] _. exact I.
  Qed.
  Lemma span_noerr p c : errb (span p c).
  Proof. apply span_runes_noerr. Qed.

  Lemma block_body_noerr fuel c : errb (block_body fuel c).
  Proof.
    revert c. induction fuel as [|f IH]; intros c; [exact I |].
    cbn [block_body]. destruct (fst c); [exact I |]. destruct (decode_rune (n :: l)) as [r sz].
    assert (R : forall X, errb (do o <- block_body f (adv_rune c sz);
                               Val (match o with Some (w, c') => Some (X ++ w, c') | None => None end))).
    { intros X. apply errb_bind; [apply IH | intros; exact I]. }
    destruct (r =? 42); [| apply R].
    destruct (fst (adv_rune c sz)); [exact I |]. destruct (decode_rune (n0 :: l0)) as [nr ns].
    destruct (nr =? 47); [exact I | apply R].
  Qed.

  Lemma tag_body_noerr fuel c : errb (tag_body fuel c).
  Proof.
    revert c. induction fuel as [|f IH]; intros c; [exact I |].
    cbn [tag_body]. destruct (fst c); [exact I |]. destruct (decode_rune (n :: l)) as [r sz].
    destruct (r =? 36); [exact I |]. destruct (negb (is_ident_part r)); [exact I |].
    apply errb_bind; [apply IH | intros; exact I].
  Qed.

  (* ---- comments and the separator loop ---- *)
  Lemma read_line_comment_errb c : errb (read_line_comment bs c).
  Proof. unfold read_line_comment. apply errb_bind; [apply span_noerr |]. intros [w c2] _. exact I. Qed.

  Lemma read_block_comment_errb c : inb c -> errb (read_block_comment bs c).
  Proof.
    intros H. unfold read_block_comment. apply errb_bind; [apply block_body_noerr |].
    intros [[w c2]|] _; [exact I |]. apply errb_err_at. apply inb_snd. exact H.
  Qed.

  Lemma skip_trivia_errb fuel : forall c acc, inb c -> errb (skip_trivia bs fuel c acc).
  Proof.
    induction fuel as [|f IH]; intros c acc H; [exact I |].
    cbn [skip_trivia].
    assert (H1 : inb (skip_ws (fst c) (snd c))).
    { eapply inb_step0; [exact H |]. destruct c. apply skip_ws_step. }
    set (c1 := skip_ws (fst c) (snd c)) in *.
    destruct (fst c1) as [|c0 [|c1b t]] eqn:E; try exact I.
    destruct ((c0 =? 45) && (c1b =? 45)) eqn:B1.
    - apply andb_prop in B1. destruct B1 as [B1 B2]. apply N.eqb_eq in B1, B2. subst c0 c1b.
      apply errb_bind; [apply read_line_comment_errb |].
      intros [cm c2] EQ. pose proof (read_line_comment_post bs c1 t E) as P. rewrite EQ in P. cbn [post fst snd] in P.
      apply IH. eapply inb_step1; [exact H1 | eapply com_ok_step1; eauto].
    - destruct ((c0 =? 47) && (c1b =? 42)) eqn:B2; [| exact I].
      apply andb_prop in B2. destruct B2 as [B2 B3]. apply N.eqb_eq in B2, B3. subst c0 c1b.
      apply errb_bind; [apply read_block_comment_errb; exact H1 |].
      intros [cm c2] EQ. pose proof (read_block_comment_post bs c1 t E) as P. rewrite EQ in P. cbn [post fst snd] in P.
      apply IH. eapply inb_step1; [exact H1 | eapply com_ok_step1; eauto].
  Qed.

  (* ---- words ---- *)
  Lemma read_identifier_errb c : errb (read_identifier c).
  Proof.
    unfold read_identifier. destruct (decode_rune (fst c)) as [r sz].
    apply errb_bind; [apply span_noerr |]. intros [w c2] _.
    destruct (mem_b compound_starts _); [| exact I].
    destruct (fst (skip_ws (fst c2) (snd c2))); [exact I |].
    destruct (decode_rune (n :: l)) as [r2 sz2]. destruct (is_ident_start r2); [| exact I].
    apply errb_bind; [apply span_noerr |]. intros [w2 c4] _.
    destruct (assoc_b compound_keywords _); exact I.
  Qed.

  (* ---- numbers ---- *)
  Lemma read_number_errb c : inb c -> errb (read_number bs c).
  Proof.
    intros H. unfold read_number.
    apply errb_bind; [apply span_noerr |]. intros [w1 c1] E1.
    pose proof (span_post is_digit c) as P1. rewrite E1 in P1. cbn [post fst snd] in P1.
    pose proof (inb_stepw _ _ _ H P1) as H1.
    destruct (fst c1) as [|b t] eqn:F1; [exact I |].
    assert (HA : inb (adv c1 1)) by (apply inb_adv; [exact H1 | rewrite F1; cbn; lia]).
    apply errb_bind.
    { destruct (b =? 46); [| exact I].
      destruct (fst (adv c1 1)); [apply errb_err_at, inb_snd, HA |].
      dif; [| apply errb_err_at, inb_snd, HA].
      apply errb_bind; [apply span_noerr |]. intros [wf c2] _. exact I. }
    intros [w2 c2] E2.
    assert (H2 : inb c2).
    { destruct (b =? 46); [| injection E2 as _ <-; exact H1].
      destruct (fst (adv c1 1)) eqn:FA; [unfold err_at in E2; destruct (to_loc bs (snd (adv c1 1))); discriminate E2 |].
      destruct (is_digit (fst (decode_rune (n :: l)))); [| unfold err_at in E2; destruct (to_loc bs (snd (adv c1 1))); discriminate E2].
      pose proof (span_post is_digit (adv c1 1)) as P2.
      destruct (span is_digit (adv c1 1)) as [[wf c2']| | |]; cbn [bind] in E2; try discriminate E2.
      injection E2 as _ <-. cbn [post fst snd] in P2. eapply inb_stepw; eauto. }
    destruct (fst c2) as [|e t2] eqn:F2; [exact I |].
    destruct ((e =? 101) || (e =? 69)); [| exact I].
    assert (H3 : inb (adv c2 1)) by (apply inb_adv; [exact H2 | rewrite F2; cbn; lia]).
    set (c3 := adv c2 1) in *.
    assert (H4 : forall x, inb (snd (match fst c3 with
                         | s :: _ => if (s =? 43) || (s =? 45) then ([s], adv c3 1) else ([], c3)
                         | [] => (x, c3) end))).
    { intros x. destruct (fst c3) eqn:F3; cbn [snd]; [exact H3 |].
      destruct ((n =? 43) || (n =? 45)); cbn [snd]; [| exact H3].
      apply inb_adv; [exact H3 | rewrite F3; cbn; lia]. }
    specialize (H4 []).
    destruct (match fst c3 with s :: _ => _ | [] => _ end) as [ws c4]. cbn [snd] in H4.
    destruct (fst c4); [apply errb_err_at, inb_snd, H4 |].
    dif; [| apply errb_err_at, inb_snd, H4].
    apply errb_bind; [apply span_noerr |]. intros [we c5] _. exact I.
  Qed.

  (* ---- quoted readers: their only error location is the start of the literal, or just after a backslash ---- *)
  Lemma quoted_ident_body_errb fuel start quote : forall c buf, start <= B -> errb (quoted_ident_body bs fuel start quote c buf).
  Proof.
    induction fuel as [|f IH]; intros c buf HS; [exact I |].
    cbn [quoted_ident_body]. destruct (fst c); [apply errb_err_at; exact HS |].
    destruct (decode_rune (n :: l)) as [r0 sz]. cbv zeta.
    dif.
    - destruct (skipn sz (n :: l)); [exact I |]. destruct (decode_rune (n0 :: l0)) as [nr0 nsz].
      dif; [apply IH; exact HS | exact I].
    - dif; [apply errb_err_at; exact HS | apply IH; exact HS].
  Qed.

  Lemma backtick_body_errb_n start n : forall l p buf, (length l <= n)%nat -> start <= B -> errb (backtick_body bs start l p buf).
  Proof.
    induction n as [|n IH]; intros l p buf Hn HS.
    - destruct l; [cbn [backtick_body]; apply errb_err_at; exact HS | cbn in Hn; lia].
    - destruct l as [|ch tl]; cbn [backtick_body]; [apply errb_err_at; exact HS |]. cbn [length] in Hn.
      dif.
      + destruct tl as [|ch2 tl2]; [exact I |]. dif; [| exact I].
        apply IH; [cbn [length] in Hn; lia | exact HS].
      + dif; (apply IH; [lia | exact HS]).
  Qed.
  Lemma backtick_body_errb start l p buf : start <= B -> errb (backtick_body bs start l p buf).
  Proof. apply backtick_body_errb_n with (n := length l). lia. Qed.

  Lemma escape_errb c : inb c -> fst c <> [] -> errb (escape bs c).
  Proof.
    intros H NE. unfold escape.
    assert (H1 : inb (adv c 1)) by (apply inb_adv; [exact H | destruct (fst c); [congruence | cbn; lia]]).
    destruct (fst (adv c 1)); [apply errb_err_at, inb_snd, H1 |].
    destruct (decode_rune (n :: l)) as [r sz].
    repeat (dif; [exact I |]). apply errb_err_at, inb_snd, H1.
  Qed.

  Lemma string_body_errb fuel start original quote : forall c buf,
    start <= B -> inb c -> errb (string_body bs fuel start original quote c buf).
  Proof.
    induction fuel as [|f IH]; intros c buf HS H; [exact I |].
    destruct c as [l i]. cbn [string_body fst]. destruct l as [|b tl]; [apply errb_err_at; exact HS |].
    destruct (decode_rune (b :: tl)) as [r0 sz] eqn:D. cbv zeta.
    assert (SZ : (1 <= sz <= length (b :: tl))%nat).
    { pose proof (decode_size (b :: tl) ltac:(discriminate)) as X. rewrite D in X. exact X. }
    assert (HA : inb (adv (b :: tl, i) sz)) by (apply inb_adv; [exact H | cbn [fst]; lia]).
    dif.
    - destruct (skipn sz (b :: tl)) as [|a t] eqn:A; [exact I |].
      destruct (decode_rune (a :: t)) as [nr0 nsz] eqn:D2.
      dif; [| exact I].
      apply IH; [exact HS |]. apply inb_adv; [exact H |].
      assert (SZ2 : (1 <= nsz <= length (a :: t))%nat).
      { pose proof (decode_size (a :: t) ltac:(discriminate)) as X. rewrite D2 in X. exact X. }
      pose proof (skipn_length sz (b :: tl)) as SL. rewrite A in SL. cbn [fst length] in *. lia.
    - dif.
      + apply errb_bind; [apply escape_errb; [exact H | discriminate] |].
        intros [w c'] EQ. pose proof (escape_post bs (b :: tl, i) ltac:(discriminate)) as P. rewrite EQ in P.
        cbn [post snd] in P. apply IH; [exact HS | exact (inb_step1 _ _ H P)].
      + dif; (apply IH; [exact HS | exact HA]).
  Qed.

  Lemma triple_body_errb fuel start quote : forall c buf, start <= B -> errb (triple_body bs fuel start quote c buf).
  Proof.
    induction fuel as [|f IH]; intros c buf HS; [exact I |].
    cbn [triple_body]. destruct (fst c) as [|b tl]; [apply errb_err_at; exact HS |].
    match goal with |- context [match ?x with Some _ => _ | None => _ end] => destruct x end; [exact I |].
    destruct (decode_rune (b :: tl)) as [r sz]. dif; apply IH; exact HS.
  Qed.

  Lemma read_quoted_string_errb q c : inb c -> fst c <> [] -> errb (read_quoted_string bs q c).
  Proof.
    intros H NE. unfold read_quoted_string. pose proof (inb_snd _ H) as HS.
    assert (HL : snd c <= B) by exact HS.
    dif.
    - destruct (decode_rune (fst c)) as [r1 s1]. destruct (decode_rune (fst (adv_rune c s1))) as [r2 s2].
      destruct (decode_rune (fst (adv_rune (adv_rune c s1) s2))) as [r3 s3].
      apply triple_body_errb. exact HL.
    - destruct (decode_rune (fst c)) as [r sz] eqn:D.
      apply string_body_errb; [exact HL | eapply inb_adv_rune; eauto].
  Qed.

  Lemma read_quoted_identifier_errb c : inb c -> errb (read_quoted_identifier bs c).
  Proof.
    intros H. unfold read_quoted_identifier. destruct (decode_rune (fst c)) as [r sz].
    apply quoted_ident_body_errb. apply inb_snd. exact H.
  Qed.

  Lemma read_backtick_errb c : inb c -> errb (read_backtick bs c).
  Proof.
    intros H. unfold read_backtick. destruct (fst c); [exact I |]. apply backtick_body_errb. apply inb_snd. exact H.
  Qed.

  (* ---- dollar quoting ---- *)
  Lemma dollar_body_errb fuel closing : forall c buf, inb c -> errb (dollar_body bs fuel closing c buf).
  Proof.
    induction fuel as [|f IH]; intros c buf H; [exact I |].
    cbn [dollar_body]. destruct (fst c) as [|b tl] eqn:F; [apply errb_err_at, inb_snd, H |].
    dif; [exact I |].
    destruct (decode_rune (b :: tl)) as [r sz] eqn:D.
    apply IH. eapply inb_adv_rune; [exact H | rewrite F; discriminate | rewrite F; exact D].
  Qed.

  Lemma read_dollar_errb c : inb c -> fst c <> [] -> errb (read_dollar bs c).
  Proof.
    intros H NE. unfold read_dollar.
    assert (H1 : inb (adv c 1)) by (apply inb_adv; [exact H | destruct (fst c); [congruence | cbn; lia]]).
    set (c1 := adv c 1) in *. unfold dollar_plain.
    destruct (fst c1) as [|b1 t1] eqn:E1; [exact I |].
    destruct (decode_rune (b1 :: t1)) as [nr nsz].
    dif.
    { apply errb_bind; [apply span_noerr |]. intros [w c2] _. exact I. }
    dif; [| exact I].
    apply errb_bind.
    { dif; [exact I | apply tag_body_noerr]. }
    intros [[tag c2]|] EQ; [| exact I].
    assert (S2 : step0 c1 c2).
    { destruct (nr =? 36).
      - injection EQ as _ <-. apply step0_refl.
      - pose proof (tag_body_post (S (length (b1 :: t1))) c1 ltac:(rewrite E1; lia)) as P. rewrite EQ in P. exact P. }
    pose proof (inb_step0 _ _ H1 S2) as H2.
    destruct (fst c2) as [|b2 t2] eqn:E2; [exact I |].
    destruct (decode_rune (b2 :: t2)) as [cr csz] eqn:D2.
    dif; [exact I |].
    apply dollar_body_errb. eapply inb_adv_rune; [exact H2 | rewrite E2; discriminate | rewrite E2; exact D2].
  Qed.

  (* ---- operators, dispatch ---- *)
  Lemma read_punctuation_errb r c : inb c -> fst c <> [] -> errb (read_punctuation bs r c).
  Proof.
    intros H NE. unfold read_punctuation.
    repeat (dif; [ try exact I; repeat (dif; try exact I) |]); try exact I.
    all: try (apply read_dollar_errb; assumption).
    all: try (apply errb_err_at, inb_snd, H).
    all: match goal with |- context [decode_rune ?l] => destruct (decode_rune l) as [nr nsz] end.
    all: dif; try exact I.
    all: apply errb_bind; [apply span_noerr |]; intros [w c'] _; exact I.
  Qed.

  Lemma next_token_errb c : inb c -> errb (next_token bs c).
  Proof.
    intros H. unfold next_token. destruct (fst c) as [|b tl] eqn:E; [exact I |].
    destruct (decode_rune (b :: tl)) as [r sz].
    assert (NE : fst c <> []) by (rewrite E; discriminate).
    dif; [apply read_identifier_errb |].
    dif; [apply read_number_errb; exact H |].
    dif; [apply read_quoted_identifier_errb; exact H |].
    dif; [apply read_backtick_errb; exact H |].
    dif; [apply read_quoted_string_errb; assumption |].
    apply read_punctuation_errb; assumption.
  Qed.

  (* ---- the loop of Tokenize ---- *)
  Lemma lex_loop_errb max_tok fuel : forall c n toks cms, inb c -> errb (lex_loop bs max_tok fuel c n toks cms).
  Proof.
    induction fuel as [|f IH]; intros c n toks cms H; [exact I |].
    cbn [lex_loop]. destruct (fst c) as [|b tl] eqn:E; [exact I |].
    apply errb_bind; [apply skip_trivia_errb; exact H |].
    intros [c1 cms1] EQ.
    pose proof (skip_trivia_step0 bs (S (length (b :: tl))) c cms ltac:(rewrite E; lia)) as P.
    rewrite EQ in P. cbn [post fst] in P. pose proof (inb_step0 _ _ H P) as H1.
    destruct (fst c1) as [|b1 t1] eqn:E1; [exact I |].
    destruct (max_tok <=? n); [apply errb_err_at, inb_snd, H1 |].
    apply errb_bind; [apply next_token_errb; exact H1 |].
    intros [[[ty v] q] c2] EQ2.
    pose proof (next_token_post bs c1 ltac:(rewrite E1; discriminate)) as P2. rewrite EQ2 in P2.
    destruct P2 as [_ S2]. cbn [snd] in S2. apply IH. eapply inb_step1; eauto.
  Qed.
End ErrOffsets.

(* every error of Tokenize: the size-limit rejection at 1:1, or the location of a byte offset inside the input
   (at most its length: the end of the input is a legitimate error position) *)
Theorem tokenize_err_offset max_in max_tok bs c l k :
  tokenize_with max_in max_tok bs = Err c l k ->
  (c = E_InputTooLarge /\ l = 1 /\ k = 1) \/
  exists i, i <= N.of_nat (length bs) /\ (l, k) = to_loc bs i.
Proof.
  unfold tokenize_with. destruct (max_in <? N.of_nat (length bs)).
  - intros [= <- <- <-]. left. auto.
  - intros E. right.
    pose proof (lex_loop_errb bs (N.of_nat (length bs)) max_tok (S (length bs)) (bs, 0) 0 [] []) as P.
    rewrite E in P. apply P. unfold inb. cbn [fst snd]. lia.
Qed.

(* ---------------------------------------------------------------------------------------------- *)
(* bridge: the single-scan to_loc of Model/Lexer.v is toSQLPosition of Model/Loc.v (the C05 development) *)
Definition loc_step_fn (p : N * N) (o : option N) : N * N :=
  match o with
  | None => p
  | Some b => if b =? 10 then (fst p + 1, 1) else if b =? 9 then (fst p, snd p + 4) else (fst p, snd p + 1)
  end.

Lemma loc_scan_0 l ln cl : loc_scan l 0 ln cl = (ln, cl).
Proof. destruct l; reflexivity. Qed.

Lemma loc_scan_snoc : forall l n ln cl, loc_scan l (S n) ln cl = loc_step_fn (loc_scan l n ln cl) (nth_error l n).
Proof.
  induction l as [|b tl IH]; intros n ln cl.
  - destruct n; reflexivity.
  - destruct n as [|n].
    + cbn [loc_scan nth_error loc_step_fn]. rewrite !loc_scan_0. cbn [fst snd].
      destruct (b =? 10); [reflexivity |]. destruct (b =? 9); reflexivity.
    + cbn [nth_error]. change (loc_scan (b :: tl) (S (S n)) ln cl) with
        (if b =? 10 then loc_scan tl (S n) (ln + 1) 1 else if b =? 9 then loc_scan tl (S n) ln (cl + 4) else loc_scan tl (S n) ln (cl + 1)).
      change (loc_scan (b :: tl) (S n) ln cl) with
        (if b =? 10 then loc_scan tl n (ln + 1) 1 else if b =? 9 then loc_scan tl n ln (cl + 4) else loc_scan tl n ln (cl + 1)).
      destruct (b =? 10); [apply IH |]. destruct (b =? 9); apply IH.
Qed.

Definition nloc (p : nat * nat) : N * N := (N.of_nat (fst p), N.of_nat (snd p)).

Lemma loc_bridge_nat bs : forall n, loc_scan bs n 1 1 = nloc (Loc.to_loc bs n).
Proof.
  induction n as [|n IH].
  - rewrite LocP.loc_origin. destruct bs; reflexivity.
  - rewrite loc_scan_snoc, IH.
    pose proof (LocP.loc_step bs n) as ST.
    destruct (nth_error bs n) as [b|] eqn:NE.
    + cbn [loc_step_fn]. destruct (b =? 10) eqn:E10.
      * apply N.eqb_eq in E10. subst b.
        assert (LS : Loc.is_line_start bs (S n) (S n)).
        { split; [lia |]. split.
          - right. replace (S n - 1)%nat with n by lia. exact NE.
          - intros k Hk. lia. }
        rewrite (LocP.to_loc_spec _ _ _ LS). rewrite LocP.slice_same.
        unfold nloc. cbn [fst snd Loc.width fold_right].
        rewrite LocP.loc_line. rewrite LocP.firstn_S_snoc, NE, LocP.count_lf_app.
        change (Loc.count_lf [10]) with 1%nat. f_equal. lia.
      * apply N.eqb_neq in E10.
        rewrite (LocP.loc_step_exact bs n b NE E10). unfold nloc. cbn [fst snd]. unfold Loc.bwidth, Loc.is_tab, Loc.TAB.
        destruct (b =? 9); f_equal; lia.
    + cbn [loc_step_fn]. rewrite ST. reflexivity.
Qed.

Lemma loc_bridge bs i : to_loc bs i = nloc (Loc.to_loc bs (N.to_nat i)).
Proof. unfold to_loc. apply loc_bridge_nat. Qed.

(* ---------------------------------------------------------------------------------------------- *)
(* the reported location lies inside the input *)

(* s is the byte offset at which line ln (1-based) of bs starts *)
Definition line_start_of (bs : list N) (ln s : nat) : Prop :=
  (s <= length bs)%nat /\ (s = 0%nat \/ nth_error bs (s - 1) = Some Loc.LF) /\ ln = (1 + Loc.count_lf (firstn s bs))%nat.

Lemma firstn_split {A} (l : list A) : forall s m, firstn (s + m) l = firstn s l ++ firstn m (skipn s l).
Proof.
  induction l as [|x l IH]; intros s m.
  - rewrite !firstn_nil, skipn_nil, firstn_nil. reflexivity.
  - destruct s as [|s]; [reflexivity |]. cbn [Nat.add firstn skipn app]. rewrite IH. reflexivity.
Qed.

Lemma count_lf_nolf : forall l n, (forall k, (k < n)%nat -> nth_error l k <> Some Loc.LF) -> Loc.count_lf (firstn n l) = 0%nat.
Proof.
  induction l as [|b l IH]; intros n H; [rewrite firstn_nil; reflexivity |].
  destruct n as [|n]; [reflexivity |]. cbn [firstn]. unfold Loc.count_lf. cbn [filter].
  destruct (Loc.is_lf b) eqn:E.
  - exfalso. apply (H 0%nat); [lia |]. cbn. f_equal. apply LocP.is_lf_true. exact E.
  - apply IH. intros k Hk. apply (H (S k)). lia.
Qed.

Lemma line_of_start bs i s : Loc.is_line_start bs i s ->
  Loc.count_lf (firstn i bs) = Loc.count_lf (firstn s bs).
Proof.
  intros (LE & _ & NL). replace i with (s + (i - s))%nat by lia. rewrite firstn_split, LocP.count_lf_app.
  rewrite (count_lf_nolf (skipn s bs) (i - s)); [lia |]. intros k Hk. rewrite LocP.nth_error_skipn. apply NL. lia.
Qed.

Theorem tokenize_err_location_inside max_in max_tok bs c l k :
  tokenize_with max_in max_tok bs = Err c l k ->
  1 <= l /\ 1 <= k /\ (N.to_nat l <= 1 + Loc.count_lf bs)%nat /\
  exists s, line_start_of bs (N.to_nat l) s /\ (N.to_nat k <= 1 + Loc.width (Loc.line_bytes bs s))%nat.
Proof.
  intros E. destruct (tokenize_err_offset _ _ _ _ _ _ E) as [(_ & -> & ->)|(i & LE & EQ)].
  - split; [lia |]. split; [lia |]. split; [cbn; lia |]. exists 0%nat. split.
    + split; [lia |]. split; [left; reflexivity | reflexivity].
    + cbn. lia.
  - rewrite loc_bridge in EQ. unfold nloc in EQ. injection EQ as -> ->. rewrite !Nat2N.id.
    set (j := N.to_nat i) in *.
    assert (LJ : (j <= length bs)%nat) by (unfold j; lia).
    destruct (LocP.line_start_exists bs j) as [s HS].
    pose proof (LocP.loc_one_based bs j) as [O1 O2].
    pose proof (LocP.loc_inside bs j s HS) as [I1 I2].
    split; [lia |]. split; [lia |]. split; [lia |].
    exists s. split; [| exact I2].
    destruct HS as (A & Bq & C). split; [lia |]. split; [exact Bq |].
    rewrite LocP.loc_line. rewrite (line_of_start bs j s (conj A (conj Bq C))). reflexivity.
Qed.
