(* LexErrLocP.v — where the tokenizer model reports its errors.  Every error of Tokenize is built by
   [err_at code i] = the line/column of byte offset i (toSQLPosition), except the size-limit rejection at 1:1.
   Proved for every byte string: the offset of every reported error is at most the length of the input (one lemma per
   reader / per err_at call site), hence the reported line and column lie inside the input (bridge to Model/Loc.v,
   the C05 development: line <= number of lines, column <= width of that line + 1, both 1-based). *)
From Coq Require Import List NArith Bool Lia Arith ZifyN ZifyBool.
From GV Require Import Gen.LexTables Model.Lexer Inst.Inst_C04 Proofs.LexerP.
From GV Require Model.Loc Proofs.LocP.
Import ListNotations.
Local Open Scope N_scope.

Section ErrOffsets.
  Variable bs : list N.
  Variable B : N.         (* N.of_nat (length bs) in the end *)

  (* a cursor inside the input: index + remaining bytes does not exceed B *)
  Definition inb (c : list N * N) : Prop := snd c + N.of_nat (length (fst c)) <= B.
  (* an error outcome is located at an offset <= B *)
  Definition errb {A} (o : outcome A) : Prop :=
    match o with
    | Err _ l k => exists i, i <= B /\ (l, k) = to_loc bs i
    | _ => True
    end.

  Lemma errb_err_at {A} code i : i <= B -> errb (@err_at bs A code i).
  Proof. intros H. unfold err_at. destruct (to_loc bs i) as [l k] eqn:E. exists i. split; [exact H | symmetry; exact E]. Qed.

  Lemma errb_bind {A C} (x : outcome A) (f : A -> outcome C) :
    errb x -> (forall a, x = Val a -> errb (f a)) -> errb (bind x f).
  Proof. destruct x; cbn; auto. Qed.

  Lemma inb_snd c : inb c -> snd c <= B.
  Proof. unfold inb. lia. Qed.

  Lemma inb_stepw w c c' : inb c -> stepw w c c' -> inb c'.
  Proof. unfold inb. intros H [S1 S2]. rewrite S1, app_length in H. lia. Qed.
  Lemma inb_step0 c c' : inb c -> step0 c c' -> inb c'.
  Proof. intros H (w & S). eapply inb_stepw; eauto. Qed.
  Lemma inb_step1 c c' : inb c -> step1 c c' -> inb c'.
  Proof. intros H S. eapply inb_step0; [exact H | apply step1_step0; exact S]. Qed.
  Lemma inb_adv c n : inb c -> (n <= length (fst c))%nat -> inb (adv c n).
  Proof. intros H L. eapply inb_stepw; [exact H | apply stepw_adv; exact L]. Qed.
  Lemma inb_adv_rune c r sz : inb c -> fst c <> [] -> decode_rune (fst c) = (r, sz) -> inb (adv_rune c sz).
  Proof. intros H NE D. eapply inb_step1; [exact H | eapply step1_adv_rune; eauto]. Qed.

  Ltac dif := match goal with |- context [if ?b then _ else _] => destruct b eqn:? end.

  (* ---- loops that never report an error ---- *)
  Lemma span_runes_noerr p fuel c : errb (span_runes p fuel c).
  Proof.
    revert c. induction fuel as [|f IH]; intros c; [exact I |].
    cbn [span_runes]. destruct (fst c); [exact I |]. destruct (decode_rune (n :: l)) as [r sz].
    destruct (p r); [| exact I]. apply errb_bind; [apply IH |]. intros [w c'] _. exact I.
  Qed.
  Lemma span_noerr p c : errb (span p c).
  Proof. apply span_runes_noerr. Qed.

  Lemma block_body_noerr fuel c : errb (block_body fuel c).
  Proof.
    revert c. induction fuel as [|f IH]; intros c; [exact I |].
    cbn [block_body]. destruct (fst c); [exact I |]. destruct (decode_rune (n :: l)) as [r sz].
    assert (R : forall X, errb (do o <- block_body f (adv_rune c sz);
                               Val (match o with Some (w, c') => Some (X ++ w, c') | None => None end))).
    { intros X. apply errb_bind; [apply IH | intros; exact I]. }
    destruct (r =? 42); [| apply R].
    destruct (fst (adv_rune c sz)); [exact I |]. destruct (decode_rune (n0 :: l0)) as [nr ns].
    destruct (nr =? 47); [exact I | apply R].
  Qed.

  Lemma tag_body_noerr fuel c : errb (tag_body fuel c).
  Proof.
    revert c. induction fuel as [|f IH]; intros c; [exact I |].
    cbn [tag_body]. destruct (fst c); [exact I |]. destruct (decode_rune (n :: l)) as [r sz].
    destruct (r =? 36); [exact I |]. destruct (negb (is_ident_part r)); [exact I |].
    apply errb_bind; [apply IH | intros; exact I].
  Qed.

  (* ---- comments and the separator loop ---- *)
  Lemma read_line_comment_errb c : errb (read_line_comment bs c).
  Proof. unfold read_line_comment. apply errb_bind; [apply span_noerr |]. intros [w c2] _. exact I. Qed.

  Lemma read_block_comment_errb c : inb c -> errb (read_block_comment bs c).
  Proof.
    intros H. unfold read_block_comment. apply errb_bind; [apply block_body_noerr |].
    intros [[w c2]|] _; [exact I |]. apply errb_err_at. apply inb_snd. exact H.
  Qed.

  Lemma skip_trivia_errb fuel : forall c acc, inb c -> errb (skip_trivia bs fuel c acc).
  Proof.
    induction fuel as [|f IH]; intros c acc H; [exact I |].
    cbn [skip_trivia].
    assert (H1 : inb (skip_ws (fst c) (snd c))).
    { eapply inb_step0; [exact H |]. destruct c. apply skip_ws_step. }
    set (c1 := skip_ws (fst c) (snd c)) in *.
    destruct (fst c1) as [|c0 [|c1b t]] eqn:E; try exact I.
    destruct ((c0 =? 45) && (c1b =? 45)) eqn:B1.
    - apply andb_prop in B1. destruct B1 as [B1 B2]. apply N.eqb_eq in B1, B2. subst c0 c1b.
      apply errb_bind; [apply read_line_comment_errb |].
      intros [cm c2] EQ. pose proof (read_line_comment_post bs c1 t E) as P. rewrite EQ in P. cbn [post fst snd] in P.
      apply IH. eapply inb_step1; [exact H1 | eapply com_ok_step1; eauto].
    - destruct ((c0 =? 47) && (c1b =? 42)) eqn:B2; [| exact I].
      apply andb_prop in B2. destruct B2 as [B2 B3]. apply N.eqb_eq in B2, B3. subst c0 c1b.
      apply errb_bind; [apply read_block_comment_errb; exact H1 |].
      intros [cm c2] EQ. pose proof (read_block_comment_post bs c1 t E) as P. rewrite EQ in P. cbn [post fst snd] in P.
      apply IH. eapply inb_step1; [exact H1 | eapply com_ok_step1; eauto].
  Qed.

  (* ---- words ---- *)
  Lemma read_identifier_errb c : errb (read_identifier c).
  Proof.
    unfold read_identifier. destruct (decode_rune (fst c)) as [r sz].
    apply errb_bind; [apply span_noerr |]. intros [w c2] _.
    destruct (mem_b compound_starts _); [| exact I].
    destruct (fst (skip_ws (fst c2) (snd c2))); [exact I |].
    destruct (decode_rune (n :: l)) as [r2 sz2]. destruct (is_ident_start r2); [| exact I].
    apply errb_bind; [apply span_noerr |]. intros [w2 c4] _.
    destruct (assoc_b compound_keywords _); exact I.
  Qed.

  (* ---- numbers ---- *)
  Lemma read_number_errb c : inb c -> errb (read_number bs c).
  Proof.
    intros H. unfold read_number.
    apply errb_bind; [apply span_noerr |]. intros [w1 c1] E1.
    pose proof (span_post is_digit c) as P1. rewrite E1 in P1. cbn [post fst snd] in P1.
    pose proof (inb_stepw _ _ _ H P1) as H1.
    destruct (fst c1) as [|b t] eqn:F1; [exact I |].
    assert (HA : inb (adv c1 1)) by (apply inb_adv; [exact H1 | rewrite F1; cbn; lia]).
    apply errb_bind.
    { destruct (b =? 46); [| exact I].
      destruct (fst (adv c1 1)); [apply errb_err_at, inb_snd, HA |].
      dif; [| apply errb_err_at, inb_snd, HA].
      apply errb_bind; [apply span_noerr |]. intros [wf c2] _. exact I. }
    intros [w2 c2] E2.
    assert (H2 : inb c2).
    { destruct (b =? 46); [| injection E2 as _ <-; exact H1].
      destruct (fst (adv c1 1)) eqn:FA; [unfold err_at in E2; destruct (to_loc bs (snd (adv c1 1))); discriminate E2 |].
      destruct (is_digit (fst (decode_rune (n :: l)))); [| unfold err_at in E2; destruct (to_loc bs (snd (adv c1 1))); discriminate E2].
      pose proof (span_post is_digit (adv c1 1)) as P2.
      destruct (span is_digit (adv c1 1)) as [[wf c2']| | |]; cbn [bind] in E2; try discriminate E2.
      injection E2 as _ <-. cbn [post fst snd] in P2. eapply inb_stepw; eauto. }
    destruct (fst c2) as [|e t2] eqn:F2; [exact I |].
    destruct ((e =? 101) || (e =? 69)); [| exact I].
    assert (H3 : inb (adv c2 1)) by (apply inb_adv; [exact H2 | rewrite F2; cbn; lia]).
    set (c3 := adv c2 1) in *.
    assert (H4 : forall x, inb (snd (match fst c3 with
                         | s :: _ => if (s =? 43) || (s =? 45) then ([s], adv c3 1) else ([], c3)
                         | [] => (x, c3) end))).
    { intros x. destruct (fst c3) eqn:F3; cbn [snd]; [exact H3 |].
      destruct ((n =? 43) || (n =? 45)); cbn [snd]; [| exact H3].
      apply inb_adv; [exact H3 | rewrite F3; cbn; lia]. }
    specialize (H4 []).
    destruct (match fst c3 with s :: _ => _ | [] => _ end) as [ws c4]. cbn [snd] in H4.
    destruct (fst c4); [apply errb_err_at, inb_snd, H4 |].
    dif; [| apply errb_err_at, inb_snd, H4].
    apply errb_bind; [apply span_noerr |]. intros [we c5] _. exact I.
  Qed.

  (* ---- quoted readers: their only error location is the start of the literal, or just after a backslash ---- *)
  Lemma quoted_ident_body_errb fuel start quote : forall c buf, start <= B -> errb (quoted_ident_body bs fuel start quote c buf).
  Proof.
    induction fuel as [|f IH]; intros c buf HS; [exact I |].
    cbn [quoted_ident_body]. destruct (fst c); [apply errb_err_at; exact HS |].
    destruct (decode_rune (n :: l)) as [r0 sz]. cbv zeta.
    dif.
    - destruct (skipn sz (n :: l)); [exact I |]. destruct (decode_rune (n0 :: l0)) as [nr0 nsz].
      dif; [apply IH; exact HS | exact I].
    - dif; [apply errb_err_at; exact HS | apply IH; exact HS].
  Qed.

  Lemma backtick_body_errb_n start n : forall l p buf, (length l <= n)%nat -> start <= B -> errb (backtick_body bs start l p buf).
  Proof.
    induction n as [|n IH]; intros l p buf Hn HS.
    - destruct l; [cbn [backtick_body]; apply errb_err_at; exact HS | cbn in Hn; lia].
    - destruct l as [|ch tl]; cbn [backtick_body]; [apply errb_err_at; exact HS |]. cbn [length] in Hn.
      dif.
      + destruct tl as [|ch2 tl2]; [exact I |]. dif; [| exact I].
        apply IH; [cbn [length] in Hn; lia | exact HS].
      + dif; (apply IH; [lia | exact HS]).
  Qed.
  Lemma backtick_body_errb start l p buf : start <= B -> errb (backtick_body bs start l p buf).
  Proof. apply backtick_body_errb_n with (n := length l). lia. Qed.

  Lemma escape_errb c : inb c -> fst c <> [] -> errb (escape bs c).
  Proof.
    intros H NE. unfold escape.
    assert (H1 : inb (adv c 1)) by (apply inb_adv; [exact H | destruct (fst c); [congruence | cbn; lia]]).
    destruct (fst (adv c 1)); [apply errb_err_at, inb_snd, H1 |].
    destruct (decode_rune (n :: l)) as [r sz].
    repeat (dif; [exact I |]). apply errb_err_at, inb_snd, H1.
  Qed.

  Lemma string_body_errb fuel start original quote : forall c buf,
    start <= B -> inb c -> errb (string_body bs fuel start original quote c buf).
  Proof.
    induction fuel as [|f IH]; intros c buf HS H; [exact I |].
    destruct c as [l i]. cbn [string_body fst]. destruct l as [|b tl]; [apply errb_err_at; exact HS |].
    destruct (decode_rune (b :: tl)) as [r0 sz] eqn:D. cbv zeta.
    assert (SZ : (1 <= sz <= length (b :: tl))%nat).
    { pose proof (decode_size (b :: tl) ltac:(discriminate)) as X. rewrite D in X. exact X. }
    assert (HA : inb (adv (b :: tl, i) sz)) by (apply inb_adv; [exact H | cbn [fst]; lia]).
    dif.
    - destruct (skipn sz (b :: tl)) as [|a t] eqn:A; [exact I |].
      destruct (decode_rune (a :: t)) as [nr0 nsz] eqn:D2.
      dif; [| exact I].
      apply IH; [exact HS |]. apply inb_adv; [exact H |].
      assert (SZ2 : (1 <= nsz <= length (a :: t))%nat).
      { pose proof (decode_size (a :: t) ltac:(discriminate)) as X. rewrite D2 in X. exact X. }
      pose proof (skipn_length sz (b :: tl)) as SL. rewrite A in SL. cbn [fst length] in *. lia.
    - dif.
      + apply errb_bind; [apply escape_errb; [exact H | discriminate] |].
        intros [w c'] EQ. pose proof (escape_post bs (b :: tl, i) ltac:(discriminate)) as P. rewrite EQ in P.
        cbn [post snd] in P. apply IH; [exact HS | exact (inb_step1 _ _ H P)].
      + dif; (apply IH; [exact HS | exact HA]).
  Qed.

  Lemma triple_body_errb fuel start quote : forall c buf, start <= B -> errb (triple_body bs fuel start quote c buf).
  Proof.
    induction fuel as [|f IH]; intros c buf HS; [exact I |].
    cbn [triple_body]. destruct (fst c) as [|b tl]; [apply errb_err_at; exact HS |].
    match goal with |- context [match ?x with Some _ => _ | None => _ end] => destruct x end; [exact I |].
    destruct (decode_rune (b :: tl)) as [r sz]. dif; apply IH; exact HS.
  Qed.

  Lemma read_quoted_string_errb q c : inb c -> fst c <> [] -> errb (read_quoted_string bs q c).
  Proof.
    intros H NE. unfold read_quoted_string. pose proof (inb_snd _ H) as HS.
    assert (HL : snd c <= B) by exact HS.
    dif.
    - destruct (decode_rune (fst c)) as [r1 s1]. destruct (decode_rune (fst (adv_rune c s1))) as [r2 s2].
      destruct (decode_rune (fst (adv_rune (adv_rune c s1) s2))) as [r3 s3].
      apply triple_body_errb. exact HL.
    - destruct (decode_rune (fst c)) as [r sz] eqn:D.
      apply string_body_errb; [exact HL | eapply inb_adv_rune; eauto].
  Qed.

  Lemma read_quoted_identifier_errb c : inb c -> errb (read_quoted_identifier bs c).
  Proof.
    intros H. unfold read_quoted_identifier. destruct (decode_rune (fst c)) as [r sz].
    apply quoted_ident_body_errb. apply inb_snd. exact H.
  Qed.

  Lemma read_backtick_errb c : inb c -> errb (read_backtick bs c).
  Proof.
    intros H. unfold read_backtick. destruct (fst c); [exact I |]. apply backtick_body_errb. apply inb_snd. exact H.
  Qed.

  (* ---- dollar quoting ---- *)
  Lemma dollar_body_errb fuel closing : forall c buf, inb c -> errb (dollar_body bs fuel closing c buf).
  Proof.
    induction fuel as [|f IH]; intros c buf H; [exact I |].
    cbn [dollar_body]. destruct (fst c) as [|b tl] eqn:F; [apply errb_err_at, inb_snd, H |].
    dif; [exact I |].
    destruct (decode_rune (b :: tl)) as [r sz] eqn:D.
    apply IH. eapply inb_adv_rune; [exact H | rewrite F; discriminate | rewrite F; exact D].
  Qed.

  Lemma read_dollar_errb c : inb c -> fst c <> [] -> errb (read_dollar bs c).
  Proof.
    intros H NE. unfold read_dollar.
    assert (H1 : inb (adv c 1)) by (apply inb_adv; [exact H | destruct (fst c); [congruence | cbn; lia]]).
    set (c1 := adv c 1) in *. unfold dollar_plain.
    destruct (fst c1) as [|b1 t1] eqn:E1; [exact I |].
    destruct (decode_rune (b1 :: t1)) as [nr nsz].
    dif.
    { apply errb_bind; [apply span_noerr |]. intros [w c2] _. exact I. }
    dif; [| exact I].
    apply errb_bind.
    { dif; [exact I | apply tag_body_noerr]. }
    intros [[tag c2]|] EQ; [| exact I].
    assert (S2 : step0 c1 c2).
    { destruct (nr =? 36).
      - injection EQ as _ <-. apply step0_refl.
      - pose proof (tag_body_post (S (length (b1 :: t1))) c1 ltac:(rewrite E1; lia)) as P. rewrite EQ in P. exact P. }
    pose proof (inb_step0 _ _ H1 S2) as H2.
    destruct (fst c2) as [|b2 t2] eqn:E2; [exact I |].
    destruct (decode_rune (b2 :: t2)) as [cr csz] eqn:D2.
    dif; [exact I |].
    apply dollar_body_errb. eapply inb_adv_rune; [exact H2 | rewrite E2; discriminate | rewrite E2; exact D2].
  Qed.

  (* ---- operators, dispatch ---- *)
  Lemma read_punctuation_errb r c : inb c -> fst c <> [] -> errb (read_punctuation bs r c).
  Proof.
    intros H NE. unfold read_punctuation.
    repeat (dif; [ try exact I; repeat (dif; try exact I) |]); try exact I.
    all: try (apply read_dollar_errb; assumption).
    all: try (apply errb_err_at, inb_snd, H).
    all: match goal with |- context [decode_rune ?l] => destruct (decode_rune l) as [nr nsz] end.
    all: dif; try exact I.
    all: apply errb_bind; [apply span_noerr |]; intros [w c'] _; exact I.
  Qed.

  Lemma next_token_errb c : inb c -> errb (next_token bs c).
  Proof.
    intros H. unfold next_token. destruct (fst c) as [|b tl] eqn:E; [exact I |].
    destruct (decode_rune (b :: tl)) as [r sz].
    assert (NE : fst c <> []) by (rewrite E; discriminate).
    dif; [apply read_identifier_errb |].
    dif; [apply read_number_errb; exact H |].
    dif; [apply read_quoted_identifier_errb; exact H |].
    dif; [apply read_backtick_errb; exact H |].
    dif; [apply read_quoted_string_errb; assumption |].
    apply read_punctuation_errb; assumption.
  Qed.

  (* ---- the loop of Tokenize ---- *)
  Lemma lex_loop_errb max_tok fuel : forall c n toks cms, inb c -> errb (lex_loop bs max_tok fuel c n toks cms).
  Proof.
    induction fuel as [|f IH]; intros c n toks cms H; [exact I |].
    cbn [lex_loop]. destruct (fst c) as [|b tl] eqn:E; [exact I |].
    apply errb_bind; [apply skip_trivia_errb; exact H |].
    intros [c1 cms1] EQ.
    pose proof (skip_trivia_step0 bs (S (length (b :: tl))) c cms ltac:(rewrite E; lia)) as P.
    rewrite EQ in P. cbn [post fst] in P. pose proof (inb_step0 _ _ H P) as H1.
    destruct (fst c1) as [|b1 t1] eqn:E1; [exact I |].
    destruct (max_tok <=? n); [apply errb_err_at, inb_snd, H1 |].
    apply errb_bind; [apply next_token_errb; exact H1 |].
    intros [[[ty v] q] c2] EQ2.
    pose proof (next_token_post bs c1 ltac:(rewrite E1; discriminate)) as P2. rewrite EQ2 in P2.
    destruct P2 as [_ S2]. cbn [snd] in S2. apply IH. eapply inb_step1; eauto.
  Qed.
End ErrOffsets.

(* every error of Tokenize: the size-limit rejection at 1:1, or the location of a byte offset inside the input
   (at most its length: the end of the input is a legitimate error position) *)
Theorem tokenize_err_offset max_in max_tok bs c l k :
  tokenize_with max_in max_tok bs = Err c l k ->
  (c = E_InputTooLarge /\ l = 1 /\ k = 1) \/
  exists i, i <= N.of_nat (length bs) /\ (l, k) = to_loc bs i.
Proof.
  unfold tokenize_with. destruct (max_in <? N.of_nat (length bs)).
  - intros [= <- <- <-]. left. auto.
  - intros E. right.
    pose proof (lex_loop_errb bs (N.of_nat (length bs)) max_tok (S (length bs)) (bs, 0) 0 [] []) as P.
    rewrite E in P. apply P. unfold inb. cbn [fst snd]. lia.
Qed.
