(* Proofs about the statement loops (C07 agreement of entry points, C12 recovery, C01 termination).
   Everything is parametric in the statement parser [ps]; the only facts assumed about it are stated as
   hypotheses and measured on the real parseStatement by the harness for every recorded table. *)
From Coq Require Import List Arith Bool Lia NArith.
From GV Require Import Model.Loops.
Import ListNotations.
Local Open Scope nat_scope.

Section P.
  Variable tree : Type.
  Variable ntok : nat.
  Variable is_eof is_semi starts_stmt : nat -> bool.
  Variable ps : nat -> sres tree.

  Notation parse := (parse tree ntok is_eof is_semi ps).
  Notation parse_ctx := (parse_ctx tree ntok is_eof is_semi ps).
  Notation recover := (recover tree ntok is_eof is_semi starts_stmt ps).
  Notation sync := (sync ntok is_eof is_semi starts_stmt).
  Notation in_range := (in_range ntok is_eof).
  Notation skip_semi := (skip_semi ntok is_semi).

  (* ------------------------------------------------------------------ C07: the loop copies agree *)
  Theorem parse_ctx_agrees : forall strict fuel pos acc, parse_ctx strict fuel pos acc = parse strict fuel pos acc.
  Proof.
    intros strict. induction fuel as [|f IH]; intros pos acc; [reflexivity|].
    cbn [Loops.parse Loops.parse_ctx].
    destruct (in_range pos); [|reflexivity].
    destruct (is_semi pos); [destruct strict; [reflexivity | apply IH]|].
    destruct (ps pos) as [t p'|c p']; [apply IH | reflexivity].
  Qed.

  (* strict mode only ever turns acceptance into the strict error, never changes a tree or another error *)
  Theorem strict_refines : forall fuel pos acc r,
    parse true fuel pos acc = r -> r = PErr E_STRICT \/ parse false fuel pos acc = r.
  Proof.
    induction fuel as [|f IH]; intros pos acc r H; [right; exact H|].
    cbn [Loops.parse] in *.
    destruct (in_range pos).
    - destruct (is_semi pos); [left; now subst|].
      destruct (ps pos) as [t p'|c p']; [now apply IH | right; exact H].
    - destruct acc; [left; now subst | right; exact H].
  Qed.

  (* ------------------------------------------------------------------ C12: recovery vs strict parsing *)
  Lemma recover_errs_grow : forall fuel pos acc errs u ts es,
    recover fuel pos acc errs u = ROk ts es -> exists more, es = errs ++ more.
  Proof.
    induction fuel as [|f IH]; intros pos acc errs u ts es H; [discriminate|]. cbn [Loops.recover] in H.
    destruct (in_range pos).
    - destruct (is_semi pos); [eapply IH; exact H|].
      destruct (ps pos) as [t p'|c p'].
      + eapply IH; exact H.
      + apply IH in H. destruct H as [more ->]. exists ((pos, c) :: more). now rewrite <- app_assoc.
    - inversion H; subst. exists []. now rewrite app_nil_r.
  Qed.

  Lemma ok_then_same : forall fuel pos acc ts errs u,
    parse false fuel pos acc = POk ts -> recover fuel pos acc errs u = ROk ts errs.
  Proof.
    induction fuel as [|f IH]; intros pos acc ts errs u Hp; [discriminate|].
    cbn [Loops.parse Loops.recover] in Hp |- *.
    destruct (in_range pos).
    - destruct (is_semi pos); [eauto|].
      destruct (ps pos) as [t p'|c' p']; [eauto|discriminate].
    - destruct acc; [discriminate|]. now inversion Hp.
  Qed.

  (* the first error recovery reports carries the code strict parsing fails with *)
  Lemma fail_then_first_err : forall fuel pos acc c errs u ts es,
    parse false fuel pos acc = PErr c -> acc <> [] \/ c <> E_EMPTY ->
    recover fuel pos acc errs u = ROk ts es -> exists p more, es = errs ++ (p, c) :: more.
  Proof.
    induction fuel as [|f IH]; intros pos acc c errs u ts es Hp Hc Hr; [discriminate|].
    cbn [Loops.parse Loops.recover] in Hp, Hr.
    destruct (in_range pos).
    - destruct (is_semi pos); [eauto|].
      destruct (ps pos) as [t p'|c' p'].
      + eapply IH; eauto. left. destruct acc; discriminate.
      + inversion Hp; subst c'. apply recover_errs_grow in Hr. destruct Hr as [more ->].
        exists pos, more. now rewrite <- app_assoc.
    - destruct acc; [inversion Hp; subst; destruct Hc; congruence | discriminate].
  Qed.

  Lemma fail_then_err : forall fuel pos acc c errs u ts es,
    parse false fuel pos acc = PErr c -> acc <> [] \/ c <> E_EMPTY ->
    recover fuel pos acc errs u = ROk ts es -> es <> [].
  Proof.
    induction fuel as [|f IH]; intros pos acc c errs u ts es Hp Hc Hr; [discriminate|].
    cbn [Loops.parse Loops.recover] in Hp, Hr.
    destruct (in_range pos).
    - destruct (is_semi pos); [eauto|].
      destruct (ps pos) as [t p'|c' p'].
      + eapply IH; eauto. left. destruct acc; discriminate.
      + apply recover_errs_grow in Hr. destruct Hr as [more ->]. destruct errs; discriminate.
    - destruct acc; [inversion Hp; subst; destruct Hc; congruence | discriminate].
  Qed.

  (* recovery reports at least one error exactly when strict parsing fails (the empty-input code is excluded by
     the property's "at least one token other than semicolons", discharged by [nonempty_not_E_EMPTY] below) *)
  Theorem recovery_iff_strict : forall fuel ts es,
    recover fuel 0 [] [] None = ROk ts es ->
    parse false fuel 0 [] <> PFuel ->
    (forall c, parse false fuel 0 [] = PErr c -> c <> E_EMPTY) ->
    (es <> [] <-> exists c, parse false fuel 0 [] = PErr c).
  Proof.
    intros fuel ts es Hr Hf Hne. destruct (parse false fuel 0 []) as [ts'|c|] eqn:Hp; [| |congruence].
    - rewrite (ok_then_same _ _ _ _ [] None Hp) in Hr. inversion Hr; subst.
      split; [congruence | intros [c Hc]; discriminate].
    - split; [eauto|]. intros _. eapply fail_then_err; eauto.
  Qed.

  (* when recovery reports no error it returns exactly the trees of strict parsing *)
  Theorem recovery_trees_when_ok : forall fuel ts,
    parse false fuel 0 [] = POk ts -> recover fuel 0 [] [] None = ROk ts [].
  Proof. intros. now apply ok_then_same. Qed.

  (* ------------------------------------------------------------------ C01: termination (fuel sufficiency) *)
  Hypothesis ps_progress : forall p t p', ps p = SOk t p' -> p < p'.
  Hypothesis ps_mono : forall p c p', ps p = SErr c p' -> p <= p'.

  Lemma skip_semi_ge p : p <= skip_semi p.
  Proof. unfold Loops.skip_semi. destruct ((p <? ntok) && is_semi p); lia. Qed.

  Lemma in_range_lt pos : in_range pos = true -> pos < ntok.
  Proof. unfold Loops.in_range. rewrite andb_true_iff, Nat.ltb_lt. tauto. Qed.

  Theorem parse_fuel : forall strict fuel pos acc, ntok - pos < fuel -> parse strict fuel pos acc <> PFuel.
  Proof.
    intros strict. induction fuel as [|f IH]; intros pos acc Hf; [lia|].
    cbn [Loops.parse]. destruct (in_range pos) eqn:Hr.
    - apply in_range_lt in Hr.
      destruct (is_semi pos); [destruct strict; [discriminate | apply IH; lia]|].
      destruct (ps pos) as [t p'|c p'] eqn:Hps; [|discriminate].
      apply ps_progress in Hps. apply IH. pose proof (skip_semi_ge p'). lia.
    - destruct acc; destruct strict; discriminate.
  Qed.

  Lemma sync_ge : forall f p, p <= sync f p.
  Proof.
    induction f as [|f IH]; intros p; cbn [Loops.sync]; [lia|].
    destruct (in_range p); [|lia]. destruct (is_semi p); [lia|]. destruct (starts_stmt p); [lia|].
    specialize (IH (S p)). lia.
  Qed.

  Theorem recover_fuel : forall fuel pos acc errs u, ntok - pos < fuel -> recover fuel pos acc errs u <> RFuel.
  Proof.
    induction fuel as [|f IH]; intros pos acc errs u Hf; [lia|].
    cbn [Loops.recover]. destruct (in_range pos) eqn:Hr; [|discriminate].
    apply in_range_lt in Hr.
    destruct (is_semi pos); [apply IH; lia|].
    destruct (ps pos) as [t p'|c p'] eqn:Hps.
    - apply ps_progress in Hps. apply IH. pose proof (skip_semi_ge p'). lia.
    - apply ps_mono in Hps. apply IH.
      destruct (Nat.eqb_spec p' pos) as [->|Hne].
      + pose proof (sync_ge ntok (S pos)). lia.
      + pose proof (sync_ge ntok p'). lia.
  Qed.

  (* ------------------------------------------------------------------ C12: segments *)
  (* a terminator position: a semicolon, or the end of the token stream / the EOF token *)
  Definition term_semi (e : nat) : Prop := in_range e = true /\ is_semi e = true.
  Definition term_end (e : nat) : Prop := in_range e = false.

  Lemma sync_reach : forall f p1 e,
    p1 <= e -> e - p1 < f ->
    (forall k, p1 <= k < e -> in_range k = true /\ is_semi k = false /\ starts_stmt k = false) ->
    (term_semi e -> sync f p1 = S e) /\ (term_end e -> sync f p1 = e).
  Proof.
    induction f as [|f IH]; intros p1 e Hle Hf Hmid; [lia|].
    cbn [Loops.sync]. destruct (Nat.eq_dec p1 e) as [->|Hne].
    - split; [intros [Hr Hs]; now rewrite Hr, Hs | intros Hr; unfold term_end in Hr; now rewrite Hr].
    - destruct (Hmid p1 ltac:(lia)) as (Hr & Hs & Hk). rewrite Hr, Hs, Hk.
      apply IH; [lia | lia | intros k Hk'; apply Hmid; lia].
  Qed.

  (* segments S1 ; S2 ; ... ; Sn as the loops see them, with the locality assumptions of the property:
     a well-formed segment parses to exactly its terminator; the parse of a malformed one fails without passing
     its terminator, and no statement-starting keyword follows its failure point *)
  Inductive seg := Good (t : tree) | Bad (start : nat) (code : N).

  Inductive segs : nat -> list seg -> Prop :=
  | segs_nil pos : in_range pos = false -> segs pos []
  | segs_semi pos l : in_range pos = true -> is_semi pos = true -> segs (S pos) l -> segs pos l
  | segs_good pos t e l :
      in_range pos = true -> is_semi pos = false ->
      ps pos = SOk t e -> (term_semi e \/ term_end e) ->
      segs (skip_semi e) l -> segs pos (Good t :: l)
  | segs_bad pos c p' e l :
      in_range pos = true -> is_semi pos = false ->
      ps pos = SErr c p' -> p' <= e -> pos < e ->
      (forall k, (if p' =? pos then S pos else p') <= k < e ->
                 in_range k = true /\ is_semi k = false /\ starts_stmt k = false) ->
      (term_semi e \/ term_end e) ->
      segs (if in_range e then S e else e) l -> segs pos (Bad pos c :: l)
  (* a malformed segment whose beginning is a complete statement: the statement parser succeeds up to [e1], inside
     the segment, where a token that cannot start a statement follows without a semicolon *)
  | segs_bad_prefix pos t e1 c p' e l :
      in_range pos = true -> is_semi pos = false ->
      ps pos = SOk t e1 ->
      in_range e1 = true -> is_semi e1 = false -> starts_stmt e1 = false ->
      ps e1 = SErr c p' -> p' <= e -> e1 < e ->
      (forall k, (if p' =? e1 then S e1 else p') <= k < e ->
                 in_range k = true /\ is_semi k = false /\ starts_stmt k = false) ->
      (term_semi e \/ term_end e) ->
      segs (if in_range e then S e else e) l -> segs pos (Bad e1 c :: l).

  Fixpoint goods (l : list seg) : list tree :=
    match l with [] => [] | Good t :: r => t :: goods r | Bad _ _ :: r => goods r end.
  Fixpoint bads (l : list seg) : list (nat * N) :=
    match l with [] => [] | Good _ :: r => bads r | Bad s c :: r => (s, c) :: bads r end.

  (* the unterminated-statement marker never points at a position where a statement of a later segment starts *)
  Definition unterm_ok (u : option nat) (pos : nat) : Prop :=
    forall q, u = Some q -> q < pos \/ (q = pos /\ in_range pos = false).

  Lemma sync_after_failure : forall p1 e, 0 < ntok -> 0 < p1 -> p1 <= e ->
    (forall k, p1 <= k < e -> in_range k = true /\ is_semi k = false /\ starts_stmt k = false) ->
    (term_semi e \/ term_end e) ->
    sync ntok p1 = if in_range e then S e else e.
  Proof.
    intros p1 e Hn Hp0 Hp1 Hmid Ht.
    assert (He : e - p1 < ntok).
    { destruct (Nat.eq_dec p1 e) as [->|Hne]; [lia|].
      destruct (Hmid (e - 1) ltac:(lia)) as [Hre _]. apply in_range_lt in Hre. lia. }
    destruct (sync_reach ntok p1 e Hp1 He Hmid) as [Hsa Hsb].
    destruct Ht as [Hts|Hte].
    - rewrite (Hsa Hts). destruct Hts as [Hre _]. now rewrite Hre.
    - rewrite (Hsb Hte). unfold term_end in Hte. now rewrite Hte.
  Qed.

  Lemma unterm_ok_after : forall u e, unterm_ok u e -> (term_semi e \/ term_end e) ->
    unterm_ok u (if in_range e then S e else e).
  Proof.
    intros u e Hu Ht q Hq. destruct (Hu q Hq) as [Hlt|[-> Hr]].
    - destruct (in_range e); cbn iota; left; lia.
    - rewrite Hr. right. split; [reflexivity | assumption].
  Qed.

  Lemma unterm_ok_weaken : forall u p q, unterm_ok u p -> p < q -> unterm_ok u q.
  Proof. intros u p q Hu Hlt r Hr. destruct (Hu r Hr) as [H|[-> _]]; left; lia. Qed.

  (* recovery returns precisely the trees of the well-formed segments, in order, and one error per malformed
     segment, located at a token of that segment *)
  Theorem recovery_segments_gen : forall l pos, segs pos l ->
    forall fuel acc errs u, unterm_ok u pos -> ntok - pos + length l < fuel ->
    recover fuel pos acc errs u = ROk (acc ++ goods l) (errs ++ bads l).
  Proof.
    intros l pos Hs. induction Hs as [pos Hr | pos l Hr Hsm Hs IH | pos t e l Hr Hsm Hps Ht Hs IH
                                     | pos c p' e l Hr Hsm Hps Hpe Hlt Hmid Ht Hs IH
                                     | pos t e1 c p' e l Hr Hsm Hps Hr1 Hsm1 Hk1 Hps1 Hpe Hlt Hmid Ht Hs IH];
      intros fuel acc errs u Hu Hf.
    - destruct fuel as [|f]; [lia|]. cbn [Loops.recover]. rewrite Hr. cbn. now rewrite !app_nil_r.
    - destruct fuel as [|f]; [lia|]. cbn [Loops.recover]. rewrite Hr, Hsm.
      apply in_range_lt in Hr. apply IH; [eapply unterm_ok_weaken; eauto | lia].
    - destruct fuel as [|f]; [cbn in Hf; lia|]. cbn [Loops.recover]. rewrite Hr, Hsm, Hps.
      cbn [goods bads].
      pose proof (ps_progress _ _ _ Hps) as Hpr. pose proof (skip_semi_ge e) as Hge.
      rewrite (IH f (acc ++ [t]) errs).
      + now rewrite <- app_assoc.
      + (* the marker after a well-formed segment *)
        unfold Loops.skip_semi. destruct ((e <? ntok) && is_semi e) eqn:Hse.
        * eapply unterm_ok_weaken; [exact Hu | lia].
        * intros q Hq. inversion Hq; subst q. right. split; [reflexivity|].
          destruct Ht as [[Hre Hse']|Hte]; [|exact Hte].
          apply in_range_lt in Hre. apply Nat.ltb_lt in Hre. rewrite Hre, Hse' in Hse. discriminate.
      + apply in_range_lt in Hr. cbn [length] in Hf. lia.
    - destruct fuel as [|f]; [cbn in Hf; lia|]. cbn [Loops.recover]. rewrite Hr, Hsm, Hps.
      assert (Hacc : match u with
                     | Some u0 => if (u0 =? pos) && negb (starts_stmt pos) then removelast acc else acc
                     | None => acc end = acc).
      { destruct u as [q|]; [|reflexivity]. destruct (Hu q eq_refl) as [Hq|[-> Hq]].
        - destruct (Nat.eqb_spec q pos); [lia | reflexivity].
        - congruence. }
      rewrite Hacc.
      set (p1 := if p' =? pos then S pos else p') in *.
      pose proof (ps_mono _ _ _ Hps) as Hm.
      assert (Hp1 : p1 <= e) by (subst p1; destruct (Nat.eqb_spec p' pos); lia).
      assert (Hp1' : pos < p1) by (subst p1; destruct (Nat.eqb_spec p' pos); lia).
      pose proof (in_range_lt _ Hr) as Hlt'.
      rewrite (sync_after_failure p1 e ltac:(lia) ltac:(lia) Hp1 Hmid Ht). cbn [goods bads].
      rewrite (IH f acc (errs ++ [(pos, c)]) u).
      + now rewrite <- app_assoc.
      + apply unterm_ok_after; [|exact Ht]. eapply unterm_ok_weaken; [exact Hu | lia].
      + cbn [length] in Hf. destruct (in_range e); lia.
    - (* a complete statement followed, inside the same segment, by tokens that cannot start a statement *)
      destruct fuel as [|[|f]]; [cbn in Hf; lia | cbn in Hf; pose proof (in_range_lt _ Hr); pose proof (in_range_lt _ Hr1); pose proof (ps_progress _ _ _ Hps); lia |].
      cbn [Loops.recover]. rewrite Hr, Hsm, Hps.
      assert (Hss : skip_semi e1 = e1) by (unfold Loops.skip_semi; now rewrite Hsm1, andb_false_r).
      rewrite Hss. rewrite Hsm1, andb_false_r.
      rewrite Hr1, Hps1. rewrite Nat.eqb_refl, Hk1. cbn [negb andb].
      rewrite removelast_last.
      set (p1 := if p' =? e1 then S e1 else p') in *.
      pose proof (ps_mono _ _ _ Hps1) as Hm.
      assert (Hp1 : p1 <= e) by (subst p1; destruct (Nat.eqb_spec p' e1); lia).
      assert (Hp1' : e1 < p1) by (subst p1; destruct (Nat.eqb_spec p' e1); lia).
      pose proof (in_range_lt _ Hr1) as Hlt'.
      rewrite (sync_after_failure p1 e ltac:(lia) ltac:(lia) Hp1 Hmid Ht). cbn [goods bads].
      rewrite (IH f acc (errs ++ [(e1, c)]) (Some e1)).
      + now rewrite <- app_assoc.
      + intros q Hq. inversion Hq; subst q. left. destruct (in_range e); lia.
      + pose proof (ps_progress _ _ _ Hps). pose proof (in_range_lt _ Hr). cbn [length] in Hf. destruct (in_range e); lia.
  Qed.

  Theorem recovery_segments : forall l, segs 0 l ->
    forall fuel, ntok + length l < fuel ->
    recover fuel 0 [] [] None = ROk (goods l) (bads l).
  Proof.
    intros l Hs fuel Hf. apply (recovery_segments_gen l 0 Hs fuel [] [] None); [intros q Hq; discriminate | lia].
  Qed.

  (* where an error is located: the ParseError carries the location of the token under the cursor when parseStatement
     gave up, i.e. of token [p'] for [ps start = SErr c p'] *)
  Definition err_loc (start : nat) : nat := match ps start with SErr _ p' => p' | SOk _ _ => start end.

  (* every error of a segmented input is located inside its own segment: at or after the first token of the failing
     statement, and no semicolon lies between the located token and the terminator (semicolon / end of input) of
     that segment — the location never names a token of an earlier or a later statement *)
  Definition located_in_segment (sc : nat * N) : Prop :=
    exists p' e, ps (fst sc) = SErr (snd sc) p' /\ err_loc (fst sc) = p' /\ fst sc <= p' /\ p' <= e /\
                 (term_semi e \/ term_end e) /\ (forall k, p' <= k < e -> is_semi k = false).

  Theorem segs_errors_located : forall l pos, segs pos l -> Forall located_in_segment (bads l).
  Proof.
    intros l pos Hs. induction Hs as [pos Hr | pos l Hr Hsm Hs IH | pos t e l Hr Hsm Hps Ht Hs IH
                                     | pos c p' e l Hr Hsm Hps Hpe Hlt Hmid Ht Hs IH
                                     | pos t e1 c p' e l Hr Hsm Hps Hr1 Hsm1 Hk1 Hps1 Hpe Hlt Hmid Ht Hs IH];
      cbn [bads]; try assumption; [constructor | |].
    - constructor; [|exact IH]. exists p', e. cbn [fst snd]. unfold err_loc. rewrite Hps.
      pose proof (ps_mono _ _ _ Hps) as Hm.
      repeat split; try assumption.
      intros k Hk. destruct (Nat.eqb_spec p' pos) as [->|Hne].
      + destruct (Nat.eq_dec k pos) as [->|Hnk]; [exact Hsm|]. apply Hmid. lia.
      + apply Hmid. lia.
    - constructor; [|exact IH]. exists p', e. cbn [fst snd]. unfold err_loc. rewrite Hps1.
      pose proof (ps_mono _ _ _ Hps1) as Hm.
      repeat split; try assumption.
      intros k Hk. destruct (Nat.eqb_spec p' e1) as [->|Hne].
      + destruct (Nat.eq_dec k e1) as [->|Hnk]; [exact Hsm1|]. apply Hmid. lia.
      + apply Hmid. lia.
  Qed.

  (* ------------------------------------------------------------------ C20: tokens touched by recovery *)
  Hypothesis ps_bounded : forall p, match ps p with SOk _ p' => p' <= ntok | SErr _ p' => p' <= ntok end.

  Lemma sync_le : forall f p, p <= ntok -> sync f p <= ntok.
  Proof.
    induction f as [|f IH]; intros p Hp; cbn [Loops.sync]; [exact Hp|].
    destruct (in_range p) eqn:Hr; [|exact Hp]. apply in_range_lt in Hr.
    destruct (is_semi p); [lia|]. destruct (starts_stmt p); [lia|]. apply IH. lia.
  Qed.

  (* with the code's resume rule every token is touched at most three times: recovery is linear in the number of
     tokens whatever the statement parser answers and wherever the errors are *)
  Theorem recover_work_linear : forall fuel pos, pos <= ntok ->
    rwork tree ntok is_eof is_semi starts_stmt ps resume_code fuel pos <= 3 * (ntok - pos).
  Proof.
    induction fuel as [|f IH]; intros pos Hp; cbn [Loops.rwork]; [lia|].
    destruct (in_range pos) eqn:Hr; [|lia]. pose proof (in_range_lt _ Hr) as Hlt.
    destruct (is_semi pos).
    - specialize (IH (S pos) ltac:(lia)). lia.
    - pose proof (ps_bounded pos) as Hb. destruct (ps pos) as [t p'|c p'] eqn:Hps.
      + pose proof (ps_progress _ _ _ Hps) as Hpr. pose proof (skip_semi_ge p') as Hge.
        assert (Hsk : skip_semi p' <= ntok).
        { unfold Loops.skip_semi. destruct (p' <? ntok) eqn:Hl; cbn [andb].
          - apply Nat.ltb_lt in Hl. destruct (is_semi p'); lia.
          - lia. }
        specialize (IH (skip_semi p') Hsk). lia.
      + pose proof (ps_mono _ _ _ Hps) as Hm. cbv zeta.
        assert (Hres : resume_code pos p' = if p' =? pos then S pos else p') by reflexivity. rewrite Hres. clear Hres.
        destruct (Nat.eqb_spec p' pos) as [->|Hne].
        * pose proof (sync_ge ntok (S pos)) as Hg. pose proof (sync_le ntok (S pos) ltac:(lia)) as Hl.
          specialize (IH (sync ntok (S pos)) Hl). lia.
        * pose proof (sync_ge ntok p') as Hg. pose proof (sync_le ntok p' Hb) as Hl.
          specialize (IH (sync ntok p') Hl). lia.
  Qed.
End P.

(* ------------------------------------------------------------------ C07: batch calls *)
Section B.
  Variables Q T : Type.
  Variable one : Q -> pres T.

  Theorem multi_ok : forall qs i acc rs,
    multi Q T one i qs acc = MOk rs ->
    exists rs', rs = acc ++ rs' /\ Forall2 (fun q ts => one q = POk ts) qs rs'.
  Proof.
    induction qs as [|q r IH]; intros i acc rs H; cbn [multi] in H.
    - inversion H; subst. exists []. split; [now rewrite app_nil_r | constructor].
    - destruct (one q) as [ts|c|] eqn:Hq; try discriminate.
      apply IH in H. destruct H as [rs' [-> HF]]. exists (ts :: rs'). split.
      + now rewrite <- app_assoc.
      + constructor; assumption.
  Qed.

  Theorem multi_err : forall qs i acc j c,
    multi Q T one i qs acc = MErr j c ->
    exists pre q post, qs = pre ++ q :: post /\ j = i + length pre /\ one q = PErr c /\
                       Forall (fun q' => exists ts, one q' = POk ts) pre.
  Proof.
    induction qs as [|q r IH]; intros i acc j c H; cbn [multi] in H; [discriminate|].
    destruct (one q) as [ts|c'|] eqn:Hq; try discriminate.
    - apply IH in H. destruct H as (pre & q0 & post & -> & -> & Hq0 & HF).
      exists (q :: pre), q0, post. repeat split; [cbn; lia | assumption | constructor; eauto].
    - inversion H; subst. exists [], q, r. repeat split; [cbn; lia | assumption | constructor].
  Qed.

  (* conversely: all individual calls succeed => the batch succeeds with exactly their results *)
  Theorem multi_all_ok : forall qs i acc rs',
    Forall2 (fun q ts => one q = POk ts) qs rs' -> multi Q T one i qs acc = MOk (acc ++ rs').
  Proof.
    induction qs as [|q r IH]; intros i acc rs' HF; inversion HF; subst; cbn [multi].
    - now rewrite app_nil_r.
    - rewrite H1. rewrite (IH (S i) (acc ++ [y]) l' H3). now rewrite <- app_assoc.
  Qed.
End B.

(* ------------------------------------------------------------------ non-vacuity: a concrete statement parser *)
(* tokens:  K . S K . . S E   (two statements, the second malformed at its third token) *)
Example loops_example :
  let kinds := [3; 0; 2; 3; 0; 0; 2; 1] in
  let tbl := [SOk 100 2; SErr 1%N 1; SErr 1%N 2; SErr 7%N 5; SErr 1%N 4; SErr 1%N 5; SErr 1%N 6; SErr 1%N 7] in
  run_parse false kinds tbl = PErr 7%N /\
  run_parse_ctx false kinds tbl = PErr 7%N /\
  run_recover kinds tbl = ROk [100] [(3, 7%N)].
Proof. vm_compute. repeat split. Qed.

(* ---- the batch loop on ONE reused parser ---- *)
Section BatchStP.
  Variables Q T St : Type.
  Variable one_st : St -> Q -> pres T * St.
  Variable s0 : St.
  Variable good : St -> Prop.                        (* the states in which a call behaves like a call on a fresh parser *)
  Hypothesis good_keeps : forall s q, good s -> good (snd (one_st s q)).
  Hypothesis good_same : forall s q, good s -> fst (one_st s q) = fst (one_st s0 q).

  (* if every call leaves the parser in a state that is as good as new, the batch on the reused parser is the batch
     of individual calls on fresh parsers *)
  Theorem multi_st_refines : forall qs s i acc, good s ->
    multi_st Q T St one_st s i qs acc = multi Q T (fun q => fst (one_st s0 q)) i qs acc.
  Proof.
    induction qs as [|q r IH]; intros s i acc Hg; cbn [multi_st multi]; [reflexivity|].
    pose proof (good_same s q Hg) as Hs. pose proof (good_keeps s q Hg) as Hk.
    destruct (one_st s q) as [res s'] eqn:E. cbn [fst snd] in Hs, Hk. rewrite <- Hs.
    destruct res as [ts|c|]; [apply IH; exact Hk|reflexivity|reflexivity].
  Qed.
End BatchStP.

(* the depth-counter instance: balanced bookkeeping (nothing left behind) keeps the counter at 0 *)
Lemma depth_batch_balanced : forall limit qs i acc,
  Forall (fun q => snd q = 0) qs ->
  multi_st (nat * nat) nat nat (depth_one limit) 0 i qs acc
  = multi (nat * nat) nat (fun q => fst (depth_one limit 0 q)) i qs acc.
Proof.
  intros limit qs. induction qs as [|q r IH]; intros i acc HF; cbn [multi_st multi]; [reflexivity|].
  inversion HF as [|q' r' Hq Hr]; subst.
  unfold depth_one at 1 3. cbn [fst snd]. rewrite Hq, Nat.add_0_r.
  destruct (0 + fst q <=? limit); cbn [fst]; [apply IH; exact Hr|reflexivity].
Qed.

(* ... and one level left behind per member makes a batch of individually accepted queries fail: with limit 100, 100
   queries that need one level each and leak one level each are all accepted alone, the batch fails at index 100 *)
Lemma depth_batch_leak_refuted :
  Forall (fun q => fst (depth_one 100 0 q) = POk [fst q]) (repeat (1, 1) 101) /\
  multi_st (nat * nat) nat nat (depth_one 100) 0 0 (repeat (1, 1) 101) [] = MErr 100 E_DEPTH.
Proof.
  split.
  - apply Forall_forall. intros q Hq. apply repeat_spec in Hq. subst q. reflexivity.
  - vm_compute. reflexivity.
Qed.

(* going back into the failed statement instead (resume one token past its start) makes recovery re-read the rest of a
   long malformed statement from every inner statement keyword: on one statement with 40 statement keywords (161 tokens)
   the code's rule touches 162 tokens, the restart rule 3480 (more than 20 per token; it grows with the square) *)
Lemma restart_work_quadratic_refuted :
  run_rwork false (chain_kinds 40) (chain_tbl 40) = 162 /\
  run_rwork true (chain_kinds 40) (chain_tbl 40) = 3480 /\
  20 * length (chain_kinds 40) < run_rwork true (chain_kinds 40) (chain_tbl 40).
Proof. vm_compute. repeat split. lia. Qed.
