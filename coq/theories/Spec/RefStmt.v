(* RefStmt.v — reference statements of C03 (the statement part of the "model grammar"): SELECT with DISTINCT [ON (...)],
   select list with aliases and `*`, FROM list (possibly schema-qualified names, aliases with or without AS), joins of
   every kind with ON / USING, WHERE, GROUP BY (expressions, ROLLUP (...), CUBE (...)), HAVING, ORDER BY with direction and
   NULLS FIRST | LAST, LIMIT, OFFSET, FETCH FIRST | NEXT; set
   operations (UNION | EXCEPT | INTERSECT [ALL], left-nested as the grammar prescribes); WITH [RECURSIVE] with column
   lists and [NOT] MATERIALIZED; INSERT (VALUES rows | query, ON CONFLICT, RETURNING), UPDATE (SET, WHERE, RETURNING), DELETE
   (WHERE, RETURNING).  Expressions inside statements are the reference expressions of Spec/RefGrammar.v.

   [render_*] gives the token list for every parenthesisation choice of every expression ([srho]: clause number and
   position -> [rho]); [ast_of_*] is the prescribed tree (typed mirror of Model/Expr.v).
   GROUP BY also takes GROUPING SETS ( ( a, b ), c, ( ) ); a SELECT may end with the locking clause FOR UPDATE | NO KEY UPDATE |
   SHARE | KEY SHARE [OF t, ...] [NOWAIT | SKIP LOCKED]; MERGE [INTO] t [[AS] a] USING s [[AS] b] ON cond WHEN ... THEN ... with every
   documented kind x action pair.
   Not in this reference grammar (see design/C03.md): SELECT ALL, derived tables, LATERAL, sub-query expressions, window functions, ON DUPLICATE KEY, DDL.
   Definitions only. *)
From Coq Require Import List String Ascii Bool Arith NArith ZArith DecimalString Decimal.
From GV Require Import Spec.RefGrammar Model.Expr.
Import ListNotations.
Local Open Scope string_scope.
Local Open Scope list_scope.
Local Open Scope nat_scope.

(* ------------------------------------------------------------------------------------------------ *)
(* token types the expression grammar did not need: models.TokenType values (checked by the correspondence) *)
Definition TyInsert := TyOther 234.
Definition TyUpdate := TyOther 235.
Definition TyDelete := TyOther 236.
Definition TyInto := TyOther 237.
Definition TyValues := TyOther 238.
Definition TySet := TyOther 239.
Definition TyRecursive := TyOther 281.
Definition TyRows := TyOther 302.
Definition TyRow := TyOther 308.
Definition TyLateral := TyOther 324.
Definition TyFor := TyOther 364.
Definition TyFetch := TyOther 368.
Definition TyMatched := TyOther 371.
Definition TyTarget := TyOther 372.
Definition TySource := TyOther 373.
Definition TyOnly := TyOther 363.
Definition TyNext := TyOther 369.
Definition TyMaterialized := TyOther 374.
Definition TyTies := TyOther 376.
Definition TyPercent := TyOther 377.
Definition TyReturning := TyOther 379.
Definition TyGroupingSets := TyOther 390.
Definition TyConstraint := TyOther 338.
Definition TyRollup := TyOther 391.
Definition TyCube := TyOther 392.
Definition TyGrouping := TyOther 393.
Definition TySets := TyOther 394.
Definition TyMerge := TyOther 370.
Definition TyDefault := TyOther 336.
Definition TyKey := TyOther 331.
Definition TyShare := TyOther 380.
Definition TyNowait := TyOther 381.
Definition TySkip := TyOther 382.
Definition TyLocked := TyOther 383.
Definition TyOf := TyOther 384.

(* ------------------------------------------------------------------------------------------------ *)
(* numbers written after LIMIT / OFFSET: the value of a digit string *)
Definition is_digit (c : ascii) : bool := let n := nat_of_ascii c in (48 <=? n) && (n <=? 57).
Fixpoint dec_acc (acc : Z) (s : string) : Z :=
  match s with
  | EmptyString => acc
  | String c r => if is_digit c then dec_acc (acc * 10 + Z.of_nat (nat_of_ascii c - 48)) r else acc
  end.
Definition dec_value (s : string) : Z := dec_acc 0 s.
Fixpoint all_digits (s : string) : bool :=
  match s with EmptyString => true | String c r => is_digit c && all_digits r end.
Definition number_ok (s : string) : bool := negb (String.eqb s "") && all_digits s.

(* ------------------------------------------------------------------------------------------------ *)
(* reference objects *)

Definition malias := option (bool * string).            (* (written with AS?, name) *)

Record mtable := MkTable { tb_path : list string; tb_alias : malias }.      (* [schema .] name [[AS] alias] *)

Inductive jside := SNone | SInner | SLeft (outer : bool) | SRight (outer : bool) | SFull (outer : bool) | SCross.
Inductive jcond := JOn (e : mexpr) | JUsing (cols : list string).
Record mjoin := MkJoin { j_nat : bool; j_side : jside; j_table : mtable; j_cond : option jcond }.

Record morder := MkOrder { o_expr : mexpr; o_dir : option bool (* Some true = ASC *); o_nulls : option bool (* Some true = FIRST *) }.

Inductive mitem := IStar | IQStar (table : string) (* t.* *) | IExpr (e : mexpr) (alias : malias).
(* one grouping set: ( e, ... ) - possibly empty - or a column reference written without parentheses *)
Inductive mgset := GsList (es : list mexpr) | GsBare (e : mexpr).
Inductive mgroup := GrExpr (e : mexpr) | GrRollup (es : list mexpr) | GrCube (es : list mexpr)   (* e | ROLLUP (..) | CUBE (..) *)
                  | GrSets (sets : list mgset).                                                  (* GROUPING SETS ( set, ... ) *)

(* FETCH {FIRST | NEXT} n [PERCENT] [ROW | ROWS] {ONLY | WITH TIES} *)
Record mfetch := MkFetch { ft_next : bool; ft_count : string; ft_percent : bool; ft_rows : option bool (* Some true = ROWS *); ft_ties : bool }.

(* FOR {UPDATE | NO KEY UPDATE | SHARE | KEY SHARE} [OF table, ...] [NOWAIT | SKIP LOCKED] *)
Inductive mlock := LkUpdate | LkNoKeyUpdate | LkShare | LkKeyShare.
Inductive mwait := WtNone | WtNowait | WtSkipLocked.
Record mfor := MkFor { fr_lock : mlock; fr_of : list string; fr_wait : mwait }.

Record mselect := MkSelect {
  s_distinct : bool; s_distinct_on : list mexpr (* DISTINCT ON ( ... ) *); s_items : list mitem; s_from : list mtable; s_joins : list mjoin;
  s_where : option mexpr; s_group : list mgroup; s_having : option mexpr; s_order : list morder;
  s_limit : option string; s_offset : option string; s_fetch : option mfetch; s_for : option mfor }.

Inductive setop := OUnion | OExcept | OIntersect.
Inductive mquery :=
  | QSelect (s : mselect)
  | QSetOp (l : mquery) (op : setop) (all : bool) (r : mselect).

Record mcte := MkCte { c_name : string; c_cols : list string; c_mat : option bool; c_body : mquery }.
Record mwith := MkWith { w_rec : bool; w_ctes : list mcte }.

(* ON CONFLICT [( columns ) | ON CONSTRAINT name] DO NOTHING | DO UPDATE SET column = expr, ... [WHERE expr] *)
Inductive mctarget := CtNone | CtCols (cols : list string) | CtConstraint (name : string).
Inductive mcaction := CaNothing | CaUpdate (sets : list (string * mexpr)) (where_ : option mexpr).
Record mconflict := MkConflict { cf_target : mctarget; cf_action : mcaction }.

(* MERGE [INTO] target [[AS] alias] USING source [[AS] alias] ON cond { WHEN kind [AND cond] THEN action } *)
Inductive mkind := KMatched | KNotMatched | KNotMatchedBySource.
Definition mcol := (option string * string)%type.                       (* [qualifier .] column *)
Inductive maction :=
  | MaUpdate (sets : list (mcol * mexpr))                               (* UPDATE SET [t.]c = e, ... *)
  | MaDelete
  | MaInsert (cols : list string) (vals : option (list mexpr)).         (* INSERT [(cols)] VALUES (e, ...) | DEFAULT VALUES *)
Record mwhen := MkWhen { wn_kind : mkind; wn_cond : option mexpr; wn_action : maction }.
Record mmerge := MkMerge { mg_into : bool; mg_target : list string; mg_talias : malias; mg_source : list string;
                           mg_salias : malias; mg_on : mexpr; mg_whens : list mwhen }.

Inductive mbody :=
  | BQuery (q : mquery)
  | BInsert (table : list string) (cols : list string) (src : list (list mexpr) + mquery) (conflict : option mconflict)
            (returning : list mexpr)
  | BUpdate (table : list string) (sets : list (string * mexpr)) (where_ : option mexpr) (returning : list mexpr)
  | BDelete (table : list string) (where_ : option mexpr) (returning : list mexpr)
  | BMerge (m : mmerge).

Record mstmt := MkStmt { st_with : option mwith; st_body : mbody }.

(* parenthesisation choices of a statement: clause number, position in the clause -> choice for that expression *)
Definition srho := nat -> nat -> rho.
Definition cl_items := 0.  Definition cl_on := 1.  Definition cl_where := 2.  Definition cl_group := 3.
Definition cl_having := 4. Definition cl_order := 5. Definition cl_values := 6. Definition cl_set := 7.
Definition cl_returning := 8. Definition cl_don := 9. Definition cl_cset := 10. Definition cl_cwhere := 11.
(* MERGE: the ON condition (position 0), the AND condition of the k-th WHEN clause (position k), the SET values and the
   INSERT values of all WHEN clauses (each numbered consecutively through the statement) *)
Definition cl_mon := 12. Definition cl_mcond := 13. Definition cl_mset := 14. Definition cl_mvals := 15.
(* the k-th SELECT of a set-operation chain / the k-th CTE body uses a shifted choice function *)
Definition shift (sr : srho) (k : nat) : srho := fun c i => sr (c + 16 * k) i.

(* ------------------------------------------------------------------------------------------------ *)
(* rendering *)
Definition tPeriod := Tk TyPeriod ".".
Definition path_toks (p : list string) : list token := sep_by [tPeriod] (map (fun s => [Tk TyIdent s]) p).
Definition alias_toks (a : malias) : list token :=
  match a with None => [] | Some (askw, n) => (if askw then [Tk TyAs "AS"] else []) ++ [Tk TyIdent n] end.
Definition table_toks (t : mtable) : list token := path_toks (tb_path t) ++ alias_toks (tb_alias t).

Definition outer_toks (o : bool) : list token := if o then [Tk TyOuter "OUTER"] else [].
Definition side_toks (s : jside) : list token :=
  match s with
  | SNone => [] | SInner => [Tk TyInner "INNER"]
  | SLeft o => Tk TyLeft "LEFT" :: outer_toks o | SRight o => Tk TyRight "RIGHT" :: outer_toks o
  | SFull o => Tk TyFull "FULL" :: outer_toks o | SCross => [Tk TyCross "CROSS"]
  end.
Definition idents_toks (l : list string) : list token := sep_by [tComma] (map (fun s => [Tk TyIdent s]) l).
Definition cond_toks (r : rho) (c : option jcond) : list token :=
  match c with
  | None => []
  | Some (JOn e) => Tk TyOn "ON" :: render 0 r e
  | Some (JUsing cols) => Tk TyUsing "USING" :: tLP :: idents_toks cols ++ [tRP]
  end.
Definition join_toks (r : rho) (j : mjoin) : list token :=
  (if j_nat j then [Tk TyNatural "NATURAL"] else []) ++ side_toks (j_side j) ++ Tk TyJoin "JOIN" :: table_toks (j_table j)
  ++ cond_toks r (j_cond j).
Fixpoint joins_toks (sr : srho) (i : nat) (l : list mjoin) : list token :=
  match l with [] => [] | j :: tl => join_toks (sr cl_on i) j ++ joins_toks sr (S i) tl end.

Definition item_toks (r : rho) (it : mitem) : list token :=
  match it with
  | IStar => [Tk TyAsterisk "*"]
  | IQStar t => [Tk TyIdent t; tPeriod; Tk TyAsterisk "*"]
  | IExpr e a => render 0 r e ++ alias_toks a
  end.
Fixpoint items_toks (sr : srho) (i : nat) (l : list mitem) : list (list token) :=
  match l with [] => [] | it :: tl => item_toks (sr cl_items i) it :: items_toks sr (S i) tl end.

Fixpoint exprs_toks (sr : srho) (c : nat) (i : nat) (l : list mexpr) : list (list token) :=
  match l with [] => [] | e :: tl => render 0 (sr c i) e :: exprs_toks sr c (S i) tl end.

Definition order_toks (r : rho) (o : morder) : list token :=
  render 0 r (o_expr o)
  ++ match o_dir o with None => [] | Some true => [Tk TyAsc "ASC"] | Some false => [Tk TyDesc "DESC"] end
  ++ match o_nulls o with None => [] | Some true => [Tk TyNulls "NULLS"; Tk TyFirst "FIRST"]
                        | Some false => [Tk TyNulls "NULLS"; Tk TyLast "LAST"] end.
Fixpoint orders_toks (sr : srho) (i : nat) (l : list morder) : list (list token) :=
  match l with [] => [] | o :: tl => order_toks (sr cl_order i) o :: orders_toks sr (S i) tl end.

Definition opt_clause {A} (kwd : list token) (f : A -> list token) (o : option A) : list token :=
  match o with None => [] | Some x => kwd ++ f x end.
Definition list_clause (kwd : list token) (l : list (list token)) : list token :=
  match l with [] => [] | _ => kwd ++ sep_by [tComma] l end.

Definition from_toks (l : list mtable) : list token := list_clause [Tk TyFrom "FROM"] (map table_toks l).
Definition where_toks (sr : srho) (o : option mexpr) : list token := opt_clause [Tk TyWhere "WHERE"] (render 0 (sr cl_where 0)) o.
(* the expressions of all grouping items are numbered consecutively *)
Definition gset_size (g : mgset) : nat := match g with GsList es => List.length es | GsBare _ => 1 end.
Fixpoint gsets_size (l : list mgset) : nat := match l with [] => 0 | g :: tl => gset_size g + gsets_size tl end.
Definition gset_toks (sr : srho) (i : nat) (g : mgset) : list token :=
  match g with
  | GsList es => tLP :: sep_by [tComma] (exprs_toks sr cl_group i es) ++ [tRP]
  | GsBare e => render 0 (sr cl_group i) e
  end.
Fixpoint gsets_toks (sr : srho) (i : nat) (l : list mgset) : list (list token) :=
  match l with [] => [] | g :: tl => gset_toks sr i g :: gsets_toks sr (i + gset_size g) tl end.
Definition group_size (g : mgroup) : nat :=
  match g with GrExpr _ => 1 | GrRollup es | GrCube es => List.length es | GrSets sets => gsets_size sets end.
(* the tokenizer hands out GROUPING SETS as one keyword token (spelled in upper case) *)
Definition group_item_toks (sr : srho) (i : nat) (g : mgroup) : list token :=
  match g with
  | GrExpr e => render 0 (sr cl_group i) e
  | GrRollup es => Tk TyRollup "ROLLUP" :: tLP :: sep_by [tComma] (exprs_toks sr cl_group i es) ++ [tRP]
  | GrCube es => Tk TyCube "CUBE" :: tLP :: sep_by [tComma] (exprs_toks sr cl_group i es) ++ [tRP]
  | GrSets sets => Tk TyKeyword "GROUPING SETS" :: tLP :: sep_by [tComma] (gsets_toks sr i sets) ++ [tRP]
  end.
Fixpoint groups_toks (sr : srho) (i : nat) (l : list mgroup) : list (list token) :=
  match l with [] => [] | g :: tl => group_item_toks sr i g :: groups_toks sr (i + group_size g) tl end.
Definition group_toks (sr : srho) (l : list mgroup) : list token :=
  list_clause [Tk TyGroup "GROUP"; Tk TyBy "BY"] (groups_toks sr 0 l).
Definition distinct_toks (sr : srho) (d : bool) (don : list mexpr) : list token :=
  if d then Tk TyDistinct "DISTINCT" ::
            match don with [] => [] | _ => Tk TyOn "ON" :: tLP :: sep_by [tComma] (exprs_toks sr cl_don 0 don) ++ [tRP] end
  else [].
Definition having_toks (sr : srho) (o : option mexpr) : list token := opt_clause [Tk TyHaving "HAVING"] (render 0 (sr cl_having 0)) o.
Definition orderby_toks (sr : srho) (l : list morder) : list token :=
  list_clause [Tk TyOrder "ORDER"; Tk TyBy "BY"] (orders_toks sr 0 l).
Definition limit_toks (o : option string) : list token := opt_clause [Tk TyLimit "LIMIT"] (fun s => [Tk TyNumber s]) o.
Definition offset_toks (o : option string) : list token := opt_clause [Tk TyOffset "OFFSET"] (fun s => [Tk TyNumber s]) o.
Definition fetch_toks (o : option mfetch) : list token :=
  opt_clause [Tk TyFetch "FETCH"]
    (fun f => (if ft_next f then Tk TyNext "NEXT" else Tk TyFirst "FIRST") :: Tk TyNumber (ft_count f)
              :: (if ft_percent f then [Tk TyPercent "PERCENT"] else [])
              ++ match ft_rows f with None => [] | Some true => [Tk TyRows "ROWS"] | Some false => [Tk TyRow "ROW"] end
              ++ (if ft_ties f then [Tk TyWith "WITH"; Tk TyTies "TIES"] else [Tk TyOnly "ONLY"])) o.

Definition lock_toks (l : mlock) : list token :=
  match l with
  | LkUpdate => [Tk TyUpdate "UPDATE"]
  | LkNoKeyUpdate => [Tk TyIdent "NO"; Tk TyKey "KEY"; Tk TyUpdate "UPDATE"]      (* NO is not a keyword of the tokenizer *)
  | LkShare => [Tk TyShare "SHARE"]
  | LkKeyShare => [Tk TyKey "KEY"; Tk TyShare "SHARE"]
  end.
Definition wait_toks (w : mwait) : list token :=
  match w with WtNone => [] | WtNowait => [Tk TyNowait "NOWAIT"] | WtSkipLocked => [Tk TySkip "SKIP"; Tk TyLocked "LOCKED"] end.
Definition of_toks (l : list string) : list token := match l with [] => [] | _ => Tk TyOf "OF" :: idents_toks l end.
Definition for_toks (o : option mfor) : list token :=
  opt_clause [Tk TyFor "FOR"] (fun f => lock_toks (fr_lock f) ++ of_toks (fr_of f) ++ wait_toks (fr_wait f)) o.

(* everything after the SELECT keyword *)
Definition select_tail_toks (sr : srho) (s : mselect) : list token :=
  distinct_toks sr (s_distinct s) (s_distinct_on s)
  ++ sep_by [tComma] (items_toks sr 0 (s_items s))
  ++ from_toks (s_from s) ++ joins_toks sr 0 (s_joins s)
  ++ where_toks sr (s_where s) ++ group_toks sr (s_group s) ++ having_toks sr (s_having s)
  ++ orderby_toks sr (s_order s) ++ limit_toks (s_limit s) ++ offset_toks (s_offset s) ++ fetch_toks (s_fetch s)
  ++ for_toks (s_for s).
Definition render_select (sr : srho) (s : mselect) : list token := Tk TySelect "SELECT" :: select_tail_toks sr s.

Definition setop_tok (op : setop) : token :=
  match op with OUnion => Tk TyUnion "UNION" | OExcept => Tk TyExcept "EXCEPT" | OIntersect => Tk TyIntersect "INTERSECT" end.
(* number of SELECTs in a query *)
Fixpoint qsize (q : mquery) : nat := match q with QSelect _ => 1 | QSetOp l _ _ _ => S (qsize l) end.
(* the k-th SELECT (from the left, starting at [base]) uses [shift sr k] *)
Fixpoint render_query (sr : srho) (base : nat) (q : mquery) : list token :=
  match q with
  | QSelect s => render_select (shift sr base) s
  | QSetOp l op all r =>
      render_query sr base l ++ setop_tok op :: (if all then [Tk TyAll "ALL"] else [])
      ++ render_select (shift sr (base + qsize l)) r
  end.

Definition mat_toks (m : option bool) : list token :=
  match m with None => [] | Some true => [Tk TyMaterialized "MATERIALIZED"]
             | Some false => [Tk TyNot "NOT"; Tk TyMaterialized "MATERIALIZED"] end.
Definition cols_toks (l : list string) : list token := match l with [] => [] | _ => tLP :: idents_toks l ++ [tRP] end.
(* CTE bodies use the choice functions after those of the main statement: offset [base] *)
Definition cte_toks (sr : srho) (base : nat) (c : mcte) : list token :=
  Tk TyIdent (c_name c) :: cols_toks (c_cols c) ++ Tk TyAs "AS" :: mat_toks (c_mat c)
  ++ tLP :: render_query sr base (c_body c) ++ [tRP].
Fixpoint ctes_toks (sr : srho) (base : nat) (l : list mcte) : list (list token) :=
  match l with [] => [] | c :: tl => cte_toks sr base c :: ctes_toks sr (base + qsize (c_body c)) tl end.
Fixpoint ctes_size (l : list mcte) : nat := match l with [] => 0 | c :: tl => qsize (c_body c) + ctes_size tl end.
Definition with_toks (sr : srho) (w : option mwith) : list token :=
  match w with
  | None => []
  | Some w => Tk TyWith "WITH" :: (if w_rec w then [Tk TyRecursive "RECURSIVE"] else []) ++ sep_by [tComma] (ctes_toks sr 0 (w_ctes w))
  end.
Definition with_size (w : option mwith) : nat := match w with None => 0 | Some w => ctes_size (w_ctes w) end.

Definition returning_toks (sr : srho) (l : list mexpr) : list token :=
  list_clause [Tk TyReturning "RETURNING"] (exprs_toks sr cl_returning 0 l).
(* the values of all rows are numbered consecutively (row-major) *)
Fixpoint rows_toks (sr : srho) (i : nat) (rows : list (list mexpr)) : list (list token) :=
  match rows with
  | [] => []
  | row :: tl => (tLP :: sep_by [tComma] (exprs_toks sr cl_values i row) ++ [tRP]) :: rows_toks sr (i + List.length row) tl
  end.
(* column = expr, ... ; the expressions take their parenthesisation choices from clause [c] *)
Fixpoint assign_toks (sr : srho) (c : nat) (i : nat) (l : list (string * mexpr)) : list (list token) :=
  match l with [] => [] | (n, e) :: tl => (Tk TyIdent n :: Tk TyEq "=" :: render 0 (sr c i) e) :: assign_toks sr c (S i) tl end.
Definition sets_toks (sr : srho) (i : nat) (l : list (string * mexpr)) : list (list token) := assign_toks sr cl_set i l.
Definition where_toks_at (r : rho) (o : option mexpr) : list token := opt_clause [Tk TyWhere "WHERE"] (render 0 r) o.

Definition conflict_toks (sr : srho) (c : option mconflict) : list token :=
  match c with
  | None => []
  | Some c =>
      Tk TyOn "ON" :: Tk TyIdent "CONFLICT" ::
      match cf_target c with
      | CtNone => []
      | CtCols cols => tLP :: idents_toks cols ++ [tRP]
      | CtConstraint n => [Tk TyOn "ON"; Tk TyConstraint "CONSTRAINT"; Tk TyIdent n]
      end
      ++ Tk TyIdent "DO" ::
      match cf_action c with
      | CaNothing => [Tk TyIdent "NOTHING"]
      | CaUpdate sets wh =>
          Tk TyUpdate "UPDATE" :: Tk TySet "SET" :: sep_by [tComma] (assign_toks sr cl_cset 0 sets)
          ++ where_toks_at (sr cl_cwhere 0) wh
      end
  end.
(* MERGE *)
Definition kind_toks (k : mkind) : list token :=
  match k with
  | KMatched => [Tk TyMatched "MATCHED"]
  | KNotMatched => [Tk TyNot "NOT"; Tk TyMatched "MATCHED"]
  | KNotMatchedBySource => [Tk TyNot "NOT"; Tk TyMatched "MATCHED"; Tk TyBy "BY"; Tk TySource "SOURCE"]
  end.
Definition mcol_toks (c : mcol) : list token :=
  match c with (None, n) => [Tk TyIdent n] | (Some t, n) => [Tk TyIdent t; tPeriod; Tk TyIdent n] end.
Fixpoint msets_toks (sr : srho) (i : nat) (l : list (mcol * mexpr)) : list (list token) :=
  match l with [] => [] | (c, e) :: tl => (mcol_toks c ++ Tk TyEq "=" :: render 0 (sr cl_mset i) e) :: msets_toks sr (S i) tl end.
(* [is] / [iv]: number of SET values / INSERT values written by the WHEN clauses before this one *)
Definition action_toks (sr : srho) (is_ iv : nat) (a : maction) : list token :=
  match a with
  | MaUpdate sets => Tk TyUpdate "UPDATE" :: Tk TySet "SET" :: sep_by [tComma] (msets_toks sr is_ sets)
  | MaDelete => [Tk TyDelete "DELETE"]
  | MaInsert cols vals =>
      Tk TyInsert "INSERT" :: cols_toks cols
      ++ match vals with
         | None => [Tk TyDefault "DEFAULT"; Tk TyValues "VALUES"]
         | Some vs => Tk TyValues "VALUES" :: tLP :: sep_by [tComma] (exprs_toks sr cl_mvals iv vs) ++ [tRP]
         end
  end.
Definition action_sets (a : maction) : nat := match a with MaUpdate sets => List.length sets | _ => 0 end.
Definition action_vals (a : maction) : nat := match a with MaInsert _ (Some vs) => List.length vs | _ => 0 end.
Definition when_toks (sr : srho) (k is_ iv : nat) (w : mwhen) : list token :=
  Tk TyWhen "WHEN" :: kind_toks (wn_kind w)
  ++ opt_clause [Tk TyAnd "AND"] (render 0 (sr cl_mcond k)) (wn_cond w)
  ++ Tk TyThen "THEN" :: action_toks sr is_ iv (wn_action w).
Fixpoint whens_toks (sr : srho) (k is_ iv : nat) (l : list mwhen) : list token :=
  match l with
  | [] => []
  | w :: tl => when_toks sr k is_ iv w ++ whens_toks sr (S k) (is_ + action_sets (wn_action w)) (iv + action_vals (wn_action w)) tl
  end.
Definition merge_toks (sr : srho) (m : mmerge) : list token :=
  Tk TyMerge "MERGE" :: (if mg_into m then [Tk TyInto "INTO"] else [])
  ++ path_toks (mg_target m) ++ alias_toks (mg_talias m)
  ++ Tk TyUsing "USING" :: path_toks (mg_source m) ++ alias_toks (mg_salias m)
  ++ Tk TyOn "ON" :: render 0 (sr cl_mon 0) (mg_on m) ++ whens_toks sr 0 0 0 (mg_whens m).

Definition render_body (sr : srho) (base : nat) (b : mbody) : list token :=
  match b with
  | BQuery q => render_query sr base q
  | BInsert t cols src cf ret =>
      Tk TyInsert "INSERT" :: Tk TyInto "INTO" :: path_toks t ++ cols_toks cols
      ++ match src with
         | inl rows => Tk TyValues "VALUES" :: sep_by [tComma] (rows_toks (shift sr base) 0 rows)
         | inr q => render_query sr base q
         end
      ++ conflict_toks (shift sr (base + match src with inl _ => 0 | inr q => qsize q end)) cf
      ++ returning_toks (shift sr (base + match src with inl _ => 0 | inr q => qsize q end)) ret
  | BUpdate t sets wh ret =>
      Tk TyUpdate "UPDATE" :: path_toks t ++ Tk TySet "SET" :: sep_by [tComma] (sets_toks (shift sr base) 0 sets)
      ++ where_toks (shift sr base) wh ++ returning_toks (shift sr base) ret
  | BDelete t wh ret =>
      Tk TyDelete "DELETE" :: Tk TyFrom "FROM" :: path_toks t ++ where_toks (shift sr base) wh ++ returning_toks (shift sr base) ret
  | BMerge m => merge_toks (shift sr base) m
  end.
Definition render_stmt (sr : srho) (s : mstmt) : list token :=
  with_toks sr (st_with s) ++ render_body sr (with_size (st_with s)) (st_body s).

(* ------------------------------------------------------------------------------------------------ *)
(* prescribed trees *)
Fixpoint join_dot (l : list string) : string :=
  match l with [] => "" | [x] => x | x :: r => x ++ "." ++ join_dot r end.
Definition alias_name (a : malias) : string := match a with None => "" | Some (_, n) => n end.
Definition ast_of_table (t : mtable) : gtable := GTable (join_dot (tb_path t)) (alias_name (tb_alias t)) None false.

Definition side_str (s : jside) : string :=
  match s with SNone | SInner => "INNER" | SLeft _ => "LEFT" | SRight _ => "RIGHT" | SFull _ => "FULL" | SCross => "CROSS" end.
Definition join_type (j : mjoin) : string := if j_nat j then "NATURAL " ++ side_str (j_side j) else side_str (j_side j).
Definition ast_of_cond (c : option jcond) : option gexpr :=
  match c with
  | None => None
  | Some (JOn e) => Some (ast_of e)
  | Some (JUsing [c]) => Some (GIdent c "")
  | Some (JUsing cols) => Some (GList (map (fun c => GIdent c "") cols))
  end.
Definition nat_str (n : nat) : string := NilZero.string_of_uint (Nat.to_uint n).
(* the left side of the k-th join: the FROM item the join is attached to, then the synthetic reference the
   parser uses for "the result of the previous joins" *)
Definition join_left (base : gtable) (k : nat) : gtable :=
  match k with
  | 0 => base
  | _ => GTable ("(" ++ (match base with GTable n _ _ _ => n end) ++ "_with_" ++ nat_str k ++ "_joins)") "" None false
  end.
Fixpoint ast_of_joins (base : gtable) (k : nat) (l : list mjoin) : list gjoin :=
  match l with
  | [] => []
  | j :: tl => GJoin (join_type j) (join_left base k) (ast_of_table (j_table j)) (ast_of_cond (j_cond j)) :: ast_of_joins base (S k) tl
  end.
Definition ast_of_item (it : mitem) : gexpr :=
  match it with
  | IStar => GIdent "*" ""
  | IQStar t => GIdent "*" t
  | IExpr e None => ast_of e
  | IExpr e (Some (_, n)) => GAliased (ast_of e) n
  end.
Definition ast_of_order (o : morder) : gorder :=
  GOrder (ast_of (o_expr o)) (match o_dir o with Some false => false | _ => true end) (o_nulls o).
Definition ast_of_fetch (f : mfetch) : gfetch :=
  GFetch (if ft_next f then "NEXT" else "FIRST") (Some (dec_value (ft_count f))) (ft_percent f) (ft_ties f).
Definition ast_of_gset (g : mgset) : list gexpr := match g with GsList es => map ast_of es | GsBare e => [ast_of e] end.
Definition ast_of_group (g : mgroup) : gexpr :=
  match g with
  | GrExpr e => ast_of e | GrRollup es => GRollup (map ast_of es) | GrCube es => GCube (map ast_of es)
  | GrSets sets => GGroupingSets (map ast_of_gset sets)
  end.
Definition lock_str (l : mlock) : string :=
  match l with LkUpdate => "UPDATE" | LkNoKeyUpdate => "NO KEY UPDATE" | LkShare => "SHARE" | LkKeyShare => "KEY SHARE" end.
Definition ast_of_for (f : mfor) : gfor :=
  GFor (lock_str (fr_lock f)) (fr_of f) (match fr_wait f with WtNowait => true | _ => false end)
       (match fr_wait f with WtSkipLocked => true | _ => false end).
Definition ast_of_select_w (w : option gwith) (s : mselect) : gselect :=
  let from := map ast_of_table (s_from s) in
  GSelect w (s_distinct s) (map ast_of (s_distinct_on s)) (map ast_of_item (s_items s)) from
          (match from with [] => "" | GTable n _ _ _ :: _ => n end)
          (ast_of_joins (last from (GTable "" "" None false)) 0 (s_joins s))
          (option_map ast_of (s_where s)) (map ast_of_group (s_group s)) (option_map ast_of (s_having s))
          (map ast_of_order (s_order s)) (option_map dec_value (s_limit s)) (option_map dec_value (s_offset s))
          (option_map ast_of_fetch (s_fetch s)) (option_map ast_of_for (s_for s)).
Definition ast_of_select := ast_of_select_w None.
Definition setop_str (op : setop) : string := lit (setop_tok op).
(* a WITH clause in front of a query belongs to its left-most SELECT *)
Fixpoint ast_of_query_w (w : option gwith) (q : mquery) : gstmt :=
  match q with
  | QSelect s => GSelectS (ast_of_select_w w s)
  | QSetOp l op all r => GSetOp (ast_of_query_w w l) (setop_str op) (GSelectS (ast_of_select r)) all
  end.
Definition ast_of_query := ast_of_query_w None.
Definition ast_of_cte (c : mcte) : gcte := GCte (c_name c) (c_cols c) (ast_of_query (c_body c)) (c_mat c).
Definition ast_of_with (w : option mwith) : option gwith :=
  option_map (fun w => GWith (w_rec w) (map ast_of_cte (w_ctes w))) w.
Definition ast_of_sets (l : list (string * mexpr)) : list (gexpr * gexpr) :=
  map (fun ce : string * mexpr => (GIdent (fst ce) "", ast_of (snd ce))) l.
Definition ast_of_conflict (c : mconflict) : gconflict :=
  GConflict (match cf_target c with CtCols cols => map (fun c => GIdent c "") cols | _ => [] end)
            (match cf_target c with CtConstraint n => n | _ => "" end)
            (match cf_action c with CaNothing => true | _ => false end)
            (match cf_action c with CaUpdate sets _ => ast_of_sets sets | _ => [] end)
            (match cf_action c with CaUpdate _ wh => option_map ast_of wh | _ => None end).
Definition kind_str (k : mkind) : string :=
  match k with KMatched => "MATCHED" | KNotMatched => "NOT_MATCHED" | KNotMatchedBySource => "NOT_MATCHED_BY_SOURCE" end.
Definition mcol_str (c : mcol) : string := match c with (None, n) => n | (Some t, n) => t ++ "." ++ n end.
Definition ast_of_action (a : maction) : gaction :=
  match a with
  | MaUpdate sets => GAction "UPDATE" (map (fun ce : mcol * mexpr => (mcol_str (fst ce), ast_of (snd ce))) sets) [] [] false
  | MaDelete => GAction "DELETE" [] [] [] false
  | MaInsert cols None => GAction "INSERT" [] cols [] true
  | MaInsert cols (Some vs) => GAction "INSERT" [] cols (map ast_of vs) false
  end.
Definition ast_of_when (w : mwhen) : gwhen := GWhen (kind_str (wn_kind w)) (option_map ast_of (wn_cond w)) (ast_of_action (wn_action w)).
Definition ast_of_merge (m : mmerge) : gstmt :=
  GMerge (join_dot (mg_target m)) (alias_name (mg_talias m)) (join_dot (mg_source m)) (alias_name (mg_salias m))
         (ast_of (mg_on m)) (map ast_of_when (mg_whens m)).
Definition ast_of_stmt_w (w : option gwith) (b : mbody) : gstmt :=
  match b with
  | BQuery q => ast_of_query_w w q
  | BInsert t cols src cf ret =>
      GInsert w (join_dot t) (map (fun c => GIdent c "") cols)
              (match src with inl rows => map (map ast_of) rows | inr _ => [] end)
              (match src with inl _ => None | inr q => Some (ast_of_query q) end)
              (map ast_of ret) (option_map ast_of_conflict cf) []
  | BUpdate t sets wh ret => GUpdate w (join_dot t) "" (ast_of_sets sets) [] (option_map ast_of wh) (map ast_of ret)
  | BDelete t wh ret => GDelete w (join_dot t) "" [] (option_map ast_of wh) (map ast_of ret)
  | BMerge m => ast_of_merge m            (* a MERGE statement takes no WITH clause (stmt_ok) *)
  end.
Definition ast_of_stmt (s : mstmt) : gstmt := ast_of_stmt_w (ast_of_with (st_with s)) (st_body s).

(* ------------------------------------------------------------------------------------------------ *)
(* the reference surface: side conditions *)
Definition name_ok (s : string) : bool := plain_name s.
Definition alias_ok (a : malias) : bool := match a with None => true | Some (_, n) => name_ok n end.
Definition table_ok (t : mtable) : bool :=
  negb (Nat.eqb (List.length (tb_path t)) 0) && forallb name_ok (tb_path t) && alias_ok (tb_alias t).
Definition is_column_ref (e : mexpr) : bool := match e with MIdent _ _ | MQIdent _ _ => true | _ => false end.
Definition item_ok (it : mitem) : bool :=
  match it with IStar => true | IQStar t => name_ok t | IExpr e a => ref_expr e && alias_ok a end.
(* an alias without AS directly after a bare column reference is the listed known finding
   `implicit-alias-bare-column` (pinned by the project's tests): the tree as it is handles the statements without
   that shape *)
Definition bare_alias_free (it : mitem) : bool :=
  match it with IExpr e (Some (false, _)) => negb (is_column_ref e) | _ => true end.
Definition select_bare_alias_free (s : mselect) : bool := forallb bare_alias_free (s_items s).
Definition join_ok (j : mjoin) : bool :=
  table_ok (j_table j)
  && negb (j_nat j && match j_side j with SCross => true | _ => false end)
  && match j_cond j with
     | None => j_nat j || match j_side j with SCross => true | _ => false end
     | Some c => negb (j_nat j) && negb (match j_side j with SCross => true | _ => false end)
                 && match c with JOn e => ref_expr e | JUsing cols => negb (Nat.eqb (List.length cols) 0) && forallb name_ok cols end
     end.
Definition order_ok (o : morder) : bool := ref_expr (o_expr o).
Definition optb {A} (f : A -> bool) (o : option A) : bool := match o with None => true | Some x => f x end.
(* a grouping set written without parentheses is a column reference (SQL: <grouping column reference>); any expression
   may stand in a parenthesised set *)
Definition gset_ok (g : mgset) : bool :=
  match g with GsList es => forallb ref_expr es | GsBare e => is_column_ref e && ref_expr e end.
Definition group_ok (g : mgroup) : bool :=
  match g with
  | GrExpr e => ref_expr e
  | GrRollup es | GrCube es => negb (Nat.eqb (List.length es) 0) && forallb ref_expr es
  | GrSets sets => negb (Nat.eqb (List.length sets) 0) && forallb gset_ok sets
  end.
Definition select_ok (s : mselect) : bool :=
  (s_distinct s || match s_distinct_on s with [] => true | _ => false end) && forallb ref_expr (s_distinct_on s)
  && negb (Nat.eqb (List.length (s_items s)) 0) && forallb item_ok (s_items s)
  && forallb table_ok (s_from s)
  && (match s_from s with [] => match s_joins s with [] => true | _ => false end | _ => true end)
  && forallb join_ok (s_joins s)
  && optb ref_expr (s_where s) && forallb group_ok (s_group s) && optb ref_expr (s_having s)
  && forallb order_ok (s_order s) && optb number_ok (s_limit s) && optb number_ok (s_offset s)
  && optb (fun f => number_ok (ft_count f)) (s_fetch s).
(* ORDER BY / LIMIT / OFFSET / FETCH on an operand of a set operation needs parentheses the grammar of the parser does not
   have, and written after the last operand they belong to the whole query expression, for which the tree has no
   slot (listed known finding `setop-trailing-order-by`): operands carry none of them *)
Definition plain_operand (s : mselect) : bool :=
  match s_order s, s_limit s, s_offset s, s_fetch s, s_for s with [], None, None, None, None => true | _, _, _, _, _ => false end.
Fixpoint operands_plain (q : mquery) : bool :=
  match q with QSelect s => plain_operand s | QSetOp l _ _ r => operands_plain l && plain_operand r end.
Fixpoint query_ok (q : mquery) : bool :=
  match q with
  | QSelect s => select_ok s
  | QSetOp l _ _ r => query_ok l && operands_plain l && select_ok r && plain_operand r
  end.

(* the locking clause is read by the text of its words: the token after a SELECT is not spelled OF / NOWAIT / SKIP *)
Definition for_word (s : string) : bool := eqfold s "OF" || eqfold s "NOWAIT" || eqfold s "SKIP".
(* what may follow a SELECT: end of input, `;`, `)`, a set operator, RETURNING / ON CONFLICT (of an enclosing INSERT) *)
Definition sel_stop (t : token) : bool :=
  (isT t TyEOF || isT t TySemicolon || isT t TyRParen || isT t TyUnion || isT t TyExcept || isT t TyIntersect || isT t TyReturning
   || isT t TyOn)
  && stops 0 t && negb (for_word (lit t)).
Definition sel_follow (stop : list token) : Prop := exists t rest, stop = t :: rest /\ sel_stop t = true.
(* what may follow a whole query expression: not a set operator *)
Definition query_stop (t : token) : bool :=
  (isT t TyEOF || isT t TySemicolon || isT t TyRParen || isT t TyReturning || isT t TyOn) && stops 0 t && negb (for_word (lit t)).
Definition query_follow (stop : list token) : Prop := exists t rest, stop = t :: rest /\ query_stop t = true.
(* what may follow a whole statement: end of input, `;`, `)` (the parser also looks at the literal for RETURNING) *)
Definition stmt_stop (t : token) : bool :=
  (isT t TyEOF || isT t TySemicolon || isT t TyRParen) && stops 0 t && negb (String.eqb (lit t) "RETURNING") && negb (for_word (lit t)).
Definition stmt_follow (stop : list token) : Prop := exists t rest, stop = t :: rest /\ stmt_stop t = true.

(* nesting used by the expressions of a SELECT: the largest [pdepth] of its expressions under the choices [sr]
   (the parser's depth counter rises by one for the SELECT itself and by one on entering each expression) *)
Fixpoint exprs_depth (sr : srho) (c : nat) (i : nat) (l : list mexpr) : nat :=
  match l with [] => 0 | e :: tl => Nat.max (pdepth 0 (sr c i) e) (exprs_depth sr c (S i) tl) end.
Fixpoint items_depth (sr : srho) (i : nat) (l : list mitem) : nat :=
  match l with
  | [] => 0
  | it :: tl => Nat.max (match it with IExpr e _ => pdepth 0 (sr cl_items i) e | _ => 0 end) (items_depth sr (S i) tl)
  end.
Fixpoint joins_depth (sr : srho) (i : nat) (l : list mjoin) : nat :=
  match l with
  | [] => 0
  | j :: tl => Nat.max (match j_cond j with Some (JOn e) => pdepth 0 (sr cl_on i) e | _ => 0 end) (joins_depth sr (S i) tl)
  end.
Fixpoint orders_depth (sr : srho) (i : nat) (l : list morder) : nat :=
  match l with [] => 0 | o :: tl => Nat.max (pdepth 0 (sr cl_order i) (o_expr o)) (orders_depth sr (S i) tl) end.
Definition opt_depth (r : rho) (o : option mexpr) : nat := match o with None => 0 | Some e => pdepth 0 r e end.
Fixpoint gsets_depth (sr : srho) (i : nat) (l : list mgset) : nat :=
  match l with
  | [] => 0
  | g :: tl => Nat.max (match g with GsList es => exprs_depth sr cl_group i es | GsBare e => pdepth 0 (sr cl_group i) e end)
                       (gsets_depth sr (i + gset_size g) tl)
  end.
Fixpoint groups_depth (sr : srho) (i : nat) (l : list mgroup) : nat :=
  match l with
  | [] => 0
  | g :: tl => Nat.max (match g with GrExpr e => pdepth 0 (sr cl_group i) e | GrRollup es | GrCube es => exprs_depth sr cl_group i es
                                | GrSets sets => gsets_depth sr i sets end)
                       (groups_depth sr (i + group_size g) tl)
  end.
Definition select_depth (sr : srho) (s : mselect) : nat :=
  Nat.max (exprs_depth sr cl_don 0 (s_distinct_on s))
   (Nat.max (items_depth sr 0 (s_items s))
    (Nat.max (joins_depth sr 0 (s_joins s))
       (Nat.max (opt_depth (sr cl_where 0) (s_where s))
          (Nat.max (groups_depth sr 0 (s_group s))
             (Nat.max (opt_depth (sr cl_having 0) (s_having s)) (orders_depth sr 0 (s_order s))))))).
Fixpoint query_depth (sr : srho) (base : nat) (q : mquery) : nat :=
  match q with
  | QSelect s => select_depth (shift sr base) s
  | QSetOp l _ _ r => Nat.max (query_depth sr base l) (select_depth (shift sr (base + qsize l)) r)
  end.

(* statements *)
Definition cte_ok (c : mcte) : bool := query_ok (c_body c).
Definition with_ok (w : option mwith) : bool :=
  match w with None => true | Some w => negb (Nat.eqb (List.length (w_ctes w)) 0) && forallb cte_ok (w_ctes w) end.
Definition path_ok (p : list string) : bool := negb (Nat.eqb (List.length p) 0).
Definition row_ok (row : list mexpr) : bool := negb (Nat.eqb (List.length row) 0) && forallb ref_expr row.
Definition conflict_ok (c : mconflict) : bool :=
  match cf_target c with CtCols cols => negb (Nat.eqb (List.length cols) 0) | _ => true end
  && match cf_action c with
     | CaNothing => true
     | CaUpdate sets wh => negb (Nat.eqb (List.length sets) 0) && forallb (fun ce => ref_expr (snd ce)) sets && optb ref_expr wh
     end.
(* MERGE: an alias written without AS is not spelled like the keyword that follows it (the parser compares the text); the
   documented kind x action pairs: MATCHED -> UPDATE | DELETE, NOT MATCHED -> INSERT, NOT MATCHED BY SOURCE -> UPDATE | DELETE *)
Definition malias_ok (kwd : string) (a : malias) : bool :=
  match a with Some (false, n) => negb (String.eqb n kwd) | _ => true end.
Definition action_ok (k : mkind) (a : maction) : bool :=
  match a with
  | MaUpdate sets => negb (Nat.eqb (List.length sets) 0) && forallb (fun ce : mcol * mexpr => ref_expr (snd ce)) sets
                     && match k with KNotMatched => false | _ => true end
  | MaDelete => match k with KNotMatched => false | _ => true end
  | MaInsert _ vals => match vals with None => true | Some vs => negb (Nat.eqb (List.length vs) 0) && forallb ref_expr vs end
                       && match k with KNotMatched => true | _ => false end
  end.
Definition when_ok (w : mwhen) : bool := optb ref_expr (wn_cond w) && action_ok (wn_kind w) (wn_action w).
Definition merge_ok (m : mmerge) : bool :=
  path_ok (mg_target m) && path_ok (mg_source m) && malias_ok "USING" (mg_talias m) && malias_ok "ON" (mg_salias m)
  && ref_expr (mg_on m) && negb (Nat.eqb (List.length (mg_whens m)) 0) && forallb when_ok (mg_whens m).
Definition body_ok (b : mbody) : bool :=
  match b with
  | BQuery q => query_ok q
  | BInsert t cols src cf ret =>
      path_ok t && forallb ref_expr ret && optb conflict_ok cf
      && match src with
         | inl rows => negb (Nat.eqb (List.length rows) 0) && forallb row_ok rows
         | inr q => query_ok q
         end
  | BUpdate t sets wh ret =>
      path_ok t && negb (Nat.eqb (List.length sets) 0) && forallb (fun ce => ref_expr (snd ce)) sets
      && optb ref_expr wh && forallb ref_expr ret
  | BDelete t wh ret => path_ok t && optb ref_expr wh && forallb ref_expr ret
  | BMerge m => merge_ok m
  end.
(* the parser has no WITH in front of MERGE *)
Definition stmt_ok (s : mstmt) : bool :=
  with_ok (st_with s) && body_ok (st_body s)
  && match st_body s, st_with s with BMerge _, Some _ => false | _, _ => true end.

(* no alias without AS after a bare column reference anywhere in the statement *)
Fixpoint query_bare_alias_free (q : mquery) : bool :=
  match q with QSelect s => select_bare_alias_free s | QSetOp l _ _ r => query_bare_alias_free l && select_bare_alias_free r end.
Definition stmt_bare_alias_free (s : mstmt) : bool :=
  match st_with s with None => true | Some w => forallb (fun c => query_bare_alias_free (c_body c)) (w_ctes w) end
  && match st_body s with
     | BQuery q => query_bare_alias_free q
     | BInsert _ _ (inr q) _ _ => query_bare_alias_free q
     | _ => true
     end.

(* how far the depth counter rises above its value at the statement: +1 per CTE, +1 per SELECT, +1 on entering an
   expression, then the nesting inside the expression *)
Fixpoint ctes_depth (sr : srho) (base : nat) (l : list mcte) : nat :=
  match l with
  | [] => 0
  | c :: tl => Nat.max (3 + query_depth sr base (c_body c)) (ctes_depth sr (base + qsize (c_body c)) tl)
  end.
Fixpoint rows_depth (sr : srho) (i : nat) (rows : list (list mexpr)) : nat :=
  match rows with [] => 0 | row :: tl => Nat.max (exprs_depth sr cl_values i row) (rows_depth sr (i + List.length row) tl) end.
Fixpoint assign_depth (sr : srho) (c : nat) (i : nat) (l : list (string * mexpr)) : nat :=
  match l with [] => 0 | (_, e) :: tl => Nat.max (pdepth 0 (sr c i) e) (assign_depth sr c (S i) tl) end.
Definition sets_depth (sr : srho) (i : nat) (l : list (string * mexpr)) : nat := assign_depth sr cl_set i l.
Definition conflict_depth (sr : srho) (c : option mconflict) : nat :=
  match c with
  | Some (MkConflict _ (CaUpdate sets wh)) => Nat.max (assign_depth sr cl_cset 0 sets) (opt_depth (sr cl_cwhere 0) wh)
  | _ => 0
  end.
Fixpoint msets_depth (sr : srho) (i : nat) (l : list (mcol * mexpr)) : nat :=
  match l with [] => 0 | (_, e) :: tl => Nat.max (pdepth 0 (sr cl_mset i) e) (msets_depth sr (S i) tl) end.
Definition action_depth (sr : srho) (is_ iv : nat) (a : maction) : nat :=
  match a with
  | MaUpdate sets => msets_depth sr is_ sets
  | MaInsert _ (Some vs) => exprs_depth sr cl_mvals iv vs
  | _ => 0
  end.
Fixpoint whens_depth (sr : srho) (k is_ iv : nat) (l : list mwhen) : nat :=
  match l with
  | [] => 0
  | w :: tl => Nat.max (Nat.max (opt_depth (sr cl_mcond k) (wn_cond w)) (action_depth sr is_ iv (wn_action w)))
                       (whens_depth sr (S k) (is_ + action_sets (wn_action w)) (iv + action_vals (wn_action w)) tl)
  end.
Definition merge_depth (sr : srho) (m : mmerge) : nat :=
  Nat.max (pdepth 0 (sr cl_mon 0) (mg_on m)) (whens_depth sr 0 0 0 (mg_whens m)).
Definition body_depth (sr : srho) (base : nat) (b : mbody) : nat :=
  match b with
  | BQuery q => 2 + query_depth sr base q
  | BInsert _ _ src cf ret =>
      let k := base + match src with inl _ => 0 | inr q => qsize q end in
      Nat.max (match src with inl rows => 1 + rows_depth (shift sr base) 0 rows | inr q => 2 + query_depth sr base q end)
        (Nat.max (1 + conflict_depth (shift sr k) cf) (1 + exprs_depth (shift sr k) cl_returning 0 ret))
  | BUpdate _ sets wh ret =>
      1 + Nat.max (sets_depth (shift sr base) 0 sets)
            (Nat.max (opt_depth (shift sr base cl_where 0) wh) (exprs_depth (shift sr base) cl_returning 0 ret))
  | BDelete _ wh ret => 1 + Nat.max (opt_depth (shift sr base cl_where 0) wh) (exprs_depth (shift sr base) cl_returning 0 ret)
  | BMerge m => 1 + merge_depth (shift sr base) m
  end.
Definition stmt_depth (sr : srho) (s : mstmt) : nat :=
  Nat.max (match st_with s with None => 0 | Some w => ctes_depth sr 0 (w_ctes w) end)
          (body_depth sr (with_size (st_with s)) (st_body s)).

(* non-vacuity *)
Definition ex_select : mselect :=
  MkSelect true []
    [IExpr (MQIdent "u" "id") None; IExpr (MFunc "COUNT" false [MIdent false "x"]) (Some (false, "n")); IStar; IQStar "o"]
    [MkTable ["public"; "users"] (Some (true, "u")); MkTable ["t"] None]
    [MkJoin false (SLeft true) (MkTable ["orders"] (Some (false, "o")))
       (Some (JOn (MBin (BCmp CEq) (MQIdent "o" "uid") (MQIdent "u" "id"))));
     MkJoin false SNone (MkTable ["items"] None) (Some (JUsing ["oid"; "k"]))]
    (Some (MBin BOr (MIdent false "a") (MBin BAnd (MIdent false "b") (MNot (MIdent false "c")))))
    [GrExpr (MQIdent "u" "id")] (Some (MBin (BCmp CGt) (MFunc "COUNT" false [MIdent false "x"]) (MNum "1")))
    [MkOrder (MIdent false "n") (Some false) (Some false); MkOrder (MNum "1") None None]
    (Some "10") (Some "5") (Some (MkFetch true "3" false (Some true) true)) None.
Example ex_select_ok : select_ok ex_select = true. Proof. reflexivity. Qed.
Example ex_select_text :
  map lit (render_select (fun _ _ => no_parens) ex_select)
  = ["SELECT"; "DISTINCT"; "u"; "."; "id"; ","; "COUNT"; "("; "x"; ")"; "n"; ","; "*"; ","; "o"; "."; "*"; "FROM"; "public"; "."; "users"; "AS"; "u";
     ","; "t"; "LEFT"; "OUTER"; "JOIN"; "orders"; "o"; "ON"; "o"; "."; "uid"; "="; "u"; "."; "id";
     "JOIN"; "items"; "USING"; "("; "oid"; ","; "k"; ")";
     "WHERE"; "a"; "OR"; "b"; "AND"; "NOT"; "c"; "GROUP"; "BY"; "u"; "."; "id"; "HAVING"; "COUNT"; "("; "x"; ")"; ">"; "1";
     "ORDER"; "BY"; "n"; "DESC"; "NULLS"; "LAST"; ","; "1"; "LIMIT"; "10"; "OFFSET"; "5"; "FETCH"; "NEXT"; "3"; "ROWS"; "WITH"; "TIES"].
Proof. reflexivity. Qed.

(* GROUPING SETS and the locking clause *)
Definition ex_select_lock : mselect :=
  MkSelect false [] [IExpr (MIdent false "x") None; IExpr (MFunc "SUM" false [MIdent false "v"]) None] [MkTable ["t"] None; MkTable ["u"] None] [] None
    [GrExpr (MIdent false "x");
     GrSets [GsList [MIdent false "x"; MBin BAdd (MIdent false "y") (MNum "1")]; GsBare (MQIdent "t" "y"); GsList []; GsList [MIdent false "z"]]]
    None [] (Some "5") None None (Some (MkFor LkNoKeyUpdate ["t"; "u"] WtSkipLocked)).
Example ex_select_lock_ok : select_ok ex_select_lock = true. Proof. reflexivity. Qed.
Example ex_select_lock_text :
  map lit (render_select (fun _ _ => no_parens) ex_select_lock)
  = ["SELECT"; "x"; ","; "SUM"; "("; "v"; ")"; "FROM"; "t"; ","; "u"; "GROUP"; "BY"; "x"; ","; "GROUPING SETS"; "(";
     "("; "x"; ","; "y"; "+"; "1"; ")"; ","; "t"; "."; "y"; ","; "("; ")"; ","; "("; "z"; ")"; ")";
     "LIMIT"; "5"; "FOR"; "NO"; "KEY"; "UPDATE"; "OF"; "t"; ","; "u"; "SKIP"; "LOCKED"].
Proof. reflexivity. Qed.

(* a WITH statement over a set operation, and an INSERT ... SELECT ... RETURNING *)
Definition ex_stmt_with : mstmt :=
  MkStmt (Some (MkWith true [MkCte "c" ["x"; "y"] (Some false)
                               (QSetOp (QSelect (MkSelect false [] [IExpr (MNum "1") None; IExpr (MNum "2") None] [] [] None [] None [] None None None None))
                                       OUnion true
                                       (MkSelect true [MIdent false "x"] [IExpr (MBin BAdd (MIdent false "x") (MNum "1")) None; IExpr (MIdent false "y") None]
                                                 [MkTable ["c"] None] [] (Some (MBin (BCmp CLt) (MIdent false "x") (MNum "10"))) [GrRollup [MIdent false "x"; MIdent false "y"]; GrExpr (MNum "1")] None [] None None None None))]))
         (BQuery (QSelect ex_select)).
Definition ex_stmt_insert : mstmt :=
  MkStmt None
    (BInsert ["s"; "t"] ["a"; "b"]
       (inr (QSelect (MkSelect false [] [IExpr (MIdent false "a") None; IExpr (MFunc "f" false [MIdent false "b"]) (Some (true, "fb"))]
                               [MkTable ["u"] None] [] None [] None [] None None None None)))
       (Some (MkConflict (CtCols ["a"]) (CaUpdate [("b", MBin BAdd (MQIdent "excluded" "b") (MNum "1"))] (Some (MBin (BCmp CGt) (MQIdent "t" "a") (MNum "0"))))))
       [MIdent false "a"; MBin BMul (MIdent false "b") (MNum "2")]).
(* MERGE with every documented kind x action pair *)
Definition ex_stmt_merge : mstmt :=
  MkStmt None
    (BMerge (MkMerge true ["s"; "t"] (Some (true, "x")) ["u"] (Some (false, "y"))
               (MBin (BCmp CEq) (MQIdent "x" "id") (MQIdent "y" "id"))
               [MkWhen KMatched (Some (MBin (BCmp CGt) (MQIdent "y" "v") (MNum "0")))
                       (MaUpdate [((None, "v"), MBin BAdd (MQIdent "x" "v") (MQIdent "y" "v")); ((Some "x", "n"), MNum "1")]);
                MkWhen KMatched None MaDelete;
                MkWhen KNotMatched None (MaInsert ["id"; "v"] (Some [MQIdent "y" "id"; MBin BMul (MQIdent "y" "v") (MNum "2")]));
                MkWhen KNotMatched (Some (MIsNull (MQIdent "y" "v") false)) (MaInsert [] None);
                MkWhen KNotMatchedBySource None (MaUpdate [((None, "v"), MNull)]);
                MkWhen KNotMatchedBySource (Some (MIdent false "old")) MaDelete])).
Example ex_stmts_ok : stmt_ok ex_stmt_with = true /\ stmt_ok ex_stmt_insert = true /\ stmt_ok ex_stmt_merge = true.
Proof. repeat split; reflexivity. Qed.
Example ex_stmt_merge_text :
  map lit (render_stmt (fun _ _ => no_parens) ex_stmt_merge)
  = ["MERGE"; "INTO"; "s"; "."; "t"; "AS"; "x"; "USING"; "u"; "y"; "ON"; "x"; "."; "id"; "="; "y"; "."; "id";
     "WHEN"; "MATCHED"; "AND"; "y"; "."; "v"; ">"; "0"; "THEN"; "UPDATE"; "SET"; "v"; "="; "x"; "."; "v"; "+"; "y"; "."; "v"; ","; "x"; "."; "n"; "="; "1";
     "WHEN"; "MATCHED"; "THEN"; "DELETE";
     "WHEN"; "NOT"; "MATCHED"; "THEN"; "INSERT"; "("; "id"; ","; "v"; ")"; "VALUES"; "("; "y"; "."; "id"; ","; "y"; "."; "v"; "*"; "2"; ")";
     "WHEN"; "NOT"; "MATCHED"; "AND"; "y"; "."; "v"; "IS"; "NULL"; "THEN"; "INSERT"; "DEFAULT"; "VALUES";
     "WHEN"; "NOT"; "MATCHED"; "BY"; "SOURCE"; "THEN"; "UPDATE"; "SET"; "v"; "="; "NULL";
     "WHEN"; "NOT"; "MATCHED"; "BY"; "SOURCE"; "AND"; "old"; "THEN"; "DELETE"].
Proof. reflexivity. Qed.
Example ex_stmt_insert_text :
  map lit (render_stmt (fun _ _ => no_parens) ex_stmt_insert)
  = ["INSERT"; "INTO"; "s"; "."; "t"; "("; "a"; ","; "b"; ")"; "SELECT"; "a"; ","; "f"; "("; "b"; ")"; "AS"; "fb"; "FROM"; "u";
     "ON"; "CONFLICT"; "("; "a"; ")"; "DO"; "UPDATE"; "SET"; "b"; "="; "excluded"; "."; "b"; "+"; "1"; "WHERE"; "t"; "."; "a"; ">"; "0";
     "RETURNING"; "a"; ","; "b"; "*"; "2"].
Proof. reflexivity. Qed.
