(* LspSpec.v — the protocol's rule for applying a text edit, stated on the document as a sequence of
   Unicode scalar values (code points), independently of the byte-level mirror in Model/LspDoc.v.

   LSP 3.17, "Text Documents" / "Position": a position is (line, character).  The line terminators are
   LF, CR LF and CR: a LINE is a maximal run of characters containing neither LF (U+000A) nor CR (U+000D);
   it is ended by LF, by CR immediately followed by LF (one terminator, two characters), or by a CR not
   followed by LF; the characters after the last terminator form the last line (possibly empty), so a text
   with k terminators has k+1 lines, numbered from 0.  Character offsets count UTF-16 code units within the
   line; "if the character value is greater than the line length it defaults back to the line length" —
   the line length excludes the terminator, so such a position denotes the point before the terminator.
   Property C18 adds: positions past the end of the document clamp to its end, and the server must survive
   negative values (they clamp to the start of the line / document).
   Where the protocol is silent the specification fixes one rule and says so:
     - a column inside a surrogate pair denotes the start of that character;
     - a range whose end lies before its start is the empty range at its start. *)
From Coq Require Import List NArith ZArith Bool.
Import ListNotations.
Local Open Scope N_scope.

(* UTF-16 code units of one scalar value *)
Definition cp_units (c : N) : Z := if c <? 65536 then 1%Z else 2%Z.

(* Unicode scalar values: U+0000..U+D7FF and U+E000..U+10FFFF *)
Definition valid_cp (c : N) : Prop := c < 55296 \/ (57344 <= c /\ c < 1114112).
Definition valid_text (d : list N) : Prop := Forall valid_cp d.

Definition cp_eol (c : N) : bool := (c =? 10) || (c =? 13).

(* number of code points of the current line that lie before column [char]; [units] = code units so far.
   Stops at the line terminator / end of the document (clamping) and before a character that would
   straddle the column. *)
Fixpoint spec_col (d : list N) (units char : Z) : nat :=
  match d with
  | [] => 0%nat
  | c :: t =>
      if cp_eol c then 0%nat
      else if (units + cp_units c >? char)%Z then 0%nat
      else S (spec_col t (units + cp_units c)%Z char)
  end.

(* index (in code points) of position (line, char): skip [line] line terminators, then walk the column;
   running out of text means the position is past the last line: end of the document.
   [after_cr]: the previous character was a CR that ended a line; an LF here belongs to that terminator. *)
Fixpoint spec_off (d : list N) (line : nat) (after_cr : bool) (char : Z) {struct d} : nat :=
  match d with
  | [] => 0%nat
  | c :: t =>
      if after_cr && (c =? 10) then S (spec_off t line false char)
      else match line with
           | O => spec_col d 0%Z char
           | S k => S (spec_off t (if cp_eol c then k else S k) (c =? 13) char)
           end
  end.

Definition spec_pos (d : list N) (line char : Z) : nat :=
  if (line <? 0)%Z then 0%nat else spec_off d (Z.to_nat line) false char.

(* replace the range (sl,sc)-(el,ec) of d by txt *)
Definition spec_apply (d : list N) (sl sc el ec : Z) (txt : list N) : list N :=
  let s := spec_pos d sl sc in
  let e := Nat.max s (spec_pos d el ec) in
  firstn s d ++ txt ++ skipn e d.

(* UTF-8 (RFC 3629) encoding of a scalar value *)
Definition enc_cp (c : N) : list N :=
  if c <? 128 then [c]
  else if c <? 2048 then [192 + c / 64; 128 + c mod 64]
  else if c <? 65536 then [224 + c / 4096; 128 + (c / 64) mod 64; 128 + c mod 64]
  else [240 + c / 262144; 128 + (c / 4096) mod 64; 128 + (c / 64) mod 64; 128 + c mod 64].

Definition enc (d : list N) : list N := flat_map enc_cp d.

(* an edit, and a history of edits on one document *)
Inductive sedit :=
| SFull (txt : list N)
| SIncr (sl sc el ec : Z) (txt : list N).

Definition spec_edit (d : list N) (e : sedit) : list N :=
  match e with
  | SFull t => t
  | SIncr sl sc el ec t => spec_apply d sl sc el ec t
  end.

Definition spec_edits (d : list N) (es : list sedit) : list N := fold_left spec_edit es d.
