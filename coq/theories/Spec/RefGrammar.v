(* RefGrammar.v — the reference grammar of C03 ("model grammar" of the property's quantifier).

   Tokens are an inductive type: a token type [tty] (the models.TokenType values the parser dispatches on,
   everything else is [TyOther n]) and the literal text.  Lexing (text -> tokens) is C04's theorem; the
   C03 tie checks on every run that the real tokenizer + converter turn the rendered text into exactly the
   token list used here.

   Reference expressions [mexpr] (what the user wrote, as a tree) with the standard precedence ladder

       OR < AND < NOT < comparison / IS [NOT] NULL / [NOT] IN (list) / [NOT] BETWEEN / [NOT] LIKE|ILIKE
          < ||  <  + -  <  * / %  <  ::  <  primary

   [render lv rho e] is the token list of [e] in a context that demands level >= lv, for EVERY
   parenthesisation choice [rho]: required parentheses always, [rho path] extra (redundant) pairs around the
   node at [path].  Unary minus is not in the surface (see design/C03.md). *)
From Coq Require Import List String Ascii Bool Arith NArith Lia.
Import ListNotations.
Local Open Scope string_scope.
Local Open Scope list_scope.
Local Open Scope nat_scope.

(* ------------------------------------------------------------------------------------------------ *)
(* tokens *)

Inductive tty :=
  | TyEOF | TyIdent | TyDQuoted | TyNumber | TyString | TySQuoted | TyDollarQuoted | TyPlaceholder
  | TyTrue | TyFalse | TyNull
  | TyLParen | TyRParen | TyComma | TyPeriod | TySemicolon | TyLBracket | TyRBracket | TyColon | TyDoubleColon
  | TyEq | TyNeq | TyLt | TyGt | TyLtEq | TyGtEq | TyTilde | TyTildeAsterisk | TyNotTilde | TyNotTildeAsterisk
  | TyPlus | TyMinus | TyAsterisk | TyMul | TyDiv | TyMod | TyStringConcat | TyJsonOp
  | TyOr | TyAnd | TyNot | TyBetween | TyLike | TyILike | TyIn | TyIs
  | TyCase | TyWhen | TyThen | TyElse | TyEnd | TyCast | TyAs | TyExists | TyAny | TyAll
  | TySelect | TyWith | TyDistinct | TyOrder | TyBy | TyInterval | TyArray | TyIf | TyReplace
  | TyFilter | TyOver | TyWithin | TyGroup | TyWhere | TyAsc | TyDesc | TyNulls | TyFirst | TyLast
  | TyTypeKw
  | TyFrom | TyHaving | TyLimit | TyOffset | TyUnion | TyExcept | TyIntersect | TyOn | TyUsing
  | TyJoin | TyInner | TyLeft | TyRight | TyFull | TyCross | TyNatural | TyOuter | TyKeyword
  | TyOther (n : N).

Definition tty_code (t : tty) : N :=
  match t with
  | TyEOF => 0 | TyIdent => 1 | TyDQuoted => 2 | TyNumber => 3 | TyString => 4 | TySQuoted => 5
  | TyDollarQuoted => 6 | TyPlaceholder => 7 | TyTrue => 8 | TyFalse => 9 | TyNull => 10
  | TyLParen => 11 | TyRParen => 12 | TyComma => 13 | TyPeriod => 14 | TySemicolon => 15
  | TyLBracket => 16 | TyRBracket => 17 | TyColon => 18 | TyDoubleColon => 19
  | TyEq => 20 | TyNeq => 21 | TyLt => 22 | TyGt => 23 | TyLtEq => 24 | TyGtEq => 25
  | TyTilde => 26 | TyTildeAsterisk => 27 | TyNotTilde => 28 | TyNotTildeAsterisk => 29
  | TyPlus => 30 | TyMinus => 31 | TyAsterisk => 32 | TyMul => 33 | TyDiv => 34 | TyMod => 35
  | TyStringConcat => 36 | TyJsonOp => 37
  | TyOr => 38 | TyAnd => 39 | TyNot => 40 | TyBetween => 41 | TyLike => 42 | TyIn => 43 | TyIs => 44
  | TyCase => 45 | TyWhen => 46 | TyThen => 47 | TyElse => 48 | TyEnd => 49 | TyCast => 50 | TyAs => 51
  | TyExists => 52 | TyAny => 53 | TyAll => 54
  | TySelect => 55 | TyWith => 56 | TyDistinct => 57 | TyOrder => 58 | TyBy => 59 | TyInterval => 60
  | TyArray => 61 | TyIf => 62 | TyReplace => 63
  | TyFilter => 64 | TyOver => 65 | TyWithin => 66 | TyGroup => 67 | TyWhere => 68 | TyAsc => 69
  | TyDesc => 70 | TyNulls => 71 | TyFirst => 72 | TyLast => 73
  | TyTypeKw => 74
  | TyFrom => 75 | TyHaving => 76 | TyLimit => 77 | TyOffset => 78 | TyUnion => 79 | TyExcept => 80
  | TyIntersect => 81 | TyOn => 82 | TyUsing => 83
  | TyJoin => 84 | TyInner => 85 | TyLeft => 86 | TyRight => 87 | TyFull => 88 | TyCross => 89
  | TyNatural => 90 | TyOuter => 91 | TyKeyword => 92 | TyILike => 93
  | TyOther n => (1000 + n)%N
  end.

Definition tty_eqb (a b : tty) : bool := N.eqb (tty_code a) (tty_code b).

Record token := Tk { ty : tty; lit : string }.

Definition isT (t : token) (k : tty) : bool := tty_eqb (ty t) k.

(* ASCII upper-casing (strings.ToUpper / strings.EqualFold restricted to ASCII; see design/C03.md) *)
Definition upper_ascii (c : ascii) : ascii :=
  let n := nat_of_ascii c in
  if (Nat.leb 97 n) && (Nat.leb n 122) then ascii_of_nat (n - 32) else c.
Fixpoint upper (s : string) : string :=
  match s with EmptyString => EmptyString | String c r => String (upper_ascii c) (upper r) end.
Definition eqfold (a b : string) : bool := String.eqb (upper a) (upper b).
Definition litfold (t : token) (kw : string) : bool := eqfold (lit t) kw.

(* ------------------------------------------------------------------------------------------------ *)
(* reference expressions *)

Inductive cmpop := CEq | CNeq | CBangEq | CLt | CGt | CLe | CGe.
Inductive binop := BOr | BAnd | BCmp (c : cmpop) | BConcat | BAdd | BSub | BMul | BDiv | BMod.

(* a data type name as written: name and optional numeric arguments, e.g. NUMERIC(10,2) *)
Record mtype := MkType { tname : string; targs : list string }.

Inductive mexpr :=
  | MIdent (quoted : bool) (name : string)            (* column  /  "Column" *)
  | MQIdent (table name : string)                     (* table.column *)
  | MNum (s : string)                                 (* numeric literal as written *)
  | MStr (s : string)                                 (* string literal (content) *)
  | MPlaceholder (s : string)                         (* $1  @name *)
  | MNull
  | MBool (b : bool)
  | MBin (op : binop) (l r : mexpr)
  | MNot (e : mexpr)
  | MIsNull (e : mexpr) (neg : bool)
  | MIn (e : mexpr) (neg : bool) (items : list mexpr)
  | MBetween (e : mexpr) (neg : bool) (lo hi : mexpr)
  | MLike (e : mexpr) (neg : bool) (ci : bool) (pat : mexpr)
  | MCastOp (e : mexpr) (t : mtype)                   (* e :: type *)
  | MFunc (name : string) (distinct : bool) (args : list mexpr)
  | MCase (scrut : option mexpr) (whens : list (mexpr * mexpr)) (els : option mexpr)
  | MCast (e : mexpr) (t : mtype)                     (* CAST(e AS type) *)
  | MTuple (es : list mexpr).                         (* (e1, e2, ...), at least two *)

(* precedence level of a node: the loosest context in which it needs no parentheses *)
Definition level_of (e : mexpr) : nat :=
  match e with
  | MBin BOr _ _ => 0
  | MBin BAnd _ _ => 1
  | MNot _ => 2
  | MBin (BCmp _) _ _ | MIsNull _ _ | MIn _ _ _ | MBetween _ _ _ _ | MLike _ _ _ _ => 3
  | MBin BConcat _ _ => 4
  | MBin BAdd _ _ | MBin BSub _ _ => 5
  | MBin BMul _ _ | MBin BDiv _ _ | MBin BMod _ _ => 6
  | MCastOp _ _ => 7
  | _ => 8
  end.

(* ------------------------------------------------------------------------------------------------ *)
(* rendering *)

Definition kw (t : tty) (s : string) : token := Tk t s.
Definition tLP := Tk TyLParen "(".
Definition tRP := Tk TyRParen ")".
Definition tComma := Tk TyComma ",".

Definition cmp_tok (c : cmpop) : token :=
  match c with
  | CEq => Tk TyEq "=" | CNeq => Tk TyNeq "<>" | CBangEq => Tk TyNeq "!="
  | CLt => Tk TyLt "<" | CGt => Tk TyGt ">" | CLe => Tk TyLtEq "<=" | CGe => Tk TyGtEq ">="
  end.

Definition bin_tok (op : binop) : token :=
  match op with
  | BOr => Tk TyOr "OR" | BAnd => Tk TyAnd "AND" | BCmp c => cmp_tok c
  | BConcat => Tk TyStringConcat "||" | BAdd => Tk TyPlus "+" | BSub => Tk TyMinus "-"
  | BMul => Tk TyAsterisk "*" | BDiv => Tk TyDiv "/" | BMod => Tk TyMod "%"
  end.

(* (left context level, right context level) of a binary operator: left-associative operators take
   their own level on the left and the next tighter one on the right; comparisons do not associate *)
Definition bin_ctx (op : binop) : nat * nat :=
  match op with
  | BOr => (0, 1) | BAnd => (1, 2) | BCmp _ => (4, 4)
  | BConcat => (4, 5) | BAdd | BSub => (5, 6) | BMul | BDiv | BMod => (6, 7)
  end.

Fixpoint sep_by {A} (sep : list A) (l : list (list A)) : list A :=
  match l with
  | [] => [] | [x] => x | x :: r => x ++ sep ++ sep_by sep r
  end.

Definition type_toks (t : mtype) : list token :=
  Tk TyIdent (tname t) ::
  match targs t with
  | [] => []
  | a => tLP :: sep_by [tComma] (map (fun s => [Tk TyNumber s]) a) ++ [tRP]
  end.

Fixpoint wrap (n : nat) (ts : list token) : list token :=
  match n with 0 => ts | S k => tLP :: wrap k ts ++ [tRP] end.

(* a parenthesisation choice: the number of redundant pairs around the node at a path (child indices) *)
Definition rho := list nat -> nat.
Definition sub (r : rho) (i : nat) : rho := fun p => r (i :: p).
Definition no_parens : rho := fun _ => 0.

Definition not_toks (neg : bool) : list token := if neg then [Tk TyNot "NOT"] else [].

Section RenderList.
  Variable render : nat -> rho -> mexpr -> list token.
  (* children of a list-valued field get consecutive indices starting at [i] *)
  Fixpoint render_list (lv : nat) (r : rho) (i : nat) (l : list mexpr) : list (list token) :=
    match l with [] => [] | e :: tl => render lv (sub r i) e :: render_list lv r (S i) tl end.
  Fixpoint render_whens (r : rho) (i : nat) (l : list (mexpr * mexpr)) : list token :=
    match l with
    | [] => []
    | (c, v) :: tl => Tk TyWhen "WHEN" :: render 0 (sub r i) c ++ Tk TyThen "THEN" :: render 0 (sub r (S i)) v
                      ++ render_whens r (S (S i)) tl
    end.
End RenderList.

(* number of parenthesis pairs around node [e] in a context of level [lv] *)
Definition parens (lv : nat) (r : rho) (e : mexpr) : nat :=
  r [] + (if level_of e <? lv then 1 else 0).

Fixpoint render (lv : nat) (r : rho) (e : mexpr) {struct e} : list token :=
  wrap (parens lv r e)
    match e with
    | MIdent q n => [Tk (if q then TyDQuoted else TyIdent) n]
    | MQIdent t n => [Tk TyIdent t; Tk TyPeriod "."; Tk TyIdent n]
    | MNum s => [Tk TyNumber s]
    | MStr s => [Tk TySQuoted s]
    | MPlaceholder s => [Tk TyPlaceholder s]
    | MNull => [Tk TyNull "NULL"]
    | MBool b => [if b then Tk TyTrue "TRUE" else Tk TyFalse "FALSE"]
    | MBin op a b => render (fst (bin_ctx op)) (sub r 0) a ++ bin_tok op :: render (snd (bin_ctx op)) (sub r 1) b
    | MNot a => Tk TyNot "NOT" :: render 2 (sub r 0) a
    | MIsNull a neg => render 4 (sub r 0) a ++ Tk TyIs "IS" :: not_toks neg ++ [Tk TyNull "NULL"]
    | MIn a neg items =>
        render 4 (sub r 0) a ++ not_toks neg ++ Tk TyIn "IN" :: tLP ::
        sep_by [tComma] (render_list render 0 r 1 items) ++ [tRP]
    | MBetween a neg lo hi =>
        render 4 (sub r 0) a ++ not_toks neg ++ Tk TyBetween "BETWEEN" :: render 4 (sub r 1) lo
        ++ Tk TyAnd "AND" :: render 4 (sub r 2) hi
    | MLike a neg ci p =>
        render 4 (sub r 0) a ++ not_toks neg
        ++ (if ci then Tk TyILike "ILIKE" else Tk TyLike "LIKE") :: render 4 (sub r 1) p
    | MCastOp a t => render 7 (sub r 0) a ++ Tk TyDoubleColon "::" :: type_toks t
    | MFunc n d args =>
        Tk TyIdent n :: tLP :: (if d then [Tk TyDistinct "DISTINCT"] else [])
        ++ sep_by [tComma] (render_list render 0 r 0 args) ++ [tRP]
    | MCase s whens els =>
        Tk TyCase "CASE" ::
        match s with Some a => render 0 (sub r 0) a | None => [] end
        ++ render_whens render r 2 whens
        ++ match els with Some a => Tk TyElse "ELSE" :: render 0 (sub r 1) a | None => [] end
        ++ [Tk TyEnd "END"]
    | MCast a t => Tk TyCast "CAST" :: tLP :: render 0 (sub r 0) a ++ Tk TyAs "AS" :: type_toks t ++ [tRP]
    | MTuple es => tLP :: sep_by [tComma] (render_list render 0 r 0 es) ++ [tRP]
    end.

(* ------------------------------------------------------------------------------------------------ *)
(* the reference surface: side conditions on names and list lengths *)

(* a word that the tokenizer would not hand out as a plain identifier, or that the parser treats
   specially by its text (checked case-insensitively) *)
Definition special_words : list string :=
  ["ILIKE"; "REGEXP"; "RLIKE"; "SEPARATOR"; "AGAINST"; "MATCH";
   (* the SQL-92 datetime value functions written without parentheses: not column names (since /repo "fix: ... datetime
      value functions") *)
   "CURRENT_DATE"; "CURRENT_TIME"; "CURRENT_TIMESTAMP"; "LOCALTIME"; "LOCALTIMESTAMP"].
Definition plain_name (s : string) : bool :=
  negb (String.eqb s "") && forallb (fun w => negb (eqfold s w)) special_words.

Definition type_ok (t : mtype) : bool := plain_name (tname t).

Section RefList.
  Variable ref_expr : mexpr -> bool.
  Fixpoint ref_whens (l : list (mexpr * mexpr)) : bool :=
    match l with [] => true | (c, v) :: tl => ref_expr c && ref_expr v && ref_whens tl end.
End RefList.

Fixpoint ref_expr (e : mexpr) : bool :=
  match e with
  | MIdent _ n => plain_name n
  | MQIdent t n => plain_name t && plain_name n
  | MNum _ | MStr _ | MPlaceholder _ | MNull | MBool _ => true
  | MBin _ a b => ref_expr a && ref_expr b
  | MNot a => ref_expr a
  | MIsNull a _ => ref_expr a
  | MIn a _ items => ref_expr a && negb (Nat.eqb (List.length items) 0) && forallb ref_expr items
  | MBetween a _ lo hi => ref_expr a && ref_expr lo && ref_expr hi
  | MLike a _ _ p => ref_expr a && ref_expr p
  | MCastOp a t => ref_expr a && type_ok t
  | MFunc n _ args => plain_name n && forallb ref_expr args
  | MCase s whens els =>
      match s with Some a => ref_expr a | None => true end
      && negb (Nat.eqb (List.length whens) 0) && ref_whens ref_expr whens
      && match els with Some a => ref_expr a | None => true end
  | MCast a t => ref_expr a && type_ok t
  | MTuple es => (2 <=? List.length es) && forallb ref_expr es
  end.

(* ------------------------------------------------------------------------------------------------ *)
(* nesting depth used by a rendering: how far the parser's depth counter rises above its entry value
   while it reads [render lv r e] (every parenthesis pair, every argument / list item / CASE part /
   CAST operand passes parseExpression once; every NOT passes parseNotOperand once) *)

Section DepthList.
  Variable pdepth : nat -> rho -> mexpr -> nat.
  Fixpoint pdepth_list (lv : nat) (r : rho) (i : nat) (l : list mexpr) : nat :=
    match l with [] => 0 | e :: tl => Nat.max (pdepth lv (sub r i) e) (pdepth_list lv r (S i) tl) end.
  Fixpoint pdepth_whens (r : rho) (i : nat) (l : list (mexpr * mexpr)) : nat :=
    match l with
    | [] => 0
    | (c, v) :: tl => Nat.max (Nat.max (pdepth 0 (sub r i) c) (pdepth 0 (sub r (S i)) v)) (pdepth_whens r (S (S i)) tl)
    end.
End DepthList.

Fixpoint pdepth (lv : nat) (r : rho) (e : mexpr) {struct e} : nat :=
  parens lv r e +
    match e with
    | MIdent _ _ | MQIdent _ _ | MNum _ | MStr _ | MPlaceholder _ | MNull | MBool _ => 0
    | MBin op a b => Nat.max (pdepth (fst (bin_ctx op)) (sub r 0) a) (pdepth (snd (bin_ctx op)) (sub r 1) b)
    | MNot a => S (pdepth 2 (sub r 0) a)
    | MIsNull a _ => pdepth 4 (sub r 0) a
    | MIn a _ items => Nat.max (pdepth 4 (sub r 0) a) (S (pdepth_list pdepth 0 r 1 items))
    | MBetween a _ lo hi => Nat.max (pdepth 4 (sub r 0) a) (Nat.max (pdepth 4 (sub r 1) lo) (pdepth 4 (sub r 2) hi))
    | MLike a _ _ p => Nat.max (pdepth 4 (sub r 0) a) (pdepth 4 (sub r 1) p)
    | MCastOp a _ => pdepth 7 (sub r 0) a
    | MFunc _ _ args => S (pdepth_list pdepth 0 r 0 args)
    | MCase s whens els =>
        S (Nat.max (match s with Some a => pdepth 0 (sub r 0) a | None => 0 end)
             (Nat.max (pdepth_whens pdepth r 2 whens)
                (match els with Some a => pdepth 0 (sub r 1) a | None => 0 end)))
    | MCast a _ => S (pdepth 0 (sub r 0) a)
    | MTuple es => S (pdepth_list pdepth 0 r 0 es)
    end.

(* ------------------------------------------------------------------------------------------------ *)
(* follow sets: [stops lv t] — token [t] does not continue an expression read at level >= lv.
   (Levels as in [level_of]; 8 = nothing may be glued to a primary.) *)

Definition is_cmp_tok (t : token) : bool :=
  isT t TyEq || isT t TyLt || isT t TyGt || isT t TyNeq || isT t TyLtEq || isT t TyGtEq
  || isT t TyTilde || isT t TyTildeAsterisk || isT t TyNotTilde || isT t TyNotTildeAsterisk.

(* glued to a primary: function-call parenthesis, qualifier dot, subscript bracket; MATCH..AGAINST; the
   clauses that may follow the closing parenthesis of a function call (WITHIN GROUP, FILTER, OVER) *)
Definition cont8 (t : token) : bool :=
  isT t TyLParen || isT t TyPeriod || isT t TyLBracket || litfold t "AGAINST"
  || isT t TyWithin || isT t TyFilter || isT t TyOver.
Definition cont7 (t : token) : bool := isT t TyDoubleColon || isT t TyJsonOp.
Definition cont6 (t : token) : bool := isT t TyAsterisk || isT t TyMul || isT t TyDiv || isT t TyMod.
Definition cont5 (t : token) : bool := isT t TyPlus || isT t TyMinus.
Definition cont4 (t : token) : bool := isT t TyStringConcat.
Definition cont3 (t : token) : bool :=
  isT t TyNot || isT t TyBetween || isT t TyLike || litfold t "ILIKE" || litfold t "REGEXP" || litfold t "RLIKE"
  || isT t TyIn || isT t TyIs || is_cmp_tok t.
Definition cont1 (t : token) : bool := isT t TyAnd.
Definition cont0 (t : token) : bool := isT t TyOr.

Definition stops (lv : nat) (t : token) : bool :=
  negb (cont8 t)
  && (if lv <=? 7 then negb (cont7 t) else true)
  && (if lv <=? 6 then negb (cont6 t) else true)
  && (if lv <=? 5 then negb (cont5 t) else true)
  && (if lv <=? 4 then negb (cont4 t) else true)
  && (if lv <=? 3 then negb (cont3 t) else true)
  && (if lv <=? 1 then negb (cont1 t) else true)
  && (if lv <=? 0 then negb (cont0 t) else true).

(* what may follow a whole expression: a non-empty token list whose head does not continue it *)
Definition follow_ok (stop : list token) : Prop :=
  exists t rest, stop = t :: rest /\ stops 0 t = true.

(* non-vacuity: a mixed-precedence expression and two of its renderings *)
Definition ex_mixed : mexpr :=
  MBin BOr (MBin (BCmp CEq) (MIdent false "a") (MBin BAdd (MIdent false "b") (MBin BMul (MNum "2") (MIdent false "c"))))
           (MBin BAnd (MNot (MIdent false "d")) (MIsNull (MQIdent "t" "e") true)).
Example ex_mixed_ref : ref_expr ex_mixed = true. Proof. reflexivity. Qed.
Example ex_mixed_render :
  map lit (render 0 no_parens ex_mixed)
  = ["a"; "="; "b"; "+"; "2"; "*"; "c"; "OR"; "NOT"; "d"; "AND"; "t"; "."; "e"; "IS"; "NOT"; "NULL"].
Proof. reflexivity. Qed.
(* required parentheses appear by themselves: (a OR b) AND c *)
Example ex_required_parens :
  map lit (render 0 no_parens (MBin BAnd (MBin BOr (MIdent false "a") (MIdent false "b")) (MIdent false "c")))
  = ["("; "a"; "OR"; "b"; ")"; "AND"; "c"].
Proof. reflexivity. Qed.
