(* LexSpec.v — reference lexical grammar (the part of it that is formalised so far).
   The full grammar (lexeme classes word / number / string / quoted identifier / back-ticked identifier /
   triple-quoted string / dollar-quoted string / parameter / operator, the separator language and the adjacency rule)
   is the one written out in lib/lexgen.py, from which the lexical generator and the implementation-side reference
   lexer are built.  Formalised here: the operator and punctuation class with its rendering, its token and the
   "cannot be extended by what follows" condition of maximal munch. *)
From Coq Require Import List NArith Bool.
From GV Require Import Gen.LexTables.
Import ListNotations.
Local Open Scope N_scope.

(* single-character punctuation that no following byte can extend: (byte, kind) *)
Definition punct1 : list (N * N) :=
  [(40, TT_LeftParen); (41, TT_RightParen); (91, TT_LBracket); (93, TT_RBracket); (44, TT_Comma); (59, TT_Semicolon);
   (46, TT_Dot); (43, TT_Plus); (42, TT_Mul); (47, TT_Div); (37, TT_Mod)].


(* what follows an operator must not extend it *)
Definition follow_free (forb : list N) (r : list N) : Prop :=
  match r with [] => True | x :: _ => ~ In x forb end.

Definition optable : list (list N * N * list N) :=
  [([45], TT_Minus, [62]); ([45; 62], TT_Arrow, [62]); ([45; 62; 62], TT_LongArrow, []);
   ([61], TT_Eq, [62]); ([61; 62], TT_RArrow, []);
   ([60], TT_Lt, [61; 62; 64]); ([60; 61], TT_LtEq, []); ([60; 62], TT_Neq, []); ([60; 64], TT_ArrowAt, []);
   ([62], TT_Gt, [61]); ([62; 61], TT_GtEq, []);
   ([33], TT_ExclamationMark, [61; 126]); ([33; 61], TT_Neq, []); ([33; 126], TT_ExclamationMarkTilde, [42]);
   ([33; 126; 42], TT_ExclamationMarkTildeAsterisk, []);
   ([58], TT_Colon, [58]); ([58; 58], TT_DoubleColon, []);
   ([124], TT_Pipe, [124]); ([124; 124], TT_StringConcat, []);
   ([38], TT_Ampersand, [38]); ([38; 38], TT_Overlap, []);
   ([64; 62], TT_AtArrow, []); ([64; 64], TT_AtAt, []);
   ([35], TT_Sharp, [62; 45]); ([35; 62], TT_HashArrow, [62]); ([35; 62; 62], TT_HashLongArrow, []); ([35; 45], TT_HashMinus, []);
   ([63], TT_Question, [124; 38]); ([63; 124], TT_QuestionPipe, []); ([63; 38], TT_QuestionAnd, []);
   ([126], TT_Tilde, [42]); ([126; 42], TT_TildeAsterisk, [])].


(* an operator lexeme: its text, the token it denotes *)
Definition op_lexemes : list (list N * N) :=
  map (fun p => ([fst p], snd p)) punct1 ++ map (fun p => (fst (fst p), snd (fst p))) optable.
