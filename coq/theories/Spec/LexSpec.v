(* LexSpec.v — reference lexical grammar: lexeme classes with their rendering [render] and the token they denote
   [tok_of], the separator language (white space, line comments, block comments), the decidable adjacency rule
   [follow_ok] (what follows cannot extend the lexeme), the well-formedness predicate [wf] of a lexeme sequence
   with separators, the text [interleave ls seps] it denotes, the reading the grammar prescribes ([expect]: raw
   tokens with byte spans and the comments; [tok_norm] / [normalize]: kinds and values after two-word keywords are
   split and keyword spellings are upper-cased).  The same grammar is written out in lib/lexgen.py, from which the
   lexical generator and the implementation-side reference lexer are built.
   Text is a list of bytes; code points are numbers; UTF-8 coding ([encode_rune] / [decode_rune]), the rune classes,
   [to_upper] and the table lookup [assoc_b] are shared with Model/Lexer.v (they are standard functions over the
   regenerated tables), nothing else of the model is used. *)
From Coq Require Import List NArith Bool.
From GV Require Import Gen.LexTables Model.Lexer.
Import ListNotations.
Local Open Scope N_scope.

(* single-character punctuation that no following byte can extend: (byte, kind) *)
Definition punct1 : list (N * N) :=
  [(40, TT_LeftParen); (41, TT_RightParen); (91, TT_LBracket); (93, TT_RBracket); (44, TT_Comma); (59, TT_Semicolon);
   (46, TT_Dot); (43, TT_Plus); (42, TT_Mul); (47, TT_Div); (37, TT_Mod)].


(* what follows an operator must not extend it *)
Definition follow_free (forb : list N) (r : list N) : Prop :=
  match r with [] => True | x :: _ => ~ In x forb end.

Definition optable : list (list N * N * list N) :=
  [([45], TT_Minus, [62]); ([45; 62], TT_Arrow, [62]); ([45; 62; 62], TT_LongArrow, []);
   ([61], TT_Eq, [62]); ([61; 62], TT_RArrow, []);
   ([60], TT_Lt, [61; 62; 64]); ([60; 61], TT_LtEq, []); ([60; 62], TT_Neq, []); ([60; 64], TT_ArrowAt, []);
   ([62], TT_Gt, [61]); ([62; 61], TT_GtEq, []);
   ([33], TT_ExclamationMark, [61; 126]); ([33; 61], TT_Neq, []); ([33; 126], TT_ExclamationMarkTilde, [42]);
   ([33; 126; 42], TT_ExclamationMarkTildeAsterisk, []);
   ([58], TT_Colon, [58]); ([58; 58], TT_DoubleColon, []);
   ([124], TT_Pipe, [124]); ([124; 124], TT_StringConcat, []);
   ([38], TT_Ampersand, [38]); ([38; 38], TT_Overlap, []);
   ([64; 62], TT_AtArrow, []); ([64; 64], TT_AtAt, []);
   ([35], TT_Sharp, [62; 45]); ([35; 62], TT_HashArrow, [62]); ([35; 62; 62], TT_HashLongArrow, []); ([35; 45], TT_HashMinus, []);
   ([63], TT_Question, [124; 38]); ([63; 124], TT_QuestionPipe, []); ([63; 38], TT_QuestionAnd, []);
   ([126], TT_Tilde, [42]); ([126; 42], TT_TildeAsterisk, [])].


(* an operator lexeme: its text, the token it denotes *)
Definition op_lexemes : list (list N * N) :=
  map (fun p => ([fst p], snd p)) punct1 ++ map (fun p => (fst (fst p), snd (fst p))) optable.

(* ============================================================================================== *)
(* text                                                                                            *)

(* Unicode scalar values: code points that have a UTF-8 encoding *)
Definition scalar (r : N) : bool := (r <? 55296) || ((57343 <? r) && (r <? 1114112)).
Definition utf8 (rs : list N) : list N := flat_map encode_rune rs.

Definition ws_byte (b : N) : bool := (b =? 32) || (b =? 9) || (b =? 13) || (b =? 10).
Definition digit_byte (b : N) : bool := (48 <=? b) && (b <=? 57).

(* conditions on the text that follows a lexeme *)
(* the next byte is none of [forb] (nothing follows: fine) *)
Definition next_byte_not (forb : list N) (r : list N) : bool :=
  match r with [] => true | b :: _ => negb (existsb (N.eqb b) forb) end.
Definition next_byte_nondigit (r : list N) : bool :=
  match r with [] => true | b :: _ => negb (digit_byte b) end.
(* the next code point does not satisfy [p] *)
Definition next_rune_not (p : N -> bool) (r : list N) : bool :=
  match r with [] => true | _ => negb (p (fst (decode_rune r))) end.

(* the text at which a token starts: not white space, not a comment opener *)
Definition clean (x : list N) : bool :=
  match x with
  | [] => true
  | a :: tl =>
      negb (ws_byte a) &&
      match tl with
      | b :: _ => negb (((a =? 45) && (b =? 45)) || ((a =? 47) && (b =? 42)))
      | [] => true
      end
  end.

(* ============================================================================================== *)
(* lexeme classes                                                                                  *)

(* operators and punctuation: one table (text, kind, bytes that would extend it) *)
Definition all_ops : list (list N * N * list N) := map (fun p => ([fst p], snd p, [])) punct1 ++ optable.

Inductive sitem : Type :=             (* content of a '...' string *)
| SChar (r : N)                       (* a code point other than a quote or a backslash *)
| SQuote2 (a b : N)                   (* a doubled quote: denotes one ' *)
| SEsc (e : N).                       (* backslash escape: the backslash and one of: backslash, the three quote characters, n, r, t *)
Inductive qitem : Type :=             (* content of a double-quoted identifier *)
| QChar (r : N)
| QQuote2 (a b : N).
Inductive bitem : Type :=             (* content of a `...` identifier, byte-wise *)
| BByte (b : N)
| BTick2.

Inductive lexeme : Type :=
| LOp (e : list N * N * list N)                         (* operator / punctuation: an entry of all_ops *)
| LAt                                                   (* bare @ *)
| LDollarSign                                           (* bare $ *)
| LNum (ip : list N) (fp : option (list N)) (ex : option (N * option N * list N))
                                                        (* digits [. digits] [(e|E) [+|-] digits] *)
| LWord (rs : list N)                                   (* identifier or keyword: code points *)
| LParamNum (ds : list N)                               (* $1 *)
| LParamAt (rs : list N)                                (* @name *)
| LSStr (op cl : N) (items : list sitem)                (* '...' (also the typographic single quotes) *)
| LQId (op cl : N) (items : list qitem)                 (* double-quoted identifier (also the typographic double quotes) *)
| LBId (items : list bitem)                             (* `...` *)
| LDollar (tag : list N) (body : list N)                (* $tag$ body $tag$ *)
| LTriple (rs : list N).                                (* triple-quoted string: three quotes, text, three quotes; no escapes *)

Definition is_word (l : lexeme) : bool := match l with LWord _ => true | _ => false end.

(* ---- rendering ---- *)
Definition sitem_text (it : sitem) : list N :=
  match it with
  | SChar r => encode_rune r
  | SQuote2 a b => encode_rune a ++ encode_rune b
  | SEsc e => [92; e]
  end.
Definition qitem_text (it : qitem) : list N :=
  match it with QChar r => encode_rune r | QQuote2 a b => encode_rune a ++ encode_rune b end.
Definition bitem_text (it : bitem) : list N := match it with BByte b => [b] | BTick2 => [96; 96] end.

Definition num_text (ip : list N) (fp : option (list N)) (ex : option (N * option N * list N)) : list N :=
  ip ++ (match fp with Some f => 46 :: f | None => [] end)
     ++ (match ex with
         | Some (e, sg, ds) => e :: (match sg with Some s => [s] | None => [] end) ++ ds
         | None => []
         end).

Definition dollar_tag (tag : list N) : list N := 36 :: utf8 tag ++ [36].

Definition render (l : lexeme) : list N :=
  match l with
  | LOp e => fst (fst e)
  | LAt => [64]
  | LDollarSign => [36]
  | LNum ip fp ex => num_text ip fp ex
  | LWord rs => utf8 rs
  | LParamNum ds => 36 :: ds
  | LParamAt rs => 64 :: utf8 rs
  | LSStr op cl items => encode_rune op ++ flat_map sitem_text items ++ encode_rune cl
  | LQId op cl items => encode_rune op ++ flat_map qitem_text items ++ encode_rune cl
  | LBId items => 96 :: flat_map bitem_text items ++ [96]
  | LDollar tag body => dollar_tag tag ++ body ++ dollar_tag tag
  | LTriple rs => [39; 39; 39] ++ utf8 rs ++ [39; 39; 39]
  end.

(* ---- decoded values ---- *)
Definition esc_value (e : N) : list N :=
  if e =? 110 then [10] else if e =? 114 then [13] else if e =? 116 then [9] else [e].
Definition sitem_value (it : sitem) : list N :=
  match it with
  | SChar r => encode_rune (normalize_quote r)      (* typographic quotes inside a literal are normalised *)
  | SQuote2 _ _ => [39]
  | SEsc e => esc_value e
  end.
Definition qitem_value (it : qitem) : list N :=
  match it with QChar r => encode_rune (normalize_quote r) | QQuote2 _ _ => [34] end.
Definition bitem_value (it : bitem) : list N := match it with BByte b => [b] | BTick2 => [96] end.

Definition kw_type (u : list N) : N := match assoc_b keywords u with Some t => t | None => TT_Identifier end.

(* the token a lexeme denotes when read on its own: (kind, value, quote mark) *)
Definition tok_of (l : lexeme) : rtok :=
  match l with
  | LOp e => (snd (fst e), fst (fst e), 0)
  | LAt => (TT_AtSign, [64], 0)
  | LDollarSign => (TT_Placeholder, [36], 0)
  | LNum ip fp ex => (TT_Number, num_text ip fp ex, 0)
  | LWord rs => (kw_type (to_upper (utf8 rs)), utf8 rs, 0)
  | LParamNum ds => (TT_Placeholder, 36 :: ds, 0)
  | LParamAt rs => (TT_Placeholder, 64 :: utf8 rs, 0)
  | LSStr op cl items => (TT_SingleQuotedString, flat_map sitem_value items, op)
  | LQId op cl items => (TT_DoubleQuotedString, flat_map qitem_value items, 34)
  | LBId items => (TT_Identifier, flat_map bitem_value items, 96)
  | LDollar tag body => (TT_DollarQuotedString, body, 0)
  | LTriple rs => (TT_TripleSingleQuotedString, utf8 rs, 39)
  end.

(* the same after normalisation: a keyword carries its canonical upper-case spelling *)
Definition tok_norm (l : lexeme) : rtok :=
  match l with
  | LWord rs =>
      match assoc_b keywords (to_upper (utf8 rs)) with
      | Some t => (t, to_upper (utf8 rs), 0)
      | None => (TT_Identifier, utf8 rs, 0)
      end
  | _ => tok_of l
  end.

(* ---- well-formedness of one lexeme ---- *)
Definition op_eqb (a b : list N * N * list N) : bool :=
  bytes_eqb (fst (fst a)) (fst (fst b)) && (snd (fst a) =? snd (fst b)) && bytes_eqb (snd a) (snd b).

Definition word_shape (rs : list N) : bool :=
  match rs with
  | [] => false
  | r :: tl => is_ident_start r && forallb is_ident_part tl && forallb scalar rs
  end.

Definition digits_ok (ds : list N) : bool := match ds with [] => false | _ => forallb digit_byte ds end.

Definition sitem_ok (it : sitem) : bool :=
  match it with
  | SChar r => scalar r && negb (normalize_quote r =? 39) && negb (normalize_quote r =? 92)
  | SQuote2 a b => scalar a && scalar b && (normalize_quote a =? 39) && (normalize_quote b =? 39)
  | SEsc e => existsb (N.eqb e) [92; 34; 39; 96; 110; 114; 116]
  end.
Definition qitem_ok (it : qitem) : bool :=
  match it with
  | QChar r => scalar r && negb (normalize_quote r =? 34) && negb (normalize_quote r =? 10)
  | QQuote2 a b => scalar a && scalar b && (normalize_quote a =? 34) && (normalize_quote b =? 34)
  end.
Definition bitem_ok (it : bitem) : bool := match it with BByte b => negb (b =? 96) | BTick2 => true end.

(* the closing tag does not occur in body ++ closing before the end of body *)
Fixpoint no_early_close (closing body : list N) : bool :=
  match body with
  | [] => true
  | _ :: tl => negb (is_prefix closing (body ++ closing)) && no_early_close closing tl
  end.

(* three quotes in a row do not occur in rs followed by the closing three quotes before the end of rs *)
Definition starts3 (l : list N) : bool :=
  match l with a :: b :: c :: _ => (a =? 39) && (b =? 39) && (c =? 39) | _ => false end.
Fixpoint no_tclose (rs : list N) : bool :=
  match rs with
  | [] => true
  | _ :: tl => negb (starts3 (rs ++ [39; 39; 39])) && no_tclose tl
  end.

Definition lex_ok (l : lexeme) : bool :=
  match l with
  | LOp e => existsb (op_eqb e) all_ops
  | LAt => true
  | LDollarSign => true
  | LNum ip fp ex =>
      digits_ok ip && (match fp with Some f => digits_ok f | None => true end) &&
      (match ex with
       | Some (e, sg, ds) =>
           ((e =? 101) || (e =? 69)) && (match sg with Some s => (s =? 43) || (s =? 45) | None => true end) && digits_ok ds
       | None => true
       end)
  | LWord rs => word_shape rs
  | LParamNum ds => digits_ok ds
  | LParamAt rs => word_shape rs
  | LSStr op cl items =>
      is_single_quote_family op && scalar op && (normalize_quote op =? 39) && scalar cl && (normalize_quote cl =? 39) &&
      forallb sitem_ok items &&
      (* ''' opens a triple-quoted literal, not a string that begins with a doubled quote *)
      (match items with SQuote2 a b :: _ => negb ((op =? 39) && (a =? 39) && (b =? 39)) | _ => true end)
  | LQId op cl items =>
      ((op =? 34) || is_unicode_quote op) && negb (is_ident_start op) && scalar op && (normalize_quote op =? 34) &&
      scalar cl && (normalize_quote cl =? 34) && forallb qitem_ok items
  | LBId items => forallb bitem_ok items
  | LDollar tag body =>
      (match tag with [] => true | t0 :: _ => word_shape tag && is_ident_part t0 end) && no_early_close (dollar_tag tag) body
  | LTriple rs => forallb scalar rs && no_tclose rs
  end.

(* ---- adjacency: the text r that follows the lexeme cannot extend it, and the lexeme with what follows does not
   read as white space or a comment opener ('-' before '-', '/' before '*') ---- *)
Definition class_follow (l : lexeme) (r : list N) : bool :=
  match l with
  | LOp e => next_byte_not (snd e) r
  | LAt => next_byte_not [62; 64] r && next_rune_not is_ident_start r
  | LDollarSign => next_rune_not (fun x => is_digit x || (x =? 36) || is_ident_start x) r
  | LNum ip fp ex =>
      next_byte_nondigit r &&
      (match fp, ex with
       | None, None => next_byte_not [46; 101; 69] r
       | Some _, None => next_byte_not [101; 69] r
       | _, Some _ => true
       end)
  | LWord rs => next_rune_not is_ident_part r
  | LParamNum ds => next_byte_nondigit r
  | LParamAt rs => next_rune_not is_ident_part r
  | LSStr op cl items => next_rune_not (fun x => normalize_quote x =? 39) r
  | LQId op cl items => next_rune_not (fun x => normalize_quote x =? 34) r
  | LBId items => next_byte_not [96] r
  | LDollar tag body => true
  | LTriple rs => true
  end.
Definition follow_ok (l : lexeme) (r : list N) : bool := class_follow l r && clean (render l ++ r).

(* ============================================================================================== *)
(* separators                                                                                      *)

Inductive trivia : Type :=
| TWs (b : N)                 (* one white-space byte: space, tab, CR, LF *)
| TLine (body : list N)       (* -- body, up to (not including) the line feed or the end of the text *)
| TBlock (body : list N).     (* /* body */ *)
Definition sep : Type := list trivia.

Definition render_triv (t : trivia) : list N :=
  match t with
  | TWs b => [b]
  | TLine body => 45 :: 45 :: body
  | TBlock body => 47 :: 42 :: body ++ [42; 47]
  end.

Fixpoint no_close (body : list N) : bool :=
  match body with
  | a :: tl => (match tl with b :: _ => negb ((a =? 42) && (b =? 47)) | [] => true end) && no_close tl
  | [] => true
  end.

Definition triv_ok (t : trivia) : bool :=
  match t with
  | TWs b => ws_byte b
  | TLine body => forallb (fun b => negb (b =? 10)) body
  | TBlock body => no_close body
  end.
(* a line comment ends at a line feed or at the end of the text *)
Definition triv_follow (t : trivia) (r : list N) : bool :=
  match t with
  | TLine _ => match r with [] => true | b :: _ => b =? 10 end
  | _ => true
  end.

(* ============================================================================================== *)
(* streams: lexemes with separators                                                                *)

Inductive item : Type := ILex (l : lexeme) | ITriv (t : trivia).
Definition render_item (it : item) : list N := match it with ILex l => render l | ITriv t => render_triv t end.
Definition render_items (its : list item) : list N := flat_map render_item its.

(* seps has one separator more than there are lexemes: before the first, between, after the last *)
Fixpoint items_of (ls : list lexeme) (seps : list sep) : list item :=
  match seps with
  | [] => []
  | s :: seps' =>
      map ITriv s ++ match ls with [] => [] | l :: ls' => ILex l :: items_of ls' seps' end
  end.
Definition interleave (ls : list lexeme) (seps : list sep) : list N := render_items (items_of ls seps).

Fixpoint items_ok (its : list item) : bool :=
  match its with
  | [] => true
  | it :: rest =>
      (match it with
       | ILex l => lex_ok l && follow_ok l (render_items rest)
       | ITriv t => triv_ok t && triv_follow t (render_items rest)
       end) && items_ok rest
  end.

(* well-formed: every lexeme and separator piece is well-formed and satisfies its adjacency condition w.r.t. the
   text that follows it.  Decidable (a boolean). *)
Definition wf (ls : list lexeme) (seps : list sep) : Prop :=
  length seps = S (length ls) /\ items_ok (items_of ls seps) = true.

(* ---- the reading the grammar prescribes ---- *)
Fixpoint drop_ws (its : list item) : list item :=
  match its with ITriv (TWs _) :: tl => drop_ws tl | _ => its end.
Fixpoint ws_count (its : list item) : nat :=
  match its with ITriv (TWs _) :: tl => S (ws_count tl) | _ => O end.

(* one reading step at a lexeme: the raw token, the number of bytes it spans, the items left.  A word that can
   start a two-word keyword and is followed, across plain white space only, by a word completing one is read
   together with it as ONE raw token (kind of the two-word keyword, value = canonical upper-case spelling). *)
Definition next_lex (l : lexeme) (rest : list item) : rtok * nat * list item :=
  let plain := (tok_of l, length (render l), rest) in
  match l with
  | LWord rs =>
      let u1 := to_upper (utf8 rs) in
      if mem_b compound_starts u1 then
        match drop_ws rest with
        | ILex (LWord rs2) :: rest2 =>
            let uc := u1 ++ 32 :: to_upper (utf8 rs2) in
            match assoc_b compound_keywords uc with
            | Some cty => ((cty, uc, 0), (length (utf8 rs) + ws_count rest + length (utf8 rs2))%nat, rest2)
            | None => plain
            end
        | _ => plain
        end
      else plain
  | _ => plain
  end.

Definition com_of (bs : list N) (off : N) (t : trivia) : list comment :=
  match t with
  | TWs _ => []
  | TLine body => [mkcom (45 :: 45 :: body) 0 (code_before bs off) off (off + N.of_nat (length (render_triv t)))]
  | TBlock body => [mkcom (render_triv t) 1 (code_before bs off) off (off + N.of_nat (length (render_triv t)))]
  end.

(* raw tokens (with byte spans) and comments of the items from byte offset off; bs is the whole text (the inline flag
   of a comment looks back to the start of its line) *)
Fixpoint expect (bs : list N) (fuel : nat) (off : N) (its : list item) : list token * list comment :=
  match fuel with
  | O => ([], [])
  | S f =>
      match its with
      | [] => ([], [])
      | ITriv t :: rest =>
          let '(et, ec) := expect bs f (off + N.of_nat (length (render_triv t))) rest in (et, com_of bs off t ++ ec)
      | ILex l :: rest =>
          let '((ty, v, q), n, rest') := next_lex l rest in
          let '(et, ec) := expect bs f (off + N.of_nat n) rest' in
          (mktok ty v q off (off + N.of_nat n) :: et, ec)
      end
  end.

Definition expect_all (ls : list lexeme) (seps : list sep) : list token * list comment :=
  let its := items_of ls seps in expect (render_items its) (length its) 0 its.

Definition raw_tokens (ls : list lexeme) (seps : list sep) : list token := fst (expect_all ls seps).
Definition raw_comments (ls : list lexeme) (seps : list sep) : list comment := snd (expect_all ls seps).

Definition rtok_of (t : token) : rtok := (ttype t, tval t, tquote t).
Definition comments_of (seps : list sep) : list (list N * N) :=       (* (text, style) *)
  flat_map (flat_map (fun t => match t with
                               | TWs _ => []
                               | TLine body => [(45 :: 45 :: body, 0)]
                               | TBlock body => [(render_triv t, 1)]
                               end)) seps.

(* ---- normalisation of a raw token sequence: a two-word keyword token is split into its words, a keyword carries
   its upper-case spelling (what the parser's token conversion does with the kinds; lib/lexgen.py norm_raw) ---- *)
Fixpoint split_sp (acc v : list N) : list (list N) :=
  match v with
  | [] => [acc]
  | b :: tl => if b =? 32 then acc :: split_sp [] tl else split_sp (acc ++ [b]) tl
  end.

Definition norm_tok (t : rtok) : list rtok :=
  let '(ty, v, q) := t in
  if (q =? 0) && (match assoc_b compound_keywords v with Some cty => cty =? ty | None => false end)
  then map (fun w => (kw_type w, w, 0)) (split_sp [] v)
  else
    match assoc_b keywords (to_upper v) with
    | Some kt => if (q =? 0) && (kt =? ty) then [(ty, to_upper v, 0)] else [t]
    | None => [t]
    end.
Definition normalize (ts : list rtok) : list rtok := flat_map norm_tok ts.

(* the letter case of keywords: two lexeme sequences differ only in it *)
Definition case_variant (l l' : lexeme) : Prop :=
  l = l' \/
  match l, l' with
  | LWord rs, LWord rs' =>
      to_upper (utf8 rs) = to_upper (utf8 rs') /\ assoc_b keywords (to_upper (utf8 rs)) <> None
  | _, _ => False
  end.
