From Coq Require Import List NArith Bool.
From GV Require Import Gen.LexTables Model.Lexer.
