(* LexRefEval.v — evaluation helpers (definitions only) for comparing the reading prescribed by the reference grammar
   with the implementation's output on generated lexeme streams: lib/c04.py turns a generated stream (lexeme texts and
   separator texts) into terms of Spec/LexSpec.v, Coq decides wf and computes the canonical flattening of the
   prescribed reading, which must equal the canonical output of the Go tokenizer on the same bytes. *)
From Coq Require Import List NArith Bool.
From GV Require Import Gen.LexTables Model.Lexer Spec.LexSpec.
Import ListNotations.
Local Open Scope N_scope.

Definition wfb (ls : list lexeme) (seps : list sep) : bool :=
  Nat.eqb (length seps) (S (length ls)) && items_ok (items_of ls seps).

(* an operator lexeme by its text *)
Definition op_of (v : list N) : lexeme :=
  match find (fun e : list N * N * list N => bytes_eqb v (fst (fst e))) all_ops with
  | Some e => LOp e
  | None => LOp (v, 0, [])      (* not an operator: not well-formed *)
  end.

Definition ref_canon (ls : list lexeme) (seps : list sep) : list N :=
  let bs := interleave ls seps in
  let i := N.of_nat (length bs) in
  canon bs (Val (raw_tokens ls seps ++ [mktok TT_EOF [] 0 i i], raw_comments ls seps)).

(* 0: well-formed and the prescribed reading equals [want]; 1: not well-formed; 2: well-formed but different;
   3: the terms do not render to the text [inp] (conversion fault) *)
Definition ref_check (c : list lexeme * list sep * list N * list N) : N :=
  let '(ls, seps, inp, want) := c in
  if negb (list_eqb (interleave ls seps) inp) then 3
  else if negb (wfb ls seps) then 1
  else if list_eqb (ref_canon ls seps) want then 0 else 2.
