(* Instance lemmas for C13 on the error-flow table regenerated from SSA (Gen/ErrSites.v): complete evaluations
   of the decidable hypotheses of Proofs/ErrFlowP.v. *)
From Coq Require Import List NArith Bool.
From GV Require Import Model.ErrFlow Gen.ErrSites.
Import ListNotations.
Local Open Scope N_scope.

(* no bare / untracked error, no structured error of the wrong family and no limit check without its dedicated
   code can arrive at an entry point, except through the listed sites *)
Lemma c13_site_table_ok : site_table_ok err_known_family err_bad err_api err_table = true.
Proof. vm_compute. reflexivity. Qed.

(* no site rebuilds an error from the text of another one, except the listed sites *)
Lemma c13_no_rewrap : no_rewrap err_known_rewrap err_table = true.
Proof. vm_compute. reflexivity. Qed.

(* the table is closed: every flow edge points at a node of the table, ids are the positions *)
Definition closed (T : table) : bool :=
  forallb (fun n => forallb (fun m => match lookup T m with Some _ => true | None => false end) (n_inner n ++ n_dropped n)) T.
Lemma c13_table_closed : closed err_table = true.
Proof. vm_compute. reflexivity. Qed.

(* every entry point is a function node of the table, and there are entry points *)
Lemma c13_api_nodes :
  forallb (fun a => match lookup err_table a with Some n => match n_kind n with KFun => true | _ => false end | None => false end) err_api
  && negb (N.of_nat (length err_api) =? 0) = true.
Proof. vm_compute. reflexivity. Qed.
