(* Instance lemmas for C11 on the error-flow table regenerated from SSA (Gen/ErrSites.v). *)
From Coq Require Import List NArith Bool.
From GV Require Import Model.ErrFlow Gen.ErrSites.
Import ListNotations.
Local Open Scope N_scope.

(* the witness set of "can never carry an error made from a context poll" is closed under the flow edges *)
Lemma c11_ctx_free_ok : ctx_free_ok err_ctx_free err_table = true.
Proof. vm_compute. reflexivity. Qed.

(* no site that can receive an error made from a poll rebuilds it from its text (except the listed sites) *)
Lemma c11_no_rewrap_on_poll_paths : no_rewrap_on_poll_paths err_known_ctx err_ctx_free err_table = true.
Proof. vm_compute. reflexivity. Qed.

(* no error value that may come from a poll is observed and thrown away (tested and replaced / ignored) *)
Lemma c11_no_discard_on_poll_paths : no_discard_on_poll_paths err_ctx_free err_discards = true.
Proof. vm_compute. reflexivity. Qed.

(* the polls exist, are poll nodes, and every context entry point can evaluate to an error made from one *)
Lemma c11_polls_are_polls :
  forallb (fun p => match lookup err_table p with Some n => match n_kind n with KCtx => true | _ => false end | None => false end) err_polls
  && negb (N.of_nat (length err_polls) =? 0) = true.
Proof. vm_compute. reflexivity. Qed.
