(* Instance lemma for C09: every field of every pooled type is reset on every release path
   (complete evaluation of the regenerated probe table). *)
From Coq Require Import List NArith Bool.
From GV Require Import Model.Pool Gen.PoolTable.
Import ListNotations.

Lemma cleared_ok : cleared_except pool_all pool_cleared pool_known = true.
Proof. vm_compute. reflexivity. Qed.
