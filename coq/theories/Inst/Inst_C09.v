(* Instance lemmas for C09 (complete evaluation of tables regenerated from the compiled code on every run).
   Cleanliness: every field of every pooled type is reset on every release path.
   Ownership: facts about the release paths measured by the reflective probe (vh owntable), about the
   trees the parser builds (vh ownshare) and about the slices handed to callers (vh ownalias). *)
From Coq Require Import List NArith Bool.
From GV Require Import Model.Pool Gen.PoolTable Model.Own Gen.OwnTable.
Import ListNotations.

Lemma cleared_ok : cleared_except pool_all pool_cleared pool_known = true.
Proof. vm_compute. reflexivity. Qed.

(* the release tables of the current code *)
Definition cur_pooled := tbl1 own_pooled.
Definition cur_container := tbl1 own_container.
Definition cur_descend := tbl2 own_descend.
Definition cur_keeps := tbl2 own_keeps.
Definition cur_budget := N.to_nat own_budget_observed.

(* a Put leaves no reference to a child behind in the pooled object *)
Lemma keeps_none : own_keeps = [].
Proof. vm_compute. reflexivity. Qed.

Lemma cur_keeps_false : forall ty f, cur_keeps ty f = false.
Proof. intros ty f. unfold cur_keeps, tbl2. rewrite keeps_none. reflexivity. Qed.

(* no release probe put an object twice *)
Lemma no_double_put_in_probe : own_double = [].
Proof. vm_compute. reflexivity. Qed.

(* a release writes only the objects it puts into a pool *)
Lemma release_writes_only_what_it_puts : own_written = [].
Proof. vm_compute. reflexivity. Qed.

(* the observed work-queue budget is the declared constant *)
Lemma budget_is_constant : own_budget_observed = own_budget_const.
Proof. vm_compute. reflexivity. Qed.

(* where parsed trees store one object in several slots, a release goes on into at most one of them
   (so it meets the object once) *)
Lemma shared_slots_not_released : shared_reached_once own_shared_groups own_descend = true.
Proof. vm_compute. reflexivity. Qed.

(* no result handed to a caller was observed to alias a buffer the library writes later (or vice versa) *)
Lemma results_alias_nothing : alias_free alias_rows = true.
Proof. vm_compute. reflexivity. Qed.
