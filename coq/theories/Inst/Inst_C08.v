(* Inst_C08 — the footprint tables of Model/Reuse.v against the field-effect tables regenerated from the Go source
   (Gen/FieldFx.v, go/ssa): every model field is played by exactly one struct field (found by its role, Gen/FieldFx
   parser_roles: a renamed field is the same column), every other struct field is dead on entry of every method or
   well behaved (extras_ok: the extended table satisfies the generic read-before-write condition, Props/C08
   C08_extra_fields_admitted; a new field that is read before it is written and not reset breaks the lemma), no entry
   point reads an incoming field value the model does not list, every field the model calls Keep has no unbalanced store,
   every field the model calls Zero is assigned on every path (parser: with the zero value), every other exported
   method is a getter of well-behaved fields.  Complete evaluation. *)
From Coq Require Import List NArith Bool String.
From GV Require Import Model.Reuse Gen.FieldFx Gen.CallGraphTable.
Import ListNotations.

Lemma parser_fieldfx_ok :
  fx_compat (ptable no_defects) (role_name parser_roles pfield_name) pop_methods pguard_r pguard_w true parser_fields parser_fx = true.
Proof. vm_compute. reflexivity. Qed.

Lemma tokenizer_fieldfx_ok :
  fx_compat (ttable no_tdefects) (role_name tokenizer_roles tfield_name) top_methods tguard_r tguard_w false tokenizer_fields tokenizer_fx = true.
Proof. vm_compute. reflexivity. Qed.

(* every function that increments the depth counter defers its decrement (C02's guard recogniser) *)
Fixpoint ns_eqb (a b : list N) : bool :=
  match a, b with
  | [], [] => true
  | x :: r, y :: r' => N.eqb x y && ns_eqb r r'
  | _, _ => false
  end.
Lemma depth_balanced_ok : ns_eqb parser_depth_inc parser_depth_defer_dec = true.
Proof. vm_compute. reflexivity. Qed.
