(* Instance lemma for C16: Scanner.Scan starts a traversal from a top-level statement of every statement kind of the
   reference grammar — read off the table probed on the compiled code each run (Gen/QRoots.v). *)
From Coq Require Import List Bool.
From GV Require Import Model.QAst Model.QRef Gen.QRoots.
Import ListNotations.

Lemma roots_cover_ok : roots_cover scan_root = true.
Proof. vm_compute. reflexivity. Qed.
