(* Instance lemmas for C15 / C16: every (kind, slot) edge a prescribed tree can contain is returned by the
   current Children() methods — read off the table regenerated for C14 (Gen/ChildrenTable.v via Gen/QSlots.v). *)
From Coq Require Import List NArith Bool.
From GV Require Import Model.Walk Model.QAst Model.QRef Gen.ChildrenTable Gen.QSlots.
Import ListNotations.

Lemma em_covers_ok : em_covers em = true.
Proof. vm_compute. reflexivity. Qed.
