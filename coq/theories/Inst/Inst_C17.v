(* Inst_C17.v — the lint model instantiated with the regenerated tables (Gen/LintTables.v), and the
   decidable facts about those tables that the generic theorems of Proofs/LintP.v assume. *)
From Coq Require Import List NArith Bool.
From GV Require Import Model.Lint Proofs.LintP Gen.LintTables.
Import ListNotations.
Local Open Scope N_scope.

Definition letter := in_ranges letter_ranges.
Definition digit := in_ranges digit_ranges.
Definition space := in_ranges space_ranges.
Definition upper := assoc upper_ascii_tab.

Definition i_trim_space := trim_space space.
Definition i_l003_fix := l003_fix space.
Definition i_l003_check := l003_check space.
Definition i_l005_check := l005_check space.
Definition i_l007_fix := l007_fix letter digit upper keywords_tab.
Definition i_l007_check := l007_check letter digit upper keywords_tab.
Definition i_cli_fix := cli_fix letter digit space upper keywords_tab.
Definition i_format := format_sql space upper.

(* byte-level wrapper used by the correspondence cases *)
Definition onb (f : list ch -> list ch) (s : list N) : list N := encode (f (decode s)).

(* ---- facts about the regenerated tables (complete evaluation of finite tables) ---- *)

Definition plainNb (n : N) : bool :=
  negb (nq n =? 39) && negb (nq n =? 34) && negb (n =? 96) && negb (n =? 45) && negb (n =? 42) && negb (n =? 47) && negb (n =? 10).
Lemma plainNb_spec : forall n, plainNb n = true -> plainN n.
Proof.
  intros n H. unfold plainNb in H. repeat (apply andb_prop in H; destruct H as [H ?]).
  unfold plainN. repeat split; apply N.eqb_neq; apply negb_true_iff; assumption.
Qed.

(* every entry (x, u) of the upper-case table: x and u are not delimiters of the scanner, u is a letter and its own image,
   x is not white space *)
Definition up_entry_ok (kv : N * N) : bool :=
  let x := fst kv in let u := snd kv in
  plainNb x && plainNb u && letter u && (u <? 128) &&
  match upper u with Some u' => u' =? u | None => false end &&
  negb (space x) && negb (x =? 32) && negb (x =? 9) && negb (x =? 10).

Lemma up_tab_ok : forallb up_entry_ok upper_ascii_tab = true.
Proof. vm_compute. reflexivity. Qed.

Lemma up_entry : forall x u, upper x = Some u -> up_entry_ok (x, u) = true.
Proof.
  intros x u H. apply assoc_in in H. pose proof up_tab_ok as T. rewrite forallb_forall in T. apply T. exact H.
Qed.

Ltac up_split H := unfold up_entry_ok in H; cbn [fst snd] in H; repeat (apply andb_prop in H; destruct H as [H ?]).

Lemma up_plain : forall x u, upper x = Some u -> plainN x /\ plainN u.
Proof.
  intros x u H. apply up_entry in H. up_split H. split; [|apply plainNb_spec; assumption].
  unfold plainN. repeat split; apply N.eqb_neq; apply negb_true_iff; assumption.
Qed.
Lemma up_letter : forall x u, upper x = Some u -> letter u = true.
Proof. intros x u H. apply up_entry in H. up_split H. assumption. Qed.
Lemma up_ascii : forall x u, upper x = Some u -> u < 128.
Proof. intros x u H. apply up_entry in H. up_split H. apply N.ltb_lt. assumption. Qed.
Lemma up_idem : forall x u, upper x = Some u -> upper u = Some u.
Proof.
  intros x u H. apply up_entry in H. up_split H.
  match goal with X : match upper u with _ => _ end = true |- _ => destruct (upper u) as [u'|]; [apply N.eqb_eq in X; subst; reflexivity|discriminate] end.
Qed.
Lemma up_nows : forall x u, upper x = Some u -> space x = false /\ x <> 32 /\ x <> 9 /\ x <> 10.
Proof.
  intros x u H. apply up_entry in H. up_split H.
  repeat split; try (apply N.eqb_neq); apply negb_true_iff; assumption.
Qed.

(* the keyword table holds upper-case ASCII letters only (so that a converted keyword is a fixed point) *)
Lemma keywords_upper : forallb (forallb (fun b => (65 <=? b) && (b <=? 90))) keywords_tab = true.
Proof. vm_compute. reflexivity. Qed.

(* space, tab and newline are spaces; the delimiters of the scanner are not *)
Lemma space_32_9 : space 32 = true /\ space 9 = true /\ space 10 = true.
Proof. vm_compute. repeat split. Qed.
Lemma sp_nodelim : sp_ok space.
Proof. vm_compute. repeat split. Qed.
