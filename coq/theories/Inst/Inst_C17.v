(* Inst_C17.v — the lint model instantiated with the regenerated tables (Gen/LintTables.v), and the
   decidable facts about those tables that the generic theorems of Proofs/LintP.v assume. *)
From Coq Require Import List NArith Bool.
From GV Require Import Model.Lint Proofs.LintP Gen.LintTables.
Import ListNotations.
Local Open Scope N_scope.

Definition letter := in_ranges letter_ranges.
Definition digit := in_ranges digit_ranges.
Definition space := in_ranges space_ranges.
Definition upper := assoc upper_ascii_tab.

Definition i_trim_space := trim_space space.
Definition i_l003_fix := l003_fix space.
Definition i_l003_check := l003_check space.
Definition i_l005_check := l005_check space.
Definition i_l007_fix := l007_fix letter digit upper keywords_tab.
Definition i_l007_check := l007_check letter digit upper keywords_tab.
Definition i_cli_fix := cli_fix letter digit space upper keywords_tab.
Definition i_format := format_sql space upper.

(* byte-level wrappers used by the correspondence cases *)
Definition onb (f : list ch -> list ch) (s : list N) : list N := encode (f (decode s)).
Definition fix_case (f : list ch -> list ch) (c : list N * list N) : bool := nlist_eqb (onb f (fst c)) (snd c).
Definition chk_case (f : list ch -> list viol) (c : list N * list (N * N)) : bool :=
  vlist_eqb (viols_N (f (decode (fst c)))) (snd c).

(* ---- facts about the regenerated tables (complete evaluation of finite tables) ---- *)

(* every upper-case image in the table is a letter, is neither quote character nor the newline, and is its own image *)
Definition up_entry_ok (kv : N * N) : bool :=
  let u := snd kv in
  letter u && negb (u =? 39) && negb (u =? 34) && negb (u =? 10) &&
  match upper u with Some u' => u' =? u | None => false end.

Lemma up_tab_ok : forallb up_entry_ok upper_ascii_tab = true.
Proof. vm_compute. reflexivity. Qed.

Lemma up_entry : forall x u, upper x = Some u -> up_entry_ok (x, u) = true.
Proof.
  intros x u H. apply assoc_in in H. pose proof up_tab_ok as T. rewrite forallb_forall in T. apply T. exact H.
Qed.

Lemma up_letter : forall x u, upper x = Some u -> letter u = true.
Proof.
  intros x u H. apply up_entry in H. unfold up_entry_ok in H. cbn [snd] in H.
  repeat (apply andb_prop in H; destruct H as [H ?]). exact H.
Qed.

Lemma up_noquote : forall x u, upper x = Some u -> u <> 39 /\ u <> 34 /\ u <> 10.
Proof.
  intros x u H. apply up_entry in H. unfold up_entry_ok in H. cbn [snd] in H.
  repeat (apply andb_prop in H; destruct H as [H ?]).
  repeat split; apply N.eqb_neq; apply negb_true_iff; assumption.
Qed.

Lemma up_idem : forall x u, upper x = Some u -> upper u = Some u.
Proof.
  intros x u H. apply up_entry in H. unfold up_entry_ok in H. cbn [snd] in H.
  apply andb_prop in H. destruct H as [_ H]. destruct (upper u) as [u'|]; [|discriminate].
  apply N.eqb_eq in H. subst. reflexivity.
Qed.

(* a rune with an ASCII upper-case image is not white space, and neither is its image *)
Definition up_key_ok (kv : N * N) : bool :=
  let x := fst kv in negb (space x) && negb (x =? 32) && negb (x =? 9) && negb (x =? 10).
Lemma up_keys_ok : forallb up_key_ok upper_ascii_tab = true.
Proof. vm_compute. reflexivity. Qed.
Lemma up_nows : forall x u, upper x = Some u -> space x = false /\ x <> 32 /\ x <> 9 /\ x <> 10.
Proof.
  intros x u H. apply assoc_in in H. pose proof up_keys_ok as T. rewrite forallb_forall in T. specialize (T _ H).
  unfold up_key_ok in T. cbn [fst] in T. repeat (apply andb_prop in T; destruct T as [T ?]).
  split; [apply negb_true_iff; exact T|]. repeat split; apply N.eqb_neq; apply negb_true_iff; assumption.
Qed.

Definition up_key_noquote (kv : N * N) : bool := negb (fst kv =? 39) && negb (fst kv =? 34).
Lemma up_keys_noquote : forallb up_key_noquote upper_ascii_tab = true.
Proof. vm_compute. reflexivity. Qed.
Lemma up_keynoquote : forall x u, upper x = Some u -> x <> 39 /\ x <> 34.
Proof.
  intros x u H. apply assoc_in in H. pose proof up_keys_noquote as T. rewrite forallb_forall in T. specialize (T _ H).
  unfold up_key_noquote in T. cbn [fst] in T. apply andb_prop in T. destruct T as [T1 T2].
  split; apply N.eqb_neq; apply negb_true_iff; assumption.
Qed.

Lemma up_vals_ascii : forallb (fun kv : N * N => snd kv <? 128) upper_ascii_tab = true.
Proof. vm_compute. reflexivity. Qed.
Lemma up_ascii : forall x u, upper x = Some u -> u < 128.
Proof.
  intros x u H. apply assoc_in in H. pose proof up_vals_ascii as T. rewrite forallb_forall in T. specialize (T _ H).
  cbn [snd] in T. apply N.ltb_lt. exact T.
Qed.

(* the back quote is not in the table either *)
Lemma up_tab_no96 : forallb (fun kv : N * N => negb (fst kv =? 96) && negb (snd kv =? 96)) upper_ascii_tab = true.
Proof. vm_compute. reflexivity. Qed.
Lemma up_keynobt : forall x u, upper x = Some u -> x <> 96.
Proof.
  intros x u H. apply assoc_in in H. pose proof up_tab_no96 as T. rewrite forallb_forall in T. specialize (T _ H).
  cbn [fst snd] in T. apply andb_prop in T. destruct T as [T _]. apply N.eqb_neq. apply negb_true_iff. exact T.
Qed.
Lemma up_nobt : forall x u, upper x = Some u -> u <> 96.
Proof.
  intros x u H. apply assoc_in in H. pose proof up_tab_no96 as T. rewrite forallb_forall in T. specialize (T _ H).
  cbn [fst snd] in T. apply andb_prop in T. destruct T as [_ T]. apply N.eqb_neq. apply negb_true_iff. exact T.
Qed.

(* the minus sign is neither a letter nor a digit nor a rune with an upper-case ASCII image: a line comment start
   never lies inside a word *)
Lemma nl45 : letter 45 = false. Proof. vm_compute. reflexivity. Qed.
Lemma nd45 : digit 45 = false. Proof. vm_compute. reflexivity. Qed.
Lemma up_keys_not45 : forallb (fun kv : N * N => negb (fst kv =? 45)) upper_ascii_tab = true.
Proof. vm_compute. reflexivity. Qed.
Lemma up_key45 : forall x u, upper x = Some u -> x <> 45.
Proof.
  intros x u H. apply assoc_in in H. pose proof up_keys_not45 as T. rewrite forallb_forall in T. specialize (T _ H).
  cbn [fst] in T. apply N.eqb_neq. apply negb_true_iff. exact T.
Qed.

(* the keyword table holds upper-case ASCII letters only (so that a converted keyword is a fixed point) *)
Lemma keywords_upper : forallb (forallb (fun b => (65 <=? b) && (b <=? 90))) keywords_tab = true.
Proof. vm_compute. reflexivity. Qed.

(* space and tab are spaces (formatSQL's indentation is removed again by TrimSpace) *)
Lemma space_32_9 : space 32 = true /\ space 9 = true /\ space 10 = true.
Proof. vm_compute. repeat split. Qed.

(* ---- refutations of the full preservation statement on the faithful model: concrete witnesses, evaluated (lib/c17.py
        replays each witness on the implementation) ---- *)
Definition rcode (v : list vtok) : list N :=
  flat_map (fun x => match x with VW => [0] | VC n => [1; n] | VL c => 2 :: cp c :: raw c end)%N v.
Ltac refute w := exists (decode w); let H := fresh "H" in (intro H; apply (f_equal rcode) in H; vm_compute in H; discriminate H).
(* trailing blanks inside a multi-line string literal are removed *)
Lemma refuted_l001 : exists t, reading space upper (l001_fix t) <> reading space upper t.
Proof. refute ([120; 32; 39; 97; 32; 32; 10; 98; 39]%N). Qed.
(* a leading tab on the second line of a string literal becomes four spaces *)
Lemma refuted_l002 : exists t, reading space upper (l002_fix t) <> reading space upper t.
Proof. refute ([39; 97; 10; 9; 98; 39]%N). Qed.
(* a blank line inside a string literal is removed *)
Lemma refuted_l003 : exists t, reading space upper (i_l003_fix t) <> reading space upper t.
Proof. refute ([39; 97; 10; 10; 10; 98; 39]%N). Qed.
(* repeated spaces on the second line of a string literal are collapsed *)
Lemma refuted_l010_string : exists t, reading space upper (l010_fix t) <> reading space upper t.
Proof. refute ([39; 97; 10; 98; 32; 32; 99; 39]%N). Qed.
(* repeated spaces on the second line of a back-quoted identifier are collapsed *)
Lemma refuted_l010_backtick : exists t, reading space upper (l010_fix t) <> reading space upper t.
Proof. refute ([96; 97; 10; 98; 32; 32; 99; 96]%N). Qed.
(* a keyword on the second line of a string literal is upper-cased *)
Lemma refuted_l007_string : exists t, reading space upper (i_l007_fix t) <> reading space upper t.
Proof. refute ([39; 97; 10; 115; 101; 108; 101; 99; 116; 39]%N). Qed.
(* a keyword on the second line of a back-quoted identifier is upper-cased *)
Lemma refuted_l007_backtick : exists t, reading space upper (i_l007_fix t) <> reading space upper t.
Proof. refute ([96; 97; 10; 115; 101; 108; 101; 99; 116; 96]%N). Qed.
(* repeated spaces inside a block comment are collapsed *)
Lemma refuted_l010_block_comment : exists t, reading space upper (l010_fix t) <> reading space upper t.
Proof. refute ([120; 32; 47; 42; 32; 97; 32; 32; 98; 32; 42; 47]%N). Qed.
(* a keyword inside a block comment is upper-cased *)
Lemma refuted_l007_block_comment : exists t, reading space upper (i_l007_fix t) <> reading space upper t.
Proof. refute ([120; 32; 47; 42; 32; 115; 101; 108; 101; 99; 116; 32; 42; 47]%N). Qed.
(* the CLI loop applies all of the above *)
Lemma refuted_cli : exists t, reading space upper (i_cli_fix t) <> reading space upper t.
Proof. refute ([39; 97; 32; 32; 10; 10; 10; 9; 115; 101; 108; 101; 99; 116; 32; 32; 120; 39]%N). Qed.
(* formatSQL trims the lines of a multi-line string literal *)
Lemma refuted_format : exists t, reading space upper (i_format 2 true false t) <> reading space upper t.
Proof. refute ([39; 97; 10; 32; 32; 98; 39]%N). Qed.
