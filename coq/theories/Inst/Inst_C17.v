(* Inst_C17.v — the lint model instantiated with the regenerated tables (Gen/LintTables.v), and the
   decidable facts about those tables that the generic theorems of Proofs/LintP.v assume. *)
From Coq Require Import List NArith Bool Arith Lia ZifyNat ZifyN.
From GV Require Import Model.Lint Proofs.LintP Gen.LintTables.
Import ListNotations.
Local Open Scope N_scope.

Definition letter := in_ranges letter_ranges.
Definition digit := in_ranges digit_ranges.
Definition space := in_ranges space_ranges.
Definition upper := assoc upper_ascii_tab.
(* the characters that start / continue the tag of a dollar-quoted string *)
Definition idstart := in_ranges idstart_ranges.
Definition idpart := in_ranges idpart_ranges.

Definition i_clines := clines idstart idpart.
Definition i_l001_fix := l001_fix idstart idpart.
Definition i_l001_check := l001_check idstart idpart.
Definition i_l002_fix := l002_fix idstart idpart.
Definition i_l002_check := l002_check idstart idpart.
Definition i_l010_fix := l010_fix idstart idpart.
Definition i_l010_check := l010_check idstart idpart.
Definition i_trim_space := trim_space space.
Definition i_l003_fix := l003_fix idstart idpart space.
Definition i_l003_check := l003_check idstart idpart space.
Definition i_l005_check := l005_check idstart idpart space.
Definition i_l007_fix := l007_fix idstart idpart letter digit upper keywords_tab.
Definition i_l007_check := l007_check idstart idpart letter digit upper keywords_tab.
Definition i_cli_fix := cli_fix idstart idpart letter digit space upper keywords_tab.
Definition i_format := format_sql idstart idpart space upper.

(* byte-level wrapper used by the correspondence cases *)
Definition onb (f : list ch -> list ch) (s : list N) : list N := encode (f (decode s)).

(* ---- facts about the regenerated tables (complete evaluation of finite tables) ---- *)

Definition plainNb (n : N) : bool :=
  negb (nq n =? 39) && negb (nq n =? 34) && negb (n =? 96) && negb (n =? 45) && negb (n =? 42) && negb (n =? 47) && negb (n =? 10) &&
  negb (n =? 36).
Lemma plainNb_spec : forall n, plainNb n = true -> plainN n.
Proof.
  intros n H. unfold plainNb in H. repeat (apply andb_prop in H; destruct H as [H ?]).
  unfold plainN. repeat split; apply N.eqb_neq; apply negb_true_iff; assumption.
Qed.

(* every entry (x, u) of the upper-case table: x and u are not delimiters of the scanner, u is a letter and its own image,
   x is not white space, x starts a tag and x and u continue one (they are letters) *)
Definition up_entry_ok (kv : N * N) : bool :=
  let x := fst kv in let u := snd kv in
  plainNb x && plainNb u && letter u && (u <? 128) &&
  match upper u with Some u' => u' =? u | None => false end &&
  negb (space x) && negb (x =? 32) && negb (x =? 9) && negb (x =? 10) && idstart x && idpart x && idpart u.

Lemma up_tab_ok : forallb up_entry_ok upper_ascii_tab = true.
Proof. vm_compute. reflexivity. Qed.

Lemma up_entry : forall x u, upper x = Some u -> up_entry_ok (x, u) = true.
Proof.
  intros x u H. apply assoc_in in H. pose proof up_tab_ok as T. rewrite forallb_forall in T. apply T. exact H.
Qed.

Ltac up_split H := unfold up_entry_ok in H; cbn [fst snd] in H; repeat (apply andb_prop in H; destruct H as [H ?]).

Lemma up_plain : forall x u, upper x = Some u -> plainN x /\ plainN u.
Proof.
  intros x u H. apply up_entry in H. up_split H. split; [|apply plainNb_spec; assumption].
  unfold plainN. repeat split; apply N.eqb_neq; apply negb_true_iff; assumption.
Qed.
Lemma up_id : up_tag idstart idpart upper.
Proof. intros x u H. apply up_entry in H. up_split H. repeat split; assumption. Qed.
Lemma up_letter : forall x u, upper x = Some u -> letter u = true.
Proof. intros x u H. apply up_entry in H. up_split H. assumption. Qed.
Lemma up_ascii : forall x u, upper x = Some u -> u < 128.
Proof. intros x u H. apply up_entry in H. up_split H. apply N.ltb_lt. assumption. Qed.
Lemma up_idem : forall x u, upper x = Some u -> upper u = Some u.
Proof.
  intros x u H. apply up_entry in H. up_split H.
  match goal with X : match upper u with _ => _ end = true |- _ => destruct (upper u) as [u'|]; [apply N.eqb_eq in X; subst; reflexivity|discriminate] end.
Qed.
Lemma up_nows : forall x u, upper x = Some u -> space x = false /\ x <> 32 /\ x <> 9 /\ x <> 10.
Proof.
  intros x u H. apply up_entry in H. up_split H.
  repeat split; try (apply N.eqb_neq); apply negb_true_iff; assumption.
Qed.

(* the keyword table holds upper-case ASCII letters only (so that a converted keyword is a fixed point) *)
Lemma keywords_upper : forallb (forallb (fun b => (65 <=? b) && (b <=? 90))) keywords_tab = true.
Proof. vm_compute. reflexivity. Qed.

(* space, tab and newline are spaces; the delimiters of the scanner are not *)
Lemma space_32_9 : space 32 = true /\ space 9 = true /\ space 10 = true.
Proof. vm_compute. repeat split. Qed.
(* the points of a range table *)
Fixpoint pts (rs : list (N * N)) : list N :=
  match rs with
  | [] => []
  | (lo, hi) :: t => map (fun k => lo + N.of_nat k) (seq 0 (S (N.to_nat (hi - lo)))) ++ pts t
  end.
Lemma in_ranges_pts : forall rs x, in_ranges rs x = true -> In x (pts rs).
Proof.
  induction rs as [|[lo hi] t IH]; intros x H; [discriminate|]. cbn [in_ranges pts] in *. apply in_or_app.
  destruct (x <? lo) eqn:E1; [discriminate|]. destruct (x <=? hi) eqn:E2; [left|right; apply IH; exact H].
  apply N.ltb_ge in E1. apply N.leb_le in E2. apply in_map_iff. exists (N.to_nat (x - lo)). split; [lia|]. apply in_seq. lia.
Qed.
(* the line break, the space and the tab do not continue a tag; no white space character does *)
Lemma id_facts : id_ok idpart.
Proof. vm_compute. repeat split. Qed.
Lemma space_not_tag : forall n, space n = true -> idpart n = false.
Proof.
  intros n H. apply in_ranges_pts in H.
  assert (A : forallb (fun x => negb (idpart x)) (pts space_ranges) = true) by (vm_compute; reflexivity).
  rewrite forallb_forall in A. apply negb_true_iff. apply A. exact H.
Qed.
Lemma sp_nodelim : sp_ok idpart space.
Proof. unfold sp_ok. do 13 (split; [vm_compute; reflexivity|]). exact space_not_tag. Qed.
