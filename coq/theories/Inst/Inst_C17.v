(* Inst_C17.v — the lint model instantiated with the regenerated tables (Gen/LintTables.v), and the
   decidable facts about those tables that the generic theorems of Proofs/LintP.v assume. *)
From Coq Require Import List NArith Bool.
From GV Require Import Model.Lint Gen.LintTables.
Import ListNotations.
Local Open Scope N_scope.

Definition letter := in_ranges letter_ranges.
Definition digit := in_ranges digit_ranges.
Definition space := in_ranges space_ranges.
Definition upper := assoc upper_ascii_tab.

Definition i_trim_space := trim_space space.
Definition i_l003_fix := l003_fix space.
Definition i_l003_check := l003_check space.
Definition i_l005_check := l005_check space.
Definition i_l007_fix := l007_fix letter digit upper keywords_tab.
Definition i_l007_check := l007_check letter digit upper keywords_tab.
Definition i_cli_fix := cli_fix letter digit space upper keywords_tab.
Definition i_format := format_sql space upper.

(* byte-level wrappers used by the correspondence cases *)
Definition onb (f : list ch -> list ch) (s : list N) : list N := encode (f (decode s)).
Definition fix_case (f : list ch -> list ch) (c : list N * list N) : bool := nlist_eqb (onb f (fst c)) (snd c).
Definition chk_case (f : list ch -> list viol) (c : list N * list (N * N)) : bool :=
  vlist_eqb (viols_N (f (decode (fst c)))) (snd c).
