(* Inst_C19.v — the decidable shape hypotheses, on the protocol observed from the current binary
   (Gen/WriteProto.v), by complete evaluation. *)
From Coq Require Import List NArith Bool.
From GV Require Import Model.FileRepl Proofs.FileReplP Gen.WriteProto.
Import ListNotations.

(* the calls of a successful in-place rewrite have the temp-file + rename shape and stage exactly the new content *)
Lemma fmt_ok_atomic : atomic_shapeb 1%N fmt_new fmt_ok = true.
Proof. vm_compute. reflexivity. Qed.
Lemma lint_ok_atomic : atomic_shapeb 1%N lint_new lint_ok = true.
Proof. vm_compute. reflexivity. Qed.

(* the runs in which the write failed or the process was killed never issue a call on the target *)
Lemma fmt_fail_untouched : forallb (untouched_shapeb 1%N) fmt_fail = true.
Proof. vm_compute. reflexivity. Qed.
Lemma lint_fail_untouched : forallb (untouched_shapeb 1%N) lint_fail = true.
Proof. vm_compute. reflexivity. Qed.

Lemma observed_failures_keep_old : forall proto s,
  In proto (fmt_fail ++ lint_fail) ->
  forall i k, lookup 1%N (crash_at proto i k s) = lookup 1%N s.
Proof.
  intros proto s Hin i k. apply untouched_keeps.
  apply in_app_or in Hin. destruct Hin as [H|H].
  - exact (proj1 (forallb_forall _ _) fmt_fail_untouched proto H).
  - exact (proj1 (forallb_forall _ _) lint_fail_untouched proto H).
Qed.
