(* Instance lemmas for C02 (nesting): on the call graph regenerated from SSA, every call edge that does not
   enter a depth guard strictly decreases the rank witness — the parser's call graph minus guard entries is
   acyclic — and every function that touches the depth counter is a complete guard. *)
From Coq Require Import List NArith Bool.
From GV Require Import Model.Walk Model.CallGraph Gen.CallGraphTable.
Import ListNotations.

Lemma parser_rank_ok : rank_ok parser_edges parser_guards parser_known parser_ranks = true.
Proof. vm_compute. reflexivity. Qed.

(* every function that increments the depth counter also defers the decrement and checks the limit *)
Lemma parser_depth_bookkeeping :
  parser_depth_inc = parser_guards /\ parser_depth_defer_dec = parser_guards.
Proof. split; reflexivity. Qed.

Lemma tokenizer_rank_ok : rank_ok tokenizer_edges tokenizer_guards tokenizer_known tokenizer_ranks = true.
Proof. vm_compute. reflexivity. Qed.
