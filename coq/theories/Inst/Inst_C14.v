(* Instance lemmas for C14: the decidable hypotheses of the generic traversal theorems, evaluated
   completely on the tables regenerated from the current source. *)
From Coq Require Import List NArith Bool.
From GV Require Import Model.Walk Gen.ChildrenTable.
Import ListNotations.

Lemma cover_ok : cover_except fields emitted known = true.
Proof. vm_compute. reflexivity. Qed.

Lemma within_ok : within fields emitted = true.
Proof. vm_compute. reflexivity. Qed.

Lemma known_are_gaps_ok : known_are_gaps emitted known = true.
Proof. vm_compute. reflexivity. Qed.

Lemma no_foreign_children : extras = [].
Proof. reflexivity. Qed.

Lemma no_typed_nil_children : typed_nil = [].
Proof. reflexivity. Qed.

Lemma all_slots_probed : unplanted = [].
Proof. reflexivity. Qed.
