(* Inst_C04.v — decidable facts about the regenerated lexical tables (Gen/LexTables.v), each a complete evaluation
   of a finite table by vm_compute.  The lexer proofs use the tables only through these facts. *)
From Coq Require Import List NArith Bool.
From GV Require Import Gen.LexTables Model.Lexer.
Import ListNotations.
Local Open Scope N_scope.

(* no keyword or compound keyword has the type of the end-of-input marker *)
Lemma keywords_not_eof : forallb (fun kv => negb (snd kv =? TT_EOF)) keywords = true.
Proof. vm_compute; reflexivity. Qed.
Lemma compound_not_eof : forallb (fun kv => negb (snd kv =? TT_EOF)) compound_keywords = true.
Proof. vm_compute; reflexivity. Qed.

(* every fixed token type the tokenizer emits differs from EOF *)
Definition emitted_types : list N :=
  [TT_Number; TT_Identifier; TT_Placeholder; TT_Keyword; TT_String; TT_SingleQuotedString; TT_DoubleQuotedString;
   TT_TripleSingleQuotedString; TT_TripleDoubleQuotedString; TT_DollarQuotedString; TT_LeftParen; TT_RightParen;
   TT_LBracket; TT_RBracket; TT_Comma; TT_Semicolon; TT_Dot; TT_Plus; TT_Minus; TT_LongArrow; TT_Arrow; TT_Mul; TT_Div;
   TT_RArrow; TT_Eq; TT_LtEq; TT_Neq; TT_ArrowAt; TT_Lt; TT_GtEq; TT_Gt; TT_ExclamationMarkTildeAsterisk;
   TT_ExclamationMarkTilde; TT_ExclamationMark; TT_DoubleColon; TT_Colon; TT_Mod; TT_StringConcat; TT_Pipe; TT_Overlap;
   TT_Ampersand; TT_AtArrow; TT_AtAt; TT_AtSign; TT_HashLongArrow; TT_HashArrow; TT_HashMinus; TT_Sharp; TT_QuestionPipe;
   TT_QuestionAnd; TT_Question; TT_TildeAsterisk; TT_Tilde].
Lemma emitted_not_eof : forallb (fun t => negb (t =? TT_EOF)) emitted_types = true.
Proof. vm_compute; reflexivity. Qed.

(* rune classes on ASCII: identifier start = letters and '_', identifier part = letters, digits and '_' *)
Definition ascii_start (b : N) : bool := in_rng 65 90 b || in_rng 97 122 b || (b =? 95).
Definition ascii_part (b : N) : bool := ascii_start b || in_rng 48 57 b.
Definition upto128 : list N := map N.of_nat (seq 0 128).
Lemma ident_start_ascii : forallb (fun b => Bool.eqb (is_ident_start b) (ascii_start b)) upto128 = true.
Proof. vm_compute; reflexivity. Qed.
Lemma ident_part_ascii : forallb (fun b => Bool.eqb (is_ident_part b) (ascii_part b)) upto128 = true.
Proof. vm_compute; reflexivity. Qed.
(* quote tables do not touch ASCII *)
Lemma normalize_ascii : forallb (fun b => normalize_quote b =? b) upto128 = true.
Proof. vm_compute; reflexivity. Qed.
Lemma unicode_quote_ascii : forallb (fun b => negb (is_unicode_quote b)) upto128 = true.
Proof. vm_compute; reflexivity. Qed.

(* the kinds of quoted identifiers are not keyword kinds *)
Lemma dq_not_keyword : forallb (fun kv => negb (snd kv =? TT_DoubleQuotedString)) (keywords ++ compound_keywords) = true.
Proof. vm_compute; reflexivity. Qed.
Lemma ident_not_keyword : forallb (fun kv => negb (snd kv =? TT_Identifier)) (keywords ++ compound_keywords) = true.
Proof. vm_compute; reflexivity. Qed.
(* dispatch facts for the two ASCII identifier quotes *)
Lemma dispatch_dq : is_ident_start 34 = false /\ is_digit 34 = false /\ normalize_quote 34 = 34.
Proof. vm_compute; auto. Qed.
Lemma dispatch_bt : is_ident_start 96 = false /\ is_digit 96 = false /\ is_unicode_quote 96 = false.
Proof. vm_compute; auto. Qed.

(* dispatch facts for the single-quote family of nextToken (', U+2018, U+2019, U+00AB, U+00BB): none of them is an
   identifier start, a digit, a double quote or the back-tick *)
Definition sq_family : list N := [39; 8216; 8217; 171; 187].
Lemma sq_family_dispatch :
  forallb (fun q => negb (is_ident_start q) && negb (is_digit q) && negb (q =? 34) && negb (is_unicode_quote q) &&
                    negb (q =? 96) && is_single_quote_family q) sq_family = true.
Proof. vm_compute; reflexivity. Qed.
(* the quote normalisation table: keys are scalar values, images are the two ASCII quotes *)
Lemma normalize_table_ok :
  forallb (fun kv => ((fst kv <? 55296) || ((57343 <? fst kv) && (fst kv <? 1114112))) && (128 <=? fst kv) &&
                     ((snd kv =? 39) || (snd kv =? 34))) normalize_quote_table = true.
Proof. vm_compute; reflexivity. Qed.
(* two-word keywords: every first word listed in compound_starts is a keyword and contains no blank; every word of
   every compound keyword is a keyword; every compound key contains a blank; compound kinds are keyword kinds only *)
Fixpoint split_blank (acc v : list N) : list (list N) :=
  match v with
  | [] => [acc]
  | b :: tl => if b =? 32 then acc :: split_blank [] tl else split_blank (acc ++ [b]) tl
  end.
Lemma compound_starts_ok :
  forallb (fun k => negb (existsb (N.eqb 32) k) && match assoc_b keywords k with Some _ => true | None => false end)
          compound_starts = true.
Proof. vm_compute; reflexivity. Qed.
Lemma compound_words_ok :
  forallb (fun kv => existsb (N.eqb 32) (fst kv) &&
                     forallb (fun w => match assoc_b keywords w with Some _ => true | None => false end)
                             (split_blank [] (fst kv))) compound_keywords = true.
Proof. vm_compute; reflexivity. Qed.
(* the upper-casing exceptions map to ASCII letters (never to a blank) *)
Lemma upper_special_ok : forallb (fun kv => negb (snd kv =? 32)) upper_special = true.
Proof. vm_compute; reflexivity. Qed.
(* kinds of the lexemes that are not words are not keyword kinds *)
Definition nonword_types : list N :=
  [TT_Number; TT_Placeholder; TT_DollarQuotedString; TT_LeftParen; TT_RightParen;
   TT_LBracket; TT_RBracket; TT_Comma; TT_Semicolon; TT_Dot; TT_Plus; TT_Minus; TT_LongArrow; TT_Arrow; TT_Mul; TT_Div;
   TT_RArrow; TT_Eq; TT_LtEq; TT_Neq; TT_ArrowAt; TT_Lt; TT_GtEq; TT_Gt; TT_ExclamationMarkTildeAsterisk;
   TT_ExclamationMarkTilde; TT_ExclamationMark; TT_DoubleColon; TT_Colon; TT_Mod; TT_StringConcat; TT_Pipe; TT_Overlap;
   TT_Ampersand; TT_AtArrow; TT_AtAt; TT_AtSign; TT_HashLongArrow; TT_HashArrow; TT_HashMinus; TT_Sharp; TT_QuestionPipe;
   TT_QuestionAnd; TT_Question; TT_TildeAsterisk; TT_Tilde].
Lemma nonword_not_keyword :
  forallb (fun ty => forallb (fun kv => negb (snd kv =? ty)) (keywords ++ compound_keywords)) nonword_types = true.
Proof. vm_compute; reflexivity. Qed.
(* blank, '$' and the ASCII bytes that are not letters, digits or '_' are not identifier characters: by the ASCII
   class lemmas above *)
