(* Instance lemmas for C10 (metrics): every Record* function of pkg/metrics and pkg/sql/monitor, as translated
   from the current source into Gen/MetricsProg.v, has the accepted shape for every location it touches:
   counters are only atomically added to (or updated inside the struct's mutex), the largest / smallest query
   size are updated by the compare-and-swap loop of Model/Metrics.v (cas_prog with max_skip / min_skip) — not by
   load-compare-store —, time stamps are only stored, and no statement was left untranslated. *)
From Coq Require Import List ZArith NArith Bool Lia.
From GV Require Import Model.Metrics Gen.MetricsProg Model.Footprint Gen.Globals.
Import ListNotations.

Lemma metrics_progs_ok : forallb (prog_ok metrics_roles) metrics_progs = true.
Proof. vm_compute. reflexivity. Qed.

Lemma monitor_progs_ok : forallb (prog_ok monitor_roles) monitor_progs = true.
Proof. vm_compute. reflexivity. Qed.

(* which of the two recognised programs the source is: the CAS loop *)
Lemma max_update_is_cas_loop :
  In {| s_cond := CTrue; s_loc := metrics_pub_MaxQuerySize; s_body := BRmw (cas_prog (max_skip (EArg 1)) (EArg 1)) |}
     metrics_RecordTokenization.
Proof. vm_compute. tauto. Qed.

Lemma min_update_is_cas_loop :
  In {| s_cond := CTrue; s_loc := metrics_pub_MinQuerySize; s_body := BRmw (cas_prog (min_skip (EArg 1)) (EArg 1)) |}
     metrics_RecordTokenization.
Proof. vm_compute. tauto. Qed.

(* what one call contributes / records, read off the translated program (arguments: duration, querySize, err) *)
Local Open Scope Z_scope.
Lemma tokenization_contributes : forall d n e rest,
  let t := start metrics_RecordTokenization (d :: n :: e :: rest) in
  contrib_total metrics_pub_TokenizeOperations t = 1 /\
  contrib_total metrics_pub_TotalBytesProcessed t = n /\
  contrib_total metrics_pub_TokenizeErrors t = (if e =? 0 then 0 else 1) /\
  contrib_total metrics_pub_ErrorsByType t = (if e =? 0 then 0 else 1) /\
  recorded_total metrics_pub_MaxQuerySize t = [n] /\
  recorded_total metrics_pub_MinQuerySize t = [n].
Proof.
  intros d n e rest. cbv [start contrib_total recorded_total t_secs t_args]. cbn.
  unfold nthZ; cbn. destruct (e =? 0); cbn; repeat split; lia.
Qed.

Lemma parse_contributes : forall d n e rest,
  let t := start metrics_RecordParse (d :: n :: e :: rest) in
  contrib_total metrics_pub_ParseOperations t = 1 /\
  contrib_total metrics_pub_StatementsCreated t = n /\
  contrib_total metrics_pub_ParseErrors t = (if e =? 0 then 0 else 1).
Proof.
  intros d n e rest. cbv [start contrib_total t_secs t_args]. cbn.
  unfold nthZ; cbn. destruct (e =? 0); cbn; repeat split; lia.
Qed.

(* footprint: every pair of access sites of the regenerated table that touch the same cell, one of them writing,
   is ordered by initialisation, by a common mutex (one side holding it for writing), by a sync.Once, or consists of
   two operations of synchronisation primitives (sync/atomic, sync.Pool, sync.Once, sync.Map, mutexes) — except on
   the cells listed as known findings *)
Lemma globals_ok : table_ok known_cells sites = true.
Proof. vm_compute. reflexivity. Qed.
