(* Instance lemmas for C10 (metrics): every Record* function of pkg/metrics and pkg/sql/monitor, as translated
   from the current source into Gen/MetricsProg.v, has the accepted shape for every location it touches:
   counters are only atomically added to (or updated inside the struct's mutex), the largest / smallest query
   size are updated by a compare-and-swap retry loop (the class Model.Metrics.is_rmw_loop, decided on the translated
   control-flow graph) — not by load-compare-store, a single attempt or a plain store —, time stamps are only stored, and no statement was left untranslated. *)
From Coq Require Import List ZArith NArith Bool Lia.
From GV Require Import Model.Metrics Gen.MetricsProg Model.Footprint Gen.Globals Model.LockOrder Gen.LockTable.
Import ListNotations.

Lemma metrics_progs_ok : forallb (prog_ok metrics_roles) metrics_progs = true.
Proof. vm_compute. reflexivity. Qed.

Lemma monitor_progs_ok : forallb (prog_ok monitor_roles) monitor_progs = true.
Proof. vm_compute. reflexivity. Qed.

(* the update of the largest / smallest query size in the source: an unconditional section on the location behind
   Stats.MaxQuerySize / Stats.MinQuerySize whose program is in the class of compare-and-swap retry loops
   (Model.Metrics.is_rmw_loop: whatever the loop is written like) and records the query size (argument 1) *)
Definition is_size_update (o : ospec) (l : loc) (s : section) : bool :=
  N.eqb (s_loc s) l &&
  match s_cond s, s_body s with
  | CTrue, BRmw p => is_rmw_loop o p (EArg 1) && match operand p with Some v => expr_eqb v (EArg 1) | None => false end
  | _, _ => false
  end.

Lemma max_update_is_rmw_loop : existsb (is_size_update max_spec metrics_pub_MaxQuerySize) metrics_RecordTokenization = true.
Proof. vm_compute. reflexivity. Qed.

Lemma min_update_is_rmw_loop : existsb (is_size_update min_spec metrics_pub_MinQuerySize) metrics_RecordTokenization = true.
Proof. vm_compute. reflexivity. Qed.

(* what one call contributes / records, read off the translated program (arguments: duration, querySize, err) *)
Local Open Scope Z_scope.
Lemma tokenization_contributes : forall d n e rest,
  let t := start metrics_RecordTokenization (d :: n :: e :: rest) in
  contrib_total metrics_pub_TokenizeOperations t = 1 /\
  contrib_total metrics_pub_TotalBytesProcessed t = n /\
  contrib_total metrics_pub_TokenizeErrors t = (if e =? 0 then 0 else 1) /\
  contrib_total metrics_pub_ErrorsByType t = (if e =? 0 then 0 else 1) /\
  recorded_total metrics_pub_MaxQuerySize t = [n] /\
  recorded_total metrics_pub_MinQuerySize t = [n].
Proof.
  intros d n e rest. cbv [start contrib_total recorded_total t_secs t_args]. cbn.
  unfold nthZ; cbn. destruct (e =? 0); cbn; repeat split; lia.
Qed.

Lemma parse_contributes : forall d n e rest,
  let t := start metrics_RecordParse (d :: n :: e :: rest) in
  contrib_total metrics_pub_ParseOperations t = 1 /\
  contrib_total metrics_pub_StatementsCreated t = n /\
  contrib_total metrics_pub_ParseErrors t = (if e =? 0 then 0 else 1).
Proof.
  intros d n e rest. cbv [start contrib_total t_secs t_args]. cbn.
  unfold nthZ; cbn. destruct (e =? 0); cbn; repeat split; lia.
Qed.

(* footprint: every pair of access sites of the regenerated table that touch the same cell, one of them writing,
   is ordered by initialisation, by a common mutex (one side holding it for writing), by a sync.Once, or consists of
   two operations of synchronisation primitives (sync/atomic, sync.Pool, sync.Once, sync.Map, mutexes) — except on
   the cells listed as known findings *)
Lemma globals_ok : table_ok known_cells sites = true.
Proof. vm_compute. reflexivity. Qed.

(* lock discipline: the rank witness (a topological order computed by lib/gen10.py) puts, at every Lock / RLock site of
   the regenerated acquisition table, the acquired mutex strictly above every mutex that may be held there: no mutex is
   taken while it may already be held (in any mode), and the order "held before acquired" has no cycle *)
Lemma lock_order_ok : acq_table_ok lock_ranks acquisitions = true.
Proof. vm_compute. reflexivity. Qed.

(* no entry point of the library (exported function / method, function used as a value) may return to its caller while a
   mutex it took is still held: every return path unlocks, or the unlock is deferred *)
Lemma no_lock_leak_ok : no_lock_leak lock_exits = true.
Proof. vm_compute. reflexivity. Qed.
