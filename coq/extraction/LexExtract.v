(* extraction of the lexer model to OCaml (ExtrOcamlBasic only; N, positive and nat stay inductive) *)
From Coq Require Import Extraction ExtrOcamlBasic.
From GV Require Import Model.Lexer.
Extraction Language OCaml.
Extraction "lexmodel.ml" run_canon run_canon_with.
