(* driver of the extracted lexer model: one hex-encoded input per line on stdin, one canonical number list per
   line on stdout (same flattening as the Go harness `vh lex`).  Optional args: max_in max_tok *)
open Lexmodel

let rec pos_of_int (i : int) : positive =
  if i = 1 then XH else if i land 1 = 1 then XI (pos_of_int (i lsr 1)) else XO (pos_of_int (i lsr 1))
let n_of_int (i : int) : n = if i = 0 then N0 else Npos (pos_of_int i)
let rec int_of_pos (p : positive) : int =
  match p with XH -> 1 | XO q -> 2 * int_of_pos q | XI q -> 2 * int_of_pos q + 1
let int_of_n (x : n) : int = match x with N0 -> 0 | Npos p -> int_of_pos p

let hexval c =
  match c with
  | '0' .. '9' -> Char.code c - 48
  | 'a' .. 'f' -> Char.code c - 87
  | 'A' .. 'F' -> Char.code c - 55
  | _ -> failwith "bad hex"

let bytes_of_hex (s : string) : n list =
  let len = String.length s / 2 in
  let rec go i acc = if i < 0 then acc else go (i - 1) (n_of_int (hexval s.[2 * i] * 16 + hexval s.[2 * i + 1]) :: acc) in
  go (len - 1) []

let () =
  let limits =
    if Array.length Sys.argv >= 3 then Some (n_of_int (int_of_string Sys.argv.(1)), n_of_int (int_of_string Sys.argv.(2)))
    else None in
  let buf = Buffer.create 4096 in
  (try
     while true do
       let line = String.trim (input_line stdin) in
       let inp = bytes_of_hex line in
       let res = match limits with None -> run_canon inp | Some (a, b) -> run_canon_with a b inp in
       Buffer.clear buf;
       List.iter (fun x -> Buffer.add_string buf (string_of_int (int_of_n x)); Buffer.add_char buf ' ') res;
       print_endline (Buffer.contents buf)
     done
   with End_of_file -> ())
