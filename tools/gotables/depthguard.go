package main

// depthguard: semantic recogniser of recursion-depth guards on SSA (C02; its result also feeds the C08 field-effect
// table).  Nothing here depends on identifier names: the counter is found by the ROLE a field plays.
//
// Counter candidates: an integer field F of a struct of the package such that, somewhere in the package,
//   (r1) F is stored as F+1,  (r2) a function whose body steps F by -1 is the callee of a `defer`,
//   (r3) a load of F is compared (<, <=, >, >=) with a constant.
//
// For a candidate F every function fn of the package is abstractly executed (forward data flow over its CFG, the
// branch condition refining the state per outgoing EDGE).  The abstract state is
//   inc    net number of +1/-1 steps applied to F since entry (0, 1, or "unknown")
//   def    number of registered deferred decrements of F (0, 1, or "unknown")
//   within "F <= L holds for the current value of F" with the bound L (a must-fact: joined with AND / max)
//   pend   the still untested error result of a helper whose effect depends on that result being nil
// Calls to non-recursive methods of the same receiver that (transitively) write F are replaced by the SUMMARY of
// the callee, computed by the same abstract execution (nesting at most 2 levels): per return, the net step, the
// established bound and whether the returned error is definitely nil / definitely non-nil.
//
//	touches(fn)  fn steps F (directly, through a helper, or through a deferred callee), or assigns F while being
//	             on / reachable from a cycle of the call graph
//	balanced(fn) on every return inc = def (and both known): every step is taken back, by a deferred decrement
//	             registered on that path or by an explicit decrement
//	guard(fn)    balanced(fn), and at every call from which a cycle of the call graph is reachable (and at every
//	             call through a function value): inc = 1, def = 1, within with L <= MaxRecursionDepth
//
// The "within" side of a comparison is computed from operator, operand order and negation; for `err != nil` on the
// result of a helper it is the nil side, provided the helper's summary says that the nil return has stepped F by +1
// and established the bound.  Helpers (non-recursive, unexported, summarisable) are not reported themselves: their
// callers are judged with the summary in place of the call.
import (
	"fmt"
	"os"
	"go/constant"
	"go/token"
	"go/types"
	"sort"

	"golang.org/x/tools/go/ssa"
)

const dgTop = 99

type dgPend struct {
	val        ssa.Value // the call
	errIdx     int       // index of the error result in the call's tuple, -1: the call value is the error
	dNil, dErr int       // net step still to be applied on the nil / non-nil side
	withinNil  bool
	lNil       int64
}

type dgState struct {
	reached  bool
	inc, def int
	within   bool
	l        int64
	pend     *dgPend
}

type dgRet struct {
	nilness  int // 0 no error result, 1 definitely nil, 2 definitely non-nil, 3 unknown
	inc, def int
	within   bool
	l        int64
}

type dgSummary struct {
	split        bool // net step depends on the nil-ness of the returned error
	net          int  // !split
	dNil, dErr   int  // split
	hasErr       bool // an error result with definite nil-ness on every return
	errIdx       int
	within       bool // established on every return (no error result) / on every nil return (hasErr)
	l            int64
}

type dgResult struct {
	events   bool // a step of F, a helper call with an effect on F, or a deferred callee stepping F
	assigns  bool // a store to F that is not a step
	sawInc   bool
	balanced bool
	recOK    bool
	nRec     int
	limit    int64 // largest bound L seen at a recursive call
	rets     []dgRet
	valid    bool // no recursive call sites inside (required of helpers)
}

type depthInfo struct {
	Owner    *types.Named
	Field    *types.Var
	Index    int
	Touches  map[*ssa.Function]bool
	Balanced map[*ssa.Function]bool
	Guard    map[*ssa.Function]bool
	Helpers  map[*ssa.Function]bool
	Limits   map[*ssa.Function]int64
}

type dgAn struct {
	prog       *ssa.Program
	pkg        *ssa.Package
	f          *types.Var
	limit      int64 // MaxRecursionDepth, -1 unknown
	canRecurse map[string]bool
	writes     map[*ssa.Function]bool
	steps      map[*ssa.Function]bool // transitively contains a +1/-1 step of F
	sums       map[*ssa.Function]*dgSummary
	sumDone    map[*ssa.Function]bool
}

func pkgFuncs(prog *ssa.Program, spkg *ssa.Package) []*ssa.Function {
	seen := map[*ssa.Function]bool{}
	var fns []*ssa.Function
	var add func(f *ssa.Function)
	add = func(f *ssa.Function) {
		if f == nil || seen[f] || len(f.Blocks) == 0 || f.Pkg != spkg {
			return
		}
		seen[f] = true
		fns = append(fns, f)
		for _, an := range f.AnonFuncs {
			add(an)
		}
	}
	for _, m := range spkg.Members {
		if f, ok := m.(*ssa.Function); ok {
			add(f)
		}
		if t, ok := m.(*ssa.Type); ok {
			for _, ty := range []types.Type{t.Type(), types.NewPointer(t.Type())} {
				ms := prog.MethodSets.MethodSet(ty)
				for i := 0; i < ms.Len(); i++ {
					add(prog.MethodValue(ms.At(i)))
				}
			}
		}
	}
	sort.Slice(fns, func(i, j int) bool { return fns[i].String() < fns[j].String() })
	return fns
}

func fieldVarOf(v ssa.Value) *types.Var {
	fa, ok := v.(*ssa.FieldAddr)
	if !ok {
		return nil
	}
	st, ok := deref(fa.X.Type()).Underlying().(*types.Struct)
	if !ok {
		return nil
	}
	return st.Field(fa.Field)
}

func isInt1(v ssa.Value) bool {
	c, ok := v.(*ssa.Const)
	return ok && c.Value != nil && c.Value.Kind() == constant.Int && constant.Compare(c.Value, token.EQL, constant.MakeInt64(1))
}

// stepOf: st is  F = F + 1  (+1),  F = F - 1  (-1); 0 otherwise
func stepOf(st *ssa.Store, f *types.Var) int {
	bo, ok := st.Val.(*ssa.BinOp)
	if !ok || !isInt1(bo.Y) {
		return 0
	}
	u, ok := bo.X.(*ssa.UnOp)
	if !ok || u.Op != token.MUL || fieldVarOf(u.X) != f {
		return 0
	}
	switch bo.Op {
	case token.ADD:
		return 1
	case token.SUB:
		return -1
	}
	return 0
}

func deferCallee(d *ssa.Defer) *ssa.Function {
	switch v := d.Call.Value.(type) {
	case *ssa.MakeClosure:
		if f, ok := v.Fn.(*ssa.Function); ok {
			return f
		}
	case *ssa.Function:
		return v
	}
	return nil
}

func relOp(op token.Token) bool {
	return op == token.GTR || op == token.GEQ || op == token.LSS || op == token.LEQ
}

// counterCandidates: the fields of the package's structs that play all three roles
func counterCandidates(fns []*ssa.Function) []*types.Var {
	type roles struct{ inc, cmp, deferDec bool }
	rs := map[*types.Var]*roles{}
	get := func(f *types.Var) *roles {
		if rs[f] == nil {
			rs[f] = &roles{}
		}
		return rs[f]
	}
	decIn := map[*ssa.Function]map[*types.Var]bool{}
	for _, fn := range fns {
		for _, b := range fn.Blocks {
			for _, ins := range b.Instrs {
				switch x := ins.(type) {
				case *ssa.Store:
					f := fieldVarOf(x.Addr)
					if f == nil {
						continue
					}
					if bt, ok := f.Type().Underlying().(*types.Basic); !ok || bt.Info()&types.IsInteger == 0 {
						continue
					}
					switch stepOf(x, f) {
					case 1:
						get(f).inc = true
					case -1:
						if decIn[fn] == nil {
							decIn[fn] = map[*types.Var]bool{}
						}
						decIn[fn][f] = true
					}
				case *ssa.BinOp:
					if !relOp(x.Op) {
						continue
					}
					for _, pr := range [][2]ssa.Value{{x.X, x.Y}, {x.Y, x.X}} {
						u, ok := pr[0].(*ssa.UnOp)
						if !ok || u.Op != token.MUL {
							continue
						}
						if f := fieldVarOf(u.X); f != nil {
							if c, ok := pr[1].(*ssa.Const); ok && c.Value != nil && c.Value.Kind() == constant.Int {
								get(f).cmp = true
							}
						}
					}
				}
			}
		}
	}
	// the decrement may sit in a callee of the deferred function (helpers of helpers): two levels of static callees
	for level := 0; level < 2; level++ {
		add := map[*ssa.Function]map[*types.Var]bool{}
		for _, fn := range fns {
			for _, b := range fn.Blocks {
				for _, ins := range b.Instrs {
					c, ok := ins.(*ssa.Call)
					if !ok {
						continue
					}
					if sc := c.Call.StaticCallee(); sc != nil && len(decIn[sc]) > 0 {
						if add[fn] == nil {
							add[fn] = map[*types.Var]bool{}
						}
						for f := range decIn[sc] {
							add[fn][f] = true
						}
					}
				}
			}
		}
		for fn, fs := range add {
			if decIn[fn] == nil {
				decIn[fn] = map[*types.Var]bool{}
			}
			for f := range fs {
				decIn[fn][f] = true
			}
		}
	}
	for _, fn := range fns {
		for _, b := range fn.Blocks {
			for _, ins := range b.Instrs {
				if d, ok := ins.(*ssa.Defer); ok {
					if g := deferCallee(d); g != nil {
						for f := range decIn[g] {
							get(f).deferDec = true
						}
					}
				}
			}
		}
	}
	var out []*types.Var
	for f, r := range rs {
		if r.inc && r.cmp && r.deferDec {
			out = append(out, f)
		}
	}
	sort.Slice(out, func(i, j int) bool { return out[i].Pos() < out[j].Pos() })
	return out
}

func (an *dgAn) isF(v ssa.Value) bool { return fieldVarOf(v) == an.f }

// computeWrites: functions that (transitively, through static callees and closures they create) store to F
func (an *dgAn) computeWrites(fns []*ssa.Function) {
	an.writes = map[*ssa.Function]bool{}
	an.steps = map[*ssa.Function]bool{}
	callees := map[*ssa.Function][]*ssa.Function{}
	for _, fn := range fns {
		for _, b := range fn.Blocks {
			for _, ins := range b.Instrs {
				switch x := ins.(type) {
				case *ssa.Store:
					if an.isF(x.Addr) {
						an.writes[fn] = true
						if stepOf(x, an.f) != 0 {
							an.steps[fn] = true
						}
					}
				case *ssa.MakeClosure:
					if g, ok := x.Fn.(*ssa.Function); ok {
						callees[fn] = append(callees[fn], g)
					}
				case ssa.CallInstruction:
					if sc := x.Common().StaticCallee(); sc != nil && sc.Pkg == an.pkg {
						callees[fn] = append(callees[fn], sc)
					}
				case *ssa.FieldAddr:
					if an.isF(x) && addrEscapes(x) {
						an.writes[fn] = true
					}
				}
			}
		}
	}
	for changed := true; changed; {
		changed = false
		for _, fn := range fns {
			for _, g := range callees[fn] {
				if an.writes[g] && !an.writes[fn] {
					an.writes[fn] = true
					changed = true
				}
				if an.steps[g] && !an.steps[fn] {
					an.steps[fn] = true
					changed = true
				}
			}
		}
	}
}

// addrEscapes: the address of the field is used other than as the target of a store or the source of a load
func addrEscapes(fa *ssa.FieldAddr) bool {
	refs := fa.Referrers()
	if refs == nil {
		return false
	}
	for _, r := range *refs {
		switch y := r.(type) {
		case *ssa.Store:
			if y.Addr != fa {
				return true
			}
		case *ssa.UnOp:
			if y.Op != token.MUL {
				return true
			}
		case *ssa.DebugRef:
		default:
			return true
		}
	}
	return false
}

func dgAdd(a, d int) int {
	if a == dgTop {
		return dgTop
	}
	r := a + d
	if r < -1 || r > 1 {
		return dgTop
	}
	return r
}

func dgJoin(a, b dgState) dgState {
	if !a.reached {
		return b
	}
	if !b.reached {
		return a
	}
	r := dgState{reached: true, inc: a.inc, def: a.def}
	if a.inc != b.inc {
		r.inc = dgTop
	}
	if a.def != b.def {
		r.def = dgTop
	}
	r.within = a.within && b.within
	r.l = a.l
	if b.l > r.l {
		r.l = b.l
	}
	switch {
	case a.pend == nil && b.pend == nil:
	case a.pend != nil && b.pend != nil && a.pend.val == b.pend.val:
		r.pend = a.pend
	default:
		for _, p := range []*dgPend{a.pend, b.pend} {
			if p != nil && (p.dNil != 0 || p.dErr != 0) {
				r.inc = dgTop
			}
		}
	}
	return r
}

func dgEq(a, b dgState) bool {
	if a.reached != b.reached || a.inc != b.inc || a.def != b.def || a.within != b.within || (a.within && a.l != b.l) {
		return false
	}
	if (a.pend == nil) != (b.pend == nil) {
		return false
	}
	return a.pend == nil || a.pend.val == b.pend.val
}

// dropPend: the helper result was not tested before the next use of the counter
func dropPend(s *dgState) {
	if s.pend != nil && (s.pend.dNil != 0 || s.pend.dErr != 0) {
		s.inc = dgTop
	}
	s.pend = nil
}

func (an *dgAn) isRec(fn *ssa.Function, c *ssa.CallCommon) bool {
	if c.IsInvoke() {
		return false
	}
	sc := c.StaticCallee()
	if sc == nil {
		_, isBuiltin := c.Value.(*ssa.Builtin)
		return !isBuiltin // a call through a function value: cannot be shown harmless
	}
	return sc.Pkg == fn.Pkg && an.canRecurse[fnName(rootFn(sc))]
}

// curF: v is the value F has when control reaches the end of block b (position end)
func (an *dgAn) curF(v ssa.Value, b *ssa.BasicBlock) bool {
	pos := -1
	if u, ok := v.(*ssa.UnOp); ok && u.Op == token.MUL && an.isF(u.X) && u.Block() == b {
		for i, ins := range b.Instrs {
			if ins == ssa.Instruction(u) {
				pos = i
			}
		}
	} else {
		for i, ins := range b.Instrs {
			if st, ok := ins.(*ssa.Store); ok && an.isF(st.Addr) && st.Val == v {
				pos = i
			}
		}
	}
	if pos < 0 {
		return false
	}
	for _, ins := range b.Instrs[pos+1:] {
		switch x := ins.(type) {
		case *ssa.Store:
			if an.isF(x.Addr) {
				return false
			}
		case *ssa.Call, *ssa.Go:
			return false
		}
	}
	return true
}

// refine: the states on the two outgoing edges of block b (which ends in an If) given the state at its end
func (an *dgAn) refine(b *ssa.BasicBlock, s dgState) (dgState, dgState) {
	iff := b.Instrs[len(b.Instrs)-1].(*ssa.If)
	cond := iff.Cond
	neg := false
	for {
		u, ok := cond.(*ssa.UnOp)
		if !ok || u.Op != token.NOT {
			break
		}
		cond = u.X
		neg = !neg
	}
	t, f := s, s
	bo, ok := cond.(*ssa.BinOp)
	if !ok {
		return t, f
	}
	swap := func() {
		if neg {
			t, f = f, t
		}
	}
	if relOp(bo.Op) {
		op := bo.Op
		var c *ssa.Const
		if k, ok := bo.Y.(*ssa.Const); ok && an.curF(bo.X, b) {
			c = k
		} else if k, ok := bo.X.(*ssa.Const); ok && an.curF(bo.Y, b) {
			c = k
			switch op { // K op F  ==  F op' K
			case token.GTR:
				op = token.LSS
			case token.GEQ:
				op = token.LEQ
			case token.LSS:
				op = token.GTR
			case token.LEQ:
				op = token.GEQ
			}
		}
		if c == nil || c.Value == nil || c.Value.Kind() != constant.Int {
			return t, f
		}
		k, exact := constant.Int64Val(c.Value)
		if !exact {
			return t, f
		}
		dropPend(&t)
		dropPend(&f)
		switch op {
		case token.GTR: // F > k : false side has F <= k
			f.within, f.l = true, k
		case token.GEQ: // F >= k : false side has F <= k-1
			f.within, f.l = true, k-1
		case token.LSS: // F < k : true side has F <= k-1
			t.within, t.l = true, k-1
		case token.LEQ:
			t.within, t.l = true, k
		}
		swap()
		return t, f
	}
	if (bo.Op == token.NEQ || bo.Op == token.EQL) && s.pend != nil {
		isNil := func(v ssa.Value) bool { c, ok := v.(*ssa.Const); return ok && c.Value == nil }
		var other ssa.Value
		if isNil(bo.Y) {
			other = bo.X
		} else if isNil(bo.X) {
			other = bo.Y
		}
		if other == nil {
			return t, f
		}
		match := false
		if s.pend.errIdx < 0 {
			match = other == s.pend.val
		} else if ex, ok := other.(*ssa.Extract); ok {
			match = ex.Tuple == s.pend.val && ex.Index == s.pend.errIdx
		}
		if !match {
			return t, f
		}
		nilS, errS := s, s
		nilS.pend, errS.pend = nil, nil
		nilS.inc = dgAdd(s.inc, s.pend.dNil)
		errS.inc = dgAdd(s.inc, s.pend.dErr)
		if s.pend.withinNil {
			nilS.within, nilS.l = true, s.pend.lNil
		} else if s.pend.dNil != 0 {
			nilS.within = false
		}
		if s.pend.dErr != 0 {
			errS.within = false
		}
		if bo.Op == token.NEQ { // x != nil : true side non-nil
			t, f = errS, nilS
		} else {
			t, f = nilS, errS
		}
		swap()
		return t, f
	}
	return t, f
}

// run: abstract execution of fn; level = nesting of helper summaries in use
func (an *dgAn) run(fn *ssa.Function, level int) *dgResult {
	res := &dgResult{recOK: true, valid: true}
	n := len(fn.Blocks)
	if n == 0 {
		return res
	}
	out := make([]dgState, n)
	errIdx := -1
	nerr := 0
	errT := types.Universe.Lookup("error").Type()
	for i := 0; i < fn.Signature.Results().Len(); i++ {
		if types.Identical(fn.Signature.Results().At(i).Type(), errT) {
			errIdx = i
			nerr++
		}
	}
	if nerr != 1 {
		errIdx = -1
	}
	var recv ssa.Value
	if fn.Signature.Recv() != nil && len(fn.Params) > 0 {
		recv = fn.Params[0]
	}
	edge := func(p, b *ssa.BasicBlock) dgState {
		s := out[p.Index]
		if !s.reached {
			return s
		}
		if len(p.Succs) == 2 && p.Succs[0] != p.Succs[1] {
			if _, ok := p.Instrs[len(p.Instrs)-1].(*ssa.If); ok {
				t, f := an.refine(p, s)
				if p.Succs[0] == b {
					return t
				}
				return f
			}
		}
		return s
	}
	transfer := func(b *ssa.BasicBlock, s dgState, record bool) dgState {
		for _, ins := range b.Instrs {
			switch x := ins.(type) {
			case *ssa.FieldAddr:
				if an.isF(x) && addrEscapes(x) {
					s.inc = dgTop
					if record {
						res.assigns = true
					}
				}
			case *ssa.Store:
				if !an.isF(x.Addr) {
					continue
				}
				dropPend(&s)
				switch stepOf(x, an.f) {
				case 1:
					s.inc = dgAdd(s.inc, 1)
					s.l++ // F <= L before the step gives F <= L+1 after it
					if record {
						res.events, res.sawInc = true, true
					}
				case -1:
					s.inc = dgAdd(s.inc, -1)
					if record {
						res.events = true
					}
				default:
					s.inc = dgTop
					s.within = false
					if record {
						res.assigns = true
					}
				}
			case *ssa.MakeClosure:
				g, _ := x.Fn.(*ssa.Function)
				if g == nil || !an.writes[g] {
					continue
				}
				// a closure that writes F may only be deferred or called on the spot
				if refs := x.Referrers(); refs != nil {
					for _, r := range *refs {
						ci, ok := r.(ssa.CallInstruction)
						if !ok || ci.Common().Value != ssa.Value(x) {
							s.inc = dgTop
						}
					}
				}
			case *ssa.Defer:
				g := deferCallee(x)
				if g == nil || !an.writes[g] {
					continue
				}
				if record {
					if an.steps[g] {
						res.events = true
					} else {
						res.assigns = true
					}
				}
				sm := an.summary(g, level+1)
				if sm != nil && !sm.split && sm.net == -1 {
					if s.def == 0 {
						s.def = 1
					} else {
						s.def = dgTop
					}
				} else {
					s.inc = dgTop
				}
			case *ssa.Call, *ssa.Go:
				c := x.(ssa.CallInstruction).Common()
				if an.isRec(fn, c) {
					dropPend(&s)
					if record {
						res.nRec++
						res.valid = false
						ok := s.inc == 1 && s.def == 1 && s.within && (an.limit < 0 || s.l <= an.limit)
						if !ok {
							res.recOK = false
						} else if s.l > res.limit {
							res.limit = s.l
						}
					}
					continue
				}
				sc := c.StaticCallee()
				if sc == nil || !an.writes[sc] {
					continue
				}
				dropPend(&s)
				if record {
					if an.steps[sc] {
						res.events = true
					} else {
						res.assigns = true
					}
				}
				sm := an.summary(sc, level+1)
				sameRecv := sc.Signature.Recv() != nil && recv != nil && len(c.Args) > 0 && c.Args[0] == recv
				if sc.Parent() != nil { // own closure called on the spot
					sameRecv = rootFn(sc) == rootFn(fn)
				}
				if sm == nil || !sameRecv {
					s.inc = dgTop
					s.within = false
					continue
				}
				cv, _ := x.(*ssa.Call)
				if sm.split {
					if cv == nil {
						s.inc = dgTop
						continue
					}
					s.within = false
					s.pend = &dgPend{val: cv, errIdx: sm.callErrIdx(sc), dNil: sm.dNil, dErr: sm.dErr, withinNil: sm.within, lNil: sm.l}
					if record && (sm.dNil > 0 || sm.dErr > 0) {
						res.sawInc = true
					}
					continue
				}
				s.inc = dgAdd(s.inc, sm.net)
				if record && sm.net > 0 {
					res.sawInc = true
				}
				if sm.net != 0 {
					s.within = false
				}
				if sm.within {
					if sm.hasErr && cv != nil {
						s.pend = &dgPend{val: cv, errIdx: sm.callErrIdx(sc), withinNil: true, lNil: sm.l}
					} else if !sm.hasErr {
						s.within, s.l = true, sm.l
					}
				}
			case *ssa.Return:
				if !record {
					continue
				}
				r := dgRet{inc: s.inc, def: s.def, within: s.within, l: s.l}
				if s.pend != nil && (s.pend.dNil != 0 || s.pend.dErr != 0) {
					r.inc = dgTop
				}
				if errIdx >= 0 && errIdx < len(x.Results) {
					switch v := x.Results[errIdx].(type) {
					case *ssa.Const:
						if v.Value == nil {
							r.nilness = 1
						} else {
							r.nilness = 3
						}
					case *ssa.MakeInterface:
						r.nilness = 2 // an interface value made from a concrete value is never the nil interface
					case *ssa.Call:
						r.nilness = 3
						if sc := v.Call.StaticCallee(); sc != nil && (sc.String() == "fmt.Errorf" || sc.String() == "errors.New") {
							r.nilness = 2
						}
					default:
						r.nilness = 3
					}
				}
				res.rets = append(res.rets, r)
			}
		}
		return s
	}
	in := func(b *ssa.BasicBlock) dgState {
		if b.Index == 0 {
			return dgState{reached: true}
		}
		var s dgState
		for _, p := range b.Preds {
			s = dgJoin(s, edge(p, b))
		}
		return s
	}
	for iter, changed := 0, true; changed && iter < 64; iter++ {
		changed = false
		for _, b := range fn.Blocks {
			s := in(b)
			if !s.reached {
				continue
			}
			o := transfer(b, s, false)
			if !dgEq(o, out[b.Index]) {
				out[b.Index] = o
				changed = true
			}
		}
	}
	for _, b := range fn.Blocks {
		if s := in(b); s.reached {
			transfer(b, s, true)
		}
	}
	res.balanced = true
	for _, r := range res.rets {
		if r.inc == dgTop || r.def == dgTop || r.inc != r.def {
			res.balanced = false
		}
	}
	return res
}

// callErrIdx: where the error result of callee g sits in the value of a call: -1 = the call value itself
func (sm *dgSummary) callErrIdx(g *ssa.Function) int {
	if g.Signature.Results().Len() == 1 {
		return -1
	}
	return sm.errIdx
}

// summary of a helper (nil: not summarisable)
func (an *dgAn) summary(g *ssa.Function, level int) *dgSummary {
	if level > 2 || len(g.Blocks) == 0 {
		return nil
	}
	if an.sumDone[g] {
		return an.sums[g]
	}
	if an.canRecurse[fnName(rootFn(g))] && g.Parent() == nil {
		return nil
	}
	r := an.run(g, level)
	var sm *dgSummary
	defer func() {
		if level == 1 { // memoise only summaries computed with the full nesting budget
			an.sumDone[g] = true
			an.sums[g] = sm
		}
	}()
	if !r.valid || r.assigns || len(r.rets) == 0 {
		return nil
	}
	errIdx := -1
	errT := types.Universe.Lookup("error").Type()
	for i := 0; i < g.Signature.Results().Len(); i++ {
		if types.Identical(g.Signature.Results().At(i).Type(), errT) {
			errIdx = i
		}
	}
	s := &dgSummary{errIdx: errIdx, hasErr: true}
	sameNet, first := true, true
	nilNet, errNet := dgTop, dgTop
	nilSame, errSame := true, true
	within, withinNil := true, true
	var l, lNil int64
	for _, rt := range r.rets {
		if rt.inc == dgTop || rt.def == dgTop {
			return nil
		}
		net := rt.inc - rt.def
		if first {
			s.net, first = net, false
		} else if net != s.net {
			sameNet = false
		}
		within = within && rt.within
		if rt.l > l {
			l = rt.l
		}
		switch rt.nilness {
		case 1:
			if nilNet == dgTop {
				nilNet = net
			} else if nilNet != net {
				nilSame = false
			}
			withinNil = withinNil && rt.within
			if rt.l > lNil {
				lNil = rt.l
			}
		case 2:
			if errNet == dgTop {
				errNet = net
			} else if errNet != net {
				errSame = false
			}
		default:
			s.hasErr = false
		}
	}
	if s.net < -1 || s.net > 1 {
		return nil
	}
	if sameNet {
		if s.hasErr && nilNet != dgTop {
			s.within, s.l = withinNil, lNil
		} else {
			s.hasErr = false
			s.within, s.l = within, l
		}
		sm = s
		return sm
	}
	if !s.hasErr || !nilSame || !errSame || nilNet == dgTop || errNet == dgTop {
		return nil
	}
	s.split, s.dNil, s.dErr, s.within, s.l = true, nilNet, errNet, withinNil, lNil
	sm = s
	return sm
}

// depthGuards: the recogniser proper.  fns: the root functions of the package in table order; region: on or reachable
// from a cycle of the call graph.
func depthGuards(prog *ssa.Program, spkg *ssa.Package, roots []*ssa.Function, canRecurse, region map[string]bool) *depthInfo {
	all := pkgFuncs(prog, spkg)
	cands := counterCandidates(all)
	if len(cands) == 0 {
		return nil
	}
	limit := int64(-1)
	if c, ok := spkg.Pkg.Scope().Lookup("MaxRecursionDepth").(*types.Const); ok && c.Val().Kind() == constant.Int {
		if v, exact := constant.Int64Val(c.Val()); exact {
			limit = v
		}
	}
	var best *depthInfo
	for _, f := range cands {
		an := &dgAn{prog: prog, pkg: spkg, f: f, limit: limit, canRecurse: canRecurse, sums: map[*ssa.Function]*dgSummary{}, sumDone: map[*ssa.Function]bool{}}
		an.computeWrites(all)
		di := &depthInfo{Field: f, Touches: map[*ssa.Function]bool{}, Balanced: map[*ssa.Function]bool{}, Guard: map[*ssa.Function]bool{},
			Helpers: map[*ssa.Function]bool{}, Limits: map[*ssa.Function]int64{}}
		for _, fn := range all { // owner of the field
			for _, b := range fn.Blocks {
				for _, ins := range b.Instrs {
					if fa, ok := ins.(*ssa.FieldAddr); ok && di.Owner == nil && fieldVarOf(fa) == f {
						if n, ok := deref(fa.X.Type()).(*types.Named); ok {
							di.Owner, di.Index = n, fa.Field
						}
					}
				}
			}
		}
		for _, fn := range roots {
			if !an.writes[fn] {
				continue
			}
			r := an.run(fn, 0)
			name := fnName(fn)
			if os.Getenv("DG_DEBUG") != "" {
				fmt.Fprintf(os.Stderr, "dg %s: events=%v assigns=%v sawInc=%v balanced=%v recOK=%v nRec=%d rets=%+v\n", name, r.events, r.assigns, r.sawInc, r.balanced, r.recOK, r.nRec, r.rets)
			}
			touches := r.events || (r.assigns && region[name])
			if !touches {
				continue
			}
			exported := fn.Object() != nil && fn.Object().Exported()
			if !canRecurse[name] && !exported && an.summary(fn, 1) != nil {
				di.Helpers[fn] = true
				continue
			}
			di.Touches[fn] = true
			if r.balanced && !r.assigns {
				di.Balanced[fn] = true
				if r.recOK && r.sawInc {
					di.Guard[fn] = true
					di.Limits[fn] = r.limit
				}
			}
		}
		if best == nil || len(di.Guard) > len(best.Guard) {
			best = di
		}
	}
	return best
}
