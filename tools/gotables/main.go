// gotables: translator from the Go source of /repo to the tables the Coq development is
// instantiated with.  Output: one JSON document (static.json) and a generated Go registry file for
// the harness (node types and pool functions of pkg/sql/ast).  Deterministic (everything sorted).
package main

import (
	"encoding/json"
	"flag"
	"fmt"
	"go/ast"
	"go/constant"
	"go/token"
	"go/types"
	"os"
	"sort"
	"strings"

	"golang.org/x/tools/go/callgraph"
	"golang.org/x/tools/go/callgraph/static"
	"golang.org/x/tools/go/packages"
	"golang.org/x/tools/go/ssa"
	"golang.org/x/tools/go/ssa/ssautil"
)

const mod = "github.com/ajitpratap0/GoSQLX"

type Pool struct {
	Type string `json:"type"`
	Get  string `json:"get"`
	Put  string `json:"put"`
}

type CG struct {
	Funcs  []string `json:"funcs"`
	Edges  [][2]int `json:"edges"`
	Guards []int    `json:"guards"`
	// DepthInc: functions that increment the depth counter; DepthDeferDec: those that also defer the decrement
	DepthInc      []int    `json:"depth_inc"`
	DepthDeferDec []int    `json:"depth_defer_dec"`
	Dynamic       []string `json:"dynamic_calls"` // caller -> description of dynamic call sites
	// the counter field found by its role (Type.field), the helpers inlined into their callers, and per guard the
	// bound L such that recursive calls happen only while counter <= L (depthguard.go)
	DepthField   string   `json:"depth_field"`
	DepthHelpers []string `json:"depth_helpers"`
	GuardLimits  []int64  `json:"guard_limits"`
}

type ErrSite struct {
	Pkg   string `json:"pkg"`
	Func  string `json:"func"`
	Pos   string `json:"pos"`
	Class string `json:"class"` // builder | wrapw | rewrapv | bare | errorsnew
	Fmt   string `json:"fmt,omitempty"`
	Callee string `json:"callee,omitempty"`
}

type Global struct {
	Pkg     string   `json:"pkg"`
	Name    string   `json:"name"`
	Type    string   `json:"type"`
	Class   string   `json:"class"` // pool | once | mutex | atomic | const_like | other
	Writers []string `json:"writers"` // functions (outside init) that store to it / mutate through it
	Guarded []bool   `json:"guarded"` // per writer: mutex Lock seen in that function
}

type Out struct {
	NodeTypes  []string          `json:"ast_node_types"`
	ValueNode  map[string]bool   `json:"ast_value_node"`
	Pools      []Pool            `json:"pools"`
	PutExprCases []string        `json:"put_expression_cases"`
	Consts     map[string]string `json:"consts"`
	CallGraphs map[string]*CG    `json:"callgraphs"`
	ErrSites   []ErrSite         `json:"errsites"`
	Globals    []Global          `json:"globals"`
	FieldFx    []*FxType         `json:"fieldfx"`
	// C10 (metricsprog.go, accesses.go)
	MetricsProgs  []*MProg            `json:"metrics_progs"`
	MetricsFields map[string][]string `json:"metrics_fields"`
	MetricsPublic map[string]map[string]string `json:"metrics_public"`
	MetricsCallers []J `json:"metrics_callers"`
	MetricsVars   map[string][]string `json:"metrics_vars"`  // C10: the variables holding the metrics state, found by role
	MetricsNotes  []string            `json:"metrics_notes"` // C10: translator diagnostics (state not found ...)
	Accesses      []AccessSite        `json:"accesses"`
	Cells         []CellInfo          `json:"cells"`
	AccessNotes   []string            `json:"access_notes"`
	Acquisitions  []AcqSite           `json:"acquisitions"` // C10: Lock/RLock sites with the may-held sets (acquire.go)
	AcqNotes      []string            `json:"acq_notes"`
	PosCost       *PosCost            `json:"position_conversion"` // C20: the tokenizer's position conversion, found by role (poscost.go)
	LockExits     []LockExit          `json:"lock_exits"` // C10: what each entry point may still hold when it returns (acquire.go)
}

func main() {
	repo := flag.String("repo", "/repo", "repository root")
	outJSON := flag.String("out", "static.json", "output json")
	outReg := flag.String("registry", "", "output Go registry file for the harness")
	flag.Parse()

	cfg := &packages.Config{Mode: packages.LoadAllSyntax, Dir: *repo, BuildFlags: []string{"-tags=verif"}}
	pats := []string{"./pkg/...", "./cmd/..."}
	pkgs, err := packages.Load(cfg, pats...)
	if err != nil {
		fmt.Fprintln(os.Stderr, "load:", err)
		os.Exit(2)
	}
	nerr := 0
	packages.Visit(pkgs, nil, func(p *packages.Package) {
		for _, e := range p.Errors {
			if strings.HasPrefix(p.PkgPath, mod) {
				fmt.Fprintln(os.Stderr, "pkg error:", p.PkgPath, e)
				nerr++
			}
		}
	})
	if nerr > 0 {
		os.Exit(3)
	}
	byPath := map[string]*packages.Package{}
	for _, p := range pkgs {
		byPath[p.PkgPath] = p
	}
	out := &Out{ValueNode: map[string]bool{}, Consts: map[string]string{}, CallGraphs: map[string]*CG{}}

	astPkg := byPath[mod+"/pkg/sql/ast"]
	if astPkg == nil {
		fmt.Fprintln(os.Stderr, "ast package not found")
		os.Exit(3)
	}
	nodeTypesAndPools(astPkg, out)
	consts(byPath, out)

	prog, _ := ssautil.AllPackages(pkgs, ssa.InstantiateGenerics)
	prog.Build()
	cg := static.CallGraph(prog)
	depthInfos := map[string]*depthInfo{}
	for _, short := range []string{"pkg/sql/parser", "pkg/sql/tokenizer", "pkg/sql/ast", "pkg/gosqlx", "pkg/sql/security"} {
		p := byPath[mod+"/"+short]
		if p == nil {
			continue
		}
		out.CallGraphs[short], depthInfos[short] = callGraph(prog, cg, p)
	}
	for _, short := range []string{"pkg/sql/parser", "pkg/sql/tokenizer", "pkg/gosqlx"} {
		p := byPath[mod+"/"+short]
		if p != nil {
			errSites(p, short, out)
		}
	}
	globals(prog, pkgs, out)
	errFlow(prog, cg, byPath, *outJSON) // errsites.go: error-flow table (C13/C11) -> errflow.json
	for _, tn := range [][2]string{{"pkg/sql/parser", "Parser"}, {"pkg/sql/tokenizer", "Tokenizer"}} {
		if p := byPath[mod+"/"+tn[0]]; p != nil {
			if fx := fieldFx(prog, p, tn[1], depthInfos[tn[0]]); fx != nil {
				out.FieldFx = append(out.FieldFx, fx)
			}
		}
	}
	if p := byPath[mod+"/pkg/sql/tokenizer"]; p != nil {
		out.PosCost = posCost(prog, p, *repo)
	}
	metricsProgs(byPath, out)
	recordCallers(prog, pkgs, out)
	accesses(prog, pkgs, out)

	b, _ := json.MarshalIndent(out, "", " ")
	if err := os.WriteFile(*outJSON, b, 0o644); err != nil {
		panic(err)
	}
	if *outReg != "" {
		writeRegistry(*outReg, out)
	}
}

// ---------------------------------------------------------------------------------------------
// node types and pools

func nodeTypesAndPools(p *packages.Package, out *Out) {
	scope := p.Types.Scope()
	nodeObj := scope.Lookup("Node")
	if nodeObj == nil {
		fmt.Fprintln(os.Stderr, "ast.Node not found")
		os.Exit(3)
	}
	nodeIface := nodeObj.Type().Underlying().(*types.Interface)
	names := scope.Names()
	sort.Strings(names)
	for _, n := range names {
		obj, ok := scope.Lookup(n).(*types.TypeName)
		if !ok || !obj.Exported() || obj.IsAlias() {
			continue
		}
		named, ok := obj.Type().(*types.Named)
		if !ok || named.TypeParams().Len() > 0 {
			continue
		}
		if _, ok := named.Underlying().(*types.Struct); !ok {
			continue
		}
		if types.Implements(types.NewPointer(named), nodeIface) {
			out.NodeTypes = append(out.NodeTypes, n)
			out.ValueNode[n] = types.Implements(named, nodeIface)
		}
	}
	// pools: GetX() *T  with PutX(*T)
	for _, n := range names {
		if !strings.HasPrefix(n, "Get") {
			continue
		}
		fn, ok := scope.Lookup(n).(*types.Func)
		if !ok {
			continue
		}
		sig := fn.Type().(*types.Signature)
		if sig.Params().Len() != 0 || sig.Results().Len() != 1 {
			continue
		}
		ptr, ok := sig.Results().At(0).Type().(*types.Pointer)
		if !ok {
			continue
		}
		putName := "Put" + strings.TrimPrefix(n, "Get")
		pf, ok := scope.Lookup(putName).(*types.Func)
		if !ok {
			continue
		}
		psig := pf.Type().(*types.Signature)
		if psig.Params().Len() != 1 || !types.Identical(psig.Params().At(0).Type(), ptr) {
			continue
		}
		named, ok := ptr.Elem().(*types.Named)
		if !ok {
			continue // e.g. *[]Expression : handled separately by the harness
		}
		if _, ok := named.Underlying().(*types.Struct); !ok {
			continue
		}
		out.Pools = append(out.Pools, Pool{Type: named.Obj().Name(), Get: n, Put: putName})
	}
	// PutExpression type switch cases
	for _, f := range p.Syntax {
		for _, d := range f.Decls {
			fd, ok := d.(*ast.FuncDecl)
			if !ok || fd.Name.Name != "PutExpression" || fd.Recv != nil {
				continue
			}
			ast.Inspect(fd.Body, func(n ast.Node) bool {
				ts, ok := n.(*ast.TypeSwitchStmt)
				if !ok {
					return true
				}
				for _, c := range ts.Body.List {
					cc := c.(*ast.CaseClause)
					for _, e := range cc.List {
						if st, ok := e.(*ast.StarExpr); ok {
							if id, ok := st.X.(*ast.Ident); ok {
								out.PutExprCases = append(out.PutExprCases, id.Name)
							}
						}
					}
				}
				return true
			})
		}
	}
	sort.Strings(out.PutExprCases)
}

func consts(byPath map[string]*packages.Package, out *Out) {
	want := map[string][]string{
		"pkg/sql/tokenizer": {"MaxInputSize", "MaxTokens"},
		"pkg/sql/parser":    {"MaxRecursionDepth"},
		"pkg/sql/ast":       {"MaxCleanupDepth", "MaxWorkQueueSize"},
		"pkg/lsp":           {"MaxContentLength", "MaxDocumentSize", "RateLimitRequests", "RequestTimeout"},
	}
	for short, names := range want {
		p := byPath[mod+"/"+short]
		if p == nil {
			continue
		}
		for _, n := range names {
			if c, ok := p.Types.Scope().Lookup(n).(*types.Const); ok {
				if c.Val().Kind() == constant.Int {
					out.Consts[short+"."+n] = c.Val().ExactString()
				}
			}
		}
	}
}

// ---------------------------------------------------------------------------------------------
// call graph with closures attributed to their parents, guards recognised on SSA

func rootFn(f *ssa.Function) *ssa.Function {
	for f != nil && f.Parent() != nil {
		f = f.Parent()
	}
	return f
}

func fnName(f *ssa.Function) string {
	if f.Signature.Recv() != nil {
		return f.RelString(typesPkgOf(f)) // synthetic wrappers have no Pkg (synthwrap.go)
	}
	return f.Name()
}

func callGraph(prog *ssa.Program, cg *callgraph.Graph, p *packages.Package) (*CG, *depthInfo) {
	spkg := prog.Package(p.Types)
	res := &CG{}
	idx := map[string]int{}
	var fns []*ssa.Function
	for fn := range cg.Nodes {
		if fn == nil || fn.Pkg != spkg || fn.Parent() != nil || fn.Synthetic != "" {
			continue
		}
		fns = append(fns, fn)
	}
	sort.Slice(fns, func(i, j int) bool { return fnName(fns[i]) < fnName(fns[j]) })
	for i, fn := range fns {
		idx[fnName(fn)] = i
		res.Funcs = append(res.Funcs, fnName(fn))
	}
	edgeSet := map[[2]int]bool{}
	dyn := map[string]bool{}
	for fn, node := range cg.Nodes {
		if fn == nil || fn.Pkg != spkg {
			continue
		}
		r := rootFn(fn)
		if r == nil || r.Synthetic != "" {
			continue
		}
		ci, ok := idx[fnName(r)]
		if !ok {
			continue
		}
		for _, e := range node.Out {
			callee := e.Callee.Func
			if callee == nil || callee.Pkg != spkg {
				continue
			}
			cr := rootFn(callee)
			if cr == r && callee != r && callee.Parent() != nil {
				// call of own closure: its body is attributed to r already
				continue
			}
			if cj, ok := idx[fnName(cr)]; ok {
				edgeSet[[2]int{ci, cj}] = true
			}
		}
		// dynamic call sites (interface invoke or call through a function value)
		for _, b := range fn.Blocks {
			for _, ins := range b.Instrs {
				ci, ok := ins.(ssa.CallInstruction)
				if !ok {
					continue
				}
				c := ci.Common()
				if c.IsInvoke() {
					dyn[fnName(r)+" invoke "+c.Method.Name()] = true
				} else if c.StaticCallee() == nil {
					if _, isBuiltin := c.Value.(*ssa.Builtin); !isBuiltin {
						dyn[fnName(r)+" funcvalue"] = true
					}
				}
			}
		}
	}
	for e := range edgeSet {
		res.Edges = append(res.Edges, e)
	}
	sort.Slice(res.Edges, func(i, j int) bool {
		if res.Edges[i][0] != res.Edges[j][0] {
			return res.Edges[i][0] < res.Edges[j][0]
		}
		return res.Edges[i][1] < res.Edges[j][1]
	})
	for d := range dyn {
		res.Dynamic = append(res.Dynamic, d)
	}
	sort.Strings(res.Dynamic)
	// functions from which a cycle of the package's call graph can be reached: only calls to those matter for the
	// guard pattern (a call to a helper that can never lead back into recursion, e.g. a location accessor used
	// while building the limit error, is harmless wherever it stands)
	n := len(fns)
	adj := make([][]int, n)
	for e := range edgeSet {
		adj[e[0]] = append(adj[e[0]], e[1])
	}
	reach := make([]map[int]bool, n)
	for i := 0; i < n; i++ {
		seen := map[int]bool{}
		stack := append([]int(nil), adj[i]...)
		for len(stack) > 0 {
			v := stack[len(stack)-1]
			stack = stack[:len(stack)-1]
			if seen[v] {
				continue
			}
			seen[v] = true
			stack = append(stack, adj[v]...)
		}
		reach[i] = seen
	}
	canRecurse := map[string]bool{}
	for i := 0; i < n; i++ {
		if reach[i][i] {
			canRecurse[fnName(fns[i])] = true
			continue
		}
		for v := range reach[i] {
			if reach[v][v] {
				canRecurse[fnName(fns[i])] = true
				break
			}
		}
	}
	// guards: semantic recogniser over SSA (depthguard.go)
	region := map[string]bool{}
	for i := 0; i < n; i++ {
		if reach[i][i] {
			region[fnName(fns[i])] = true
			for v := range reach[i] {
				region[fnName(fns[v])] = true
			}
		}
	}
	di := depthGuards(prog, spkg, fns, canRecurse, region)
	if di != nil {
		if di.Owner != nil {
			res.DepthField = di.Owner.Obj().Name() + "." + di.Field.Name()
		}
		for i, fn := range fns {
			if di.Touches[fn] {
				res.DepthInc = append(res.DepthInc, i)
			}
			if di.Touches[fn] && di.Balanced[fn] {
				res.DepthDeferDec = append(res.DepthDeferDec, i)
			}
			if di.Touches[fn] && di.Guard[fn] {
				res.Guards = append(res.Guards, i)
				res.GuardLimits = append(res.GuardLimits, di.Limits[fn])
			}
			if di.Helpers[fn] {
				res.DepthHelpers = append(res.DepthHelpers, fnName(fn))
			}
		}
	}
	return res, di
}

func deref(t types.Type) types.Type {
	if p, ok := t.Underlying().(*types.Pointer); ok {
		return p.Elem()
	}
	return t
}

// ---------------------------------------------------------------------------------------------
// error sites (syntactic: every call that constructs an error value)

func errSites(p *packages.Package, short string, out *Out) {
	for _, f := range p.Syntax {
		fname := p.Fset.Position(f.Pos()).Filename
		if strings.HasSuffix(fname, "_test.go") {
			continue
		}
		for _, d := range f.Decls {
			fd, ok := d.(*ast.FuncDecl)
			if !ok || fd.Body == nil {
				continue
			}
			fnm := fd.Name.Name
			ast.Inspect(fd.Body, func(n ast.Node) bool {
				call, ok := n.(*ast.CallExpr)
				if !ok {
					return true
				}
				sel, ok := call.Fun.(*ast.SelectorExpr)
				if !ok {
					return true
				}
				obj := p.TypesInfo.Uses[sel.Sel]
				fn, ok := obj.(*types.Func)
				if !ok || fn.Pkg() == nil {
					return true
				}
				pos := p.Fset.Position(call.Pos())
				where := fmt.Sprintf("%s:%d", shortFile(pos.Filename), pos.Line)
				switch {
				case fn.Pkg().Path() == "fmt" && fn.Name() == "Errorf":
					fmtStr := ""
					if len(call.Args) > 0 {
						if tv, ok := p.TypesInfo.Types[call.Args[0]]; ok && tv.Value != nil {
							fmtStr = constant.StringVal(tv.Value)
						}
					}
					cls := "bare"
					if strings.Contains(fmtStr, "%w") {
						cls = "wrapw"
					}
					out.ErrSites = append(out.ErrSites, ErrSite{Pkg: short, Func: fnm, Pos: where, Class: cls, Fmt: fmtStr})
				case fn.Pkg().Path() == "errors" && fn.Name() == "New":
					out.ErrSites = append(out.ErrSites, ErrSite{Pkg: short, Func: fnm, Pos: where, Class: "errorsnew"})
				case fn.Pkg().Path() == mod+"/pkg/errors" && returnsErrorPtr(fn):
					cls := "builder"
					// a structured error built from the text of another error (cause dropped): any argument
					// that mentions err.Error() or formats an error value with %v
					if mentionsErrText(p, call) {
						cls = "rewrapv"
					}
					out.ErrSites = append(out.ErrSites, ErrSite{Pkg: short, Func: fnm, Pos: where, Class: cls, Callee: fn.Name()})
				}
				return true
			})
		}
	}
	sort.Slice(out.ErrSites, func(i, j int) bool {
		a, b := out.ErrSites[i], out.ErrSites[j]
		if a.Pkg != b.Pkg {
			return a.Pkg < b.Pkg
		}
		return a.Pos < b.Pos
	})
}

func shortFile(f string) string {
	i := strings.Index(f, "/pkg/")
	if i >= 0 {
		return f[i+1:]
	}
	return f
}

func returnsErrorPtr(fn *types.Func) bool {
	sig := fn.Type().(*types.Signature)
	if sig.Results().Len() != 1 {
		return false
	}
	s := sig.Results().At(0).Type().String()
	return strings.HasSuffix(s, "errors.Error") || s == "error"
}

func mentionsErrText(p *packages.Package, call *ast.CallExpr) bool {
	found := false
	errType := types.Universe.Lookup("error").Type()
	for _, a := range call.Args {
		ast.Inspect(a, func(n ast.Node) bool {
			switch x := n.(type) {
			case *ast.CallExpr:
				if sel, ok := x.Fun.(*ast.SelectorExpr); ok && sel.Sel.Name == "Error" && len(x.Args) == 0 {
					if tv, ok := p.TypesInfo.Types[sel.X]; ok && types.AssignableTo(tv.Type, errType) {
						found = true
					}
				}
				// fmt.Sprintf("...%v", err)
				if sel, ok := x.Fun.(*ast.SelectorExpr); ok && sel.Sel.Name == "Sprintf" {
					for _, aa := range x.Args[1:] {
						if tv, ok := p.TypesInfo.Types[aa]; ok && tv.Type != nil && types.AssignableTo(tv.Type, errType) && !isNilType(tv.Type) {
							found = true
						}
					}
				}
			}
			return true
		})
	}
	return found
}

func isNilType(t types.Type) bool {
	b, ok := t.(*types.Basic)
	return ok && b.Kind() == types.UntypedNil
}

// ---------------------------------------------------------------------------------------------
// package-level variables and who writes them

func globals(prog *ssa.Program, pkgs []*packages.Package, out *Out) {
	for _, p := range pkgs {
		if !strings.HasPrefix(p.PkgPath, mod+"/pkg/") {
			continue
		}
		spkg := prog.Package(p.Types)
		if spkg == nil {
			continue
		}
		short := strings.TrimPrefix(p.PkgPath, mod+"/")
		var names []string
		for n, m := range spkg.Members {
			if _, ok := m.(*ssa.Global); ok {
				names = append(names, n)
			}
		}
		sort.Strings(names)
		for _, n := range names {
			g := spkg.Members[n].(*ssa.Global)
			if strings.HasPrefix(n, "init$") || n == "_" {
				continue
			}
			t := deref(g.Type())
			gl := Global{Pkg: short, Name: n, Type: types.TypeString(t, func(p *types.Package) string { return p.Name() }), Class: classify(t)}
			writers := map[string]bool{}
			locked := map[string]bool{}
			for _, m := range spkg.Members {
				collectWriters(m, g, writers, locked)
			}
			// methods
			for _, m := range spkg.Members {
				if tn, ok := m.(*ssa.Type); ok {
					for _, T := range []types.Type{tn.Type(), types.NewPointer(tn.Type())} {
						ms := prog.MethodSets.MethodSet(T)
						for i := 0; i < ms.Len(); i++ {
							if f := prog.MethodValue(ms.At(i)); f != nil && f.Pkg == spkg {
								collectWritersFn(f, g, writers, locked)
							}
						}
					}
				}
			}
			var ws []string
			for w := range writers {
				ws = append(ws, w)
			}
			sort.Strings(ws)
			gl.Writers = ws
			for _, w := range ws {
				gl.Guarded = append(gl.Guarded, locked[w])
			}
			out.Globals = append(out.Globals, gl)
		}
	}
}

func classify(t types.Type) string {
	s := t.String()
	switch {
	case s == "sync.Pool":
		return "pool"
	case s == "sync.Once":
		return "once"
	case s == "sync.Mutex" || s == "sync.RWMutex":
		return "mutex"
	case strings.HasPrefix(s, "sync/atomic."):
		return "atomic"
	case s == "sync.Map":
		return "syncmap"
	}
	return "other"
}

func collectWriters(m ssa.Member, g *ssa.Global, writers, locked map[string]bool) {
	if f, ok := m.(*ssa.Function); ok {
		collectWritersFn(f, g, writers, locked)
	}
}

func collectWritersFn(f *ssa.Function, g *ssa.Global, writers, locked map[string]bool) {
	var visit func(fn *ssa.Function)
	seen := map[*ssa.Function]bool{}
	visit = func(fn *ssa.Function) {
		if seen[fn] {
			return
		}
		seen[fn] = true
		root := rootFn(fn)
		name := fnName(root)
		if name == "init" || strings.HasPrefix(name, "init#") {
			return
		}
		hasLock := false
		writes := false
		for _, b := range fn.Blocks {
			for _, ins := range b.Instrs {
				switch x := ins.(type) {
				case *ssa.Store:
					if reachesGlobal(x.Addr, g, 0) {
						writes = true
					}
				case *ssa.MapUpdate:
					if reachesGlobal(x.Map, g, 0) {
						writes = true
					}
				case ssa.CallInstruction:
					c := x.Common()
					if sc := c.StaticCallee(); sc != nil {
						n := sc.String()
						if strings.HasSuffix(n, "Mutex).Lock") || strings.HasSuffix(n, "RWMutex).Lock") {
							hasLock = true
						}
						// delete(m, k) builtin handled below
					}
					if bi, ok := c.Value.(*ssa.Builtin); ok && bi.Name() == "delete" && len(c.Args) > 0 && reachesGlobal(c.Args[0], g, 0) {
						writes = true
					}
				}
			}
		}
		if writes {
			writers[name] = true
		}
		if hasLock {
			locked[name] = true
		}
		for _, af := range fn.AnonFuncs {
			visit(af)
		}
	}
	visit(f)
}

// reachesGlobal: v is g, or an address/load derived from g (field, index, load of the global then deref)
func reachesGlobal(v ssa.Value, g *ssa.Global, depth int) bool {
	if depth > 8 {
		return false
	}
	switch x := v.(type) {
	case *ssa.Global:
		return x == g
	case *ssa.FieldAddr:
		return reachesGlobal(x.X, g, depth+1)
	case *ssa.IndexAddr:
		return reachesGlobal(x.X, g, depth+1)
	case *ssa.UnOp:
		if x.Op == token.MUL {
			return reachesGlobal(x.X, g, depth+1)
		}
	case *ssa.Field:
		return reachesGlobal(x.X, g, depth+1)
	}
	return false
}

// ---------------------------------------------------------------------------------------------

func writeRegistry(path string, out *Out) {
	var b strings.Builder
	b.WriteString("// Code generated by gotables from /repo's current pkg/sql/ast; DO NOT EDIT.\n\npackage main\n\n")
	b.WriteString("import (\n\t\"reflect\"\n\n\t\"github.com/ajitpratap0/GoSQLX/pkg/sql/ast\"\n)\n\n")
	b.WriteString("var nodeTypes = []reflect.Type{\n")
	for _, n := range out.NodeTypes {
		fmt.Fprintf(&b, "\treflect.TypeOf(ast.%s{}),\n", n)
	}
	b.WriteString("}\n\ntype poolReg struct {\n\tName string\n\tGet  func() interface{}\n\tPut  func(interface{})\n}\n\nvar poolRegs = []poolReg{\n")
	for _, p := range out.Pools {
		fmt.Fprintf(&b, "\t{%q, func() interface{} { return ast.%s() }, func(x interface{}) { ast.%s(x.(*ast.%s)) }},\n", p.Type, p.Get, p.Put, p.Type)
	}
	b.WriteString("}\n")
	if err := os.WriteFile(path, []byte(b.String()), 0o644); err != nil {
		panic(err)
	}
}
