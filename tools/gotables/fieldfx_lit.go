package main

// fieldfx, struct literals built in a local and handed on by value (robust3/05):
//
//	func fresh(old *T) T { return T{f: old.f, g: v} }        func (t *T) Reset() { *t = fresh(t) }
//
// go/ssa builds the literal in a non-escaping local L of type T (`local T (complit)`; one field store per element,
// then the whole-struct load `*L` that is returned).  L is a new value, not an instance: the stores into its fields
// and the load of it are no effects on an instance.  What the value does to an instance is decided where it is stored
// into one: at `*x = g(.., x, ..)` (call and store next to each other) the store is summarised field by field from the
// literal g returns:
//
//	zero   the literal does not mention the field, or gives it a constant zero:  the field is assigned the zero value
//	keep i the literal gives the field the value loaded from the same field of g's parameter i, the argument for
//	       parameter i is the pointer stored through, and g (transitively) never writes the field:  the field keeps
//	       its value, exactly as for `f: x.f` inside `*x = T{...}` (identityStores)
//	other  anything else:  assigned, value unknown (what a whole-struct store of an unknown value means for every field)
//
// The load of old.f inside g observes nothing (it is no read of the incoming value) when its only use is that element
// of the literal and EVERY use of g is such a store back into the instance the argument points to (g unexported, never
// used as a value); otherwise it stays a read.

import (
	"go/token"
	"go/types"

	"golang.org/x/tools/go/ssa"
)

const (
	litZero = iota
	litKeep
	litOther
)

type litField struct {
	kind  int
	param int        // litKeep: index into fn.Params
	ld    *ssa.UnOp  // litKeep: the load of param.f
	st    *ssa.Store // the store into L.f (nil when the literal does not mention the field)
}

type litInfo struct {
	alloc  *ssa.Alloc
	fields []litField
	stores []*ssa.Store // field stores into L
	loads  []*ssa.UnOp  // whole-struct loads of L
}

// litLocals: the locals of fn of type T that are only built field by field and then read as a whole, everything in
// the block of the Alloc (stores before loads): struct literals
func (a *fxAnalysis) litLocals(fn *ssa.Function) []*litInfo {
	var out []*litInfo
	for _, b := range fn.Blocks {
		pos := map[ssa.Instruction]int{}
		for i, ins := range b.Instrs {
			pos[ins] = i
		}
		for _, ins := range b.Instrs {
			al, ok := ins.(*ssa.Alloc)
			if !ok || al.Heap || !a.isTargetPtr(al.Type()) || al.Referrers() == nil {
				continue
			}
			li := &litInfo{alloc: al, fields: make([]litField, a.nf)}
			nst := make([]int, a.nf)
			good := true
			for _, r := range *al.Referrers() {
				switch y := r.(type) {
				case *ssa.DebugRef:
				case *ssa.UnOp:
					if y.Op != token.MUL || y.Block() != b {
						good = false
					} else {
						li.loads = append(li.loads, y)
					}
				case *ssa.FieldAddr:
					if y.X != ssa.Value(al) || y.Field >= a.nf || y.Referrers() == nil {
						good = false
						break
					}
					for _, r2 := range *y.Referrers() {
						switch z := r2.(type) {
						case *ssa.DebugRef:
						case *ssa.Store:
							if z.Addr != ssa.Value(y) || z.Val == ssa.Value(y) || z.Block() != b {
								good = false
							} else {
								li.stores = append(li.stores, z)
								nst[y.Field]++
								li.fields[y.Field].st = z
							}
						default:
							good = false
						}
					}
				default:
					good = false
				}
			}
			if !good || len(li.loads) == 0 {
				continue
			}
			for _, st := range li.stores {
				for _, ld := range li.loads {
					if pos[st] >= pos[ld] {
						good = false
					}
				}
			}
			if !good {
				continue
			}
			for f := range li.fields {
				lf := &li.fields[f]
				switch {
				case nst[f] == 0:
					lf.kind = litZero
				case nst[f] > 1:
					lf.kind = litOther
				case isZeroValue(lf.st.Val):
					lf.kind = litZero
				default:
					lf.kind = litOther
					v := lf.st.Val
					for {
						ct, ok := v.(*ssa.ChangeType)
						if !ok {
							break
						}
						v = ct.X
					}
					ld, ok := v.(*ssa.UnOp)
					if !ok || ld.Op != token.MUL {
						break
					}
					g, ok := a.fieldOf(ld.X)
					if !ok || g != f {
						break
					}
					p, ok := ld.X.(*ssa.FieldAddr).X.(*ssa.Parameter)
					if !ok {
						break
					}
					for i, q := range fn.Params {
						if q == p {
							lf.kind, lf.param, lf.ld = litKeep, i, ld
						}
					}
				}
			}
			out = append(out, li)
		}
	}
	return out
}

// litResult: fn's only result is a T and every return hands out (a whole-struct load of) one and the same literal
func (a *fxAnalysis) litResult(fn *ssa.Function) *litInfo {
	if fn == nil || len(fn.Blocks) == 0 || fn.Signature.Results().Len() != 1 {
		return nil
	}
	if n, ok := fn.Signature.Results().At(0).Type().(*types.Named); !ok || n.Obj() != a.target.Obj() {
		return nil
	}
	var lits []*litInfo
	var res *litInfo
	for _, b := range fn.Blocks {
		for _, ins := range b.Instrs {
			ret, ok := ins.(*ssa.Return)
			if !ok {
				continue
			}
			if lits == nil {
				lits = a.litLocals(fn)
				if len(lits) == 0 {
					return nil
				}
			}
			ld, ok := ret.Results[0].(*ssa.UnOp)
			if !ok || ld.Op != token.MUL {
				return nil
			}
			var hit *litInfo
			for _, li := range lits {
				if ld.X == ssa.Value(li.alloc) {
					hit = li
				}
			}
			if hit == nil || (res != nil && res != hit) {
				return nil
			}
			res = hit
		}
	}
	return res
}

// litCallStore: the result of the call is stored, as a whole, into an instance right after the call (nothing but
// address computations in between) and used for nothing else
func (a *fxAnalysis) litCallStore(call *ssa.Call) *ssa.Store {
	refs := call.Referrers()
	if refs == nil {
		return nil
	}
	var st *ssa.Store
	for _, r := range *refs {
		switch y := r.(type) {
		case *ssa.DebugRef:
		case *ssa.Store:
			if st != nil || y.Val != ssa.Value(call) || !a.isTargetPtr(y.Addr.Type()) || y.Block() != call.Block() {
				return nil
			}
			st = y
		default:
			return nil
		}
	}
	if st == nil {
		return nil
	}
	between := false
	for _, ins := range call.Block().Instrs {
		if ins == ssa.Instruction(call) {
			between = true
			continue
		}
		if ins == ssa.Instruction(st) {
			return st
		}
		if !between {
			continue
		}
		switch ins.(type) {
		case *ssa.DebugRef, *ssa.FieldAddr, *ssa.IndexAddr:
		default:
			return nil // a store, a load, a call ...: the instance may change or be observed between the call and the store
		}
	}
	return nil
}

// litKeeps: at `*x = g(...)` (st, call) field f keeps its value
func (a *fxAnalysis) litKeeps(call *ssa.Call, st *ssa.Store, g *ssa.Function, li *litInfo, f int) bool {
	lf := li.fields[f]
	if lf.kind != litKeep || lf.param >= len(call.Call.Args) || call.Call.Args[lf.param] != st.Addr {
		return false
	}
	gs := a.sum[g]
	return gs != nil && gs.mayWrite&(fset(1)<<uint(f)) == 0
}

// staticLitCallee: the literal-returning function of the package the call statically calls
func (a *fxAnalysis) staticLitCallee(call *ssa.Call) (*ssa.Function, *litInfo) {
	if call.Call.IsInvoke() {
		return nil, nil
	}
	g := call.Call.StaticCallee()
	if g == nil || a.sum[g] == nil {
		return nil, nil
	}
	if li := a.litResult(g); li != nil {
		return g, li
	}
	return nil, nil
}

// litIdentity fills id for the struct literals of fn (the locals it builds) and for the literals it receives from
// the functions it calls and stores into an instance
func (a *fxAnalysis) litIdentity(fn *ssa.Function, id *identInfo) {
	// (1) the literals built here: stores into them and loads of them are no effects on an instance
	for _, li := range a.litLocals(fn) {
		for _, st := range li.stores {
			f, _ := a.fieldOf(st.Addr)
			id.skip[st] |= fset(1) << uint(f)
		}
		for _, ld := range li.loads {
			id.local[ld] = true
		}
	}
	// (2) `*x = g(.., x, ..)`
	for _, b := range fn.Blocks {
		for _, ins := range b.Instrs {
			call, ok := ins.(*ssa.Call)
			if !ok {
				continue
			}
			g, li := a.staticLitCallee(call)
			if g == nil {
				continue
			}
			st := a.litCallStore(call)
			if st == nil {
				continue
			}
			for f := 0; f < a.nf; f++ {
				bit := fset(1) << uint(f)
				switch {
				case li.fields[f].kind == litZero:
					id.zero[st] |= bit
				case a.litKeeps(call, st, g, li, f):
					id.skip[st] |= bit
				}
			}
		}
	}
	// (3) fn itself returns a literal: the loads that only feed a kept field observe nothing when every use of fn
	// stores the field back where it was loaded from
	li := a.litResult(fn)
	if li == nil || fn.Parent() != nil || fn.Object() == nil || fn.Object().Exported() || fn.Synthetic != "" {
		return
	}
	for _, t := range a.bySig[sigKey(fn.Signature)] {
		if t == fn {
			return // used as a value somewhere
		}
	}
	var sites []*ssa.Call
	for _, h := range a.fns {
		for _, b := range h.Blocks {
			for _, ins := range b.Instrs {
				ci, ok := ins.(ssa.CallInstruction)
				if !ok || ci.Common().IsInvoke() || ci.Common().StaticCallee() != fn {
					continue
				}
				call, ok := ins.(*ssa.Call)
				if !ok {
					return // go / defer of fn: the result is dropped, the loads are reads
				}
				sites = append(sites, call)
			}
		}
	}
	if len(sites) == 0 {
		return
	}
	for f := 0; f < a.nf; f++ {
		lf := li.fields[f]
		if lf.kind != litKeep {
			continue
		}
		all := true
		for _, call := range sites {
			st := a.litCallStore(call)
			if st == nil || !a.litKeeps(call, st, fn, li, f) {
				all = false
			}
		}
		if refs := lf.ld.Referrers(); refs != nil {
			for _, r := range *refs {
				if _, dbg := r.(*ssa.DebugRef); !dbg && r != ssa.Instruction(lf.st) {
					all = false
				}
			}
		}
		if all {
			id.load[lf.ld] = true
		}
	}
}
